import DepsDev.Proofs.C13Iso

/-!
# `canonBFS` commutes with relabelings; its result is a permutation of the node ids
-/

namespace DepsDev.Resolve.GraphCanon

open List

def Outcome.map {α β : Type} (f : α → β) : Outcome α → Outcome β
  | .ok a => .ok (f a)
  | .err => .err
  | .panic s => .panic s

/-! ### checked lookups succeed on well-formed input -/

theorem length_mapping (ids : List Nat) : (mapping ids).length = ids.length := by
  simp [mapping]

theorem getElem?_mapping {ids : List Nat} {x : Nat} (hx : x < ids.length) :
    (mapping ids)[x]? = some (ids.idxOf x) := by
  simp [mapping, hx]

theorem renumberEdge_mapping {ids : List Nat} {e : Edge} (hs : e.src < ids.length) (hd : e.dst < ids.length) :
    renumberEdge (mapping ids) e = some (mapE (fun x => ids.idxOf x) e) := by
  simp [renumberEdge, getElem?_mapping hs, getElem?_mapping hd, mapE]

theorem filterMap_renumberEdge {ids : List Nat} {E : List Edge} (hE : EdgesIn ids.length E) :
    E.filterMap (renumberEdge (mapping ids)) = E.map (mapE (fun x => ids.idxOf x)) := by
  induction E with
  | nil => rfl
  | cons e es ih =>
    have he := hE e List.mem_cons_self
    have ih' := ih (fun e' he' => hE e' (List.mem_cons_of_mem _ he'))
    simp [renumberEdge_mapping he.1 he.2, ih']

/-- `renumber` does not panic on in-range edges: it renames and sorts. -/
theorem renumberEdges_ok {ids : List Nat} {E : List Edge} (hE : EdgesIn ids.length E) :
    renumberEdges (mapping ids) E = .ok (sortBy Edge.less (E.map (mapE (fun x => ids.idxOf x)))) := by
  unfold renumberEdges
  have hall : E.all (fun e => decide (e.src < (mapping ids).length) && decide (e.dst < (mapping ids).length)) = true := by
    rw [List.all_eq_true]
    intro e he
    have := hE e he
    simp [length_mapping, this.1, this.2]
  rw [if_pos hall, filterMap_renumberEdge hE]

/-- Conversely, success means the edges were in range. -/
theorem edgesIn_of_renumberEdges_ok {m : List Nat} {E E1 : List Edge} (h : renumberEdges m E = .ok E1) :
    EdgesIn m.length E := by
  unfold renumberEdges at h
  split at h
  · rename_i hall
    rw [List.all_eq_true] at hall
    intro e he
    have := hall e he
    simpa using this
  · cases h

/-- The unchecked body of `scratch`. -/
def scr (N : List Node) (order adj : List Nat) : List (Node × Nat) :=
  (adj.filter (fun to => !order.contains to)).filterMap (fun to => (N[to]?).map (fun nd => (nd, to)))

theorem scratch_ok {N : List Node} {order adj : List Nat} (h : ∀ x ∈ adj, x < N.length) :
    scratch N order adj = some (scr N order adj) := by
  unfold scratch scr
  have hall : adj.all (fun to => decide (to < N.length)) = true := by
    rw [List.all_eq_true]; intro x hx; simpa using h x hx
  rw [if_pos hall]

theorem mem_scr {N : List Node} {order adj : List Nat} {p : Node × Nat} (h : p ∈ scr N order adj) :
    p.2 ∈ adj ∧ N[p.2]? = some p.1 := by
  unfold scr at h
  rw [List.mem_filterMap] at h
  obtain ⟨to, hto, hp⟩ := h
  have hto' := (List.mem_filter.mp hto).1
  cases hn : N[to]? with
  | none => simp [hn] at hp
  | some nd =>
    simp [hn] at hp
    subst hp
    exact ⟨hto', hn⟩

/-! ### the sorted children and the duplicate flag -/

def adjDupN : List Node → Bool
  | a :: b :: rest => (a.cmp b == .eq) || adjDupN (b :: rest)
  | _ => false

theorem hasAdjDup_eq : ∀ l : List (Node × Nat), hasAdjDup l = adjDupN (l.map Prod.fst)
  | [] => rfl
  | [_] => rfl
  | a :: b :: rest => by
    simp only [hasAdjDup, List.map_cons, adjDupN]
    rw [hasAdjDup_eq (b :: rest)]
    rfl

/-- In a sorted list, "no two adjacent nodes compare equal" means "no two nodes are equal". -/
theorem nodup_of_adjDupN_false : ∀ l : List Node, Sorted Node.less l → adjDupN l = false → l.Nodup
  | [], _, _ => List.nodup_nil
  | [_], _, _ => by simp
  | a :: b :: rest, hs, hd => by
    simp only [adjDupN, Bool.or_eq_false_iff] at hd
    have hne : a ≠ b := by
      intro e
      have := (Node.cmp_eq_iff a b).mpr e
      simp [this] at hd
    have ih := nodup_of_adjDupN_false (b :: rest) hs.tail hd.2
    rw [List.nodup_cons]
    refine ⟨?_, ih⟩
    intro hmem
    cases hmem with
    | head => exact hne rfl
    | tail _ hc =>
      -- a ∈ rest: then ¬ b < a and ¬ a < b, so a = b
      have h1 : Node.less b a = false := List.rel_of_pairwise_cons hs List.mem_cons_self
      have h2 : Node.less a b = false := List.rel_of_pairwise_cons hs.tail hc
      exact hne (nodeLess_strictTotal.tri a b h2 h1)

/-- Conversely a sorted duplicate-free list has no adjacent equal nodes. -/
theorem adjDupN_false_of_nodup : ∀ l : List Node, l.Nodup → adjDupN l = false
  | [], _ => rfl
  | [_], _ => rfl
  | a :: b :: rest, nd => by
    rw [List.nodup_cons] at nd
    have hne : a ≠ b := fun e => nd.1 (e ▸ List.mem_cons_self)
    have : a.cmp b ≠ .eq := fun h => hne ((Node.cmp_eq_iff a b).mp h)
    simp only [adjDupN, Bool.or_eq_false_iff]
    refine ⟨by simpa using this, adjDupN_false_of_nodup (b :: rest) nd.2⟩

theorem map_fst_sortBy_pairLess (sc : List (Node × Nat)) :
    (sortBy pairLess sc).map Prod.fst = sortBy Node.less (sc.map Prod.fst) :=
  map_sortBy pairLess Node.less Prod.fst (fun _ _ => rfl) sc

/-- Rename the id component of (node, id) pairs. -/
def mapSnd (f : Nat → Nat) (p : Node × Nat) : Node × Nat := (p.1, f p.2)

theorem map_fst_mapSnd (f : Nat → Nat) (sc : List (Node × Nat)) :
    (sc.map (mapSnd f)).map Prod.fst = sc.map Prod.fst := by
  simp [List.map_map, Function.comp_def, mapSnd]

theorem map_snd_mapSnd (f : Nat → Nat) (sc : List (Node × Nat)) :
    (sc.map (mapSnd f)).map Prod.snd = (sc.map Prod.snd).map f := by
  simp [List.map_map, Function.comp_def, mapSnd]

/-- The children computed from a relabelled scratch list: same duplicate flag, and (without
duplicates) the same sorted list, relabelled. -/
theorem kids_iso {f : Nat → Nat} {sc sc' : List (Node × Nat)} (p : sc' ~ sc.map (mapSnd f)) :
    dupKids sc' = dupKids sc ∧ (dupKids sc = false → kids sc' = (kids sc).map (mapSnd f)) := by
  have hlen : sc'.length = sc.length := by simpa using p.length_eq
  have pfst : sc'.map Prod.fst ~ sc.map Prod.fst := by
    have := p.map Prod.fst
    rwa [map_fst_mapSnd] at this
  by_cases hgt : sc.length > 1
  · have hgt' : sc'.length > 1 := hlen ▸ hgt
    have hsorted : (sortBy pairLess sc').map Prod.fst = (sortBy pairLess sc).map Prod.fst := by
      rw [map_fst_sortBy_pairLess, map_fst_sortBy_pairLess]
      exact sortBy_eq_of_perm nodeLess_strictTotal pfst
    have hdup : dupKids sc' = dupKids sc := by
      simp only [dupKids, kids, hgt, hgt', if_true, hasAdjDup_eq, hsorted]
    refine ⟨hdup, ?_⟩
    intro hnd
    simp only [dupKids, kids, hgt, if_true, decide_true, Bool.true_and, hasAdjDup_eq] at hnd
    simp only [kids, hgt, hgt', if_true]
    have hs : Sorted Node.less ((sortBy pairLess sc).map Prod.fst) := by
      rw [map_fst_sortBy_pairLess]; exact sortBy_sorted nodeLess_strictTotal.weak _
    have nd1 : ((sortBy pairLess sc).map Prod.fst).Nodup := nodup_of_adjDupN_false _ hs hnd
    have nd2 : (sc.map Prod.fst).Nodup := nd1.perm ((sortBy_perm sc).map Prod.fst)
    have nd3 : (sc'.map Prod.fst).Nodup := nd2.perm pfst.symm
    have e1 : sortBy pairLess sc' = sortBy pairLess (sc.map (mapSnd f)) :=
      sortBy_key_eq_of_perm nodeLess_strictTotal Prod.fst p nd3
    rw [e1]
    exact (map_sortBy pairLess pairLess (mapSnd f) (fun _ _ => rfl) sc).symm
  · have hgt' : ¬ sc'.length > 1 := hlen ▸ hgt
    refine ⟨by simp [dupKids, hgt, hgt'], fun _ => ?_⟩
    simp only [kids, hgt, hgt', if_false]
    match sc, p, hlen, hgt with
    | [], p, _, _ => simpa using p
    | [a], p, _, _ => simpa using p
    | _ :: _ :: _, _, _, hgt => simp at hgt

/-! ### one BFS step under a relabeling -/

theorem adjacency_iso {f : Nat → Nat} {N N' : List Node} {E E' : List Edge} (h : Iso f N E N' E')
    (hE : EdgesIn N.length E) {x : Nat} (hx : x < N.length) :
    adjacency E' (f x) ~ (adjacency E x).map f := by
  unfold adjacency
  have p1 := (h.edges.filter (fun e => e.src == f x)).map (·.dst)
  refine p1.trans (Perm.of_eq ?_)
  rw [List.filter_map, List.map_map, List.map_map]
  have hf : E.filter ((fun e => e.src == f x) ∘ mapE f) = E.filter (fun e => e.src == x) := by
    apply List.filter_congr
    intro e he
    have := hE e he
    simp only [Function.comp, mapE_src]
    rw [Bool.eq_iff_iff]
    simp only [beq_iff_eq]
    exact ⟨fun e' => h.inj _ _ this.1 hx e', fun e' => by rw [e']⟩
  rw [hf]
  rfl

theorem adjacency_lt {n : Nat} {E : List Edge} (hE : EdgesIn n E) (x : Nat) : ∀ y ∈ adjacency E x, y < n := by
  intro y hy
  unfold adjacency at hy
  obtain ⟨e, he, rfl⟩ := List.mem_map.mp hy
  exact (hE e (List.mem_filter.mp he).1).2

theorem filterMap_congr' {α β : Type} {f g : α → Option β} {l : List α} (h : ∀ a ∈ l, f a = g a) :
    l.filterMap f = l.filterMap g := by
  induction l with
  | nil => rfl
  | cons x xs ih =>
    simp only [List.filterMap_cons, h x List.mem_cons_self]
    rw [ih (fun a ha => h a (List.mem_cons_of_mem _ ha))]

theorem scr_iso {f : Nat → Nat} {N N' : List Node} {E E' : List Edge} (h : Iso f N E N' E')
    {order adj adj' : List Nat} (ho : ∀ x ∈ order, x < N.length) (ha : ∀ x ∈ adj, x < N.length)
    (p : adj' ~ adj.map f) :
    scr N' (order.map f) adj' ~ (scr N order adj).map (mapSnd f) := by
  unfold scr
  have p1 := ((p.filter (fun to => !(order.map f).contains to))).filterMap
    (fun to => (N'[to]?).map (fun nd => (nd, to)))
  refine p1.trans (Perm.of_eq ?_)
  rw [List.filter_map, List.filterMap_map, List.map_filterMap]
  have hf : adj.filter ((fun to => !(order.map f).contains to) ∘ f) = adj.filter (fun to => !order.contains to) := by
    apply List.filter_congr
    intro x hx
    simp only [Function.comp]
    rw [contains_map_inj ho (ha x hx) h.inj]
  rw [hf]
  apply filterMap_congr'
  intro x hx
  have hx' : x < N.length := ha x (List.mem_filter.mp hx).1
  simp only [Function.comp, h.node x hx']
  cases N[x]? <;> simp [mapSnd]

/-! ### the loop, in lock-step -/

theorem bfs_lockstep {f : Nat → Nat} {N N' : List Node} {E E' : List Edge} (h : Iso f N E N' E')
    (hE : EdgesIn N.length E) :
    ∀ (fuel : Nat) (queue order : List Nat), (∀ x ∈ queue, x < N.length) → (∀ x ∈ order, x < N.length) →
      bfsLoop N' E' fuel (queue.map f) (order.map f) = (bfsLoop N E fuel queue order).map (List.map f) := by
  intro fuel
  induction fuel with
  | zero =>
    intro queue order _ _
    cases queue <;> simp [bfsLoop, Outcome.map]
  | succ fuel ih =>
    intro queue order hq ho
    cases queue with
    | nil => simp [bfsLoop, Outcome.map]
    | cons x queue =>
      have hx : x < N.length := hq x List.mem_cons_self
      have hq' : ∀ y ∈ queue, y < N.length := fun y hy => hq y (List.mem_cons_of_mem _ hy)
      simp only [List.map_cons, bfsLoop]
      rw [contains_map_inj ho hx h.inj]
      by_cases hc : order.contains x = true
      · simp only [hc, if_true]
        exact ih queue order hq' ho
      · simp only [hc, Bool.false_eq_true, if_false]
        have ho' : ∀ y ∈ order ++ [x], y < N.length := by
          intro y hy
          rcases List.mem_append.mp hy with hy | hy
          · exact ho y hy
          · rw [List.mem_singleton.mp hy]; exact hx
        have hadj := adjacency_lt hE x
        have hadj' : ∀ y ∈ adjacency E' (f x), y < N'.length := adjacency_lt (h.edgesIn hE) (f x)
        have hom : order.map f ++ [f x] = (order ++ [x]).map f := by simp
        rw [hom, scratch_ok hadj', scratch_ok hadj]
        have psc := scr_iso h ho' hadj (adjacency_iso h hE hx)
        obtain ⟨hdup, hkids⟩ := kids_iso psc
        simp only []
        rw [hdup]
        by_cases hd : dupKids (scr N (order ++ [x]) (adjacency E x)) = true
        · simp [hd, Outcome.map]
        · have hd' : dupKids (scr N (order ++ [x]) (adjacency E x)) = false := by simpa using hd
          simp only [hd', Bool.false_eq_true, if_false]
          rw [hkids hd', map_snd_mapSnd, ← List.map_append]
          apply ih _ _ _ ho'
          intro y hy
          rcases List.mem_append.mp hy with hy | hy
          · exact hq' y hy
          · obtain ⟨p, hp, rfl⟩ := List.mem_map.mp hy
            have hp' : p ∈ scr N (order ++ [x]) (adjacency E x) := by
              unfold kids at hp
              split at hp
              · exact mem_sortBy.mp hp
              · exact hp
            exact hadj _ (mem_scr hp').1

/-! ### invariants of the loop -/

theorem mem_kids {sc : List (Node × Nat)} {p : Node × Nat} : p ∈ kids sc ↔ p ∈ sc := by
  unfold kids
  split
  · exact mem_sortBy
  · exact Iff.rfl

theorem bfs_inv {N : List Node} {E : List Edge} (hE : EdgesIn N.length E) :
    ∀ (fuel : Nat) (queue order res : List Nat), bfsLoop N E fuel queue order = .ok res →
      (∀ x ∈ queue, x < N.length) → (∀ x ∈ order, x < N.length) → order.Nodup →
      (∀ x ∈ res, x < N.length) ∧ res.Nodup ∧ order <+: res := by
  intro fuel
  induction fuel with
  | zero =>
    intro queue order res hr _ ho nd
    cases queue with
    | nil => simp only [bfsLoop, Outcome.ok.injEq] at hr; subst hr; exact ⟨ho, nd, List.prefix_refl _⟩
    | cons x q => simp [bfsLoop] at hr
  | succ fuel ih =>
    intro queue order res hr hq ho nd
    cases queue with
    | nil => simp only [bfsLoop, Outcome.ok.injEq] at hr; subst hr; exact ⟨ho, nd, List.prefix_refl _⟩
    | cons x queue =>
      have hx : x < N.length := hq x List.mem_cons_self
      have hq' : ∀ y ∈ queue, y < N.length := fun y hy => hq y (List.mem_cons_of_mem _ hy)
      simp only [bfsLoop] at hr
      by_cases hc : order.contains x = true
      · simp only [hc, if_true] at hr
        exact ih queue order res hr hq' ho nd
      · simp only [hc, Bool.false_eq_true, if_false] at hr
        have hadj := adjacency_lt hE x
        rw [scratch_ok hadj] at hr
        have ho' : ∀ y ∈ order ++ [x], y < N.length := by
          intro y hy
          rcases List.mem_append.mp hy with hy | hy
          · exact ho y hy
          · rw [List.mem_singleton.mp hy]; exact hx
        have nd' : (order ++ [x]).Nodup := by
          have hx' : x ∉ order := by simpa using hc
          rw [List.nodup_append]
          refine ⟨nd, by simp, ?_⟩
          intro a ha b hb
          rw [List.mem_singleton.mp hb]
          exact fun e => hx' (e ▸ ha)
        simp only [] at hr
        split at hr
        · cases hr
        · have hq'' : ∀ y ∈ queue ++ (kids (scr N (order ++ [x]) (adjacency E x))).map (·.2), y < N.length := by
            intro y hy
            rcases List.mem_append.mp hy with hy | hy
            · exact hq' y hy
            · obtain ⟨p, hp, rfl⟩ := List.mem_map.mp hy
              exact hadj _ (mem_scr (mem_kids.mp hp)).1
          obtain ⟨r1, r2, r3⟩ := ih _ _ res hr hq'' ho' nd'
          exact ⟨r1, r2, (List.prefix_append order [x]).trans r3⟩

/-- On success `canonBFS` returns a permutation of the node ids that starts with the root. -/
theorem canonBFS_perm {N : List Node} {E : List Edge} (hE : EdgesIn N.length E) (hn : 0 < N.length)
    {order : List Nat} (h : canonBFS N E = .ok order) :
    order ~ List.range N.length ∧ order.head? = some 0 := by
  unfold canonBFS at h
  cases hb : bfsLoop N E (E.length + 1) [0] [] with
  | err => simp [hb] at h
  | panic s => simp [hb] at h
  | ok res =>
    simp only [hb] at h
    split at h
    · cases h
    · rename_i hlen
      simp only [Outcome.ok.injEq] at h
      subst h
      -- first iteration: the root is labeled
      have hstep : bfsLoop N E (E.length + 1) [0] [] =
          (if dupKids (scr N ([] ++ [0]) (adjacency E 0)) = true then Outcome.err
           else bfsLoop N E E.length ([] ++ (kids (scr N ([] ++ [0]) (adjacency E 0))).map (·.2)) ([] ++ [0])) := by
        have := scratch_ok (order := [0]) (adjacency_lt hE 0)
        simp [bfsLoop, this]
      rw [hstep] at hb
      split at hb
      · cases hb
      · have hq : ∀ y ∈ ([] : List Nat) ++ (kids (scr N ([] ++ [0]) (adjacency E 0))).map (·.2), y < N.length := by
          intro y hy
          simp only [List.nil_append] at hy
          obtain ⟨p, hp, rfl⟩ := List.mem_map.mp hy
          exact adjacency_lt hE 0 _ (mem_scr (mem_kids.mp hp)).1
        obtain ⟨r1, r2, r3⟩ := bfs_inv hE _ _ _ res hb hq (by simpa using hn) (by simp)
        refine ⟨perm_range_of_nodup r2 r1 (Nat.le_of_not_lt hlen), ?_⟩
        obtain ⟨t, rfl⟩ := r3
        simp

theorem canonBFS_iso {f : Nat → Nat} {N N' : List Node} {E E' : List Edge} (h : Iso f N E N' E')
    (hE : EdgesIn N.length E) (hn : 0 < N.length) :
    canonBFS N' E' = (canonBFS N E).map (List.map f) := by
  unfold canonBFS
  have hl : E'.length = E.length := by simpa using h.edges.length_eq
  have h0 := bfs_lockstep h hE (E.length + 1) [0] [] (by simpa using hn) (by simp)
  simp only [List.map_cons, List.map_nil, h.root] at h0
  rw [hl, h0]
  cases bfsLoop N E (E.length + 1) [0] [] with
  | err => rfl
  | panic s => rfl
  | ok res =>
    simp only [Outcome.map, List.length_map, h.len]
    split <;> rfl

/-! ### the fuel `1 + len(edges)` is never exhausted; no other panic on in-range edges -/

/-- Edges whose source is not yet labeled: each can put one entry on the queue. -/
def pending (E : List Edge) (order : List Nat) : Nat :=
  (E.filter (fun e => !order.contains e.src)).length

theorem pending_step (E : List Edge) (order : List Nat) (x : Nat) (hx : order.contains x = false) :
    pending E (order ++ [x]) + (adjacency E x).length = pending E order := by
  unfold pending adjacency
  rw [List.length_map]
  induction E with
  | nil => rfl
  | cons e es ih =>
    simp only [List.filter_cons]
    by_cases hs : e.src = x
    · have h1 : (order ++ [x]).contains e.src = true := by simp [hs]
      have h2 : order.contains e.src = false := by rw [hs]; exact hx
      have h3 : (e.src == x) = true := by simp [hs]
      simp only [h1, h2, h3, Bool.not_true, Bool.not_false, Bool.false_eq_true, if_false, if_true, List.length_cons]
      omega
    · have h3 : (e.src == x) = false := by simpa using hs
      have h1 : (order ++ [x]).contains e.src = order.contains e.src := by
        rw [Bool.eq_iff_iff]
        simp only [List.contains_iff_mem, List.mem_append, List.mem_singleton]
        constructor
        · rintro (h | h)
          · exact h
          · exact absurd h hs
        · exact Or.inl
      cases hb : order.contains e.src <;>
        simp only [h1, h3, hb, Bool.not_false, Bool.not_true, if_true, if_false, Bool.false_eq_true,
          List.length_cons] <;> omega

theorem length_scr_le (N : List Node) (order adj : List Nat) : (scr N order adj).length ≤ adj.length := by
  unfold scr
  exact Nat.le_trans (List.length_filterMap_le _ _) (List.length_filter_le _ _)

theorem length_kids (sc : List (Node × Nat)) : (kids sc).length = sc.length := by
  unfold kids; split <;> simp

/-- With enough fuel for the queue and the pending edges the loop never panics. -/
theorem bfs_no_panic {N : List Node} {E : List Edge} (hE : EdgesIn N.length E) :
    ∀ (fuel : Nat) (queue order : List Nat), queue.length + pending E order ≤ fuel →
      ∀ s, bfsLoop N E fuel queue order ≠ .panic s := by
  intro fuel
  induction fuel with
  | zero =>
    intro queue order hf s
    cases queue with
    | nil => simp [bfsLoop]
    | cons x q => simp at hf
  | succ fuel ih =>
    intro queue order hf s
    cases queue with
    | nil => simp [bfsLoop]
    | cons x queue =>
      simp only [bfsLoop]
      by_cases hc : order.contains x = true
      · simp only [hc, if_true]
        apply ih
        simp only [List.length_cons] at hf
        omega
      · simp only [hc, Bool.false_eq_true, if_false]
        rw [scratch_ok (adjacency_lt hE x)]
        simp only []
        split
        · simp
        · apply ih
          have hp := pending_step E order x (by simpa using hc)
          have hl := length_scr_le N (order ++ [x]) (adjacency E x)
          simp only [List.length_cons] at hf
          simp only [List.length_append, List.length_map, length_kids]
          omega

theorem canonBFS_no_panic {N : List Node} {E : List Edge} (hE : EdgesIn N.length E) :
    ∀ s, canonBFS N E ≠ .panic s := by
  intro s
  unfold canonBFS
  have h := bfs_no_panic hE (E.length + 1) [0] [] (by
    have : pending E [] ≤ E.length := List.length_filter_le _ _
    simp only [List.length_cons, List.length_nil]; omega)
  cases hb : bfsLoop N E (E.length + 1) [0] [] with
  | err => simp
  | panic s' => exact absurd hb (h s')
  | ok res => simp only []; split <;> simp

end DepsDev.Resolve.GraphCanon
