import DepsDev.Proofs.C03L3NpmLt

/-!
# C03 layer L3 for npm, operator `lt`: operands with a prerelease tag; `L3Npm .lt`
-/
namespace DepsDev.Proofs.C03

open DepsDev DepsDev.Semver DepsDev.Ref

set_option linter.unusedSimpArgs false
set_option linter.unusedVariables false

theorem l3_pre_lt_lt : L3PreO .lt .lt := by l3_pre
theorem l3_pre_eq_lt : L3PreO .lt .eq := by l3_pre
theorem l3_pre_gt_lt : L3PreO .lt .gt := by l3_pre

theorem l3_npm_lt : L3Npm .lt :=
  l3_assemble _ l3_full_lt (l3_pre_assemble _ l3_pre_lt_lt l3_pre_eq_lt l3_pre_gt_lt) l3_part_lt

end DepsDev.Proofs.C03
