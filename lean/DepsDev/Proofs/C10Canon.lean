import DepsDev.Proofs.C10ParseTop
import DepsDev.Proofs.C01Generic

/-!
# C10-b — `Version.Canon` of a SemVer-family version, and the round trip

`canon_generic`: what `Canon` prints for a version without extension and wildcard;
comparison is blind to zero padding and NuGet's lower-casing (`Reparsed`,
`vcompare_reparsed_left/right`); `canon_roundtrip_shape`: the canonical text parses, the
result compares equal and prints identically.
-/
namespace DepsDev.Proofs.C10
open DepsDev DepsDev.Semver Digits

/-- Numbers padded with zeros to at least three (what `printNums` walks over). -/
def pad3 (l : List Int) : List Int := l ++ List.replicate (3 - l.length) 0

theorem pad3_length (l : List Int) : (pad3 l).length = max 3 l.length := by
  simp [pad3]; omega

theorem getD_pad3 (l : List Int) (i : Nat) : (pad3 l).getD i 0 = l.getD i 0 := by
  unfold pad3
  by_cases h : i < l.length
  · simp [List.getD, List.getElem?_append_left h]
  · have h' : l.length ≤ i := by omega
    simp only [List.getD, List.getElem?_append_right h', List.getElem?_eq_none h']
    cases hr : (List.replicate (3 - l.length) (0:Int))[i - l.length]? with
    | none => rfl
    | some x =>
      have := List.mem_of_getElem? hr
      simp at this
      simp [this.2]

/-- `printNumsN.go` when no wildcard is met: every component printed, `.`-separated. -/
theorem printNums_go (v : Version) (k : Nat) : ∀ i, (∀ j, i ≤ j → j < i + k → v.getNum j ≠ wildcard) →
    printNumsN.go v i k = (List.range' i k).flatMap (fun j => (if j > 0 then [46] else []) ++ valueBytes (v.getNum j)) := by
  induction k with
  | zero => intro i _; simp [printNumsN.go]
  | succ k ih =>
    intro i h
    have h0 := h i (by omega) (by omega)
    simp only [printNumsN.go, beq_iff_eq, h0, ↓reduceIte, List.range'_succ, List.flatMap_cons]
    rw [ih (i + 1) (fun j h1 h2 => h j (by omega) (by omega))]

theorem range'_flatMap_dot (f : Nat → Int) (k : Nat) : ∀ i, 0 < i →
    (List.range' i k).flatMap (fun j => (if j > 0 then [46] else []) ++ valueBytes (f j)) =
      dotNums ((List.range' i k).map f) := by
  induction k with
  | zero => intro i _; simp [dotNums]
  | succ k ih =>
    intro i hi
    simp only [List.range'_succ, List.flatMap_cons, List.map_cons, dotNums, hi, ↓reduceIte]
    have := ih (i + 1) (by omega)
    simp only [dotNums] at this
    rw [this]; simp

theorem range_map_getNum (v : Version) : (List.range v.atLeast3).map v.getNum = pad3 v.num := by
  apply List.ext_getElem?
  intro i
  have hl : v.atLeast3 = (pad3 v.num).length := by
    rw [pad3_length]; unfold Version.atLeast3; split <;> omega
  by_cases h : i < v.atLeast3
  · have h' : i < (pad3 v.num).length := by omega
    rw [List.getElem?_map, List.getElem?_range h]
    simp only [Option.map_some, Version.getNum]
    rw [← getD_pad3, List.getD, List.getElem?_eq_getElem h']
    simp
  · have h' : (pad3 v.num).length ≤ i := by omega
    rw [List.getElem?_eq_none h', List.getElem?_eq_none (by simp; omega)]

theorem printNums_eq (v : Version) (hw : v.isWildcard = false) : printNums v = renderNums (pad3 v.num) := by
  have hnw : ∀ j, v.getNum j ≠ wildcard := by
    intro j
    simp only [Version.isWildcard, List.any_eq_false, beq_iff_eq] at hw
    unfold Version.getNum List.getD
    cases hj : v.num[j]? with
    | none => simp [wildcard_lit]
    | some x => simpa using hw x (List.mem_of_getElem? hj)
  unfold printNums printNumsN
  rw [printNums_go v _ 0 (fun j _ _ => hnw j), ← range_map_getNum]
  have h3 : ∃ n, v.atLeast3 = n + 1 := ⟨v.atLeast3 - 1, by unfold Version.atLeast3; split <;> omega⟩
  obtain ⟨n, hn⟩ := h3
  rw [hn, List.range_eq_range', List.range'_succ]
  simp only [List.flatMap_cons, Nat.lt_irrefl, ↓reduceIte, List.nil_append, List.map_cons, renderNums, gt_iff_lt]
  rw [range'_flatMap_dot v.getNum n (0 + 1) (by omega)]


/-- NuGet prints prerelease identifiers lower-cased. -/
def lowerIf (sys : System) (p : Bytes) : Bytes := if sys == .nuget then Bytes.toLowerAscii p else p

/-- `Version.Canon` of a version without extension and without wildcard. -/
theorem canon_generic (v : Version) (b : Bool) (he : v.ext = .none) (hw : v.isWildcard = false) :
    canon v b = lead v.sys ++ (renderNums (pad3 v.num) ++ (renderPre (v.pre.map (lowerIf v.sys)) ++
      (if (b && v.sys != .nuget) = true then v.build else []))) := by
  unfold canon
  have hl : (fun p => if (v.sys == System.nuget) = true then Bytes.toLowerAscii p else p) = lowerIf v.sys := rfl
  simp only [he, hw, Bool.false_eq_true, ↓reduceIte, printNums_eq v hw, lead, List.append_assoc, hl]
  congr 2
  have hb : (if (v.sys == System.nuget) = true then false else b) = (b && v.sys != .nuget) := by
    by_cases hn : v.sys = .nuget <;> simp [hn]
  rw [hb]
  congr 1
  cases v.pre with
  | nil => rfl
  | cons a as => rfl


/-! ## Comparison is blind to zero padding and to NuGet's lower-casing -/

theorem thenInt_zero (r : Int) : thenInt 0 r = r := by simp [thenInt]
theorem sgnInt_self (a : Int) : sgnInt a a = 0 := by simp [sgnInt]

theorem compareNumsNilL_pad (b : List Int) (k : Nat) :
    compareNumsNilL (b ++ List.replicate k 0) = compareNumsNilL b := by
  induction b with
  | nil =>
    induction k with
    | zero => rfl
    | succ k ih => simp only [List.nil_append] at ih; simp [List.replicate_succ, compareNumsNilL, sgnInt_self, thenInt_zero, ih]
  | cons y bs ih => simp [compareNumsNilL, ih]

theorem compareNums_pad_right (a b : List Int) (k : Nat) :
    compareNums a (b ++ List.replicate k 0) = compareNums a b := by
  induction a generalizing b k with
  | nil => simp [compareNums, compareNumsNilL_pad]
  | cons x as ih =>
    cases b with
    | nil =>
      cases k with
      | zero => rfl
      | succ k =>
        have := ih [] k
        simp only [List.nil_append] at this
        simp [List.replicate_succ, compareNums, this]
    | cons y bs => simp [compareNums, ih]

theorem compareNums_nil_right_pad (k : Nat) : compareNums (List.replicate k 0) [] = 0 := by
  induction k with
  | zero => rfl
  | succ k ih => simp [List.replicate_succ, compareNums, sgnInt_self, thenInt_zero, ih]

theorem compareNums_pad_left (a b : List Int) (k : Nat) :
    compareNums (a ++ List.replicate k 0) b = compareNums a b := by
  induction a generalizing b k with
  | nil =>
    induction k generalizing b with
    | zero => rfl
    | succ k ih =>
      cases b with
      | nil =>
        have := compareNums_nil_right_pad (k + 1)
        simpa [compareNums, compareNumsNilL] using this
      | cons y bs =>
        have := ih bs
        simp only [List.nil_append] at this
        simp [List.replicate_succ, compareNums, compareNumsNilL, this]
  | cons x as ih =>
    cases b with
    | nil => simp [compareNums, ih]
    | cons y bs => simp [compareNums, ih]

theorem compareNums_refl (a : List Int) : compareNums a a = 0 := by
  induction a with
  | nil => rfl
  | cons x as ih => simp [compareNums, sgnInt_self, thenInt_zero, ih]

theorem compareNums_pad3 (a : List Int) : compareNums a (pad3 a) = 0 := by
  unfold pad3; rw [compareNums_pad_right, compareNums_refl]


theorem toLowerAscii_eq (s : Bytes) : Bytes.toLowerAscii s = s.map toLowerB := rfl

theorem toLowerB_idem : ∀ c : UInt8, toLowerB (toLowerB c) = toLowerB c := by
  apply forall_uint8; decide +kernel

theorem toLowerB_fix_or_alpha : ∀ c : UInt8, (toLowerB c = c) ∨ (isAlphaB c = true ∧ isAlphaB (toLowerB c) = true) := by
  apply forall_uint8; decide +kernel

theorem toLowerB_eq_48 : ∀ c : UInt8, (toLowerB c == 48) = (c == 48) := by
  apply forall_uint8; decide +kernel

theorem alpha_not_digit_sign : ∀ c : UInt8, isAlphaB c = true → isDigitB c = false ∧ c ≠ 43 ∧ c ≠ 45 := by
  apply forall_uint8; decide +kernel

/-- A string containing a letter is not a number. -/
theorem parseIntBits_alpha (s : Bytes) (bits : Nat) (c : UInt8) (hc : c ∈ s) (ha : isAlphaB c = true) :
    parseIntBits s bits = none := by
  obtain ⟨hd, h43, h45⟩ := alpha_not_digit_sign c ha
  unfold parseIntBits
  split
  rename_i neg ds heq
  have hmem : c ∈ ds := by
    split at heq
    · rename_i r
      injection heq with _ h2; subst h2
      simp at hc
      rcases hc with h | h
      · exact absurd h h43
      · exact h
    · rename_i r
      injection heq with _ h2; subst h2
      simp at hc
      rcases hc with h | h
      · exact absurd h h45
      · exact h
    · injection heq with _ h2; subst h2; exact hc
  have : ds.all isDigitB = false := by
    rw [List.all_eq_false]
    exact ⟨c, hmem, by simp [hd]⟩
  simp [this]

theorem isNumeric_lower (sys : System) (s : Bytes) : isNumeric sys (s.map toLowerB) = isNumeric sys s := by
  by_cases hfix : ∀ c ∈ s, toLowerB c = c
  · have : s.map toLowerB = s := by
      conv => rhs; rw [← List.map_id s]
      exact List.map_congr_left (fun c hc => by simp [hfix c hc])
    rw [this]
  · have hex : ∃ c ∈ s, ¬ toLowerB c = c := by
      apply Classical.byContradiction
      intro hne
      apply hfix
      intro c hc
      apply Classical.byContradiction
      intro h
      exact hne ⟨c, hc, h⟩
    obtain ⟨c, hc, hne⟩ := hex
    have hal := (toLowerB_fix_or_alpha c).resolve_left hne
    have h1 : ∀ bits, parseIntBits s bits = none := fun bits => parseIntBits_alpha s bits c hc hal.1
    have h2 : ∀ bits, parseIntBits (s.map toLowerB) bits = none :=
      fun bits => parseIntBits_alpha _ bits (toLowerB c) (List.mem_map.mpr ⟨c, hc, rfl⟩) hal.2
    unfold isNumeric
    simp only [h1, h2]
    split <;> split <;> simp

theorem ekey_lower (sys : System) (s : Bytes) : ekey sys (lowerIf sys s) = ekey sys s := by
  unfold lowerIf
  by_cases hn : sys = .nuget
  · subst hn
    simp only [beq_self_eq_true, ↓reduceIte, toLowerAscii_eq]
    unfold ekey
    rw [isNumeric_lower]
    cases isNumeric System.nuget s with
    | some n => rfl
    | none =>
      simp only [beq_self_eq_true, ↓reduceIte, List.map_map]
      congr 1
      apply List.map_congr_left
      intro c _
      exact toLowerB_idem c
  · simp [hn]

theorem comparePre_lower (sys : System) (ps : List Bytes) :
    comparePre sys ps (ps.map (lowerIf sys)) = 0 := by
  rw [comparePre_eq, ordToInt_eq_zero]
  induction ps with
  | nil => simp [List.compareLex_nil_nil]
  | cons p ps ih =>
    simp only [List.map_cons, List.compareLex_cons_cons, ih]
    have : elemOrd sys p (lowerIf sys p) = .eq := by
      unfold elemOrd
      rw [ekey_lower]
      exact Std.ReflCmp.compare_self
    simp [this]


theorem elemOrd_lower_right (sys : System) (x y : Bytes) : elemOrd sys x (lowerIf sys y) = elemOrd sys x y := by
  unfold elemOrd; rw [ekey_lower]

theorem elemOrd_lower_left (sys : System) (x y : Bytes) : elemOrd sys (lowerIf sys x) y = elemOrd sys x y := by
  unfold elemOrd; rw [ekey_lower]

theorem comparePre_lower_right (sys : System) (a b : List Bytes) :
    comparePre sys a (b.map (lowerIf sys)) = comparePre sys a b := by
  rw [comparePre_eq, comparePre_eq]
  congr 1
  induction a generalizing b with
  | nil => cases b <;> simp [List.compareLex_nil_nil, List.compareLex_nil_cons]
  | cons x as ih =>
    cases b with
    | nil => simp [List.compareLex_cons_nil]
    | cons y bs => simp [List.compareLex_cons_cons, elemOrd_lower_right, ih]

theorem comparePre_lower_left (sys : System) (a b : List Bytes) :
    comparePre sys (a.map (lowerIf sys)) b = comparePre sys a b := by
  rw [comparePre_eq, comparePre_eq]
  congr 1
  induction a generalizing b with
  | nil => cases b <;> simp [List.compareLex_nil_nil, List.compareLex_nil_cons]
  | cons x as ih =>
    cases b with
    | nil => simp [List.compareLex_cons_nil]
    | cons y bs => simp [List.compareLex_cons_cons, elemOrd_lower_left, ih]

/-- `v'` is `v` as it comes back from its canonical text: same system, no extension, numbers
zero-padded to three, prerelease identifiers lower-cased for NuGet. -/
structure Reparsed (v v' : Version) : Prop where
  sys : v'.sys = v.sys
  ext : v.ext = .none
  ext' : v'.ext = .none
  num : v'.num = pad3 v.num
  pre : v'.pre = v.pre.map (lowerIf v.sys)

theorem vcompare_reparsed_right (w v v' : Version) (h : Reparsed v v') : vcompare w v' = vcompare w v := by
  unfold vcompare
  rw [h.sys]
  by_cases hs : w.sys = v.sys
  · simp only [hs, bne_self_eq_false, Bool.false_eq_true, ↓reduceIte, h.ext, h.ext', h.num, h.pre, pad3,
      compareNums_pad_right, List.isEmpty_map, comparePre_lower_right]
    cases w.ext <;> rfl
  · have : (w.sys != v.sys) = true := by simp [bne, hs]
    simp only [this, ↓reduceIte]

theorem vcompare_reparsed_left (w v v' : Version) (h : Reparsed v v') : vcompare v' w = vcompare v w := by
  unfold vcompare
  rw [h.sys]
  by_cases hs : v.sys = w.sys
  · simp only [hs, bne_self_eq_false, Bool.false_eq_true, ↓reduceIte, h.ext, h.ext', h.num, h.pre, pad3,
      compareNums_pad_left, List.isEmpty_map]
    rw [← hs, comparePre_lower_left]
  · have : (v.sys != w.sys) = true := by simp [bne, hs]
    simp only [this, ↓reduceIte]

theorem vcompare_self_generic (v : Version) (he : v.ext = .none) : vcompare v v = .ok 0 := by
  unfold vcompare
  simp only [bne_self_eq_false, Bool.false_eq_true, ↓reduceIte, he, compareNums_refl]
  have : comparePre v.sys v.pre v.pre = 0 := by
    rw [comparePre_eq, ordToInt_eq_zero]; exact Std.ReflCmp.compare_self
  by_cases hp : v.pre = []
  · simp [hp]
  · simp [hp, this]

/-- A version compares equal to what its canonical text parses to. -/
theorem vcompare_reparsed (v v' : Version) (h : Reparsed v v') : vcompare v v' = .ok 0 := by
  rw [vcompare_reparsed_right v v v' h]
  exact vcompare_self_generic v h.ext


/-! ## C10-b at the level of versions -/

/-- The shape of a SemVer-family version of system `s` (what `Parse` produces): no extension,
at most 3 numbers (NuGet 4 with a non-zero fourth, Composer any), each a number below
`infinity` or the wildcard, prerelease identifiers over `[0-9A-Za-z-]`, build metadata
`+id.….id` (`bids` are its identifiers). -/
structure Shape (s : System) (v : Version) (bids : List Bytes) : Prop where
  sys : v.sys = s
  ext : v.ext = .none
  len : LenOk s v.num.length
  num : ∀ x ∈ v.num, -1 ≤ x ∧ x < 9223372036854775807
  nuget4 : s = .nuget → v.num.length = 4 → v.num[3]? ≠ some 0
  pre : ∀ i ∈ v.pre, IdentOk s i = true
  build : v.build = renderBuild bids
  bids : ∀ i ∈ bids, IdentOk s i = true

/-- The AST `Canon(showBuild)` prints. -/
def canonAst (v : Version) (bids : List Bytes) (b : Bool) : SemVerAst :=
  ⟨pad3 v.num, v.pre.map (lowerIf v.sys), if (b && v.sys != .nuget) = true then bids else []⟩

theorem identByte_lower (s : System) : ∀ c : UInt8, identByte s c = true → identByte s (toLowerB c) = true := by
  cases hs : (s == System.nuget)
  · simp only [identByte, hs, Bool.false_and, Bool.or_false]
    apply forall_uint8; decide +kernel
  · simp only [identByte, hs, Bool.true_and]
    apply forall_uint8; decide +kernel

theorem toLowerB_eq_star : ∀ c : UInt8, (toLowerB c == 42) = (c == 42) := by
  apply forall_uint8; decide +kernel

theorem count_map_lower (i : Bytes) : (i.map toLowerB).count 42 = i.count 42 := by
  induction i with
  | nil => rfl
  | cons c r ih =>
    simp only [List.map_cons, List.count_cons, ih, toLowerB_eq_star]

theorem identOk_lowerIf (s sys : System) (i : Bytes) (h : IdentOk s i = true) : IdentOk s (lowerIf sys i) = true := by
  unfold lowerIf
  split
  · show IdentOk s (i.map toLowerB) = true
    simp only [IdentOk, Bool.and_eq_true, Bool.not_eq_true', List.isEmpty_eq_false_iff, List.all_eq_true,
      decide_eq_true_eq] at h ⊢
    refine ⟨⟨by simpa using h.1.1, ?_⟩, by rw [count_map_lower]; exact h.2⟩
    intro c hc
    obtain ⟨c', hc', rfl⟩ := List.mem_map.mp hc
    exact identByte_lower s c' (h.1.2 c' hc')
  · exact h

theorem lenOk_max3 (s : System) (k : Nat) (h : LenOk s k) : LenOk s (max 3 k) := by
  rcases h with h | ⟨h1, h2⟩
  · left; omega
  · by_cases h3 : k ≤ 3
    · left; omega
    · right; exact ⟨h1, fun e => by have := h2 e; omega⟩

theorem mem_pad3 (l : List Int) (x : Int) (h : x ∈ pad3 l) : x ∈ l ∨ x = 0 := by
  simp only [pad3, List.mem_append, List.mem_replicate] at h
  rcases h with h | ⟨_, h⟩
  · exact Or.inl h
  · exact Or.inr h

theorem pad3_of_ge (l : List Int) (h : 3 ≤ l.length) : pad3 l = l := by
  simp [pad3, show 3 - l.length = 0 by omega]

theorem not_wild_nonneg (v : Version) (hw : v.isWildcard = false) (x : Int) (hx : x ∈ v.num) (h : -1 ≤ x) : 0 ≤ x := by
  simp only [Version.isWildcard, List.any_eq_false, beq_iff_eq, wildcard_lit] at hw
  have h1 : ¬ (x : Int) = -1 := hw x hx
  omega

theorem canonAst_valid (s : System) (v : Version) (bids : List Bytes) (b : Bool) (h : Shape s v bids)
    (hw : v.isWildcard = false) : (canonAst v bids b).Valid s false := by
  refine ⟨?_, ?_, ?_, ?_, ?_, ?_⟩
  · simp only [canonAst, pad3_length]; omega
  · simp only [canonAst, pad3_length]; exact lenOk_max3 s _ h.len
  · intro x hx
    rcases mem_pad3 _ x hx with hx | rfl
    · have := h.num x hx
      exact ⟨not_wild_nonneg v hw x hx this.1, Or.inl this.2⟩
    · exact ⟨by omega, Or.inl (by omega)⟩
  · intro hs hl
    simp only [canonAst, pad3_length] at hl
    have hl' : v.num.length = 4 := by omega
    simp only [canonAst, pad3_of_ge v.num (by omega)]
    exact h.nuget4 hs hl'
  · intro i hi
    simp only [canonAst, List.mem_map] at hi
    obtain ⟨j, hj, rfl⟩ := hi
    exact identOk_lowerIf _ _ j (h.pre j hj)
  · intro i hi
    simp only [canonAst] at hi
    split at hi
    · exact h.bids i hi
    · simp at hi

theorem canon_eq_render (s : System) (v : Version) (bids : List Bytes) (b : Bool) (h : Shape s v bids)
    (hw : v.isWildcard = false) : canon v b = (canonAst v bids b).render s := by
  rw [canon_generic v b h.ext hw, h.sys]
  simp only [SemVerAst.render, canonAst, h.build, h.sys]
  congr 3
  split <;> rfl


theorem lowerIf_idem (sys : System) (p : Bytes) : lowerIf sys (lowerIf sys p) = lowerIf sys p := by
  unfold lowerIf
  split
  · simp only [toLowerAscii_eq, List.map_map]
    apply List.map_congr_left
    intro c _
    exact toLowerB_idem c
  · rfl

theorem embed_isWildcard (s : System) (a : SemVerAst) (ha : a.Valid s false) : (a.embed s).isWildcard = false := by
  simp only [SemVerAst.embed, Version.isWildcard, List.any_eq_false, beq_iff_eq, wildcard_lit]
  intro x hx h
  have h0 : (0 : Int) ≤ x := (ha.2.2.1 x hx).1
  have h1 : (x : Int) = -1 := h
  rw [h1] at h0
  exact absurd h0 (by decide)

theorem embed_shape (s : System) (a : SemVerAst) (ha : a.Valid s false) : Shape s (a.embed s) a.build := by
  obtain ⟨h3, hlen, hnum, hn4, hpre, hbuild⟩ := ha
  refine ⟨rfl, rfl, hlen, ?_, hn4, hpre, rfl, hbuild⟩
  intro x hx
  have := hnum x hx
  rcases this with ⟨h0, h1 | ⟨h, _⟩⟩
  · exact ⟨Int.le_trans (by decide) h0, h1⟩
  · cases h

/-- Canonicalising what the canonical text parses to prints the same text. -/
theorem canonAst_embed (s : System) (v : Version) (bids : List Bytes) (b : Bool) (hs : v.sys = s) :
    canonAst ((canonAst v bids b).embed s) (canonAst v bids b).build b = canonAst v bids b := by
  subst hs
  simp only [canonAst, SemVerAst.embed, List.map_map]
  congr 1
  · rw [pad3_of_ge]; rw [pad3_length]; omega
  · apply List.map_congr_left
    intro p _
    exact lowerIf_idem _ p
  · split <;> rfl

/-- **C10-b** on the shape of parse outputs: the canonical text of a non-wildcard version
parses, to a version that compares equal and prints identically. -/
theorem canon_roundtrip_shape (s : System) (hs : Generic s = true) (v : Version) (bids : List Bytes) (b : Bool)
    (h : Shape s v bids) (hw : v.isWildcard = false) :
    parse s (canon v b) = .ok ((canonAst v bids b).embed s) ∧
    Reparsed v ((canonAst v bids b).embed s) ∧
    vcompare v ((canonAst v bids b).embed s) = .ok 0 ∧
    canon ((canonAst v bids b).embed s) b = canon v b := by
  have hval := canonAst_valid s v bids b h hw
  have hrep : Reparsed v ((canonAst v bids b).embed s) :=
    ⟨h.sys.symm, h.ext, rfl, rfl, rfl⟩
  refine ⟨?_, hrep, vcompare_reparsed _ _ hrep, ?_⟩
  · rw [canon_eq_render s v bids b h hw]
    exact parse_render s hs _ hval
  · rw [canon_eq_render s _ _ b (embed_shape s _ hval) (embed_isWildcard s _ hval),
      canonAst_embed s v bids b h.sys, canon_eq_render s v bids b h hw]

end DepsDev.Proofs.C10
