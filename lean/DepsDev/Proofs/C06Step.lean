import DepsDev.Proofs.C06Tree

/-! Helper lemmas for C06: what one iteration of the dependency loop (`stepDep`) can do,
as an explicit case list, and characterisations of the walk-up loop. -/

namespace DepsDev.Resolve.Npm

/-- The new tree node of a fresh install. -/
structure FreshData (u : Universe) (cur : Path) (a : Acc) (idep : Import) where
  dvers : List Version
  pick : Version
  node : TNode
  tree : Tree
  parent : Path
  pn : TNode

/-- The outcomes of a successful `stepDep`. -/
inductive StepCase (u : Universe) (cur : Path) (curId : Nat) (a : Acc) (idep : Import) (a' : Acc) : Prop
  /-- lines 275–309: an installed copy found by the walk-up is reused. -/
  | reuse (dvers : List Version) (rp : Path) (rn : TNode)
      (hm : u.matchingVersions idep.name idep.req = .ok dvers)
      (hw : walkUp u a.st.tree idep dvers cur = .ok (some rp))
      (hg : a.st.tree.get? rp = some rn)
      (hlt : curId < a.st.nodes.length ∧ rn.id < a.st.nodes.length)
      (ht : a'.st.tree = markProtected idep.name idep.alias a.st.tree cur)
      (hn : a'.st.nodes = a.st.nodes)
      (he : a'.st.edges = a.st.edges ++ [⟨curId, rn.id, idep.ty, idep, false⟩])
      (hi : a'.ins = if rn.processed then a.ins else a.ins ++ [rp])
  /-- lines 311–314, 344–351, 368–377: an error is recorded on the current node. -/
  | error (dvers : List Version)
      (hm : u.matchingVersions idep.name idep.req = .ok dvers)
      (hw : walkUp u a.st.tree idep dvers cur = .ok none)
      (ht : a'.st.tree = a.st.tree ∨
        ∃ pick node parent, wouldPick u dvers = .ok (some pick) ∧
          newTreeNode u pick a.st.nodes.length = .ok node ∧
          hoist node.ver.name idep.alias a.st.tree cur = .ok (a'.st.tree, parent))
      (hn : a'.st.nodes = addErrL a.st.nodes curId (idep.name, idep.req))
      (he : a'.st.edges = a.st.edges)
      (hi : a'.ins = a.ins)
  /-- lines 316–396: a new node is installed. -/
  | fresh (dvers : List Version) (pick : Version) (node : TNode) (tree : Tree) (parent : Path) (pn : TNode)
      (hm : u.matchingVersions idep.name idep.req = .ok dvers)
      (hw : walkUp u a.st.tree idep dvers cur = .ok none)
      (hp : wouldPick u dvers = .ok (some pick))
      (hnode : newTreeNode u pick a.st.nodes.length = .ok node)
      (hc : (candidate a.st.tree cur node.ver.name idep.alias).isSome = false)
      (hh : hoist node.ver.name idep.alias a.st.tree cur = .ok (tree, parent))
      (hpn : tree.get? parent = some pn)
      (hun : ¬ (parent ≠ [] ∧ pn.ver.name = node.ver.name))
      (hlt : curId < a.st.nodes.length + 1)
      (ht : a'.st.tree = tree ++ [((if idep.alias = Name.empty then ⟨false, node.ver.name⟩ else ⟨true, idep.alias⟩) :: parent, node)])
      (hn : a'.st.nodes = a.st.nodes ++ [⟨node.ver.name, node.ver.version, []⟩])
      (he : a'.st.edges = a.st.edges ++
        [⟨curId, a.st.nodes.length, idep.ty.set depSelector Name.empty, idep, true⟩])
      (hi : a'.ins = a.ins ++ [(if idep.alias = Name.empty then ⟨false, node.ver.name⟩ else ⟨true, idep.alias⟩) :: parent])

theorem addError_some {st st' : State} {n : Nat} {r : Name × Name} (h : st.addError n r = some st') :
    n < st.nodes.length ∧ st' = { st with nodes := addErrL st.nodes n r } := by
  unfold State.addError at h
  split at h
  · rename_i hlt; cases h; exact ⟨hlt, rfl⟩
  · cases h

theorem addErrL_of_ge (nodes : List GNode) (n : Nat) (r : Name × Name) (h : nodes.length ≤ n) :
    addErrL nodes n r = nodes := by
  induction nodes generalizing n with
  | nil => cases n <;> rfl
  | cons g rest ih =>
    cases n with
    | zero => simp at h
    | succ n => simp only [addErrL]; rw [ih]; simpa using h

theorem addError_none {st : State} {n : Nat} {r : Name × Name} (h : st.addError n r = none) :
    addErrL st.nodes n r = st.nodes := by
  unfold State.addError at h
  split at h
  · cases h
  · rename_i hlt; exact addErrL_of_ge _ _ _ (Nat.le_of_not_lt hlt)

theorem addEdge_some {st st' : State} {e : Edge} (h : st.addEdge e = some st') :
    (e.src < st.nodes.length ∧ e.dst < st.nodes.length) ∧ st' = { st with edges := st.edges ++ [e] } := by
  unfold State.addEdge at h
  split at h
  · rename_i hlt; cases h; exact ⟨hlt, rfl⟩
  · cases h

theorem newTreeNode_ok {u : Universe} {v : Version} {id : Nat} {n : TNode}
    (h : newTreeNode u v id = .ok n) :
    ∃ reqs, u.requirements v.name v.version = some reqs ∧
      n = ⟨v, regularImports reqs, false, [], [], id⟩ := by
  unfold newTreeNode at h
  split at h
  · cases h
  · rename_i reqs hr; cases h; exact ⟨reqs, hr, rfl⟩

theorem stepDep_cases {u : Universe} {cur : Path} {curId : Nat} {a a' : Acc} {idep : Import}
    (h : stepDep u cur curId a idep = .ok a') : StepCase u cur curId a idep a' := by
  unfold stepDep at h
  split at h
  · cases h
  · cases h
  · rename_i dvers hm
    split at h
    · cases h
    · cases h
    · -- reuse
      rename_i rp hw
      split at h
      · cases h
      · rename_i rn hg
        simp only at h
        split at h
        · cases h
        · rename_i st hae
          obtain ⟨hlt, rfl⟩ := addEdge_some hae
          cases h
          exact .reuse dvers rp rn hm hw hg hlt rfl rfl rfl rfl
    · rename_i hw
      split at h
      · cases h
      · cases h
      · -- no version
        rename_i hp
        split at h
        · rename_i hae
          cases h
          exact .error dvers hm hw (Or.inl rfl) (addError_none hae).symm rfl rfl
        · rename_i st hae
          obtain ⟨_, rfl⟩ := addError_some hae
          cases h
          exact .error dvers hm hw (Or.inl rfl) rfl rfl rfl
      · rename_i pick hp
        split at h
        · cases h
        · cases h
        · rename_i node hnode
          split at h
          · -- same level
            split at h
            · cases h
            · rename_i st hae
              obtain ⟨_, rfl⟩ := addError_some hae
              cases h
              exact .error dvers hm hw (Or.inl rfl) rfl rfl rfl
          · rename_i hc
            split at h
            · cases h
            · cases h
            · rename_i tree parent hh
              split at h
              · cases h
              · rename_i pn hpn
                split at h
                · -- unreachable
                  split at h
                  · cases h
                  · rename_i st hae
                    obtain ⟨_, rfl⟩ := addError_some hae
                    cases h
                    exact .error dvers hm hw (Or.inr ⟨pick, node, _, hp, hnode, hh⟩) rfl rfl rfl
                · rename_i hun
                  simp only [State.addNode] at h
                  split at h
                  · cases h
                  · rename_i st hae
                    obtain ⟨hlt, rfl⟩ := addEdge_some hae
                    cases h
                    refine .fresh dvers pick node tree parent pn hm hw hp hnode ?_ hh hpn hun ?_ rfl rfl rfl rfl
                    · simpa using hc
                    · have := hlt.1
                      simp only [List.length_append, List.length_singleton] at this
                      exact this

/-! ## The walk-up loop -/

/-- Where the walk-up loop stops: the first directory, going up from `cur`, in which
the dependency's slot is occupied. -/
inductive WalkStop (t : Tree) (idep : Import) : Path → Path → Prop
  | here (node : Path) (h : (candidate t node idep.name idep.alias).isSome = true) : WalkStop t idep node node
  | up (s : Slot) (parent stop : Path) (h : candidate t (s :: parent) idep.name idep.alias = none)
      (hs : WalkStop t idep parent stop) : WalkStop t idep (s :: parent) stop

theorem walkAt_none {u : Universe} {t : Tree} {idep : Import} {dvers : List Version} {node : Path}
    (h : walkAt u t idep dvers node = .ok none) : candidate t node idep.name idep.alias = none := by
  unfold walkAt at h
  split at h
  · assumption
  · split at h <;> cases h
  · split at h <;> cases h

/-- `walkAt` ends the loop with `some rp`: the occupant of the slot, accepted either as a
plain child whose version key is among `dvers` (or the requirement is `*`), or through the
alias path by its version string alone. -/
theorem walkAt_some {u : Universe} {t : Tree} {idep : Import} {dvers : List Version} {node rp : Path}
    (h : walkAt u t idep dvers node = .ok (some (some rp))) :
    ∃ child b, candidate t node idep.name idep.alias = some (rp, child, b) ∧
      ((b = true ∧ (dvers.any (fun d => child.ver.keyEq d) = true ∨ idep.req = Name.star)) ∨
       (b = false ∧ u.constraintMatch idep.req child.ver.version = .ok true)) := by
  unfold walkAt at h
  split at h
  · cases h
  · rename_i cp child hc
    split at h
    · rename_i hcond
      simp only [Outcome.ok.injEq, Option.some.injEq] at h
      subst h
      refine ⟨child, true, hc, Or.inl ⟨rfl, ?_⟩⟩
      simp only [Bool.or_eq_true, beq_iff_eq] at hcond
      exact hcond
    · cases h
  · rename_i cp child hc
    split at h
    · cases h
    · cases h
    · rename_i hcm
      simp only [Outcome.ok.injEq, Option.some.injEq] at h
      subst h
      exact ⟨child, false, hc, Or.inr ⟨rfl, hcm⟩⟩
    · cases h

theorem walkAt_stop {u : Universe} {t : Tree} {idep : Import} {dvers : List Version} {node : Path}
    {r : Option Path} (h : walkAt u t idep dvers node = .ok (some r)) :
    (candidate t node idep.name idep.alias).isSome = true := by
  unfold walkAt at h
  split at h
  · cases h
  · rename_i hc; simp [hc]
  · rename_i hc; simp [hc]

/-- The walk-up resolved to `rp`: it stopped at some directory `stop` (all directories
below it have the slot free) and accepted the occupant of the slot there. -/
theorem walkUp_some {u : Universe} {t : Tree} {idep : Import} {dvers : List Version} {cur rp : Path}
    (h : walkUp u t idep dvers cur = .ok (some rp)) :
    ∃ stop, WalkStop t idep cur stop ∧ IsSuffix stop cur ∧
      walkAt u t idep dvers stop = .ok (some (some rp)) := by
  induction cur with
  | nil =>
    simp only [walkUp] at h
    split at h
    · cases h
    · cases h
    · cases h
    · rename_i r hw
      cases h
      exact ⟨[], .here _ (walkAt_stop hw), IsSuffix.refl _, hw⟩
  | cons s parent ih =>
    simp only [walkUp] at h
    split at h
    · cases h
    · cases h
    · rename_i hw
      obtain ⟨stop, hs, hsuf, hat⟩ := ih h
      exact ⟨stop, .up s parent stop (walkAt_none hw) hs, hsuf.cons s, hat⟩
    · rename_i r hw
      cases h
      exact ⟨s :: parent, .here _ (walkAt_stop hw), IsSuffix.refl _, hw⟩

/-- The walk-up did not resolve: either every directory up to the root has the slot
free, or it stopped at an occupied slot whose occupant was rejected. -/
theorem walkUp_none {u : Universe} {t : Tree} {idep : Import} {dvers : List Version} {cur : Path}
    (h : walkUp u t idep dvers cur = .ok none) :
    (∀ q, IsSuffix q cur → candidate t q idep.name idep.alias = none) ∨
    (∃ stop, WalkStop t idep cur stop ∧ IsSuffix stop cur) := by
  induction cur with
  | nil =>
    simp only [walkUp] at h
    split at h
    · cases h
    · cases h
    · rename_i hw
      left
      intro q hq
      obtain ⟨pre, hpre⟩ := hq
      have : q = [] := (List.append_eq_nil_iff.1 hpre.symm).2
      subst this
      exact walkAt_none hw
    · rename_i r hw
      right
      exact ⟨[], .here _ (walkAt_stop hw), IsSuffix.refl _⟩
  | cons s parent ih =>
    simp only [walkUp] at h
    split at h
    · cases h
    · cases h
    · rename_i hw
      rcases ih h with hall | ⟨stop, hs, hsuf⟩
      · left
        intro q hq
        obtain ⟨pre, hpre⟩ := hq
        cases pre with
        | nil => simp at hpre; subst hpre; exact walkAt_none hw
        | cons x pre =>
          simp only [List.cons_append, List.cons.injEq] at hpre
          exact hall q ⟨pre, hpre.2⟩
      · right
        exact ⟨stop, .up s parent stop (walkAt_none hw) hs, hsuf.cons s⟩
    · rename_i r hw
      right
      exact ⟨s :: parent, .here _ (walkAt_stop hw), IsSuffix.refl _⟩

end DepsDev.Resolve.Npm
