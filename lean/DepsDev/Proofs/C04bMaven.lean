import DepsDev.Props.C01Maven
import DepsDev.Proofs.C04

/-!
# C04 (extension) — Maven: no element text produced by `mavenExtension.init` starts with a separator

`mavenInit` = `fillInts ∘ mavenTrim ∘ mavenSplit ∘ toLower`. The element texts are fixed by
`mavenSplit` (`nextMavenElem` cuts an element after at most one leading separator, and that
separator is stripped), `mavenTrim` only deletes elements and `fillInts` only fills `int`.
Hence `noSepStart` holds for everything `mavenInit` returns, which is the hypothesis of
`maven_no_panic` (the `panic(bCategory)` site of `mavenUnknownQualifierCompare`).
-/
namespace DepsDev.Proofs.C04b

open DepsDev DepsDev.Semver DepsDev.Proofs Gen.SemverTables

/-- The text starts with `.` or `-`. -/
def sepHead : Bytes → Bool
  | c :: _ => c == 46 || c == 45
  | [] => false

theorem decodeRune_ascii (c : UInt8) (t : Bytes) (h : c < 0x80) :
    Bytes.decodeRune (c :: t) = (c.toNat, 1) := by
  unfold Bytes.decodeRune
  simp [h]

/-- `mavenCategory` says "separator" exactly for texts starting with `.` or `-`. -/
theorem mavenCat_sep (s : Bytes) : ((mavenCategory s).1 == versionSeparator) = sepHead s := by
  cases s with
  | nil => rfl
  | cons c t =>
    unfold mavenCategory sepHead
    by_cases hc : (c == 46 || c == 45) = true
    · have hlt : c < 0x80 := by
        simp only [Bool.or_eq_true, beq_iff_eq] at hc
        rcases hc with rfl | rfl <;> decide
      rw [decodeRune_ascii c t hlt]
      simp only [Bool.or_eq_true, beq_iff_eq] at hc
      rcases hc with rfl | rfl <;> rfl
    · simp only [Bool.not_eq_true] at hc
      generalize Bytes.decodeRune (c :: t) = rw
      obtain ⟨r, w⟩ := rw
      simp only [hc]
      repeat' split
      all_goals first | rfl | simp_all

/-- No element text starts with a separator. -/
def NS (l : List MavenElem) : Prop := ∀ e ∈ l, sepHead e.str = false

theorem noSepStart_iff (l : List MavenElem) : noSepStart l = true ↔ NS l := by
  unfold noSepStart NS
  rw [List.all_eq_true]
  constructor
  · intro h e he
    have := h e he
    unfold mcat at this
    rw [← mavenCat_sep]
    simpa using this
  · intro h e he
    have := h e he
    unfold mcat
    rw [← mavenCat_sep] at this
    simpa using this

/-! ## `nextMavenElem` -/

theorem sepHead_take (s : Bytes) (j : Nat) (h : sepHead (s.take j) = true) : sepHead s = true := by
  cases s with
  | nil => simp [sepHead] at h
  | cons c t =>
    cases j with
    | zero => simp [sepHead] at h
    | succ k => simpa [sepHead] using h

theorem sepHead_take_drop (s : Bytes) (j : Nat) (h : sepHead ((s.take j).drop 1) = true) :
    sepHead (s.drop 1) = true := by
  cases s with
  | nil => simp [sepHead] at h
  | cons c t =>
    cases j with
    | zero => simp [sepHead] at h
    | succ k =>
      simp only [List.take_succ_cons, List.drop_succ_cons, List.drop_zero] at h ⊢
      exact sepHead_take t k h

/-- The scan returns the whole text or a prefix cut at or after the start index. -/
theorem nme_go_shape (s : Bytes) (prev : Int) (fuel : Nat) : ∀ i : Nat,
    (nextMavenElem.go s i prev fuel).1 = s ∨ ∃ j, i ≤ j ∧ (nextMavenElem.go s i prev fuel).1 = s.take j := by
  induction fuel with
  | zero => intro i; left; rfl
  | succ n ih =>
    intro i
    unfold nextMavenElem.go
    split
    · generalize mavenCategory (s.drop i) = cw
      obtain ⟨cat, w⟩ := cw
      simp only
      split
      · right; exact ⟨i, Nat.le_refl i, rfl⟩
      · rcases ih (i + w) with h | ⟨j, hj, h⟩
        · left; exact h
        · right; exact ⟨j, by omega, h⟩
    · left; rfl

/-- At a separator the scan stops immediately. -/
theorem nme_go_sep (s : Bytes) (prev : Int) (fuel i : Nat) (hi : i < s.length)
    (hc : (mavenCategory (s.drop i)).1 = versionSeparator) :
    (nextMavenElem.go s i prev (fuel + 1)).1 = s.take i := by
  unfold nextMavenElem.go
  simp only [hi, ↓reduceIte]
  generalize mavenCategory (s.drop i) = cw at hc
  obtain ⟨cat, w⟩ := cw
  simp only at hc
  subst hc
  simp

/-- When the element returned by `nextMavenElem` starts with a separator, what follows the
separator does not. -/
theorem nme_sep (s : Bytes) (h : sepHead (nextMavenElem s).1 = true) :
    sepHead ((nextMavenElem s).1.drop 1) = false := by
  unfold nextMavenElem at h ⊢
  split
  · rename_i hl
    have : s.drop 1 = [] := by
      apply List.drop_eq_nil_iff.mpr; exact hl
    simp only [this]; rfl
  · rename_i hl
    rw [if_neg hl] at h
    simp only at h ⊢
    by_cases hp : ((mavenCategory s).1 == versionSeparator) = true
    · simp only [hp, ↓reduceIte] at h ⊢
      by_cases hq : (mavenCategory (s.drop 1)).1 = versionSeparator
      · rw [nme_go_sep s _ s.length 1 (by omega) hq]
        cases s with
        | nil => rfl
        | cons c t => simp [sepHead]
      · have hq' : sepHead (s.drop 1) = false := by
          rw [← mavenCat_sep]; simpa using hq
        rcases nme_go_shape s (mavenCategory (s.drop 1)).1 (s.length + 1) 1 with e | ⟨j, _, e⟩
        · rw [e]; exact hq'
        · rw [e]
          cases hx : sepHead ((s.take j).drop 1) with
          | false => rfl
          | true => rw [sepHead_take_drop s j hx] at hq'; cases hq'
    · exfalso
      simp only [hp, Bool.false_eq_true, ↓reduceIte] at h
      have hs : sepHead s = false := by rw [← mavenCat_sep]; simpa using hp
      rcases nme_go_shape s (mavenCategory s).1 (s.length + 1) 0 with e | ⟨j, _, e⟩
      · rw [e, hs] at h; cases h
      · rw [e] at h; rw [sepHead_take s j h] at hs; cases hs

/-! ## `mavenSplit` -/

theorem ns_append {l : List MavenElem} {e : MavenElem} (hl : NS l) (he : sepHead e.str = false) :
    NS (l ++ [e]) := by
  intro x hx
  rcases List.mem_append.mp hx with h | h
  · exact hl x h
  · simp only [List.mem_singleton] at h; subst h; exact he

theorem mavenSplit_go_ns (fuel : Nat) : ∀ (s : Bytes) (acc : List MavenElem) (first : Bool) (prevCat : Int),
    NS acc → NS (mavenSplit.go s acc first prevCat fuel) := by
  induction fuel with
  | zero => intro s acc first prevCat h; exact h
  | succ n ih =>
    intro s acc first prevCat hacc
    unfold mavenSplit.go
    split
    · exact hacc
    · have hn := nme_sep s
      generalize nextMavenElem s = p at hn
      obtain ⟨str0, rest⟩ := p
      simp only at hn ⊢
      split
      · rename_i hsep
        apply ih
        apply ns_append hacc
        simp only
        split
        · rfl
        · apply hn
          rw [← mavenCat_sep]; exact hsep
      · rename_i hsep
        have h0 : sepHead str0 = false := by
          rw [← mavenCat_sep]; simpa using hsep
        split
        · apply ih
          apply ns_append _ h0
          split
          · split
            · rename_i e he
              intro x hx
              rcases List.mem_append.mp hx with h | h
              · exact hacc x ((List.dropLast_sublist _).subset h)
              · simp only [List.mem_singleton] at h
                subst h
                simp only
                have := hacc e (List.mem_of_getLast? he)
                repeat' split
                all_goals first | exact this | decide +kernel
            · exact hacc
          · exact hacc
        · apply ih
          exact ns_append hacc h0

theorem mavenSplit_ns (b : Bytes) : NS (mavenSplit b) := by
  unfold mavenSplit
  exact mavenSplit_go_ns _ _ _ _ _ (fun _ h => by cases h)

/-! ## `mavenTrim` only deletes -/

theorem trim_inner_mem (fuel : Nat) : ∀ (els : List MavenElem) (i : Nat),
    ∀ e ∈ (mavenTrim.inner els i fuel).1, e ∈ els := by
  induction fuel with
  | zero => intro els i e h; exact h
  | succ n ih =>
    intro els i e h
    unfold mavenTrim.inner at h
    split at h
    · split at h
      · exact List.mem_of_mem_eraseIdx (ih _ _ e h)
      · exact h
    · exact h

theorem trim_outer_mem (fuel : Nat) : ∀ (els : List MavenElem) (i : Nat),
    ∀ e ∈ mavenTrim.outer els i fuel, e ∈ els := by
  induction fuel with
  | zero => intro els i e h; exact h
  | succ n ih =>
    intro els i e h
    unfold mavenTrim.outer at h
    simp only at h
    repeat' split at h
    all_goals first
      | exact h
      | exact ih _ _ e h
      | exact trim_inner_mem _ _ _ e (ih _ _ e h)

theorem mavenTrim_ns {l : List MavenElem} (h : NS l) : NS (mavenTrim l) := by
  intro e he
  unfold mavenTrim at he
  exact h e (trim_outer_mem _ _ _ e he)

/-! ## `fillInts` only writes `int` -/

theorem fillInts_ns : ∀ (l r : List MavenElem) (q : Bool),
    mavenInit.fillInts l = .ok (r, q) → NS l → NS r := by
  intro l
  induction l with
  | nil =>
    intro r q h _
    unfold mavenInit.fillInts at h
    injection h with h
    injection h with h1 _
    subst h1
    intro e he; cases he
  | cons e rest ih =>
    intro r q h hl
    have hrest : NS rest := fun x hx => hl x (List.mem_cons_of_mem _ hx)
    have he : sepHead e.str = false := hl e (List.mem_cons_self ..)
    unfold mavenInit.fillInts at h
    have key : ∀ (e' : MavenElem) (q' : Bool → Bool), e'.str = e.str →
        (do let (r, q) ← mavenInit.fillInts rest; Outcome.ok (e' :: r, q' q)) = Outcome.ok (r, q) → NS r := by
      intro e' q' hstr hk
      cases hf : mavenInit.fillInts rest with
      | ok rq =>
        obtain ⟨r', q0⟩ := rq
        rw [hf] at hk
        simp only [bind, Outcome.bind] at hk
        injection hk with hk
        injection hk with h1 _
        subst h1
        intro x hx
        rcases List.mem_cons.mp hx with h | h
        · subst h; rw [hstr]; exact he
        · exact ih r' q0 hf hrest x h
      | err => rw [hf] at hk; cases hk
      | panic => rw [hf] at hk; cases hk
    split at h
    · split at h
      · refine key _ (fun q => q) ?_ h; rfl
      · split at h
        · cases h
        · refine key _ (fun q => q) ?_ h; rfl
    · refine key e (fun _ => true) ?_ h; rfl

/-- **Every element list `mavenExtension.init` returns satisfies `noSepStart`.** -/
theorem mavenInit_noSepStart (b : Bytes) (els : List MavenElem) (q : Bool)
    (h : mavenInit b = .ok (els, q)) : noSepStart els = true := by
  rw [noSepStart_iff]
  unfold mavenInit at h
  exact fillInts_ns _ _ _ h (mavenTrim_ns (mavenSplit_ns _))

end DepsDev.Proofs.C04b
