import DepsDev.Proofs.C07Prov
import DepsDev.Proofs.C07Attr

/-! C07 accounting invariant (M4): every declaration of a popped, traversed todo element
that is not excluded ends in an edge from that element's node or in a node error on it. -/

namespace DepsDev.Resolve.Maven
open DepsDev.Gen

/-- the `NodeError.Req`s recorded on node `i` -/
def Graph.errAt (g : Graph) (i : Nat) : List VK := (g.nodes[i]?.map (·.errors)).getD []

theorem errAt_addError_mono (g : Graph) (n : Nat) (r x : VK) (i : Nat) (h : x ∈ g.errAt i) :
    x ∈ (g.addError n r).errAt i := by
  unfold Graph.errAt Graph.addError at *
  simp only [List.getElem?_modify]
  by_cases hn : n = i
  · subst hn
    cases hg : g.nodes[n]? with
    | none => simp [hg] at h
    | some nd => simp [hg] at h ⊢; exact .inl h
  · simpa [hn] using h

theorem errAt_addError_new (g : Graph) (n : Nat) (r : VK) (h : n < g.nodes.length) :
    r ∈ (g.addError n r).errAt n := by
  unfold Graph.errAt Graph.addError
  simp [List.getElem?_modify, List.getElem?_eq_getElem h]

theorem errAt_addNode_mono (g : Graph) (v x : VK) (i : Nat) (h : x ∈ g.errAt i) :
    x ∈ (g.addNode v).1.errAt i := by
  unfold Graph.errAt Graph.addNode at *
  cases hg : g.nodes[i]? with
  | none => simp [hg] at h
  | some nd =>
    have hl : i < g.nodes.length := (List.getElem?_eq_some_iff.mp hg).1
    simp only [List.getElem?_append_left hl, hg]
    simpa [hg] using h

/-- Declaration `d` of the element with node `id` is accounted for in `s`. -/
def Accounted (mgt : List (PackageKey × Bytes)) (s : State) (id : Nat) (f : Bool) (d : Dep) : Prop :=
  (∃ e ∈ s.g.edges, e.src = id ∧ e.req = depVer mgt f d ∧ (e.typ = d.typ ∨ e.typ = withSelector d.typ) ∧
      ∃ v, s.g.vkAt e.dst = some { name := d.name, version := v }) ∨
  ({ name := d.name, version := depVer mgt f d } : VK) ∈ s.g.errAt id

theorem step_accounted_mono {u : Universe} {mgt : List (PackageKey × Bytes)} {first : Bool} {cur : Todo}
    {d : Dep} {s s' : State} (hs : DepStep u mgt first cur d s s') {id : Nat} {f : Bool} {d' : Dep}
    (h : Accounted mgt s id f d') : Accounted mgt s' id f d' := by
  rcases h with ⟨e, he, h1, h2, h3, v, hv⟩ | h
  · refine .inl ⟨e, ?_, h1, h2, h3, v, step_vkAt_mono hs hv⟩
    cases hs with
    | excluded _ => exact he
    | noMatch _ _ => simpa using he
    | edge _ _ _ _ _ _ hadd => obtain ⟨_, _, rfl⟩ := addEdge_some hadd; simp [he]
    | newNode _ _ _ _ _ _ _ hadd => obtain ⟨_, _, rfl⟩ := addEdge_some hadd; simp [he]
  · refine .inr ?_
    cases hs with
    | excluded _ => exact h
    | noMatch _ _ => exact errAt_addError_mono _ _ _ _ _ h
    | edge _ _ _ _ _ _ hadd => obtain ⟨_, _, rfl⟩ := addEdge_some hadd; exact h
    | newNode mv _ _ _ _ _ _ hadd =>
      obtain ⟨_, _, rfl⟩ := addEdge_some hadd
      exact errAt_addNode_mono s.g { name := d.name, version := mv } _ _ h

def AcctI (u : Universe) (mgt : List (PackageKey × Bytes)) (s : State) : Prop :=
  ∀ x ∈ s.done, x.2.2.includesDependencies = false →
    ∀ imps, imports u x.2.2.key.vk (optsOf x.2.1) = some imps →
      ∀ d ∈ imps, isExcluded x.2.2.exclusions d.name = some false → Accounted mgt s x.1 x.2.1 d

theorem acct_loop {u : Universe} {mgt : List (PackageKey × Bytes)} {root : VK} {reqs0 : ReqMap}
    {fuel : Nat} {s : State}
    (h : loop u mgt fuel true (initState root reqs0) = .ok (some s)) : AcctI u mgt s := by
  have := loop_inv_wf (u := u) (mgt := mgt) root
    (fun _ s => AcctI u mgt s)
    (fun first cur curId ds s => AcctI u mgt s ∧
      ∀ d ∈ ds, isExcluded cur.exclusions d.name = some false → Accounted mgt s curId first d)
    (by
      intro first s cur rest _ hx _ _
      exact ⟨hx, by simp⟩)
    (by
      intro first cur curId imps ds d s s' _ _ _ hwj hy hs
      have hcid : curIdOf s cur = curId := curIdOf_eq hwj.2
      have hcurlt : curId < s.g.nodes.length := vkAt_lt (hwj.1.cvSound _ _ hwj.2)
      refine ⟨?_, ?_⟩
      · intro x hxm hi imps' himps' d' hd' hex'
        rw [step_done hs] at hxm
        exact step_accounted_mono hs (hy.1 x hxm hi imps' himps' d' hd' hex')
      · intro d' hd' hex'
        simp only [List.mem_append, List.mem_singleton] at hd'
        rcases hd' with hd' | rfl
        · exact step_accounted_mono hs (hy.2 d' hd' hex')
        · cases hs with
          | excluded hex => rw [hex] at hex'; cases hex'
          | noMatch _ _ =>
            refine .inr ?_
            simp only [hcid]
            exact errAt_addError_new _ _ _ hcurlt
          | edge mv id g' _ _ hid hadd =>
            obtain ⟨_, _, rfl⟩ := addEdge_some hadd
            have hv : s.g.vkAt id = some { name := d'.name, version := mv } := by
              rcases hid with hid | ⟨_, _, hid⟩
              · exact hwj.1.cvSound _ _ hid
              · exact hwj.1.nodesSound _ _ hid
            exact .inl ⟨{ src := curIdOf s cur, dst := id, req := depVer mgt first d', typ := d'.typ }, by simp, hcid, rfl, .inl rfl, mv, hv⟩
          | newNode mv g2 _ _ _ _ _ hadd =>
            obtain ⟨_, _, rfl⟩ := addEdge_some hadd
            exact .inl ⟨{ src := curIdOf s cur, dst := s.g.nodes.length, req := depVer mgt first d', typ := withSelector d'.typ }, by simp, hcid, rfl, .inr rfl, mv, vkAt_addNode_new s.g _⟩)
    (by
      intro first cur curId ds s hc _ hy x hxm hi imps himps d hd hex
      simp only [List.mem_append, List.mem_singleton] at hxm
      rcases hxm with hxm | rfl
      · exact hy.1 x hxm hi imps himps d hd hex
      · rcases hc with ⟨hinc, _⟩ | ⟨_, hds⟩
        · simp only at hi; rw [hinc] at hi; cases hi
        · simp only at himps hex
          rw [hds] at himps
          cases himps
          exact hy.2 d hd hex)
    fuel true (initState root reqs0) s (wf_init root reqs0)
    (by intro x hx; simp [initState] at hx) h
  obtain ⟨_, hx, _, _⟩ := this
  exact hx

/-! ### provenance of node errors (the converse half of M4) -/

theorem errAt_addError_cases (g : Graph) (n : Nat) (r x : VK) (i : Nat) (h : x ∈ (g.addError n r).errAt i) :
    x ∈ g.errAt i ∨ (i = n ∧ x = r) := by
  unfold Graph.errAt Graph.addError at *
  simp only [List.getElem?_modify] at h
  by_cases hn : n = i
  · subst hn
    cases hg : g.nodes[n]? with
    | none => simp [hg] at h
    | some nd =>
      simp [hg] at h ⊢
      rcases h with h | h
      · exact .inl h
      · exact .inr h
  · simp [hn] at h
    exact .inl h

theorem errAt_addNode_cases (g : Graph) (v x : VK) (i : Nat) (h : x ∈ (g.addNode v).1.errAt i) :
    x ∈ g.errAt i := by
  unfold Graph.errAt Graph.addNode at *
  by_cases hl : i < g.nodes.length
  · simpa [List.getElem?_append_left hl] using h
  · by_cases he : i = g.nodes.length
    · subst he; simp at h
    · have : g.nodes.length + 1 ≤ i := by omega
      have hnone : (g.nodes ++ [{ vk := v, errors := [] }])[i]? = none := by
        apply List.getElem?_eq_none; simpa using this
      simp [hnone] at h

@[simp] theorem errAt_edges_irrel (g : Graph) (es : List Edge) (i : Nat) :
    Graph.errAt { nodes := g.nodes, edges := es } i = g.errAt i := rfl

/-- The error `x` on node `i` was recorded because `findMatch` had no answer for a declaration of
the todo element popped for `i`. -/
def ErrProv (u : Universe) (mgt : List (PackageKey × Bytes)) (log : List (Nat × Bool × Todo))
    (s : State) (i : Nat) (x : VK) : Prop :=
  ∃ (first : Bool) (cur : Todo) (d : Dep) (imps : List Dep) (L : List Bytes),
    (i, first, cur) ∈ log ∧ cur.includesDependencies = false ∧
    imports u cur.key.vk (optsOf first) = some imps ∧ d ∈ imps ∧
    isExcluded cur.exclusions d.name = some false ∧
    x = { name := d.name, version := depVer mgt first d } ∧
    L <+: s.requirements.get (depKey d) ∧ depVer mgt first d ∈ L ∧
    findMatch u d.name L = .noMatch

theorem ErrProv.mono {u : Universe} {mgt : List (PackageKey × Bytes)} {log log' : List (Nat × Bool × Todo)}
    {s s' : State} {i : Nat} {x : VK} (h : ErrProv u mgt log s i x)
    (hlog : ∀ y ∈ log, y ∈ log') (hreq : ∀ k, s.requirements.get k <+: s'.requirements.get k) :
    ErrProv u mgt log' s' i x := by
  obtain ⟨first, cur, d, imps, L, h1, h2, h3, h4, h5, h6, h7, h8, h9⟩ := h
  exact ⟨first, cur, d, imps, L, hlog _ h1, h2, h3, h4, h5, h6, List.IsPrefix.trans h7 (hreq _), h8, h9⟩

theorem errprov_loop {u : Universe} {mgt : List (PackageKey × Bytes)} {root : VK} {reqs0 : ReqMap}
    {fuel : Nat} {s : State}
    (h : loop u mgt fuel true (initState root reqs0) = .ok (some s)) :
    ∀ i, ∀ x ∈ s.g.errAt i, ErrProv u mgt s.done s i x := by
  have := loop_inv_wf (u := u) (mgt := mgt) root
    (fun _ s => ∀ i, ∀ x ∈ s.g.errAt i, ErrProv u mgt s.done s i x)
    (fun first cur curId _ s => ∀ i, ∀ x ∈ s.g.errAt i, ErrProv u mgt (s.done ++ [(curId, first, cur)]) s i x)
    (by
      intro first s cur rest _ hx _ _ i x hxm
      exact (hx i x hxm).mono (fun y hy => by simp [hy]) (fun _ => List.prefix_refl _))
    (by
      intro first cur curId imps ds d s s' hinc himps hpos hwj hy hs i x hxm
      have hd : d ∈ imps := by obtain ⟨rest, rfl⟩ := hpos; simp
      have hcid : curIdOf s cur = curId := curIdOf_eq hwj.2
      have hold : ∀ i x, x ∈ s.g.errAt i → ErrProv u mgt (s'.done ++ [(curId, first, cur)]) s' i x := by
        intro i x hxm
        rw [step_done hs]
        exact (hy i x hxm).mono (fun _ h => h) (step_reqs_prefix hs)
      cases hs with
      | excluded _ => exact hy i x hxm
      | noMatch hex hfm =>
        rcases errAt_addError_cases _ _ _ _ _ hxm with hxm | ⟨rfl, rfl⟩
        · exact hold i x hxm
        · exact ⟨first, cur, d, imps, _, by simp [hcid], hinc, himps, hd, hex, rfl,
            List.prefix_refl _, mem_reqsAfter _ _ _, hfm⟩
      | edge _ _ _ _ _ _ hadd =>
        obtain ⟨_, _, rfl⟩ := addEdge_some hadd
        exact hold i x hxm
      | newNode mv _ _ _ _ _ _ hadd =>
        obtain ⟨_, _, rfl⟩ := addEdge_some hadd
        simp only [errAt_edges_irrel] at hxm
        exact hold i x (errAt_addNode_cases _ _ _ _ hxm))
    (by
      intro first cur curId ds s _ _ hy i x hxm
      exact (hy i x hxm).mono (fun _ h => h) (fun _ => List.prefix_refl _))
    fuel true (initState root reqs0) s (wf_init root reqs0)
    (by intro i x hx; simp [initState, Graph.errAt] at hx
        cases i <;> simp at hx) h
  obtain ⟨_, hx, _, _⟩ := this
  exact hx

end DepsDev.Resolve.Maven
