import DepsDev.Proofs.C11SetOps
import DepsDev.Model.Semver.Constraint

/-!
# C11 — the tie, part 3: `value`, `setRange`, `andList` of the constraint parser

Each function is restated with its cases named (equal to the model's by `rfl`), and specified:
the spans it returns satisfy `SpanInv`, the system is kept, the error flag is sticky, a valid
value without error has spans, and an invalid one without error consumed nothing.
-/
namespace DepsDev.Proofs.C11
open DepsDev DepsDev.Semver DepsDev.Proofs.C10 DepsDev.Proofs.Digits

theorem parse_bvw (s : System) (hs : Generic s = true) (b : Bytes) (v : Version) (h : parse s b = .ok v) : BVw s v := by
  obtain ⟨bids, sh⟩ := parse_shape s hs b v h
  exact shape_bvw sh

/-- `value()`: the unary-operator case (`typ`, `tok` = the operator token, `r1` = input after it). -/
def cpUnop (p : CP) (typ : Nat) (tok r1 : Bytes) : Outcome (ValueRes × CP) := do
  let sys := p.sys
  let (typ2, tok2, r2) ← token sys r1
  if typ2 != tokVersion && typ2 != tokWildcard then .ok ({}, p.setErr) else
  match parse sys tok2 with
  | .panic => .panic
  | .err => .ok ({}, p.setErr)
  | .ok version =>
    let p := { p with rest := r2 }
    let spansRes : Outcome (List Span) :=
      if tok == [33, 61] then do
        let (l, r) ← excludeToSpans version
        .ok [l, r]
      else do
        let s ← opVersionToSpan typ version
        .ok [s]
    match spansRes with
    | .panic => .panic
    | .err => .ok ({}, p.setErr)
    | .ok spans =>
      let w := p.weight + 1 + (if typ != tokEqual then 1 else 0)
      .ok ({ spans := spans, valid := true }, { p with weight := w })

/-- `value()`: a bare version (no hyphen range follows). -/
def cpPlain (p : CP) (typ : Nat) (tok r1 : Bytes) : Outcome (ValueRes × CP) :=
  let sys := p.sys
  match parse sys tok with
  | .panic => .panic
  | .err => .ok ({ valid := true }, { p with weight := p.weight + 1, err := true, rest := r1 })
  | .ok version =>
    let w := p.weight + 1 + (if version.isWildcard then 1 else 0)
    let p := { p with weight := w, rest := r1 }
    let opType := if sys == .cargo && typ == tokVersion then tokCaret else tokEmpty
    match opVersionToSpan opType version with
    | .panic => .panic
    | .err => .ok ({}, p.setErr)
    | .ok s => .ok ({ spans := [s], valid := true }, p)

/-- `value()`: a hyphen range `lo - hi` (`r2` = input after the hyphen). -/
def cpHyphen (p : CP) (tok r2 : Bytes) : Outcome (ValueRes × CP) := do
  let sys := p.sys
  let (typ3, tok3, r3) ← token sys r2
  if typ3 != tokVersion && typ3 != tokWildcard then .ok ({}, p.setErr) else
  let lo := parse sys tok
  let hi := parse sys tok3
  if lo.isPanic || hi.isPanic then .panic else
  let p := { p with err := p.err || !lo.isOk || !hi.isOk, rest := r3, weight := p.weight + 2 }
  match lo, hi with
  | .ok lo, .ok hi => do
    let lt ← vLess hi lo
    if lt then .ok ({}, p.setErr) else
    match newSpan lo false (hi.fill infinity) false with
    | .panic => .panic
    | .err => .ok ({}, p.setErr)
    | .ok s => .ok ({ spans := [s], hyphenated := true, valid := true }, p)
  | _, _ => .ok ({ hyphenated := true, valid := true }, p)

/-- `constraintParser.value` with its cases named. -/
def cpValue' (p : CP) : Outcome (ValueRes × CP) := do
  let sys := p.sys
  let (typ, tok, r1) ← token sys p.rest
  if typ == tokEOF then .ok ({}, p)
  else if typ == tokInvalid then .ok ({}, p.setErr)
  else if isUnop typ then cpUnop p typ tok r1
  else if typ == tokVersion || typ == tokWildcard then
    let (typ2, _, r2) ← token sys r1
    if typ2 == tokInvalid then .ok ({}, p.setErr) else
    if typ2 != tokHyphen then cpPlain p typ tok r1
    else cpHyphen p tok r2
  else .ok ({}, p)

theorem cpValue_eq (p : CP) : cpValue p = cpValue' p := rfl


/-- What a successful `value()` call guarantees. -/
structure VOK (s : System) (p : CP) (vr : ValueRes) (p' : CP) : Prop where
  inv : AllInv s vr.spans
  sys : p'.sys = s
  err : p'.err = false → p.err = false
  ne : vr.valid = true → p'.err = false → vr.spans ≠ []
  unch : vr.valid = false → p'.err = false → p'.rest = p.rest

def VRInv (s : System) (p : CP) (o : Outcome (ValueRes × CP)) : Prop :=
  ∀ vr p', o = .ok (vr, p') → VOK s p vr p'

theorem vrInv_none (s : System) (p p' : CP) (hs : p'.sys = s) (he : p'.err = false → p.err = false)
    (hu : p'.err = false → p'.rest = p.rest) : VRInv s p (.ok ({}, p')) := by
  intro vr q h
  injection h with h
  injection h with h1 h2
  subst h1 h2
  exact ⟨by simp [AllInv], hs, he, by simp, fun _ => hu⟩

theorem vrInv_setErr (s : System) (p : CP) (hs : p.sys = s) : VRInv s p (.ok ({}, p.setErr)) :=
  vrInv_none s p _ hs (by simp [CP.setErr]) (by simp [CP.setErr])

theorem allInv_one {s : System} {sp : Span} (h : SpanInv s sp) : AllInv s [sp] := by
  intro y hy; simp at hy; subst hy; exact h

theorem cpUnop_spec (s : System) (hs : Generic s = true) (p : CP) (hp : p.sys = s) (typ : Nat) (tok r1 : Bytes) :
    VRInv s p (cpUnop p typ tok r1) := by
  unfold cpUnop
  simp only [bind, Outcome.bind, hp]
  split
  · rename_i t ht
    obtain ⟨typ2, tok2, r2⟩ := t
    simp only
    split
    · exact vrInv_setErr s p hp
    · split
      · intro _ _ h; cases h
      · exact vrInv_setErr s p hp
      · rename_i version hv
        have hbv := parse_bvw s hs tok2 version hv
        split
        · intro _ _ h; cases h
        · exact vrInv_none s p _ rfl (by simp [CP.setErr]) (by simp [CP.setErr])
        · rename_i spans hspans
          intro vr q h
          injection h with h
          injection h with h1 h2
          subst h1 h2
          have hinv : AllInv s spans ∧ spans ≠ [] := by
            split at hspans
            · split at hspans
              · rename_i pr hpr
                obtain ⟨l, r⟩ := pr
                injection hspans with hspans
                subst hspans
                obtain ⟨g1, g2⟩ := excludeToSpans_spec s hs version hbv l r hpr
                exact ⟨by intro y hy; simp at hy; rcases hy with rfl | rfl <;> assumption, by simp⟩
              · cases hspans
              · cases hspans
            · split at hspans
              · rename_i sp hsp
                injection hspans with hspans
                subst hspans
                exact ⟨allInv_one (opVersionToSpan_spec s hs typ version hbv sp hsp), by simp⟩
              · cases hspans
              · cases hspans
          exact ⟨hinv.1, rfl, id, fun _ _ => hinv.2, by simp⟩
  · intro _ _ h; cases h
  · intro _ _ h; cases h

theorem cpPlain_spec (s : System) (hs : Generic s = true) (p : CP) (hp : p.sys = s) (typ : Nat) (tok r1 : Bytes) :
    VRInv s p (cpPlain p typ tok r1) := by
  unfold cpPlain
  simp only [hp]
  split
  · intro _ _ h; cases h
  · intro vr q h
    injection h with h
    injection h with h1 h2
    subst h1 h2
    exact ⟨by simp [AllInv], rfl, by simp, by simp, by simp⟩
  · rename_i version hv
    have hbv := parse_bvw s hs tok version hv
    split
    · intro _ _ h; cases h
    · exact vrInv_none s p _ rfl (by simp [CP.setErr]) (by simp [CP.setErr])
    · rename_i sp hsp
      intro vr q h
      injection h with h
      injection h with h1 h2
      subst h1 h2
      exact ⟨allInv_one (opVersionToSpan_spec s hs _ version hbv sp hsp), rfl, id, by simp, by simp⟩

theorem cpHyphen_spec (s : System) (hs : Generic s = true) (p : CP) (hp : p.sys = s) (tok r2 : Bytes) :
    VRInv s p (cpHyphen p tok r2) := by
  unfold cpHyphen
  simp only [bind, Outcome.bind, hp]
  split
  · rename_i t ht
    obtain ⟨typ3, tok3, r3⟩ := t
    simp only
    split
    · exact vrInv_setErr s p hp
    · split
      · intro _ _ h; cases h
      · split
        · rename_i lo hi hlo hhi
          have hbl := parse_bvw s hs tok lo hlo
          have hbh := parse_bvw s hs tok3 hi hhi
          split
          · split
            · exact vrInv_none s p _ rfl (by simp [CP.setErr]) (by simp [CP.setErr])
            · split
              · intro _ _ h; cases h
              · exact vrInv_none s p _ rfl (by simp [CP.setErr]) (by simp [CP.setErr])
              · rename_i sp hsp
                intro vr q h
                injection h with h
                injection h with h1 h2
                subst h1 h2
                refine ⟨allInv_one (newSpan_spec s hs _ _ _ _ hbl (fill_bvw hbh _ inf_ok) sp hsp), rfl, ?_, by simp, by simp⟩
                simp only [hlo, hhi, Outcome.isOk, Bool.not_true, Bool.or_false]
                exact id
          · intro _ _ h; cases h
          · intro _ _ h; cases h
        · rename_i hno
          intro vr q h
          injection h with h
          injection h with h1 h2
          subst h1 h2
          refine ⟨by simp [AllInv], rfl, ?_, ?_, by simp⟩
          · simp only [Bool.or_eq_false_iff]
            intro h; exact h.1.1
          · intro _ he
            exfalso
            simp only [Bool.or_eq_false_iff, Bool.not_eq_false'] at he
            cases hlo : parse s tok with
            | ok lo =>
              cases hhi : parse s tok3 with
              | ok hi => exact hno lo hi hlo hhi
              | err => rw [hhi] at he; simp [Outcome.isOk] at he
              | panic => rw [hhi] at he; simp [Outcome.isOk] at he
            | err => rw [hlo] at he; simp [Outcome.isOk] at he
            | panic => rw [hlo] at he; simp [Outcome.isOk] at he
  · intro _ _ h; cases h
  · intro _ _ h; cases h

theorem cpValue_spec (s : System) (hs : Generic s = true) (p : CP) (hp : p.sys = s) : VRInv s p (cpValue p) := by
  rw [cpValue_eq]
  unfold cpValue'
  simp only [bind, Outcome.bind, hp]
  split
  · rename_i t ht
    obtain ⟨typ, tok, r1⟩ := t
    simp only
    split
    · exact vrInv_none s p p hp id (fun _ => rfl)
    · split
      · exact vrInv_setErr s p hp
      · split
        · exact cpUnop_spec s hs p hp typ tok r1
        · split
          · split
            · rename_i t2 ht2
              obtain ⟨typ2, tok2', r2⟩ := t2
              simp only
              split
              · exact vrInv_setErr s p hp
              · split
                · exact cpPlain_spec s hs p hp typ tok r1
                · exact cpHyphen_spec s hs p hp tok r2
            · intro _ _ h; cases h
            · intro _ _ h; cases h
          · exact vrInv_none s p p hp id (fun _ => rfl)
  · intro _ _ h; cases h
  · intro _ _ h; cases h

/-- The "optional version, then look at the next token" step of `setRange` (used for both bounds). -/
def cpOptVersion (sys : System) (p : CP) (typ : Nat) (tok r : Bytes) :
    Outcome (Option (Option Version × Nat × Bytes × Bytes × CP)) :=
  if typ == tokVersion then
    match parse sys tok with
    | .panic => .panic
    | .err => .ok none
    | .ok m => do
      let p := { p with rest := r }
      let (typ', tok', r') ← token sys p.rest
      .ok (some (some m, typ', tok', r', p))
  else .ok (some (none, typ, tok, r, p))

/-- `setRange` after the optional lower bound, at `,` … `]`. -/
def cpUpper (sys : System) (p : CP) (min : Version) (minOpen : Bool) : Outcome (Option Span × CP) := do
  let (typ, tok, r) ← token sys p.rest
  match ← cpOptVersion sys p typ tok r with
  | none => .ok (none, p.setErr)
  | some (max?, typ, tok, r, p) =>
  let maxOpen0 := tok == [41]
  let (max, maxOpen) : Version × Bool := match max? with
    | some m => (m, maxOpen0)
    | none => ({ sys := sys, num := [infinity, infinity, infinity] }, false)
  if typ != tokRbracket then .ok (none, p.setErr) else
  match newSpan min minOpen max maxOpen with
  | .panic => .panic
  | .err => .ok (none, p.setErr)
  | .ok sp => .ok (some sp, { p with rest := r })

/-- `setRange`: the bracket form (`tok` = the opening bracket, `r1` = input after it). -/
def cpBracket (p0 : CP) (tok0 r1 : Bytes) : Outcome (Option Span × CP) := do
  let sys := p0.sys
  let p := { p0 with weight := p0.weight + 2, rest := r1 }
  let minOpen0 := tok0 == [40]
  let (typ, tok, r) ← token sys p.rest
  match ← cpOptVersion sys p typ tok r with
  | none => .ok (none, p.setErr)
  | some (min?, typ, tok, r, p) =>
  let (min, minOpen) ← (match min? with
    | some m => Outcome.ok (m, minOpen0)
    | none =>
      match parse sys [48] with
      | .ok m => Outcome.ok (m, false)
      | .err => Outcome.panic
      | .panic => Outcome.panic)
  if typ != tokComma && typ != tokRbracket then .ok (none, p.setErr) else
  let p := { p with rest := r }
  if typ == tokRbracket then
    let p := if minOpen || tok == [41] then p.setErr else p
    match newSpanAliased min with
    | .panic => .panic
    | .err => .ok (none, p.setErr)
    | .ok sp => .ok (some sp, p)
  else cpUpper sys p min minOpen

/-- `setRange`: a bare (possibly floating) version. -/
def cpBare (p0 : CP) (tok r1 : Bytes) : Outcome (Option Span × CP) :=
  let sys := p0.sys
  match parse sys tok with
  | .panic => .panic
  | .err => .ok (none, p0.setErr)
  | .ok v =>
    let p := { p0 with weight := p0.weight + 1 + (if v.isWildcard then 1 else 0) }
    if sys == .maven then
      let zero : Version := { sys := sys, num := [0, 0, 0] }
      match opVersionToSpan tokGreaterEqual zero with
      | .panic => .panic
      | .err => .ok (some Span.emptySpan, { p with rest := r1 })
      | .ok sp => .ok (some sp, { p with rest := r1 })
    else if sys == .nuget then
      match opVersionToSpan tokGreaterEqual v with
      | .panic => .panic
      | .err => .ok (some Span.emptySpan, { p with rest := r1 })
      | .ok sp => .ok (some sp, { p with rest := r1 })
    else .ok (none, p.setErr)

def cpSetRange' (p : CP) : Outcome (Option Span × CP) := do
  let sys := p.sys
  let (typ, tok, r1) ← token sys p.rest
  if typ == tokEOF then .ok (none, p)
  else if typ == tokInvalid then .ok (none, p.setErr)
  else if typ == tokWildcard && sys != .nuget then .ok (none, p.setErr)
  else if typ == tokVersion || typ == tokWildcard then cpBare p tok r1
  else if typ == tokLbracket then cpBracket p tok r1
  else .ok (none, p)

theorem cpSetRange_eq (p : CP) : cpSetRange p = cpSetRange' p := rfl


/-- What a successful `setRange` call guarantees. -/
def SRInv (s : System) (p : CP) (o : Outcome (Option Span × CP)) : Prop :=
  ∀ r p', o = .ok (r, p') → (∀ sp, r = some sp → SpanInv s sp) ∧ p'.sys = s ∧ (p'.err = false → p.err = false) ∧
    (r = none → p'.err = false → p'.rest = p.rest)

theorem srInv_none (s : System) (p p' : CP) (hs : p'.sys = s) (he : p'.err = false → p.err = false)
    (hu : p'.err = false → p'.rest = p.rest := by simp [CP.setErr]) :
    SRInv s p (.ok (none, p')) := by
  intro r q h
  injection h with h
  injection h with h1 h2
  subst h1 h2
  exact ⟨by simp, hs, he, fun _ => hu⟩

theorem srInv_some (s : System) (p p' : CP) (sp : Span) (hsp : SpanInv s sp) (hs : p'.sys = s)
    (he : p'.err = false → p.err = false) : SRInv s p (.ok (some sp, p')) := by
  intro r q h
  injection h with h
  injection h with h1 h2
  subst h1 h2
  exact ⟨by intro x hx; injection hx with hx; subst hx; exact hsp, hs, he, by simp⟩

theorem srInv_fail (s : System) (p : CP) (o : Outcome (Option Span × CP)) (h : o = .err ∨ o = .panic) : SRInv s p o := by
  intro r q hq
  rcases h with h | h <;> rw [h] at hq <;> cases hq

theorem cpOptVersion_spec (s : System) (hs : Generic s = true) (p : CP) (typ : Nat) (tok r : Bytes)
    (m? : Option Version) (typ' : Nat) (tok' r' : Bytes) (p' : CP)
    (h : cpOptVersion s p typ tok r = .ok (some (m?, typ', tok', r', p'))) :
    (∀ m, m? = some m → BVw s m) ∧ p'.sys = p.sys ∧ p'.err = p.err := by
  unfold cpOptVersion at h
  split at h
  · split at h
    · cases h
    · cases h
    · rename_i m hm
      simp only [bind, Outcome.bind] at h
      split at h
      · injection h with h
        injection h with h
        injection h with h1 h2
        injection h2 with h2 h3
        injection h3 with h3 h4
        injection h4 with h4 h5
        subst h1 h5
        exact ⟨by intro x hx; injection hx with hx; subst hx; exact parse_bvw s hs tok m hm, rfl, rfl⟩
      · cases h
      · cases h
  · injection h with h
    injection h with h
    injection h with h1 h2
    injection h2 with h2 h3
    injection h3 with h3 h4
    injection h4 with h4 h5
    subst h1 h5
    exact ⟨(fun x hx => by cases hx), rfl, rfl⟩

theorem cpUpper_spec (s : System) (hs : Generic s = true) (p0 p : CP) (hp : p.sys = s) (he : p.err = false → p0.err = false)
    (min : Version) (hmin : BVw s min) (minOpen : Bool) : SRInv s p0 (cpUpper s p min minOpen) := by
  unfold cpUpper
  simp only [bind, Outcome.bind]
  split
  · rename_i t ht
    obtain ⟨typ, tok, r⟩ := t
    simp only
    split
    · rename_i o ho
      cases o with
      | none => exact srInv_none s p0 _ (by simp [CP.setErr, hp]) (by simp [CP.setErr])
      | some q =>
        obtain ⟨max?, typ', tok', r', p'⟩ := q
        obtain ⟨g1, g2, g3⟩ := cpOptVersion_spec s hs p typ tok r max? typ' tok' r' p' ho
        have hp' : p'.sys = s := g2.trans hp
        have he' : p'.err = false → p0.err = false := fun h => he (g3 ▸ h)
        simp only
        have hmax : BVw s (match max? with
            | some m => (m, tok' == [41])
            | none => (({ sys := s, num := [infinity, infinity, infinity] } : Version), false)).1 := by
          cases max? with
          | none => exact const_bvw s infinity inf_ok
          | some m => exact g1 m rfl
        split
        · exact srInv_none s p0 _ (by simp [CP.setErr, hp']) (by simp [CP.setErr])
        · split
          · exact srInv_fail s p0 _ (Or.inr rfl)
          · exact srInv_none s p0 _ (by simp [CP.setErr, hp']) (by simp [CP.setErr])
          · rename_i sp hsp
            refine srInv_some s p0 _ sp ?_ hp' he'
            cases max? with
            | none => exact newSpan_spec s hs _ _ _ _ hmin (const_bvw s infinity inf_ok) sp hsp
            | some m => exact newSpan_spec s hs _ _ _ _ hmin (g1 m rfl) sp hsp
    · exact srInv_fail s p0 _ (Or.inl rfl)
    · exact srInv_fail s p0 _ (Or.inr rfl)
  · exact srInv_fail s p0 _ (Or.inl rfl)
  · exact srInv_fail s p0 _ (Or.inr rfl)


theorem cpBracket_spec (s : System) (hs : Generic s = true) (p0 : CP) (hp0 : p0.sys = s) (tok0 r1 : Bytes) :
    SRInv s p0 (cpBracket p0 tok0 r1) := by
  unfold cpBracket
  simp only [bind, Outcome.bind, hp0]
  split
  · rename_i t ht
    obtain ⟨typ, tok, r⟩ := t
    simp only
    split
    · rename_i o ho
      cases o with
      | none => exact srInv_none s p0 _ (by simp [CP.setErr]) (by simp [CP.setErr])
      | some q =>
        obtain ⟨min?, typ', tok', r', p'⟩ := q
        obtain ⟨g1, g2, g3⟩ := cpOptVersion_spec s hs _ typ tok r min? typ' tok' r' p' ho
        have hp' : p'.sys = s := g2
        have he' : p'.err = false → p0.err = false := fun h => by rw [g3] at h; exact h
        simp only
        split
        · rename_i mm hmm
          obtain ⟨min, minOpen⟩ := mm
          have hmin : BVw s min := by
            cases min? with
            | some m =>
              simp only at hmm
              injection hmm with hmm
              injection hmm with e1 _
              subst e1
              exact g1 m rfl
            | none =>
              simp only at hmm
              split at hmm
              · rename_i m hm
                injection hmm with hmm
                injection hmm with e1 _
                subst e1
                exact parse_bvw s hs _ m hm
              · cases hmm
              · cases hmm
          simp only
          split
          · exact srInv_none s p0 _ (by simp [CP.setErr, hp']) (by simp [CP.setErr])
          · split
            · split
              · exact srInv_fail s p0 _ (Or.inr rfl)
              · refine srInv_none s p0 _ ?_ (by simp [CP.setErr])
                simp only [CP.setErr]
                split <;> simp [CP.setErr, hp']
              · rename_i sp hsp
                refine srInv_some s p0 _ sp (newSpanAliased_spec s hs _ hmin sp hsp) ?_ ?_
                · split <;> simp [CP.setErr, hp']
                · split
                  · simp [CP.setErr]
                  · exact he'
            · exact cpUpper_spec s hs p0 { p' with rest := r' } hp' he' min hmin minOpen
        · exact srInv_fail s p0 _ (Or.inl rfl)
        · exact srInv_fail s p0 _ (Or.inr rfl)
    · exact srInv_fail s p0 _ (Or.inl rfl)
    · exact srInv_fail s p0 _ (Or.inr rfl)
  · exact srInv_fail s p0 _ (Or.inl rfl)
  · exact srInv_fail s p0 _ (Or.inr rfl)

theorem cpBare_spec (s : System) (hs : Generic s = true) (p0 : CP) (hp0 : p0.sys = s) (tok r1 : Bytes) :
    SRInv s p0 (cpBare p0 tok r1) := by
  unfold cpBare
  simp only [hp0]
  split
  · exact srInv_fail s p0 _ (Or.inr rfl)
  · exact srInv_none s p0 _ (by simp [CP.setErr, hp0]) (by simp [CP.setErr])
  · rename_i v hv
    have hbv := parse_bvw s hs tok v hv
    split
    · rename_i hm
      exfalso
      have : s = .maven := by simpa using hm
      subst this
      exact absurd hs (by decide)
    · split
      · split
        · exact srInv_fail s p0 _ (Or.inr rfl)
        · exact srInv_some s p0 _ _ (spanInv_empty s) rfl id
        · rename_i sp hsp
          exact srInv_some s p0 _ sp (opVersionToSpan_spec s hs _ v hbv sp hsp) rfl id
      · exact srInv_none s p0 _ (by simp [CP.setErr]) (by simp [CP.setErr])

theorem cpSetRange_spec (s : System) (hs : Generic s = true) (p : CP) (hp : p.sys = s) : SRInv s p (cpSetRange p) := by
  rw [cpSetRange_eq]
  unfold cpSetRange'
  simp only [bind, Outcome.bind]
  split
  · rename_i t ht
    obtain ⟨typ, tok, r1⟩ := t
    simp only
    split
    · exact srInv_none s p p hp id (fun _ => rfl)
    · split
      · exact srInv_none s p _ (by simp [CP.setErr, hp]) (by simp [CP.setErr])
      · split
        · exact srInv_none s p _ (by simp [CP.setErr, hp]) (by simp [CP.setErr])
        · split
          · exact cpBare_spec s hs p hp tok r1
          · split
            · exact cpBracket_spec s hs p hp tok r1
            · exact srInv_none s p p hp id (fun _ => rfl)
  · exact srInv_fail s p _ (Or.inl rfl)
  · exact srInv_fail s p _ (Or.inr rfl)

abbrev ALRes := Outcome (List Span × Bool × CP)

/-- The token switch after a value in `andList`; `k p set lastWasComma` = the next iteration. -/
def alNext (k : CP → List Span → Bool → ALRes) (p : CP) (set' : List Span) : ALRes := do
  let (typ, _, r) ← token p.sys p.rest
  if typ == tokEOF then k p set' false
  else if typ == tokInvalid then k p.setErr set' false
  else if typ == tokComma then k { p with rest := r } set' true
  else if typ == tokOr then k p set' false
  else
    let p := if !p.sys.supportsAnd then p.setErr else p
    let p := if p.sys == .rubygems then p.setErr else p
    k p set' false

theorem andList_go_succ (p : CP) (set : List Span) (first lwc : Bool) (fuel : Nat) :
    cpAndList.go p set first lwc (fuel + 1) =
      (cpValue p).bind (fun (vr, p) =>
        if !vr.valid then .ok (set, !first, if lwc then p.setErr else p)
        else if first then
          if vr.hyphenated then .ok (vr.spans, true, p)
          else alNext (fun p s l => cpAndList.go p s false l fuel) p vr.spans
        else if vr.hyphenated then .ok (set, true, p.setErr)
        else
          match VSet.intersect { sys := .default, span := set } { sys := .default, span := vr.spans } with
          | .panic => .panic
          | .err => .ok (set, false, p.setErr)
          | .ok s => alNext (fun p s l => cpAndList.go p s false l fuel) p s.span) := rfl


/-- What a successful `andList` call guarantees (`p0` = the state the whole constraint started from,
`pin` = the state this `andList` started from). -/
def ALInv (s : System) (p0 pin : CP) (o : ALRes) : Prop :=
  ∀ set ok p', o = .ok (set, ok, p') →
    AllInv s set ∧ p'.sys = s ∧ (p'.err = false → p0.err = false) ∧ (ok = true → p'.err = false → set ≠ []) ∧
    (ok = false → p'.err = false → p'.rest = pin.rest)

theorem alInv_ok (s : System) (p0 pin p' : CP) (set : List Span) (ok : Bool) (h1 : AllInv s set) (h2 : p'.sys = s)
    (h3 : p'.err = false → p0.err = false) (h4 : ok = true → p'.err = false → set ≠ [])
    (h5 : ok = false → p'.err = false → p'.rest = pin.rest) :
    ALInv s p0 pin (.ok (set, ok, p')) := by
  intro a b c h
  injection h with h
  injection h with e1 h
  injection h with e2 e3
  subst e1 e2 e3
  exact ⟨h1, h2, h3, h4, h5⟩

theorem alNext_spec (s : System) (p0 pin : CP) (k : CP → List Span → Bool → ALRes)
    (hk : ∀ q set l, q.sys = s → AllInv s set → (q.err = false → p0.err = false) → (q.err = false → set ≠ []) →
      ALInv s p0 pin (k q set l))
    (p : CP) (set' : List Span) (hp : p.sys = s) (hset : AllInv s set') (he : p.err = false → p0.err = false)
    (hne : p.err = false → set' ≠ []) : ALInv s p0 pin (alNext k p set') := by
  unfold alNext
  simp only [bind, Outcome.bind]
  split
  · rename_i t ht
    obtain ⟨typ, tok, r⟩ := t
    simp only
    split
    · exact hk p set' false hp hset he hne
    · split
      · exact hk _ set' false (by simp [CP.setErr, hp]) hset (by simp [CP.setErr]) (by simp [CP.setErr])
      · split
        · exact hk _ set' true hp hset he hne
        · split
          · exact hk p set' false hp hset he hne
          · apply hk _ set' false
            · split <;> split <;> simp [CP.setErr, hp]
            · exact hset
            · split <;> split <;> simp_all [CP.setErr]
            · split <;> split <;> simp_all [CP.setErr]
  · intro _ _ _ h; cases h
  · intro _ _ _ h; cases h

theorem andList_go_spec (s : System) (hs : Generic s = true) (p0 pin : CP) (fuel : Nat) :
    ∀ (p : CP) (set : List Span) (first lwc : Bool), p.sys = s → AllInv s set → (p.err = false → p0.err = false) →
      (first = false → p.err = false → set ≠ []) → (first = true → p.rest = pin.rest ∧ lwc = false) →
      ALInv s p0 pin (cpAndList.go p set first lwc fuel) := by
  induction fuel with
  | zero =>
    intro p set first lwc hp hset he hne hfirst
    simp only [cpAndList.go]
    exact alInv_ok s p0 pin p set _ hset hp he (by intro h; exact hne (by simpa using h))
      (by intro h _; exact (hfirst (by simpa using h)).1)
  | succ k ih =>
    intro p set first lwc hp hset he hne hfirst
    rw [andList_go_succ]
    cases hv : cpValue p with
    | err => intro _ _ _ h; cases h
    | panic => intro _ _ _ h; cases h
    | ok res =>
      obtain ⟨vr, p1⟩ := res
      have hvok := cpValue_spec s hs p hp vr p1 hv
      have he1 : p1.err = false → p0.err = false := fun h => he (hvok.err h)
      have hk : ∀ q set l, q.sys = s → AllInv s set → (q.err = false → p0.err = false) → (q.err = false → set ≠ []) →
          ALInv s p0 pin (cpAndList.go q set false l k) :=
        fun q set l h1 h2 h3 h4 => ih q set false l h1 h2 h3 (fun _ => h4) (by simp)
      simp only [Outcome.bind]
      split
      · rename_i hinvalid
        have hinv' : vr.valid = false := by simpa using hinvalid
        refine alInv_ok s p0 pin _ set _ hset ?_ ?_ ?_ ?_
        · split <;> simp [CP.setErr, hvok.sys]
        · split
          · simp [CP.setErr]
          · exact he1
        · intro hok herr
          have hf : first = false := by simpa using hok
          apply hne hf
          split at herr
          · simp [CP.setErr] at herr
          · exact hvok.err herr
        · intro hok herr
          have hf : first = true := by simpa using hok
          obtain ⟨hr, hl⟩ := hfirst hf
          subst hl
          simp only [Bool.false_eq_true, ↓reduceIte] at herr ⊢
          rw [hvok.unch hinv' herr, hr]
      · rename_i hvalid
        have hvalid' : vr.valid = true := by simpa using hvalid
        split
        · split
          · exact alInv_ok s p0 pin p1 vr.spans true hvok.inv hvok.sys he1 (fun _ h => hvok.ne hvalid' h) (by simp)
          · exact alNext_spec s p0 pin _ hk p1 vr.spans hvok.sys hvok.inv he1 (fun h => hvok.ne hvalid' h)
        · split
          · exact alInv_ok s p0 pin _ set true hset (by simp [CP.setErr, hvok.sys]) (by simp [CP.setErr]) (by simp [CP.setErr]) (by simp)
          · split
            · intro _ _ _ h; cases h
            · exact alInv_ok s p0 pin _ set false hset (by simp [CP.setErr, hvok.sys]) (by simp [CP.setErr]) (by simp) (by simp [CP.setErr])
            · rename_i R hR
              obtain ⟨g1, g2⟩ := intersect_spec s hs _ _ R hR hset hvok.inv
              exact alNext_spec s p0 pin _ hk p1 R.span hvok.sys g1 he1 (fun _ => g2)

theorem cpAndList_spec (s : System) (hs : Generic s = true) (p0 p : CP) (hp : p.sys = s)
    (he : p.err = false → p0.err = false) : ALInv s p0 p (cpAndList p) := by
  unfold cpAndList
  split
  · simp only [bind, Outcome.bind]
    cases hr : cpSetRange p with
    | err => intro _ _ _ h; cases h
    | panic => intro _ _ _ h; cases h
    | ok res =>
      obtain ⟨sp?, p1⟩ := res
      obtain ⟨g1, g2, g3, g4⟩ := cpSetRange_spec s hs p hp sp? p1 hr
      simp only
      cases sp? with
      | none => exact alInv_ok s p0 p p1 [] false (by simp [AllInv]) g2 (fun h => he (g3 h)) (by simp) (fun _ h => g4 rfl h)
      | some sp => exact alInv_ok s p0 p p1 [sp] true (allInv_one (g1 sp rfl)) g2 (fun h => he (g3 h)) (by simp) (by simp)
  · exact andList_go_spec s hs p0 p _ p [] true false hp (by simp [AllInv]) he (by simp) (by simp)

end DepsDev.Proofs.C11
