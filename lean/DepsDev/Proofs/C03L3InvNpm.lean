import DepsDev.Proofs.C03L3Inv

/-!
# C03 layer L3: `InvNpm` for the eight npm operators (see `C03L3Inv`)
-/
namespace DepsDev.Proofs.C03

open DepsDev DepsDev.Semver DepsDev.Ref DepsDev.Proofs.C09

set_option linter.unusedSimpArgs false

theorem inv_npm_caret : InvNpm .caret := by inv_npm_all
theorem inv_npm_tilde : InvNpm .tilde := by inv_npm_all
theorem inv_npm_none : InvNpm .none := by inv_npm_all
theorem inv_npm_eq : InvNpm .eq := by inv_npm_all
theorem inv_npm_ge : InvNpm .ge := by inv_npm_all
theorem inv_npm_gt : InvNpm .gt := by inv_npm_all
theorem inv_npm_le : InvNpm .le := by inv_npm_all
theorem inv_npm_lt : InvNpm .lt := by inv_npm_all

theorem invNpm_all (op : Op) : InvNpm op := by
  cases op
  · exact inv_npm_none
  · exact inv_npm_eq
  · exact inv_npm_gt
  · exact inv_npm_ge
  · exact inv_npm_lt
  · exact inv_npm_le
  · exact inv_npm_caret
  · exact inv_npm_tilde

end DepsDev.Proofs.C03
