import DepsDev.Proofs.C06Spec
import DepsDev.Proofs.C06Marks

/-! Helper lemmas for C06, clause T2 (Node's walk-up lookup lands on the edge's target), for
universes without aliases: the *protection invariant* and its preservation.

For every edge `(f, name, t)`: `t` sits in the slot `name` of a directory `q` on the way from
`f` to the root, and every directory `r` strictly between (`q ⊊ r ⊆ f`) has no slot `name`
and has `name` in its `protected` set. An install never puts `name` into a protected
directory other than the current one, and the current one is safe because the names of one
version's dependencies are distinct (U3). -/

namespace DepsDev.Resolve.Npm

def NoAliasSlots (t : Tree) : Prop := ∀ p ∈ t.keys, ∀ s ∈ p, s.alias = false

/-- The protection invariant for one edge. -/
def EdgeProt (t : Tree) (e : Edge) : Prop :=
  ∃ fp q,
    (∃ x ∈ t.static, x.id = e.src ∧ x.path = fp) ∧
    (∃ y ∈ t.static, y.id = e.dst ∧ y.path = ⟨false, e.imp.name⟩ :: q) ∧
    IsSuffix q fp ∧
    ∀ r, IsSuffix r fp → IsSuffix q r → r ≠ q →
      (⟨false, e.imp.name⟩ :: r) ∉ t.keys ∧ ∃ n, t.get? r = some n ∧ e.imp.name ∈ n.prot

/-- Unprocessed nodes have no marks and no children. -/
def UnprocClean (t : Tree) : Prop :=
  ∀ p n, t.get? p = some n → n.processed = false → n.prot = [] ∧ ∀ s, (s :: p) ∉ t.keys

structure PInv (st : State) : Prop where
  edge_prot : ∀ e ∈ st.edges, EdgeProt st.tree e
  unproc_clean : UnprocClean st.tree
  no_alias : NoAliasSlots st.tree

/-! ## Facts about paths under the static invariant -/

theorem Inv.prefix_closed_keys {u : Universe} {st : State} (h : Inv u st) {s : Slot} {p : Path}
    (hsp : (s :: p) ∈ st.tree.keys) : p ∈ st.tree.keys := by
  rw [← Tree.static_keys] at hsp ⊢
  exact h.prefix_closed s p hsp

theorem Inv.suffix_mem_keys {u : Universe} {st : State} (h : Inv u st) {cur r : Path}
    (hc : cur ∈ st.tree.keys) (hr : IsSuffix r cur) : r ∈ st.tree.keys := by
  obtain ⟨pre, rfl⟩ := hr
  induction pre with
  | nil => simpa using hc
  | cons s pre ih => exact ih (h.prefix_closed_keys hc)

theorem IsSuffix.child {r cur : Path} (h : IsSuffix r cur) (hne : r ≠ cur) :
    ∃ s, IsSuffix (s :: r) cur := by
  obtain ⟨pre, rfl⟩ := h
  cases hp : pre.reverse with
  | nil =>
    have : pre = [] := by simpa using hp
    subst this; simp at hne
  | cons s rest =>
    have : pre = rest.reverse ++ [s] := by
      have := congrArg List.reverse hp; simpa using this
    exact ⟨s, rest.reverse, by rw [this]; simp⟩

theorem Inv.keys_nodup {u : Universe} {st : State} (h : Inv u st) : st.tree.keys.Nodup := by
  rw [← Tree.static_keys]; exact SInv.keys_nodup h

theorem mem_static_of_get? {t : Tree} {p : Path} {n : TNode} (h : t.get? p = some n) :
    (⟨p, n.ver, n.ideps, n.id⟩ : SEntry) ∈ t.static :=
  Tree.mem_static_of_mem_dyn (Tree.mem_dyn_of_get? h)

/-- Every directory on the way from a processed node to the root is processed. -/
theorem suffix_processed {u : Universe} {st : State} (h : Inv u st) (hu : UnprocClean st.tree)
    {cur : Path} {cn : TNode} (hcn : st.tree.get? cur = some cn) (hproc : cn.processed = true)
    {r : Path} {n : TNode} (hr : IsSuffix r cur) (hn : st.tree.get? r = some n) : n.processed = true := by
  by_cases hrc : r = cur
  · subst hrc; rw [hcn] at hn; cases hn; exact hproc
  · obtain ⟨s, hs⟩ := hr.child hrc
    have hmem : (s :: r) ∈ st.tree.keys :=
      h.suffix_mem_keys (Tree.mem_keys_of_mem (Tree.get?_some_mem hcn)) hs
    cases hp : n.processed with
    | true => rfl
    | false => exact absurd hmem ((hu r n hn hp).2 s)

/-! ## Transfer of the invariant across marking -/

theorem EdgeProt.marks {x : Name} {cur : Path} {t t' : Tree} (hm : MarksRel x cur t t')
    (hs : t'.static = t.static) {e : Edge} (h : EdgeProt t e) : EdgeProt t' e := by
  obtain ⟨fp, q, hx, hy, hq, hr⟩ := h
  refine ⟨fp, q, by rw [hs]; exact hx, by rw [hs]; exact hy, hq, ?_⟩
  intro r h1 h2 h3
  obtain ⟨hk, n, hn, hp⟩ := hr r h1 h2 h3
  obtain ⟨n', hn', _, _, _, _, hmono, _⟩ := hm.node r n hn
  exact ⟨by rw [hm.keys]; exact hk, n', hn', hmono _ hp⟩

theorem UnprocClean.marks {x : Name} {cur : Path} {t t' : Tree} (hm : MarksRel x cur t t')
    (hu : UnprocClean t) (hsuf : ∀ r n, IsSuffix r cur → t.get? r = some n → n.processed = true) :
    UnprocClean t' := by
  intro p n' hn' hproc
  obtain ⟨n, hn, _, _, hpr, _, _, hnew⟩ := hm.node' hn'
  rw [hproc] at hpr
  obtain ⟨hprot, hch⟩ := hu p n hn hpr.symm
  refine ⟨?_, fun s => by rw [hm.keys]; exact hch s⟩
  apply List.eq_nil_iff_forall_not_mem.2
  intro y hy
  rcases hnew y hy with hy | ⟨_, hsuf'⟩
  · rw [hprot] at hy; cases hy
  · have := hsuf p n hsuf' hn
    rw [this] at hpr; cases hpr

theorem NoAliasSlots.of_keys {t t' : Tree} (h : t'.keys = t.keys) (hn : NoAliasSlots t) : NoAliasSlots t' := by
  intro p hp; rw [h] at hp; exact hn p hp

/-- In a tree without alias slots a `candidate` for an unaliased dependency is the plain
child slot. -/
theorem candidate_noalias {t : Tree} (hna : NoAliasSlots t) {p : Path} {ipk : Name} {cp : Path}
    {c : TNode} {b : Bool} (h : candidate t p ipk Name.empty = some (cp, c, b)) :
    cp = ⟨false, ipk⟩ :: p ∧ t.get? cp = some c := by
  obtain ⟨hget, s, hcp, hname, _, _⟩ := candidate_some h
  simp only [if_true] at hname
  have hmem : cp ∈ t.keys := Tree.mem_keys_of_mem (Tree.get?_some_mem hget)
  have hsal : s.alias = false := hna cp hmem s (by rw [hcp]; exact List.mem_cons_self)
  refine ⟨?_, hget⟩
  rw [hcp]
  cases s
  simp_all

theorem candidate_none_key {t : Tree} {p : Path} {ipk : Name}
    (h : candidate t p ipk Name.empty = none) : (⟨false, ipk⟩ :: p) ∉ t.keys := by
  have := (candidate_none_iff t p ipk Name.empty).1 h
  simp only [if_true] at this
  exact this.1

theorem candidate_isSome_false {t : Tree} {p : Path} {ipk alias : Name}
    (h : (candidate t p ipk alias).isSome = false) : candidate t p ipk alias = none := by
  cases hc : candidate t p ipk alias with
  | none => rfl
  | some v => rw [hc] at h; simp at h

/-- Below the directory where the walk-up stopped every slot was free. -/
theorem WalkStop.none_below {t : Tree} {idep : Import} {cur stop : Path} (h : WalkStop t idep cur stop)
    {r : Path} (hr : IsSuffix r cur) (hs : IsSuffix stop r) (hne : r ≠ stop) :
    candidate t r idep.name idep.alias = none := by
  induction h with
  | here node _ => exact absurd (hr.antisymm hs) hne
  | up s parent stop hnone hstop ih =>
    rcases hr.cons_cases with hr' | hr'
    · subst hr'; exact hnone
    · exact ih hr' hs hne

theorem WalkStop.suffix {t : Tree} {idep : Import} {cur stop : Path} (h : WalkStop t idep cur stop) :
    IsSuffix stop cur := by
  induction h with
  | here node _ => exact IsSuffix.refl _
  | up s parent stop _ _ ih => exact ih.cons s

/-! ## Preservation by one dependency step -/

theorem isProtected_false_prot {n : TNode} {pkg : Name} (h : isProtected n pkg Name.empty = false) :
    pkg ∉ n.prot := by
  unfold isProtected at h
  simp only [if_true, Bool.or_eq_false_iff] at h
  intro hm
  have : n.prot.contains pkg = true := List.contains_iff_mem.2 hm
  rw [this] at h; cases h.1

theorem stepDep_t2 {u : Universe} {cur : Path} {curId : Nat} {a a' : Acc} {idep : Import} {H : List Name}
    (h : stepDep u cur curId a idep = .ok a') (hinv : Inv u a.st)
    (hT : ∀ dvers, u.matchingVersions idep.name idep.req = .ok dvers → ∀ v ∈ dvers, v.name = idep.name)
    (hal : idep.alias = Name.empty)
    (hcur : ∃ n, a.st.tree.get? cur = some n ∧ n.id = curId ∧ n.processed = true ∧ ∀ y ∈ n.prot, y ∈ H)
    (hfresh : idep.name ∉ H)
    (hp : PInv a.st) :
    PInv a'.st ∧ ∃ n', a'.st.tree.get? cur = some n' ∧ n'.id = curId ∧ n'.processed = true ∧
      ∀ y ∈ n'.prot, y ∈ idep.name :: H := by
  obtain ⟨cn, hcn, hcid, hcproc, hcprot⟩ := hcur
  have hcurkeys : cur ∈ a.st.tree.keys := Tree.mem_keys_of_mem (Tree.get?_some_mem hcn)
  have hsufproc : ∀ r n, IsSuffix r cur → a.st.tree.get? r = some n → n.processed = true :=
    fun r n hr hn => suffix_processed hinv hp.unproc_clean hcn hcproc hr hn
  have hxcur : ∃ x ∈ a.st.tree.static, x.id = curId ∧ x.path = cur :=
    ⟨_, mem_static_of_get? hcn, hcid, rfl⟩
  -- what a marking does to the current node
  have curAfter : ∀ {x : Name} {t' : Tree}, x = idep.name → MarksRel x cur a.st.tree t' →
      ∃ n', t'.get? cur = some n' ∧ n'.id = curId ∧ n'.processed = true ∧ ∀ y ∈ n'.prot, y ∈ idep.name :: H := by
    intro x t' hx hm
    obtain ⟨n', hn', _, _, hpr, hid, _, hnew⟩ := hm.node cur cn hcn
    refine ⟨n', hn', hid.trans hcid, hpr.trans hcproc, ?_⟩
    intro y hy
    rcases hnew y hy with hy | ⟨hy, _⟩
    · exact List.mem_cons_of_mem _ (hcprot y hy)
    · rw [hy, hx]; exact List.mem_cons_self
  rcases stepDep_cases h with
    ⟨dvers, rp, rn, hm, hw, hg, hlt, ht, hn, he, hi⟩ |
    ⟨dvers, hm, hw, ht, hn, he, hi⟩ |
    ⟨dvers, pick, node, tree, parent, pn, hm, hw, hpk, hnode, hc, hh, hpn, hun, hlt, ht, hn, he, hi⟩
  · -- reuse
    rw [hal] at ht
    have hmr : MarksRel idep.name cur a.st.tree a'.st.tree := by
      rw [ht]; exact markProtected_rel _ cur _ cur (IsSuffix.refl _)
    have hstat : a'.st.tree.static = a.st.tree.static := by
      rw [ht]; exact Tree.static_eq_of_dyn (markProtected_dyn _ _ _ _)
    refine ⟨⟨?_, UnprocClean.marks hmr hp.unproc_clean hsufproc, NoAliasSlots.of_keys hmr.keys hp.no_alias⟩,
      curAfter rfl hmr⟩
    intro e hemem
    rw [he] at hemem
    rcases List.mem_append.1 hemem with hemem | hemem
    · exact (hp.edge_prot e hemem).marks hmr hstat
    · simp only [List.mem_singleton] at hemem
      subst hemem
      obtain ⟨stop, hws, hsuf, hat⟩ := walkUp_some hw
      obtain ⟨child, b, hcand, _⟩ := walkAt_some hat
      rw [hal] at hcand
      obtain ⟨hrp, hget⟩ := candidate_noalias hp.no_alias hcand
      have hchild : child = rn := by rw [hg] at hget; cases hget; rfl
      subst hchild
      refine ⟨cur, stop, by rw [hstat]; exact hxcur,
        ⟨_, by rw [hstat]; exact mem_static_of_get? hg, rfl, hrp⟩, hsuf, ?_⟩
      intro r hr hs hne
      have hnone : ∀ r', IsSuffix r' cur → IsSuffix r r' → candidate a.st.tree r' idep.name Name.empty = none := by
        intro r' h1 h2
        have := hws.none_below h1 (hs.trans h2) (by
          intro heq; subst heq; exact hne (h2.antisymm hs))
        rw [hal] at this; exact this
      refine ⟨?_, ?_⟩
      · rw [hmr.keys]; exact candidate_none_key (hnone r hr (IsSuffix.refl _))
      · rw [ht]
        exact markProtected_marks idep.name a.st.tree cur r hr (hinv.suffix_mem_keys hcurkeys hr) hnone
  · -- error
    rcases ht with ht | ⟨pick, node, parent, hpk, hnode, hh⟩
    · refine ⟨⟨by rw [he, ht]; exact hp.edge_prot, by rw [ht]; exact hp.unproc_clean,
        by rw [ht]; exact hp.no_alias⟩, ?_⟩
      rw [ht]
      exact ⟨cn, hcn, hcid, hcproc, fun y hy => List.mem_cons_of_mem _ (hcprot y hy)⟩
    · obtain ⟨reqs, _, hnodeq⟩ := newTreeNode_ok hnode
      have hpkg : node.ver.name = idep.name := by
        rw [hnodeq]; exact hT dvers hm pick (wouldPick_mem hpk)
      have hmr : MarksRel node.ver.name cur a.st.tree a'.st.tree := hoist_rel cur hh (IsSuffix.refl _)
      have hstat : a'.st.tree.static = a.st.tree.static := Tree.static_eq_of_dyn (hoist_dyn hh).1
      refine ⟨⟨?_, UnprocClean.marks hmr hp.unproc_clean hsufproc, NoAliasSlots.of_keys hmr.keys hp.no_alias⟩,
        curAfter hpkg hmr⟩
      intro e hemem
      rw [he] at hemem
      exact (hp.edge_prot e hemem).marks hmr hstat
  · -- fresh
    obtain ⟨reqs, _, hnodeq⟩ := newTreeNode_ok hnode
    have hpkg : node.ver.name = idep.name := by
      rw [hnodeq]; exact hT dvers hm pick (wouldPick_mem hpk)
    have hnid : node.id = a.st.nodes.length := by rw [hnodeq]
    have hnprot : node.prot = [] := by rw [hnodeq]
    simp only [hal, if_true] at ht he hi
    rw [hal] at hh hc
    have hmr : MarksRel node.ver.name cur a.st.tree tree := hoist_rel cur hh (IsSuffix.refl _)
    obtain ⟨htd, hsufL⟩ := hoist_dyn hh
    have hkeys : tree.keys = a.st.tree.keys := hmr.keys
    have htstat : tree.static = a.st.tree.static := Tree.static_eq_of_dyn htd
    have hLnone : candidate a.st.tree parent node.ver.name Name.empty = none :=
      candidate_isSome_false (hoist_candidate_none hh hc)
    have hkfresh : (⟨false, node.ver.name⟩ :: parent : Path) ∉ tree.keys := by
      rw [hkeys]; exact candidate_none_key hLnone
    have hLfree0 : ∀ n, a.st.tree.get? parent = some n → node.ver.name ∉ n.prot := by
      intro n hn' hmem
      by_cases hpc : parent = cur
      · subst hpc
        rw [hcn] at hn'; cases hn'
        exact hfresh (hpkg ▸ hcprot _ hmem)
      · obtain ⟨n0, hn0, hprot⟩ := hoist_unprotected hh hpc
        rw [hn'] at hn0; cases hn0
        exact isProtected_false_prot hprot hmem
    have hstat : a'.st.tree.static = a.st.tree.static ++
        [⟨⟨false, node.ver.name⟩ :: parent, node.ver, node.ideps, node.id⟩] := by
      rw [ht, Tree.static_append, htstat]; rfl
    have hget_old : ∀ r, r ∈ a.st.tree.keys → a'.st.tree.get? r = tree.get? r := by
      intro r hr
      rw [ht]
      apply Tree.get?_append_single_old
      intro heq; rw [← heq, ← hkeys] at hr; exact hkfresh hr
    have hk'' : ∀ p, p ∈ a'.st.tree.keys ↔ p ∈ a.st.tree.keys ∨ p = ⟨false, node.ver.name⟩ :: parent := by
      intro p; rw [ht, Tree.keys_append, hkeys]; simp [Tree.keys]
    have hparentkeys : parent ∈ a.st.tree.keys := hinv.suffix_mem_keys hcurkeys hsufL
    have hcleanT : UnprocClean tree := UnprocClean.marks hmr hp.unproc_clean hsufproc
    refine ⟨⟨?_, ?_, ?_⟩, ?_⟩
    · -- edge_prot
      intro e hemem
      rw [he] at hemem
      rcases List.mem_append.1 hemem with hemem | hemem
      · obtain ⟨fp, q, ⟨x, hx, hx1, hx2⟩, ⟨y, hy, hy1, hy2⟩, hq, hr⟩ := hp.edge_prot e hemem
        refine ⟨fp, q, ⟨x, by rw [hstat]; exact List.mem_append_left _ hx, hx1, hx2⟩,
          ⟨y, by rw [hstat]; exact List.mem_append_left _ hy, hy1, hy2⟩, hq, ?_⟩
        intro r h1 h2 h3
        obtain ⟨hk, n, hn', hpm⟩ := hr r h1 h2 h3
        have hrkeys : r ∈ a.st.tree.keys := Tree.mem_keys_of_mem (Tree.get?_some_mem hn')
        refine ⟨?_, ?_⟩
        · rw [hk'']
          rintro (hmem | heq)
          · exact hk hmem
          · simp only [List.cons.injEq, Slot.mk.injEq, true_and] at heq
            obtain ⟨hname, hrp⟩ := heq
            subst hrp
            exact hLfree0 n hn' (hname ▸ hpm)
        · obtain ⟨n', hn'', _, _, _, _, hmono, _⟩ := hmr.node r n hn'
          exact ⟨n', by rw [hget_old r hrkeys]; exact hn'', hmono _ hpm⟩
      · simp only [List.mem_singleton] at hemem
        subst hemem
        obtain ⟨x, hx, hx1, hx2⟩ := hxcur
        refine ⟨cur, parent, ⟨x, by rw [hstat]; exact List.mem_append_left _ hx, hx1, hx2⟩,
          ⟨_, by rw [hstat]; exact List.mem_append_right _ (List.mem_singleton.2 rfl), hnid, ?_⟩, hsufL, ?_⟩
        · simp only [hpkg]
        · intro r hr hL hne
          have hrkeys : r ∈ a.st.tree.keys := hinv.suffix_mem_keys hcurkeys hr
          obtain ⟨⟨n', hn', hpm⟩, hcnone⟩ := hoist_marks hh r hr hL hne hrkeys
          have hrnone : candidate a.st.tree r node.ver.name Name.empty = none := by
            by_cases hrc : r = cur
            · subst hrc; exact candidate_isSome_false hc
            · exact candidate_isSome_false (hcnone hrc)
          simp only
          rw [← hpkg]
          refine ⟨?_, n', by rw [hget_old r hrkeys]; exact hn', hpm⟩
          rw [hk'']
          rintro (hmem | heq)
          · exact candidate_none_key hrnone hmem
          · simp only [List.cons.injEq, true_and] at heq
            exact hne heq
    · -- unproc_clean
      intro p n'' hn'' hproc
      by_cases hpk : p ∈ a.st.tree.keys
      · rw [hget_old p hpk] at hn''
        obtain ⟨hprot, hch⟩ := hcleanT p n'' hn'' hproc
        refine ⟨hprot, ?_⟩
        intro s
        rw [hk'']
        rintro (hmem | heq)
        · rw [← hkeys] at hmem; exact hch s hmem
        · simp only [List.cons.injEq] at heq
          obtain ⟨_, hpp⟩ := heq
          subst hpp
          obtain ⟨n0, hn0, _, _, hpr, _⟩ := hmr.node' hn''
          have := hsufproc p n0 hsufL hn0
          rw [this] at hpr; rw [hpr] at hproc; cases hproc
      · have hpeq : p = ⟨false, node.ver.name⟩ :: parent := by
          have : p ∈ a'.st.tree.keys := Tree.mem_keys_of_mem (Tree.get?_some_mem hn'')
          rcases (hk'' p).1 this with h' | h'
          · exact absurd h' hpk
          · exact h'
        subst hpeq
        have : a'.st.tree.get? (⟨false, node.ver.name⟩ :: parent) = some node := by
          rw [ht]; exact Tree.get?_append_single_new _ _ _ hkfresh
        rw [this] at hn''; cases hn''
        refine ⟨hnprot, ?_⟩
        intro s
        rw [hk'']
        rintro (hmem | heq)
        · exact hpk (hinv.prefix_closed_keys hmem)
        · have := congrArg List.length heq
          simp at this
    · -- no_alias
      intro p hpmem s hs
      rcases (hk'' p).1 hpmem with hmem | heq
      · exact hp.no_alias p hmem s hs
      · subst heq
        rcases List.mem_cons.1 hs with hs | hs
        · subst hs; rfl
        · exact hp.no_alias parent hparentkeys s hs
    · -- the current node
      obtain ⟨n', hn', hid, hpr, hprot⟩ := curAfter hpkg hmr
      exact ⟨n', by rw [hget_old cur hcurkeys]; exact hn', hid, hpr, hprot⟩

/-! ## The dependency loop and the main loop -/

/-- What T2 needs of the universe (all consequences of `AliasFree`, `U3`, `TableWf`). -/
structure T2Hyp (u : Universe) : Prop where
  alias_free : ∀ e ∈ u.versions, ∀ d ∈ e.2, d.alias = Name.empty
  names_nodup : ∀ e ∈ u.versions, ((regularImports e.2).map (·.name)).Nodup
  table : ∀ p r dvers, u.matchingVersions p r = .ok dvers → ∀ v ∈ dvers, v.name = p

theorem stepDeps_t2 {u : Universe} (hu : T2Hyp u) {cur : Path} {curId : Nat} {deps : List Import}
    {a a' : Acc} {H : List Name}
    (h : stepDeps u cur curId deps a = .ok a') (hinv : Inv u a.st)
    (hal : ∀ d ∈ deps, d.alias = Name.empty)
    (hnd : (deps.map (·.name)).Nodup) (hH : ∀ d ∈ deps, d.name ∉ H)
    (hcur : ∃ n, a.st.tree.get? cur = some n ∧ n.id = curId ∧ n.processed = true ∧ ∀ y ∈ n.prot, y ∈ H)
    (hp : PInv a.st) : PInv a'.st := by
  induction deps generalizing a H with
  | nil =>
    simp only [stepDeps, Outcome.ok.injEq] at h
    subst h; exact hp
  | cons d rest ih =>
    simp only [stepDeps] at h
    split at h
    · cases h
    · cases h
    · rename_i a1 h1
      have hcurd : ∃ e ∈ a.st.tree.dyn, e.path = cur ∧ e.id = curId := by
        obtain ⟨n, hn, hid, _⟩ := hcur
        exact ⟨_, Tree.mem_dyn_of_get? hn, rfl, hid⟩
      have p1 := stepDep_post h1 hinv hcurd
      obtain ⟨hp1, hcur1⟩ := stepDep_t2 h1 hinv (fun dv hm => hu.table _ _ dv hm)
        (hal d List.mem_cons_self) hcur (hH d List.mem_cons_self) hp
      simp only [List.map_cons, List.nodup_cons] at hnd
      refine ih h p1.inv (fun x hx => hal x (List.mem_cons_of_mem _ hx)) hnd.2 ?_ hcur1 hp1
      intro x hx hmem
      rcases List.mem_cons.1 hmem with hmem | hmem
      · exact hnd.1 (hmem ▸ List.mem_map.2 ⟨x, hx, rfl⟩)
      · exact hH x (List.mem_cons_of_mem _ hx) hmem

theorem PInv.afterSetProcessed {st : State} (hp : PInv st) (cur : Path) :
    PInv { st with tree := st.tree.modify cur setProcessed } := by
  have hk : (st.tree.modify cur setProcessed).keys = st.tree.keys := Tree.keys_modify _ _ _
  refine ⟨?_, ?_, NoAliasSlots.of_keys hk hp.no_alias⟩
  · intro e he
    obtain ⟨fp, q, hx, hy, hq, hr⟩ := hp.edge_prot e he
    refine ⟨fp, q, by simp only [Tree.static_setProcessed]; exact hx,
      by simp only [Tree.static_setProcessed]; exact hy, hq, ?_⟩
    intro r h1 h2 h3
    obtain ⟨hkk, n, hn, hpm⟩ := hr r h1 h2 h3
    refine ⟨by rw [hk]; exact hkk, ?_⟩
    simp only [Tree.get?_modify, hn, Option.map_some]
    split
    · exact ⟨_, rfl, hpm⟩
    · exact ⟨_, rfl, hpm⟩
  · intro p n1 hn1 hproc
    simp only [Tree.get?_modify] at hn1
    split at hn1
    · cases hg : st.tree.get? p with
      | none => rw [hg] at hn1; cases hn1
      | some n =>
        rw [hg] at hn1
        simp only [Option.map_some, Option.some.injEq] at hn1
        subst hn1
        cases hproc
    · obtain ⟨h1, h2⟩ := hp.unproc_clean p n1 hn1 hproc
      exact ⟨h1, fun s => by rw [hk]; exact h2 s⟩

theorem loop_t2 {u : Universe} (hu : T2Hyp u) {fuel : Nat} {queue : List Path} {st st' : State}
    (h : loop u fuel queue st = some (.ok st')) (hl : LoopInv u queue st) (hp : PInv st) : PInv st' := by
  induction fuel generalizing queue st with
  | zero =>
    cases queue with
    | nil => simp only [loop, Option.some.injEq, Outcome.ok.injEq] at h; subst h; exact hp
    | cons c q => simp [loop] at h
  | succ fuel ih =>
    cases queue with
    | nil => simp only [loop, Option.some.injEq, Outcome.ok.injEq] at h; subst h; exact hp
    | cons cur queue =>
      simp only [loop] at h
      split at h
      · cases h
      · rename_i cn hcn
        split at h
        · -- already processed: the state is unchanged
          rename_i hproc
          exact ih h (loop_skip_inv hl hcn hproc) hp
        · rename_i hproc
          split at h
          · cases h
          · cases h
          · rename_i a ha
            -- the loop invariant after this pop (re-derived through `loop_inv`'s own step)
            have hinv1 : Inv u { st with tree := st.tree.modify cur setProcessed } := by
              unfold Inv; simp only; rw [Tree.static_setProcessed]; exact hl.inv
            have hp1 := hp.afterSetProcessed cur
            have hproc' : cn.processed = false := by
              cases hc : cn.processed with
              | false => rfl
              | true => exact absurd hc hproc
            have hcn1 : (st.tree.modify cur setProcessed).get? cur = some (setProcessed cn) := by
              rw [Tree.get?_modify]; simp [hcn]
            have hcur1 : ∃ n, (st.tree.modify cur setProcessed).get? cur = some n ∧ n.id = cn.id ∧
                n.processed = true ∧ ∀ y ∈ n.prot, y ∈ ([] : List Name) := by
              refine ⟨_, hcn1, rfl, rfl, ?_⟩
              intro y hy
              have := (hp.unproc_clean cur cn hcn hproc').1
              simp only [setProcessed] at hy
              rw [this] at hy; cases hy
            -- facts about the current node's dependencies
            obtain ⟨reqs, hreqs, hideps⟩ := hl.inv.ideps _ (mem_static_of_get? hcn)
            simp only at hreqs hideps
            obtain ⟨w, hw, _, _⟩ := requirements_mem hreqs
            have hal : ∀ d ∈ cn.ideps, d.alias = Name.empty := by
              intro d hd; rw [hideps] at hd
              exact hu.alias_free _ hw d (mem_regularImports.1 hd).1
            have hnd : (cn.ideps.map (·.name)).Nodup := by
              rw [hideps]; exact hu.names_nodup _ hw
            have hpa : PInv a.st :=
              stepDeps_t2 hu ha hinv1 hal hnd (fun _ _ hm => by cases hm) hcur1 hp1
            exact ih h (loop_step_inv hl hcn ha) hpa

theorem resolve_t2 {u : Universe} (hu : T2Hyp u) {rn rv : Name} {fuel : Nat} {st : State}
    (h : resolve u rn rv fuel = some (.ok st)) : PInv st := by
  have hfull := h
  unfold resolve at h
  split at h
  · cases h
  · rename_i v hv
    split at h
    · cases h
    · cases h
    · rename_i root hroot
      obtain ⟨reqs, hreqs, hrooteq⟩ := newTreeNode_ok hroot
      -- the loop invariant of the initial state, as in `resolve_inv`
      have hl0 : LoopInv u [[]] ⟨[([], root)], [⟨v.name, v.version, []⟩], []⟩ := by
        subst hrooteq
        refine ⟨?_, by simp [Tree.keys], ?_, ?_, by simp, by simp [Tree.keys]⟩
        · unfold Inv
          simp only [Tree.static, Tree.dyn, List.map_cons, List.map_nil, DEntry.static, TNode.dentry]
          constructor
          · simp
          · intro s p hsp; simp at hsp
          · simp
          · intro e he; simp only [List.mem_singleton] at he; subst he; simp
          · intro e he g hg; simp only [List.mem_singleton] at he; subst he
            simp at hg; subst hg; exact ⟨rfl, rfl⟩
          · intro i hi
            simp only [List.length_singleton] at hi
            exact ⟨_, List.mem_singleton.2 rfl, by simp; omega⟩
          · simp
          · intro i hi
            simp only [List.length_singleton] at hi
            have : i = 0 := by omega
            subst this; exact .root
          · intro e he; cases he
          · intro e he; cases he
          · intro e he; simp only [List.mem_singleton] at he; subst he
            exact ⟨reqs, hreqs, rfl⟩
          · intro e he k p hp; simp only [List.mem_singleton] at he; subst he; cases hp
        · intro e he _
          simp only [Tree.dyn, List.map_cons, List.map_nil, List.mem_singleton, TNode.dentry] at he
          subst he; simp
        · intro e he hp
          simp only [Tree.dyn, List.map_cons, List.map_nil, List.mem_singleton, TNode.dentry] at he
          subst he; cases hp
      apply loop_t2 hu h hl0
      subst hrooteq
      refine ⟨(by intro e he; cases he), ?_, ?_⟩
      · intro p n hn _
        simp only [Tree.get?] at hn
        split at hn
        · rename_i hp; cases hn; subst hp
          exact ⟨rfl, fun s => by simp [Tree.keys]⟩
        · cases hn
      · intro p hp s hs
        simp only [Tree.keys, List.map_cons, List.map_nil, List.mem_singleton] at hp
        subst hp; cases hs

/-! ## Node's lookup -/

/-- The entry named `name` in the `node_modules` of directory `p`, if any. -/
def slotAt (keys : List Path) (p : Path) (name : Name) : Option Path :=
  if (⟨false, name⟩ :: p) ∈ keys then some (⟨false, name⟩ :: p)
  else if (⟨true, name⟩ :: p) ∈ keys then some (⟨true, name⟩ :: p)
  else none

/-- Node's module resolution for a bare name from a file of the package installed at
directory `p`: look into `p/node_modules/name`, then the parent directory's, … up to the
root. -/
def lookupUp (keys : List Path) (name : Name) : Path → Option Path
  | [] => slotAt keys [] name
  | s :: p =>
    match slotAt keys (s :: p) name with
    | some q => some q
    | none => lookupUp keys name p

theorem lookupUp_of_prot {t : Tree} (hna : NoAliasSlots t) {name : Name} {q fp : Path}
    (hq : IsSuffix q fp) (htarget : (⟨false, name⟩ :: q) ∈ t.keys)
    (hfree : ∀ r, IsSuffix r fp → IsSuffix q r → r ≠ q → (⟨false, name⟩ :: r) ∉ t.keys) :
    lookupUp t.keys name fp = some (⟨false, name⟩ :: q) := by
  have hnotrue : ∀ r, (⟨true, name⟩ :: r : Path) ∉ t.keys := by
    intro r hmem
    have := hna _ hmem ⟨true, name⟩ List.mem_cons_self
    cases this
  have hslot_hit : slotAt t.keys q name = some (⟨false, name⟩ :: q) := by
    simp [slotAt, htarget]
  have hslot_miss : ∀ r, IsSuffix r fp → IsSuffix q r → r ≠ q → slotAt t.keys r name = none := by
    intro r h1 h2 h3
    simp [slotAt, hfree r h1 h2 h3, hnotrue r]
  induction fp with
  | nil =>
    have : q = [] := hq.nil_eq
    subst this
    simp only [lookupUp]; exact hslot_hit
  | cons s p ih =>
    simp only [lookupUp]
    by_cases hqe : q = s :: p
    · subst hqe; rw [hslot_hit]
    · have hq' : IsSuffix q p := by
        rcases hq.cons_cases with h | h
        · exact absurd h hqe
        · exact h
      rw [hslot_miss (s :: p) (IsSuffix.refl _) hq (fun h => hqe h.symm)]
      simp only
      apply ih hq'
      · intro r h1 h2 h3; exact hfree r (h1.cons s) h2 h3
      · intro r h1 h2 h3; exact hslot_miss r (h1.cons s) h2 h3

end DepsDev.Resolve.Npm
