import DepsDev.Proofs.C02Dec
import DepsDev.Proofs.C01Generic

/-!
# C02 — SemVer family (NPM, Cargo, Go) and NuGet: the model comparator is the reference order

`compare_generic` (C01) gives `vcompare` as the lexicographic product of the zero-padded
number comparison and the prerelease-list comparison over the key `ekey`; here the key of
a rendered identifier is computed (`ekey_num`, `ekey_alnum`) and the product is shown to
be the reference precedence.
-/
namespace DepsDev.Proofs.C02

open Std DepsDev DepsDev.Semver DepsDev.Ref DepsDev.Proofs

theorem isDigit_eq : Ref.isDigit = isDigitB := rfl

theorem compare_natCast (a b : Nat) : compare (a : Int) (b : Int) = compare a b := by
  rcases Nat.lt_trichotomy a b with h | h | h
  · rw [Nat.compare_eq_lt.mpr h, Int.compare_eq_lt]; exact_mod_cast h
  · subst h; simp
  · rw [Nat.compare_eq_gt.mpr h, Int.compare_eq_gt]; exact_mod_cast h

/-- `List.compareLex` through a map, given the pointwise equation on the members. -/
theorem compareLex_map {α β} (f : β → β → Ordering) (c : α → α → Ordering) (g : α → β) :
    ∀ (l l' : List α), (∀ i ∈ l, ∀ j ∈ l', f (g i) (g j) = c i j) →
      List.compareLex f (l.map g) (l'.map g) = List.compareLex c l l' := by
  intro l
  induction l with
  | nil => intro l' _; cases l' <;> simp [List.compareLex_nil_nil, List.compareLex_nil_cons]
  | cons x xs ih =>
    intro l' h
    cases l' with
    | nil => simp [List.compareLex_cons_nil]
    | cons y ys =>
      simp only [List.map_cons, List.compareLex_cons_cons]
      rw [h x (by simp) y (by simp), ih ys (fun i hi j hj => h i (by simp [hi]) j (by simp [hj]))]

/-! ## identifiers -/

/-- The leading-zero test of `isNumeric` never fires on `dec n`. -/
theorem dec_no_leading_zero (n : Nat) : ((dec n).length > 1 && (dec n).head? == some 48) = false := by
  obtain ⟨c, r, hc, _, hz⟩ := dec_head n
  rw [hc]
  by_cases h : c = 48
  · have := (hz h).2; subst this; subst h; rfl
  · have : ((c :: r).head? == some 48) = false := by simpa using h
    rw [this, Bool.and_false]

theorem isNumeric_dec (sys : System) (n : Nat) (h : n < 2 ^ 63) (hn : sys = .nuget → n < 2 ^ 31) :
    isNumeric sys (dec n) = some (n : Int) := by
  unfold isNumeric
  have hz := dec_no_leading_zero n
  have hz' : ((dec n).length > 1 && (dec n).head? == some 48 && sys != .npm) = false := by simp [hz]
  simp only [hz', Bool.false_eq_true, ↓reduceIte]
  by_cases hs : sys = .nuget
  · simp only [hs, beq_self_eq_true, ↓reduceIte]
    exact parseIntBits_dec n 32 (hn hs)
  · have : (sys == .nuget) = false := by simpa using hs
    simp only [this, Bool.false_eq_true, ↓reduceIte]
    exact parseIntBits_dec n 64 h

/-- A SemVer alphanumeric identifier that does not look like `-digits` is not read as a number. -/
theorem parseIntBits_alnum (s : Bytes) (bits : Nat) (hv : SemVer.Ident.valid (.alnum s) = true)
    (hneg : looksNegative s = false) : parseIntBits s bits = none := by
  simp only [SemVer.Ident.valid, Bool.and_eq_true, Bool.not_eq_true', isDigit_eq] at hv
  obtain ⟨⟨hne, hall⟩, hany⟩ := hv
  have hnd : s.all isDigitB = false := by
    rw [List.all_eq_false]
    obtain ⟨c, hc, hcd⟩ := List.any_eq_true.mp hany
    exact ⟨c, hc, by simpa using hcd⟩
  unfold parseIntBits
  split
  rename_i x neg ds heq
  split at heq
  · rename_i r
    -- '+' is not an identifier character
    have h43 : isIdentChar 43 = true := List.all_eq_true.mp hall 43 (by simp)
    exact absurd h43 (by decide)
  · rename_i r
    injection heq with e1 e2
    subst e1 e2
    have hl : (!r.isEmpty && r.all Ref.isDigit) = false := by simpa [looksNegative] using hneg
    rw [isDigit_eq] at hl
    have : (r.isEmpty || !r.all isDigitB) = true := by
      cases h1 : r.isEmpty <;> cases h2 : r.all isDigitB <;> simp_all
    simp [this]
  · injection heq with e1 e2
    subst e1 e2
    simp [hnd]

theorem isNumeric_alnum (sys : System) (s : Bytes) (hv : SemVer.Ident.valid (.alnum s) = true)
    (hneg : looksNegative s = false) : isNumeric sys s = none := by
  unfold isNumeric
  split
  · rfl
  · split <;> exact parseIntBits_alnum s _ hv hneg

/-- The hypothesis on one identifier: a numeric one is below 2^63 (2^31 for NuGet), an
alphanumeric one is a SemVer identifier that does not look like `-digits`. -/
def IdentOk (sys : System) : SemVer.Ident → Prop
  | .num n => n < 2 ^ 63 ∧ (sys = .nuget → n < 2 ^ 31)
  | .alnum s => SemVer.Ident.valid (.alnum s) = true ∧ looksNegative s = false

theorem ekey_render (sys : System) (i : SemVer.Ident) (h : IdentOk sys i) :
    ekey sys i.render = match i with
      | .num n => .num n
      | .alnum s => .str (if sys == .nuget then s.map toLowerB else s) := by
  cases i with
  | num n => simp only [SemVer.Ident.render, ekey, isNumeric_dec sys n h.1 h.2]
  | alnum s => simp only [SemVer.Ident.render, ekey, isNumeric_alnum sys s h.1 h.2]

theorem elemOrd_render (sys : System) (hs : sys ≠ .nuget) (i j : SemVer.Ident)
    (hi : IdentOk sys i) (hj : IdentOk sys j) :
    elemOrd sys i.render j.render = SemVer.identCmp i j := by
  have hs' : (sys == .nuget) = false := by simpa using hs
  unfold elemOrd
  rw [ekey_render sys i hi, ekey_render sys j hj]
  cases i <;> cases j <;> simp [EK.cmp, SemVer.identCmp, compare_natCast, hs']

/-! ## the three numbers -/

theorem nums3 (a b c a' b' c' : Nat) (rest : Ordering) :
    (padLex compare 0 [(a : Int), b, c] [(a' : Int), b', c']).then rest =
      (compare a a').then ((compare b b').then ((compare c c').then rest)) := by
  simp only [padLex, compare_natCast]
  cases compare a a' <;> cases compare b b' <;> cases compare c c' <;> simp [Ordering.then]

/-! ## the theorem for NPM, Cargo, Go -/

theorem preOrd_render (sys : System) (hs : sys ≠ .nuget) (p q : List SemVer.Ident)
    (hp : ∀ i ∈ p, IdentOk sys i) (hq : ∀ i ∈ q, IdentOk sys i) :
    preOrd sys (p.map SemVer.Ident.render) (q.map SemVer.Ident.render) = SemVer.preCmp p q := by
  unfold preOrd
  cases p with
  | nil => cases q <;> simp [twist, SemVer.preCmp]
  | cons x xs =>
    cases q with
    | nil => simp [twist, SemVer.preCmp]
    | cons y ys =>
      simp only [List.map_cons, twist, SemVer.preCmp]
      rw [← List.map_cons, ← List.map_cons]
      exact compareLex_map _ _ _ _ _ (fun i hi j hj => elemOrd_render sys hs i j (hp i hi) (hq j hj))

theorem semver_agree (sys : System) (hs : sys ≠ .nuget) (a b : SemVer.Ast)
    (ha : ∀ i ∈ a.pre, IdentOk sys i) (hb : ∀ i ∈ b.pre, IdentOk sys i) :
    vcompare (embedSemVer sys a) (embedSemVer sys b) = .ok (ordToInt (SemVer.precedence a b)) := by
  rw [compare_generic (embedSemVer sys a) (embedSemVer sys b) rfl rfl rfl]
  congr 2
  show genericOrd sys (embedSemVer sys a) (embedSemVer sys b) = _
  unfold genericOrd compareLex SemVer.precedence
  simp only [embedSemVer]
  rw [nums3, preOrd_render sys hs a.pre b.pre ha hb]

end DepsDev.Proofs.C02
