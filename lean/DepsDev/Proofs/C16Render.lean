import DepsDev.Proofs.C16Dep
import DepsDev.Proofs.C16Name

/-! C16: `ParseDependency` on the rendering of a reference requirement tree. -/

namespace DepsDev.Proofs.C16Render
open DepsDev DepsDev.Pypi DepsDev.Ref.Pep508 DepsDev.Proofs.C16Bytes DepsDev.Proofs.C16Dep

/-! ### Byte classes -/

theorem nameByte_facts {c : UInt8} (h : isNameByte c = true) :
    isNameStop c = false ∧ isWs c = false ∧ c ≠ 59 ∧ c ≠ 93 := by
  have h59 : c ≠ 59 := by intro e; subst e; revert h; decide
  have h93 : c ≠ 93 := by intro e; subst e; revert h; decide
  refine ⟨?_, ?_, h59, h93⟩
  · simp [isNameByte, isAlnumByte, isSepByte, isNameStop, isWs] at *; omega
  · simp [isNameByte, isAlnumByte, isSepByte, isWs] at *; omega

theorem alnum_nameByte {c : UInt8} (h : isAlnumByte c = true) : isNameByte c = true := by
  simp [isNameByte, h]

theorem versionByte_facts {c : UInt8} (h : isVersionByte c = true) :
    isWs c = false ∧ c ≠ 59 ∧ c ≠ 93 := by
  have h59 : c ≠ 59 := by intro e; subst e; revert h; decide
  have h93 : c ≠ 93 := by intro e; subst e; revert h; decide
  refine ⟨?_, h59, h93⟩
  simp [isVersionByte, isAlnumByte, isSepByte, isWs] at *; omega

/-! ### `Clean`: no `;` and no `]` -/

def Clean (l : Bytes) : Prop := ∀ c ∈ l, c ≠ 59 ∧ c ≠ 93

theorem clean_nil : Clean [] := by intro c hc; cases hc

theorem clean_append {a b : Bytes} (ha : Clean a) (hb : Clean b) : Clean (a ++ b) := by
  intro c hc
  rcases List.mem_append.mp hc with h | h
  · exact ha c h
  · exact hb c h

theorem clean_ws (w : Ws) : Clean w.bytes := by
  intro c hc
  simp only [Ws.bytes, List.mem_map] at hc
  obtain ⟨b, _, rfl⟩ := hc
  cases b <;> decide

theorem clean_single {c : UInt8} (h1 : c ≠ 59) (h2 : c ≠ 93) : Clean [c] := by
  intro x hx; simp at hx; subst hx; exact ⟨h1, h2⟩

theorem clean_name {n : Bytes} (h : n.all isNameByte = true) : Clean n := by
  intro c hc
  have := nameByte_facts (List.all_eq_true.mp h c hc)
  exact ⟨this.2.2.1, this.2.2.2⟩

theorem clean_version {n : Bytes} (h : n.all isVersionByte = true) : Clean n := by
  intro c hc
  have := versionByte_facts (List.all_eq_true.mp h c hc)
  exact ⟨this.2.1, this.2.2⟩

/-! ### Identifiers -/

theorem ident_facts {n : Bytes} (h : validIdentifier n = true) :
    n.all isNameByte = true ∧ StartsNonWs n ∧ EndsNonWs n := by
  simp only [validIdentifier, Bool.and_eq_true] at h
  obtain ⟨⟨hall, hhead⟩, hlast⟩ := h
  refine ⟨hall, ?_, ?_⟩
  · cases n with
    | nil => simp at hhead
    | cons a as =>
      simp at hhead
      exact ⟨a, as, rfl, (nameByte_facts (alnum_nameByte hhead)).2.1⟩
  · rcases List.eq_nil_or_concat n with h0 | ⟨p, c, h0⟩
    · subst h0; simp at hlast
    · subst h0
      simp at hlast
      exact ⟨p, c, by simp, (nameByte_facts (alnum_nameByte hlast)).2.1⟩

theorem ident_name {n : Bytes} (h : validIdentifier n = true) :
    n ≠ [] ∧ ∀ x ∈ n, isNameStop x = false := by
  obtain ⟨hall, hs, _⟩ := ident_facts h
  refine ⟨?_, fun x hx => (nameByte_facts (List.all_eq_true.mp hall x hx)).1⟩
  obtain ⟨c, cs, rfl, _⟩ := hs; simp

/-! ### Specifier lists -/

/-- First byte of a specifier operator: one of `< ! = > ~`. -/
def OpHead (c : UInt8) : Prop :=
  isWs c = false ∧ isNameStop c = true ∧ c.toNat ≠ 91 ∧ c ≠ 40

theorem op_facts {o : Bytes} (h : specOps.contains o = true) :
    Clean o ∧ ∃ c cs, o = c :: cs ∧ OpHead c := by
  have hm : o ∈ specOps := List.contains_iff_mem.mp h
  simp only [specOps, List.mem_cons, List.not_mem_nil, or_false] at hm
  rcases hm with rfl | rfl | rfl | rfl | rfl | rfl | rfl | rfl <;>
    exact ⟨by intro c hc; simp at hc; rcases hc with rfl | rfl | rfl <;> decide,
           _, _, rfl, by unfold OpHead; decide⟩

theorem spec_facts {s : Spec} (h : s.wf = true) :
    Clean s.render ∧ (∃ c cs, s.render = c :: cs ∧ OpHead c) ∧ EndsNonWs s.render := by
  simp only [Spec.wf, Bool.and_eq_true, Bool.not_eq_true'] at h
  obtain ⟨⟨hop, hne⟩, hv⟩ := h
  obtain ⟨hc, c, cs, ho, hh⟩ := op_facts hop
  refine ⟨?_, ?_, ?_⟩
  · exact clean_append (clean_append hc (clean_ws _)) (clean_version hv)
  · exact ⟨c, cs ++ s.w.bytes ++ s.version, by simp [Spec.render, ho], hh⟩
  · rcases List.eq_nil_or_concat s.version with h0 | ⟨p, x, h0⟩
    · rw [h0] at hne; simp at hne
    · refine ⟨s.op ++ s.w.bytes ++ p, x, by simp [Spec.render, h0], ?_⟩
      exact (versionByte_facts (List.all_eq_true.mp hv x (by rw [h0]; simp))).1

def specItem : Ws × Ws × Spec → Bytes := fun (a, b, x) => a.bytes ++ [44] ++ b.bytes ++ x.render

theorem renderSpecList_eq (s : Spec) (rest : List (Ws × Ws × Spec)) :
    renderSpecList s rest = s.render ++ (rest.map specItem).flatten := rfl

theorem specTail_facts (rest : List (Ws × Ws × Spec)) (h : rest.all (·.2.2.wf) = true) :
    Clean (rest.map specItem).flatten ∧ ∀ pre, EndsNonWs pre → EndsNonWs (pre ++ (rest.map specItem).flatten) := by
  induction rest with
  | nil => exact ⟨clean_nil, fun pre hp => by simpa using hp⟩
  | cons it rest ih =>
    simp only [List.all_cons, Bool.and_eq_true] at h
    obtain ⟨hc, he⟩ := ih h.2
    obtain ⟨a, b, x⟩ := it
    obtain ⟨hxc, _, hxe⟩ := spec_facts (s := x) h.1
    have hitem : Clean (specItem (a, b, x)) :=
      clean_append (clean_append (clean_append (clean_ws a) (clean_single (by decide) (by decide))) (clean_ws b)) hxc
    refine ⟨by simpa using clean_append hitem hc, fun pre hp => ?_⟩
    have : pre ++ (List.map specItem ((a, b, x) :: rest)).flatten
        = (pre ++ (a.bytes ++ [44] ++ b.bytes) ++ x.render) ++ (rest.map specItem).flatten := by
      simp [specItem]
    rw [this]
    exact he _ (ends_append _ hxe)

theorem specList_facts {s : Spec} {rest : List (Ws × Ws × Spec)} (hs : s.wf = true)
    (hr : rest.all (·.2.2.wf) = true) :
    Clean (renderSpecList s rest) ∧ (∃ c cs, renderSpecList s rest = c :: cs ∧ OpHead c) ∧
      EndsNonWs (renderSpecList s rest) := by
  obtain ⟨hc, ⟨c, cs, hsr, hh⟩, he⟩ := spec_facts hs
  obtain ⟨htc, hte⟩ := specTail_facts rest hr
  rw [renderSpecList_eq]
  exact ⟨clean_append hc htc, ⟨c, cs ++ (rest.map specItem).flatten, by simp [hsr], hh⟩, hte _ he⟩

/-- The specifier part as written: its shape, and what `ParseDependency` keeps of it. -/
theorem specBody_facts (p : Option (Ws × Ws)) {s : Spec} {rest : List (Ws × Ws × Spec)} (hs : s.wf = true)
    (hr : rest.all (·.2.2.wf) = true) :
    Clean (renderSpecBody p s rest) ∧
    (∃ c cs, renderSpecBody p s rest = c :: cs ∧ isWs c = false ∧ isNameStop c = true ∧ c.toNat ≠ 91) ∧
    EndsNonWs (renderSpecBody p s rest) ∧
    stripParensVal (renderSpecBody p s rest) = specInner p s rest := by
  obtain ⟨hc, ⟨c, cs, hl, hh⟩, he⟩ := specList_facts hs hr
  cases p with
  | none =>
    refine ⟨hc, ⟨c, cs, hl, hh.1, hh.2.1, hh.2.2.1⟩, he, ?_⟩
    simp only [renderSpecBody, specInner, stripParensVal, hl]
    have : hasPrefix (c :: cs) [40] = false := by
      simp only [hasPrefix, List.isPrefixOf, Bool.and_true]
      have := hh.2.2.2
      simpa using fun h => this h.symm
    simp [this]
  | some ab =>
    obtain ⟨a, b⟩ := ab
    refine ⟨?_, ⟨40, _, rfl, by decide, by decide, by decide⟩, ?_, ?_⟩
    · exact clean_append (clean_append (clean_append (clean_append (clean_single (by decide) (by decide)) (clean_ws a)) hc)
        (clean_ws b)) (clean_single (by decide) (by decide))
    · exact ⟨_, 41, rfl, by decide⟩
    · simp only [renderSpecBody, specInner, stripParensVal]
      have h1 : hasPrefix ([40] ++ a.bytes ++ renderSpecList s rest ++ b.bytes ++ [41]) [40] = true := by
        simp [hasPrefix, List.isPrefixOf]
      have h2 : hasSuffix ([40] ++ a.bytes ++ renderSpecList s rest ++ b.bytes ++ [41]) [41] = true := by
        simp only [hasSuffix, List.isSuffixOf_iff_suffix]
        exact ⟨_, rfl⟩
      simp only [h1, h2, Bool.and_self, if_true]
      have hlen : ([40] ++ a.bytes ++ renderSpecList s rest ++ b.bytes ++ [41] : Bytes).length - 1
          = ([40] ++ a.bytes ++ renderSpecList s rest ++ b.bytes : Bytes).length := by simp; omega
      rw [hlen, List.take_left']
      · simp
      · rfl

/-! ### Extras lists -/

def extraItem : Ws × Ws × Bytes → Bytes := fun (a, b, x) => a.bytes ++ [44] ++ b.bytes ++ x

theorem extraTail_facts (rest : List (Ws × Ws × Bytes))
    (h : (rest.map (fun (x : Ws × Ws × Bytes) => x.2.2)).all validIdentifier = true) :
    Clean (rest.map extraItem).flatten ∧ ∀ pre, EndsNonWs pre → EndsNonWs (pre ++ (rest.map extraItem).flatten) := by
  induction rest with
  | nil => exact ⟨clean_nil, fun pre hp => by simpa using hp⟩
  | cons it rest ih =>
    simp only [List.map_cons, List.all_cons, Bool.and_eq_true] at h
    obtain ⟨hc, he⟩ := ih h.2
    obtain ⟨a, b, x⟩ := it
    obtain ⟨hxall, _, hxe⟩ := ident_facts (n := x) h.1
    have hitem : Clean (extraItem (a, b, x)) :=
      clean_append (clean_append (clean_append (clean_ws a) (clean_single (by decide) (by decide))) (clean_ws b)) (clean_name hxall)
    refine ⟨by simpa using clean_append hitem hc, fun pre hp => ?_⟩
    have : pre ++ (List.map extraItem ((a, b, x) :: rest)).flatten
        = (pre ++ (a.bytes ++ [44] ++ b.bytes) ++ x) ++ (rest.map extraItem).flatten := by
      simp [extraItem]
    rw [this]
    exact he _ (ends_append _ hxe)

/-- The text between the brackets: no `]`, and trimming it leaves the list text. -/
theorem extrasInner_facts (a b : Ws) (xs : Option (Bytes × List (Ws × Ws × Bytes)))
    (h : (match xs with
          | some (e, rest) => e :: rest.map (fun (x : Ws × Ws × Bytes) => x.2.2)
          | none => []).all validIdentifier = true) :
    (∀ c ∈ a.bytes ++ renderExtraList xs ++ b.bytes, c ≠ 93) ∧
    trim (a.bytes ++ renderExtraList xs ++ b.bytes) = renderExtraList xs := by
  cases xs with
  | none =>
    refine ⟨fun c hc => ?_, ?_⟩
    · exact ((clean_append (clean_append (clean_ws a) clean_nil) (clean_ws b)) c hc).2
    · simpa [renderExtraList] using trim_ws_only a b
  | some er =>
    obtain ⟨e, rest⟩ := er
    simp only [List.all_cons, Bool.and_eq_true] at h
    obtain ⟨heall, hes, hee⟩ := ident_facts (n := e) h.1
    obtain ⟨htc, hte⟩ := extraTail_facts rest h.2
    have hl : renderExtraList (some (e, rest)) = e ++ (rest.map extraItem).flatten := rfl
    rw [hl]
    refine ⟨fun c hc => ?_, ?_⟩
    · exact ((clean_append (clean_append (clean_ws a) (clean_append (clean_name heall) htc)) (clean_ws b)) c hc).2
    · exact trim_ws_tight a b (starts_append _ hes) (hte _ hee)

end DepsDev.Proofs.C16Render
