import DepsDev.Proofs.C11Set
import DepsDev.Proofs.C10Tie
import DepsDev.Props.SemverTies

/-!
# C11 — the tie, part 1: `newSpan` and `opVersionToSpan` only build spans on AST-image bounds

`BVw`/`BV`: the shape of a SemVer-family version inside the constraint machinery (with/without
wildcards); every version operation used by `opVersionToSpan` preserves it (`setNum`, `setTail`,
`inc`, `clearPre`, `setInfAll`, `fill`, `minVersion`, NuGet's floating-label strip);
`newSpan_spec`, `opVersionToSpan_spec`: whatever span they return satisfies `SpanInv`
(bounds are `BV`). `opVersionToSpan` is restated with its closures and `switch` cases named
(`opSpan`, equal by `rfl`).
-/
namespace DepsDev.Proofs.C11
open DepsDev DepsDev.Semver DepsDev.Proofs.C10 DepsDev.Proofs.Digits

/-- Shape of a SemVer-family version inside the constraint machinery: no extension, count
within the system's limit, every number a wildcard, a number or infinity, identifiers. -/
structure BVw (s : System) (v : Version) : Prop where
  sys : v.sys = s
  ext : v.ext = .none
  len : LenOk s v.num.length
  num : ∀ x ∈ v.num, (-1 : Int) ≤ x ∧ x ≤ 9223372036854775807
  pre : ∀ i ∈ v.pre, IdentOk s i = true

/-- … and no wildcard left (what `newSpan` stores). -/
structure BV (s : System) (v : Version) : Prop extends BVw s v where
  nowild : ∀ x ∈ v.num, (0 : Int) ≤ x

theorem shape_bvw {s : System} {v : Version} {bids : List Bytes} (h : Shape s v bids) : BVw s v :=
  ⟨h.sys, h.ext, h.len, fun x hx => ⟨(h.num x hx).1, Int.le_of_lt (h.num x hx).2⟩, h.pre⟩

theorem mem_set {α} (l : List α) (i : Nat) (a x : α) (h : x ∈ l.set i a) : x ∈ l ∨ x = a := by
  rcases List.mem_or_eq_of_mem_set h with h | h
  · exact Or.inl h
  · exact Or.inr h

theorem lenOk_le (s : System) (k m : Nat) (h : LenOk s k) (hm : m ≤ max 3 k) : LenOk s m := by
  rcases h with h | ⟨h1, h2⟩
  · left; omega
  · by_cases h3 : m ≤ 3
    · left; exact h3
    · right; exact ⟨h1, fun e => by have := h2 e; omega⟩

theorem setNum_bvw {s : System} {v : Version} (h : BVw s v) (i : Nat) (val : Int) (hi : i ≤ 2 ∨ i < v.num.length)
    (hv : (-1 : Int) ≤ val ∧ val ≤ 9223372036854775807) : BVw s (v.setNum i val) := by
  unfold Version.setNum
  refine ⟨h.sys, h.ext, ?_, ?_, h.pre⟩
  · simp only [List.length_set]
    split
    · simp only [List.length_append, List.length_replicate]
      exact lenOk_le s _ _ h.len (by omega)
    · exact h.len
  · intro x hx
    simp only at hx
    rcases mem_set _ _ _ _ hx with hx | rfl
    · split at hx
      · simp only [List.mem_append, List.mem_replicate] at hx
        rcases hx with hx | ⟨_, rfl⟩
        · exact h.num x hx
        · exact ⟨by decide, by decide⟩
      · exact h.num x hx
    · exact hv

theorem inf_ok : (-1 : Int) ≤ infinity ∧ infinity ≤ (9223372036854775807 : Int) := ⟨by decide, by decide⟩
theorem zero_ok : (-1 : Int) ≤ 0 ∧ (0 : Int) ≤ (9223372036854775807 : Int) := ⟨by decide, by decide⟩

theorem clearPre_bvw {s : System} {v : Version} (h : BVw s v) : BVw s v.clearPre := by
  unfold Version.clearPre
  refine ⟨h.sys, by simp [h.ext], h.len, h.num, by simp⟩

theorem setInfAll_bvw {s : System} {v : Version} (h : BVw s v) : BVw s (setInfAll v) := by
  unfold setInfAll
  refine ⟨h.sys, h.ext, by simpa using h.len, ?_, h.pre⟩
  intro x hx
  simp only [List.mem_map] at hx
  obtain ⟨_, _, rfl⟩ := hx
  exact inf_ok

theorem build_bvw {s : System} {v : Version} (h : BVw s v) (b : Bytes) : BVw s { v with build := b } :=
  ⟨h.sys, h.ext, h.len, h.num, h.pre⟩

theorem fill_bvw {s : System} {v : Version} (h : BVw s v) (val : Int)
    (hv : (-1 : Int) ≤ val ∧ val ≤ 9223372036854775807) : BVw s (v.fill val) := by
  unfold Version.fill
  split
  · refine ⟨h.sys, h.ext, ?_, ?_, h.pre⟩
    · simp only [List.length_append, List.length_replicate]
      exact lenOk_le s _ _ h.len (by omega)
    · intro x hx
      simp only [List.mem_append, List.mem_replicate] at hx
      rcases hx with hx | ⟨_, rfl⟩
      · exact h.num x hx
      · exact hv
  · exact h


theorem padded_eq (v : Version) : (List.range v.atLeast3).map v.getNum = pad3 v.num := range_map_getNum v

theorem atLeast3_eq (v : Version) : v.atLeast3 = max 3 v.num.length := by
  unfold Version.atLeast3; split <;> omega

theorem mem_pad3_bvw {s : System} {v : Version} (h : BVw s v) (x : Int) (hx : x ∈ pad3 v.num) :
    (-1 : Int) ≤ x ∧ x ≤ 9223372036854775807 := by
  rcases mem_pad3 _ x hx with hx | rfl
  · exact h.num x hx
  · exact zero_ok

theorem subset_pad3 (l : List Int) (x : Int) (h : x ∈ l) : x ∈ pad3 l := by
  simp [pad3, h]

/-- `setTail` keeps the shape and, when the marker is found or absent, … -/
theorem setTail_bvw {s : System} {v : Version} (h : BVw s v) (marker fillv : Int)
    (hf : (-1 : Int) ≤ fillv ∧ fillv ≤ 9223372036854775807) : BVw s (v.setTail marker fillv) := by
  unfold Version.setTail
  simp only [padded_eq]
  split
  · exact h
  · rename_i i hi
    obtain ⟨hlt, _, _⟩ := List.findIdx?_eq_some_iff_getElem.mp hi
    rw [pad3_length] at hlt
    refine ⟨h.sys, h.ext, ?_, ?_, h.pre⟩
    · simp only [List.length_append, List.length_take, List.length_replicate, pad3_length, atLeast3_eq]
      exact lenOk_le s _ _ h.len (by omega)
    · intro x hx
      simp only [List.mem_append, List.mem_replicate] at hx
      rcases hx with hx | ⟨_, rfl⟩
      · exact mem_pad3_bvw h x (List.mem_of_mem_take hx)
      · exact hf

/-- … leaves no occurrence of the marker (when the fill value is not the marker). -/
theorem setTail_nomarker (v : Version) (marker fillv : Int) (hne : fillv ≠ marker) :
    ∀ x ∈ (v.setTail marker fillv).num, x ≠ marker := by
  unfold Version.setTail
  simp only [padded_eq]
  split
  · rename_i hnone
    rw [List.findIdx?_eq_none_iff] at hnone
    intro x hx
    have := hnone x (subset_pad3 _ x hx)
    simpa using this
  · rename_i i hi
    obtain ⟨hlt, _, hbefore⟩ := List.findIdx?_eq_some_iff_getElem.mp hi
    intro x hx
    simp only [List.mem_append, List.mem_replicate] at hx
    rcases hx with hx | ⟨_, rfl⟩
    · obtain ⟨j, hj, rfl⟩ := List.mem_take_iff_getElem.mp hx
      have hj' : j < i := by omega
      have := hbefore j hj'
      simpa using this
    · exact hne

theorem incN_bvw {s : System} {v v' : Version} (h : BVw s v) (n : Nat) (hv : v.incN n = .ok v') : BVw s v' := by
  unfold Version.incN at hv
  split at hv
  · rename_i x hx
    injection hv with hv
    subst hv
    have hn : n < v.num.length := by
      have := List.getElem?_eq_some_iff.mp hx
      exact this.1
    have hxm := h.num x (List.mem_of_getElem? hx)
    apply setNum_bvw h n _ (Or.inr hn)
    have key : ∀ y : Int, (-1 : Int) ≤ y → y ≤ 9223372036854775807 →
        (-1 : Int) ≤ (if y + 1 > 9223372036854775807 then 9223372036854775807 else y + 1) ∧
        (if y + 1 > 9223372036854775807 then 9223372036854775807 else y + 1) ≤ (9223372036854775807 : Int) := by
      intro y h1 h2
      split <;> omega
    exact key x hxm.1 hxm.2
  · cases hv


theorem inc_bvw {s : System} {v v' : Version} (h : BVw s v) (hv : v.inc = .ok v') : BVw s v' := by
  unfold Version.inc at hv
  split at hv
  · cases hv
  · split at hv
    · cases hv
    · split at hv
      · injection hv with hv
        subst hv
        exact setNum_bvw (setNum_bvw (setNum_bvw h 0 _ (Or.inl (by omega)) inf_ok) 1 _ (Or.inl (by omega)) inf_ok) 2 _
          (Or.inl (by omega)) inf_ok
      · exact incN_bvw h 0 hv
    · split at hv
      · cases h0 : v.incN 0 with
        | ok w =>
          rw [h0] at hv
          injection hv with hv
          subst hv
          exact setNum_bvw (setNum_bvw (incN_bvw h 0 h0) 1 _ (Or.inl (by omega)) zero_ok) 2 _ (Or.inl (by omega)) zero_ok
        | err => rw [h0] at hv; cases hv
        | panic => rw [h0] at hv; cases hv
      · exact incN_bvw h 1 hv
    · split at hv
      · exact incN_bvw h _ hv
      · injection hv with hv; subst hv; exact h
      · rename_i w _ _
        cases h0 : v.incN (w - 1) with
        | ok u =>
          rw [h0] at hv
          injection hv with hv
          subst hv
          have hu := incN_bvw h (w - 1) h0
          refine ⟨hu.sys, hu.ext, ?_, ?_, hu.pre⟩
          · simp only [List.length_append, List.length_take, List.length_replicate]
            exact lenOk_le s _ _ hu.len (by omega)
          · intro x hx
            simp only [List.mem_append, List.mem_replicate] at hx
            rcases hx with hx | ⟨_, rfl⟩
            · exact hu.num x (List.mem_of_mem_take hx)
            · exact zero_ok
        | err => rw [h0] at hv; cases hv
        | panic => rw [h0] at hv; cases hv

theorem minVersion_bv (s : System) (hs : Generic s = true) (v : Version) (hv : v.sys = s) : BV s (minVersion s v) := by
  have hm : minVersion s v = { v with num := [0, 0, 0], isPrerelease := false, pre := Gen.SemverTables.minPre, build := [], ext := .none } := by
    cases s <;> first | rfl | exact absurd hs (by decide)
  rw [hm]
  refine ⟨⟨hv, rfl, Or.inl (by simp), ?_, ?_⟩, ?_⟩
  · intro x hx
    simp at hx
    subst hx
    exact zero_ok
  · intro i hi
    rw [Props.SemverTies.minPre_ok] at hi
    simp at hi
    subst hi
    cases s <;> first | rfl | exact absurd hs (by decide)
  · intro x hx
    simp at hx
    subst hx
    decide

theorem unwild_bvw {s : System} {v : Version} (h : BVw s v) :
    BVw s { v with num := v.num.map (fun x => if x == wildcard then 0 else x), build := [] } := by
  refine ⟨h.sys, h.ext, by simpa using h.len, ?_, h.pre⟩
  intro x hx
  simp only [List.mem_map] at hx
  obtain ⟨y, hy, rfl⟩ := hx
  split
  · exact zero_ok
  · exact h.num y hy

/-- The spans inside the constraint machinery: bounds without wildcards. -/
def SpanInv (s : System) (sp : Span) : Prop :=
  match sp.rank with
  | .empty => sp = Span.emptySpan
  | .unit => ∃ m, sp.min = some m ∧ sp.max = some m ∧ BV s m
  | .vector => ∃ a b, sp.min = some a ∧ sp.max = some b ∧ BV s a ∧ BV s b

theorem spanInv_empty (s : System) : SpanInv s Span.emptySpan := by simp [SpanInv, Span.emptySpan]

theorem setTail_bv {s : System} {v : Version} (h : BVw s v) (fillv : Int) (hf : (0 : Int) ≤ fillv ∧ fillv ≤ 9223372036854775807) :
    BV s (v.setTail wildcard fillv) := by
  have hb := setTail_bvw h wildcard fillv ⟨by omega, hf.2⟩
  refine ⟨hb, ?_⟩
  intro (x : Int) hx
  have h1 := (hb.num x hx).1
  have h2 := setTail_nomarker v wildcard fillv (by rw [wildcard_lit]; omega) x hx
  rw [wildcard_lit] at h2
  have h2' : ¬ (x : Int) = -1 := h2
  have h1' : (-1 : Int) ≤ x := h1
  omega

theorem newSpan_spec (s : System) (hs : Generic s = true) (a b : Version) (ao bo : Bool) (ha : BVw s a) (hb : BVw s b)
    (sp : Span) (h : newSpan a ao b bo = .ok sp) : SpanInv s sp := by
  unfold newSpan at h
  have hmin : BV s (if a.major == wildcard then minVersion a.sys a else a.setTail wildcard 0) := by
    split
    · rw [ha.sys]; exact minVersion_bv s hs a ha.sys
    · exact setTail_bv ha 0 ⟨by decide, by decide⟩
  have hmax : BV s (b.setTail wildcard infinity) := setTail_bv hb infinity ⟨by decide, by decide⟩
  generalize (if a.major == wildcard then minVersion a.sys a else a.setTail wildcard 0) = mn at h hmin
  generalize b.setTail wildcard infinity = mx at h hmax
  have hmn' : BV s { mn with build := [] } := ⟨build_bvw hmin.toBVw [], hmin.nowild⟩
  have hmx' : BV s { mx with build := [] } := ⟨build_bvw hmax.toBVw [], hmax.nowild⟩
  simp only [bind, Outcome.bind] at h
  split at h
  · rename_i eq heq
    split at h
    · injection h with h; subst h; exact spanInv_empty s
    · split at h
      · injection h with h; subst h
        exact ⟨_, rfl, rfl, hmn'⟩
      · split at h
        · rename_i lt hlt
          split at h
          · injection h with h; subst h
            exact ⟨_, _, rfl, rfl, hmn', hmx'⟩
          · cases h
        · cases h
        · cases h
  · cases h
  · cases h

/-- The aliased call `newSpan(min, false, min, false)` of `setRange`. -/
theorem newSpanAliased_spec (s : System) (hs : Generic s = true) (a : Version) (ha : BVw s a)
    (sp : Span) (h : newSpanAliased a = .ok sp) : SpanInv s sp := by
  unfold newSpanAliased at h
  split at h
  · exact newSpan_spec s hs a a false false ha ha sp h
  · have h0 : BVw s (a.setTail wildcard 0) := (setTail_bv ha 0 ⟨by decide, by decide⟩).toBVw
    exact newSpan_spec s hs _ _ false false h0 h0 sp h


/-- The `fin` closure of `opVersionToSpan`. -/
def opFin (lo hi : Version) (minOpen maxOpen : Bool) : Outcome Span := do
  let lo := lo.setTail infinity infinity
  let hi := hi.setTail infinity infinity
  if lo.sys == .maven || lo.sys == .rubygems || lo.sys == .pypi then
    let lo ← lo.rebuildExtension
    let hi ← hi.rebuildExtension
    newSpan lo minOpen hi maxOpen
  else newSpan lo minOpen hi maxOpen

/-- The body of `case tokGreaterEqual` of `opVersionToSpan`. -/
def opGe (lo hi : Version) (minOpen : Bool) : Outcome Span := do
  let (lo, wc) : Version × Bool :=
    if lo.sys == .nuget && !lo.pre.isEmpty then
      match lo.pre.getLast? with
      | some p =>
        let (p, wc) := if p.getLast? == some 42 then (p.dropLast, true) else (p, false)
        let p := if p.isEmpty then [48] else p
        ({ lo with pre := lo.pre.dropLast ++ [p] }, wc)
      | none => (lo, false)
    else (lo, false)
  let hi := (setInfAll hi).clearPre
  if lo.sys == .nuget && (lo.isWildcard || wc) then newSpan lo false hi true
  else opFin lo { hi with build := [] } minOpen false

def opEq (lo : Version) : Outcome Span :=
  let hi := match lo.num.length with
    | 1 => (lo.setMinor infinity).setPatch infinity
    | 2 => lo.setPatch infinity
    | _ => lo
  newSpan lo false hi false

def opGt (lo : Version) : Outcome Span :=
  if lo.allEq wildcard then .ok Span.emptySpan else
  if !lo.pre.isEmpty || lo.sys == .rubygems || lo.sys == .pypi then
    opGe { lo with build := [] } lo true
  else do
    let lo' ← lo.inc
    opGe { lo' with build := [] } lo false

def opLt (lo : Version) : Outcome Span :=
  if lo.allEq wildcard || lo.allEq 0 then .ok Span.emptySpan else
  let hi := { lo with num := lo.num.map (fun x => if x == wildcard then 0 else x), build := [] }
  opFin (minVersion lo.sys lo) hi false true

def opLe (lo : Version) : Outcome Span :=
  let hi := match lo.num.length with
    | 1 => (lo.setMinor infinity).setPatch infinity
    | 2 => lo.setPatch infinity
    | _ => lo
  opFin (minVersion lo.sys lo) hi false false

def opCaret (lo : Version) : Outcome Span :=
  if lo.num.length == 2 && lo.major == 0 && lo.minor == 0 then
    newSpan lo false (lo.setPatch infinity).clearPre false
  else if lo.major == 0 && lo.num.length ≥ 2 then
    let hi := if lo.minor != 0 then lo.setPatch infinity else lo
    newSpan lo false hi.clearPre false
  else if lo.major == wildcard then
    let hi := (((lo.setMajor infinity).setMinor infinity).setPatch infinity).clearPre
    newSpan (minVersion lo.sys lo) false hi false
  else
    newSpan lo false ((lo.setMinor infinity).setPatch infinity).clearPre false

def opTilde (lo : Version) : Outcome Span :=
  let hi :=
    if lo.major == 0 && lo.num.length ≥ 2 then lo.setPatch infinity
    else match lo.num.length with
      | 1 => (lo.setMinor infinity).setPatch infinity
      | 2 => lo.setPatch infinity
      | 3 => lo.setPatch infinity
      | _ => lo
  opFin lo hi false false

def opBacon (lo : Version) : Outcome Span :=
  let n : Int := if lo.sys == .rubygems || lo.sys == .pypi then lo.userNumCount else lo.num.length
  if n == 0 then .err
  else if n == 1 then
    if lo.sys == .pypi then .err else opFin lo ((lo.setMinor infinity).setPatch infinity) false false
  else if n == 2 then
    if lo.major != infinity then newSpan lo false ((lo.setMinor infinity).setPatch infinity) false
    else opFin lo ((lo.setMinor infinity).setPatch infinity) false false
  else if n == 3 then opFin lo (lo.setPatch infinity) false false
  else
    if lo.num.isEmpty then .panic else opFin lo (lo.setNum (lo.num.length - 1) infinity) false false

/-- `opVersionToSpan` with its closures and its `switch` cases named. -/
def opSpan (typ : Nat) (lo : Version) : Outcome Span :=
  let lo := if lo.isWildcard && lo.sys != .nuget then lo.clearPre else lo
  if lo.sys != .cargo && lo.num.length < 3 && !lo.pre.isEmpty then .err else
  if (typ == tokEmpty || typ == tokEqual) && lo.num.length ≥ 3 && lo.allNumbers then
    newSpan lo false lo false
  else if typ == tokEmpty || typ == tokEqual then opEq lo
  else if typ == tokGreater then opGt lo
  else if typ == tokGreaterEqual then opGe lo lo false
  else if typ == tokLess then opLt lo
  else if typ == tokLessEqual then opLe lo
  else if typ == tokCaret then opCaret lo
  else if typ == tokTilde then opTilde lo
  else if typ == tokBacon then opBacon lo
  else .err

theorem opVersionToSpan_eq (typ : Nat) (lo : Version) : opVersionToSpan typ lo = opSpan typ lo := rfl

/-- Whatever span the computation returns satisfies the invariant. -/
def OkInv (s : System) (o : Outcome Span) : Prop := ∀ sp, o = .ok sp → SpanInv s sp

theorem okInv_err (s : System) : OkInv s .err := fun _ h => by cases h
theorem okInv_panic (s : System) : OkInv s .panic := fun _ h => by cases h
theorem okInv_empty (s : System) : OkInv s (.ok Span.emptySpan) := fun sp h => by
  injection h with h; subst h; exact spanInv_empty s
theorem okInv_newSpan (s : System) (hs : Generic s = true) (a b : Version) (ao bo : Bool) (ha : BVw s a) (hb : BVw s b) :
    OkInv s (newSpan a ao b bo) := fun sp h => newSpan_spec s hs a b ao bo ha hb sp h

theorem generic_not_ext (s : System) (hs : Generic s = true) :
    (s == System.maven || s == System.rubygems || s == System.pypi) = false := by
  cases s <;> first | rfl | exact absurd hs (by decide)

theorem opFin_spec (s : System) (hs : Generic s = true) (lo hi : Version) (a b : Bool) (hl : BVw s lo) (hh : BVw s hi) :
    OkInv s (opFin lo hi a b) := by
  unfold opFin
  have h1 := setTail_bvw hl infinity infinity inf_ok
  have h2 := setTail_bvw hh infinity infinity inf_ok
  simp only [h1.sys, generic_not_ext s hs, Bool.false_eq_true, ↓reduceIte]
  exact okInv_newSpan s hs _ _ a b h1 h2

theorem setMajor_inf {s : System} {v : Version} (h : BVw s v) : BVw s (v.setMajor infinity) :=
  setNum_bvw h 0 _ (Or.inl (by omega)) inf_ok
theorem setMinor_inf {s : System} {v : Version} (h : BVw s v) : BVw s (v.setMinor infinity) :=
  setNum_bvw h 1 _ (Or.inl (by omega)) inf_ok
theorem setPatch_inf {s : System} {v : Version} (h : BVw s v) : BVw s (v.setPatch infinity) :=
  setNum_bvw h 2 _ (Or.inl (by omega)) inf_ok

theorem identOk_zero (s : System) : IdentOk s [48] = true := by
  cases s <;> decide

theorem mem_of_mem_dropLast {α} {l : List α} {a : α} (h : a ∈ l.dropLast) : a ∈ l :=
  (List.dropLast_sublist l).subset h

theorem identOk_dropLast (s : System) (p : Bytes) (h : IdentOk s p = true) (hne : p.dropLast ≠ []) :
    IdentOk s p.dropLast = true := by
  simp only [IdentOk, Bool.and_eq_true, Bool.not_eq_true', List.isEmpty_eq_false_iff, List.all_eq_true,
    decide_eq_true_eq] at h ⊢
  refine ⟨⟨hne, fun c hc => h.1.2 c (mem_of_mem_dropLast hc)⟩, ?_⟩
  have : p.dropLast.count 42 ≤ p.count 42 := List.Sublist.count_le 42 (List.dropLast_sublist p)
  omega

theorem opGe_spec (s : System) (hs : Generic s = true) (lo hi : Version) (a : Bool) (hl : BVw s lo) (hh : BVw s hi) :
    OkInv s (opGe lo hi a) := by
  unfold opGe
  have hlo : BVw s (if lo.sys == .nuget && !lo.pre.isEmpty then
      match lo.pre.getLast? with
      | some p =>
        let (p, wc) := if p.getLast? == some 42 then (p.dropLast, true) else (p, false)
        let p := if p.isEmpty then [48] else p
        (({ lo with pre := lo.pre.dropLast ++ [p] }, wc) : Version × Bool)
      | none => (lo, false)
    else (lo, false)).1 := by
    split
    · split
      · rename_i p hp
        have hpm : p ∈ lo.pre := List.mem_of_getLast? hp
        have hpi := hl.pre p hpm
        refine ⟨hl.sys, hl.ext, hl.len, hl.num, ?_⟩
        intro i hi
        simp only [List.mem_append, List.mem_singleton] at hi
        rcases hi with hi | rfl
        · exact hl.pre i (mem_of_mem_dropLast hi)
        · split
          · simp only
            split
            · exact identOk_zero s
            · rename_i hne
              exact identOk_dropLast s p hpi (by simpa using hne)
          · simp only
            split
            · exact identOk_zero s
            · exact hpi
      · exact hl
    · exact hl
  generalize (if lo.sys == .nuget && !lo.pre.isEmpty then
      match lo.pre.getLast? with
      | some p =>
        let (p, wc) := if p.getLast? == some 42 then (p.dropLast, true) else (p, false)
        let p := if p.isEmpty then [48] else p
        (({ lo with pre := lo.pre.dropLast ++ [p] }, wc) : Version × Bool)
      | none => (lo, false)
    else (lo, false)) = pr at hlo
  obtain ⟨lo', wc⟩ := pr
  simp only at hlo ⊢
  have hhi : BVw s (setInfAll hi).clearPre := clearPre_bvw (setInfAll_bvw hh)
  split
  · exact okInv_newSpan s hs _ _ _ _ hlo hhi
  · exact opFin_spec s hs _ _ _ _ hlo (build_bvw hhi [])


theorem okInv_bind (s : System) (x : Outcome Version) (f : Version → Outcome Span)
    (h : ∀ v, x = .ok v → OkInv s (f v)) : OkInv s (x >>= f) := by
  intro sp hsp
  cases x with
  | ok v => exact h v rfl sp hsp
  | err => cases hsp
  | panic => cases hsp

/-- Closes `BVw` goals built from the operations of `opVersionToSpan`. -/
macro "bvw" : tactic => `(tactic|
  repeat (first
    | assumption
    | apply clearPre_bvw
    | apply setInfAll_bvw
    | apply setPatch_inf
    | apply setMinor_inf
    | apply setMajor_inf
    | apply unwild_bvw
    | apply build_bvw))

theorem opEq_spec (s : System) (hs : Generic s = true) (lo : Version) (hlo : BVw s lo) : OkInv s (opEq lo) := by
  unfold opEq
  apply okInv_newSpan s hs _ _ _ _ hlo
  split <;> bvw

theorem opGt_spec (s : System) (hs : Generic s = true) (lo : Version) (hlo : BVw s lo) : OkInv s (opGt lo) := by
  unfold opGt
  split
  · exact okInv_empty s
  · split
    · exact opGe_spec s hs _ _ _ (build_bvw hlo []) hlo
    · apply okInv_bind
      intro lo' hinc
      exact opGe_spec s hs _ _ _ (build_bvw (inc_bvw hlo hinc) []) hlo

theorem minVersion_bvw (s : System) (hs : Generic s = true) (lo : Version) (hlo : BVw s lo) : BVw s (minVersion lo.sys lo) := by
  rw [hlo.sys]; exact (minVersion_bv s hs lo hlo.sys).toBVw

theorem opLt_spec (s : System) (hs : Generic s = true) (lo : Version) (hlo : BVw s lo) : OkInv s (opLt lo) := by
  unfold opLt
  split
  · exact okInv_empty s
  · exact opFin_spec s hs _ _ _ _ (minVersion_bvw s hs lo hlo) (unwild_bvw hlo)

theorem opLe_spec (s : System) (hs : Generic s = true) (lo : Version) (hlo : BVw s lo) : OkInv s (opLe lo) := by
  unfold opLe
  apply opFin_spec s hs _ _ _ _ (minVersion_bvw s hs lo hlo)
  split <;> bvw

theorem opCaret_spec (s : System) (hs : Generic s = true) (lo : Version) (hlo : BVw s lo) : OkInv s (opCaret lo) := by
  unfold opCaret
  split
  · apply okInv_newSpan s hs _ _ _ _ hlo; bvw
  · split
    · apply okInv_newSpan s hs _ _ _ _ hlo
      apply clearPre_bvw
      split <;> bvw
    · split
      · apply okInv_newSpan s hs _ _ _ _ (minVersion_bvw s hs lo hlo); bvw
      · apply okInv_newSpan s hs _ _ _ _ hlo; bvw

theorem opTilde_spec (s : System) (hs : Generic s = true) (lo : Version) (hlo : BVw s lo) : OkInv s (opTilde lo) := by
  unfold opTilde
  apply opFin_spec s hs _ _ _ _ hlo
  split
  · bvw
  · split <;> bvw

theorem opBacon_spec (s : System) (hs : Generic s = true) (lo : Version) (hlo : BVw s lo) : OkInv s (opBacon lo) := by
  unfold opBacon
  simp only
  generalize (if (lo.sys == System.rubygems || lo.sys == System.pypi) = true then lo.userNumCount else (lo.num.length : Int)) = n
  split
  · exact okInv_err s
  · split
    · split
      · exact okInv_err s
      · apply opFin_spec s hs _ _ _ _ hlo; bvw
    · split
      · split
        · apply okInv_newSpan s hs _ _ _ _ hlo; bvw
        · apply opFin_spec s hs _ _ _ _ hlo; bvw
      · split
        · apply opFin_spec s hs _ _ _ _ hlo; bvw
        · split
          · exact okInv_panic s
          · rename_i hne
            apply opFin_spec s hs _ _ _ _ hlo
            apply setNum_bvw hlo _ _ _ inf_ok
            right
            have : lo.num ≠ [] := by simpa using hne
            have := List.length_pos_iff.mpr this
            omega

theorem opSpan_spec (s : System) (hs : Generic s = true) (typ : Nat) (lo0 : Version) (h0 : BVw s lo0) :
    OkInv s (opSpan typ lo0) := by
  unfold opSpan
  have hlo : BVw s (if lo0.isWildcard && lo0.sys != .nuget then lo0.clearPre else lo0) := by
    split
    · exact clearPre_bvw h0
    · exact h0
  generalize (if lo0.isWildcard && lo0.sys != .nuget then lo0.clearPre else lo0) = lo at hlo
  simp only
  split
  · exact okInv_err s
  · split
    · exact okInv_newSpan s hs _ _ _ _ hlo hlo
    · split
      · exact opEq_spec s hs lo hlo
      · split
        · exact opGt_spec s hs lo hlo
        · split
          · exact opGe_spec s hs _ _ _ hlo hlo
          · split
            · exact opLt_spec s hs lo hlo
            · split
              · exact opLe_spec s hs lo hlo
              · split
                · exact opCaret_spec s hs lo hlo
                · split
                  · exact opTilde_spec s hs lo hlo
                  · split
                    · exact opBacon_spec s hs lo hlo
                    · exact okInv_err s

theorem opVersionToSpan_spec (s : System) (hs : Generic s = true) (typ : Nat) (lo : Version) (h0 : BVw s lo) :
    OkInv s (opVersionToSpan typ lo) := by
  rw [opVersionToSpan_eq]; exact opSpan_spec s hs typ lo h0

end DepsDev.Proofs.C11
