import DepsDev.Proofs.C02PepLocal

/-!
# C02 — PyPI, part 2: the library's comparator against `_cmpkey`

`compare_pep` (C01) gives `vcompare` as a lexicographic product over the view `pview`
(epoch, padded release, rank, pre number, local, post number, dev absent, dev number).
Under the hypotheses `PepHyp` (the finding classes excluded) that product is packaging's
tuple order on `_cmpkey`. The proof computes the view of `embedPep a` (`pview_embed`)
and then splits on which of pre/post/dev/local each version carries.
-/
namespace DepsDev.Proofs.C02

open Std DepsDev DepsDev.Semver DepsDev.Ref DepsDev.Proofs
open DepsDev.Gen.SemverTables (pep440Alpha pep440Beta pep440Prerelease pep440Local pep440Post pep440Dev pep440Empty)
open DepsDev.Ref.Pep440 (LocalSeg PreKind)

/-- The hypotheses of the partial theorem on one version. -/
structure PepHyp (a : Pep440.Ast) : Prop where
  valid : a.valid = true
  inLib : Pep.inLib a = true
  noPrePost0 : Pep.prePost0 a = false
  noLocalPostDev : Pep.localPostDev a = false
  noLocalPre : Pep.localPre a = false
  localLower : Pep.localUpper a = false

theorem PepHyp.locOk {a : Pep440.Ast} (h : PepHyp a) : ∀ x ∈ a.loc, LocOk x := by
  intro x hx
  have hv := h.valid
  simp only [Pep440.Ast.valid, Bool.and_eq_true] at hv
  have hv' := List.all_eq_true.mp hv.2 x hx
  have hl := h.inLib
  simp only [Pep.inLib, Bool.and_eq_true] at hl
  have hl' := List.all_eq_true.mp hl.2 x hx
  have hu := h.localLower
  simp only [Pep.localUpper] at hu
  have hu' := (List.any_eq_false.mp hu) x hx
  cases x with
  | num n => simpa [LocOk] using hl'
  | str s =>
    refine ⟨hv', ?_⟩
    rw [List.all_eq_true]
    intro c hc
    have : s.any isUpperB = false := by simpa using hu'
    have := (List.any_eq_false.mp this) c hc
    simpa using this

def rankOf : PreKind → Int
  | .a => pep440Alpha
  | .b => pep440Beta
  | .rc => pep440Prerelease

/-- The library's rank of a version, from its tree. -/
def mrank (a : Pep440.Ast) : Int :=
  match a.pre with
  | some (k, _) => rankOf k
  | none =>
    if a.post.isSome then pep440Post
    else if a.dev.isSome then pep440Dev
    else if a.loc.isEmpty then pep440Empty else pep440Local

/-- The comparator's view of `embedPep a`. -/
def mview (a : Pep440.Ast) : PV :=
  { epoch := a.epoch, num := pad3 (ints a.release), rank := mrank a,
    preNum := match a.pre with | some (_, n) => n | none => 0,
    loc := pepLocal a.loc,
    postNum := match a.post with | some n => n | none => 0,
    devAbsent := a.dev.isNone,
    devNum := match a.dev with | some n => n | none => 0 }

theorem pepExt_embed (a : Pep440.Ast) : pepExt (embedPep a) = pepExtOf a := by
  unfold pepExt embedPep
  by_cases hp : pepPlain a = true
  · simp only [hp, ↓reduceIte]
    simp only [pepPlain, Bool.and_eq_true, beq_iff_eq, Option.isNone_iff_eq_none, List.isEmpty_iff] at hp
    obtain ⟨⟨⟨⟨h1, h2⟩, h3⟩, h4⟩, h5⟩ := hp
    simp [pepExtOf, h1, h2, h3, h4, h5, pepLocal, joinSep]
  · simp [hp]

theorem pview_embed (a : Pep440.Ast) (h : PepHyp a) : pview (embedPep a) = mview a := by
  have hlo := h.locOk
  have h2a := h.noLocalPostDev
  have h2b := h.noLocalPre
  unfold pview
  rw [pepExt_embed]
  obtain ⟨epoch, release, pre, post, dev, loc⟩ := a
  have hne : ∀ x xs, loc = x :: xs → (pepLocal loc).isEmpty = false := by
    intro x xs e
    subst e
    have := pepLocal_ne_nil x xs (hlo x (by simp))
    cases hh : pepLocal (x :: xs) with
    | nil => exact absurd hh this
    | cons _ _ => rfl
  have hnil : loc = [] → pepLocal loc = [] := by intro e; subst e; simp [pepLocal, joinSep]
  simp only [Pep.localPostDev, Pep.localPre] at h2a h2b
  rcases pre with _ | ⟨k, n⟩
  · -- no prerelease
    cases post <;> cases dev <;> cases loc <;>
      simp_all [mview, mrank, rankOf, pepExtOf, Semver.Pep440.rank, isPreRank, embedPep, PreKind.render] <;>
      decide
  · cases k <;> cases post <;> cases dev <;> cases loc <;>
      simp_all [mview, mrank, rankOf, pepExtOf, Semver.Pep440.rank, isPreRank, embedPep, PreKind.render] <;>
      decide

/-! ## rank table -/

theorem rk_pre_pre (k k' : PreKind) : compare (rankOf k) (rankOf k') = compare k.idx k'.idx := by
  cases k <;> cases k' <;> decide
theorem rk_pre_post (k : PreKind) : compare (rankOf k) pep440Post = .lt := by cases k <;> decide
theorem rk_pre_local (k : PreKind) : compare (rankOf k) pep440Local = .lt := by cases k <;> decide
theorem rk_pre_empty (k : PreKind) : compare (rankOf k) pep440Empty = .lt := by cases k <;> decide
theorem rk_pre_dev (k : PreKind) : compare (rankOf k) pep440Dev = .gt := by cases k <;> decide
theorem rk_post_pre (k : PreKind) : compare pep440Post (rankOf k) = .gt := by cases k <;> decide
theorem rk_local_pre (k : PreKind) : compare pep440Local (rankOf k) = .gt := by cases k <;> decide
theorem rk_empty_pre (k : PreKind) : compare pep440Empty (rankOf k) = .gt := by cases k <;> decide
theorem rk_dev_pre (k : PreKind) : compare pep440Dev (rankOf k) = .lt := by cases k <;> decide
theorem rk_post_local : compare pep440Post pep440Local = .gt := by decide
theorem rk_post_empty : compare pep440Post pep440Empty = .gt := by decide
theorem rk_post_dev : compare pep440Post pep440Dev = .gt := by decide
theorem rk_local_post : compare pep440Local pep440Post = .lt := by decide
theorem rk_local_empty : compare pep440Local pep440Empty = .gt := by decide
theorem rk_local_dev : compare pep440Local pep440Dev = .gt := by decide
theorem rk_empty_post : compare pep440Empty pep440Post = .lt := by decide
theorem rk_empty_local : compare pep440Empty pep440Local = .lt := by decide
theorem rk_empty_dev : compare pep440Empty pep440Dev = .gt := by decide
theorem rk_dev_post : compare pep440Dev pep440Post = .lt := by decide
theorem rk_dev_local : compare pep440Dev pep440Local = .lt := by decide
theorem rk_dev_empty : compare pep440Dev pep440Empty = .lt := by decide
theorem cmp_true_false : compare true false = .gt := by decide
theorem cmp_false_true : compare false true = .lt := by decide

theorem then_assoc (a b c : Ordering) : (a.then b).then c = a.then (b.then c) := by cases a <;> rfl

theorem cmp_zero_cast (p : Nat) (h : p ≠ 0) : compare (0 : Int) (p : Int) = .lt := by
  rw [Int.compare_eq_lt]; omega
theorem cmp_cast_zero (p : Nat) (h : p ≠ 0) : compare (p : Int) (0 : Int) = .gt := by
  rw [Int.compare_eq_gt]; omega

/-! ## the theorem -/

theorem pep_agree (a b : Pep440.Ast) (ha : PepHyp a) (hb : PepHyp b) :
    vcompare (embedPep a) (embedPep b) = .ok (ordToInt (Pep440.compare a b)) := by
  rw [compare_pep (embedPep a) (embedPep b) rfl _ _ rfl rfl]
  congr 2
  show pepOrd (embedPep a) (embedPep b) = _
  unfold pepOrd
  rw [pview_embed a ha, pview_embed b hb]
  unfold PV.cmp compareLex compareOn Pep440.compare Pep440.Key.cmp
  have hL := local_agree a.loc b.loc ha.locOk hb.locOk
  have hR := release_stage a.release b.release
  have h1a := ha.noPrePost0
  have h1b := hb.noPrePost0
  have h2a := ha.noLocalPostDev
  have h2b := ha.noLocalPre
  have h3a := hb.noLocalPostDev
  have h3b := hb.noLocalPre
  simp only [Pep.prePost0, Pep.localPostDev, Pep.localPre] at h1a h1b h2a h2b h3a h3b
  rw [key_loc a, key_loc b]
  simp only [mview, hL, hR, compare_natCast, Pep440.key, Pep440.natCmp]
  obtain ⟨ea, ra, pa, poa, da, la⟩ := a
  obtain ⟨eb, rb, pb, pob, db, lb⟩ := b
  simp only at h1a h1b h2a h2b h3a h3b ⊢
  congr 1
  congr 1
  clear hL hR ha hb
  rcases pa with _ | ⟨ka, na⟩ <;> rcases pb with _ | ⟨kb, nb⟩ <;>
  rcases poa with _ | qa <;> rcases pob with _ | qb <;>
  rcases da with _ | va <;> rcases db with _ | vb <;>
  rcases la with _ | ⟨xa, la⟩ <;> rcases lb with _ | ⟨xb, lb⟩ <;>
  simp_all [mrank, locKey, Pep440.Inf.cmp, Pep440.pairCmp, then_assoc, compare_natCast,
    rk_pre_pre, rk_pre_post, rk_pre_local, rk_pre_empty, rk_pre_dev, rk_post_pre, rk_local_pre, rk_empty_pre, rk_dev_pre,
    rk_post_local, rk_post_empty, rk_post_dev, rk_local_post, rk_local_empty, rk_local_dev, rk_empty_post, rk_empty_local,
    rk_empty_dev, rk_dev_post, rk_dev_local, rk_dev_empty, cmp_true_false, cmp_false_true, cmp_zero_cast, cmp_cast_zero]

end DepsDev.Proofs.C02
