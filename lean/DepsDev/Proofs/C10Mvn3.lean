import DepsDev.Proofs.C10Mvn2

/-!
# C10 — Maven, part 3: the trimming loop of `mavenExtension.init`

The index machine `mavenTrim` (outer index advanced from inside the inner loop, fuel
`n² + n + 2`): `mavenTrim_spec` — it terminates within its fuel and returns a sublist that keeps
the first element and is `Stable` (no "empty" element directly before a `-` element or at the
end); `mavenTrim_stable` — on a stable list it is the identity.
-/
namespace DepsDev.Proofs.C10
open DepsDev DepsDev.Semver Digits Gen.SemverTables

/-! ## Maven: the trimming loop -/

/-- What the inner loop of `mavenTrim` returns: the elements `i'+1 … i` (all "empty") removed. -/
structure InnerRes (els : List MavenElem) (i : Nat) (els' : List MavenElem) (i' : Nat) : Prop where
  le : i' ≤ i
  len : els'.length + (i - i') = els.length
  low : ∀ j, j ≤ i' → els'[j]? = els[j]?
  high : ∀ j, i' < j → els'[j]? = els[j + (i - i')]?
  sub : els'.Sublist els
  stop : i' = 0 ∨ ∃ e, els'[i']? = some e ∧ isEmptyMavenElem e.str = false

theorem inner_spec (fuel : Nat) : ∀ (els : List MavenElem) (i : Nat), i < els.length → i < fuel →
    InnerRes els i (mavenTrim.inner els i fuel).1 (mavenTrim.inner els i fuel).2 := by
  induction fuel with
  | zero => intro els i _ hf; omega
  | succ k ih =>
    intro els i hi hf
    have hget : els[i]? = some els[i] := List.getElem?_eq_getElem hi
    simp only [mavenTrim.inner, hget]
    by_cases hc : (decide (i > 0) && isEmptyMavenElem els[i].str) = true
    · simp only [hc, ↓reduceIte]
      simp only [Bool.and_eq_true, decide_eq_true_eq] at hc
      have hlen' : (els.eraseIdx i).length = els.length - 1 := by rw [List.length_eraseIdx]; simp [hi]
      have r := ih (els.eraseIdx i) (i - 1) (by omega) (by omega)
      generalize mavenTrim.inner (els.eraseIdx i) (i - 1) k = res at r
      obtain ⟨els', i'⟩ := res
      simp only at r ⊢
      refine ⟨by have := r.le; omega, by have := r.len; have := r.le; omega, ?_, ?_,
        r.sub.trans (List.eraseIdx_sublist els i), r.stop⟩
      · intro j hj
        have hle := r.le
        rw [r.low j hj, List.getElem?_eraseIdx]
        have : j < i := by omega
        simp [this]
      · intro j hj
        have hle := r.le
        rw [r.high j hj, List.getElem?_eraseIdx]
        have h1 : ¬ (j + (i - 1 - i') < i) := by omega
        simp only [h1, ↓reduceIte]
        congr 1
        omega
    · simp only [hc, Bool.false_eq_true, ↓reduceIte]
      refine ⟨Nat.le_refl i, by omega, fun _ _ => rfl, fun j _ => by simp, List.Sublist.refl els, ?_⟩
      by_cases h0 : i = 0
      · exact Or.inl h0
      · right
        refine ⟨els[i], hget, ?_⟩
        have : i > 0 := by omega
        simp only [Bool.and_eq_true, decide_eq_true_eq, not_and, Bool.not_eq_true] at hc
        exact hc this


/-- Before position `i`, no "empty" element stands directly before a `-` element. -/
def PreStable (els : List MavenElem) (i : Nat) : Prop :=
  ∀ j e, 1 ≤ j → j < i → els[j]? = some e → (∃ e', els[j + 1]? = some e' ∧ e'.sep = 45) →
    isEmptyMavenElem e.str = false

/-- The last element (if not the first) is not "empty". -/
def LastOK (els : List MavenElem) : Prop :=
  ∀ e, 2 ≤ els.length → els[els.length - 1]? = some e → isEmptyMavenElem e.str = false

/-- Nothing left for `mavenTrim` to remove. -/
def Stable (els : List MavenElem) : Prop := PreStable els els.length ∧ LastOK els

theorem outer_succ (els : List MavenElem) (i k : Nat) :
    mavenTrim.outer els i (k + 1) =
      if i < els.length then
        if (decide (i < els.length - 1) && (match els[i + 1]? with | some e => e.sep != 45 | none => false)) = true
        then mavenTrim.outer els (i + 1) k
        else mavenTrim.outer (mavenTrim.inner els i (els.length + 1)).1 ((mavenTrim.inner els i (els.length + 1)).2 + 1) k
      else els := rfl

theorem outer_spec (fuel : Nat) : ∀ (els : List MavenElem) (i : Nat), 1 ≤ i → i ≤ els.length → PreStable els i →
    (i = els.length → LastOK els) → 2 * els.length - i < fuel →
    Stable (mavenTrim.outer els i fuel) ∧ (mavenTrim.outer els i fuel).Sublist els ∧
      (mavenTrim.outer els i fuel)[0]? = els[0]? := by
  induction fuel with
  | zero => intro els i _ _ _ _ hf; omega
  | succ k ih =>
    intro els i h1 hle hpre hlast hf
    rw [outer_succ]
    by_cases hi : i < els.length
    · simp only [hi, ↓reduceIte]
      by_cases hskip : (decide (i < els.length - 1) && (match els[i + 1]? with | some e => e.sep != 45 | none => false)) = true
      · simp only [hskip, ↓reduceIte]
        simp only [Bool.and_eq_true, decide_eq_true_eq] at hskip
        obtain ⟨hs1, hs2⟩ := hskip
        apply ih els (i + 1) (by omega) (by omega) ?_ (by intro h; omega) (by omega)
        intro j e hj1 hj2 hje hnext
        by_cases hji : j < i
        · exact hpre j e hj1 hji hje hnext
        · have : j = i := by omega
          subst this
          obtain ⟨e', he', hsep⟩ := hnext
          rw [he'] at hs2
          simp [hsep] at hs2
      · simp only [hskip, Bool.false_eq_true, ↓reduceIte]
        have r := inner_spec (els.length + 1) els i hi (by omega)
        generalize mavenTrim.inner els i (els.length + 1) = res at r
        obtain ⟨els', i'⟩ := res
        simp only at r ⊢
        have hlen' : i' + 1 ≤ els'.length := by have := r.len; have := r.le; omega
        have hres := ih els' (i' + 1) (by omega) hlen' ?_ ?_ (by have := r.len; have := r.le; omega)
        · refine ⟨hres.1, hres.2.1.trans r.sub, ?_⟩
          rw [hres.2.2, r.low 0 (by omega)]
        · -- PreStable
          intro j e hj1 hj2 hje hnext
          by_cases hji : j < i'
          · have e1 := r.low j (by omega)
            have e2 := r.low (j + 1) (by omega)
            rw [e1] at hje
            rw [e2] at hnext
            exact hpre j e hj1 (by have := r.le; omega) hje hnext
          · have : j = i' := by omega
            subst this
            rcases r.stop with h0 | ⟨e0, he0, hemp⟩
            · omega
            · rw [he0] at hje; injection hje with hje; subst hje; exact hemp
        · -- LastOK
          intro hfin e hlen2 hge
          have hidx : els'.length - 1 = i' := by omega
          rw [hidx] at hge
          rcases r.stop with h0 | ⟨e0, he0, hemp⟩
          · omega
          · rw [he0] at hge; injection hge with hge; subst hge; exact hemp
    · simp only [hi, ↓reduceIte]
      have hil : i = els.length := by omega
      exact ⟨⟨by rw [← hil]; exact hpre, hlast hil⟩, List.Sublist.refl els, trivial⟩

/-- `mavenTrim` returns a stable sublist that keeps the first element. -/
theorem mavenTrim_spec (els : List MavenElem) :
    Stable (mavenTrim els) ∧ (mavenTrim els).Sublist els ∧ (mavenTrim els)[0]? = els[0]? := by
  unfold mavenTrim
  cases els with
  | nil =>
    have : mavenTrim.outer ([] : List MavenElem) 1 (([] : List MavenElem).length * ([] : List MavenElem).length + ([] : List MavenElem).length + 2) = [] := by
      simp only [List.length_nil, Nat.mul_zero, Nat.zero_add]
      rw [outer_succ]
      simp
    rw [this]
    exact ⟨⟨by intro j e _ h; simp at h, by intro e h; simp at h⟩, List.Sublist.refl _, rfl⟩
  | cons e0 es =>
    apply outer_spec _ (e0 :: es) 1 (by omega) (by simp) (by intro j e h1 h2; omega)
    · intro h e hl; simp at h; simp [h] at hl
    · have : (e0 :: es).length * (e0 :: es).length ≥ (e0 :: es).length := Nat.le_mul_self _
      omega


theorem outer_stable (fuel : Nat) : ∀ (els : List MavenElem) (i : Nat), Stable els → 1 ≤ i →
    mavenTrim.outer els i fuel = els := by
  induction fuel with
  | zero => intro els i _ _; rfl
  | succ k ih =>
    intro els i hst h1
    rw [outer_succ]
    by_cases hi : i < els.length
    · simp only [hi, ↓reduceIte]
      by_cases hskip : (decide (i < els.length - 1) && (match els[i + 1]? with | some e => e.sep != 45 | none => false)) = true
      · simp only [hskip, ↓reduceIte]
        exact ih els (i + 1) hst (by omega)
      · simp only [hskip, Bool.false_eq_true, ↓reduceIte]
        have hget : els[i]? = some els[i] := List.getElem?_eq_getElem hi
        have hemp : isEmptyMavenElem els[i].str = false := by
          by_cases hlast : i = els.length - 1
          · apply hst.2 els[i] (by omega)
            rw [← hlast]; exact hget
          · have hlt : i < els.length - 1 := by omega
            have hnext : els[i + 1]? = some els[i + 1] := List.getElem?_eq_getElem (by omega)
            simp only [hlt, decide_true, Bool.true_and, hnext, bne_iff_ne, ne_eq, Decidable.not_not] at hskip
            exact hst.1 i els[i] h1 hi hget ⟨els[i + 1], hnext, hskip⟩
        have hinner : mavenTrim.inner els i (els.length + 1) = (els, i) := by
          simp only [mavenTrim.inner, hget, hemp, Bool.and_false, Bool.false_eq_true, ↓reduceIte]
        rw [hinner]
        exact ih els (i + 1) hst (by omega)
    · simp only [hi, ↓reduceIte]

/-- `mavenTrim` is the identity on stable lists. -/
theorem mavenTrim_stable (els : List MavenElem) (h : Stable els) : mavenTrim els = els := by
  unfold mavenTrim
  exact outer_stable _ els 1 h (by omega)

end DepsDev.Proofs.C10
