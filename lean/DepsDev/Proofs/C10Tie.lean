import DepsDev.Proofs.C10Canon

/-!
# C10 — the tie: everything `Parse` accepts in a SemVer-family system is an AST image

Invariant-style reasoning over arbitrary input (no `allowInfinity`): the lexer's error flag is
sticky (`LStep`), `scanWhile`/`scanNuGetElem` consume blocks of accepted bytes
(`scanWhile_go_spec`, `scanNuGet_go_spec`, using `decodeRune_ge`), `number`/`addNum` keep the
numbers in range and within the system's count (`NInv`), `metadata` returns identifiers and,
when it ends at the end of the input without error, has read exactly their `.`-join
(`metadata_go_spec`); `parse_shape` assembles the stages.
-/
namespace DepsDev.Proofs.C10
open DepsDev DepsDev.Semver Digits

/-- `l'` is reachable from `l` by lexer operations: the error flag is sticky and `allowInf` constant. -/
structure LStep (l l' : Lex) : Prop where
  err : l'.err = false → l.err = false
  ai : l'.allowInf = l.allowInf

theorem LStep.refl (l : Lex) : LStep l l := ⟨id, rfl⟩
theorem LStep.trans {a b c : Lex} (h1 : LStep a b) (h2 : LStep b c) : LStep a c :=
  ⟨fun h => h1.err (h2.err h), h2.ai.trans h1.ai⟩

theorem next_step (l : Lex) : LStep l l.next.2 := by
  unfold Lex.next
  cases l.rest with
  | nil => exact ⟨id, rfl⟩
  | cons c t =>
    simp only
    by_cases h : l.okRune (Bytes.decodeRune (c :: t)).1 = true
    · simp only [h, ↓reduceIte]; exact ⟨id, rfl⟩
    · simp only [h, Bool.false_eq_true, ↓reduceIte]; exact ⟨fun h => by simp at h, rfl⟩

theorem back_step (l : Lex) : LStep l l.back := ⟨id, rfl⟩
theorem skip1_step (l : Lex) : LStep l l.skip1 := ⟨id, rfl⟩
theorem setErr_step (l : Lex) : LStep l l.setErr := ⟨fun h => by simp [Lex.setErr] at h, rfl⟩
theorem peek_step (l : Lex) : LStep l l.peek.2 := (next_step l).trans (back_step _)

theorem scanWhile_go_step (pred : Rune → Bool) (fuel : Nat) : ∀ l, LStep l (PS.scanWhile.go pred l fuel) := by
  induction fuel with
  | zero => intro l; exact LStep.refl l
  | succ k ih =>
    intro l
    simp only [PS.scanWhile.go]
    split
    · exact (next_step l).trans (ih _)
    · exact (next_step l).trans (back_step _)

theorem scanWhile_step (pred : Rune → Bool) (l : Lex) : LStep l (PS.scanWhile pred l) :=
  scanWhile_go_step pred _ l

theorem scanNuGet_go_step (fuel : Nat) : ∀ l seen, LStep l (PS.scanNuGetElem.go l seen fuel) := by
  induction fuel with
  | zero => intro l seen; exact LStep.refl l
  | succ k ih =>
    intro l seen
    simp only [PS.scanNuGetElem.go]
    split
    · exact (next_step l).trans (ih _ _)
    · split
      · exact ((next_step l).trans ((back_step _).trans (next_step _))).trans (ih _ _)
      · exact ((next_step l).trans ((back_step _).trans (next_step _))).trans (back_step _)

theorem scanNuGet_step (l : Lex) : LStep l (PS.scanNuGetElem l) := scanNuGet_go_step _ l false


/-- Invariant of the number stage of the generic parser run without `allowInfinity`. -/
structure NInv (s : System) (p : PS) : Prop where
  sys : p.v.sys = s
  pre : p.v.pre = []
  build : p.v.build = []
  isPre : p.v.isPrerelease = false
  ai : p.lex.allowInf = false
  num : ∀ x ∈ p.v.num, (-1 : Int) ≤ x ∧ x < 9223372036854775807
  len : p.lex.err = false → LenOk s p.v.num.length

theorem NInv.lex {s : System} {p : PS} (h : NInv s p) (l : Lex) (hl : LStep p.lex l) : NInv s { p with lex := l } :=
  ⟨h.sys, h.pre, h.build, h.isPre, hl.ai.trans h.ai, h.num, fun he => h.len (hl.err he)⟩

theorem lenOk_succ (s : System) (k : Nat) (h : LenOk s k) (h3 : ¬ (k = 3 ∧ s.allowsManyNumbers = false))
    (h4 : ¬ (s = .nuget ∧ k = 4)) : LenOk s (k + 1) := by
  by_cases hk : k < 3
  · left; omega
  · rcases h with h | ⟨hm, hn⟩
    · have : k = 3 := by omega
      subst this
      have hm : s.allowsManyNumbers = true := by
        cases hmm : s.allowsManyNumbers with
        | true => rfl
        | false => exact absurd ⟨rfl, hmm⟩ h3
      right
      exact ⟨hm, fun _ => by omega⟩
    · right
      refine ⟨hm, fun e => ?_⟩
      have := hn e
      have : k ≠ 4 := fun e4 => h4 ⟨e, e4⟩
      omega

theorem addNum_spec (s : System) (p : PS) (x : Int) (h : NInv s p) (hx : (-1 : Int) ≤ x ∧ x < 9223372036854775807) :
    NInv s (PS.addNum p x).2 ∧ LStep p.lex (PS.addNum p x).2.lex := by
  unfold PS.addNum
  have hxi : ¬ x > infinity := by rw [infinity_lit]; omega
  by_cases h3 : (p.v.num.length == 3 && !p.v.sys.allowsManyNumbers) = true
  · -- error recorded: everything downstream has err = true
    simp only [h3, ↓reduceIte]
    by_cases h4 : (p.setErr.v.sys == System.nuget && p.setErr.v.num.length == 4) = true
    · simp only [h4, ↓reduceIte]
      exact ⟨⟨h.sys, h.pre, h.build, h.isPre, h.ai, h.num, fun he => by simp [PS.setErr, Lex.setErr] at he⟩,
        ⟨fun he => by simp [PS.setErr, Lex.setErr] at he, rfl⟩⟩
    · simp only [h4, Bool.false_eq_true, ↓reduceIte, hxi]
      refine ⟨⟨h.sys, h.pre, h.build, h.isPre, h.ai, ?_, fun he => by simp [PS.setErr, Lex.setErr] at he⟩,
        ⟨fun he => by simp [PS.setErr, Lex.setErr] at he, rfl⟩⟩
      intro y hy
      simp only [PS.setErr, Version.addNum, List.mem_append, List.mem_singleton] at hy
      rcases hy with hy | rfl
      · exact h.num y hy
      · exact hx
  · simp only [h3, Bool.false_eq_true, ↓reduceIte]
    by_cases h4 : (p.v.sys == System.nuget && p.v.num.length == 4) = true
    · simp only [h4, ↓reduceIte]
      exact ⟨⟨h.sys, h.pre, h.build, h.isPre, h.ai, h.num, fun he => by simp [PS.setErr, Lex.setErr] at he⟩,
        ⟨fun he => by simp [PS.setErr, Lex.setErr] at he, rfl⟩⟩
    · simp only [h4, Bool.false_eq_true, ↓reduceIte, hxi]
      refine ⟨⟨h.sys, h.pre, h.build, h.isPre, h.ai, ?_, ?_⟩, LStep.refl _⟩
      · intro y hy
        simp only [Version.addNum, List.mem_append, List.mem_singleton] at hy
        rcases hy with hy | rfl
        · exact h.num y hy
        · exact hx
      · intro he
        simp only [Version.addNum, List.length_append, List.length_cons, List.length_nil]
        apply lenOk_succ s _ (h.len he)
        · intro ⟨e3, em⟩
          apply h3
          rw [h.sys]
          simp [e3, em]
        · intro ⟨en, e4⟩
          apply h4
          rw [h.sys]
          simp [en, e4]


theorem parseNum_range (ds : Bytes) (x : Int) (h : parseNum ds = some x) : (0 : Int) ≤ x ∧ x < 9223372036854775807 := by
  unfold parseNum at h
  split at h
  · rename_i c
    split at h
    · injection h with h
      subst h
      have := c.toNat_lt
      omega
    · cases h
  · split at h
    · cases h
    · rename_i n _
      split at h
      · cases h
      · rename_i hn
        injection h with h
        subst h
        simp only [infinity_lit, Bool.or_eq_true, decide_eq_true_eq, not_or, Int.not_lt] at hn
        have h1 : (0 : Int) ≤ n := hn.1
        have h2 : ¬ ((n : Int) ≥ 9223372036854775807) := by simpa using hn.2
        omega

theorem setErr_ninv {s : System} {p : PS} (h : NInv s p) : NInv s p.setErr :=
  ⟨h.sys, h.pre, h.build, h.isPre, h.ai, h.num, fun he => by simp [PS.setErr, Lex.setErr] at he⟩

theorem number_spec (s : System) (p : PS) (h : NInv s p) :
    NInv s (PS.number p).2 ∧ LStep p.lex (PS.number p).2.lex := by
  rw [number_noInf p h.ai]
  have hl := scanWhile_step digitPred p.lex
  generalize PS.scanWhile digitPred p.lex = l at hl
  have h0 : NInv s { p with lex := l } := h.lex l hl
  unfold numberAfterScan
  simp only
  split
  · -- nothing consumed
    split
    · rename_i c _
      split
      · -- wildcard
        have h1 : NInv s (if ({ p with lex := l } : PS).v.sys == System.nuget && ({ p with lex := l } : PS).v.isWildcard then ({ p with lex := l } : PS).setErr else { p with lex := l }) := by
          split
          · exact setErr_ninv h0
          · exact h0
        have hs1 : LStep p.lex (if ({ p with lex := l } : PS).v.sys == System.nuget && ({ p with lex := l } : PS).v.isWildcard then ({ p with lex := l } : PS).setErr else { p with lex := l }).lex := by
          split
          · exact hl.trans (setErr_step _)
          · exact hl
        generalize (if ({ p with lex := l } : PS).v.sys == System.nuget && ({ p with lex := l } : PS).v.isWildcard then ({ p with lex := l } : PS).setErr else { p with lex := l }) = p1 at h1 hs1
        have h2 : NInv s { p1 with lex := p1.lex.skip1 } := h1.lex _ (skip1_step _)
        have := addNum_spec s _ wildcard h2 (by rw [wildcard_lit]; exact ⟨by decide, by decide⟩)
        exact ⟨this.1, (hs1.trans (skip1_step _)).trans this.2⟩
      · exact ⟨h0, hl⟩
    · exact ⟨h0, hl⟩
  · split
    · exact ⟨setErr_ninv h0, hl.trans (setErr_step _)⟩
    · split
      · exact ⟨setErr_ninv h0, hl.trans (setErr_step _)⟩
      · rename_i x hx
        have hr := parseNum_range _ x hx
        have h1 : NInv s (if ({ p with lex := l } : PS).v.sys == System.nuget && ({ p with lex := l } : PS).v.isWildcard then ({ p with lex := l } : PS).setErr else { p with lex := l }) := by
          split
          · exact setErr_ninv h0
          · exact h0
        have hs1 : LStep p.lex (if ({ p with lex := l } : PS).v.sys == System.nuget && ({ p with lex := l } : PS).v.isWildcard then ({ p with lex := l } : PS).setErr else { p with lex := l }).lex := by
          split
          · exact hl.trans (setErr_step _)
          · exact hl
        generalize (if ({ p with lex := l } : PS).v.sys == System.nuget && ({ p with lex := l } : PS).v.isWildcard then ({ p with lex := l } : PS).setErr else { p with lex := l }) = p1 at h1 hs1
        have := addNum_spec s p1 x h1 ⟨by omega, hr.2⟩
        exact ⟨this.1, hs1.trans this.2⟩

theorem ite_fst_ge (c : Prop) [Decidable c] (a b : Nat × Nat) (n : Nat) (ha : c → n ≤ a.1) (hb : n ≤ b.1) :
    n ≤ (if c then a else b).1 := by
  split
  · exact ha ‹c›
  · exact hb

theorem decodeRune_ge (c : UInt8) (t : Bytes) (h : ¬ c < 0x80) : 128 ≤ (Bytes.decodeRune (c :: t)).1 := by
  unfold Bytes.decodeRune
  simp only [h, ↓reduceIte]
  have eC2 : (0xC2 : UInt8).toNat = 194 := rfl
  have eE0 : (0xE0 : UInt8).toNat = 224 := rfl
  have eF0 : (0xF0 : UInt8).toNat = 240 := rfl
  have eA0 : (0xA0 : UInt8).toNat = 160 := rfl
  have e90 : (0x90 : UInt8).toNat = 144 := rfl
  have e80 : (0x80 : UInt8).toNat = 128 := rfl
  by_cases h2 : (decide (0xC2 ≤ c) && decide (c ≤ 0xDF)) = true
  · simp only [h2, ↓reduceIte]
    simp only [Bool.and_eq_true, decide_eq_true_eq, UInt8.le_iff_toNat_le] at h2
    cases t with
    | nil => simp
    | cons b1 _ =>
      simp only
      apply ite_fst_ge
      · intro _; simp only; omega
      · decide
  · simp only [h2, Bool.false_eq_true, ↓reduceIte]
    by_cases h3 : (decide (0xE0 ≤ c) && decide (c ≤ 0xEF)) = true
    · simp only [h3, ↓reduceIte]
      simp only [Bool.and_eq_true, decide_eq_true_eq, UInt8.le_iff_toNat_le] at h3
      match t with
      | [] => simp
      | [_] => simp
      | b1 :: b2 :: _ =>
        simp only
        apply ite_fst_ge
        · intro hc
          simp only [Bool.and_eq_true, decide_eq_true_eq, UInt8.le_iff_toNat_le] at hc
          by_cases he : c = 0xE0
          · subst he
            simp only [beq_self_eq_true, ↓reduceIte] at hc
            simp only; omega
          · have : c.toNat ≠ 224 := fun e => he (UInt8.toNat_inj.mp e)
            simp only; omega
        · decide
    · simp only [h3, Bool.false_eq_true, ↓reduceIte]
      by_cases h5 : (decide (0xF0 ≤ c) && decide (c ≤ 0xF4)) = true
      · simp only [h5, ↓reduceIte]
        simp only [Bool.and_eq_true, decide_eq_true_eq, UInt8.le_iff_toNat_le] at h5
        match t with
        | [] => simp
        | [_] => simp
        | [_, _] => simp
        | b1 :: b2 :: b3 :: _ =>
          simp only
          apply ite_fst_ge
          · intro hc
            simp only [Bool.and_eq_true, decide_eq_true_eq, UInt8.le_iff_toNat_le] at hc
            by_cases he : c = 0xF0
            · subst he
              simp only [beq_self_eq_true, ↓reduceIte] at hc
              simp only; omega
            · have : c.toNat ≠ 240 := fun e => he (UInt8.toNat_inj.mp e)
              simp only; omega
          · decide
      · simp only [h5, Bool.false_eq_true, ↓reduceIte]; decide


/-- What `next` does when the parser runs without `allowInfinity`. -/
theorem next_cases (l : Lex) (hai : l.allowInf = false) :
    (l.rest = [] ∧ l.next = (eof, { l with prev := [] })) ∨
    (∃ c t, l.rest = c :: t ∧ isVS c = true ∧ l.next = ((c.toNat : Int), { l with rest := t, prev := c :: t })) ∨
    (l.rest ≠ [] ∧ l.next.2 = { l with prev := l.rest, err := true }) := by
  cases hr : l.rest with
  | nil => left; exact ⟨rfl, by have := next_nil l hr; rw [hr] at this; exact this⟩
  | cons c t =>
    right
    by_cases hc : c < 0x80
    · by_cases hv : isVS c = true
      · left; exact ⟨c, t, rfl, hv, next_vs l c t hr hv⟩
      · right
        refine ⟨by simp, ?_⟩
        unfold Lex.next
        rw [hr]
        simp only [decodeRune_ascii c t hc]
        have : l.okRune c.toNat = false := by
          simp only [Lex.okRune, hai, Bool.false_and, Bool.or_false]
          simp only [isVS, Bool.and_eq_true, decide_eq_true_eq, not_and, Bool.not_eq_true] at hv
          by_cases h7 : c.toNat < 0x7F
          · simp [hv h7]
          · simp [h7]
        simp [this]
    · right
      refine ⟨by simp, ?_⟩
      unfold Lex.next
      rw [hr]
      simp only
      have hge := decodeRune_ge c t hc
      have : l.okRune (Bytes.decodeRune (c :: t)).1 = false := by
        simp only [Lex.okRune, hai, Bool.false_and, Bool.or_false]
        have : ¬ (Bytes.decodeRune (c :: t)).1 < 0x7F := by omega
        simp [this]
      simp [this]


/-- What `scanWhile` consumes: a block of accepted bytes satisfying the predicate. -/
theorem scanWhile_go_spec (pred : Rune → Bool) (fuel : Nat) : ∀ l : Lex, l.allowInf = false →
    ∃ xs, l.rest = xs ++ (PS.scanWhile.go pred l fuel).rest ∧
      ∀ c ∈ xs, isVS c = true ∧ pred (c.toNat : Int) = true := by
  induction fuel with
  | zero => intro l _; exact ⟨[], rfl, by simp⟩
  | succ k ih =>
    intro l hai
    simp only [PS.scanWhile.go]
    rcases next_cases l hai with ⟨hr, hn⟩ | ⟨c, t, hr, hv, hn⟩ | ⟨hr, hn⟩
    · rw [hn]
      simp only
      split
      · obtain ⟨xs, h1, h2⟩ := ih { l with prev := [] } hai
        exact ⟨xs, h1, h2⟩
      · exact ⟨[], by simp [Lex.back, hr], by simp⟩
    · rw [hn]
      simp only
      split
      · rename_i hp
        obtain ⟨xs, h1, h2⟩ := ih { l with rest := t, prev := c :: t } hai
        refine ⟨c :: xs, by rw [hr]; simp only [List.cons_append]; rw [← h1], ?_⟩
        intro d hd
        simp at hd
        rcases hd with rfl | hd
        · exact ⟨hv, hp⟩
        · exact h2 d hd
      · exact ⟨[], by simp [Lex.back, hr], by simp⟩
    · have e1 : l.next = (l.next.1, l.next.2) := rfl
      rw [e1, hn]
      simp only
      split
      · obtain ⟨xs, h1, h2⟩ := ih { l with prev := l.rest, err := true } hai
        exact ⟨xs, h1, h2⟩
      · exact ⟨[], by simp [Lex.back], by simp⟩

theorem alnumHyphen_ident : ∀ c : UInt8, isAlnumHyphenRune (c.toNat : Int) = true → isIdentB c = true := by
  apply forall_uint8; decide +kernel

/-- What NuGet's element scan consumes: identifier bytes and `*`. -/
theorem scanNuGet_go_spec (fuel : Nat) : ∀ (l : Lex) (seen : Bool), l.allowInf = false →
    ∃ xs, l.rest = xs ++ (PS.scanNuGetElem.go l seen fuel).rest ∧
      (∀ c ∈ xs, isIdentB c = true ∨ c = 42) ∧ xs.count 42 ≤ (if seen then 0 else 1) := by
  induction fuel with
  | zero => intro l _ _; exact ⟨[], rfl, by simp, by simp⟩
  | succ k ih =>
    intro l seen hai
    rw [scanNuGet_go_succ]
    rcases next_cases l hai with ⟨hr, hn⟩ | ⟨c, t, hr, hv, hn⟩ | ⟨hr, hn⟩
    · -- end of input
      have h1 : l.next.1 = eof := by rw [hn]
      have h2 : l.next.2.back = { l with prev := [] } := by rw [hn]; simp [Lex.back, hr]
      have h3 : ({ l with prev := [] } : Lex).next = (eof, { l with prev := [] }) := next_nil _ hr
      rw [h1, h2, h3]
      have e : isAlnumHyphenRune eof = false := by decide
      have e2 : ((eof : Rune) == 42) = false := by decide
      simp only [e, e2, Bool.false_eq_true, ↓reduceIte, Bool.false_and]
      exact ⟨[], by simp [Lex.back, hr], by simp, by simp⟩
    · -- an accepted byte
      have h1 : l.next.1 = (c.toNat : Int) := by rw [hn]
      have h1' : l.next.2 = { l with rest := t, prev := c :: t } := by rw [hn]
      have h2 : l.next.2.back = { l with rest := c :: t, prev := c :: t } := by rw [hn]; rfl
      have h3 : ({ l with rest := c :: t, prev := c :: t } : Lex).next =
          ((c.toNat : Int), { l with rest := t, prev := c :: t }) := next_vs _ c t rfl hv
      rw [h1, h2, h3, h1']
      simp only
      split
      · rename_i hp
        obtain ⟨xs, g1, g2, g3⟩ := ih { l with rest := t, prev := c :: t } seen hai
        have hci := alnumHyphen_ident _ hp
        have hne : c ≠ 42 := by intro e; subst e; exact absurd hci (by decide)
        refine ⟨c :: xs, by rw [hr]; simp only [List.cons_append]; rw [← g1], ?_, by
          rw [List.count_cons_of_ne hne]; exact g3⟩
        intro d hd
        simp at hd
        rcases hd with rfl | hd
        · exact Or.inl hci
        · exact g2 d hd
      · split
        · rename_i h42
          obtain ⟨xs, g1, g2, g3⟩ := ih { l with rest := t, prev := c :: t } true hai
          simp only [Bool.and_eq_true, beq_iff_eq, Bool.not_eq_true'] at h42
          have hc42 : c = 42 := by
            have : (c.toNat : Int) = 42 := h42.1
            apply UInt8.toNat_inj.mp
            show c.toNat = 42
            omega
          have hseen : seen = false := h42.2
          subst hc42 hseen
          refine ⟨42 :: xs, by rw [hr]; simp only [List.cons_append]; rw [← g1], ?_, by
            simp only [↓reduceIte, Nat.le_zero_eq] at g3
            simp [g3]⟩
          intro d hd
          simp at hd
          rcases hd with rfl | hd
          · exact Or.inr rfl
          · exact g2 d hd
        · exact ⟨[], by simp [Lex.back, hr], by simp, by simp⟩
    · -- a rejected byte: error recorded, nothing consumed, the re-read fails the same way
      have h2 : l.next.2.back = { l with prev := l.rest, err := true } := by rw [hn]; rfl
      have h3 : ({ l with prev := l.rest, err := true } : Lex).next.2 = { l with prev := l.rest, err := true } := by
        rcases next_cases { l with prev := l.rest, err := true } hai with ⟨hr', _⟩ | ⟨c, t, hr', hv, _⟩ | ⟨_, hn'⟩
        · exact absurd hr' hr
        · exfalso
          have := next_vs l c t hr' hv
          rw [this] at hn
          simp at hn
          have := congrArg List.length (hn.2.1.trans hn.1.symm)
          simp at this
        · exact hn'
      rw [h2]
      split
      · rw [hn]
        obtain ⟨xs, g1, g2, g3⟩ := ih { l with prev := l.rest, err := true } seen hai
        exact ⟨xs, g1, g2, g3⟩
      · split
        · rw [h3]
          obtain ⟨xs, g1, g2, g3⟩ := ih { l with prev := l.rest, err := true } true hai
          exact ⟨xs, g1, g2, by simp only [↓reduceIte, Nat.le_zero_eq] at g3; simp [g3]⟩
        · rw [h3]
          exact ⟨[], by simp [Lex.back], by simp, by simp⟩


/-- Identifiers as the parser of system `s` accepts them: non-empty over `[0-9A-Za-z-]`, for
NuGet also `*` (floating versions). -/
abbrev IdentS (s : System) (e : Bytes) : Prop := IdentOk s e = true

theorem count_ident (e : Bytes) (h : ∀ c ∈ e, isIdentB c = true) : e.count 42 = 0 := by
  rw [List.count_eq_zero]
  intro hm
  exact absurd (h 42 hm) (by decide)

theorem elem_spec (p : PS) (hai : p.lex.allowInf = false) :
    (PS.elem p).2.v = p.v ∧ LStep p.lex (PS.elem p).2.lex ∧
    ∀ e, (PS.elem p).1 = some e → IdentS p.v.sys e ∧ p.lex.rest = e ++ (PS.elem p).2.lex.rest := by
  have hscan : ∃ xs, p.lex.rest = xs ++ (if p.v.sys == .nuget then PS.scanNuGetElem p.lex else PS.scanWhile isAlnumHyphenRune p.lex).rest ∧
      (∀ c ∈ xs, identByte p.v.sys c = true) ∧ xs.count 42 ≤ 1 := by
    by_cases hn : p.v.sys = .nuget
    · simp only [hn, beq_self_eq_true, ↓reduceIte]
      obtain ⟨xs, h1, h2, h3⟩ := scanNuGet_go_spec (p.lex.rest.length + 1) p.lex false hai
      refine ⟨xs, h1, fun c hc => ?_, by simpa using h3⟩
      rcases h2 c hc with h | h
      · simp [identByte, h]
      · simp [identByte, h]
    · have : (p.v.sys == System.nuget) = false := by simp [hn]
      simp only [this, Bool.false_eq_true, ↓reduceIte]
      obtain ⟨xs, h1, h2⟩ := scanWhile_go_spec isAlnumHyphenRune (p.lex.rest.length + 1) p.lex hai
      have hid : ∀ c ∈ xs, isIdentB c = true := fun c hc => alnumHyphen_ident c (h2 c hc).2
      refine ⟨xs, h1, fun c hc => by simp [identByte, hid c hc], by rw [count_ident xs hid]; omega⟩
  have hstep : LStep p.lex (if p.v.sys == .nuget then PS.scanNuGetElem p.lex else PS.scanWhile isAlnumHyphenRune p.lex) := by
    split
    · exact scanNuGet_step _
    · exact scanWhile_step _ _
  unfold PS.elem
  simp only
  generalize (if p.v.sys == .nuget then PS.scanNuGetElem p.lex else PS.scanWhile isAlnumHyphenRune p.lex) = l at hscan hstep
  obtain ⟨xs, h1, h2, h2c⟩ := hscan
  have hlen : p.lex.rest.length - l.rest.length = xs.length := by
    rw [h1, List.length_append]; omega
  rw [hlen]
  split
  · rename_i h0
    refine ⟨rfl, ?_, fun e he => by cases he⟩
    split
    · exact hstep.trans ((peek_step l).trans (setErr_step _))
    · exact hstep.trans (peek_step l)
  · rename_i h0
    refine ⟨rfl, hstep, ?_⟩
    intro e he
    simp only [Option.some.injEq] at he
    have hx : List.take xs.length p.lex.rest = xs := by rw [h1, List.take_left' rfl]
    rw [hx] at he
    subst he
    refine ⟨?_, h1⟩
    have hne : xs ≠ [] := by
      intro e'
      subst e'
      simp at h0
    show IdentOk p.v.sys xs = true
    unfold IdentOk
    simp only [Bool.and_eq_true, Bool.not_eq_true', List.isEmpty_eq_false_iff, List.all_eq_true,
      decide_eq_true_eq]
    exact ⟨⟨hne, h2⟩, h2c⟩


theorem metadata_go_succ (p : PS) (acc : List Bytes) (r0 : Rune) (k : Nat) :
    PS.metadata.go p acc r0 (k + 1) =
      match PS.elem p with
      | (none, p') => (acc, r0, if acc.isEmpty then p'.setErr else p')
      | (some e, p') =>
        if (p'.lex.next.1 == 46) = true then PS.metadata.go { p' with lex := p'.lex.next.2 } (acc ++ [e]) p'.lex.next.1 k
        else (acc ++ [e], p'.lex.next.1, { p' with lex := p'.lex.next.2 }) := rfl

/-- `metadata` on arbitrary input: the version is untouched, errors are sticky, the elements are
identifiers; and when it stops at the end of the input without error, the text it read is the
elements joined by `.`. -/
theorem metadata_go_spec (fuel : Nat) : ∀ (p : PS) (acc : List Bytes) (r0 : Rune), p.lex.allowInf = false →
    (PS.metadata.go p acc r0 fuel).2.2.v = p.v ∧ LStep p.lex (PS.metadata.go p acc r0 fuel).2.2.lex ∧
    ∃ ids, (PS.metadata.go p acc r0 fuel).1 = acc ++ ids ∧ (∀ i ∈ ids, IdentS p.v.sys i) ∧
      ((PS.metadata.go p acc r0 fuel).2.1 = eof → r0 ≠ eof → (PS.metadata.go p acc r0 fuel).2.2.lex.err = false →
        ids ≠ [] ∧ p.lex.rest = joinWith 46 ids ∧ (PS.metadata.go p acc r0 fuel).2.2.lex.rest = []) := by
  induction fuel with
  | zero =>
    intro p acc r0 _
    exact ⟨rfl, LStep.refl _, [], by simp [PS.metadata.go], by simp, fun h1 h2 _ => absurd h1 h2⟩
  | succ k ih =>
    intro p acc r0 hai
    rw [metadata_go_succ]
    obtain ⟨hv, hst, he⟩ := elem_spec p hai
    cases hel : PS.elem p with
    | mk eo p' =>
      rw [hel] at hv hst he
      simp only at hv hst he
      cases eo with
      | none =>
        simp only
        refine ⟨?_, ?_, [], by simp, by simp, fun h1 h2 _ => absurd h1 h2⟩
        · split <;> simpa [PS.setErr] using hv
        · split
          · exact hst.trans (setErr_step _)
          · exact hst
      | some e =>
        obtain ⟨hid, hrest⟩ := he e rfl
        simp only
        have hai' : p'.lex.allowInf = false := hst.ai.trans hai
        have hnx := next_step p'.lex
        split
        · rename_i h46
          have hai'' : ({ p' with lex := p'.lex.next.2 } : PS).lex.allowInf = false := hnx.ai.trans hai'
          obtain ⟨g1, g2, ids, g3, g4, g5⟩ := ih { p' with lex := p'.lex.next.2 } (acc ++ [e]) p'.lex.next.1 hai''
          refine ⟨g1.trans hv, hst.trans (hnx.trans g2), e :: ids, by rw [g3]; simp, ?_, ?_⟩
          · intro i hi
            simp at hi
            rcases hi with rfl | hi
            · exact hid
            · have := g4 i hi
              rwa [show ({ p' with lex := p'.lex.next.2 } : PS).v.sys = p.v.sys by simp [hv]] at this
          · intro h1 _ h3
            have h46' : p'.lex.next.1 ≠ eof := by
              intro e'
              rw [e'] at h46
              exact absurd h46 (by decide)
            obtain ⟨k1, k2, k3⟩ := g5 h1 h46' h3
            refine ⟨by simp, ?_, k3⟩
            -- the `.` was consumed
            rcases next_cases p'.lex hai' with ⟨_, hn⟩ | ⟨c, t, hr, hvs, hn⟩ | ⟨_, hn⟩
            · rw [hn] at h46
              have : ((eof : Rune) == 46) = false := by decide
              simp only [this] at h46
              cases h46
            · rw [hn] at h46 k2
              simp only at h46 k2
              have hc : c = 46 := by
                have : (c.toNat : Int) = 46 := by simpa using h46
                apply UInt8.toNat_inj.mp
                show c.toNat = 46
                omega
              subst hc
              rw [hrest, hr, k2]
              cases ids with
              | nil => exact absurd rfl k1
              | cons i0 is => simp [joinWith]
            · -- error recorded by `next`: contradicts the error-free end
              exfalso
              have := g2.err h3
              simp only at this
              rw [hn] at this
              simp at this
        · rename_i h46
          refine ⟨hv, hst.trans hnx, [e], rfl, ?_, ?_⟩
          · intro i hi
            simp at hi
            subst hi
            exact hid
          · intro h1 _ h3
            simp only at h1 h3
            refine ⟨by simp, ?_⟩
            rcases next_cases p'.lex hai' with ⟨hr, hn⟩ | ⟨c, t, hr, hvs, hn⟩ | ⟨_, hn⟩
            · rw [hn]
              simp only [joinWith]
              rw [hrest, hr]
              simp
            · rw [hn] at h1
              simp only at h1
              have : (c.toNat : Int) = -1 := h1
              omega
            · exfalso
              rw [hn] at h3
              simp at h3


theorem gNums_spec (s : System) (fuel : Nat) : ∀ (p : PS) (r : Rune), NInv s p →
    NInv s (PS.gNums p r fuel).1 ∧ LStep p.lex (PS.gNums p r fuel).1.lex := by
  induction fuel with
  | zero => intro p r h; exact ⟨h, LStep.refl _⟩
  | succ k ih =>
    intro p r h
    simp only [PS.gNums]
    split
    · obtain ⟨h1, h2⟩ := number_spec s p h
      split
      · have h3 := next_step (PS.number p).2.lex
        obtain ⟨h4, h5⟩ := ih { (PS.number p).2 with lex := (PS.number p).2.lex.next.2 } (PS.number p).2.lex.next.1 (h1.lex _ h3)
        exact ⟨h4, h2.trans (h3.trans h5)⟩
      · exact ⟨h1, h2⟩
    · exact ⟨h, LStep.refl _⟩

theorem stripV_step (fuel : Nat) : ∀ l, LStep l (PS.stripV l fuel) := by
  induction fuel with
  | zero => intro l; exact LStep.refl l
  | succ k ih =>
    intro l
    simp only [PS.stripV]
    split
    · exact (peek_step l).trans ((next_step _).trans (ih _))
    · exact peek_step l

theorem gLead_spec (s : System) (str : Bytes) : NInv s (PS.gLead s str false) := by
  have h0 : NInv s { v := { sys := s }, lex := { rest := str, prev := str, allowInf := false } } :=
    ⟨rfl, rfl, rfl, rfl, rfl, by simp, fun _ => Or.inl (by simp)⟩
  unfold PS.gLead
  cases s <;> simp only
  case npm => exact h0.lex _ (stripV_step _ _)
  case go =>
    apply h0.lex
    split
    · exact (next_step _).trans (setErr_step _)
    · exact next_step _
  case composer =>
    split
    · exact h0.lex _ ((peek_step _).trans (next_step _))
    · split
      · exact h0.lex _ ((peek_step _).trans ((peek_step _).trans (next_step _)))
      · exact h0.lex _ ((peek_step _).trans (peek_step _))
  all_goals exact h0

theorem gHead_eq (sys : System) (str : Bytes) (ai : Bool) :
    PS.gHead sys str ai =
      if (PS.number (PS.gLead sys str ai)).1 = true then
        gHeadTail sys
          (PS.gNums { (PS.number (PS.gLead sys str ai)).2 with lex := (PS.number (PS.gLead sys str ai)).2.lex.next.2 }
            (PS.number (PS.gLead sys str ai)).2.lex.next.1 (str.length + 1)).1
          (PS.gNums { (PS.number (PS.gLead sys str ai)).2 with lex := (PS.number (PS.gLead sys str ai)).2.lex.next.2 }
            (PS.number (PS.gLead sys str ai)).2.lex.next.1 (str.length + 1)).2
      else none := by
  unfold PS.gHead gHeadTail
  cases h : (PS.number (PS.gLead sys str ai)).1 <;> simp [h]

/-- Invariant after the numbers: `NInv` plus NuGet's "no zero fourth number". -/
structure HInv (s : System) (p : PS) : Prop extends NInv s p where
  nuget4 : s = .nuget → p.v.num.length = 4 → p.v.num[3]? ≠ some 0

theorem gHead_spec (s : System) (hs : Generic s = true) (str : Bytes) (p : PS) (r : Rune)
    (h : PS.gHead s str false = some (p, r)) : HInv s p := by
  rw [gHead_eq] at h
  split at h
  · have h1 := (number_spec s _ (gLead_spec s str)).1
    have h2 := (gNums_spec s (str.length + 1) _ (PS.number (PS.gLead s str false)).2.lex.next.1
      (h1.lex _ (next_step _))).1
    generalize (PS.gNums _ _ _) = res at h h2
    have htrim : HInv s (if (s == .nuget && res.1.v.num.length == 4 && res.1.v.getNum 3 == 0) = true
        then { res.1 with v := { res.1.v with num := res.1.v.num.take 3 } } else res.1) := by
      split
      · rename_i hc
        simp only [Bool.and_eq_true, beq_iff_eq] at hc
        refine ⟨⟨h2.sys, h2.pre, h2.build, h2.isPre, h2.ai, ?_, fun _ => Or.inl ?_⟩, ?_⟩
        · intro x hx
          exact h2.num x (List.mem_of_mem_take hx)
        · simp only [List.length_take]; omega
        · intro _ hl
          simp only [List.length_take] at hl
          omega
      · rename_i hc
        refine ⟨h2, ?_⟩
        intro hn hl hz
        apply hc
        simp only [Bool.and_eq_true, beq_iff_eq]
        refine ⟨⟨by simp [hn], hl⟩, ?_⟩
        simp only [Version.getNum, List.getD, hz, Option.getD_some]
    unfold gHeadTail at h
    simp only [generic_ne_rubygems s hs, Bool.false_and, Bool.false_eq_true, ↓reduceIte] at h
    generalize (if (s == .nuget && res.1.v.num.length == 4 && res.1.v.getNum 3 == 0) = true
        then { res.1 with v := { res.1.v with num := res.1.v.num.take 3 } } else res.1) = pt at h htrim
    split at h
    · cases h
    · injection h with h
      injection h with h _
      subst h
      exact htrim
  · cases h


/-- Invariant after the prerelease stage. -/
structure PInv (s : System) (p : PS) : Prop where
  sys : p.v.sys = s
  build : p.v.build = []
  ai : p.lex.allowInf = false
  num : ∀ x ∈ p.v.num, (-1 : Int) ≤ x ∧ x < 9223372036854775807
  len : p.lex.err = false → LenOk s p.v.num.length
  nuget4 : s = .nuget → p.v.num.length = 4 → p.v.num[3]? ≠ some 0
  pre : ∀ i ∈ p.v.pre, IdentS s i

theorem HInv.toPInv {s : System} {p : PS} (h : HInv s p) : PInv s p :=
  ⟨h.sys, h.build, h.ai, h.num, h.len, h.nuget4, by simp [h.pre]⟩

theorem PInv.mk' {s : System} {p : PS} (h : PInv s p) (l : Lex) (hl : LStep p.lex l) : PInv s { p with lex := l } :=
  ⟨h.sys, h.build, hl.ai.trans h.ai, h.num, fun he => h.len (hl.err he), h.nuget4, h.pre⟩

/-- The state after `metadata` ran on a state whose version is `v0` (same numbers as `p`). -/
theorem pinv_after_metadata (s : System) (p q : PS) (h : HInv s p) (hq : q.v = { p.v with isPrerelease := true })
    (hl : LStep p.lex q.lex) :
    PInv s { (PS.metadata q).2.2 with v := { (PS.metadata q).2.2.v with pre := (PS.metadata q).2.2.v.pre ++ (PS.metadata q).1 } } := by
  unfold PS.metadata
  have hai : q.lex.allowInf = false := hl.ai.trans h.ai
  obtain ⟨g1, g2, ids, g3, g4, _⟩ := metadata_go_spec (q.lex.rest.length + 1) q [] 0 hai
  generalize PS.metadata.go q [] 0 (q.lex.rest.length + 1) = res at g1 g2 g3 g4
  have hsys : q.v.sys = s := by rw [hq]; exact h.sys
  refine ⟨by simp [g1, hsys], by simp [g1, hq, h.build], g2.ai.trans hai, ?_, ?_, ?_, ?_⟩
  · simp only [g1, hq]; exact h.num
  · intro he
    simp only [g1, hq]
    exact h.len (hl.err (g2.err he))
  · simp only [g1, hq]; exact h.nuget4
  · intro i hi
    simp only [g1, hq, h.pre, List.nil_append, g3] at hi
    rw [← hsys]
    exact g4 i hi

theorem gPre_spec (s : System) (hs : Generic s = true) (p p' : PS) (r r' : Rune) (h : HInv s p)
    (hp : PS.gPre s p r = .ok (p', r')) : PInv s p' := by
  unfold PS.gPre at hp
  split at hp
  · split at hp
    · cases hp
    · injection hp with hp
      injection hp with hp _
      subst hp
      exact pinv_after_metadata s p _ h rfl (LStep.refl _)
  · split at hp
    · simp only at hp
      split at hp
      · split at hp
        · cases hp
        · split at hp
          · cases hp
          · split at hp
            · cases hp
            · injection hp with hp
              injection hp with hp _
              subst hp
              exact pinv_after_metadata s p _ h rfl (next_step _)
      · injection hp with hp
        injection hp with hp _
        subst hp
        exact (h.toPInv).mk' _ (next_step _)
    · simp only [generic_ne_rubygems s hs, Bool.false_and, Bool.false_eq_true, ↓reduceIte] at hp
      injection hp with hp
      injection hp with hp _
      subst hp
      exact h.toPInv


theorem gBuild_spec (s : System) (p p' : PS) (r r' : Rune) (h : PInv s p)
    (hp : PS.gBuild s p r = .ok (p', r')) :
    p'.v.sys = s ∧ (∀ x ∈ p'.v.num, (-1 : Int) ≤ x ∧ x < 9223372036854775807) ∧
    (p'.lex.err = false → LenOk s p'.v.num.length) ∧
    (s = .nuget → p'.v.num.length = 4 → p'.v.num[3]? ≠ some 0) ∧
    (∀ i ∈ p'.v.pre, IdentS s i) ∧
    (r' = eof → p'.lex.err = false → ∃ bids, p'.v.build = renderBuild bids ∧ ∀ i ∈ bids, IdentS s i) := by
  unfold PS.gBuild at hp
  split at hp
  · split at hp
    · cases hp
    · have hm : PS.metadata p = PS.metadata.go p [] 0 (p.lex.rest.length + 1) := rfl
      obtain ⟨g1, g2, ids, g3, g4, g5⟩ := metadata_go_spec (p.lex.rest.length + 1) p [] 0 h.ai
      rw [← hm] at g1 g2 g3 g5
      generalize PS.metadata p = res at hp g1 g2 g3 g5
      obtain ⟨out, rr, pp⟩ := res
      simp only at hp g1 g2 g3 g5
      injection hp with hp
      injection hp with hp hr
      subst hp hr
      refine ⟨by simp [g1, h.sys], by simp only [g1]; exact h.num, ?_, by simp only [g1]; exact h.nuget4,
        by simp only [g1]; exact h.pre, ?_⟩
      · intro he
        simp only [g1]
        exact h.len (g2.err he)
      · intro hr' he
        obtain ⟨k1, k2, k3⟩ := g5 hr' (by decide) he
        refine ⟨ids, ?_, fun i hi => by rw [← h.sys]; exact g4 i hi⟩
        simp only [k3, List.length_nil, Nat.sub_zero, List.take_length, k2]
        cases ids with
        | nil => exact absurd rfl k1
        | cons i0 is => rfl
  · injection hp with hp
    injection hp with hp _
    subst hp
    exact ⟨h.sys, h.num, h.len, h.nuget4, h.pre, fun _ _ => ⟨[], by simp [h.build, renderBuild], by simp⟩⟩

/-- The shape of what the generic parser accepts (like `Shape`, with the system's own
identifier class: NuGet also admits `*`). -/
structure ShapeS (s : System) (v : Version) (bids : List Bytes) : Prop where
  len : LenOk s v.num.length
  num : ∀ x ∈ v.num, (-1 : Int) ≤ x ∧ x < 9223372036854775807
  nuget4 : s = .nuget → v.num.length = 4 → v.num[3]? ≠ some 0
  pre : ∀ i ∈ v.pre, IdentS s i
  build : v.build = renderBuild bids
  bids : ∀ i ∈ bids, IdentS s i

theorem gFinish_spec (s : System) (p : PS) (r : Rune) (v : Version) (h : PS.gFinish s p r = .ok v) :
    r = eof ∧ p.lex.err = false ∧
    v = (if ((s == .rubygems || s == .nuget) && decide (p.v.num.length < 3)) = true
      then { p.v with userNumCount := p.v.num.length, num := p.v.num ++ List.replicate (3 - p.v.num.length) 0 }
      else { p.v with userNumCount := p.v.num.length }) := by
  unfold PS.gFinish at h
  by_cases hr : (r != eof) = true
  · simp only [hr, ↓reduceIte, PS.setErr, Lex.setErr] at h
    cases h
  · simp only [hr, Bool.false_eq_true, ↓reduceIte] at h
    have hr' : r = eof := by simpa using hr
    split at h
    · cases h
    · rename_i he
      injection h with h
      refine ⟨hr', by simpa using he, ?_⟩
      rw [← h]

/-- **The tie, core**: what `parseGenericCore` accepts (without `allowInfinity`) has the shape. -/
theorem parseGenericCore_shape (s : System) (hs : Generic s = true) (str : Bytes) (v : Version)
    (h : parseGenericCore s str false = .ok v) : ∃ bids, ShapeS s v bids := by
  rw [parseGenericCore_eq] at h
  split at h
  · cases h
  · rename_i p r hh
    have h1 := gHead_spec s hs str p r hh
    unfold gTail at h
    split at h
    · cases h
    · cases h
    · rename_i p2 r2 hpre
      have h2 := gPre_spec s hs p p2 r r2 h1 hpre
      split at h
      · cases h
      · cases h
      · rename_i p3 r3 hb
        obtain ⟨_, b2, b3, b4, b5, b6⟩ := gBuild_spec s p2 p3 r2 r3 h2 hb
        obtain ⟨f1, f2, f3⟩ := gFinish_spec s p3 r3 v h
        obtain ⟨bids, c1, c2⟩ := b6 f1 f2
        refine ⟨bids, ?_⟩
        rw [f3]
        split
        · rename_i hc
          simp only [Bool.and_eq_true, decide_eq_true_eq] at hc
          refine ⟨?_, ?_, ?_, b5, c1, c2⟩
          · left; simp only [List.length_append, List.length_replicate]; omega
          · intro x hx
            simp only [List.mem_append, List.mem_replicate] at hx
            rcases hx with hx | ⟨_, rfl⟩
            · exact b2 x hx
            · exact ⟨by decide, by decide⟩
          · intro _ hl
            simp only [List.length_append, List.length_replicate] at hl
            omega
        · exact ⟨b3 f2, b2, b4, b5, c1, c2⟩


/-- **The tie**: everything `Parse` accepts in a SemVer-family system is an AST image. -/
theorem parse_shape (s : System) (hs : Generic s = true) (b : Bytes) (v : Version) (h : parse s b = .ok v) :
    ∃ bids, Shape s v bids := by
  unfold parse at h
  split at h
  · cases h
  · unfold parseInf at h
    simp only [Bool.false_and, Bool.false_eq_true, ↓reduceIte] at h
    have hg : parseGeneric s b false = .ok v := by
      cases s <;> first | exact h | exact absurd hs (by decide)
    unfold parseGeneric at hg
    split at hg
    · cases hg
    · cases hg
    · rename_i v0 hcore
      simp only [generic_ne_rubygems s hs, Bool.false_eq_true, ↓reduceIte] at hg
      injection hg with hg
      obtain ⟨bids, sh⟩ := parseGenericCore_shape s hs b v0 hcore
      subst hg
      exact ⟨bids, rfl, rfl, sh.len, sh.num, sh.nuget4, sh.pre, sh.build, sh.bids⟩

end DepsDev.Proofs.C10
