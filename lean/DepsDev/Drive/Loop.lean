import DepsDev.Model.Bytes

/-! Line-protocol loop shared by the per-property drivers (DESIGN Appendix A).
A driver is `runDriver "Cxx" handle` where `handle` maps the fields after the
property id to a canonical result line. Unknown ops give `bad-op`. -/
namespace DepsDev.Drive

def fields (line : String) : List String :=
  (line.trimAscii.toString.splitOn " ").filter (· ≠ "")

partial def loop (pid : String) (handle : List String → String) (h out : IO.FS.Stream) : IO Unit := do
  let line ← h.getLine
  if line.isEmpty then return ()
  let r := match fields line with
    | p :: rest => if p == pid then handle rest else "bad-op"
    | [] => "bad-op"
  out.putStrLn r
  loop pid handle h out

def runDriver (pid : String) (handle : List String → String) : IO Unit := do
  let out ← IO.getStdout
  loop pid handle (← IO.getStdin) out
  out.flush

end DepsDev.Drive
