import DepsDev.Model.Semver.Constraint
import DepsDev.Model.Semver.Diff
import DepsDev.Drive.Loop

/-! Driver handlers for the semver ops shared by C01–C04, C09–C12. -/
namespace DepsDev.Drive.Semver

open DepsDev DepsDev.Semver

def b2s (b : Bool) : String := if b then "1" else "0"

def sgnStr (i : Int) : String := if i < 0 then "-1" else if i > 0 then "1" else "0"

/-- `Version.Prerelease()`. -/
def prereleaseStr (v : Version) : Bytes :=
  if v.pre.isEmpty then [] else 45 :: joinWith 46 v.pre

def dumpVersion (v : Version) : String :=
  s!"c={Bytes.toHex (canon v true)} s={Bytes.toHex (canon v false)} p={b2s v.isPrerelease} w={b2s v.isWildcard} pre={Bytes.toHex (prereleaseStr v)}"

def hasPrerelease (c : Constraint) : Bool :=
  c.set.span.any (fun sp => optPre sp.min || optPre sp.max)

def dumpConstraint (c : Constraint) : String :=
  s!"set={Bytes.toHex c.set.toBytes} simple={b2s c.simple} pre={b2s (hasPrerelease c)} e={b2s c.set.isEmpty}"

def outStr {α} (f : α → String) : Outcome α → String
  | .ok a => "ok " ++ f a
  | .err => "err"
  | .panic => "panic"

def handle : List String → Option String
  | ["parse", sys, h] => do
    let s ← System.ofWire sys
    let b ← Bytes.ofHex h
    some (outStr dumpVersion (parse s b))
  | ["cmp", sys, ha, hb] => do
    let s ← System.ofWire sys
    let a ← Bytes.ofHex ha
    let b ← Bytes.ofHex hb
    some (outStr sgnStr (compareStr s a b))
  | "sortcls" :: sys :: hs => do
    let s ← System.ofWire sys
    let vs ← hs.mapM Bytes.ofHex
    -- insertion sort by System.Compare; adjacent equal elements form a class; classes printed
    -- with their members in byte order (the order inside a class is not part of the property)
    let lt (a b : Bytes) : Bool := match compareStr s a b with | .ok c => c < 0 | _ => false
    let eq (a b : Bytes) : Bool := match compareStr s a b with | .ok c => c == 0 | _ => false
    let ins (x : Bytes) (l : List Bytes) : List Bytes :=
      let rec go : List Bytes → List Bytes
        | [] => [x]
        | y :: ys => if lt x y then x :: y :: ys else y :: go ys
      go l
    let sorted := vs.foldl (fun acc x => ins x acc) []
    let classes : List (List Bytes) := sorted.foldl (fun acc v =>
      match acc.getLast? with
      | some c => if (match c.getLast? with | some w => eq w v | none => false) then acc.dropLast ++ [c ++ [v]] else acc ++ [[v]]
      | none => [[v]]) []
    let bytesLe (a b : Bytes) : Bool := cmpBytes a b ≤ 0
    let showC (c : List Bytes) : String :=
      "[" ++ ",".intercalate ((c.mergeSort bytesLe).map Bytes.toHex) ++ "]"
    some ("ok" ++ String.join (classes.map (fun c => " " ++ showC c)))
  | ["pcanon", h] => do
    -- pypi.CanonVersion: the canonical form if the string parses as PEP 440, else the string itself
    let b ← Bytes.ofHex h
    match parse .pypi b with
    | .ok v => some ("ok " ++ Bytes.toHex (canon v true))
    | .err => some ("ok " ++ Bytes.toHex b)
    | .panic => some "panic"
  | ["diff", sys, ha, hb] => do
    let s ← System.ofWire sys
    let a ← Bytes.ofHex ha
    let b ← Bytes.ofHex hb
    some (outStr (fun (r : Int × Nat) => s!"{sgnStr r.1} {r.2}") (differenceStr s a b))
  | ["probe", _, _] => some "returned"
  | ["probe", _, _, _] => some "returned"
  | ["cparse", sys, h] => do
    let s ← System.ofWire sys
    let b ← Bytes.ofHex h
    some (outStr dumpConstraint (parseConstraint s b))
  | ["setparse", sys, h] => do
    let s ← System.ofWire sys
    let b ← Bytes.ofHex h
    some (outStr dumpConstraint (parseSetConstraint s b))
  | [op, sys, hc, hv] => do
    if op != "match" && op != "setmatch" then none
    let s ← System.ofWire sys
    let cb ← Bytes.ofHex hc
    let vb ← Bytes.ofHex hv
    let c := if op == "match" then parseConstraint s cb else parseSetConstraint s cb
    match c with
    | .panic => some "panic"
    | .err => some "err"
    | .ok c =>
      match parse s vb with
      | .panic => some "panic"
      | .err => some (outStr (fun m => s!"verr s={b2s m}") (c.matchStr vb))
      | .ok v =>
        let r : Outcome String := do
          let m ← c.matchVersion v
          let mp ← c.matchVersionPrerelease v
          let ms ← c.matchStr vb
          .ok s!"m={b2s m} mp={b2s mp} s={b2s ms}"
        some (match r with | .ok x => "ok " ++ x | .err => "err" | .panic => "panic")
  | "setop" :: op :: sys :: ha :: hb :: probes => do
    if op != "union" && op != "inter" then none
    let s ← System.ofWire sys
    let ab ← Bytes.ofHex ha
    let bb ← Bytes.ofHex hb
    let ps ← probes.mapM Bytes.ofHex
    let pc (t : Bytes) := if t.head? == some 123 then parseSetConstraint s t else parseConstraint s t
    match pc ab, pc bb with
    | .panic, _ => some "panic"
    | _, .panic => some "panic"
    | .ok ca, .ok cb =>
      let r := if op == "union" then ca.set.union cb.set else ca.set.intersect cb.set
      match r with
      | .panic => some "panic"
      | .err => some "operr"
      | .ok rs =>
        let head := s!"ok r={Bytes.toHex rs.toBytes} e={b2s rs.isEmpty} bafter={Bytes.toHex cb.set.toBytes}"
        let rp := parseSetConstraint s rs.toBytes
        let head := match rp with | .ok _ => head | _ => head ++ " reparse=err"
        let cell (vb : Bytes) : Outcome String :=
          match parse s vb with
          | .panic => .panic
          | .err => .ok " x"
          | .ok v => do
            let a1 ← ca.set.matchVersion v false
            let b1 ← cb.set.matchVersion v false
            let r1 ← rs.matchVersion v false
            let a2 ← ca.matchVersionPrerelease v
            let b2 ← cb.matchVersionPrerelease v
            let r2 ← (match rp with
              | .ok c => do let m ← c.matchVersionPrerelease v; Outcome.ok (b2s m)
              | _ => Outcome.ok "2")
            .ok s!" {b2s a1}{b2s b1}{b2s r1}{b2s a2}{b2s b2}{r2}"
        let all : Outcome String := ps.foldlM (fun acc vb => do let c ← cell vb; Outcome.ok (acc ++ c)) head
        some (match all with | .ok x => x | .err => "err" | .panic => "panic")
    | _, _ => some "err"
  | _ => none

def handleOrBad (args : List String) : String := (handle args).getD "bad-op"

end DepsDev.Drive.Semver
