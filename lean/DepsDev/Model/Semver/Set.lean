import DepsDev.Model.Semver.Span

/-!
# set.go — `canon`, `Union`, `Intersect`, `matchVersion`, `Empty`, `String`, `parseSet`;
# span.go `parseSpan`

`canon`'s merge loop is reproduced as the index machine it is in Go (the outer
index `i` is incremented from inside the inner loop). Go's `sort.Slice` is an
insertion sort (hence stable) for at most 12 elements, which is what the model
uses; longer span lists are outside the correspondence domain (DESIGN Appendix B).
-/
namespace DepsDev.Semver

open DepsDev Gen.SemverTables

structure VSet where
  sys : System
  span : List Span
  deriving Repr, DecidableEq, Inhabited

/-- The `less` of `canon`'s sort. -/
def spanLess (a b : Span) : Outcome Bool := do
  let c ← compareOpt a.min b.min
  if c != 0 then .ok (c < 0) else
  if a.minOpen != b.minOpen then .ok (!a.minOpen) else
  let c ← compareOpt a.max b.max
  if c != 0 then .ok (c < 0) else
  if a.maxOpen != b.maxOpen then .ok a.maxOpen else
  .ok false

/-- Insert `x` into the sorted list `l` from the right (insertion sort step:
`for j := i; j > 0 && less(data[j], data[j-1]); j-- { swap }`). -/
def insertSorted (x : Span) : List Span → Outcome (List Span)
  | [] => .ok [x]
  | l =>
    -- walk from the right end
    let rec go (pre : List Span) (suffix : List Span) : Nat → Outcome (List Span)
      | 0 => .ok (pre ++ x :: suffix)
      | fuel + 1 =>
        match pre.getLast? with
        | none => .ok (x :: suffix)
        | some y => do
          let lt ← spanLess x y
          if lt then go pre.dropLast (y :: suffix) fuel else .ok (pre ++ x :: suffix)
    go l [] (l.length + 1)

def insertionSort (l : List Span) : Outcome (List Span) :=
  l.foldlM (fun acc x => insertSorted x acc) []

def sysOfSpans (s : List Span) : System :=
  match s.findSome? (fun sp => sp.min) with
  | some v => v.sys
  | none => .default

def equalPrerelease (a b : Option Version) : Outcome Bool :=
  match a, b with
  | some x, some y => .ok (comparePre x.sys x.pre y.pre == 0)
  | none, none => .ok true          -- same (nil) pointer
  | _, _ => .panic                  -- nil dereference

inductive InnerCtl where
  | cont | brk | merge

/-- One iteration of the inner loop of `canon` for `next = s[j]` (not yet merged):
returns the updated `this` and what to do: `merge` = `merged[j] = true` and
continue, `cont` = continue without merging, `brk` = break. -/
def canonInner (this next : Span) : Outcome (Span × InnerCtl) :=
  match this.max, next.min with
  | some tmax, nmin? => do
    let lt ← (match nmin? with | some nm => vLess tmax nm | none => Outcome.ok false)
    let eqMaxMin ← (match nmin? with | some nm => vEqual tmax nm | none => Outcome.ok false)
    -- first `if / else if`
    let ctl1 : Outcome (Option InnerCtl) :=
      if lt then
        if tmax.pre.isEmpty then
          if this.maxOpen || next.minOpen then .ok (some .brk)
          else do
            let mp1 ← (tmax.fill 0).inc
            let lt2 ← (match nmin? with | some nm => vLess mp1 nm | none => Outcome.ok false)
            if lt2 then .ok (some .brk) else .ok none
        else .ok (some .cont)
      else if !eqMaxMin && !tmax.pre.isEmpty then .ok (some .cont)
      else .ok none
    match ← ctl1 with
    | some c => .ok (this, c)
    | none =>
      if this.maxOpen && next.minOpen then .ok (this, .cont) else
      let e1 ← equalPrerelease this.min this.max
      if !e1 then .ok (this, .cont) else
      let e2 ← equalPrerelease this.min next.min
      if !e2 then .ok (this, .cont) else
      let e3 ← equalPrerelease this.min next.max
      if !e3 then .ok (this, .cont) else
      -- merged[j] = true
      if next.rank == .empty then .ok (this, .merge) else
      match next.max with
      | none => .panic
      | some nmax => do
        let le ← vLessEq nmax tmax
        if le then
          let eq ← vEqual tmax nmax
          let this := if eq then { this with maxOpen := this.maxOpen && next.maxOpen } else this
          .ok (this, .merge)
        else
          .ok ({ this with rank := .vector, max := some nmax, maxOpen := next.maxOpen }, .merge)
  | none, _ => .panic

/-- The inner loop over the elements after `this`: `rest` pairs each following
element with its `merged` flag. Returns the updated `this` and the flags. -/
def canonInnerLoop (this : Span) : List (Span × Bool) → Outcome (Span × List (Span × Bool))
  | [] => .ok (this, [])
  | (next, true) :: rest => do
    let (this, rest') ← canonInnerLoop this rest
    .ok (this, (next, true) :: rest')
  | (next, false) :: rest => do
    let (this', ctl) ← canonInner this next
    match ctl with
    | .brk => .ok (this', (next, false) :: rest)
    | .cont => do
      let (t, rest') ← canonInnerLoop this' rest
      .ok (t, (next, false) :: rest')
    | .merge => do
      let (t, rest') ← canonInnerLoop this' rest
      .ok (t, (next, true) :: rest')

/-- The outer loop of `canon` over the sorted list (with `merged` flags; repair F13). -/
def canonOuter : List (Span × Bool) → Nat → Outcome (List Span × Bool)
  | _, 0 => .ok ([], true)
  | [], _ => .ok ([], true)
  | (this, m) :: rest, fuel + 1 =>
    if m then canonOuter rest fuel
    else if this.rank == .empty then canonOuter rest fuel
    else do
      let (this', rest') ← canonInnerLoop this rest
      let (out, _) ← canonOuter rest' fuel
      .ok (this' :: out, false)

def canonMerge (s : List Span) : Outcome (List Span × Bool) :=
  canonOuter (s.map (fun x => (x, false))) (s.length + 1)

/-- `canon(s)`. -/
def canonSpans (s : List Span) : Outcome (List Span) :=
  if s.length ≤ 1 then .ok s
  else if sysOfSpans s == .maven then .ok s
  else do
    let sorted ← insertionSort s
    let (out, allEmpty) ← canonMerge sorted
    if allEmpty then .ok (sorted.take 1) else .ok out

/-- `Set.Union`. -/
def VSet.union (s t : VSet) : Outcome VSet := do
  let sp ← canonSpans (s.span ++ t.span)
  .ok { s with span := sp }

/-- `Set.Intersect`. -/
def VSet.intersect (s t : VSet) : Outcome VSet := do
  let rec tloop (selem : Span) (ts : List Span) (acc : List Span) : Outcome (List Span) :=
    match ts with
    | [] => .ok acc
    | telem :: rest =>
      if telem.rank == .empty then tloop selem rest acc else
      match selem.min, selem.max, telem.min, telem.max with
      | some smin, some smax, some tmin, some tmax => do
        let c1 ← vLess tmax smin
        let c2 ← vEqual tmax smin
        if c1 || (c2 && telem.maxOpen) then tloop selem rest acc else
        let g ← vGreater tmin smax
        if g then .ok acc else       -- break
        let gmin ← vGreater tmin smin
        let emin ← vEqual tmin smin
        let (min, minOpen) := if gmin || (emin && telem.minOpen) then (tmin, telem.minOpen) else (smin, selem.minOpen)
        let lmax ← vLess tmax smax
        let emax ← vEqual tmax smax
        let (max, maxOpen) := if lmax || (emax && telem.maxOpen) then (tmax, telem.maxOpen) else (smax, selem.maxOpen)
        let sp ← newSpan min minOpen max maxOpen
        tloop selem rest (acc ++ [sp])
      | _, _, _, _ => .panic
  let out ← s.span.foldlM (fun acc selem =>
    if selem.rank == .empty then Outcome.ok acc else tloop selem t.span acc) []
  let out := if out.isEmpty then [Span.emptySpan] else out
  let sp ← canonSpans out
  .ok { s with span := sp }

def VSet.isEmpty (s : VSet) : Bool := s.span.all (fun sp => sp.rank == .empty)

def isPyPIPost (v : Version) : Bool :=
  v.sys == .pypi && (match v.ext with | .pep (some e) => e.postPresent | _ => false)
def isPyPILocal (v : Version) : Bool :=
  v.sys == .pypi && (match v.ext with | .pep (some e) => !e.loc.isEmpty | _ => false)
def isPyPIDev (v : Version) : Bool :=
  v.sys == .pypi && (match v.ext with | .pep (some e) => e.devPresent | _ => false)

def optPre (v : Option Version) : Bool := match v with | some x => x.isPrerelease | none => false
def optDev (v : Option Version) : Bool := match v with | some x => isPyPIDev x | none => false
def optPost (v : Option Version) : Bool := match v with | some x => isPyPIPost x | none => false

def numsEqual (a b : Version) : Bool := compareNums a.num b.num == 0

/-- `Set.matchVersion(v, includePrerelease)`. -/
def VSet.matchVersion (s : VSet) (v : Version) (includePre : Bool) : Outcome Bool :=
  if s.span.isEmpty then .ok v.pre.isEmpty else
  let includePre := if v.sys == .rubygems then true else includePre
  let rec go : List Span → Outcome Bool
    | [] => .ok false
    | sp :: rest =>
      -- `none` = continue; `some pre` = evaluate contains with that flag
      let decision : Option Bool :=
        let pre := includePre
        let r1 : Option Bool :=
          if v.sys == .pypi && sp.rank == .vector then
            let r : Option Bool :=
              if !pre && (v.isPrerelease || isPyPIDev v) then
                let anyPre := optPre sp.min || optPre sp.max
                let anyDev := optDev sp.min || optDev sp.max
                if !(anyPre || anyDev) then none
                else if sp.minOpen then none
                else some true
              else some pre
            match r with
            | none => none
            | some pre' =>
              if isPyPIPost v && !optPost sp.min && sp.minOpen &&
                 (match sp.min with | some m => numsEqual v m | none => false) then none
              else if isPyPILocal v then none
              else some pre'
          else some pre
        match r1 with
        | none => none
        | some pre' =>
          if v.sys == .nuget then
            if !pre' && v.isPrerelease then
              if !optPre sp.min && !optPre sp.max then none else some true
            else some pre'
          else some pre'
      match decision with
      | none => go rest
      | some pre' => do
        let c ← sp.contains v pre'
        if c then .ok true else go rest
  go s.span

/-- `Set.String()`. -/
def VSet.toBytes (s : VSet) : Bytes :=
  [123] ++ joinWith 44 (s.span.map Span.toBytes) ++ [125]

/-- `strings.Split(s, sep)` for a one-byte separator. -/
def splitOn (sep : UInt8) (s : Bytes) : List Bytes :=
  let rec go (cur : Bytes) : Bytes → List Bytes
    | [] => [cur]
    | c :: rest => if c == sep then cur :: go [] rest else go (cur ++ [c]) rest
  go [] s

/-- `System.parseSpan`: (span, simple). -/
def parseSpan (sys : System) (s : Bytes) : Outcome (Span × Bool) :=
  if s.isEmpty then .err
  else if s == "<empty>".toUTF8.toList then .ok (Span.emptySpan, false)
  else if s.head? == some 91 || s.head? == some 40 then
    let minOpen := s.head? == some 40
    let close := s.getLastD 0
    if close != 93 && close != 41 then .err else
    -- `s[1:len(s)-1]` panics when len(s) = 1 (slice bounds 1 > 0)
    if s.length < 2 then .panic else
    let vs := splitOn 58 ((s.drop 1).dropLast)
    match vs with
    | [a, b] => do
      let maxOpen := close == 41
      let min ← parseInf sys a false
      let max ← parseInf sys b true
      .ok ({ rank := .vector, minOpen := minOpen, maxOpen := maxOpen, min := some min, max := some max }, false)
    | _ => .err
  else do
    let v ← parse sys s
    .ok ({ rank := .unit, min := some v, max := some v }, !v.isWildcard)

/-- `System.parseSet`: (set, simple). -/
def parseSet (sys : System) (s : Bytes) : Outcome (VSet × Bool) :=
  if s.length < 2 || s.head? != some 123 || s.getLast? != some 125 then .err
  else if s == [123, 125] then .ok ({ sys := sys, span := [Span.emptySpan] }, false)
  else do
    let strs := splitOn 44 ((s.drop 1).dropLast)
    let (spans, weight) ← strs.foldlM (fun (acc : List Span × Nat) str => do
      let (sp, simple) ← parseSpan sys str
      Outcome.ok (acc.1 ++ [sp], acc.2 + (if simple then 1 else 2))) ([], 0)
    .ok ({ sys := sys, span := spans }, weight == 1)

end DepsDev.Semver
