import DepsDev.Model.Semver.Compare

/-! # diff.go — `System.Difference`, `Version.Difference`, `mavenDifference` -/
namespace DepsDev.Semver

open DepsDev

-- `Diff` numbers (tied to the Go constants by `Props.SemverTies.diffs_ok`)
def diffSame : Nat := 0
def diffOther : Nat := 1
def diffMajor : Nat := 2
def diffMinor : Nat := 3
def diffPatch : Nat := 4
def diffPrerelease : Nat := 5
def diffBuild : Nat := 6

/-- `mavenExtension.num(i)`. -/
def mavenNum (els : List MavenElem) (i : Nat) : Int :=
  match els[i]? with
  | none => 0
  | some e =>
    match e.str with
    | [] => -1
    | c :: _ => if c < 48 || 57 < c then -1 else e.int

/-- `Version.Difference`. -/
def difference (v u : Version) : Outcome (Int × Nat) := do
  let c ← vcompare v u
  if c == 0 && v.build == u.build then .ok (c, diffSame) else
  if v.sys == .maven then
    match v.ext, u.ext with
    | .maven ve, .maven ue =>
      if mavenNum ue 0 != mavenNum ve 0 then .ok (c, diffMajor)
      else if mavenNum ue 1 != mavenNum ve 1 then .ok (c, diffMinor)
      else if mavenNum ue 2 != mavenNum ve 2 then .ok (c, diffPatch)
      else .ok (c, diffOther)
    | _, _ => .panic         -- failed type assertion
  else if v.major != u.major then .ok (c, diffMajor)
  else if v.minor != u.minor then .ok (c, diffMinor)
  else if v.patch != u.patch then .ok (c, diffPatch)
  else if v.num.length != 3 || u.num.length != 3 then .ok (c, diffOther)
  else if comparePre u.sys u.pre v.pre != 0 then .ok (c, diffPrerelease)
  else if u.build != v.build then .ok (c, diffBuild)
  else .ok (c, diffOther)

/-- `System.Difference(a, b)`: error if either does not parse. -/
def differenceStr (sys : System) (a b : Bytes) : Outcome (Int × Nat) := do
  let av ← parse sys a
  let bv ← parse sys b
  difference av bv

end DepsDev.Semver
