import DepsDev.Model.Semver.Compare

/-!
# interval.go, span.go — `inc`, `MinVersion`, `newSpan`, `opVersionToSpan`,
# `excludeToSpans`, `span.contains`, `span.String`

Go mutates `*Version`s in place; here every function returns the new value. The
places where Go aliases two pointers (`newSpan(lo, closed, lo, closed)` in
`opVersionToSpan`, the shared bounds inside `Intersect`) only ever perform writes that
are no-ops on versions without wildcard markers and with empty build; the one place where
the aliasing is visible (`setRange`'s `[v]` with a wildcard `v`) is `newSpanAliased`.
-/
namespace DepsDev.Semver

open DepsDev Gen.SemverTables

/-- `Version.clearPre`. -/
def Version.clearPre (v : Version) : Version :=
  { v with pre := [],
           ext := match v.ext with
             | .pep (some e) => .pep (some { e with pre := [], preNum := 0 })
             | .gem _ => .gem []
             | e => e }

/-- `ext.empty()` for a non-nil extension. -/
def Ext.isEmptyExt : Ext → Bool
  | .none => true
  | .maven els => els.isEmpty
  | .pep Option.none => true
  | .pep (some e) => e == {}
  | .gem els => els.isEmpty

/-- `pep440Extension.init` re-run on an existing version (`newPEP440Extension`). -/
def pepReinit (v : Version) (input0 : Bytes) : Outcome Version := do
  let r ← pepInit v.sys input0
  -- fields of `v` that `newPEP440Extension`/`init` do not reset
  .ok { r with isPrerelease := v.isPrerelease || r.isPrerelease, build := v.build }

/-- `Version.rebuildExtension`. -/
def Version.rebuildExtension (v : Version) : Outcome Version :=
  match v.ext with
  | .none => .ok v
  | e =>
    if e.isEmptyExt then .ok v else
    let str := canon v true
    match v.sys with
    | .maven =>
      match mavenInit str with
      | .ok (els, q) => .ok { v with ext := .maven els, isPrerelease := v.isPrerelease || q }
      | .err => .err
      | .panic => .panic
    | .pypi => pepReinit v str
    | .rubygems =>
      match gemInit str with
      | .ok els => .ok { v with ext := .gem els }
      | .err => .err
      | .panic => .panic
    | _ => .ok { v with ext := .none }     -- newExtension returns nil for other systems

/-- `System.MinVersion(v)`. -/
def minVersion (sys : System) (v : Version) : Version :=
  match sys with
  | .maven => { sys := .maven, userNumCount := 1, isPrerelease := false,
                ext := .maven [{ sep := 0, str := [48], int := 0 }, { sep := 46, str := "alpha".toUTF8.toList, int := 0 }] }
  | .pypi => { sys := .pypi, userNumCount := 3, isPrerelease := false, num := [0, 0, 0],
               ext := .pep (some { devPresent := true, devNum := 0 }) }
  | .rubygems => { sys := .rubygems, userNumCount := 3, isPrerelease := false, num := [0, 0, 0],
                   ext := .gem [{ str := [97], int := 0 }] }
  | _ => { v with num := [0, 0, 0], isPrerelease := false, pre := minPre, build := [], ext := .none }

/-- `(*Version).inc` (interval.go). -/
def Version.inc (v : Version) : Outcome Version :=
  if !v.pre.isEmpty then .err else
  match v.num.length with
  | 0 => .err
  | 1 =>
    if v.major == wildcard || v.major == infinity then
      .ok (((v.setMajor infinity).setMinor infinity).setPatch infinity)
    else v.incN 0
  | 2 =>
    if v.minor == wildcard || v.minor == infinity then do
      let v ← v.incN 0
      .ok ((v.setMinor 0).setPatch 0)
    else v.incN 1
  | n =>
    match v.num.findIdx? (fun x => x == wildcard || x == infinity) with
    | none => v.incN (n - 1)
    | some 0 => .ok v
    | some w => do
      let v ← v.incN (w - 1)
      .ok { v with num := v.num.take w ++ List.replicate (v.num.length - w) 0 }

inductive Rank where
  | empty | unit | vector
  deriving Repr, DecidableEq, Inhabited

structure Span where
  rank : Rank := .empty
  minOpen : Bool := false
  maxOpen : Bool := false
  min : Option Version := none
  max : Option Version := none
  deriving Repr, DecidableEq, Inhabited

def Span.emptySpan : Span := {}

def vEqual (a b : Version) : Outcome Bool := do let c ← vcompare a b; .ok (c == 0)
def vLess (a b : Version) : Outcome Bool := do let c ← vcompare a b; .ok (c < 0)
def vLessEq (a b : Version) : Outcome Bool := do let c ← vcompare a b; .ok (c ≤ 0)
def vGreater (a b : Version) : Outcome Bool := do let c ← vcompare a b; .ok (c > 0)

/-- `newSpan`. -/
def newSpan (min : Version) (minOpen : Bool) (max : Version) (maxOpen : Bool) : Outcome Span := do
  let min := if min.major == wildcard then minVersion min.sys min else min.setTail wildcard 0
  let max := max.setTail wildcard infinity
  let min := { min with build := [] }
  let max := { max with build := [] }
  let eq ← vEqual min max
  if eq && (minOpen || maxOpen) then .ok Span.emptySpan
  else if eq then .ok { rank := .unit, minOpen := minOpen, maxOpen := maxOpen, min := some min, max := some min }
  else
    let lt ← vLess min max
    if lt then .ok { rank := .vector, minOpen := minOpen, maxOpen := maxOpen, min := some min, max := some max }
    else .err

/-- `newSpan(min, false, min, false)` called with ONE pointer for both bounds (setRange's
hard requirement `[v]`): the write through `min` (`setTail(wildcard, 0)`) is visible through
`max`, so the upper bound never sees the wildcard (`[2.0.12.*]` is the single point
`2.0.12.0`). When `min` is a bare `*`, `min` is re-bound to a fresh `MinVersion` and `max`
keeps the original, as with two pointers. -/
def newSpanAliased (v : Version) : Outcome Span :=
  if v.major == wildcard then newSpan v false v false
  else newSpan (v.setTail wildcard 0) false (v.setTail wildcard 0) false

def setInfAll (v : Version) : Version := { v with num := v.num.map (fun _ => infinity) }

/-- `opVersionToSpan(typ, op, lo)`. -/
def opVersionToSpan (typ : Nat) (lo : Version) : Outcome Span := do
  let lo := if lo.isWildcard && lo.sys != .nuget then lo.clearPre else lo
  if lo.sys != .cargo && lo.num.length < 3 && !lo.pre.isEmpty then .err else
  if (typ == tokEmpty || typ == tokEqual) && lo.num.length ≥ 3 && lo.allNumbers then
    newSpan lo false lo false
  else
  let hi := lo
  let fin (lo hi : Version) (minOpen maxOpen : Bool) : Outcome Span := do
    let lo := lo.setTail infinity infinity
    let hi := hi.setTail infinity infinity
    if lo.sys == .maven || lo.sys == .rubygems || lo.sys == .pypi then
      let lo ← lo.rebuildExtension
      let hi ← hi.rebuildExtension
      newSpan lo minOpen hi maxOpen
    else newSpan lo minOpen hi maxOpen
  -- the body of `case tokGreaterEqual` (also reached by fallthrough from tokGreater)
  let geBody (lo hi : Version) (minOpen : Bool) : Outcome Span := do
    let (lo, wc) : Version × Bool :=
      if lo.sys == .nuget && !lo.pre.isEmpty then
        match lo.pre.getLast? with
        | some p =>
          let (p, wc) := if p.getLast? == some 42 then (p.dropLast, true) else (p, false)
          let p := if p.isEmpty then [48] else p
          ({ lo with pre := lo.pre.dropLast ++ [p] }, wc)
        | none => (lo, false)
      else (lo, false)
    let hi := (setInfAll hi).clearPre
    if lo.sys == .nuget && (lo.isWildcard || wc) then newSpan lo false hi true
    else fin lo { hi with build := [] } minOpen false
  if typ == tokEmpty || typ == tokEqual then
    let hi := match lo.num.length with
      | 1 => (hi.setMinor infinity).setPatch infinity
      | 2 => hi.setPatch infinity
      | _ => hi
    newSpan lo false hi false
  else if typ == tokGreater then
    if lo.allEq wildcard then .ok Span.emptySpan else
    if !lo.pre.isEmpty || lo.sys == .rubygems || lo.sys == .pypi then
      geBody { lo with build := [] } hi true
    else do
      let lo ← lo.inc
      geBody { lo with build := [] } hi false
  else if typ == tokGreaterEqual then geBody lo hi false
  else if typ == tokLess then
    if lo.allEq wildcard || lo.allEq 0 then .ok Span.emptySpan else
    let hi := { hi with num := hi.num.map (fun x => if x == wildcard then 0 else x), build := [] }
    fin (minVersion lo.sys lo) hi false true
  else if typ == tokLessEqual then
    let hi := match lo.num.length with
      | 1 => (hi.setMinor infinity).setPatch infinity
      | 2 => hi.setPatch infinity
      | _ => hi
    fin (minVersion lo.sys lo) hi false false
  else if typ == tokCaret then
    if lo.num.length == 2 && lo.major == 0 && lo.minor == 0 then
      newSpan lo false (hi.setPatch infinity).clearPre false
    else if lo.major == 0 && lo.num.length ≥ 2 then
      let hi := if lo.minor != 0 then hi.setPatch infinity else hi
      newSpan lo false hi.clearPre false
    else if lo.major == wildcard then
      let hi := (((hi.setMajor infinity).setMinor infinity).setPatch infinity).clearPre
      newSpan (minVersion lo.sys lo) false hi false
    else
      newSpan lo false ((hi.setMinor infinity).setPatch infinity).clearPre false
  else if typ == tokTilde then
    let hi :=
      if lo.major == 0 && lo.num.length ≥ 2 then hi.setPatch infinity
      else match lo.num.length with
        | 1 => (hi.setMinor infinity).setPatch infinity
        | 2 => hi.setPatch infinity
        | 3 => hi.setPatch infinity
        | _ => hi
    fin lo hi false false
  else if typ == tokBacon then
    let n : Int := if lo.sys == .rubygems || lo.sys == .pypi then lo.userNumCount else lo.num.length
    if n == 0 then .err
    else if n == 1 then
      if lo.sys == .pypi then .err else fin lo ((hi.setMinor infinity).setPatch infinity) false false
    else if n == 2 then
      if lo.major != infinity then newSpan lo false ((hi.setMinor infinity).setPatch infinity) false
      else fin lo ((hi.setMinor infinity).setPatch infinity) false false
    else if n == 3 then fin lo (hi.setPatch infinity) false false
    else
      -- `hi.setNum(len(hi.num)-1, infinity)`; with len = 0 the index is -1: panics
      if hi.num.isEmpty then .panic else fin lo (hi.setNum (hi.num.length - 1) infinity) false false
  else .err

/-- `excludeToSpans(v)` (for `!=`). -/
def excludeToSpans (v : Version) : Outcome (Span × Span) := do
  if v.num.isEmpty then .err else
  if (v.num.dropLast).any (fun x => x == wildcard || x == infinity) then .err else
  let last := v.num.getLastD 0
  if last == infinity then .err else
  let (lo, hi) ← (
    if last == wildcard then do
      let opp ← opVersionToSpan tokEmpty v
      match opp.min, opp.max with
      | some a, some b => Outcome.ok (a, b)
      | _, _ => Outcome.panic        -- nil bound of an empty span dereferenced by newSpan
    else Outcome.ok (v, v))
  let zero : Version := { sys := v.sys, num := [0, 0, 0] }
  let inf : Version := { sys := v.sys, num := [infinity, infinity, infinity] }
  let s1 ← newSpan zero false lo true
  let s2 ← newSpan hi true inf false
  .ok (s1, s2)

def equalValues (a b : List Value) : Bool := a == b

/-- `span.contains(v, includePrerelease)`. -/
def Span.contains (s : Span) (v : Version) (includePre : Bool) : Outcome Bool :=
  match s.rank with
  | .empty => .ok false
  | .unit => do let c ← compareOpt s.min (some v); .ok (c == 0)
  | .vector =>
    match s.min, s.max with
    | some min, some max => do
      let c ← vcompare v min
      if (c == 0 && s.minOpen) || c < 0 then .ok false else
      let c ← vcompare max v
      if (c == 0 && s.maxOpen) || c < 0 then .ok false else
      if includePre then .ok true else
      if v.sys != .maven && v.isPrerelease then
        let le ← vLessEq min v
        if min.isPrerelease && equalValues v.num min.num && le then .ok true
        else if max.isPrerelease && equalValues v.num max.num then .ok true
        else .ok false
      else .ok true
    | _, _ => .panic

/-- `span.String()`. -/
def Span.toBytes (s : Span) : Bytes :=
  match s.rank, s.min, s.max with
  | .empty, _, _ => "<empty>".toUTF8.toList
  | .unit, some m, _ => canon m false
  | .vector, some a, some b =>
    [if s.minOpen then 40 else 91] ++ canon a false ++ [58] ++ canon b false ++ [if s.maxOpen then 41 else 93]
  | _, _, _ => "<nil>".toUTF8.toList

end DepsDev.Semver
