import DepsDev.Model.Semver.Token

/-!
# version.go — `System.Parse`, `System.parse`, `versionParser`
# maven.go / pep440.go / rubygems.go / extension.go — the extension parsers

Follows the Go control flow, including the order in which errors are recorded and
the places where a Go index expression could panic. Scanning loops that consume
input take fuel = remaining length + 1 (each iteration consumes at least a byte).
-/
namespace DepsDev.Semver

open DepsDev Gen.SemverTables

/-! ## extension.go -/

/-- `versionNext(s, i)` on the remaining input: (category, width). -/
def versionNext (s : Bytes) : Int × Nat :=
  match s with
  | [] => (versionEOF, 0)
  | c :: _ =>
    let (r, _) := Bytes.decodeRune s
    if r == 0x221E then (versionNumeric, 3)
    else if isDigitB c then (versionNumeric, 1)
    else if 97 ≤ c && c ≤ 122 then (versionQualifier, 1)
    else if 65 ≤ c && c ≤ 90 then (versionQualifier, 1)
    else if c == 95 then (versionQualifier, 1)
    else if c == 46 || c == 45 then (versionSeparator, 1)
    else if c == 42 then (versionStar, 1)
    else (versionUnknown, 1)

def versionCategory (s : Bytes) : Int := (versionNext s).1

/-- `nextVersionElemPos(s)`: number of bytes of the next element. -/
def nextVersionElemPos (s : Bytes) : Nat :=
  let i0 := if versionCategory s == versionSeparator then 1 else 0
  let prev0 := (versionNext (s.drop i0)).1
  go s i0 prev0 (s.length + 1)
where
  go (s : Bytes) (i : Nat) (prev : Int) : Nat → Nat
    | 0 => s.length
    | fuel + 1 =>
      if i < s.length then
        let (cat, wid) := versionNext (s.drop i)
        if cat == versionSeparator then i
        else if cat == versionUnknown || cat == versionStar then (if i == 0 then i + 1 else i)
        else if (cat == versionNumeric || cat == versionQualifier) && cat != prev then i
        else go s (i + wid) (if cat == versionNumeric || cat == versionQualifier then cat else prev) fuel
      else s.length

/-! ## maven.go -/

/-- `mavenCategory(s)`: (category, width of first rune). -/
def mavenCategory (s : Bytes) : Int × Nat :=
  match s with
  | [] => (versionEOF, 0)
  | c :: _ =>
    let (r, w) := Bytes.decodeRune s
    if r == 0x221E then (versionNumeric, w)
    else if isDigitB c then (versionNumeric, w)
    else if c == 46 || c == 45 then (versionSeparator, w)
    else (versionQualifier, w)

/-- `nextMavenElem(s)`: (element incl. its leading separator, rest). -/
def nextMavenElem (s : Bytes) : Bytes × Bytes :=
  if s.length ≤ 1 then (s, []) else
  let prev0 := (mavenCategory s).1
  let (i0, prev) := if prev0 == versionSeparator then (1, (mavenCategory (s.drop 1)).1) else (0, prev0)
  go s i0 prev (s.length + 1)
where
  go (s : Bytes) (i : Nat) (prev : Int) : Nat → Bytes × Bytes
    | 0 => (s, [])
    | fuel + 1 =>
      if i < s.length then
        let (cat, w) := mavenCategory (s.drop i)
        if cat != prev || cat == versionSeparator then (s.take i, s.drop i)
        else go s (i + w) prev fuel
      else (s, [])

def mavenOrder (s : Bytes) : Int :=
  match mavenQualifierOrder.find? (fun p => p.1 == s) with
  | some (_, o) => o
  | none => 0

def isEmptyMavenElem (s : Bytes) : Bool := s == [48] || mavenOrder s == mavenEmptyQualifier

/-- First loop of `mavenExtension.init`: split into elements, fix separators,
expand a/b/m before a number. -/
def mavenSplit (input : Bytes) : List MavenElem :=
  go input [] true versionUnknown (input.length + 1)
where
  go (s : Bytes) (acc : List MavenElem) (first : Bool) (prevCat : Int) : Nat → List MavenElem
    | 0 => acc
    | fuel + 1 =>
      if s.isEmpty then acc else
      let (str0, rest) := nextMavenElem s
      let cat0 := (mavenCategory str0).1
      -- cat0 is never versionUnknown: mavenCategory does not produce it.
      if cat0 == versionSeparator then
        let sep := str0.headD 0
        let str1 := str0.drop 1
        let str := if str1.isEmpty then [48] else str1
        let cat := (mavenCategory str).1
        go rest (acc ++ [{ sep := sep, str := str, int := 0 }]) false cat fuel
      else if !first then
        let isNumAfterQual := cat0 == versionNumeric && prevCat == versionQualifier
        let sep : UInt8 := if cat0 == versionNumeric && prevCat == versionNumeric then 46 else 45
        let acc' :=
          if isNumAfterQual then
            match acc.getLast? with
            | some e =>
              let s' := if e.str == [97] then "alpha".toUTF8.toList
                        else if e.str == [98] then "beta".toUTF8.toList
                        else if e.str == [109] then "milestone".toUTF8.toList else e.str
              acc.dropLast ++ [{ e with str := s' }]
            | none => acc
          else acc
        go rest (acc' ++ [{ sep := sep, str := str0, int := 0 }]) false cat0 fuel
      else
        go rest (acc ++ [{ sep := 0, str := str0, int := 0 }]) false cat0 fuel

/-- The trimming loop of `mavenExtension.init`, on an index machine exactly as in Go:
```
for i := 1; i < len(elements); i++ {
  if i < len(elements)-1 && elements[i+1].sep != '-' { continue }
  for i > 0 && isEmptyMavenElem(elements[i].str) { delete element i; i-- }
}
```
Note: after deleting the last element, `elements[i]` with `i = len` would be out of
range in Go; the inner condition is evaluated with the new `i` (decremented), which is
always `< len`. -/
def mavenTrim (els : List MavenElem) : List MavenElem :=
  outer els 1 (els.length * els.length + els.length + 2)
where
  inner (els : List MavenElem) (i : Nat) : Nat → List MavenElem × Nat
    | 0 => (els, i)
    | fuel + 1 =>
      match els[i]? with
      | some e =>
        if i > 0 && isEmptyMavenElem e.str then inner (els.eraseIdx i) (i - 1) fuel else (els, i)
      | none => (els, i)
  outer (els : List MavenElem) (i : Nat) : Nat → List MavenElem
    | 0 => els
    | fuel + 1 =>
      if i < els.length then
        let skip := i < els.length - 1 && (match els[i + 1]? with | some e => e.sep != 45 | none => false)
        if skip then outer els (i + 1) fuel
        else
          let (els', i') := inner els i (els.length + 1)
          outer els' (i' + 1) fuel
      else els

/-- `mavenExtension.init`: returns the elements and whether some element is a qualifier
(sets `isPrerelease`). ASCII(+'∞') inputs only: `strings.ToLower` is modelled for ASCII. -/
def mavenInit (input : Bytes) : Outcome (List MavenElem × Bool) :=
  let els := mavenTrim (mavenSplit (Bytes.toLowerAscii input))
  let rec fillInts : List MavenElem → Outcome (List MavenElem × Bool)
    | [] => .ok ([], false)
    | e :: rest =>
      if (mavenCategory e.str).1 == versionNumeric then
        if e.str == [0xE2, 0x88, 0x9E] then do
          let (r, q) ← fillInts rest
          .ok ({ e with int := infinity } :: r, q)
        else
          match parseNum e.str with
          | none => .err
          | some v => do
            let (r, q) ← fillInts rest
            .ok ({ e with int := v } :: r, q)
      else do
        let (r, _) ← fillInts rest
        .ok (e :: r, true)
  fillInts els

/-! ## rubygems.go -/

def gemSplit (s : Bytes) : Outcome (List GemElem) :=
  go s [] (s.length + 1)
where
  go (s : Bytes) (acc : List GemElem) : Nat → Outcome (List GemElem)
    | 0 => .ok acc
    | fuel + 1 =>
      match s with
      | [] => .ok acc
      | c :: _ =>
        let (str0, i) := if c == 45 then ("pre".toUTF8.toList, 1) else (s.take (nextVersionElemPos s), nextVersionElemPos s)
        let cat := versionCategory str0
        if cat == versionUnknown then .err else
        let str1 := if cat == versionSeparator then str0.drop 1 else str0
        let str := if str1.isEmpty then [48] else str1
        go (s.drop i) (acc ++ [{ str := str, int := 0 }]) fuel

/-- Trim trailing "0" elements (after repair F9: stops at the first non-zero from the right). -/
def gemTrim (els : List GemElem) : List GemElem :=
  (els.reverse.dropWhile (fun e => e.str == [48])).reverse

/-- `gemExtension.init` (ASCII input: `strings.ToLower`). -/
def gemInit (input : Bytes) : Outcome (List GemElem) :=
  let input := Bytes.toLowerAscii input
  let pre := input.dropWhile (fun c => !(c == 45 || (97 ≤ c && c ≤ 122)))
  if pre.isEmpty then .ok [] else do
  let els ← gemSplit pre
  let els := gemTrim els
  let rec fillInts : List GemElem → Outcome (List GemElem)
    | [] => .ok []
    | e :: rest =>
      if versionCategory e.str == versionNumeric then
        if e.str == [0xE2, 0x88, 0x9E] then do
          let r ← fillInts rest
          .ok ({ e with int := infinity } :: r)
        else
          match parseNum e.str with
          | none => .err
          | some v => do
            let r ← fillInts rest
            .ok ({ e with int := v } :: r)
      else do
        let r ← fillInts rest
        .ok (e :: r)
  fillInts els

/-! ## pep440.go -/

def allowSeparator (s : Bytes) : Bytes :=
  match s with
  | c :: r => if c == 46 || c == 45 || c == 95 then r else s
  | [] => s

/-- `hasASCIIPrefix(str, pat)`: case-insensitive by `|0x20`. -/
def hasASCIIPrefix : Bytes → Bytes → Bool
  | _, [] => true
  | [], _ :: _ => false
  | a :: as, p :: ps => (a ||| 0x20) == p && hasASCIIPrefix as ps

/-- Length of the maximal prefix of numeric category (digits and '∞'). -/
def numericPrefixLen (s : Bytes) : Nat :=
  go s (s.length + 1)
where
  go (s : Bytes) : Nat → Nat
    | 0 => 0
    | fuel + 1 =>
      let (cat, wid) := versionNext s
      if cat == versionNumeric then wid + go (s.drop wid) fuel else 0

/-- `pep440Extension.number`: (value as Go `int`, rest). -/
def pepNumber (input : Bytes) : Int × Bytes :=
  let input := allowSeparator input
  let n := numericPrefixLen input
  if n == 0 then (0, input)
  else (wrapInt64 (parseUint63Lossy (input.take n)), input.drop n)

structure PepState where
  v : Version
  ext : Option Pep440
  deriving Repr

def PepState.mk' (p : PepState) : Pep440 := p.ext.getD {}

def pepParsePre (p : PepState) (original : Bytes) : PepState × Bytes :=
  if original.isEmpty then (p, original) else
  let input := allowSeparator original
  match pep440PreStrings.find? (fun s => hasASCIIPrefix input s.1) with
  | none => (p, original)
  | some (text, canon) =>
    let (n, rest) := pepNumber (input.drop text.length)
    let e := { p.mk' with pre := canon, preNum := n }
    ({ v := { p.v with pre := [canon, intToBytes n], isPrerelease := true }, ext := some e }, rest)

def pepParsePost (p : PepState) (original : Bytes) : PepState × Bytes :=
  if original.isEmpty then (p, original) else
  let dash := original.head? == some 45
  let input := allowSeparator original
  let length := match pep440PostStrings.find? (fun pat => hasASCIIPrefix input pat) with
    | some pat => pat.length
    | none => 0
  if length == 0 && (input.isEmpty || !dash || !(match input.head? with | some c => isDigitB c | none => false)) then
    (p, original)
  else
    let (n, rest) := pepNumber (input.drop length)
    ({ p with ext := some { p.mk' with postPresent := true, postNum := n } }, rest)

def pepParseDev (p : PepState) (original : Bytes) : PepState × Bytes :=
  if original.isEmpty then (p, original) else
  let input := allowSeparator original
  if !hasASCIIPrefix input "dev".toUTF8.toList then (p, original) else
  let (n, rest) := pepNumber (input.drop 3)
  ({ p with ext := some { p.mk' with devPresent := true, devNum := n } }, rest)

def pepParseLocal (p : PepState) (input : Bytes) : Outcome (PepState × Bytes) :=
  match input with
  | 43 :: body@(_ :: _) =>
    if !body.all (fun c => c == 46 || c == 45 || c == 95 || isAlnumB c) then .err
    else if !(isAlnumB (body.headD 0)) || !(isAlnumB (body.getLastD 0)) then .err
    else
      let str := body.map (fun c => if c == 45 || c == 95 then 46 else c)
      .ok ({ p with ext := some { p.mk' with loc := str } }, [])
  | _ => .ok (p, input)

/-- The release-number loop of `pep440Extension.init`. Returns the state and the
remaining input (`input[i:]`). -/
def pepNums (p : PepState) (input : Bytes) : Outcome (PepState × Bytes) :=
  go p input (input.length + 1)
where
  go (p : PepState) (s : Bytes) : Nat → Outcome (PepState × Bytes)
    | 0 => .ok (p, s)
    | fuel + 1 =>
      if s.isEmpty then .ok (p, s) else
      let n := numericPrefixLen s
      -- a '*' is accepted as a component when it is the first character of the component
      let (tok, rest) :=
        if n == 0 && s.head? == some 42 then (s.take 1, s.drop 1) else (s.take n, s.drop n)
      if tok.isEmpty then .ok (p, s) else do
      let p ← (
        if tok == [0xE2, 0x88, 0x9E] then Outcome.ok { p with v := p.v.addNum infinity }
        else if tok == [42] then
          if p.v.num.isEmpty then Outcome.err else Outcome.ok { p with v := p.v.addNum wildcard }
        else match parseNum tok with
          | none => Outcome.err
          | some x => Outcome.ok { p with v := p.v.addNum x })
      match rest with
      | [] => .ok (p, rest)
      | c :: rest' =>
        if c != 46 then .ok (p, rest)
        else if rest'.isEmpty then .err     -- trailing period
        else go p rest' fuel

/-- `pep440Extension.init` on a fresh version (num empty): the version fields and the
`pep440` details. -/
def pepInitCore (sys : System) (input0 : Bytes) : Outcome (Version × Option Pep440) := do
  let input := Bytes.trimSpace input0
  -- every rune must be in (' ', 0x7F) or be '∞'
  if !((Bytes.runes input).all (fun r => (r.1 > 0x20 && r.1 < 0x7F) || r.1 == 0x221E)) then .err else
  let v0 : Version := { sys := sys }
  -- epoch
  let bang := input.findIdx? (· == 33)
  let (p0, input) ← (match bang with
    | some b =>
      if b > 0 then
        let e := input.take b
        -- strconv.ParseUint(e, 10, 8)
        if e.isEmpty || !e.all isDigitB || digitsVal e > 255 then (Outcome.err : Outcome (PepState × Bytes))
        else .ok ({ v := v0, ext := some { epoch := digitsVal e } }, input.drop (b + 1))
      else .ok ({ v := v0, ext := none }, input)
    | none => .ok ({ v := v0, ext := none }, input))
  let input := match input with
    | c :: r => if c == 118 || c == 86 then r else input
    | [] => input
  let (p, rest) ← pepNums p0 input
  if p.v.num.isEmpty then .err else
  let userN := p.v.num.length
  let padded := if p.v.num.getLastD 0 != wildcard && p.v.num.length < 3
    then p.v.num ++ List.replicate (3 - p.v.num.length) 0 else p.v.num
  let p := { p with v := { p.v with num := padded, userNumCount := userN } }
  let (p, rest) := pepParsePre p rest
  let (p, rest) := pepParsePost p rest
  let (p, rest) := pepParseDev p rest
  let (p, rest) ← pepParseLocal p rest
  if !rest.isEmpty then .err else
  .ok (p.v, p.ext)

/-- `System.parse` for PyPI: `sys` is set when the Version is created and the extension
is a `*pep440Extension`; restating both makes the shape of the result evident
(`Props.C01.parse_wf`). -/
def pepInit (sys : System) (input0 : Bytes) : Outcome Version :=
  match pepInitCore sys input0 with
  | .ok (v, e) => .ok { v with sys := sys, ext := .pep e }
  | .err => .err
  | .panic => .panic

/-! ## version.go: the generic parser -/

structure PS where
  v : Version
  lex : Lex
  deriving Repr

namespace PS
def setErr (p : PS) : PS := { p with lex := p.lex.setErr }

/-- `for accept() {}` with `accept = next matching pred, else back`. -/
def scanWhile (pred : Rune → Bool) (l : Lex) : Lex :=
  go l (l.rest.length + 1)
where
  go (l : Lex) : Nat → Lex
    | 0 => l
    | fuel + 1 =>
      let (r, l') := l.next
      if pred r then go l' fuel else l'.back

/-- NuGet's `accept` in `elem`: alphanumerics/hyphen, plus one '*'. -/
def scanNuGetElem (l : Lex) : Lex :=
  go l false (l.rest.length + 1)
where
  go (l : Lex) (seen : Bool) : Nat → Lex
    | 0 => l
    | fuel + 1 =>
      let (r, l1) := l.next
      if isAlnumHyphenRune r then go l1 seen fuel
      else
        -- alphanumericOrHyphen backed up; then `p.lex.next() == '*'`
        let (r2, l2) := l1.back.next
        if r2 == 42 && !seen then go l2 true fuel else l2.back

/-- `versionParser.addNum`. -/
def addNum (p : PS) (x : Value) : Bool × PS :=
  let p := if p.v.num.length == 3 && !p.v.sys.allowsManyNumbers then p.setErr else p
  if p.v.sys == .nuget && p.v.num.length == 4 then (false, p.setErr)
  else
    let p := if x > infinity then p.setErr else p
    (true, { p with v := p.v.addNum x })

/-- `versionParser.number`. -/
def number (p : PS) : Bool × PS :=
  let start := p.lex.rest
  let (infHere, p) :=
    if p.lex.allowInf then
      let (r, l) := p.lex.peek
      (r == runeInf, { p with lex := l })
    else (false, p)
  if infHere then
    let (_, l) := p.lex.next
    addNum { p with lex := l } infinity
  else
    let l := scanWhile (fun r => 48 ≤ r && r ≤ 57) p.lex
    let p := { p with lex := l }
    let consumed := start.length - l.rest.length
    if consumed == 0 then
      match start with
      | c :: _ =>
        if p.v.sys.validWildcard c.toNat then
          let p := if p.v.sys == .nuget && p.v.isWildcard then p.setErr else p
          addNum { p with lex := p.lex.skip1 } wildcard
        else (false, p)
      | [] => (false, p)
    else
      let digits := start.take consumed
      if consumed > 1 && digits.head? == some 48 && !p.v.sys.allowsLeadingZero then (false, p.setErr)
      else
        match parseNum digits with
        | none => (false, p.setErr)
        | some x =>
          let p := if p.v.sys == .nuget && p.v.isWildcard then p.setErr else p
          addNum p x

/-- `versionParser.elem`. -/
def elem (p : PS) : Option Bytes × PS :=
  let start := p.lex.rest
  let l := if p.v.sys == .nuget then scanNuGetElem p.lex else scanWhile isAlnumHyphenRune p.lex
  let consumed := start.length - l.rest.length
  if consumed == 0 then
    let (r, l') := l.peek
    let l' := if r == 46 then l'.setErr else l'
    (none, { p with lex := l' })
  else (some (start.take consumed), { p with lex := l })

/-- `versionParser.metadata`: (elements, stopping rune, state). The Go function
appends to `*sp` when `sp != nil`; the caller decides. -/
def metadata (p : PS) : List Bytes × Rune × PS :=
  go p [] 0 (p.lex.rest.length + 1)
where
  go (p : PS) (acc : List Bytes) (r : Rune) : Nat → List Bytes × Rune × PS
    | 0 => (acc, r, p)
    | fuel + 1 =>
      match elem p with
      | (none, p') => (acc, r, if acc.isEmpty then p'.setErr else p')
      | (some e, p') =>
        let (r', l) := p'.lex.next
        let p'' := { p' with lex := l }
        if r' == 46 then go p'' (acc ++ [e]) r' fuel else (acc ++ [e], r', p'')
end PS

namespace PS

/-- NPM: `for p.lex.peek() == 'v' { p.lex.next() }`. -/
def stripV (l : Lex) : Nat → Lex
  | 0 => l
  | fuel + 1 =>
    let (r, l') := l.peek
    if r == 118 then stripV (l'.next).2 fuel else l'

/-- Stage 0 of `versionParser.version`: the leading `v`s. -/
def gLead (sys : System) (str : Bytes) (allowInf : Bool) : PS :=
  let p : PS := { v := { sys := sys }, lex := { rest := str, prev := str, allowInf := allowInf } }
  match sys with
  | .npm => { p with lex := stripV p.lex (str.length + 1) }
  | .go =>
    let (r, l) := p.lex.next
    { p with lex := if r != 118 then l.setErr else l }
  | .composer =>
    let (r1, l1) := p.lex.peek
    if r1 == 118 then { p with lex := (l1.next).2 }
    else
      let (r2, l2) := l1.peek
      if r2 == 86 then { p with lex := (l2.next).2 } else { p with lex := l2 }
  | _ => p

/-- `for i := 0; r == '.' && p.number(); i++ { r = p.lex.next() }`. -/
def gNums (p : PS) (r : Rune) : Nat → PS × Rune
  | 0 => (p, r)
  | fuel + 1 =>
    if r == 46 then
      let (okN, p') := number p
      if okN then
        let (r', l') := p'.lex.next
        gNums { p' with lex := l' } r' fuel
      else (p', r)
    else (p, r)

/-- Stage 1: the numbers. `none` = `return nil, p.lex.err`. -/
def gHead (sys : System) (str : Bytes) (allowInf : Bool) : Option (PS × Rune) :=
  let (okNum, p) := number (gLead sys str allowInf)
  if !okNum then none else
  let (r, l) := p.lex.next
  let (p, r) := gNums { p with lex := l } r (str.length + 1)
  let p := if sys == .nuget && p.v.num.length == 4 && p.v.getNum 3 == 0
    then { p with v := { p.v with num := p.v.num.take 3 } } else p
  if r == 46 && p.v.num.length < 3 && sys != .rubygems then none else
  if sys == .rubygems && isAlnumRune r then some ({ p with lex := p.lex.back }, (45 : Rune)) else some (p, r)

/-- Stage 2: the prerelease part. -/
def gPre (sys : System) (p : PS) (r : Rune) : Outcome (PS × Rune) :=
  if r == 45 then
    if sys == .go && p.v.num.length < 3 then .err else
    let (pre, r', p') := metadata { p with v := { p.v with isPrerelease := true } }
    .ok ({ p' with v := { p'.v with pre := p'.v.pre ++ pre } }, r')
  else if r == 42 && sys == .nuget then
    let (r1, l1) := p.lex.next
    let p := { p with lex := l1 }
    if r1 != eof then
      let (pre, r', p') := metadata { p with v := { p.v with isPrerelease := true } }
      let p' := { p' with v := { p'.v with pre := p'.v.pre ++ pre } }
      match p'.v.pre.getLast? with
      | none => .err                       -- repair F12: metadata recorded the error
      | some l =>
        match l.getLast? with
        | none => .panic                   -- l[len(l)-1] on an empty element (unreachable: elements are non-empty)
        | some c => if c != 42 then .err else .ok (p', r')
    else .ok (p, r1)
  else if sys == .rubygems && r == 46 then
    let (pre, r', p') := metadata { p with v := { p.v with isPrerelease := true } }
    .ok ({ p' with v := { p'.v with pre := p'.v.pre ++ pre } }, r')
  else .ok (p, r)

/-- Stage 3: the build part. -/
def gBuild (sys : System) (p : PS) (r : Rune) : Outcome (PS × Rune) :=
  if r == 43 && sys != .rubygems then
    if sys == .go && p.v.num.length < 3 then .err else
    let startRest := p.lex.rest    -- position after '+'
    let (_, r', p') := metadata p
    let consumed := startRest.length - p'.lex.rest.length
    .ok ({ p' with v := { p'.v with build := 43 :: startRest.take consumed } }, r')
  else .ok (p, r)

/-- Stage 4: trailing text, `userNumCount`, zero padding, the recorded error. -/
def gFinish (sys : System) (p : PS) (r : Rune) : Outcome Version :=
  let p := if r != eof then p.setErr else p
  let v := { p.v with userNumCount := p.v.num.length }
  let v := if (sys == .rubygems || sys == .nuget) && v.num.length < 3
    then { v with num := v.num ++ List.replicate (3 - v.num.length) 0 } else v
  if p.lex.err then .err else .ok v

end PS

/-- `versionParser.version` for systems other than Maven and PyPI, up to (not including)
the final `gemVersion` call: the four stages in sequence. -/
def parseGenericCore (sys : System) (str : Bytes) (allowInf : Bool) : Outcome Version :=
  match PS.gHead sys str allowInf with
  | none => .err
  | some (p, r) =>
    match PS.gPre sys p r with
    | .err => .err
    | .panic => .panic
    | .ok (p, r) =>
      match PS.gBuild sys p r with
      | .err => .err
      | .panic => .panic
      | .ok (p, r) => PS.gFinish sys p r

/-- `versionParser.version` for systems other than Maven and PyPI. `sys` is set when the
Version is created and `ext` stays nil except for RubyGems (`gemVersion`); restating
both makes the shape of the result evident (`Props.C01.parse_wf`). -/
def parseGeneric (sys : System) (str : Bytes) (allowInf : Bool) : Outcome Version :=
  match parseGenericCore sys str allowInf with
  | .err => .err
  | .panic => .panic
  | .ok v =>
    if sys == .rubygems then
      match gemInit str with
      | .ok els => .ok { v with sys := sys, ext := .gem els }
      | .err => .err
      | .panic => .panic
    else .ok { v with sys := sys, ext := Ext.none }

/-- `System.parse(str, allowInfinity)`. -/
def parseInf (sys : System) (str : Bytes) (allowInf : Bool) : Outcome Version :=
  if allowInf && str == [0xE2, 0x88, 0x9E, 46, 0xE2, 0x88, 0x9E, 46, 0xE2, 0x88, 0x9E] then
    .ok { sys := sys, num := [infinity, infinity, infinity] }
  else match sys with
  | .maven =>
    match mavenInit str with
    | .ok (els, q) => .ok { sys := sys, isPrerelease := q, ext := .maven els }
    | .err => .err
    | .panic => .panic
  | .pypi => pepInit sys str
  | _ => parseGeneric sys str allowInf

/-- `System.possibleVersionString`. -/
def possibleVersionString (sys : System) (str : Bytes) : Bool :=
  if sys == .maven then true else
  let str? : Option Bytes :=
    match sys with
    | .npm => some (str.dropWhile (· == 118))
    | .pypi | .composer =>
      (match str with
       | c :: r => if c == 118 || c == 86 then some r else some str
       | [] => some str)
    | .go => (match str with | 118 :: r => some r | _ => none)
    | _ => some str
  match str? with
  | none => false
  | some s =>
    if s.isEmpty then false else
    let s := s.take 3
    -- `for i, c := range str`: runes of the first three BYTES
    let rec go (rs : List (Nat × Bytes)) (i : Nat) : Bool :=
      match rs with
      | [] => true
      | (c, bs) :: rest =>
        if c == 46 || c == 45 || c == 43 then i != 0
        else if (48 ≤ c && c ≤ 57) || c == 42 || c == 120 || c == 88 then go rest (i + bs.length)
        else if c == 33 || c == 95 then (if sys != .pypi then false else go rest (i + bs.length))
        else if sys == .pypi && i > 0 && c < 0x80 && lettersInPyPI.contains c.toUInt8 then go rest (i + bs.length)
        else false
    go (Bytes.runes s) 0

/-- `System.Parse`. -/
def parse (sys : System) (str : Bytes) : Outcome Version :=
  if !possibleVersionString sys str then .err else parseInf sys str false

end DepsDev.Semver
