import DepsDev.Model.Semver.Parse

/-!
# version.go `compare`, `comparePrerelease`, `compareElem`, `compareNugetPrerelease`;
# the three extension comparators; `Version.Canon` and the extension printers.

`compare` returns the Go `int` result (sign matters; Maven may return ±1 from a
separator difference).
-/
namespace DepsDev.Semver

open DepsDev Gen.SemverTables

/-- `compareNugetPrerelease`: ASCII case-insensitive. -/
def compareNugetPrerelease : Bytes → Bytes → Int
  | [], [] => 0
  | [], _ :: _ => -1
  | _ :: _, [] => 1
  | a :: as, b :: bs =>
    thenInt (sgnInt (toLowerB a).toNat (toLowerB b).toNat) (compareNugetPrerelease as bs)

/-- `compareElem`. -/
def compareElem (sys : System) (s1 s2 : Bytes) : Int :=
  match isNumeric sys s1, isNumeric sys s2 with
  | some n1, some n2 => sgnInt n1 n2
  | some _, none => -1
  | none, some _ => 1
  | none, none => if sys == .nuget then compareNugetPrerelease s1 s2 else cmpBytes s1 s2

/-- `comparePrerelease`: longer dominates. -/
def comparePre (sys : System) : List Bytes → List Bytes → Int
  | [], [] => 0
  | [], _ :: _ => -1
  | _ :: _, [] => 1
  | a :: as, b :: bs => thenInt (compareElem sys a b) (comparePre sys as bs)

/-- The zero-padded numeric loop once the left side is exhausted (`getNum` yields 0). -/
def compareNumsNilL : List Value → Int
  | [] => 0
  | b :: bs => thenInt (sgnInt 0 b) (compareNumsNilL bs)

/-- The zero-padded numeric loop: `for i < max(len) { sgnv(getNum(i), getNum(i)) }`. -/
def compareNums : List Value → List Value → Int
  | [], bs => compareNumsNilL bs
  | a :: as, [] => thenInt (sgnInt a 0) (compareNums as [])
  | a :: as, b :: bs => thenInt (sgnInt a b) (compareNums as bs)

/-! ### Maven -/

def mavenPad (sep : UInt8) : MavenElem :=
  if sep == 45 then { sep := 45, str := [], int := 0 } else { sep := 46, str := [48], int := 0 }

def sgnStrB (a b : Bytes) : Int := cmpBytes a b

/-- `mavenUnknownQualifierCompare`; `bCategory` outside {qualifier, EOF, numeric} panics. -/
def mavenUnknownQualifierCompare (a b : MavenElem) (aOrder : Int) (bCat : Int) : Outcome Int :=
  if bCat == versionQualifier then
    let bOrder := mavenOrder b.str
    if aOrder == bOrder then
      if a.sep != b.sep then .ok ((b.sep.toNat : Int) - a.sep.toNat) else .ok (sgnStrB a.str b.str)
    else .ok (sgnInt aOrder bOrder)
  else if bCat == versionEOF then .ok (sgnInt aOrder mavenEmptyQualifier)
  else if bCat == versionNumeric then .ok (-1)
  else .panic

def compareMavenQualifier (a b : Bytes) : Int :=
  let ao := mavenOrder a
  let bo := mavenOrder b
  if ao < 0 || bo < 0 then sgnInt ao bo else sgnStrB a b

/-- One step of the loop: `none` = continue. -/
def mavenStep (a? b? : Option MavenElem) : Outcome (Option Int) :=
  -- padding takes the separator of the other side
  let (a, ac) : MavenElem × Int := match a?, b? with
    | some a, _ => (a, (mavenCategory a.str).1)
    | none, some b => (mavenPad b.sep, versionEOF)
    | none, none => (mavenPad 0, versionEOF)
  let (b, bc) : MavenElem × Int := match b?, a? with
    | some b, _ => (b, (mavenCategory b.str).1)
    | none, some a => (mavenPad a.sep, versionEOF)
    | none, none => (mavenPad 0, versionEOF)
  if a == b then .ok none else
  let ao := mavenOrder a.str
  if ac == versionQualifier && ao > mavenEmptyQualifier then
    (mavenUnknownQualifierCompare a b ao bc).bind (fun r => .ok (some r))
  else
  let bo := mavenOrder b.str
  if bc == versionQualifier && bo > mavenEmptyQualifier then
    (mavenUnknownQualifierCompare b a bo ac).bind (fun r => .ok (some (-r)))
  else
  let ac := if ac == versionEOF then versionQualifier else ac
  let bc := if bc == versionEOF then versionQualifier else bc
  if ac > bc then .ok (some 1)
  else if ac < bc then .ok (some (-1))
  else if ac == versionNumeric then
    if a.sep != b.sep then .ok (some ((a.sep.toNat : Int) - b.sep.toNat))
    else
      let s := sgnInt a.int b.int
      if s != 0 then .ok (some s) else .ok none
  else if a.sep != b.sep then .ok (some ((b.sep.toNat : Int) - a.sep.toNat))
  else
    let c := compareMavenQualifier a.str b.str
    if c == 0 then .ok none else .ok (some c)

/-- `mavenExtension.compare` once the left side is exhausted: every step compares the
padding element with `b`; if all steps continue the result is -1 (`len(bs) > len(as)`). -/
def mavenCompareNilL : List MavenElem → Outcome Int
  | [] => .ok 0
  | b :: bs =>
    match mavenStep none (some b) with
    | .ok none => (mavenCompareNilL bs).bind (fun r => .ok (if r == 0 then -1 else r))
    | .ok (some r) => .ok r
    | .err => .err
    | .panic => .panic

/-- `mavenExtension.compare`. -/
def mavenCompare : List MavenElem → List MavenElem → Outcome Int
  | [], bs =>
    mavenCompareNilL bs
  | a :: as, [] =>
    match mavenStep (some a) none with
    | .ok none => mavenCompare as []
    | .ok (some r) => .ok r
    | .err => .err
    | .panic => .panic
  | a :: as, b :: bs =>
    match mavenStep (some a) (some b) with
    | .ok none => mavenCompare as bs
    | .ok (some r) => .ok r
    | .err => .err
    | .panic => .panic

/-! ### RubyGems -/

/-- One step of the element loop of `gemExtension.compare`; 0 = `continue`. -/
def gemElemCmp (a b : GemElem) : Int :=
  if a == b then 0 else
  let ac := let c := versionCategory a.str; if c == versionEOF then versionQualifier else c
  let bc := let c := versionCategory b.str; if c == versionEOF then versionQualifier else c
  if ac > bc then 1
  else if ac < bc then -1
  else if ac == versionNumeric then sgnInt a.int b.int
  else cmpBytes a.str b.str

def gemPadElem : GemElem := { str := [48], int := 0 }

def gemElemsCompare : List GemElem → List GemElem → Int
  | [], [] => 0
  | [], b :: bs => thenInt (gemElemCmp gemPadElem b) (gemElemsCompare [] bs)
  | a :: as, [] => thenInt (gemElemCmp a gemPadElem) (gemElemsCompare as [])
  | a :: as, b :: bs => thenInt (gemElemCmp a b) (gemElemsCompare as bs)

/-! ### PEP 440 -/

def Pep440.rank (p : Pep440) : Int :=
  if p.pre == [97] then pep440Alpha
  else if p.pre == [98] then pep440Beta
  else if p.pre == [114, 99] then pep440Prerelease
  else if p.postPresent then pep440Post
  else if p.devPresent then pep440Dev
  else if !p.loc.isEmpty then pep440Local
  else pep440Empty

def allDigits (s : Bytes) : Bool := !s.isEmpty && s.all isDigitB

def p440compareLocalElem (a b : Bytes) : Int :=
  let ad := allDigits a
  let bd := allDigits b
  if ad != bd then (if ad then 1 else -1)
  else if ad then sgnInt (parseUint64Lossy a) (parseUint64Lossy b)
  else cmpBytes a b

/-- The dot-separated elements of a local version (`strings.Count(s, ".") + 1` of them;
`pep440LocalElem` peels them off one at a time). -/
def localElems (s : Bytes) : List Bytes :=
  go [] s
where
  go (cur : Bytes) : Bytes → List Bytes
    | [] => [cur]
    | c :: rest => if c == 46 then cur :: go [] rest else go (cur ++ [c]) rest

/-- The element loop of `pep44CompareLocal`: it runs once per element of `p` (when `q`
is exhausted `pep440LocalElem` yields ""), then returns `sgn(pn, qn)` = `fin`. -/
def pepLocalLoop (fin : Int) : List Bytes → List Bytes → Int
  | [], _ => fin
  | p :: ps, [] => thenInt (p440compareLocalElem p []) (pepLocalLoop fin ps [])
  | p :: ps, q :: qs => thenInt (p440compareLocalElem p q) (pepLocalLoop fin ps qs)

/-- `pep44CompareLocal`. -/
def pepCompareLocal (pl ql : Bytes) : Int :=
  if pl == ql then 0 else
  let ps := localElems pl
  let qs := localElems ql
  pepLocalLoop (sgnInt ps.length qs.length) ps qs

def isPreRank (r : Int) : Bool := r == pep440Alpha || r == pep440Beta || r == pep440Prerelease

/-- The part of `pep440Extension.compare` after the ranks were found equal: the
`switch pRank` with its `fallthrough`s (pre number → local → post number), then the
dev part. -/
def pepTail (p q : Pep440) : Int :=
  let r := p.rank
  thenInt (if isPreRank r then sgnInt p.preNum q.preNum else 0) <|
  thenInt (if isPreRank r || r == pep440Local then pepCompareLocal p.loc q.loc else 0) <|
  thenInt (if isPreRank r || r == pep440Local || r == pep440Post then sgnInt p.postNum q.postNum else 0) <|
  (if p.devPresent || q.devPresent then
    (if p.devPresent != q.devPresent then (if p.devPresent then -1 else 1) else sgnInt p.devNum q.devNum)
   else 0)

/-- `pep440Extension.compare`. -/
def pepCompare (pv qv : Version) (pe qe : Option Pep440) : Int :=
  let p := pe.getD {}
  let q := qe.getD {}
  thenInt (sgnInt p.epoch q.epoch) <|
  thenInt (compareNums pv.num qv.num) <|
  if pe.isNone && qe.isNone then 0 else
  thenInt (sgnInt p.rank q.rank) (pepTail p q)

/-! ### compare -/

/-- `compare(v1, v2)` for non-nil versions. -/
def vcompare (v1 v2 : Version) : Outcome Int :=
  if v1.sys != v2.sys then .ok (sgnInt v1.sys.toNat v2.sys.toNat) else
  match v1.ext, v2.ext with
  | .maven a, .maven b => mavenCompare a b
  | .pep a, .pep b => .ok (pepCompare v1 v2 a b)
  | .gem a, .gem b =>
    let s := compareNums v1.num v2.num
    if s != 0 then .ok s
    else if a.isEmpty && b.isEmpty then .ok 0
    else if a.isEmpty then .ok 1
    else if b.isEmpty then .ok (-1)
    else .ok (gemElemsCompare a b)
  | .none, _ | _, .none =>
    let s := compareNums v1.num v2.num
    if s != 0 then .ok s
    else if v1.pre.isEmpty && v2.pre.isEmpty then .ok 0
    else if v1.pre.isEmpty then .ok 1
    else if v2.pre.isEmpty then .ok (-1)
    else .ok (comparePre v1.sys v1.pre v2.pre)
  | _, _ => .panic      -- failed type assertion `e.(*xExtension)`

/-- `compare` with nil pointers (empty spans): nil < non-nil. -/
def compareOpt : Option Version → Option Version → Outcome Int
  | none, none => .ok 0
  | none, some _ => .ok (-1)
  | some _, none => .ok 1
  | some a, some b => vcompare a b

/-- `System.Compare(str1, str2)`. -/
def compareStr (sys : System) (s1 s2 : Bytes) : Outcome Int :=
  match parse sys s1, parse sys s2 with
  | .panic, _ => .panic
  | _, .panic => .panic
  | .ok a, .ok b => vcompare a b
  | .ok _, .err => .ok 1
  | .err, .ok _ => .ok (-1)
  | .err, .err => .ok 0

/-! ### Canon -/

def valueBytes (x : Value) : Bytes :=
  if x == infinity then [0xE2, 0x88, 0x9E]
  else if x == wildcard then [42]
  else intToBytes x

/-- `printNumsN`: stops after the first wildcard. -/
def printNumsN (v : Version) (n : Nat) : Bytes :=
  go 0 n
where
  go (i : Nat) : Nat → Bytes
    | 0 => []
    | k + 1 =>
      let x := v.getNum i
      let dot : Bytes := if i > 0 then [46] else []
      if x == wildcard then dot ++ [42] else dot ++ valueBytes x ++ go (i + 1) k

def printNums (v : Version) : Bytes := printNumsN v v.atLeast3

def joinWith (sep : UInt8) : List Bytes → Bytes
  | [] => []
  | [a] => a
  | a :: rest => a ++ [sep] ++ joinWith sep rest

/-- `Version.Canon(showBuild)`. -/
def canon (v : Version) (showBuild : Bool) : Bytes :=
  let showBuild := if v.sys == .nuget then false else showBuild
  match v.ext with
  | .maven els =>
    els.zipIdx.flatMap (fun (e, i) => (if i > 0 then [e.sep] else []) ++ e.str)
  | .pep none => printNums v
  | .pep (some e) =>
    (if e.epoch != 0 then intToBytes e.epoch ++ [33] else []) ++
    printNums v ++
    (if !e.pre.isEmpty then e.pre ++ intToBytes e.preNum else []) ++
    (if e.postPresent then ".post".toUTF8.toList ++ intToBytes e.postNum else []) ++
    (if e.devPresent then ".dev".toUTF8.toList ++ intToBytes e.devNum else []) ++
    (if !e.loc.isEmpty then 43 :: e.loc else [])
  | .gem els =>
    let nums := joinWith 46 ((List.range v.atLeast3).map (fun i => valueBytes' (v.getNum i)))
    if els.isEmpty then nums
    else
      let rest := match els with
        | e :: r => if e.str == "pre".toUTF8.toList then r else els
        | [] => []
      nums ++ [45] ++ joinWith 46 (rest.map (·.str))
  | .none =>
    let head : Bytes := if v.sys == .go then [118] else []
    let nums := head ++ printNums v
    if v.isWildcard then nums else
    let pre := match v.pre with
      | [] => []
      | ps => 45 :: joinWith 46 (ps.map (fun p => if v.sys == .nuget then Bytes.toLowerAscii p else p))
    nums ++ pre ++ (if showBuild then v.build else [])
where
  /-- `fmt.Fprint(&b, value)` uses `value.String()`. -/
  valueBytes' (x : Value) : Bytes := valueBytes x

end DepsDev.Semver
