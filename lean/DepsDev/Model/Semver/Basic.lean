import DepsDev.Model.Bytes
import DepsDev.Gen.SemverTables

/-!
# util/semver — basic types (version.go, interval.go, extension structs)

Model conventions: DESIGN.md Appendix B. Go `error` ⇒ `Outcome.err` (messages are
not modelled), every Go panic site ⇒ `Outcome.panic`. `Version.str` (the original
spelling, used only by `String()` and error messages) is not modelled.
-/
namespace DepsDev.Semver

open DepsDev

/-- Result of a Go function that returns `(T, error)` and may panic. -/
inductive Outcome (α : Type) where
  | ok (a : α)
  | err
  | panic
  deriving Repr, DecidableEq

namespace Outcome
@[inline] def bind {α β} (x : Outcome α) (f : α → Outcome β) : Outcome β :=
  match x with
  | ok a => f a
  | err => err
  | panic => panic
instance : Monad Outcome where
  pure := ok
  bind := bind
def isOk {α} : Outcome α → Bool | ok _ => true | _ => false
def isPanic {α} : Outcome α → Bool | panic => true | _ => false
def toOption {α} : Outcome α → Option α | ok a => some a | _ => none
end Outcome

/-- `semver.System` (version.go). The numeric values are tied to the Go constants
by the tie theorems against `Gen.SemverTables.systems`. -/
inductive System where
  | default | cargo | go | maven | npm | nuget | pypi | rubygems | composer
  deriving Repr, DecidableEq, Inhabited

namespace System
def toNat : System → Nat
  | default => 0 | cargo => 1 | go => 2 | maven => 3 | npm => 4 | nuget => 5
  | pypi => 6 | rubygems => 7 | composer => 8

def all : List System := [default, cargo, go, maven, npm, nuget, pypi, rubygems, composer]

/-- Names as spelled by the Go constants. -/
def goName : System → String
  | default => "DefaultSystem" | cargo => "Cargo" | go => "Go" | maven => "Maven" | npm => "NPM"
  | nuget => "NuGet" | pypi => "PyPI" | rubygems => "RubyGems" | composer => "Composer"

def ofWire (s : String) : Option System :=
  all.find? (fun x => x.goName == s)

/-- `sys.validWildcard(r)` through the generated table. -/
def validWildcard (sys : System) (r : Nat) : Bool :=
  match Gen.SemverTables.validWildcard.find? (fun p => p.1 == sys.toNat) with
  | some (_, rs) => rs.contains r
  | none => false

def supportsAnd (sys : System) : Bool := Gen.SemverTables.supportsAnd.contains sys.toNat
def allowsLeadingZero (sys : System) : Bool := Gen.SemverTables.leadingZeroSystems.contains sys.toNat
def allowsManyNumbers (sys : System) : Bool := Gen.SemverTables.manyNumberSystems.contains sys.toNat
end System

/-- `value` (interval.go): int64 with two distinguished values. -/
abbrev Value := Int
def infinity : Value := Gen.SemverTables.infinity
def wildcard : Value := Gen.SemverTables.wildcard

/-- `value.inc` (saturating). -/
def Value.inc (v : Value) : Value := if v + 1 > infinity then infinity else v + 1

structure MavenElem where
  sep : UInt8        -- 0 for the first element
  str : Bytes
  int : Int
  deriving Repr, DecidableEq, Inhabited

structure GemElem where
  str : Bytes
  int : Int
  deriving Repr, DecidableEq, Inhabited

/-- `pep440` struct (pep440.go). Go `int` fields are 64-bit: values are kept in
range by `wrapInt64` where the Go code converts from `uint64`. -/
structure Pep440 where
  epoch : Int := 0
  pre : Bytes := []
  preNum : Int := 0
  postPresent : Bool := false
  postNum : Int := 0
  devPresent : Bool := false
  devNum : Int := 0
  loc : Bytes := []
  deriving Repr, DecidableEq, Inhabited

/-- The `extension` interface value of a Version. -/
inductive Ext where
  | none
  | maven (elems : List MavenElem)
  | pep (e : Option Pep440)
  | gem (elems : List GemElem)
  deriving Repr, DecidableEq, Inhabited

structure Version where
  sys : System
  userNumCount : Int := 0
  isPrerelease : Bool := false
  num : List Value := []
  pre : List Bytes := []
  build : Bytes := []
  ext : Ext := .none
  deriving Repr, DecidableEq, Inhabited

namespace Version
def getNum (v : Version) (i : Nat) : Value := v.num.getD i 0   -- Go: `if i < len(v.num) {…} return 0`

/-- `setNum`: extend with zeros up to index `i`, then write. -/
def setNum (v : Version) (i : Nat) (val : Value) : Version :=
  let n := if v.num.length ≤ i then v.num ++ List.replicate (i + 1 - v.num.length) 0 else v.num
  { v with num := n.set i val }

def major (v : Version) := v.getNum 0
def minor (v : Version) := v.getNum 1
def patch (v : Version) := v.getNum 2
def setMajor (v : Version) (x : Value) := v.setNum 0 x
def setMinor (v : Version) (x : Value) := v.setNum 1 x
def setPatch (v : Version) (x : Value) := v.setNum 2 x
def addNum (v : Version) (x : Value) : Version := { v with num := v.num ++ [x] }
def isWildcard (v : Version) : Bool := v.num.any (· == wildcard)
def allNumbers (v : Version) : Bool := !v.isWildcard
def atLeast3 (v : Version) : Nat := if v.num.length < 3 then 3 else v.num.length
def allEq (v : Version) (x : Value) : Bool := v.num.all (· == x)

/-- `incN`: Go indexes `v.num[n]` directly, which panics when out of range. -/
def incN (v : Version) (n : Nat) : Outcome Version :=
  match v.num[n]? with
  | some x => .ok (v.setNum n x.inc)
  | none => .panic

/-- `fill`: append `val` until there are three numbers. -/
def fill (v : Version) (val : Value) : Version :=
  if v.num.length < 3 then { v with num := v.num ++ List.replicate (3 - v.num.length) val } else v

/-- `setTail(marker, fill)`: from the first of the (at least 3) numbers equal to
`marker`, overwrite to the end with `fill`. -/
def setTail (v : Version) (marker fillv : Value) : Version :=
  let n := v.atLeast3
  let padded := (List.range n).map v.getNum
  match padded.findIdx? (· == marker) with
  | none => v
  | some i => { v with num := padded.take i ++ List.replicate (n - i) fillv }
end Version

-- byte helpers
def isDigitB (c : UInt8) : Bool := 48 ≤ c && c ≤ 57
def isAlphaB (c : UInt8) : Bool := (97 ≤ c && c ≤ 122) || (65 ≤ c && c ≤ 90)
def isAlnumB (c : UInt8) : Bool := isDigitB c || isAlphaB c
def toLowerB (c : UInt8) : UInt8 := if 65 ≤ c && c ≤ 90 then c + 32 else c

/-- Decimal value of a digit string (no validation). -/
def digitsVal (s : Bytes) : Nat := s.foldl (fun n c => n * 10 + (c.toNat - 48)) 0

/-- Decimal rendering of a natural number. -/
def natToBytes (n : Nat) : Bytes := (toString n).toUTF8.toList

def intToBytes (i : Int) : Bytes :=
  if i < 0 then 45 :: natToBytes i.natAbs else natToBytes i.toNat

/-- `strconv.ParseInt(s, 10, bits)` restricted to what the callers observe:
`some n` when s is an optional sign followed by digits and in range, else `none`
(Go returns an error). Base-10 `ParseInt` does not accept underscores. -/
def parseIntBits (s : Bytes) (bits : Nat) : Option Int :=
  let (neg, ds) := match s with
    | 43 :: r => (false, r)
    | 45 :: r => (true, r)
    | r => (false, r)
  if ds.isEmpty || !ds.all isDigitB then none else
  let n : Int := digitsVal ds
  let v := if neg then -n else n
  if v < -(2 ^ (bits - 1) : Int) || v > (2 ^ (bits - 1) : Int) - 1 then none else some v

/-- `strconv.ParseUint(s, 10, 64)` with the error ignored: the uint64 value Go
holds afterwards (0 on syntax error, 2^64-1 on range error). -/
def parseUint64Lossy (s : Bytes) : Nat :=
  if s.isEmpty || !s.all isDigitB then 0 else
  let n := digitsVal s
  if n > 2 ^ 64 - 1 then 2 ^ 64 - 1 else n

/-- `strconv.ParseUint(s, 10, 63)` with the error ignored (repair F14). ParseUint scans from
the left and stops at the first problem: a range error (the running value exceeds 2^63-1)
returns the maximum, a syntax error (a byte that is not a digit, or the empty string)
returns 0. So digits overflowing BEFORE a bad byte (the numeric run may end in `∞`) saturate. -/
def parseUint63Lossy (s : Bytes) : Nat :=
  let ds := s.takeWhile isDigitB
  if digitsVal ds > 2 ^ 63 - 1 then 2 ^ 63 - 1
  else if s.isEmpty || ds.length < s.length then 0
  else digitsVal ds

/-- Go `int(uint64)` conversion on a 64-bit platform. -/
def wrapInt64 (n : Nat) : Int := if n < 2 ^ 63 then n else (n : Int) - 2 ^ 64

/-- `parseNum` (version.go): value of a version number; error on syntax or range. -/
def parseNum (s : Bytes) : Option Value :=
  match s with
  | [c] => if isDigitB c then some ((c.toNat - 48 : Nat) : Int) else none
  | _ =>
    match parseIntBits s 64 with
    | none => none
    | some n => if n < 0 || n ≥ infinity then none else some n

/-- `isNumeric(sys, s)` (version.go). -/
def isNumeric (sys : System) (s : Bytes) : Option Int :=
  if s.length > 1 && s.head? == some 48 && sys != .npm then none
  else if sys == .nuget then parseIntBits s 32 else parseIntBits s 64

def sgnInt (a b : Int) : Int := if a < b then -1 else if a > b then 1 else 0

/-- `if s != 0 { return s }; <rest>`: the first non-zero sign decides. -/
@[inline] def thenInt (s r : Int) : Int := if s != 0 then s else r

/-- Go string comparison (`<`, `strings.Compare`): lexicographic on bytes. -/
def cmpBytes : Bytes → Bytes → Int
  | [], [] => 0
  | [], _ :: _ => -1
  | _ :: _, [] => 1
  | a :: as, b :: bs => if a < b then -1 else if a > b then 1 else cmpBytes as bs

end DepsDev.Semver
