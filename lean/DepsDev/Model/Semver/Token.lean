import DepsDev.Model.Semver.Basic

/-!
# token.go — `System.typeOf`, `System.token`; lex.go — the version lexer

Byte level. `token` works on the remaining input and returns the token type (the
Go `tokType` number from the generated table), the token text and the remaining
input after it. Only ASCII bytes can continue a token (every rune ≥ 0x7F has type
`tXX`), so the scan is structural recursion over bytes.
-/
namespace DepsDev.Semver

open DepsDev Gen.SemverTables

-- tokType numbers (token.go). Tied to the Go constants by `Props.Ties.tokTypes_ok`.
def tokInvalid : Nat := 0
def tokInternalError : Nat := 1
def tokEmpty : Nat := 2
def tokEqual : Nat := 3
def tokGreater : Nat := 4
def tokGreaterEqual : Nat := 5
def tokLess : Nat := 6
def tokLessEqual : Nat := 7
def tokNotEqual : Nat := 8
def tokCaret : Nat := 9
def tokTilde : Nat := 10
def tokBacon : Nat := 11
def tokComma : Nat := 12
def tokOr : Nat := 13
def tokHyphen : Nat := 14
def tokLbracket : Nat := 15
def tokRbracket : Nat := 16
def tokVersion : Nat := 17
def tokWildcard : Nat := 18
def tokEOF : Nat := 19

/-- `byteType[r]` for `r < 0x7F` (array of 128 entries in Go). -/
def byteTypeOf (r : Nat) : Nat := byteType.getD r tXX

/-- `System.typeOf`. -/
def typeOf (sys : System) (r : Nat) : Nat :=
  if r == 95 && sys == .maven then tVS
  else if r == 43 && sys == .rubygems then tXX
  else if r ≥ 0x7F then tXX
  else byteTypeOf r

abbrev OpSet := List (Bytes × Nat)

/-- `operators[sys]`: indexing past the end of the Go slice panics. -/
def opSetOf (sys : System) : Outcome OpSet :=
  match operators[sys.toNat]? with
  | some m => .ok m
  | none => .panic

/-- Go map lookup with the zero value (`tokInvalid`) for a missing key. -/
def opLookup (m : OpSet) (k : Bytes) : Nat :=
  match m.find? (fun p => p.1 == k) with
  | some (_, t) => t
  | none => tokInvalid

/-- The scanning loop of `token`: extends `tok` (the text so far, non-empty)
while the next rune has type `typ` (and, for operators/brackets, the longer text
is still an operator). Returns (token, rest). -/
def tokenScan (sys : System) (typ : Nat) (ops : OpSet) : (tok : Bytes) → (rest : Bytes) → Bytes × Bytes
  | tok, [] => (tok, [])
  | tok, c :: rest =>
    -- `1!1.2.3`: the PyPI epoch bang continues a version token.
    if c == 33 && sys == .pypi && typ == tVS then tokenScan sys typ ops (tok ++ [c]) rest
    else if c ≥ 0x80 then (tok, c :: rest)
    else if typeOf sys c.toNat != typ then (tok, c :: rest)
    else if (typ == tOP || typ == tBR) && opLookup ops (tok ++ [c]) == tokInvalid then (tok, c :: rest)
    else tokenScan sys typ ops (tok ++ [c]) rest

/-- Classification of a `tVS` token as version or wildcard (the `for _, r := range tok` loop). -/
def classifyVS (sys : System) : (tok : Bytes) → (start : Bool) → (numDots : Nat) → Nat
  | [], _, _ => tokVersion
  | r :: rest, start, numDots =>
    if start && r == 118 then
      classifyVS sys rest (if sys == .go then false else start) numDots
    else if sys.validWildcard r.toNat then tokWildcard
    else if isDigitB r then classifyVS sys rest false numDots
    else if r == 46 then
      if numDots + 1 ≥ 3 then tokVersion else classifyVS sys rest false (numDots + 1)
    else if r == 95 && sys == .maven then classifyVS sys rest false numDots
    else tokVersion

def skipWS : Bytes → Bytes
  | [] => []
  | c :: rest => if c < 0x7F && byteTypeOf c.toNat == tWS then skipWS rest else c :: rest

/-- `System.token(str)`: (type, text, remaining input). -/
def token (sys : System) (str : Bytes) : Outcome (Nat × Bytes × Bytes) :=
  match skipWS str with
  | [] => .ok (tokEOF, [], [])
  | s@(_ :: _) =>
    let (r, wid) := Bytes.decodeRune s
    let typ := typeOf sys r
    if typ == tXX then .ok (tokInvalid, s.take wid, s.drop wid)
    else do
      let ops ← opSetOf sys
      -- typ ≠ tXX implies r < 0x7F (or '_'), so wid = 1.
      let (tok, rest) := tokenScan sys typ ops (s.take wid) (s.drop wid)
      if typ == tOP then .ok (opLookup ops tok, tok, rest)
      else if typ == tVS then
        if tok == [45] then .ok (opLookup ops tok, tok, rest)
        else .ok (classifyVS sys tok true 0, tok, rest)
      else if typ == tBR then
        if sys == .maven || sys == .nuget then
          if tok == [40] || tok == [91] then .ok (tokLbracket, tok, rest) else .ok (tokRbracket, tok, rest)
        else .ok (tokInvalid, tok, rest)
      else .ok (tokInternalError, tok, rest)

/-! ## lex.go -/

/-- Runes as the lexer sees them: -1 = eof, 0x221E = '∞'. -/
abbrev Rune := Int
def eof : Rune := -1
def runeInf : Rune := 0x221E

structure Lex where
  rest : Bytes            -- str[pos:]
  prev : Bytes            -- str[pos-wid:]: where `back` returns to
  allowInf : Bool
  err : Bool := false
  deriving Repr

namespace Lex
def setErr (l : Lex) : Lex := { l with err := true }

/-- Is the rune acceptable to `lexer.next`? -/
def okRune (l : Lex) (r : Nat) : Bool :=
  (r < 0x7F && byteTypeOf r == tVS) || (l.allowInf && r == 0x221E)

/-- `lexer.next`. -/
def next (l : Lex) : Rune × Lex :=
  match l.rest with
  | [] => (eof, { l with prev := l.rest })
  | s =>
    let (r, wid) := Bytes.decodeRune s
    if l.okRune r then ((r : Int), { l with rest := s.drop wid, prev := s })
    else ((r : Int), { l with prev := s, err := true })   -- backs up itself

def back (l : Lex) : Lex := { l with rest := l.prev }

def peek (l : Lex) : Rune × Lex :=
  let (r, l') := l.next
  (r, l'.back)

/-- One more byte consumed without going through `next` (`p.lex.pos++`). -/
def skip1 (l : Lex) : Lex := { l with rest := l.rest.drop 1, prev := l.rest.drop 1 }
end Lex

def isAlnumRune (r : Rune) : Bool := (48 ≤ r && r ≤ 57) || (97 ≤ r && r ≤ 122) || (65 ≤ r && r ≤ 90)
def isAlnumHyphenRune (r : Rune) : Bool := r == 45 || isAlnumRune r

end DepsDev.Semver
