import DepsDev.Model.Semver.Set

/-!
# constraint.go — `ParseConstraint`, `ParseSetConstraint`, the recursive-descent
# parser (`constraint`, `orList`, `andList`, `value`, `setRange`); match.go.

Parser state = remaining input (`p.lex.str[p.lex.pos:]`), the sticky error flag
(`p.lex.err != nil`), and `weight`. Deviation (documented in DESIGN 5): when
`sys.Parse` fails inside `value`, Go's extension parsers may return a partially
filled non-nil version that `value` then feeds to `opVersionToSpan`; the result
is an error either way; the model treats the version as absent.
-/
namespace DepsDev.Semver

open DepsDev Gen.SemverTables

structure Constraint where
  str : Bytes
  sys : System
  simple : Bool := false
  set : VSet
  deriving Repr

structure CP where
  sys : System
  rest : Bytes
  err : Bool := false
  weight : Nat := 0
  deriving Repr

namespace CP
def setErr (p : CP) : CP := { p with err := true }
end CP

/-- Result of `value()`: spans, hyphenated, valid. -/
structure ValueRes where
  spans : List Span := []
  hyphenated : Bool := false
  valid : Bool := false

def isUnop (t : Nat) : Bool :=
  t == tokEqual || t == tokGreater || t == tokGreaterEqual || t == tokLess || t == tokLessEqual ||
  t == tokNotEqual || t == tokCaret || t == tokTilde || t == tokBacon

/-- `constraintParser.value`. -/
def cpValue (p : CP) : Outcome (ValueRes × CP) := do
  let sys := p.sys
  let (typ, tok, r1) ← token sys p.rest
  if typ == tokEOF then .ok ({}, p)
  else if typ == tokInvalid then .ok ({}, p.setErr)
  else if isUnop typ then
    let (typ2, tok2, r2) ← token sys r1
    if typ2 != tokVersion && typ2 != tokWildcard then .ok ({}, p.setErr) else
    match parse sys tok2 with
    | .panic => .panic
    | .err => .ok ({}, p.setErr)
    | .ok version =>
      let p := { p with rest := r2 }
      let spansRes : Outcome (List Span) :=
        if tok == [33, 61] then do
          let (l, r) ← excludeToSpans version
          .ok [l, r]
        else do
          let s ← opVersionToSpan typ version
          .ok [s]
      match spansRes with
      | .panic => .panic
      | .err => .ok ({}, p.setErr)
      | .ok spans =>
        let w := p.weight + 1 + (if typ != tokEqual then 1 else 0)
        .ok ({ spans := spans, valid := true }, { p with weight := w })
  else if typ == tokVersion || typ == tokWildcard then
    let (typ2, _, r2) ← token sys r1
    if typ2 == tokInvalid then .ok ({}, p.setErr) else
    if typ2 != tokHyphen then
      let pv := parse sys tok
      match pv with
      | .panic => .panic
      | .err =>
        -- weight++; setError(err); pos += i; version is treated as absent
        .ok ({ valid := true }, { p with weight := p.weight + 1, err := true, rest := r1 })
      | .ok version =>
        let w := p.weight + 1 + (if version.isWildcard then 1 else 0)
        let p := { p with weight := w, rest := r1 }
        let opType := if sys == .cargo && typ == tokVersion then tokCaret else tokEmpty
        match opVersionToSpan opType version with
        | .panic => .panic
        | .err => .ok ({}, p.setErr)
        | .ok s => .ok ({ spans := [s], valid := true }, p)
    else
      let (typ3, tok3, r3) ← token sys r2
      if typ3 != tokVersion && typ3 != tokWildcard then .ok ({}, p.setErr) else
      let lo := parse sys tok
      let hi := parse sys tok3
      if lo.isPanic || hi.isPanic then .panic else
      let p := { p with err := p.err || !lo.isOk || !hi.isOk, rest := r3, weight := p.weight + 2 }
      match lo, hi with
      | .ok lo, .ok hi => do
        let lt ← vLess hi lo
        if lt then .ok ({}, p.setErr) else
        match newSpan lo false (hi.fill infinity) false with
        | .panic => .panic
        | .err => .ok ({}, p.setErr)
        | .ok s => .ok ({ spans := [s], hyphenated := true, valid := true }, p)
      | _, _ => .ok ({ hyphenated := true, valid := true }, p)
  else .ok ({}, p)

/-- `constraintParser.setRange` (Maven, NuGet): (span?, ok, state). -/
def cpSetRange (p : CP) : Outcome (Option Span × CP) := do
  let sys := p.sys
  let (typ, tok, r1) ← token sys p.rest
  if typ == tokEOF then .ok (none, p)
  else if typ == tokInvalid then .ok (none, p.setErr)
  else if typ == tokWildcard && sys != .nuget then .ok (none, p.setErr)
  else if typ == tokVersion || typ == tokWildcard then
    match parse sys tok with
    | .panic => .panic
    | .err => .ok (none, p.setErr)
    | .ok v =>
      let p := { p with weight := p.weight + 1 + (if v.isWildcard then 1 else 0) }
      if sys == .maven then
        let zero : Version := { sys := sys, num := [0, 0, 0] }
        match opVersionToSpan tokGreaterEqual zero with
        | .panic => .panic
        | .err => .ok (some Span.emptySpan, { p with rest := r1 })     -- error ignored: `sp, _ =`; zero span value
        | .ok sp => .ok (some sp, { p with rest := r1 })
      else if sys == .nuget then
        match opVersionToSpan tokGreaterEqual v with
        | .panic => .panic
        | .err => .ok (some Span.emptySpan, { p with rest := r1 })
        | .ok sp => .ok (some sp, { p with rest := r1 })
      else .ok (none, p.setErr)
  else if typ == tokLbracket then
    let p := { p with weight := p.weight + 2, rest := r1 }
    let minOpen0 := tok == [40]
    let (typ, tok, r) ← token sys p.rest
    -- optional min
    let step : Outcome (Option (Option Version × Nat × Bytes × Bytes × CP)) :=
      if typ == tokVersion then
        match parse sys tok with
        | .panic => .panic
        | .err => .ok none
        | .ok m => do
          let p := { p with rest := r }
          let (typ', tok', r') ← token sys p.rest
          .ok (some (some m, typ', tok', r', p))
      else .ok (some (none, typ, tok, r, p))
    match ← step with
    | none => .ok (none, p.setErr)
    | some (min?, typ, tok, r, p) =>
    let (min, minOpen) ← (match min? with
      | some m => Outcome.ok (m, minOpen0)
      | none =>
        match parse sys [48] with
        | .ok m => Outcome.ok (m, false)
        | .err => Outcome.panic     -- Go ignores the error and dereferences a nil version later
        | .panic => Outcome.panic)
    if typ != tokComma && typ != tokRbracket then .ok (none, p.setErr) else
    let p := { p with rest := r }
    if typ == tokRbracket then
      let p := if minOpen || tok == [41] then p.setErr else p
      match newSpanAliased min with
      | .panic => .panic
      | .err => .ok (none, p.setErr)
      | .ok sp => .ok (some sp, p)
    else
      let (typ, tok, r) ← token sys p.rest
      let step2 : Outcome (Option (Option Version × Nat × Bytes × Bytes × CP)) :=
        if typ == tokVersion then
          match parse sys tok with
          | .panic => .panic
          | .err => .ok none
          | .ok m => do
            let p := { p with rest := r }
            let (typ', tok', r') ← token sys p.rest
            .ok (some (some m, typ', tok', r', p))
        else .ok (some (none, typ, tok, r, p))
      match ← step2 with
      | none => .ok (none, p.setErr)
      | some (max?, typ, tok, r, p) =>
      let maxOpen0 := tok == [41]
      let (max, maxOpen) : Version × Bool := match max? with
        | some m => (m, maxOpen0)
        | none => ({ sys := sys, num := [infinity, infinity, infinity] }, false)
      if typ != tokRbracket then .ok (none, p.setErr) else
      match newSpan min minOpen max maxOpen with
      | .panic => .panic
      | .err => .ok (none, p.setErr)
      | .ok sp => .ok (some sp, { p with rest := r })
  else .ok (none, p)

/-- `constraintParser.andList`: (set spans, ok, state). -/
def cpAndList (p : CP) : Outcome (List Span × Bool × CP) :=
  if p.sys == .maven || p.sys == .nuget then do
    let (sp?, p) ← cpSetRange p
    match sp? with
    | some sp => .ok ([sp], true, p)
    | none => .ok ([], false, p)
  else
    go p [] true false (p.rest.length + 2)
where
  go (p : CP) (set : List Span) (first lastWasComma : Bool) : Nat → Outcome (List Span × Bool × CP)
    | 0 => .ok (set, !first, p)
    | fuel + 1 => do
      let (vr, p) ← cpValue p
      if !vr.valid then
        .ok (set, !first, if lastWasComma then p.setErr else p)
      else
        -- the token switch after a value, then the next iteration
        let next (p : CP) (set' : List Span) : Outcome (List Span × Bool × CP) := do
          let (typ, _, r) ← token p.sys p.rest
          if typ == tokEOF then go p set' false false fuel
          else if typ == tokInvalid then go p.setErr set' false false fuel
          else if typ == tokComma then go { p with rest := r } set' false true fuel
          else if typ == tokOr then go p set' false false fuel
          else
            let p := if !p.sys.supportsAnd then p.setErr else p
            let p := if p.sys == .rubygems then p.setErr else p
            go p set' false false fuel
        if first then
          if vr.hyphenated then .ok (vr.spans, true, p) else next p vr.spans
        else if vr.hyphenated then .ok (set, true, p.setErr)        -- "unexpected range after version"; break
        else
          match VSet.intersect { sys := .default, span := set } { sys := .default, span := vr.spans } with
          | .panic => .panic
          | .err => .ok (set, false, p.setErr)                        -- `return set, false`
          | .ok s => next p s.span

/-- `constraintParser.orList`. Returns the spans (`len == 0` = `Set{}`). -/
def cpOrList (p : CP) : Outcome (List Span × CP) :=
  go p [] false (p.rest.length + 2)
where
  go (p : CP) (spans : List Span) (lastWasOr : Bool) : Nat → Outcome (List Span × CP)
    | 0 => fin p spans
    | fuel + 1 => do
      let sys := p.sys
      let orToken := if sys == .maven || sys == .nuget then tokComma else tokOr
      let (set, ok, p) ← cpAndList p
      if !ok then
        if lastWasOr then .ok ([], p.setErr) else fin p spans
      else
        let spans := spans ++ set
        if sys == .nuget && spans.length > 1 then .ok ([], p.setErr) else
        let (typ, _, r) ← token sys p.rest
        if typ == orToken then go { p with rest := r } spans true fuel
        else fin p spans
  fin (p : CP) (spans : List Span) : Outcome (List Span × CP) :=
    match canonSpans spans with
    | .panic => .panic
    | .err => .ok ([], p.setErr)
    | .ok sp => .ok (sp, p)

/-- `System.ParseConstraint`. -/
def parseConstraint (sys : System) (str0 : Bytes) : Outcome Constraint := do
  let str := Bytes.trimSpace str0
  if str.isEmpty && sys == .nuget then .err else
  let lexStr := if str.isEmpty then ">=0.0.0".toUTF8.toList else str
  if sys == .go then
    match parse .go lexStr with
    | .panic => .panic
    | .err => .err
    | .ok lo => do
      let hi ← (if lo.major == 0 then lo.incN 0 else Outcome.ok lo)
      let hi ← hi.incN 0
      let hi := (hi.setMinor 0).setPatch 0
      let s ← newSpan lo false hi true
      .ok { str := str, sys := sys, simple := true, set := { sys := .go, span := [s] } }
  else
    let p : CP := { sys := sys, rest := lexStr }
    let p ← (if sys == .pypi then do
        let (typ, _, _) ← token sys lexStr
        Outcome.ok (if typ == tokVersion then p.setErr else p)
      else Outcome.ok p)
    let (spans, p) ← cpOrList p
    let set : VSet := if spans.isEmpty then { sys := .default, span := [] } else { sys := sys, span := spans }
    let (typ, _, _) ← token sys p.rest
    let p := if typ != tokEOF then p.setErr else p
    if p.err then .err else
    .ok { str := str, sys := sys, simple := p.weight == 1, set := set }

/-- `System.ParseSetConstraint`. -/
def parseSetConstraint (sys : System) (str0 : Bytes) : Outcome Constraint := do
  let str := Bytes.trimSpace str0
  let (set, simple) ← parseSet sys str
  .ok { str := str, sys := sys, simple := simple, set := set }

def containsAny (s : Bytes) (chars : Bytes) : Bool := s.any (fun c => chars.contains c)

/-- `Constraint.match`. -/
def Constraint.matchV (c : Constraint) (v : Version) : Outcome Bool :=
  let prerelease := c.sys == .nuget && !containsAny c.str "[(,]*".toUTF8.toList
  if c.sys == .pypi && c.str.isEmpty then
    match v.ext with
    | .pep e => if (match e with | some x => x.devPresent | none => false) then .ok false
                else c.set.matchVersion v prerelease
    | _ => .panic       -- failed type assertion
  else c.set.matchVersion v prerelease

/-- `Constraint.Match(version string)`. -/
def Constraint.matchStr (c : Constraint) (s : Bytes) : Outcome Bool :=
  match parse c.sys s with
  | .panic => .panic
  | .err => .ok false
  | .ok v => c.matchV v

/-- `Constraint.MatchVersion`. -/
def Constraint.matchVersion (c : Constraint) (v : Version) : Outcome Bool :=
  if v.isWildcard then .ok false else c.matchV v

/-- `Constraint.MatchVersionPrerelease`. -/
def Constraint.matchVersionPrerelease (c : Constraint) (v : Version) : Outcome Bool :=
  if v.isWildcard then .ok false else c.set.matchVersion v true

end DepsDev.Semver
