import DepsDev.Model.Api.Tables

/-!
C17 driver side: the fact tables rendered as (owner, key, value) strings, and the
element-by-element comparison the Go harness makes (`harness/cmd/c17/checks.go`).
The left-hand sides are built with the very functions the theorems evaluate
(`Desc.rename`, `expectedTags`, …), so the correspondence run ties those functions
to their independent Go twins.
-/
namespace DepsDev.Api.C17
open DepsDev.Api DepsDev.Gen.C17

structure KV where
  owner : String
  key : String
  val : String

def str (i : Nat) : String := names[i]?.getD s!"?{i}"
def dash (s : String) : String := if s.isEmpty then "-" else s
def joinIds (sep : String) (l : List Nat) : String := sep.intercalate (l.map str)
def dot (l : List Nat) : String := joinIds "." l
def usc (l : List Nat) : String := joinIds "_" l
def b01 (b : Bool) : String := if b then "1" else "0"

def kvDesc (d : Desc) : List KV :=
  if !d.ok then [] else
  [⟨"file", "file name", dash (str d.file.name)⟩,
   ⟨"file", "file syntax", toString d.file.syn⟩,
   ⟨"file", "file package", dash (dot d.file.pkg)⟩,
   ⟨"file", "file go_package", dash (joinIds "/" d.file.goPkg)⟩] ++
  d.file.deps.map (fun x => ⟨"file", "file import " ++ str x, "1"⟩) ++
  d.msgs.map (fun x => ⟨dot x.name, "msg " ++ dot x.name, "mapentry=" ++ b01 x.mapEntry⟩) ++
  d.fields.map (fun x => ⟨dot x.msg, "field " ++ dot x.msg ++ " " ++ str x.name,
    s!"num={x.number} label={x.label} type={x.type} tn={dash (dot x.typeName)} oneof={dash (str x.oneof)} json={dash (str x.json)} p3opt={b01 x.p3opt} packed={x.packed} dep={b01 x.deprecated}"⟩) ++
  d.oneofs.map (fun x => ⟨dot x.msg, "oneof " ++ dot x.msg ++ " " ++ str x.name, s!"idx={x.index}"⟩) ++
  d.enums.map (fun x => ⟨dot x.name, "enum " ++ dot x.name, "1"⟩) ++
  d.values.map (fun x => ⟨dot x.enum, "value " ++ dot x.enum ++ " " ++ str x.name, s!"num={x.number}"⟩) ++
  d.svcs.map (fun x => ⟨dot x.name, "service " ++ dot x.name, "1"⟩) ++
  d.methods.map (fun x => ⟨dot x.svc ++ "." ++ str x.name, "rpc " ++ dot x.svc ++ " " ++ str x.name,
    s!"in={dash (dot x.input)} out={dash (dot x.output)} cs={b01 x.cs} ss={b01 x.ss}"⟩) ++
  d.https.map (fun x => ⟨dot x.svc ++ "." ++ str x.method, s!"http {dot x.svc} {str x.method} {x.idx}",
    s!"verb={x.verb} custom={dash (str x.custom)} path={dash (joinIds "/" x.path)} body={dash (str x.body)} rbody={dash (str x.respBody)}"⟩)

def kvTag (x : TagF) : KV :=
  let s := usc x.struct
  ⟨s, "tag " ++ s ++ " " ++ str x.name,
   s!"wire={x.wire} num={x.number} label={x.label} json={dash (str x.json)} proto3={b01 x.proto3} enum={dash (dot x.enum)} oneof={b01 x.oneof} packed={b01 x.packed} rep={b01 x.rep} ptr={b01 x.ptr} scalar={x.scalar} qual={b01 x.qual} ident={dash (usc x.ident)} map={b01 x.isMap} wrapped={b01 x.wrapped} extra={dash (str x.badExtra)}"⟩

def kvStructs (g : GoBind) : List KV :=
  if !g.ok then [] else
  g.structs.map (fun x => ⟨usc x.ident, "struct " ++ usc x.ident, "1"⟩) ++
  g.tags.map kvTag ++
  g.oneofs.map (fun x => ⟨usc x.struct, "goneof " ++ usc x.struct ++ " " ++ str x.name, "1"⟩) ++
  g.consts.map (fun x => ⟨usc x.type, "const " ++ usc x.type ++ " " ++ usc x.ident, s!"num={x.number}"⟩)

def kvGrpc (g : GoBind) : List KV :=
  if !g.ok then [] else
  g.gconsts.map (fun x => ⟨"grpc", "fullmethod " ++ dot x.svc ++ " " ++ str x.method, "ident=" ++ dash (usc x.ident)⟩) ++
  g.gdescs.map (fun x => ⟨"grpc", "desc " ++ dot x.svc ++ " " ++ str x.method,
    s!"var={dash (usc x.varId)} handler={dash (usc x.handler)} stream={b01 x.stream} cs={b01 x.cs} ss={b01 x.ss} htype={dash (str x.htype)} meta={dash (str x.metadata)}"⟩) ++
  g.gifaces.map (fun x => ⟨"grpc", s!"iface {str x.svc} {x.role} {str x.method}", "in=" ++ dash (usc x.input) ++ " out=" ++ dash (usc x.output)⟩) ++
  g.gcalls.map (fun x => ⟨"grpc", s!"call {x.role} {dash (usc x.func)}",
    "const=" ++ dash (usc x.const) ++ " method=" ++ dash (str x.method) ++ " req=" ++ dash (usc x.req)⟩)

/-- The bindings a descriptor calls for, as a `GoBind` (same functions as the theorems). -/
def expectedBindings (d : Desc) : GoBind :=
  { ok := d.ok
    structs := expectedStructs usplit d
    tags := expectedTags usplit d
    oneofs := expectedGoOneofs usplit d
    consts := expectedConsts usplit d
    gconsts := expectedGConsts usplit vocab d
    gdescs := expectedGDescs usplit vocab d
    gifaces := expectedGIfaces usplit d
    gcalls := expectedGCalls usplit vocab d }

def kvSystems (sys : List SysF) : List KV :=
  sys.map fun s => ⟨"systems", "system " ++ str s.name, s!"num={s.value} src={dash (usc s.src)}"⟩

def kvSystemsExpected (sys : List SysF) (d : Desc) : List KV :=
  if !d.ok then [] else
  sys.filterMap fun s =>
    match sysValueName usplit vocab wantSystem d s with
    | none => none
    | some v =>
      match d.enumNumber (d.file.pkg ++ [vocab.system]) v with
      | none => none
      | some n =>
        let src := if s.src = [] then "-" else usc ([vocab.system] ++ lookupU usplit v)
        some ⟨"systems", "system " ++ str s.name, s!"num={n} src={src}"⟩

structure Check where
  name : String
  sub : Bool
  l : List KV
  r : List KV

def checkList : List Check :=
  [ { name := "v3sub", sub := true,
      l := if pbgoV3.ok && pbgoV3alpha.ok then kvDesc v3Renamed else [], r := kvDesc pbgoV3alpha },
    { name := "pbgo_v3", sub := false, l := kvDesc pbgoV3, r := kvDesc protoV3 },
    { name := "pbgo_v3alpha", sub := false, l := kvDesc pbgoV3alpha, r := kvDesc protoV3alpha },
    { name := "structs_v3", sub := false, l := kvStructs (expectedBindings pbgoV3), r := kvStructs goV3 },
    { name := "grpc_v3", sub := false, l := kvGrpc (expectedBindings pbgoV3), r := kvGrpc goV3 },
    { name := "structs_v3alpha", sub := false, l := kvStructs (expectedBindings pbgoV3alpha), r := kvStructs goV3alpha },
    { name := "grpc_v3alpha", sub := false, l := kvGrpc (expectedBindings pbgoV3alpha), r := kvGrpc goV3alpha },
    { name := "systems_v3", sub := false, l := kvSystems resolveSystems, r := kvSystemsExpected resolveSystems pbgoV3 },
    { name := "systems_v3alpha", sub := false, l := kvSystems resolveSystems, r := kvSystemsExpected resolveSystems pbgoV3alpha } ]

def findKV (l : List KV) (key : String) : Option KV := l.find? fun kv => kv.key == key

def Check.fact (c : Check) (key : String) (hex : String → String) : String :=
  match findKV c.l key, findKV c.r key with
  | none, none => "ok absent"
  | some _, none => "ok missing"
  | none, some _ => "ok extra"
  | some l, some r =>
    if l.val == r.val then "ok present-identical" else "ok differs " ++ hex l.val ++ " " ++ hex r.val

def Check.group (c : Check) (owner : String) : String :=
  let ls := c.l.filter fun kv => kv.owner == owner
  let rs := c.r.filter fun kv => kv.owner == owner
  if ls.isEmpty && rs.isEmpty then "ok absent" else
  let nd1 := ls.countP fun kv => match findKV rs kv.key with
    | none => true
    | some r => r.val != kv.val
  let nd2 := if c.sub then 0 else rs.countP fun kv => (findKV ls kv.key).isNone
  if nd1 + nd2 == 0 then s!"ok identical {ls.length} {rs.length}" else s!"ok differs {nd1 + nd2}"

def descCount (d : Desc) : Nat :=
  1 + d.msgs.length + d.fields.length + d.oneofs.length + d.enums.length + d.values.length +
  d.svcs.length + d.methods.length + d.https.length

def goCount (g : GoBind) : Nat :=
  g.structs.length + g.tags.length + g.oneofs.length + g.consts.length + g.gconsts.length +
  g.gdescs.length + g.gifaces.length + g.gcalls.length

def extract (src : String) : String :=
  let res (ok : Bool) (n : Nat) := if ok then s!"ok {n}" else "err"
  match src with
  | "pbgo_v3" => res pbgoV3.ok (descCount pbgoV3)
  | "pbgo_v3alpha" => res pbgoV3alpha.ok (descCount pbgoV3alpha)
  | "proto_v3" => res protoV3.ok (descCount protoV3)
  | "proto_v3alpha" => res protoV3alpha.ok (descCount protoV3alpha)
  | "go_v3" => res goV3.ok (goCount goV3)
  | "go_v3alpha" => res goV3alpha.ok (goCount goV3alpha)
  | "systems" => res resolveSystemsOk resolveSystems.length
  | _ => "bad-op"

end DepsDev.Api.C17
