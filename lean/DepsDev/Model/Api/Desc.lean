/-
C17: descriptor fact tables and the comparison functions evaluated by the kernel.

The translator (`/verif/harness/cmd/c17`) emits one `Desc` per source and API
version (descriptor embedded in `api.pb.go`, parsed `api.proto` text), one
`GoBind` per version (struct tags, enum constants, gRPC bindings read with
go/ast) and the `resolve.System` constants. Every string is interned into one
shared table (`Gen.C17.names`, id 0 = the empty string, ids in bytewise string
order); dotted names are lists of component ids, HTTP paths are split on "/",
Go identifiers on "_". The translator never renames anything: the v3 → v3alpha
renaming is `Desc.rename` below.

Closed vocabularies are numeric codes:
* field `type`   : `FieldDescriptorProto.Type` (1 double, 2 float, 3 int64, 4 uint64,
  5 int32, 6 fixed64, 7 fixed32, 8 bool, 9 string, 10 group, 11 message, 12 bytes,
  13 uint32, 14 enum, 15 sfixed32, 16 sfixed64, 17 sint32, 18 sint64)
* `label`        : 1 optional, 2 required, 3 repeated
* http `verb`    : `google.api.HttpRule` field number (2 get, 3 put, 4 post, 5 delete, 6 patch, 8 custom)
* tag `wire`     : 1 varint, 2 fixed32, 3 fixed64, 4 bytes, 5 group, 6 zigzag32, 7 zigzag64
* Go `scalar`    : 0 named type, 1 string, 2 bool, 3 int32, 4 int64, 5 uint32, 6 uint64,
  7 float32, 8 float64, 9 []byte
* `syntax`       : 2 proto2, 3 proto3;  `packed` option: 0 unset, 1 false, 2 true

Core Lean only.
-/
namespace DepsDev.Api

/-- A dotted name as interned components, e.g. `deps_dev.v3.Package` ↦ `[deps_dev, v3, Package]`. -/
abbrev Name := List Nat

structure MsgF where
  name : Name
  mapEntry : Bool
deriving DecidableEq, Repr

structure FieldF where
  msg : Name
  name : Nat
  number : Nat
  label : Nat
  type : Nat
  typeName : Name
  oneof : Nat
  json : Nat
  p3opt : Bool
  packed : Nat
  deprecated : Bool
deriving DecidableEq, Repr

structure OneofF where
  msg : Name
  name : Nat
  index : Nat
deriving DecidableEq, Repr

structure EnumF where
  name : Name
deriving DecidableEq, Repr

structure ValueF where
  enum : Name
  name : Nat
  number : Int
deriving DecidableEq, Repr

structure SvcF where
  name : Name
deriving DecidableEq, Repr

structure MethodF where
  svc : Name
  name : Nat
  input : Name
  output : Name
  cs : Bool
  ss : Bool
deriving DecidableEq, Repr

structure HttpF where
  svc : Name
  method : Nat
  idx : Nat
  verb : Nat
  custom : Nat
  path : List Nat
  body : Nat
  respBody : Nat
deriving DecidableEq, Repr

structure FileF where
  name : Nat
  syn : Nat
  pkg : Name
  goPkg : List Nat
  deps : List Nat
deriving DecidableEq, Repr

/-- Everything one source says about one `api.proto`. `ok = false` means the
translator could not extract the source (all tables empty). -/
structure Desc where
  ok : Bool
  file : FileF
  msgs : List MsgF
  fields : List FieldF
  oneofs : List OneofF
  enums : List EnumF
  values : List ValueF
  svcs : List SvcF
  methods : List MethodF
  https : List HttpF
deriving DecidableEq, Repr

/-! ### Go bindings -/

structure TagF where
  struct : List Nat
  name : Nat
  wire : Nat
  number : Nat
  label : Nat
  json : Nat
  proto3 : Bool
  enum : Name
  oneof : Bool
  packed : Bool
  rep : Bool
  ptr : Bool
  scalar : Nat
  qual : Bool
  ident : List Nat
  isMap : Bool
  wrapped : Bool
  badExtra : Nat
deriving DecidableEq, Repr

structure GoOneofF where
  struct : List Nat
  name : Nat
deriving DecidableEq, Repr

structure StructF where
  ident : List Nat
deriving DecidableEq, Repr

structure ConstF where
  type : List Nat
  ident : List Nat
  number : Int
deriving DecidableEq, Repr

structure GConstF where
  ident : List Nat
  svc : Name
  method : Nat
deriving DecidableEq, Repr

structure GDescF where
  varId : List Nat
  svc : Name
  method : Nat
  handler : List Nat
  stream : Bool
  cs : Bool
  ss : Bool
  htype : Nat
  metadata : Nat
deriving DecidableEq, Repr

structure GIfaceF where
  svc : Nat
  role : Nat
  method : Nat
  input : List Nat
  output : List Nat
deriving DecidableEq, Repr

structure GCallF where
  role : Nat
  func : List Nat
  const : List Nat
  method : Nat
  req : List Nat
deriving DecidableEq, Repr

structure GoBind where
  ok : Bool
  structs : List StructF
  tags : List TagF
  oneofs : List GoOneofF
  consts : List ConstF
  gconsts : List GConstF
  gdescs : List GDescF
  gifaces : List GIfaceF
  gcalls : List GCallF
deriving DecidableEq, Repr

structure SysF where
  name : Nat
  value : Int
  src : List Nat
  srcPkg : Nat
deriving DecidableEq, Repr

/-- Ids of the few fixed words the expected-binding functions need. -/
structure Vocab where
  fullMethodName : Nat
  handler : Nat
  serviceDesc : Nat
  system : Nat
deriving DecidableEq, Repr

/-! ### Linear comparison -/

/-- `subseq a b`: `a` is a subsequence of `b`. Linear. Sound for inclusion whatever
the order (`subseq_mem`); complete when both lists are sorted by the same key. -/
def subseq {α : Type} [DecidableEq α] : List α → List α → Bool
  | [], _ => true
  | _ :: _, [] => false
  | x :: xs, y :: ys => if x = y then subseq xs ys else subseq (x :: xs) ys

/-- Same elements, any order (quadratic; used as fallback only). -/
def sameElems {α : Type} [DecidableEq α] (a b : List α) : Bool :=
  a.length == b.length && a.all (fun x => b.contains x) && b.all (fun y => a.contains y)

/-- Equal lists, or at least the same elements: linear when the two sides are in
the same order (the normal case), still exact otherwise. -/
def eqUpToOrder {α : Type} [DecidableEq α] (a b : List α) : Bool :=
  if a = b then true else sameElems a b

/-- Adjacent elements strictly increase in the lexicographic order of `List Nat`
(linear). With transitivity this gives pairwise distinct keys: `strictSorted_nodup`
in `Proofs/C17Lemmas.lean`. -/
def strictSorted : List (List Nat) → Bool
  | a :: b :: rest => decide (a < b) && strictSorted (b :: rest)
  | _ => true

/-- Within each run of consecutive elements with the same `grp`, the `key`s are
pairwise distinct (quadratic in the run length only). -/
def distinctInRuns {α : Type} (grp : α → List Nat) (key : α → Nat) : List α → Bool
  | [] => true
  | x :: xs => !((xs.takeWhile fun y => grp y = grp x).any fun y => key y = key x) && distinctInRuns grp key xs

/-- Key of a member `rest` of owner `n`, as one list whose lexicographic order is
"owner first (a proper prefix before its extensions), then `rest`": components are
shifted by one and the owner is terminated by 0. Injective. -/
def memberKey (n : Name) (rest : List Nat) : List Nat := n.map (· + 1) ++ 0 :: rest

/-- Drop consecutive repetitions. -/
def dedupAdj : List (List Nat) → List (List Nat)
  | a :: b :: rest => if a = b then dedupAdj (b :: rest) else a :: dedupAdj (b :: rest)
  | l => l

/-! ### Renaming v3 → v3alpha (done here, not in the translator) -/

/-- Replace the package prefix `p` of a full name by `q`. -/
def renameName (p q : Name) (n : Name) : Name :=
  if p.isPrefixOf n then q ++ n.drop p.length else n

/-- Replace the version segment of an HTTP path `/<a>/…` (split on "/": `["", a, …]`). -/
def renamePath (a b : Nat) : List Nat → List Nat
  | e :: s :: rest => if e = 0 ∧ s = a then e :: b :: rest else e :: s :: rest
  | l => l

/-- Replace the last element `a` by `b` (`deps.dev/api/v3` ↦ `deps.dev/api/v3alpha`). -/
def renameLast (a b : Nat) : List Nat → List Nat
  | [] => []
  | [x] => if x = a then [b] else [x]
  | x :: xs => x :: renameLast a b xs

/-- The version component of a package: its last component. -/
def versionOf (p : Name) : Nat := p.getLastD 0

def Desc.rename (d : Desc) (q : Name) : Desc :=
  let p := d.file.pkg
  let a := versionOf p
  let b := versionOf q
  let rn := renameName p q
  { ok := d.ok
    file := { d.file with pkg := rn d.file.pkg, goPkg := renameLast a b d.file.goPkg }
    msgs := d.msgs.map fun m => { m with name := rn m.name }
    fields := d.fields.map fun f => { f with msg := rn f.msg, typeName := rn f.typeName }
    oneofs := d.oneofs.map fun o => { o with msg := rn o.msg }
    enums := d.enums.map fun e => { e with name := rn e.name }
    values := d.values.map fun v => { v with enum := rn v.enum }
    svcs := d.svcs.map fun s => { s with name := rn s.name }
    methods := d.methods.map fun m => { m with svc := rn m.svc, input := rn m.input, output := rn m.output }
    https := d.https.map fun h => { h with svc := rn h.svc, path := renamePath a b h.path } }

/-! ### v3 ⊆ v3alpha, per element kind -/

def subFile (a b : Desc) : Bool :=
  a.file.name = b.file.name && a.file.syn = b.file.syn && a.file.pkg = b.file.pkg &&
  a.file.goPkg = b.file.goPkg && subseq a.file.deps b.file.deps

def subMsgs (a b : Desc) : Bool := subseq a.msgs b.msgs
def subFields (a b : Desc) : Bool := subseq a.fields b.fields
def subOneofs (a b : Desc) : Bool := subseq a.oneofs b.oneofs
def subEnums (a b : Desc) : Bool := subseq a.enums b.enums
def subValues (a b : Desc) : Bool := subseq a.values b.values
def subSvcs (a b : Desc) : Bool := subseq a.svcs b.svcs
def subMethods (a b : Desc) : Bool := subseq a.methods b.methods
def subHttps (a b : Desc) : Bool := subseq a.https b.https

def Desc.subsumedBy (a b : Desc) : Bool :=
  a.ok && b.ok && subFile a b && subMsgs a b && subFields a b && subOneofs a b && subEnums a b &&
  subValues a b && subSvcs a b && subMethods a b && subHttps a b

/-- Keys are unique (tables strictly sorted by key), so "the same fact is present"
means "the element is identical"; numbers and json names are unique per message;
every member belongs to a declared owner; every name lies in the file's package. -/
def Desc.wellFormed (d : Desc) : Bool :=
  d.ok &&
  strictSorted (d.msgs.map fun m => m.name) &&
  strictSorted (d.fields.map fun f => memberKey f.msg [f.name]) &&
  distinctInRuns (fun f : FieldF => f.msg) (fun f => f.number) d.fields &&
  distinctInRuns (fun f : FieldF => f.msg) (fun f => f.json) d.fields &&
  strictSorted (d.oneofs.map fun o => memberKey o.msg [o.name]) &&
  strictSorted (d.enums.map fun e => e.name) &&
  strictSorted (d.values.map fun v => memberKey v.enum [v.name]) &&
  strictSorted (d.svcs.map fun s => s.name) &&
  strictSorted (d.methods.map fun m => memberKey m.svc [m.name]) &&
  strictSorted (d.https.map fun h => memberKey h.svc [h.method, h.idx]) &&
  d.msgs.all (fun m => d.file.pkg.isPrefixOf m.name) &&
  d.enums.all (fun e => d.file.pkg.isPrefixOf e.name) &&
  d.svcs.all (fun s => d.file.pkg.isPrefixOf s.name) &&
  subseq (dedupAdj (d.fields.map fun f => f.msg)) (d.msgs.map fun m => m.name) &&
  subseq (dedupAdj (d.oneofs.map fun o => o.msg)) (d.msgs.map fun m => m.name) &&
  subseq (dedupAdj (d.values.map fun v => v.enum)) (d.enums.map fun e => e.name) &&
  subseq (dedupAdj (d.methods.map fun m => m.svc)) (d.svcs.map fun s => s.name) &&
  subseq (dedupAdj (d.https.map fun h => h.svc ++ [h.method])) (d.methods.map fun m => m.svc ++ [m.name])

/-! ### What the Go bindings must look like, computed from a descriptor -/

/-- Split a component on "_" using the translator's table (`id ↦ parts`). -/
def lookupU (u : List (Nat × List Nat)) (c : Nat) : List Nat :=
  match u.find? (fun e => e.1 = c) with
  | some e => e.2
  | none => [c]

/-- protoc-gen-go identifier of a (package-relative) name, as "_"-separated parts. -/
def goIdent (u : List (Nat × List Nat)) (n : Name) : List Nat := n.flatMap (lookupU u)

/-- `protobuf:"<wire>,…"` word of a field type. 0 = none. -/
def wireOf : Nat → Nat
  | 3 | 4 | 5 | 8 | 13 | 14 => 1      -- int64 uint64 int32 bool uint32 enum: varint
  | 2 | 7 | 15 => 2                   -- float fixed32 sfixed32
  | 1 | 6 | 16 => 3                   -- double fixed64 sfixed64
  | 9 | 11 | 12 => 4                  -- string message bytes
  | 10 => 5                           -- group
  | 17 => 6
  | 18 => 7
  | _ => 0

/-- Go type of a scalar field type. 0 = named type (message, enum). -/
def goScalarOf : Nat → Nat
  | 9 => 1 | 8 => 2
  | 5 | 15 | 17 => 3
  | 3 | 16 | 18 => 4
  | 7 | 13 => 5
  | 4 | 6 => 6
  | 2 => 7 | 1 => 8 | 12 => 9
  | _ => 0

def packable (t : Nat) : Bool := !(t = 9 || t = 10 || t = 11 || t = 12)

def Desc.isMapField (d : Desc) (f : FieldF) : Bool :=
  f.type = 11 && f.label = 3 && d.msgs.contains ⟨f.typeName, true⟩

def Desc.rel (d : Desc) (n : Name) : Name := n.drop d.file.pkg.length

def Desc.isLocal (d : Desc) (n : Name) : Bool := d.file.pkg.isPrefixOf n

def expectedTag (u : List (Nat × List Nat)) (d : Desc) (f : FieldF) : TagF :=
  let isMap := d.isMapField f
  let named := (f.type = 11 || f.type = 14) && !isMap
  { struct := goIdent u (d.rel f.msg)
    name := f.name
    wire := wireOf f.type
    number := f.number
    label := f.label
    json := if f.json = f.name then 0 else f.json
    proto3 := d.file.syn = 3
    enum := if f.type = 14 then f.typeName else []
    oneof := f.oneof ≠ 0
    packed := f.label = 3 && packable f.type && f.packed ≠ 1
    rep := f.label = 3 && !isMap
    ptr := !isMap && (f.type = 11 || (f.p3opt && f.type ≠ 12))
    scalar := if isMap then 0 else goScalarOf f.type
    qual := named && !d.isLocal f.typeName
    ident := if !named then [] else
      if d.isLocal f.typeName then goIdent u (d.rel f.typeName) else goIdent u [f.typeName.getLastD 0]
    isMap := isMap
    wrapped := f.oneof ≠ 0 && !f.p3opt
    badExtra := 0 }

def expectedTags (u : List (Nat × List Nat)) (d : Desc) : List TagF := d.fields.map (expectedTag u d)

def expectedStructs (u : List (Nat × List Nat)) (d : Desc) : List StructF :=
  (d.msgs.filter fun m => !m.mapEntry).map fun m => ⟨goIdent u (d.rel m.name)⟩

/-- Real (non-synthetic) oneofs become `protobuf_oneof` interface fields. -/
def expectedGoOneofs (u : List (Nat × List Nat)) (d : Desc) : List GoOneofF :=
  (d.oneofs.filter fun o => !(d.fields.any fun f => f.msg = o.msg && f.oneof = o.name && f.p3opt)).map
    fun o => ⟨goIdent u (d.rel o.msg), o.name⟩

/-- `E_VALUE` for a top-level enum `E`, `M_VALUE` for an enum nested in message `M`. -/
def expectedConst (u : List (Nat × List Nat)) (d : Desc) (v : ValueF) : ConstF :=
  let r := d.rel v.enum
  let pre := if r.length ≤ 1 then r else r.dropLast
  ⟨goIdent u r, goIdent u pre ++ lookupU u v.name, v.number⟩

def expectedConsts (u : List (Nat × List Nat)) (d : Desc) : List ConstF := d.values.map (expectedConst u d)

def svcSimple (m : MethodF) : Nat := m.svc.getLastD 0

def constIdent (u : List (Nat × List Nat)) (k : Vocab) (m : MethodF) : List Nat :=
  lookupU u (svcSimple m) ++ lookupU u m.name ++ [k.fullMethodName]

def handlerIdent (u : List (Nat × List Nat)) (k : Vocab) (m : MethodF) : List Nat :=
  [0] ++ lookupU u (svcSimple m) ++ lookupU u m.name ++ [k.handler]

def Desc.goTypeIdent (u : List (Nat × List Nat)) (d : Desc) (n : Name) : List Nat :=
  if d.isLocal n then goIdent u (d.rel n) else goIdent u [n.getLastD 0]

def expectedGConsts (u : List (Nat × List Nat)) (k : Vocab) (d : Desc) : List GConstF :=
  d.methods.map fun m => ⟨constIdent u k m, m.svc, m.name⟩

def expectedGDescs (u : List (Nat × List Nat)) (k : Vocab) (d : Desc) : List GDescF :=
  d.methods.map fun m =>
    { varId := lookupU u (svcSimple m) ++ [k.serviceDesc], svc := m.svc, method := m.name,
      handler := handlerIdent u k m, stream := m.cs || m.ss, cs := m.cs, ss := m.ss,
      htype := svcSimple m, metadata := d.file.name }

def expectedGIfaces (u : List (Nat × List Nat)) (d : Desc) : List GIfaceF :=
  d.methods.flatMap fun m =>
    let unary := !(m.cs || m.ss)
    let i := if unary then d.goTypeIdent u m.input else []
    let o := if unary then d.goTypeIdent u m.output else []
    [⟨svcSimple m, 1, m.name, i, o⟩, ⟨svcSimple m, 2, m.name, i, o⟩]

def expectedGCalls (u : List (Nat × List Nat)) (k : Vocab) (d : Desc) : List GCallF :=
  (d.methods.map fun m => (⟨1, [svcSimple m, m.name], constIdent u k m, 0, []⟩ : GCallF)) ++
  (d.methods.map fun m =>
    let unary := !(m.cs || m.ss)
    (⟨2, handlerIdent u k m, if unary then constIdent u k m else [], m.name,
      if m.cs then [] else d.goTypeIdent u m.input⟩ : GCallF))

def structsMatch (u : List (Nat × List Nat)) (d : Desc) (g : GoBind) : Bool :=
  d.ok && g.ok && eqUpToOrder (expectedStructs u d) g.structs

def tagsMatch (u : List (Nat × List Nat)) (d : Desc) (g : GoBind) : Bool :=
  d.ok && g.ok && eqUpToOrder (expectedTags u d) g.tags

def goOneofsMatch (u : List (Nat × List Nat)) (d : Desc) (g : GoBind) : Bool :=
  d.ok && g.ok && eqUpToOrder (expectedGoOneofs u d) g.oneofs

def constsMatch (u : List (Nat × List Nat)) (d : Desc) (g : GoBind) : Bool :=
  d.ok && g.ok && eqUpToOrder (expectedConsts u d) g.consts

def gconstsMatch (u : List (Nat × List Nat)) (k : Vocab) (d : Desc) (g : GoBind) : Bool :=
  d.ok && g.ok && eqUpToOrder (expectedGConsts u k d) g.gconsts

def gdescsMatch (u : List (Nat × List Nat)) (k : Vocab) (d : Desc) (g : GoBind) : Bool :=
  d.ok && g.ok && eqUpToOrder (expectedGDescs u k d) g.gdescs

def gifacesMatch (u : List (Nat × List Nat)) (d : Desc) (g : GoBind) : Bool :=
  d.ok && g.ok && eqUpToOrder (expectedGIfaces u d) g.gifaces

def gcallsMatch (u : List (Nat × List Nat)) (k : Vocab) (d : Desc) (g : GoBind) : Bool :=
  d.ok && g.ok && eqUpToOrder (expectedGCalls u k d) g.gcalls

/-! ### resolve.System ↔ API enum System -/

def Desc.enumNumber (d : Desc) (enum : Name) (v : Nat) : Option Int :=
  (d.values.find? fun x => x.enum = enum && x.name = v).map (·.number)

/-- The API value a resolve constant is converted from, read off its defining
expression `System(apipb.System_<VALUE>)`: the value of enum `System` whose Go
constant identifier is `src`. -/
def Desc.valueOfSrc (u : List (Nat × List Nat)) (k : Vocab) (d : Desc) (src : List Nat) : Option Nat :=
  (d.values.find? fun x => x.enum = d.file.pkg ++ [k.system] && [k.system] ++ lookupU u x.name = src).map (·.name)

/-- `want s` = the API value name the constant must correspond to (hand-written
expectation, by name), `none` = no expectation: fall back to the defining expression. -/
def sysValueName (u : List (Nat × List Nat)) (k : Vocab) (want : Nat → Option Nat) (d : Desc) (s : SysF) : Option Nat :=
  match want s.name with
  | some v => some v
  | none => d.valueOfSrc u k s.src

def sysAgree (u : List (Nat × List Nat)) (k : Vocab) (want : Nat → Option Nat) (d : Desc) (s : SysF) : Bool :=
  match sysValueName u k want d s with
  | none => false
  | some v => d.enumNumber (d.file.pkg ++ [k.system]) v = some s.value &&
      (s.src = [] || s.src = [k.system] ++ lookupU u v)

def systemsAgree (u : List (Nat × List Nat)) (k : Vocab) (want : Nat → Option Nat) (d : Desc) (sys : List SysF) : Bool :=
  d.ok && !sys.isEmpty && sys.all (sysAgree u k want d)

end DepsDev.Api
