import DepsDev.Model.Api.Desc
import DepsDev.Gen.C17Names
import DepsDev.Gen.C17PbgoV3
import DepsDev.Gen.C17PbgoV3alpha
import DepsDev.Gen.C17ProtoV3
import DepsDev.Gen.C17ProtoV3alpha
import DepsDev.Gen.C17GoV3
import DepsDev.Gen.C17GoV3alpha
import DepsDev.Gen.C17Systems

/-!
C17: the generated tables put together. Nothing here is generated; everything
generated is under `DepsDev.Gen.C17` and only mentioned by name.
-/
namespace DepsDev.Api.C17
open DepsDev.Api DepsDev.Gen.C17

/-- v3 as embedded in `api/v3/api.pb.go`, renamed into v3alpha's package. -/
def v3Renamed : Desc := pbgoV3.rename pbgoV3alpha.file.pkg

/-- Id of a string in the intern table. -/
def idOf (s : String) : Option Nat := names.toList.findIdx? (fun n => n = s)

/-- Hand-written expectation: which API `System` value each `resolve` constant
stands for (util/resolve/resolve.go). Constants not listed fall back to the value
named in their defining expression. -/
def systemTable : List (String × String) :=
  [("UnknownSystem", "SYSTEM_UNSPECIFIED"), ("NPM", "NPM"), ("Maven", "MAVEN"), ("PyPI", "PYPI")]

def wantSystem (goName : Nat) : Option Nat :=
  match names[goName]? with
  | none => none
  | some n =>
    match systemTable.find? (fun e => e.1 = n) with
    | none => none
    | some e => idOf e.2

/-- The listed constants exist in util/resolve. -/
def systemTableCovered : Bool :=
  systemTable.all fun e => resolveSystems.any fun s => names[s.name]? = some e.1

def vocabOk : Bool :=
  names[vocab.fullMethodName]? = some "FullMethodName" && names[vocab.handler]? = some "Handler" &&
  names[vocab.serviceDesc]? = some "ServiceDesc" && names[vocab.system]? = some "System" &&
  names[0]? = some ""

end DepsDev.Api.C17
