import DepsDev.Model.Maven.Types
import DepsDev.Gen.C15Consts

/-!
# Model of `Dependency.Key` and `Project.ProcessDependencies` (util/maven/dependency.go 67-197)

Go maps `map[DependencyKey]Dependency` together with the key slices that record
insertion order are association lists in insertion order: every insertion in the
code is guarded by "key absent", and each key slice receives exactly the keys
inserted, in order.
-/
namespace DepsDev.Model.Maven
open DepsDev.Gen

/-- the mutation `Key()` performs on its receiver: `if d.Type == "" { d.Type = "jar" }` -/
def Dep.normType (d : Dep) : Dep := if d.typ.isEmpty then { d with typ := bJar } else d

/-- `Dependency.Key` -/
def Dep.key (d : Dep) : DepKey :=
  let d := d.normType
  ⟨d.g, d.a, d.typ, d.cls⟩

abbrev DepMap := List (DepKey × Dep)

/-- `m[dk]` with the comma-ok form -/
def DepMap.get (m : DepMap) (k : DepKey) : Option Dep := List.lookup k m

/-- `if _, ok := m[dk]; !ok { m[dk] = dep; keys = append(keys, dk) }` -/
def DepMap.insertIfAbsent (m : DepMap) (k : DepKey) (d : Dep) : DepMap :=
  match m.get k with
  | some _ => m
  | none => m ++ [(k, d)]

/-- The closure `addDepManagement(deps, m)`: the map with the new entries appended
(which is also the appended key slice) and the import-scoped entries. `dep.Key()` is
called on the loop variable, so the stored copy has its type defaulted. -/
def addDepManagement : List Dep → DepMap → DepMap × List Dep
  | [], m => (m, [])
  | dep :: rest, m =>
    if dep.scope = bImport then
      let r := addDepManagement rest m
      (r.1, dep :: r.2)
    else
      addDepManagement rest (m.insertIfAbsent dep.key dep.normType)

/-- the first loop: dedupe of `p.Dependencies`, first declaration wins -/
def dedupeDeps : List Dep → DepMap → DepMap
  | [], m => m
  | dep :: rest, m => dedupeDeps rest (m.insertIfAbsent dep.key dep.normType)

/-- The import loop `for ; n < MaxImports && len(depManagementImports) > 0; n++`,
by recursion on `MaxImports - n`. `get` is the callback `getDependencyManagement`
(`none` = it returned an error). -/
def importLoop (get : Bytes → Bytes → Bytes → Option (List Dep)) :
    Nat → List Dep → List DepKey → DepMap → DepMap
  | 0, _, _, m => m
  | _ + 1, [], _, m => m
  | fuel + 1, dep :: queue, imported, m =>
    let dk := dep.key
    if imported.contains dk then importLoop get fuel queue imported m
    else
      let imported := dk :: imported
      if dep.normType.typ ≠ bPom then importLoop get fuel queue imported m
      else
        match get dep.g dep.a dep.v with
        | none => importLoop get fuel queue imported m     -- failed to fetch: continue
        | some dm =>
          let r := addDepManagement dm m
          -- depManagementImports = append(depImports, depManagementImports...)
          importLoop get fuel (r.2 ++ queue) imported r.1

/-- the fill-in of one dependency from dependency management -/
def fillFromManagement (mgmt : DepMap) (kd : DepKey × Dep) : Dep :=
  let dep := kd.2
  match mgmt.get kd.1 with
  | none => dep
  | some dm =>
    { dep with
      v := if dep.v.isEmpty then dm.v else dep.v
      scope := if dep.scope.isEmpty then dm.scope else dep.scope
      excl := if dep.excl.isEmpty then dm.excl else dep.excl }

/-- `Project.ProcessDependencies(getDependencyManagement)` -/
def Project.ProcessDependencies (p : Project) (get : Bytes → Bytes → Bytes → Option (List Dep)) : Project :=
  let deps := dedupeDeps p.deps []
  let r := addDepManagement p.mgmt []
  let mgmt := importLoop get C15Consts.maxImports r.2 [] r.1
  { p with
    deps := deps.map (fillFromManagement mgmt)
    mgmt := mgmt.map (·.2) }

end DepsDev.Model.Maven
