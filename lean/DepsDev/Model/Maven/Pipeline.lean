import DepsDev.Model.Maven.Project
import DepsDev.Model.Maven.Profile
import DepsDev.Model.Maven.Deps

/-!
# The documented pipeline

`examples/go/maven_parse_resolve/main.go`: decode, `mergeParents(project.Parent, 1, &project)`,
`ProcessDependencies` with a callback that runs `mergeParents(key, 0, &empty)`;
preceded by `MergeProfiles` on the root as `APIClient.mavenRequirements` does
(util/resolve/maven.go 133-157). The parent bound is `resolve.MaxMavenParent`
(the example's own `MaxParent` has the same value). Profiles are activated with
`maven.JDKProfileActivation` / `maven.OSProfileActivation`.
`none` = the Go pipeline returns an error.
-/
namespace DepsDev.Model.Maven
open DepsDev.Gen

def jdkEnv : List Nat := C15Consts.jdkProfileActivation
def osEnv : OS := ⟨C15Consts.osName, C15Consts.osFamily, C15Consts.osArch, C15Consts.osVersion⟩

/-- The loop of `mergeParents`, by recursion on `MaxParent - n`. -/
def mergeParentsLoop (repo : List Project) : Nat → Nat → List Key → Key → Project → Option Project
  | 0, _, _, _, result => some result
  | fuel + 1, n, visited, current, result =>
    if current.g.isEmpty || current.a.isEmpty || current.v.isEmpty then some result   -- break
    else if visited.contains current then none                                     -- cycle of parent projects
    else
      match fetch repo current with
      | none => none
      | some proj =>
        if n > 0 && proj.packaging ≠ bPom then none                                 -- invalid packaging for parent
        else
          match proj.MergeProfiles jdkEnv osEnv with
          | none => none
          | some proj => mergeParentsLoop repo fuel (n + 1) (current :: visited) proj.parent (result.MergeParent proj)

/-- `mergeParents(ctx, current, start, result)`: the loop, then `result.Interpolate()` -/
def mergeParentsWith (f : InterpFn) (repo : List Project) (current : Key) (start : Nat) (result : Project) : Option Project :=
  (mergeParentsLoop repo (C15Consts.maxMavenParent - start) start [] current result).map (Project.InterpolateWith f)

/-- the import callback of `main` -/
def getDependencyManagementWith (f : InterpFn) (repo : List Project) (g a v : Bytes) : Option (List Dep) :=
  (mergeParentsWith f repo ⟨g, a, v⟩ 0 Project.empty).map (·.mgmt)

/-- The effective project computed by the Go pipeline. -/
def goProjectWith (f : InterpFn) (L : Lineage) : Option Project :=
  match L.root.MergeProfiles jdkEnv osEnv with
  | none => none
  | some p =>
    match mergeParentsWith f L.repo p.parent 1 p with
    | none => none
    | some p => some (p.ProcessDependencies (getDependencyManagementWith f L.repo))

/-- Dependencies and managed dependencies after the pipeline. -/
def goPipelineWith (f : InterpFn) (L : Lineage) : Option (List Dep × List Dep) :=
  (goProjectWith f L).map fun p => (p.deps, p.mgmt)

abbrev mergeParents := mergeParentsWith interpolateStr
abbrev getDependencyManagement := getDependencyManagementWith interpolateStr
abbrev goProject := goProjectWith interpolateStr

/-- The pipeline with the model of `interpolating`. -/
def goPipeline (L : Lineage) : Option (List Dep × List Dep) := goPipelineWith interpolateStr L

end DepsDev.Model.Maven
