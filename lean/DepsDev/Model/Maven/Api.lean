import DepsDev.Model.Maven.Pipeline

/-!
# The second instance of the documented pipeline: `(*APIClient).Requirements` for Maven
(util/resolve/maven.go)

* `walkLoop` — the parent walk shared by `mergeParents` (the example) and
  `fetchMavenParents` (the API client), with what differs between the two as a
  configuration: how a project is fetched, the activation environment, whether parents
  must have packaging `pom`. `mergeParentsLoop` of `Pipeline.lean` is the instance
  `⟨fetch repo, jdkEnv, osEnv, true⟩` (theorem `Proofs.C15Api.mergeParentsLoop_eq_walk`).
* `pipeline` — `MergeProfiles`, walk, `Interpolate`, `ProcessDependencies` with an import
  callback that walks from a seed project.
* the API messages (`RMaven` …), the encoding the harness applies to a POM (`encodePom`),
  `mavenRequirementsToProject` (`toProject`), the fake service (`apiFetch`),
  `apiRequirements`.
* `view` / `directOnView` — the documented pipeline on the API's view of a lineage.
* `mavenDepType` / `mavenDepTypeToDependency` on `DType`, the Maven part of `dep.Type`.
* `chainLineage` — the compact lineages `C <n> <back> <imp>` of the harness.
-/
namespace DepsDev.Model.Maven.Api
open DepsDev DepsDev.Model.Maven DepsDev.Gen

/-! ## The parent walk -/

structure WalkCfg where
  /-- fetch the project stored under a key (`none` = the Go code returns an error) -/
  get : Key → Option Project
  jdk : List Nat
  os : OS
  /-- `if n > 0 && proj.Packaging != "pom" { return error }` present? -/
  needPom : Bool

/-- `current.GroupID == "" || current.ArtifactID == "" || current.Version == ""` -/
def Key.incomplete (k : Key) : Bool := k.g.isEmpty || k.a.isEmpty || k.v.isEmpty

/-- The loop `for n := start; n < MaxMavenParent; n++` with the `visited` set, by recursion
on `MaxMavenParent - n`. -/
def walkLoop (c : WalkCfg) : Nat → Nat → List Key → Key → Project → Option Project
  | 0, _, _, _, result => some result
  | fuel + 1, n, visited, current, result =>
    if Key.incomplete current then some result                   -- break
    else if visited.contains current then none                  -- a cycle of parents is detected
    else
      match c.get current with
      | none => none
      | some proj =>
        if c.needPom && (n > 0 && proj.packaging ≠ bPom) then none
        else
          match proj.MergeProfiles c.jdk c.os with
          | none => none
          | some proj => walkLoop c fuel (n + 1) (current :: visited) proj.parent (result.MergeParent proj)

/-- The same loop, also reporting the keys it fetched, in order (`walkLoopT_fst`: its first
component is `walkLoop`). -/
def walkLoopT (c : WalkCfg) : Nat → Nat → List Key → Key → Project → Option Project × List Key
  | 0, _, _, _, result => (some result, [])
  | fuel + 1, n, visited, current, result =>
    if Key.incomplete current then (some result, [])
    else if visited.contains current then (none, [])
    else
      match c.get current with
      | none => (none, [current])
      | some proj =>
        if c.needPom && (n > 0 && proj.packaging ≠ bPom) then (none, [current])
        else
          match proj.MergeProfiles c.jdk c.os with
          | none => (none, [current])
          | some proj =>
            let r := walkLoopT c fuel (n + 1) (current :: visited) proj.parent (result.MergeParent proj)
            (r.1, current :: r.2)

/-- what differs between the instances of the documented pipeline -/
structure PipeCfg where
  walk : WalkCfg
  /-- the loop index the walk over the project's own parents starts from -/
  rootStart : Nat
  /-- the project the import callback starts its walk from -/
  seed : Key → Project

/-- `mergeParents` / `fetchMavenParents`: the loop, then `Interpolate` -/
def walkWith (f : InterpFn) (w : WalkCfg) (current : Key) (start : Nat) (result : Project) : Option Project :=
  (walkLoop w (C15Consts.maxMavenParent - start) start [] current result).map (Project.InterpolateWith f)

/-- the import callback -/
def importWith (f : InterpFn) (c : PipeCfg) (g a v : Bytes) : Option (List Dep) :=
  (walkWith f c.walk ⟨g, a, v⟩ 0 (c.seed ⟨g, a, v⟩)).map (·.mgmt)

/-- `MergeProfiles`, the parent walk, `Interpolate`, `ProcessDependencies` -/
def pipelineWith (f : InterpFn) (c : PipeCfg) (root : Project) : Option Project :=
  match root.MergeProfiles c.walk.jdk c.walk.os with
  | none => none
  | some p =>
    match walkWith f c.walk p.parent c.rootStart p with
    | none => none
    | some p => some (p.ProcessDependencies (importWith f c))

/-- the example's instance (`Pipeline.goProjectWith`) -/
def exampleCfg (repo : List Project) : PipeCfg :=
  ⟨⟨fetch repo, jdkEnv, osEnv, true⟩, 1, fun _ => Project.empty⟩

/-! ## API messages -/

abbrev cColon : UInt8 := 58
abbrev cPipe : UInt8 := 124
abbrev cGt : UInt8 := 62

/-- the API names a Maven package `group:artifact` -/
def apiName (g a : Bytes) : Bytes := g ++ cColon :: a

/-- `strings.Cut(name, ":")` -/
def cutColon : Bytes → Option (Bytes × Bytes)
  | [] => none
  | c :: rest =>
    if c = cColon then some ([], rest)
    else match cutColon rest with
      | none => none
      | some (g, a) => some (c :: g, a)

/-- `maven.MakeProjectKey(name, version)` (`none` = error) -/
def makeProjectKey (name version : Bytes) : Option Key :=
  match cutColon name with
  | none => none
  | some (g, a) => some ⟨g, a, version⟩

/-- `pb.Requirements_Maven_Dependency` -/
structure RDep where
  name : Bytes
  ver : Bytes
  cls : Bytes
  typ : Bytes
  scope : Bytes
  opt : Bytes
  excl : List Bytes
  deriving DecidableEq, Repr, Inhabited

/-- `pb.Requirements_Maven_Profile` with `Activation{ActiveByDefault, Jdk, Os}` present
(the text of `<jdk>` on the `Jdk` grammar; `.absent` / a blank `OS` = the submessage is nil) -/
structure RProfile where
  abd : Bytes
  jdk : Jdk
  os : OS
  props : List (Bytes × Bytes)
  deps : List RDep
  mgmt : List RDep
  deriving DecidableEq, Repr, Inhabited

/-- `pb.Requirements_Maven` (repositories are not modelled: they do not reach the result) -/
structure RMaven where
  parent : Option (Bytes × Bytes)       -- name, version
  deps : List RDep
  mgmt : List RDep
  props : List (Bytes × Bytes)
  profiles : List RProfile
  deriving DecidableEq, Repr, Inhabited

/-- the closure `getDependencies` of `mavenRequirementsToProject`: an exclusion or a
dependency whose name has no colon is skipped -/
def getExclusions : List Bytes → List Exclusion
  | [] => []
  | ex :: rest =>
    match makeProjectKey ex [] with
    | none => getExclusions rest
    | some k => ⟨k.g, k.a⟩ :: getExclusions rest

def getDependencies : List RDep → List Dep
  | [] => []
  | d :: rest =>
    match makeProjectKey d.name [] with
    | none => getDependencies rest
    | some k => ⟨k.g, k.a, d.ver, d.typ, d.cls, d.scope, d.opt, getExclusions d.excl⟩ :: getDependencies rest

def getProfile (p : RProfile) : Profile :=
  ⟨p.abd, p.jdk, p.os, p.props, getDependencies p.deps, getDependencies p.mgmt⟩

/-- `mavenRequirementsToProject(pk, req)`; `req = none` is the nil message. The parent's
`MakeProjectKey` error is dropped by the code (`parent.ProjectKey, _ = …`): the zero key. -/
def toProject (pk : Key) : Option RMaven → Project
  | none => Project.empty
  | some req =>
    { g := pk.g, a := pk.a, v := pk.v
      parent := match req.parent with
        | none => ⟨[], [], []⟩
        | some (name, ver) =>
          match makeProjectKey name ver with
          | none => ⟨[], [], []⟩
          | some k => k
      packaging := []
      props := req.props
      deps := getDependencies req.deps
      mgmt := getDependencies req.mgmt
      profiles := req.profiles.map getProfile }

/-! ### the harness's encoding of a POM as a response (harness/cmd/c15/api.go `pbMaven`) -/

def encodeDep (d : Dep) : RDep :=
  ⟨apiName d.g d.a, d.v, d.cls, d.typ, d.scope, d.opt, d.excl.map fun e => apiName e.g e.a⟩

def encodeProfile (f : Profile) : RProfile :=
  ⟨f.abd, f.jdk, f.os, f.props, f.deps.map encodeDep, f.mgmt.map encodeDep⟩

def encodePom (p : Project) : RMaven :=
  { parent := if p.parent = ⟨[], [], []⟩ then none else some (apiName p.parent.g p.parent.a, p.parent.v)
    deps := p.deps.map encodeDep
    mgmt := p.mgmt.map encodeDep
    props := p.props
    profiles := p.profiles.map encodeProfile }

/-- the fake Insights service: responses keyed by name and version, the first one stored
wins; the inner `Option` is the `Maven` field of the response (nil or not) -/
abbrev Universe := List (Bytes × Bytes × Option RMaven)

/-- `GetRequirements`: `none` = `codes.NotFound` -/
def apiFetch (U : Universe) (name version : Bytes) : Option (Option RMaven) :=
  (U.find? fun e => e.1 = name ∧ e.2.1 = version).map (·.2.2)

/-- the service that serves a lineage: every POM under its effective coordinates, the
project first -/
def universeOf (L : Lineage) : Universe :=
  (L.root :: L.repo).map fun p => (apiName p.storeKey.g p.storeKey.a, p.storeKey.v, some (encodePom p))

/-! ## `APIClient.mavenRequirements` -/

def blankOS : OS := ⟨[], [], [], []⟩

/-- one step of `fetchMavenParents`: `GetRequirements`, `mavenRequirementsToProject(current, resp.Maven)` -/
def apiGet (U : Universe) (k : Key) : Option Project :=
  (apiFetch U (apiName k.g k.a) k.v).map (toProject k)

/-- `maven.Project{ProjectKey: pk}` -/
def keyed (k : Key) : Project := { Project.empty with g := k.g, a := k.a, v := k.v }

/-- the API client's instance: no JDK, no OS (default profiles only), no packaging test, the
project's own parents walked from index 0, imports walked from a project that has its key -/
def apiCfg (U : Universe) : PipeCfg := ⟨⟨apiGet U, [], blankOS, false⟩, 0, keyed⟩

/-- the Maven part of `dep.Type`: the flag attributes Opt and Test (and Dev, which the Maven
code never sets) and the valued attributes Scope (3), MavenClassifier (4),
MavenArtifactType (5), MavenDependencyOrigin (6), MavenExclusions (9) -/
structure DType where
  dev : Bool
  opt : Bool
  test : Bool
  scope : Option Bytes
  cls : Option Bytes
  typ : Option Bytes
  origin : Option Bytes
  excl : Option Bytes
  deriving DecidableEq, Repr, Inhabited

def bTest : Bytes := [116, 101, 115, 116]

def hasPipe (e : Exclusion) : Bool := e.g.contains cPipe || e.a.contains cPipe

/-- the loop of `Dependency.ExclusionsString` (`first` is its flag) -/
def exclusionsLoop : List Exclusion → Bool → Bytes
  | [], _ => []
  | e :: rest, first =>
    if hasPipe e then exclusionsLoop rest first          -- Skip this exclusion if it contains a pipe.
    else (if first then [] else [cPipe]) ++ (e.g ++ cColon :: e.a) ++ exclusionsLoop rest false

def exclusionsString (ex : List Exclusion) : Bytes := exclusionsLoop ex true

/-- `MavenDepType(d, origin)` -/
def mavenDepType (d : Dep) (origin : Bytes) : DType :=
  { dev := false
    opt := d.opt == bTrue
    test := d.scope == bTest
    scope := if d.scope == bTest then none else if !d.scope.isEmpty && d.scope != bCompile then some d.scope else none
    typ := if !d.typ.isEmpty && d.typ != bJar then some d.typ else none
    cls := if !d.cls.isEmpty then some d.cls else none
    excl := if !d.excl.isEmpty then some (exclusionsString d.excl) else none
    origin := if !origin.isEmpty then some origin else none }

/-- `strings.Split(e, "|")` (never empty) -/
def splitPipe : Bytes → List Bytes
  | [] => [[]]
  | c :: rest =>
    if c = cPipe then [] :: splitPipe rest
    else match splitPipe rest with
      | h :: t => (c :: h) :: t
      | [] => [[c]]

inductive Outcome (α : Type) where
  | ok (a : α)
  | err
  | panic
  deriving DecidableEq, Repr

/-- `strings.Index(ex, ":")` (`none` = -1) -/
def indexColon : Bytes → Option Nat
  | [] => none
  | c :: rest =>
    if c = cColon then some 0
    else match indexColon rest with
      | none => none
      | some i => some (i + 1)

/-- the two slice expressions `ex[:i]`, `ex[i+1:]` as checked operations: `none` = the run-time
panic "slice bounds out of range" -/
def sliceAround (s : Bytes) (i : Nat) : Option (Bytes × Bytes) :=
  if i + 1 ≤ s.length then some (s.take i, s.drop (i + 1)) else none

/-- the exclusions loop of `MavenDepTypeToDependency`: an empty segment is skipped (`MavenDepType`
leaves the attribute empty when every exclusion had to be skipped), a segment without a colon is the
error `invalid Maven dep.Type`, otherwise the segment is sliced around its first colon -/
def parseExclusions : List Bytes → Outcome (List Exclusion)
  | [] => .ok []
  | seg :: rest =>
    if seg.isEmpty then parseExclusions rest
    else
      match indexColon seg with
      | none => .err
      | some i =>
        match sliceAround seg i with
        | none => .panic
        | some (g, a) =>
          match parseExclusions rest with
          | .ok l => .ok (⟨g, a⟩ :: l)
          | .err => .err
          | .panic => .panic

/-- the value of an attribute, `""` when it is absent -/
def orEmpty : Option Bytes → Bytes
  | some b => b
  | none => []

/-- the scope `MavenDepTypeToDependency` reconstructs: `test` from the Test flag, else the Scope
attribute; both at once is the error `invalid Maven dep.Type` (`none`) -/
def backScope (t : DType) : Option Bytes :=
  let scope0 : Bytes := if t.test then bTest else []
  match t.scope with
  | none => some scope0
  | some s => if !scope0.isEmpty then none else some s

/-- the exclusions it reconstructs -/
def backExclusions (t : DType) : Outcome (List Exclusion) :=
  match t.excl with
  | none => .ok []
  | some e => parseExclusions (splitPipe e)

/-- `MavenDepTypeToDependency(typ)`: the dependency (group, artifact, version empty) and the origin.
The error return for Test together with Scope precedes the exclusions loop. -/
def mavenDepTypeToDependency (t : DType) : Outcome (Dep × Bytes) :=
  match backScope t with
  | none => .err
  | some scope =>
    match backExclusions t with
    | .err => .err
    | .panic => .panic
    | .ok ex =>
      .ok (⟨[], [], [], orEmpty t.typ, orEmpty t.cls, scope, if t.opt then bTrue else [], ex⟩, orEmpty t.origin)

/-- one `RequirementVersion` of the result (system Maven, version type Requirement) -/
structure Req where
  name : Bytes
  ver : Bytes
  typ : DType
  deriving DecidableEq, Repr, Inhabited

def reqOf (d : Dep) : Req := ⟨apiName d.g d.a, d.v, mavenDepType d []⟩

/-- `(*APIClient).Requirements(ctx, vk)` for `vk.System = Maven`, `vk = (name, version)`,
over the fake service `U`. `none` = an error is returned. A name containing `>` is an npm
bundle name for which the client knows no bundled version. -/
def apiRequirementsWith (f : InterpFn) (U : Universe) (name version : Bytes) : Option (List Req) :=
  if name.contains cGt then none
  else
    match apiFetch U name version with
    | none => none                                                -- NotFound
    | some resp =>
      match makeProjectKey name version with
      | none => none
      | some pk => (pipelineWith f (apiCfg U) (toProject pk resp)).map fun p => p.deps.map reqOf

def apiRequirements : Universe → Bytes → Bytes → Option (List Req) := apiRequirementsWith interpolateStr

/-! ## The documented pipeline on the API's view of a lineage -/

def cutKey (k : Key) : Key :=
  match cutColon (apiName k.g k.a) with
  | some (g, a) => ⟨g, a, k.v⟩
  | none => k        -- unreachable: the name contains a colon

def viewExcl (e : Exclusion) : Exclusion :=
  match cutColon (apiName e.g e.a) with
  | some (g, a) => ⟨g, a⟩
  | none => e

def viewDep (d : Dep) : Dep :=
  match cutColon (apiName d.g d.a) with
  | some (g, a) => { d with g := g, a := a, excl := d.excl.map viewExcl }
  | none => d

def viewProfile (f : Profile) : Profile := { f with deps := f.deps.map viewDep, mgmt := f.mgmt.map viewDep }

/-- The POM as a client that asks for the coordinates `k` sees it: the coordinates are `k`'s,
names went through `group:artifact` strings, the packaging is what the example's walk insists on. -/
def view (k : Key) (p : Project) : Project :=
  { g := k.g, a := k.a, v := k.v
    parent := cutKey p.parent
    packaging := bPom
    props := p.props
    deps := p.deps.map viewDep
    mgmt := p.mgmt.map viewDep
    profiles := p.profiles.map viewProfile }

def sameName (k k' : Key) : Bool := decide (apiName k.g k.a = apiName k'.g k'.a ∧ k.v = k'.v)

def viewGet (L : Lineage) (k : Key) : Option Project :=
  ((L.root :: L.repo).find? fun p => sameName p.storeKey k).map (view k)

/-- the example's walk and callback, with the API's activation (none) and the API's start index -/
def viewCfg (L : Lineage) : PipeCfg := ⟨⟨viewGet L, [], blankOS, true⟩, 0, fun _ => Project.empty⟩

def rootKey (L : Lineage) : Key := cutKey L.root.storeKey

def directOnViewWith (f : InterpFn) (L : Lineage) : Option (List Req) :=
  (pipelineWith f (viewCfg L) (view (rootKey L) L.root)).map fun p => p.deps.map reqOf

def directOnView : Lineage → Option (List Req) := directOnViewWith interpolateStr

/-- `apireq <lineage>` of the harness -/
def apiOfLineage (L : Lineage) : Option (List Req) :=
  apiRequirements (universeOf L) (apiName L.root.storeKey.g L.root.storeKey.a) L.root.storeKey.v

/-! ## The compact lineages `C <n> <back> <imp>` (harness `chainLineage`) -/

def natBytes (n : Nat) : Bytes := (Nat.repr n).toList.map fun c => c.toNat.toUInt8

def bG : Bytes := [103]
def b1 : Bytes := [49]
def named (pre : UInt8) (i : Nat) : Bytes := pre :: natBytes i
def plainDep (a v : Bytes) : Dep := ⟨bG, a, v, [], [], [], [], []⟩
def placeholder (k : Bytes) : Bytes := cDollar :: cOpen :: k ++ [cClose]

/-- POM `i` of the chain `g:c0:1 → … → g:c<n>:1 (→ g:c<back>:1)` -/
def chainPom (n : Nat) (back : Option Nat) (imp : Bool) (i : Nat) : Project :=
  { g := bG, a := named 99 i, v := b1
    parent := if i < n then ⟨bG, named 99 (i + 1), b1⟩ else
      match back with
      | some b => ⟨bG, named 99 b, b1⟩
      | none => ⟨[], [], []⟩
    packaging := bPom
    props := if imp then [] else [(named 112 i, natBytes i)]
    deps := if imp then [] else [plainDep (named 100 i) (placeholder (named 112 i))]
    mgmt := if imp && i ≥ 1 then [plainDep (named 109 i) (natBytes i)] else []
    profiles := [] }

def chainLineage (n : Nat) (back : Option Nat) (imp : Bool) : Lineage :=
  let p0 := chainPom n back imp 0
  let root : Project :=
    if imp then
      if n ≥ 1 then
        { p0 with
          parent := ⟨[], [], []⟩
          mgmt := [⟨bG, named 99 1, b1, bPom, [], bImport, [], []⟩]
          deps := [plainDep (named 109 1) []] ++ (if n > 1 then [plainDep (named 109 (n - 1)) []] else []) ++
            [plainDep (named 109 n) []] }
      else { p0 with parent := ⟨[], [], []⟩ }
    else { p0 with deps := p0.deps ++ [plainDep [116, 111, 112] (placeholder (named 112 n))] }
  ⟨root, (List.range n).map fun i => chainPom n back imp (i + 1)⟩

end DepsDev.Model.Maven.Api
