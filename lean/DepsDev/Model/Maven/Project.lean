import DepsDev.Model.Maven.Types
import DepsDev.Model.Maven.Interp
import DepsDev.Gen.C15Consts

/-!
# Model of `Project.MergeParent`, `Properties.merge`, `Project.propertyMap`,
`Dependency.interpolate`, `Project.Interpolate`
(util/maven/project.go 236-308, properties.go 62-103, string.go 44-55, dependency.go 83-92)
-/
namespace DepsDev.Model.Maven
open DepsDev.Gen

/-- `String.merge`: `if *s == "" { *s = s2 }` -/
def strMerge (s s2 : Bytes) : Bytes := if s.isEmpty then s2 else s

/-- `Properties.merge`: `p.Properties = append(parent.Properties, p.Properties...)` -/
def propsMerge (p parent : List (Bytes × Bytes)) : List (Bytes × Bytes) := parent ++ p

/-- `Project.MergeParent` restricted to the modelled fields. ArtifactID, Parent and
Packaging are not merged by the code. -/
def Project.MergeParent (p parent : Project) : Project :=
  { p with
    g := strMerge p.g parent.g
    v := strMerge p.v parent.v
    props := propsMerge p.props parent.props
    mgmt := p.mgmt ++ parent.mgmt          -- DependencyManagement.merge
    deps := p.deps ++ parent.deps }

/-- The String fields `propertyMap` reads, numbered as in `Gen.C15Consts.builtins`. -/
def Project.field (p : Project) : Nat → Bytes
  | 0 => p.g
  | 1 => p.a
  | 2 => p.v
  | 3 => p.parent.g
  | 4 => p.parent.a
  | 5 => p.parent.v
  | _ => []

/-- the closure `addProjectProperty(k, v)` of `propertyMap` -/
def addProjectProperty (m : Dict) (k v : Bytes) : Dict :=
  if v.isEmpty then m else
  -- Do not overwrite the project properties without additional prefix.
  let m := if m.has k then m else m.insert k v
  C15Consts.builtinPrefixes.foldl (fun m pre => m.insert (pre ++ k) v) m

/-- the first loop of `propertyMap`: later declarations replace earlier ones -/
def propsToDict (props : List (Bytes × Bytes)) : Dict :=
  props.foldl (fun m kv => m.insert kv.1 kv.2) []

/-- `Project.propertyMap` (never fails) -/
def Project.propertyMap (p : Project) : Dict :=
  C15Consts.builtins.foldl (fun m kf => addProjectProperty m kf.1 (p.field kf.2)) (propsToDict p.props)

/-- The interpolation function `String.interpolate` applies to one field. The functions
below take it as a parameter (instantiated with `interpolateStr`, i.e. the model of
`interpolating`, everywhere) so that proofs can swap in a provably equal function that
the kernel can evaluate on concrete witnesses. -/
abbrev InterpFn := Dict → Bytes → Bytes × Bool

/-- `Dependency.interpolate`: GroupID, ArtifactID, Version, Scope, Type, Classifier,
Optional; exclusions are not interpolated. -/
def Dep.interpolateWith (f : InterpFn) (m : Dict) (d : Dep) : Dep × Bool :=
  let g := f m d.g
  let a := f m d.a
  let v := f m d.v
  let sc := f m d.scope
  let t := f m d.typ
  let c := f m d.cls
  let o := f m d.opt
  ({ d with g := g.1, a := a.1, v := v.1, scope := sc.1, typ := t.1, cls := c.1, opt := o.1 },
   g.2 && a.2 && v.2 && sc.2 && t.2 && c.2 && o.2)

/-- the two dependency loops of `Project.Interpolate`: entries without groupId or
artifactId are skipped, entries with an unresolved placeholder are dropped -/
def interpolateDepsWith (f : InterpFn) (m : Dict) : List Dep → List Dep
  | [] => []
  | d :: rest =>
    if d.g.isEmpty || d.a.isEmpty then interpolateDepsWith f m rest
    else
      let r := d.interpolateWith f m
      if r.2 then r.1 :: interpolateDepsWith f m rest else interpolateDepsWith f m rest

/-- `Project.Interpolate` on the modelled fields (Packaging keeps whatever
`interpolating` returned, resolved or not). -/
def Project.InterpolateWith (f : InterpFn) (p : Project) : Project :=
  let m := p.propertyMap
  { p with
    packaging := (f m p.packaging).1
    deps := interpolateDepsWith f m p.deps
    mgmt := interpolateDepsWith f m p.mgmt }

abbrev Dep.interpolate (m : Dict) (d : Dep) : Dep × Bool := d.interpolateWith interpolateStr m
abbrev interpolateDeps (m : Dict) (ds : List Dep) : List Dep := interpolateDepsWith interpolateStr m ds
abbrev Project.Interpolate (p : Project) : Project := p.InterpolateWith interpolateStr

end DepsDev.Model.Maven
