import DepsDev.Model.Bytes

/-!
# The POM subset of property C15 as an abstract syntax tree

Subset of `maven.Project` (util/maven/project.go) that determines
`Project.Dependencies` and `Project.DependencyManagement` after the documented
pipeline. XML decoding is outside the model: the harness renders these trees to
pom.xml texts and decodes them with the real `encoding/xml` + `maven` package; the
well-formedness predicate (`Lineage.wf`, checked by harness and driver alike)
keeps every string inside the alphabet on which decoding is the identity.

Fields that do not influence the two observed lists (name, description, url,
licenses, developers, scm, issueManagement, distributionManagement,
repositories, build) are not modelled; `packaging` is (parents must be `pom`).
-/
namespace DepsDev.Model.Maven

/-- `maven.ProjectKey` -/
structure Key where
  g : Bytes
  a : Bytes
  v : Bytes
  deriving DecidableEq, Repr, Inhabited

/-- `maven.Exclusion` -/
structure Exclusion where
  g : Bytes
  a : Bytes
  deriving DecidableEq, Repr, Inhabited

/-- `maven.Dependency` (Optional is a `FalsyBool`, i.e. a string) -/
structure Dep where
  g : Bytes
  a : Bytes
  v : Bytes
  typ : Bytes
  cls : Bytes
  scope : Bytes
  opt : Bytes
  excl : List Exclusion
  deriving DecidableEq, Repr, Inhabited

/-- `maven.DependencyKey` -/
structure DepKey where
  g : Bytes
  a : Bytes
  typ : Bytes
  cls : Bytes
  deriving DecidableEq, Repr, Inhabited

/-- `<activation><jdk>` restricted to dotted decimal versions: a version (`1.8`),
a negated version (`!1.8`), or one range `[lo,hi)` with optional ends. The harness
renders it to text; `semver.Maven` parsing of that text is not modelled, only its
outcome on this grammar (see `Profile.lean`). -/
inductive Jdk where
  | absent
  | simple (neg : Bool) (v : List Nat)
  | range (loIncl : Bool) (lo : Option (List Nat)) (hi : Option (List Nat)) (hiIncl : Bool)
  deriving DecidableEq, Repr, Inhabited

/-- `maven.ActivationOS` -/
structure OS where
  name : Bytes
  family : Bytes
  arch : Bytes
  version : Bytes
  deriving DecidableEq, Repr, Inhabited

/-- `maven.Profile` with `Activation{ActiveByDefault, JDK, OS}` (no property/file activation) -/
structure Profile where
  abd : Bytes
  jdk : Jdk
  os : OS
  props : List (Bytes × Bytes)
  deps : List Dep
  mgmt : List Dep
  deriving DecidableEq, Repr, Inhabited

/-- `maven.Project` -/
structure Project where
  g : Bytes
  a : Bytes
  v : Bytes
  parent : Key
  packaging : Bytes
  props : List (Bytes × Bytes)
  deps : List Dep
  mgmt : List Dep
  profiles : List Profile
  deriving DecidableEq, Repr, Inhabited

/-- The zero value `maven.Project{}` -/
def Project.empty : Project :=
  { g := [], a := [], v := [], parent := ⟨[], [], []⟩, packaging := [], props := [], deps := [], mgmt := [], profiles := [] }

/-- A project with the repository it is resolved against. `repo` plays the role of
Maven Central in `fetchProject`: a POM is stored under its effective coordinates
(own groupId/version, else the parent's), first match wins. -/
structure Lineage where
  root : Project
  repo : List Project
  deriving DecidableEq, Repr, Inhabited

/-- Byte literals used by the code. -/
def bPom : Bytes := [112, 111, 109]
def bJar : Bytes := [106, 97, 114]
def bImport : Bytes := [105, 109, 112, 111, 114, 116]
def bTrue : Bytes := [116, 114, 117, 101]
def bFalse : Bytes := [102, 97, 108, 115, 101]
def bCompile : Bytes := [99, 111, 109, 112, 105, 108, 101]

/-- Where a POM is stored in the repository. -/
def Project.storeKey (p : Project) : Key :=
  ⟨if p.g.isEmpty then p.parent.g else p.g, p.a, if p.v.isEmpty then p.parent.v else p.v⟩

/-- `fetchProject`: first POM stored under the key. -/
def fetch (repo : List Project) (k : Key) : Option Project :=
  repo.find? fun p => p.storeKey = k

end DepsDev.Model.Maven
