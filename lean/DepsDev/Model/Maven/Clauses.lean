import DepsDev.Model.Maven.Pipeline
import DepsDev.Ref.MavenModel

/-!
# The hypothesis clauses of the partial equality theorem of C15

Decidable (Bool-valued) predicates on the lineage. Each is `true` when the
hypothesis HOLDS. The harness mirrors them (harness/cmd/c15/classify.go) and the
two are kept equal by the correspondence op `classify`. They are phrased with the
library's own merge order and interpolation table, i.e. with the model functions.
-/
namespace DepsDev.Model.Maven.Clauses
open DepsDev DepsDev.Model.Maven DepsDev.Ref

def hasPlaceholder (s : Bytes) : Bool := MavenModel.containsSub s [cDollar, cOpen]

/-- May an import-scoped entry of the lineage refer to the POM stored under `k`?
(An entry with a placeholder in its coordinates may refer to anything.) -/
def importTarget (L : Lineage) (k : Key) : Bool :=
  let hit := fun (ds : List Dep) => ds.any fun d =>
    (d.scope == bImport || hasPlaceholder d.scope) &&
    ((⟨d.g, d.a, d.v⟩ : Key) == k || hasPlaceholder d.g || hasPlaceholder d.a || hasPlaceholder d.v)
  (L.root :: L.repo).any fun p => hit p.mgmt || p.profiles.any fun f => hit f.mgmt

/-- the root project merged with its ancestors, before `Interpolate` -/
def rootUnit (L : Lineage) : Option Project :=
  match L.root.MergeProfiles jdkEnv osEnv with
  | none => none
  | some p => mergeParentsLoop L.repo (Gen.C15Consts.maxMavenParent - 1) 1 [] p.parent p

/-- a repository POM as the import callback merges it, before `Interpolate` -/
def bomUnit (L : Lineage) (x : Project) : Option Project :=
  if importTarget L x.storeKey then
    mergeParentsLoop L.repo (Gen.C15Consts.maxMavenParent - 0) 0 [] x.storeKey Project.empty
  else none

def units (L : Lineage) : List Project :=
  ((rootUnit L) :: L.repo.map (bomUnit L)).filterMap id

/-- (a) every placeholder of every dependency resolves in the library's table, and the
exclusions (which the library does not interpolate) contain none -/
def resolvable (u : Project) : Bool :=
  let m := u.propertyMap
  (u.deps ++ u.mgmt).all fun d =>
    d.g.isEmpty || d.a.isEmpty ||
      ((d.interpolate m).2 && d.excl.all fun e => !hasPlaceholder e.g && !hasPlaceholder e.a)

def allDistinct : List DepKey → Bool
  | [] => true
  | k :: rest => !rest.contains k && allDistinct rest

/-- (b) no duplicate key within one POM (own lists plus those of its active profiles) -/
def noDup (p : Project) : Bool :=
  match p.MergeProfiles jdkEnv osEnv with
  | none => true
  | some q => allDistinct (q.deps.map Dep.key) && allDistinct (q.mgmt.map Dep.key)

def stablePairs : List (DepKey × DepKey) → Bool
  | [] => true
  | x :: rest => rest.all (fun y => (x.1 == y.1) == (x.2 == y.2)) && stablePairs rest

def keyPairs (m : Dict) (ds : List Dep) : List (DepKey × DepKey) :=
  (ds.filter fun d => !(d.g.isEmpty || d.a.isEmpty)).map fun d => (d.key, (d.interpolate m).1.key)

/-- (c) two entries have the same key before interpolation iff they have the same key after -/
def stable (u : Project) : Bool :=
  let m := u.propertyMap
  stablePairs (keyPairs m u.deps) && stablePairs (keyPairs m u.mgmt)

/-- (d) no negated JDK activation -/
def noBang (p : Project) : Bool :=
  p.profiles.all fun f => match f.jdk with
    | .simple true _ => false
    | _ => true

/-- (g) the library's activation rule and Maven's give the same answer on every profile -/
def actAgree (p : Project) : Bool :=
  p.profiles.all fun f => match f.activated jdkEnv osEnv with
    | none => true
    | some a => a == MavenModel.activated MavenModel.libEnv f

def bParentDot : Bytes := [112, 97, 114, 101, 110, 116, 46]

/-- (f) no `parent.` built-in in a merged BOM -/
def noParentRef (u : Project) : Bool :=
  let has := fun (s : Bytes) => MavenModel.containsSub s bParentDot
  u.props.all (fun kv => !has kv.2) &&
  (u.deps ++ u.mgmt).all fun d =>
    !(has d.g || has d.a || has d.v || has d.typ || has d.cls || has d.scope || has d.opt)

def clauseA (L : Lineage) : Bool := (units L).all resolvable
def clauseB (L : Lineage) : Bool := (L.root :: L.repo).all noDup
def clauseC (L : Lineage) : Bool := (units L).all stable
def clauseD (L : Lineage) : Bool := (L.root :: L.repo).all noBang
def clauseG (L : Lineage) : Bool := (L.root :: L.repo).all actAgree
def clauseF (L : Lineage) : Bool :=
  L.repo.all fun x =>
    x.parent == ⟨[], [], []⟩ || match bomUnit L x with
      | none => true
      | some u => noParentRef u

/-- all clauses hold: the lineage is inside the hypotheses of the partial theorem -/
def inside (L : Lineage) : Bool :=
  clauseA L && clauseB L && clauseC L && clauseD L && clauseF L && clauseG L

end DepsDev.Model.Maven.Clauses
