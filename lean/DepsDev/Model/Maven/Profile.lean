import DepsDev.Model.Maven.Types

/-!
# Model of `Profile.activated` and `Project.MergeProfiles` (util/maven/profile.go 71-213)

JDK activation calls `semver.Maven.ParseConstraint/Difference/Match`. On the
`Jdk` grammar of `Types.lean` (dotted decimal numbers) those reduce to numeric
comparison with trailing zeros ignored; that reduction is *modelled, not verified*
here and is tied to the code by the correspondence stream only.
-/
namespace DepsDev.Model.Maven

def allZero : List Nat → Bool
  | [] => true
  | x :: xs => x == 0 && allZero xs

/-- Maven numeric comparison: element-wise, a missing element counts as 0. -/
def cmpNums : List Nat → List Nat → Ordering
  | [], ys => if allZero ys then .eq else .lt
  | x :: xs, [] => if allZero (x :: xs) then .eq else .gt
  | x :: xs, y :: ys => if x < y then .lt else if x > y then .gt else cmpNums xs ys

/-- `mavenExtension.num(i)`: the i-th number, 0 when absent. -/
def numAt : List Nat → Nat → Nat
  | [], _ => 0
  | x :: _, 0 => x
  | _ :: xs, i + 1 => numAt xs i

/-- the `act.JDK != ""` block of `activated`: `none` = error return,
`some false` = `return false, nil`, `some true` = falls through with `res = true`. -/
def Jdk.check (j : Jdk) (jdk : List Nat) : Option Bool :=
  match j with
  | .absent => some true
  | .simple true _ => none                      -- ParseConstraint: invalid '!'
  | .simple false a =>
    -- cmp, diff := Difference(act.JDK, jdk); inactive if cmp > 0 or (cmp < 0 and diff is major or minor)
    match cmpNums a jdk with
    | .gt => some false
    | .lt => some (numAt a 0 = numAt jdk 0 && numAt a 1 = numAt jdk 1)
    | .eq => some true
  | .range loIncl lo hi hiIncl =>
    let okLo := match lo with
      | none => true
      | some l => match cmpNums l jdk with
        | .lt => true
        | .eq => loIncl
        | .gt => false
    let okHi := match hi with
      | none => true
      | some h => match cmpNums jdk h with
        | .lt => true
        | .eq => hiIncl
        | .gt => false
    some (okLo && okHi)

def OS.blank (o : OS) : Bool := o.name.isEmpty && o.family.isEmpty && o.arch.isEmpty && o.version.isEmpty

/-- `strings.ToLower` on ASCII (the well-formedness predicate keeps inputs ASCII) -/
def toLower (b : Bytes) : Bytes := b.map fun c => if 65 ≤ c ∧ c ≤ 90 then c + 32 else c

/-- the closure `isAllowed(value, expected)` -/
def isAllowed (value expected : Bytes) : Bool :=
  if value.isEmpty then true else
  match value with
  | 33 :: rest => toLower rest != expected     -- "!" prefix: negate
  | _ => toLower value == expected

/-- `Profile.activated(jdk, os)`; `jdk = []` stands for the empty string. -/
def Profile.activated (p : Profile) (jdk : List Nat) (os : OS) : Option Bool :=
  if jdk.isEmpty && os.blank then some false else
  match (if p.jdk = .absent then some true else p.jdk.check jdk) with
  | none => none
  | some false => some false
  | some true =>
    let res := p.jdk != .absent
    if !p.os.blank then
      if !isAllowed p.os.family os.family || !isAllowed p.os.name os.name ||
         !isAllowed p.os.version os.version || !isAllowed p.os.arch os.arch then some false
      else some true
    else some res

/-- the body of the final loop of `MergeProfiles` for one active profile -/
def mergeProfile (p : Project) (prof : Profile) : Project :=
  { p with
    props := p.props ++ prof.props      -- prof.Properties.merge(p.Properties); p.Properties = prof.Properties
    mgmt := p.mgmt ++ prof.mgmt
    deps := p.deps ++ prof.deps }

/-- `FalsyBool.Boolean` -/
def falsyBoolean (b : Bytes) : Bool := b == bTrue

/-- the profiles `MergeProfiles` merges: the activated ones, or the default ones when none is -/
def activeProfiles (p : Project) (jdk : List Nat) (os : OS) : List Profile :=
  let active := p.profiles.filter fun pr => pr.activated jdk os == some true
  if active.isEmpty then p.profiles.filter fun pr => falsyBoolean pr.abd else active

/-- `Project.MergeProfiles`: an activation error is kept while the other profiles are
tried and returned at the end; callers then discard the project (`none`). -/
def Project.MergeProfiles (p : Project) (jdk : List Nat) (os : OS) : Option Project :=
  if p.profiles.any (fun pr => pr.activated jdk os == none) then none
  else some ((activeProfiles p jdk os).foldl mergeProfile p)

end DepsDev.Model.Maven
