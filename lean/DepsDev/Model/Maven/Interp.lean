import DepsDev.Model.Bytes

/-!
# Model of `interpolating` (util/maven/string.go, lines 124-167 at the pinned commit)

```go
func interpolating(s string, dictionary map[string]string, resolving map[string]bool) (string, bool) {
	resolved := true
	var dst strings.Builder
	for {
		i := strings.Index(s, "${")          -- findOpen
		if i < 0 { break }
		j := strings.Index(s[i:], "}")       -- findClose (on the text after "${")
		if j < 0 { break }
		dst.WriteString(s[:i]); s = s[i:]; key := s[2:j]
		if exist, ok := resolving[key]; ok && exist { resolved = false; break }   -- cycle guard
		resolving[key] = true
		if value, ok := dictionary[key]; ok {
			if value, ok = interpolating(value, dictionary, resolving); !ok { resolved = false }
			dst.WriteString(value)
		} else { dst.WriteString(s[:j+1]); resolved = false }
		resolving[key] = false
		s = s[j+1:]
	}
	dst.WriteString(s)
	return dst.String(), resolved
}
```

The Go `map[string]string` is an association list with first-match lookup (the
callers build it with `Dict.insert`, which keeps keys distinct). `resolving` is
the list of the keys whose map entry is currently `true`: the Go code sets the
entry before the nested call and clears it right after, so the set of `true`
keys is exactly the stack of keys under expansion. The loop is written as
recursion on the remaining text; the accumulated `dst`/`resolved` become the
`++`/`&&` of the pieces.

Core Lean only. No fuel: termination is proved with the measure
`(number of dictionary entries whose key is not being resolved, length of s)`.
-/
namespace DepsDev.Model.Maven

/-- `$`, `{`, `}` -/
abbrev cDollar : UInt8 := 36
abbrev cOpen : UInt8 := 123
abbrev cClose : UInt8 := 125

/-- `strings.Index(s, "${")`: the text before the first `${` and the text after it. -/
def findOpen : Bytes → Option (Bytes × Bytes)
  | [] => none
  | [_] => none
  | c :: c2 :: rest2 =>
    if c = cDollar ∧ c2 = cOpen then some ([], rest2)
    else match findOpen (c2 :: rest2) with
      | none => none
      | some (p, r) => some (c :: p, r)

/-- `strings.Index(_, "}")` on the text after `${`: the key and the text after `}`. -/
def findClose : Bytes → Option (Bytes × Bytes)
  | [] => none
  | c :: rest =>
    if c = cClose then some ([], rest)
    else match findClose rest with
      | none => none
      | some (k, r) => some (c :: k, r)

theorem findOpen_spec {s p r} (h : findOpen s = some (p, r)) : s = p ++ cDollar :: cOpen :: r := by
  fun_induction findOpen s generalizing p r with
  | case1 => simp at h
  | case2 => simp at h
  | case3 c c2 rest2 hc =>
    simp at h; obtain ⟨rfl, rfl⟩ := h
    simp [hc.1, hc.2]
  | case4 c c2 rest2 hc h' => simp at h
  | case5 c c2 rest2 hc p' r' h' ih =>
    simp at h; obtain ⟨rfl, rfl⟩ := h
    have := ih h'
    simp [this]

theorem findClose_spec {s k r} (h : findClose s = some (k, r)) : s = k ++ cClose :: r ∧ cClose ∉ k := by
  induction s generalizing k r with
  | nil => simp [findClose] at h
  | cons c rest ih =>
    unfold findClose at h
    split at h
    · rename_i hc
      simp at h; obtain ⟨rfl, rfl⟩ := h
      simp [hc]
    · rename_i hc
      split at h
      · simp at h
      · rename_i k' r' h'
        simp at h; obtain ⟨rfl, rfl⟩ := h
        have := ih h'
        refine ⟨by simp [this.1], ?_⟩
        simp only [List.mem_cons, not_or]
        exact ⟨fun e => hc e.symm, this.2⟩

theorem findOpen_len {s p r} (h : findOpen s = some (p, r)) : r.length < s.length := by
  have := findOpen_spec h; subst this; simp; omega

theorem findClose_len {s k r} (h : findClose s = some (k, r)) : r.length < s.length := by
  have := (findClose_spec h).1; rw [this]; simp; omega

/-- The Go `map[string]string`. Lookup is first match; `insert` replaces in place
or appends, so a dictionary built by `insert` has distinct keys. -/
abbrev Dict := List (Bytes × Bytes)

def Dict.get (d : Dict) (k : Bytes) : Option Bytes := List.lookup k d

/-- `m[k] = v` -/
def Dict.insert : Dict → Bytes → Bytes → Dict
  | [], k, v => [(k, v)]
  | (k', v') :: rest, k, v => if k' = k then (k, v) :: rest else (k', v') :: Dict.insert rest k v

/-- `_, ok := m[k]` -/
def Dict.has (d : Dict) (k : Bytes) : Bool := (d.get k).isSome

/-- Number of dictionary entries whose key is not under expansion (the termination measure). -/
def free (d : Dict) (resolving : List Bytes) : Nat :=
  (d.filter fun kv => !resolving.contains kv.1).length

theorem filter_mono_len {α} (p q : α → Bool) (l : List α) (h : ∀ x, p x = true → q x = true) :
    (l.filter p).length ≤ (l.filter q).length := by
  induction l with
  | nil => simp
  | cons x xs ih =>
    simp only [List.filter_cons]
    have := h x
    cases hp : p x <;> cases hq : q x <;> simp_all <;> omega

theorem free_lt (d : Dict) (resolving : List Bytes) (key v : Bytes)
    (hk : d.get key = some v) (hr : resolving.contains key = false) :
    free d (key :: resolving) < free d resolving := by
  unfold free
  unfold Dict.get at hk
  induction d with
  | nil => simp [List.lookup] at hk
  | cons kv rest ih =>
    obtain ⟨k, w⟩ := kv
    have hle := filter_mono_len (fun kv : Bytes × Bytes => !(key :: resolving).contains kv.1)
      (fun kv => !resolving.contains kv.1) rest (by intro x; simp)
    by_cases hkk : key = k
    · subst hkk
      have hr' : (key ∈ resolving) = False := by simpa using hr
      simp [hr'] at hle ⊢
      omega
    · have hk' : rest.lookup key = some v := by
        simp only [List.lookup] at hk
        have : (key == k) = false := by simpa using hkk
        simpa [this] using hk
      have := ih hk'
      have hne : ¬ k = key := fun e => hkk e.symm
      simp only [List.filter_cons]
      by_cases c1 : k ∈ resolving <;> simp_all <;> omega

set_option linter.unusedVariables false in
/-- `interpolating(s, dictionary, resolving)`: the text and the `resolved` flag. -/
def interpolating (d : Dict) (resolving : List Bytes) (s : Bytes) : Bytes × Bool :=
  match h1 : findOpen s with
  | none => (s, true)                                   -- i < 0: break
  | some (pre, afterOpen) =>
    match h2 : findClose afterOpen with
    | none => (s, true)                                 -- j < 0: break
    | some (key, rest) =>
      if hr : resolving.contains key then
        -- A cycle of keys detected: resolved = false; break; the remainder stays as it is.
        (pre ++ cDollar :: cOpen :: afterOpen, false)
      else
        match hv : d.get key with
        | some v =>
          let r1 := interpolating d (key :: resolving) v   -- resolving[key] = true … = false
          let r2 := interpolating d resolving rest
          (pre ++ r1.1 ++ r2.1, r1.2 && r2.2)
        | none =>
          let r2 := interpolating d resolving rest
          (pre ++ (cDollar :: cOpen :: key ++ [cClose]) ++ r2.1, false)
termination_by (free d resolving, s.length)
decreasing_by
  · apply Prod.Lex.left
    exact free_lt d resolving key v hv (by simpa using hr)
  · apply Prod.Lex.right
    have a := findOpen_len h1
    have b := findClose_len h2
    omega
  · apply Prod.Lex.right
    have a := findOpen_len h1
    have b := findClose_len h2
    omega

/-- `String.interpolate` / `FalsyBool.interpolate`: a fresh `resolving` map per field. -/
def interpolateStr (d : Dict) (s : Bytes) : Bytes × Bool := interpolating d [] s

/-! ## The same loop with an explicit step budget (used to *state* termination and to
evaluate concrete witnesses inside the kernel, where well-founded recursion does not unfold). -/

/-- The loop of `interpolating` with a budget of nested/iterated steps; `none` = budget exhausted. -/
def interpF : Nat → Dict → List Bytes → Bytes → Option (Bytes × Bool)
  | 0, _, _, _ => none
  | fuel + 1, d, resolving, s =>
    match findOpen s with
    | none => some (s, true)
    | some (pre, afterOpen) =>
      match findClose afterOpen with
      | none => some (s, true)
      | some (key, rest) =>
        if resolving.contains key then
          some (pre ++ cDollar :: cOpen :: afterOpen, false)
        else
          match d.get key with
          | some v =>
            match interpF fuel d (key :: resolving) v, interpF fuel d resolving rest with
            | some r1, some r2 => some (pre ++ r1.1 ++ r2.1, r1.2 && r2.2)
            | _, _ => none
          | none =>
            match interpF fuel d resolving rest with
            | some r2 => some (pre ++ (cDollar :: cOpen :: key ++ [cClose]) ++ r2.1, false)
            | none => none

/-- Longest value of the dictionary. -/
def maxValLen : Dict → Nat
  | [] => 0
  | (_, v) :: rest => max v.length (maxValLen rest)

/-- A budget that always suffices. -/
def need (d : Dict) (resolving : List Bytes) (s : Bytes) : Nat :=
  free d resolving * (maxValLen d + 1) + s.length + 1

end DepsDev.Model.Maven
