import DepsDev.Model.Bytes
import DepsDev.Gen.C07Consts

/-!
# Model of the Maven resolver (`util/resolve/maven/resolve.go`)

Hand-written executable model, same function names and branch order as the Go.
Core Lean only. Tied to the code by the differential correspondence check of C07
(`harness/cmd/c07`, op `resolve`) and by the generated constants `Gen.C07Consts`.

**Boundary.** The model never looks inside a version or requirement string. What the
Go code asks of `semver.Maven` (`ParseConstraint`, `IsSimple`, `Constraint.Match`) and
of `resolve.SortVersions` is *data* of the universe: `Universe.reqs` says for every
requirement string whether it is soft, hard (a range) or unparsable, and which strings
a hard requirement matches; `Package.versions` is in `SortVersions` order. Requirement
semantics are the business of C03/C12.

**Not modelled** (single registry, U5): `version.Registries` attributes, `hasMulti`,
the second multi-registry pass, `Graph.Error`, `Graph.Duration`; the root's `System`
and `VersionType` checks (the root is a Maven concrete version); context cancellation.

**Loops.** `Resolve`'s retry loop runs at most `maxRetries` extra passes: structural
recursion on that constant (`retry`). The breadth-first `for len(todo) > 0` loop takes
fuel (`loop`); the driver supplies `Universe.fuel` (every pass pops each created node
once and a node is a distinct version of the universe: `Props.C07.resolve_terminates`
proves that this fuel is never exhausted).
-/

namespace DepsDev.Resolve.Maven
open DepsDev.Gen

/-! ## dep.Type -/

/-- `dep.Type`: flag mask (Dev 1, Opt 2, Test 4, …) and valued attributes (keys distinct). -/
structure DepType where
  mask : Nat
  attrs : List (Nat × Bytes)
deriving DecidableEq, Repr

/-- `(*dep.Type).GetAttr` (dep/type.go): negative keys are flags in the mask. -/
def DepType.getAttr (t : DepType) (k : Int) : Option Bytes :=
  if k < 0 then (if t.mask &&& (-k).toNat != 0 then some [] else none)
  else t.attrs.lookup k.toNat

def DepType.hasAttr (t : DepType) (k : Int) : Bool := (t.getAttr k).isSome

/-- `AddAttr` for a non-negative key: `attr.Set.SetAttr` (map assignment). -/
def DepType.setAttr (t : DepType) (k : Nat) (v : Bytes) : DepType :=
  { t with attrs := t.attrs.filter (fun a => a.1 != k) ++ [(k, v)] }

/-! ## The universe: what the client answers -/

/-- `resolve.RequirementVersion` as returned by `Client.Requirements`. -/
structure Import where
  name : Bytes
  req : Bytes
  typ : DepType
deriving DecidableEq, Repr

structure Version where
  version : Bytes
  /-- `false`: `Client.Version` finds it but `Client.Versions` does not list it. -/
  listed : Bool
  imports : List Import
deriving DecidableEq, Repr

structure Package where
  name : Bytes
  /-- in `resolve.SortVersions` order (ascending) -/
  versions : List Version
deriving DecidableEq, Repr

inductive ReqKind | soft | hard | bad
deriving DecidableEq, Repr

/-- The answers of `semver.Maven` about one requirement string. -/
structure ReqInfo where
  req : Bytes
  kind : ReqKind
  /-- strings `Constraint.Match` accepts (meaningful for `hard`) -/
  sat : List Bytes
deriving DecidableEq, Repr

structure Universe where
  pkgs : List Package
  reqs : List ReqInfo
deriving Repr

def Universe.package? (u : Universe) (name : Bytes) : Option Package :=
  u.pkgs.find? (fun p => p.name == name)

/-- `LocalClient.AddVersion` registers every dependency's package (with no versions). -/
def Universe.mentioned (u : Universe) (name : Bytes) : Bool :=
  u.pkgs.any fun p => p.versions.any fun v => v.imports.any fun d => d.name == name

/-- `Client.Versions`: `none` = `ErrNotFound`. Listed versions, ascending. -/
def clientVersions (u : Universe) (name : Bytes) : Option (List Bytes) :=
  match u.package? name with
  | some p => some ((p.versions.filter (·.listed)).map (·.version))
  | none => if u.mentioned name then some [] else none

/-- `Client.Version` for a concrete version key (exact string match). -/
def clientVersion (u : Universe) (name ver : Bytes) : Option Version :=
  match u.package? name with
  | some p => p.versions.find? (fun v => v.version == ver)
  | none => none

/-- `Client.Requirements`. -/
def clientRequirements (u : Universe) (name ver : Bytes) : Option (List Import) :=
  (clientVersion u name ver).map (·.imports)

/-- `semver.Maven.ParseConstraint(r)` failed / `IsSimple()` / a range. -/
def reqKind (u : Universe) (r : Bytes) : ReqKind :=
  match u.reqs.find? (fun i => i.req == r) with
  | some i => i.kind
  | none => .bad

/-- `constraint.Match(s)` for the constraint parsed from `r`. -/
def reqMatches (u : Universe) (r s : Bytes) : Bool :=
  match u.reqs.find? (fun i => i.req == r) with
  | some i => i.sat.contains s
  | none => false

/-- Fuel for the breadth-first loop: one iteration per version of the universe, and two to spare. -/
def Universe.fuel (u : Universe) : Nat :=
  (u.pkgs.map (fun p => p.versions.length)).sum + 2

/-! ## findMatch (resolve.go 405–502) -/

inductive FindMatch
  | ok (version : Bytes)
  | noMatch        -- errNoMatch
  | errNotFound    -- resolve.ErrNotFound from the client
  | errOther       -- unparsable requirement / "found no versions matching the constraint" / no requirements
deriving DecidableEq, Repr

/-- The locals of findMatch after the first loop. -/
structure Scan where
  softVersions : List Bytes
  hardConstraints : List Bytes
  /-- index (in `requirements`) of the first hard requirement; Go: -1 -/
  hardIdx : Option Nat
  /-- listed versions, descending -/
  versions : List Bytes
deriving Repr

/-- First loop of findMatch, `i` = index of the head of the remaining requirements. -/
def scan (u : Universe) (name : Bytes) : List Bytes → Nat → Scan → Except FindMatch Scan
  | [], _, s => .ok s
  | r :: rs, i, s =>
    match reqKind u r with
    | .bad => .error .errOther
    | .soft => scan u name rs (i + 1) { s with softVersions := s.softVersions ++ [r] }
    | .hard =>
      let s1 : Except FindMatch Scan :=
        match s.hardIdx with
        | some _ => .ok s
        | none =>
          match clientVersions u name with
          | none => .error .errNotFound
          | some vs => .ok { s with hardIdx := some i, versions := vs.reverse }
      match s1 with
      | .error e => .error e
      | .ok s1 =>
        if !(s1.versions.any (fun v => reqMatches u r v)) then .error .errOther
        else scan u name rs (i + 1) { s1 with hardConstraints := s1.hardConstraints ++ [r] }

def matchesAll (u : Universe) (hard : List Bytes) (ver : Bytes) : Bool :=
  hard.all (fun c => reqMatches u c ver)

/-- Second part of findMatch: walk the soft versions; position `i`. -/
def pick (u : Universe) (name : Bytes) (s : Scan) : List Bytes → Nat → FindMatch
  | [], i =>
    if s.hardIdx == some i then
      match s.versions.find? (matchesAll u s.hardConstraints) with
      | some v => .ok v
      | none => .noMatch
    else .noMatch
  | vk :: rest, i =>
    let viaHard : Option Bytes :=
      if s.hardIdx == some i then s.versions.find? (matchesAll u s.hardConstraints) else none
    match viaHard with
    | some v => .ok v
    | none =>
      if matchesAll u s.hardConstraints vk then
        match clientVersion u name vk with
        | some _ => .ok vk
        | none => .errNotFound
      else pick u name s rest (i + 1)

def findMatch (u : Universe) (name : Bytes) (requirements : List Bytes) : FindMatch :=
  match requirements with
  | [] => .errOther
  | _ =>
    match scan u name requirements 0 { softVersions := [], hardConstraints := [], hardIdx := none, versions := [] } with
    | .error e => e
    | .ok s => pick u name s s.softVersions 0

/-! ## Keys, graph, state -/

/-- `packageKey` (resolve.go 82–88): the artifact key. -/
structure PackageKey where
  name : Bytes
  classifier : Bytes
  typ : Bytes
deriving DecidableEq, Repr

/-- `resolve.VersionKey` of a Maven version (concrete) or requirement. -/
structure VK where
  name : Bytes
  version : Bytes
deriving DecidableEq, Repr

/-- `versionKey` (resolve.go 92–95). -/
structure VersionKey where
  pk : PackageKey
  vk : VK
deriving DecidableEq, Repr

/-- `packageKeyForDependency` (resolve.go 573–586). -/
def packageKeyForDependency (name : Bytes) (t : DepType) : PackageKey :=
  { name := name
    classifier := (t.getAttr C07Consts.keyClassifier).getD []
    typ := match t.getAttr C07Consts.keyArtifactType with
      | some ty => if ty != C07Consts.defaultArtifactType then ty else []
      | none => [] }

/-- The artifact key with default classifier and type. -/
def defaultKey (name : Bytes) : PackageKey := { name := name, classifier := [], typ := [] }

/-- Hypothesis of `Props.C07.m1_partial` (its negation classifies F-C07-classifier): every
declaration of the universe has the default classifier and type ("jar" counts as default).
Tied to the harness's classifier by the correspondence op `defaultkeys`. -/
def DefaultKeys (u : Universe) : Bool :=
  u.pkgs.all fun p => p.versions.all fun v => v.imports.all fun d =>
    packageKeyForDependency d.name d.typ == defaultKey d.name

structure Node where
  vk : VK
  /-- `NodeError.Req` of each error (messages are not modelled) -/
  errors : List VK
deriving DecidableEq, Repr

structure Edge where
  src : Nat
  dst : Nat
  req : Bytes
  typ : DepType
deriving DecidableEq, Repr

structure Graph where
  nodes : List Node
  edges : List Edge
deriving Repr

def Graph.addNode (g : Graph) (vk : VK) : Graph × Nat :=
  ({ g with nodes := g.nodes ++ [{ vk := vk, errors := [] }] }, g.nodes.length)

/-- `Graph.AddEdge`: `none` = the "node not in graph" error. -/
def Graph.addEdge (g : Graph) (src dst : Nat) (req : Bytes) (t : DepType) : Option Graph :=
  if src < g.nodes.length ∧ dst < g.nodes.length then
    some { g with edges := g.edges ++ [{ src := src, dst := dst, req := req, typ := t }] }
  else none

/-- `Graph.AddError`; resolve ignores its error result, so out of range is a no-op. -/
def Graph.addError (g : Graph) (n : Nat) (req : VK) : Graph :=
  { g with nodes := g.nodes.modify n (fun nd => { nd with errors := nd.errors ++ [req] }) }

/-- Go `version` struct (resolve.go 56–69) without repositories. -/
structure Todo where
  key : VersionKey
  includesDependencies : Bool
  /-- `map[string]bool` (all values true); `none` = nil map -/
  exclusions : Option (List Bytes)
deriving DecidableEq, Repr

/-- Go `dependency` struct. -/
structure Dep where
  name : Bytes
  req : Bytes
  typ : DepType
  exclusions : Option (List Bytes)
deriving Repr

/-- `map[packageKey][]resolve.VersionKey`: the requirement strings per artifact key.
Maps are association lists; assignment conses, lookup finds the newest binding. -/
abbrev ReqMap := List (PackageKey × List Bytes)

/-- `requirements[k]` (nil when absent). -/
def ReqMap.get (m : ReqMap) (k : PackageKey) : List Bytes := (m.lookup k).getD []
def ReqMap.set (m : ReqMap) (k : PackageKey) (v : List Bytes) : ReqMap := (k, v) :: m

structure State where
  requirements : ReqMap
  g : Graph
  todo : List Todo
  resolvedPackages : List PackageKey
  concreteVersions : List (VersionKey × Nat)
  nodes : List (VK × Nat)
  /-- GHOST (not in the Go code, never read by the model): the todo elements popped so
  far, with the node id `concreteVersions[cur.versionKey]` and the value of `first`. -/
  done : List (Nat × Bool × Todo)
  /-- GHOST (never read by the model): one entry per node added after the root: its id,
  the edge added together with it (the one carrying `dep.Selector`) and the todo
  element pushed for it. -/
  created : List (Nat × Edge × Todo)
deriving Repr

inductive Err | notfound | other | incompatible
deriving DecidableEq, Repr

/-! ## exclusions (resolve.go 536–551, 588–614) -/

def isSep (c : UInt8) : Bool := C07Consts.exclusionSeparators.contains c

/-- `strings.FieldsFunc(s, sep)` for ASCII separators: maximal non-empty runs of non-separators. -/
def fieldsAux : Bytes → Bytes → List Bytes
  | [], cur => if cur.isEmpty then [] else [cur]
  | c :: cs, cur =>
    if isSep c then (if cur.isEmpty then fieldsAux cs [] else cur :: fieldsAux cs [])
    else fieldsAux cs (cur ++ [c])

def parseExclusions (s : Bytes) : Option (List Bytes) :=
  if s.isEmpty then none else some (fieldsAux s [])

/-- `strings.Split(name, ":")` has exactly two fields: returns them. -/
def splitName (name : Bytes) : Option (Bytes × Bytes) :=
  match C07Consts.nameSep with
  | [sep] =>
    let a := name.takeWhile (· != sep)
    match name.dropWhile (· != sep) with
    | [] => none
    | _ :: b => if b.contains sep then none else some (a, b)
  | _ => none

/-- `isExcluded`: `none` = the "invalid name" error. -/
def isExcluded (excl : Option (List Bytes)) (name : Bytes) : Option Bool :=
  match excl with
  | none => some false
  | some x =>
    if x.contains C07Consts.exclAll then some true
    else if x.contains name then some true
    else match splitName name with
      | none => none
      | some (grp, art) =>
        some (x.contains (grp ++ C07Consts.exclGroupSuffix) || x.contains (C07Consts.exclArtifactPrefix ++ art))

/-! ## imports, dependencyManagement (resolve.go 504–571) -/

structure ImportsOpt where
  test : Bool
  opt : Bool
  provided : Bool

/-- resolve.go 215–219: `testImports | optImports | providedImports` for the first element only. -/
def optsOf (first : Bool) : ImportsOpt := { test := first, opt := first, provided := first }

def filterImport (o : ImportsOpt) (imp : Import) : Bool :=
  if !o.test && imp.typ.hasAttr C07Consts.keyTest then false
  else if !o.opt && imp.typ.hasAttr C07Consts.keyOpt then false
  else if imp.typ.hasAttr C07Consts.keyOrigin then false
  else if !o.provided && imp.typ.getAttr C07Consts.keyScope == some C07Consts.scopeProvided then false
  else true

/-- The exclusions a declaration carries (`dep.MavenExclusions`, parsed). -/
def declaredExclusions (t : DepType) : Option (List Bytes) :=
  match t.getAttr C07Consts.keyExclusions with
  | some s => parseExclusions s
  | none => none

def toDep (imp : Import) : Dep :=
  { name := imp.name, req := imp.req, typ := imp.typ, exclusions := declaredExclusions imp.typ }

/-- `(*resolver).imports`; `none` = the (wrapped) client error. -/
def imports (u : Universe) (vk : VK) (o : ImportsOpt) : Option (List Dep) :=
  (clientRequirements u vk.name vk.version).map fun imps => (imps.filter (filterImport o)).map toDep

/-- `(*resolver).dependencyManagement`: later entries overwrite earlier ones. -/
def dependencyManagement (u : Universe) (vk : VK) : Option (List (PackageKey × Bytes)) :=
  (clientRequirements u vk.name vk.version).map fun imps =>
    imps.foldl (fun m imp =>
      if imp.typ.getAttr C07Consts.keyOrigin == some C07Consts.originManagement then
        (packageKeyForDependency imp.name imp.typ, imp.req) :: m
      else m) []

/-! ## resolve (resolve.go 159–393) -/

def includesDependencies (t : DepType) : Bool :=
  match t.getAttr C07Consts.keyArtifactType with
  | some ty => C07Consts.includesDependenciesTypes.contains ty
  | none => false

/-- The version a declaration asks for after the root's dependencyManagement. -/
def managedVersion (mgt : List (PackageKey × Bytes)) (first : Bool) (pk : PackageKey) (req : Bytes) : Bytes :=
  match mgt.lookup pk with
  | some v => if !first then v else req
  | none => req

/-- `c.packageKey` of a declaration. -/
def depKey (d : Dep) : PackageKey := packageKeyForDependency d.name d.typ

/-- `d.Version` after the management override (resolve.go 246–248). -/
def depVer (mgt : List (PackageKey × Bytes)) (first : Bool) (d : Dep) : Bytes :=
  managedVersion mgt first (depKey d) d.req

/-- resolve.go 249–252: append the requirement unless already present. -/
def reqsAfter (m : ReqMap) (pk : PackageKey) (ver : Bytes) : ReqMap :=
  if (m.get pk).contains ver then m else m.set pk (m.get pk ++ [ver])

/-- `concreteVersions[cur.versionKey]` (0 when absent, as a Go map read). -/
def curIdOf (s : State) (cur : Todo) : Nat := (s.concreteVersions.lookup cur.key).getD 0

/-- resolve.go 369, 377–380: `exclusions: cur.exclusions`, and when the declaration has its
own, `mergeExclusions(d.exclusions, cur.exclusions); n.exclusions = d.exclusions`. -/
def mergeExcl (own parent : Option (List Bytes)) : Option (List Bytes) :=
  match own with
  | some de => some (de ++ parent.getD [])
  | none => parent

/-- The todo element pushed for a new node (resolve.go 364–380). -/
def childTodo (cur : Todo) (d : Dep) (c : VersionKey) : Todo :=
  { key := c
    includesDependencies := includesDependencies d.typ
    exclusions := mergeExcl d.exclusions cur.exclusions }

/-- Body of `for _, d := range imps` (resolve.go 229–389). An error carries the
`requirements` map as mutated so far (the retry loop keeps it). -/
def processDep (u : Universe) (mgt : List (PackageKey × Bytes)) (first : Bool) (cur : Todo)
    (d : Dep) (s : State) : Except (Err × ReqMap) State :=
  match isExcluded cur.exclusions d.name with
  | none => .error (.other, s.requirements)
  | some true => .ok s
  | some false =>
    let pk := depKey d
    let ver := depVer mgt first d
    let requirements := reqsAfter s.requirements pk ver
    let curId := curIdOf s cur
    match findMatch u d.name (requirements.get pk) with
    | .noMatch => .ok { s with requirements := requirements, g := s.g.addError curId { name := d.name, version := ver } }
    | .errNotFound => .error (.notfound, requirements)
    | .errOther => .error (.other, requirements)
    | .ok mv =>
      let c : VersionKey := { pk := pk, vk := { name := d.name, version := mv } }
      match s.concreteVersions.lookup c with
      | some id =>
        match s.g.addEdge curId id ver d.typ with
        | none => .error (.other, requirements)
        | some g => .ok { s with requirements := requirements, g := g }
      | none =>
        if s.resolvedPackages.contains pk then
          .error (.incompatible, requirements.set pk (requirements.get pk ++ [ver]))
        else
          match s.nodes.lookup c.vk with
          | some id =>
            match s.g.addEdge curId id ver d.typ with
            | none => .error (.other, requirements)
            | some g => .ok { s with requirements := requirements, g := g }
          | none =>
            let matchID := s.g.nodes.length
            let dt := d.typ.setAttr C07Consts.keySelector.toNat []
            match (s.g.addNode c.vk).1.addEdge curId matchID ver dt with
            | none => .error (.other, requirements)
            | some g2 =>
              let n := childTodo cur d c
              .ok { requirements := requirements, g := g2, todo := s.todo ++ [n]
                    resolvedPackages := pk :: s.resolvedPackages
                    concreteVersions := (c, matchID) :: s.concreteVersions
                    nodes := (c.vk, matchID) :: s.nodes
                    done := s.done
                    created := s.created ++ [(matchID, { src := curId, dst := matchID, req := ver, typ := dt }, n)] }

def processDeps (u : Universe) (mgt : List (PackageKey × Bytes)) (first : Bool) (cur : Todo) :
    List Dep → State → Except (Err × ReqMap) State
  | [], s => .ok s
  | d :: ds, s =>
    match processDep u mgt first cur d s with
    | .error e => .error e
    | .ok s' => processDeps u mgt first cur ds s'

/-- `for first := true; len(todo) > 0; first = false` (resolve.go 202–390). `none` = out of fuel.
Go compares the error of `imports` with `==` against `resolve.ErrNotFound`, but `imports` wraps
it, so the "continue" branch for a missing non-first version is never taken: every client
error here ends the pass with (an error that `errors.Is`) not found. -/
def loop (u : Universe) (mgt : List (PackageKey × Bytes)) : Nat → Bool → State → Except (Err × ReqMap) (Option State)
  | 0, _, s => .ok (if s.todo.isEmpty then some s else none)
  | fuel + 1, first, s =>
    match s.todo with
    | [] => .ok (some s)
    | cur :: rest =>
      let s := { s with todo := rest }
      let curId := curIdOf s cur
      if cur.includesDependencies then
        loop u mgt fuel false { s with done := s.done ++ [(curId, first, cur)] }
      else
        match imports u cur.key.vk (optsOf first) with
        | none => .error (.notfound, s.requirements)
        | some imps =>
          match processDeps u mgt first cur imps s with
          | .error e => .error e
          | .ok s' => loop u mgt fuel false { s' with done := s'.done ++ [(curId, first, cur)] }

def rootKey (root : VK) : VersionKey :=
  { pk := packageKeyForDependency root.name { mask := 0, attrs := [] }, vk := root }

def initState (root : VK) (requirements : ReqMap) : State :=
  { requirements := requirements
    g := { nodes := [{ vk := root, errors := [] }], edges := [] }
    todo := [{ key := rootKey root, includesDependencies := false, exclusions := none }]
    resolvedPackages := [(rootKey root).pk]
    concreteVersions := [(rootKey root, 0)]
    nodes := [(root, 0)]
    done := []
    created := [] }

/-- One pass: `(*resolver).resolve` with `multi = false`. -/
def resolveOnce (u : Universe) (root : VK) (requirements : ReqMap) (fuel : Nat) :
    Except (Err × ReqMap) (Option State) :=
  match clientVersion u root.name root.version with
  | none => .error (.notfound, requirements)
  | some _ =>
    match dependencyManagement u root with
    | none => .error (.notfound, requirements)
    | some mgt => loop u mgt fuel true (initState root requirements)

/-! ## Resolve (resolve.go 101–150) -/

inductive Result
  /-- the graph is `s.g`; `passes` = number of calls of `resolve` -/
  | graph (s : State) (passes : Nat)
  | err (e : Err)
  | outOfFuel
deriving Repr

/-- First call plus `for i := 0; i < maxRetries && errors.Is(err, errIncompatible); i++`:
`n` = retries left, `passes` = calls made before this one. -/
def retry (u : Universe) (root : VK) (fuel : Nat) : Nat → ReqMap → Nat → Result
  | n, requirements, passes =>
    match resolveOnce u root requirements fuel with
    | .ok (some s) => .graph s (passes + 1)
    | .ok none => .outOfFuel
    | .error (.incompatible, requirements') =>
      match n with
      | 0 => .err .incompatible
      | n + 1 => retry u root fuel n requirements' (passes + 1)
    | .error (e, _) => .err e

def Resolve (u : Universe) (root : VK) (fuel : Nat) : Result :=
  retry u root fuel C07Consts.maxRetries [] 0

end DepsDev.Resolve.Maven
