import DepsDev.Model.Resolve.Client

/-!
Line-protocol codec for version lists, requirement lists and client op sequences
(C12, C14 drivers). Mirrors `/verif/harness/resolveops/wire.go`.

* version: `hexver:flags:hextags[:Sys:hexname:type]`; flags ⊆ "bdet" in that order
  (`_` = none; `t` = Tags present, then `hextags` is its value); the last three fields are
  printed only when they differ from the defaults of the op (system, package name, Concrete).
* list: versions joined by `,`; `-` = empty list.
* requirement: `Sys.hexname.hexreq.tflags.hexknown`, tflags ⊆ "dok" (`_` = none; `k` =
  KnownAs present); list joined by `|`, `-` = empty.
-/
namespace DepsDev.Resolve.Wire

open DepsDev DepsDev.Resolve.Match DepsDev.Resolve.Client

def vtypeChar : VersionType → String
  | .unknown => "u" | .concrete => "c" | .requirement => "r"

def vtypeOfWire : String → Option VersionType
  | "u" => some .unknown | "c" => some .concrete | "r" => some .requirement | _ => none

def flagsOf (a : VAttrs) : String :=
  let s := (if a.blocked then "b" else "") ++ (if a.deleted then "d" else "") ++
    (if a.error then "e" else "") ++ (if a.tags.isSome then "t" else "")
  if s.isEmpty then "_" else s

def encAttrs (a : VAttrs) : String :=
  flagsOf a ++ ":" ++ Bytes.toHex (match a.tags with | some t => t | none => [])

def decAttrs (flags tags : String) : Option VAttrs := do
  let t ← Bytes.ofHex tags
  let cs := flags.toList
  if flags != "_" && !(cs.all (fun c => c == 'b' || c == 'd' || c == 'e' || c == 't')) then none
  let hasT := cs.contains 't'
  if !hasT && !t.isEmpty then none
  some { blocked := cs.contains 'b', deleted := cs.contains 'd', error := cs.contains 'e',
         tags := if hasT then some t else none }

def encVersion (dsys : RSystem) (dname : Bytes) (v : Version) : String :=
  let base := Bytes.toHex v.key.version ++ ":" ++ encAttrs v.attrs
  if v.key.pk.sys = dsys ∧ v.key.pk.name = dname ∧ v.key.vtype = .concrete then base
  else base ++ ":" ++ v.key.pk.sys.wireName ++ ":" ++ Bytes.toHex v.key.pk.name ++ ":" ++ vtypeChar v.key.vtype

def decVersion (dsys : RSystem) (dname : Bytes) (s : String) : Option Version :=
  match s.splitOn ":" with
  | [hv, fl, tg] => do
    let ver ← Bytes.ofHex hv
    let a ← decAttrs fl tg
    some { key := { pk := { sys := dsys, name := dname }, vtype := .concrete, version := ver }, attrs := a }
  | [hv, fl, tg, sy, hn, ty] => do
    let ver ← Bytes.ofHex hv
    let a ← decAttrs fl tg
    let sys ← RSystem.ofWire sy
    let name ← Bytes.ofHex hn
    let vt ← vtypeOfWire ty
    some { key := { pk := { sys := sys, name := name }, vtype := vt, version := ver }, attrs := a }
  | _ => none

def encList (dsys : RSystem) (dname : Bytes) (vs : List Version) : String :=
  if vs.isEmpty then "-" else ",".intercalate (vs.map (encVersion dsys dname))

def decList (dsys : RSystem) (dname : Bytes) (s : String) : Option (List Version) :=
  if s == "-" then some [] else (s.splitOn ",").mapM (decVersion dsys dname)

def tflagsOf (t : DepType) : String :=
  let s := (if t.dev then "d" else "") ++ (if t.opt then "o" else "") ++ (if t.knownAs.isSome then "k" else "")
  if s.isEmpty then "_" else s

def encReq (d : RequirementVersion) : String :=
  d.key.pk.sys.wireName ++ "." ++ Bytes.toHex d.key.pk.name ++ "." ++ Bytes.toHex d.key.version ++ "." ++
    tflagsOf d.typ ++ "." ++ Bytes.toHex (match d.typ.knownAs with | some n => n | none => [])

def decReq (s : String) : Option RequirementVersion :=
  match s.splitOn "." with
  | [sy, hn, hv, fl, hk] => do
    let sys ← RSystem.ofWire sy
    let name ← Bytes.ofHex hn
    let ver ← Bytes.ofHex hv
    let k ← Bytes.ofHex hk
    let cs := fl.toList
    if fl != "_" && !(cs.all (fun c => c == 'd' || c == 'o' || c == 'k')) then none
    let hasK := cs.contains 'k'
    if !hasK && !k.isEmpty then none
    some { key := { pk := { sys := sys, name := name }, vtype := .requirement, version := ver },
           typ := { dev := cs.contains 'd', opt := cs.contains 'o', knownAs := if hasK then some k else none } }
  | _ => none

def encReqs (ds : List RequirementVersion) : String :=
  if ds.isEmpty then "-" else "|".intercalate (ds.map encReq)

def decReqs (s : String) : Option (List RequirementVersion) :=
  if s == "-" then some [] else (s.splitOn "|").mapM decReq

/-- One op of a `C14 seq` line, with the defaults used to print its result. -/
def decOp (s : String) : Option (Op × RSystem × Bytes) :=
  match s.splitOn ":" with
  | ["add", sy, hn, ty, hv, fl, tg, rq] => do
    let sys ← RSystem.ofWire sy
    let name ← Bytes.ofHex hn
    let vt ← vtypeOfWire ty
    let ver ← Bytes.ofHex hv
    let a ← decAttrs fl tg
    let ds ← decReqs rq
    some (.add { key := { pk := { sys := sys, name := name }, vtype := vt, version := ver }, attrs := a } ds, sys, name)
  | [op, sy, hn, ty, hv] => do
    let sys ← RSystem.ofWire sy
    let name ← Bytes.ofHex hn
    let vt ← vtypeOfWire ty
    let ver ← Bytes.ofHex hv
    let vk : VersionKey := { pk := { sys := sys, name := name }, vtype := vt, version := ver }
    if op == "ver" then some (.ver vk, sys, name)
    else if op == "reqs" then some (.reqs vk, sys, name)
    else none
  | ["vers", sy, hn] => do
    let sys ← RSystem.ofWire sy
    let name ← Bytes.ofHex hn
    some (.vers { sys := sys, name := name }, sys, name)
  | ["match", sy, hn, hv] => do
    let sys ← RSystem.ofWire sy
    let name ← Bytes.ofHex hn
    let ver ← Bytes.ofHex hv
    some (.mtch { pk := { sys := sys, name := name }, vtype := .requirement, version := ver }, sys, name)
  | _ => none

def encObs (dsys : RSystem) (dname : Bytes) : Obs → String
  | .done => "+"
  | .panicked => "!"
  | .notFound => "nf"
  | .attrs a => "a=" ++ encAttrs a
  | .versions vs => "v=" ++ encList dsys dname vs
  | .deps ds => "r=" ++ encReqs ds

/-- `C14 seq op;op;…` → `ok obs;obs;…`. -/
def runSeq (s : String) : Option String := do
  let ops ← (s.splitOn ";").mapM decOp
  let rec go (lc : LocalClient) : List (Op × RSystem × Bytes) → List String
    | [] => []
    | (op, sys, name) :: rest =>
      let (lc', o) := step lc op
      encObs sys name o :: go lc' rest
  some ("ok " ++ ";".intercalate (go LocalClient.new ops))

def outList (dsys : RSystem) (dname : Bytes) : Semver.Outcome (List Version) → String
  | .ok vs => "ok " ++ encList dsys dname vs
  | .err => "err"
  | .panic => "panic"

def pName : Bytes := [112]   -- "p"

/-- C12 ops. -/
def handleC12 : List String → Option String
  | ["matchreq", sy, hr, l] => do
    let sys ← RSystem.ofWire sy
    let req ← Bytes.ofHex hr
    let vs ← decList sys pName l
    some (outList sys pName (matchReq { pk := { sys := sys, name := pName }, vtype := .requirement, version := req } vs))
  | ["sortv", sy, l] => do
    let sys ← RSystem.ofWire sy
    let vs ← decList sys pName l
    some (outList sys pName (sortVersions vs))
  | ["classify", sy, l] => do
    -- the decidable hypothesis of the partial theorems (finding classifier)
    let sys ← RSystem.ofWire sy
    let vs ← decList sys pName l
    let b (x : Bool) : String := if x then "1" else "0"
    some s!"ok lawful={b (orderLawfulB sys.semver vs)}"
  | _ => none

def handleC14 : List String → Option String
  | ["seq", s] => runSeq s
  | _ => none

end DepsDev.Resolve.Wire
