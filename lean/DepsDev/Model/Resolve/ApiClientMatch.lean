/-
`resolve.MatchRequirement` for npm (`util/resolve/match.go`: `sortNPMVersions`,
`matchNPMRequirement`) on top of the semver model. Only the C18 DRIVER uses this
file (to answer `MatchingVersions` on plain package names); the C18 theorems take
`MatchRequirement` as an abstract parameter and never unfold it.

Core Lean only.
-/
import DepsDev.Model.Resolve.ApiClient
import DepsDev.Model.Semver.Constraint

namespace DepsDev.Model.Resolve.ApiClientMatch
open DepsDev
open DepsDev.Model.Resolve.ApiClient

/-- `semver.NPM.Parse(v.Version)`: `none` = error. A panic of the parser (none is
known for npm) is reported by `anyParsePanics`. -/
def parsed (v : Version) : Option Semver.Version :=
  match Semver.parse .npm v.key.version with
  | .ok sv => some sv
  | _ => none

def anyParsePanics (vs : List Version) : Bool :=
  vs.any fun v => match Semver.parse .npm v.key.version with | .panic => true | _ => false

/-- `less` of the `sort.Slice` in `sortNPMVersions` (match.go:69-81). -/
def versionLess (a b : Version) : Bool :=
  match parsed a, parsed b with
  | some _, none => true
  | none, some _ => false
  | some av, some bv =>
    match Semver.vcompare av bv with
    | .ok c => if c != 0 then c < 0 else bytesLt a.key.version b.key.version
    | _ => bytesLt a.key.version b.key.version      -- unreachable for two npm versions
  | none, none => bytesLt a.key.version b.key.version

/-- `strings.Split(s, ",")` (one-byte separator): `""` gives `[""]`, consecutive separators give
empty elements. -/
def splitByte (c : UInt8) (s : Bytes) : List Bytes :=
  let r := s.foldr (fun x (acc : Bytes × List Bytes) =>
    if x = c then ([], acc.1 :: acc.2) else (x :: acc.1, acc.2)) ([], [])
  r.1 :: r.2

/-- the `latest` scan (match.go:88-99): (allPrerelease, latestIdx, latestIsPrerelease). -/
def scanLatest : List Version → Nat → Bool × Option Nat × Bool → Bool × Option Nat × Bool
  | [], _, acc => acc
  | v :: vs, i, (allPre, idx, lpre) =>
    let sv := parsed v
    let allPre := match sv with | some s => allPre && s.isPrerelease | none => false
    let tags := v.attrs.tags.getD []                 -- `tags, _ := v.GetAttr(version.Tags)`
    let (idx, lpre) :=
      -- `slices.Contains(strings.Split(tags, ","), "latest")` (was `strings.Contains`: F-C12-latest-substr)
      if (splitByte 44 tags).contains latestTag then (some i, match sv with | some s => s.isPrerelease | none => false)
      else (idx, lpre)
    scanLatest vs (i + 1) (allPre, idx, lpre)

/-- `sortNPMVersions` (match.go:60-109). -/
def sortNPMVersions (vs : List Version) : List Version :=
  let sorted := stableSort versionLess vs
  match scanLatest sorted 0 (true, none, false) with
  | (allPre, some i, lpre) =>
    if !(lpre && !allPre) then
      match sorted[i]? with
      | some latest => sorted.eraseIdx i ++ [latest]
      | none => sorted
    else sorted
  | _ => sorted

/-- `matchNPMRequirement` (match.go:166-192). -/
def matchNPMRequirement (req : VersionKey) (vers : List Version) : Res (List Version) :=
  if anyParsePanics vers then .panic else
  let vers := sortNPMVersions vers
  match Semver.parseConstraint .npm req.version with
  | .panic => .panic
  | .err =>
    match vers.find? fun v =>
        req.version == v.key.version ||
        (splitByte 44 (v.attrs.tags.getD [])).any (fun tag => req.version == tag) with
    | some v => .ok [v]
    | none => .ok []
  | .ok c =>
    let step (acc : Res (List Version)) (v : Version) : Res (List Version) :=
      match acc with
      | .ok l =>
        match c.matchStr v.key.version with
        | .ok true => .ok (l ++ [v])
        | .ok false => .ok l
        | _ => .panic
      | r => r
    vers.foldl step (.ok [])

end DepsDev.Model.Resolve.ApiClientMatch
