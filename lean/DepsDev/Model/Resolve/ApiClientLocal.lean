/-
The in-memory client (`resolve.LocalClient`, util/resolve/client.go:62-160) as far as
C18/B5 needs it: its two maps as functions, its four read calls, and `load`, the
content that "the same data" amounts to for a service `S`.

`load` is stated by content, not by replaying `AddVersion` calls:
* a plain package holds the versions `GetPackage` lists, in `SortVersions` order
  (`AddVersion` sorts on every insertion; `sortVers` is that sort, abstract here);
* a package that the service does not serve but that some loaded requirement
  mentions holds the EMPTY list (`AddVersion`: "Ensure dependency packages exist");
* a plain Concrete version imports what `Requirements` answers for it;
* every bundle `k ↦ e` of `F` (the bundles the service's responses define, `F(S)`) is
  a package with the single version `e.version` importing `e.requirements`.

Core Lean only.
-/
import DepsDev.Model.Resolve.ApiClient

namespace DepsDev.Model.Resolve.ApiClient

/-- `LocalClient`: `PackageVersions` and `imports`. -/
structure Local where
  packageVersions : Bytes → Option (List Version)
  imports : VersionKey → Option (List ReqVer)

namespace Local

/-- `LocalClient.Version` (client.go:112-119); a missing package reads as the nil slice. -/
def version (lc : Local) (vk : VersionKey) : Res Version :=
  let vs := match lc.packageVersions vk.name with
    | some vs => vs
    | none => []
  Res.ofOption (vs.find? fun v => v.key = vk)

/-- `LocalClient.Versions` (client.go:123-128). -/
def versions (lc : Local) (name : Bytes) : Res (List Version) :=
  match lc.packageVersions name with
  | some vs => .ok vs
  | none => .err

/-- `LocalClient.Requirements` (client.go:131-136). -/
def requirements (lc : Local) (vk : VersionKey) : Res (List ReqVer) :=
  match lc.imports vk with
  | some ds => .ok ds
  | none => .err

/-- `LocalClient.MatchingVersions` (client.go:140-150). -/
def matchingVersions (matchReq : VersionKey → List Version → Res (List Version))
    (lc : Local) (vk : VersionKey) : Res (List Version) :=
  match lc.packageVersions vk.name with
  | some vs => matchReq vk vs
  | none => .err

/-- one call on the (read-only) in-memory client. -/
def exec (matchReq : VersionKey → List Version → Res (List Version)) (lc : Local) : Call → Obs
  | .version vk => .version (lc.version vk)
  | .versions n => .versions (lc.versions n)
  | .requirements vk => .requirements (lc.requirements vk)
  | .matching vk => .versions (lc.matchingVersions matchReq vk)

end Local

/-- the versions of a plain package as the API client lists them. -/
def plainVersions (S : Service) (name : Bytes) : Option (List Version) :=
  (S.getPackage name).map fun vs => vs.map fun v => makeVersion ⟨name, .concrete, v.version⟩ v.isDefault []

/-- the requirements of a plain version as the API client answers them. -/
def plainRequirements (S : Service) (vk : VersionKey) : Option (List ReqVer) :=
  match S.getRequirements vk.name vk.version with
  | some (some reqs) => (buildAllDeps vk reqs).map (rootDeps vk.name)
  | _ => none

/-- the in-memory client holding the data of `S`; `F` = the bundles its responses
define, `mentioned` = the package names loaded requirements mention. -/
def load (sortVers : List Version → List Version) (mentioned : Bytes → Bool)
    (S : Service) (F : Store) : Local where
  packageVersions n :=
    if isNPMBundle n then (F n).map fun e => [e.version]
    else match plainVersions S n with
      | some vs => some (sortVers vs)
      | none => if mentioned n then some [] else none
  imports vk :=
    if isNPMBundle vk.name then
      match F vk.name with
      | some e => if e.version.key = vk then some e.requirements else none
      | none => none
    else if vk.vtype = .concrete then plainRequirements S vk else none

end DepsDev.Model.Resolve.ApiClient
