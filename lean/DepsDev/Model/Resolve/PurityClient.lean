/-!
# Model of `resolve.LocalClient` as far as insertion order is concerned (client.go l.62-155)

`PackageVersions : map[PackageKey][]Version` and `imports : map[VersionKey][]RequirementVersion`
are finite maps; they are modelled as functions into `Option` (absent key = `none`; reading an
absent key of `PackageVersions` in `AddVersion` gives the nil slice, as in Go). Generic in the
types of package names `P`, version strings `K`, version attributes `A` and dependency payloads
`D` (requirement string and dependency type), in the sorting routines (`SortVersions`,
`SortDependencies`: any functions - the theorems state what they need of them) and in the
`Deleted` test. Core Lean only.
-/

namespace DepsDev.Resolve.Purity

/-- An element of `PackageVersions[pk]`: `resolve.Version` without the (fixed) package key. -/
structure Ver (K A : Type) where
  key : K
  attrs : A
deriving DecidableEq

/-- One call `AddVersion(v, deps)`. -/
structure Add (P K A D : Type) where
  pkg : P
  key : K
  attrs : A
  deps : List (P × D)

structure Store (P K A D : Type) where
  /-- `PackageVersions` -/
  versions : P → Option (List (Ver K A))
  /-- `imports` -/
  imports : P × K → Option (List (P × D))

variable {P K A D : Type} [DecidableEq P] [DecidableEq K]

/-- `NewLocalClient()` -/
def Store.empty : Store P K A D := ⟨fun _ => none, fun _ => none⟩

/-- map assignment `m[a] = b` -/
def setFn {α β : Type} [DecidableEq α] (f : α → β) (a : α) (b : β) : α → β :=
  fun x => if x = a then b else f x

/-- client.go l.88-95: `for i, w := range versions { if w.VersionKey == v.VersionKey { existed = true; versions[i] = v } }` -/
def replaceKey (v : Ver K A) : List (Ver K A) → List (Ver K A) × Bool
  | [] => ([], false)
  | w :: l =>
    let r := replaceKey v l
    if w.key = v.key then (v :: r.1, true) else (w :: r.1, r.2)

/-- l.88-99: replace, or append when it did not exist -/
def upsert (v : Ver K A) (vs : List (Ver K A)) : List (Ver K A) :=
  if (replaceKey v vs).2 then (replaceKey v vs).1 else vs ++ [v]

/-- l.109-113: `for _, d := range deps { if _, ok := lc.PackageVersions[d.PackageKey]; !ok { lc.PackageVersions[d.PackageKey] = []Version{} } }` -/
def ensure (f : P → Option (List (Ver K A))) : List (P × D) → P → Option (List (Ver K A))
  | [] => f
  | d :: ds => ensure (if (f d.1).isSome then f else setFn f d.1 (some [])) ds

/-- `LocalClient.AddVersion` (l.82-114). `deleted` is `v.HasAttr(version.Deleted)`. -/
def addVersion (deleted : A → Bool) (sortV : List (Ver K A) → List (Ver K A))
    (sortD : List (P × D) → List (P × D)) (s : Store P K A D) (a : Add P K A D) : Store P K A D :=
  if deleted a.attrs then s
  else
    let vs := (s.versions a.pkg).getD []          -- Go: missing map key reads as nil
    let vs' := sortV (upsert ⟨a.key, a.attrs⟩ vs)
    let deps' := sortD a.deps
    { versions := ensure (setFn s.versions a.pkg (some vs')) deps'
      imports := setFn s.imports (a.pkg, a.key) (some deps') }

/-- A client built by a sequence of `AddVersion` calls. -/
def build (deleted : A → Bool) (sortV : List (Ver K A) → List (Ver K A))
    (sortD : List (P × D) → List (P × D)) (adds : List (Add P K A D)) : Store P K A D :=
  adds.foldl (addVersion deleted sortV sortD) Store.empty

/-! The client's answers (client.go l.117-155). `MatchingVersions` hands a *copy* of the
version list to `MatchRequirement` (repair F3), so it is a function of `Versions`. -/

def Store.Versions (s : Store P K A D) (pk : P) : Option (List (Ver K A)) := s.versions pk

def Store.Requirements (s : Store P K A D) (vk : P × K) : Option (List (P × D)) := s.imports vk

def Store.Version (s : Store P K A D) (vk : P × K) : Option (Ver K A) :=
  ((s.versions vk.1).getD []).find? (fun v => v.key = vk.2)

def Store.MatchingVersions {Req : Type} (matchReq : Req → List (Ver K A) → List (Ver K A))
    (s : Store P K A D) (pk : P) (req : Req) : Option (List (Ver K A)) :=
  (s.versions pk).map (matchReq req)

end DepsDev.Resolve.Purity
