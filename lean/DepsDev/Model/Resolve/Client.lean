import DepsDev.Model.Resolve.Match

/-!
# util/resolve/client.go — `LocalClient`; match.go — `SortDependencies`

State machine of the in-memory client. Go maps are association lists with the
invariant "keys distinct" (DESIGN Appendix B); `lookup` of a missing key gives what
Go's map index gives (`nil`, `ok = false`).

Abstractions:

* `dep.Type` is abstracted to what `sortNPMDependencies` reads and the harness sets:
  the flag attributes `Dev` and `Opt` and the `KnownAs` attribute. `a.Type.Equal(dev)`
  (the type is exactly `{Dev}`) is `isDevOnly`.
* `strings.ToLower` is modelled for ASCII names (`Bytes.toLowerAscii`); the harness
  generates ASCII package names only.
* Results are observed at the time of the call (the harness serialises the returned
  slices immediately): aliasing of the returned slices with the internal state is
  outside this model (it is the subject of C05).
* A panicking `SortVersions` inside `AddVersion` (never observed; see Match.lean) is
  modelled for the parse-panic case: the in-place replacement `versions[i] = v` has
  already happened, nothing else is stored.
-/
namespace DepsDev.Resolve.Client

open DepsDev
open DepsDev.Semver (Outcome cmpBytes)
open DepsDev.Resolve.Match

/-- `dep.Type`, abstracted (see the header). -/
structure DepType where
  dev : Bool := false
  opt : Bool := false
  knownAs : Option Bytes := none
  deriving Repr, DecidableEq, Inhabited

/-- `t.Equal(dep.NewType(dep.Dev))`. -/
def DepType.isDevOnly (t : DepType) : Bool := t.dev && !t.opt && t.knownAs.isNone

/-- `resolve.RequirementVersion`. -/
structure RequirementVersion where
  key : VersionKey
  typ : DepType := {}
  deriving Repr, DecidableEq, Inhabited

/-- `na := a.Name; if n, ok := a.Type.GetAttr(dep.KnownAs); ok { na = n }`. -/
def RequirementVersion.effName (d : RequirementVersion) : Bytes :=
  match d.typ.knownAs with
  | some n => n
  | none => d.key.pk.name

/-- The closure of `sortNPMDependencies`. -/
def npmDepLess (a b : RequirementVersion) : Bool :=
  let devA := a.typ.isDevOnly
  let devB := b.typ.isDevOnly
  if devA != devB then devB      -- sort dev alone at the end
  else
    let na := a.effName
    let nb := b.effName
    let la := Bytes.toLowerAscii na
    let lb := Bytes.toLowerAscii nb
    if la != lb then cmpBytes la lb < 0 else cmpBytes na nb > 0

/-- `SortDependencies`: dispatches on the system of the FIRST dependency. -/
def sortDependencies (deps : List RequirementVersion) : List RequirementVersion :=
  match deps with
  | [] => []
  | d :: _ => if d.key.pk.sys = .npm then goSort npmDepLess deps else deps

/-! ### association lists (Go maps) -/

def hasKey {κ β : Type} [DecidableEq κ] (m : List (κ × β)) (k : κ) : Bool := m.any (fun e => e.1 = k)

def lookup {κ β : Type} [DecidableEq κ] (m : List (κ × β)) (k : κ) : Option β :=
  match m.find? (fun e => e.1 = k) with
  | some e => some e.2
  | none => none

/-- `m[k] = b`. -/
def upsert {κ β : Type} [DecidableEq κ] (m : List (κ × β)) (k : κ) (b : β) : List (κ × β) :=
  if hasKey m k then m.map (fun e => if e.1 = k then (k, b) else e) else m ++ [(k, b)]

/-! ### `LocalClient` -/

structure LocalClient where
  /-- `PackageVersions map[PackageKey][]Version`. -/
  packageVersions : List (PackageKey × List Version) := []
  /-- `imports map[VersionKey][]RequirementVersion`. -/
  imports : List (VersionKey × List RequirementVersion) := []
  deriving Repr

/-- `NewLocalClient()`. -/
def LocalClient.new : LocalClient := {}

/-- `lc.PackageVersions[pk]` used as a slice: nil (empty) when the key is missing. -/
def LocalClient.versionsOf (lc : LocalClient) (pk : PackageKey) : List Version :=
  match lookup lc.packageVersions pk with
  | some vs => vs
  | none => []

/-- `if _, ok := lc.PackageVersions[d.PackageKey]; !ok { lc.PackageVersions[d.PackageKey] = []Version{} }`. -/
def ensurePackage (pv : List (PackageKey × List Version)) (d : RequirementVersion) :
    List (PackageKey × List Version) :=
  if hasKey pv d.key.pk then pv else pv ++ [(d.key.pk, [])]

/-- The replace-or-insert loop of `AddVersion`. -/
def replaceOrInsert (versions : List Version) (v : Version) : List Version :=
  if versions.any (fun w => w.key = v.key) then versions.map (fun w => if w.key = v.key then v else w)
  else versions ++ [v]

/-- `AddVersion`. The second component is `.ok ()` on normal return. -/
def addVersion (lc : LocalClient) (v : Version) (deps : List RequirementVersion) : LocalClient × Outcome Unit :=
  if v.attrs.deleted then (lc, .ok ()) else
  let versions := lc.versionsOf v.key.pk
  let versions1 := replaceOrInsert versions v
  match sortVersions versions1 with
  | .ok sorted =>
    let pv := upsert lc.packageVersions v.key.pk sorted
    let deps := sortDependencies deps
    let imports := upsert lc.imports v.key deps
    let pv := deps.foldl ensurePackage pv
    ({ packageVersions := pv, imports := imports }, .ok ())
  | .err | .panic =>
    -- panic inside SortVersions: only the in-place replacement is visible afterwards
    let pv := if versions.any (fun w => w.key = v.key) then upsert lc.packageVersions v.key.pk versions1
              else lc.packageVersions
    ({ lc with packageVersions := pv }, .panic)

/-- What a call returns. -/
inductive Obs where
  | done                                   -- AddVersion returned
  | panicked
  | notFound                               -- error wrapping ErrNotFound
  | attrs (a : VAttrs)                     -- Version: the attributes found
  | versions (vs : List Version)           -- Versions / MatchingVersions
  | deps (ds : List RequirementVersion)    -- Requirements
  deriving Repr, DecidableEq

/-- `LocalClient.Version`. -/
def version (lc : LocalClient) (vk : VersionKey) : Obs :=
  match (lc.versionsOf vk.pk).find? (fun v => v.key = vk) with
  | some v => .attrs v.attrs
  | none => .notFound

/-- `LocalClient.Versions`. -/
def versions (lc : LocalClient) (pk : PackageKey) : Obs :=
  match lookup lc.packageVersions pk with
  | some vs => .versions vs
  | none => .notFound

/-- `LocalClient.Requirements`. -/
def requirements (lc : LocalClient) (vk : VersionKey) : Obs :=
  match lookup lc.imports vk with
  | some ds => .deps ds
  | none => .notFound

/-- `LocalClient.MatchingVersions` (on a copy of the slice: repair F3). -/
def matchingVersions (lc : LocalClient) (vk : VersionKey) : Obs :=
  match lookup lc.packageVersions vk.pk with
  | none => .notFound
  | some vs =>
    match matchReq vk vs with
    | .ok ms => .versions ms
    | .err | .panic => .panicked

inductive Op where
  | add (v : Version) (deps : List RequirementVersion)
  | ver (vk : VersionKey)
  | vers (pk : PackageKey)
  | reqs (vk : VersionKey)
  | mtch (vk : VersionKey)
  deriving Repr

def step (lc : LocalClient) : Op → LocalClient × Obs
  | .add v deps =>
    match addVersion lc v deps with
    | (lc', .ok _) => (lc', .done)
    | (lc', _) => (lc', .panicked)
  | .ver vk => (lc, version lc vk)
  | .vers pk => (lc, versions lc pk)
  | .reqs vk => (lc, requirements lc vk)
  | .mtch vk => (lc, matchingVersions lc vk)

/-- A whole history: final state and the observations in order. -/
def run : LocalClient → List Op → LocalClient × List Obs
  | lc, [] => (lc, [])
  | lc, op :: ops =>
    let (lc1, o) := step lc op
    let (lc2, os) := run lc1 ops
    (lc2, o :: os)

end DepsDev.Resolve.Client
