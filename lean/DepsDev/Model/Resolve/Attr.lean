/-
Model of `util/resolve/internal/attr/set.go` (attr.Set) and of the two wrappers
`dep.Type` (util/resolve/dep/type.go) and `version.AttrSet`
(util/resolve/version/version.go), at the pinned commit.

Go's `attr.Set` is a struct `{Mask uint8; attrs map[uint8]string; attrBits uint64}`.
A Go struct copy (`b := a`) copies `Mask` and `attrBits` but SHARES the map. To make
that expressible the map lives in an explicit heap: a `Set` holds an optional
reference (`none` = Go's nil map) and every operation threads the heap.

Core Lean only. Constants come from `Gen.C19AttrKeys` (never re-typed here).
-/
import DepsDev.Model.Bytes
import DepsDev.Gen.C19AttrKeys

namespace DepsDev.Model.Resolve.Attr
open DepsDev
open DepsDev.Gen

/-- Result of a Go call that can return an error or panic (messages are not modelled). -/
inductive Res (α : Type) where
  | ok : α → Res α
  | err : Res α
  | panic : Res α
deriving Repr, DecidableEq

instance : Monad Res where
  pure := .ok
  bind x f := match x with
    | .ok a => f a
    | .err => .err
    | .panic => .panic

/-- A heap reference (the identity of one Go `map[uint8]string`) is a natural number. -/
abbrev Ref := Nat

/-- Contents of one Go map, as an association list in which the first entry of a
key wins (`insert` conses; there is no delete in the Go code). -/
abbrev AMap := List (Nat × Bytes)

namespace AMap
/-- `m[k]` with the comma-ok form. -/
def get? (m : AMap) (k : Nat) : Option Bytes := List.lookup k m
/-- `m[k]`: Go yields the zero value `""` for a missing key. -/
def get (m : AMap) (k : Nat) : Bytes := (List.lookup k m).getD []
/-- `m[k] = v`. -/
def insert (m : AMap) (k : Nat) (v : Bytes) : AMap := (k, v) :: m
end AMap

/-- The heap of maps: `next` is the next fresh reference. -/
structure Heap where
  next : Nat
  cells : Nat → AMap

namespace Heap
def empty : Heap := ⟨0, fun _ => []⟩
/-- `make(map[uint8]string)` filled with `m`. -/
def alloc (h : Heap) (m : AMap) : Heap × Nat :=
  (⟨h.next + 1, fun r => if r = h.next then m else h.cells r⟩, h.next)
/-- in-place update of the map `r`. -/
def write (h : Heap) (r : Nat) (m : AMap) : Heap :=
  ⟨h.next, fun r' => if r' = r then m else h.cells r'⟩
end Heap

/-- `attr.Set` (set.go:31-43). `ref = none` is the nil map. -/
structure Set where
  mask : Nat := 0
  ref : Option Nat := none
  bits : Nat := 0
deriving DecidableEq, Repr, Inhabited

/-- The zero value of `attr.Set` / `dep.Type` / `version.AttrSet`. -/
def Set.zero : Set := {}

/-- The contents of `s.attrs` (a nil map reads as empty). -/
def Set.attrs (h : Heap) (s : Set) : AMap :=
  match s.ref with
  | none => []
  | some r => h.cells r

/-- `attr.Set.SetAttr` (set.go:52-61). -/
def setAttr (h : Heap) (s : Set) (key : Nat) (value : Bytes) : Res (Heap × Set) :=
  if key ≥ C19AttrKeys.setAttrKeyLimit then .panic   -- panic("key too large")
  else
    let hr : Heap × Nat := match s.ref with
      | some r => (h, r)
      | none => h.alloc []                            -- s.attrs = make(map[uint8]string)
    let h1 := hr.1
    let r := hr.2
    .ok (h1.write r ((h1.cells r).insert key value),
         { s with ref := some r, bits := s.bits ||| (1 <<< key) })

/-- `attr.Set.GetAttr` (set.go:64-67). -/
def getAttr (h : Heap) (s : Set) (key : Nat) : Option Bytes := (s.attrs h).get? key

/-- `attr.Set.Clone` (set.go:70-80): a fresh map with the same entries. -/
def clone (h : Heap) (s : Set) : Heap × Set :=
  let hr := h.alloc (s.attrs h)
  (hr.1, { mask := s.mask, ref := some hr.2, bits := s.bits })

/-- The raw Go struct copy `b := a`: the map is shared. (Not an API of the package:
it is what the language does with the value; used to state the aliasing hazard.) -/
def rawCopy (s : Set) : Set := s

/-- `attr.Set.IsRegular` (set.go:83-85). -/
def isRegular (h : Heap) (s : Set) : Bool := s.mask == 0 && (s.attrs h).isEmpty

/-- The keys visited by the `for remBits != 0 { key := TrailingZeros64(remBits); ... }`
loops (set.go:104-113, 119-127): the set bits of `attrBits` in ascending order. -/
def keysOf (bits : Nat) : List Nat :=
  (List.range C19AttrKeys.attrBitsWidth).filter fun k => bits.testBit k

/-- `strings.Compare`. -/
def stringsCompare (a b : Bytes) : Ordering := compare a b

/-- the attribute loop of `Compare` (set.go:103-113). -/
def compareVals : List Nat → AMap → AMap → Ordering
  | [], _, _ => .eq
  | k :: ks, ma, mb =>
    match stringsCompare (ma.get k) (mb.get k) with
    | .eq => compareVals ks ma mb
    | o => o

/-- `attr.Set.Compare` (set.go:89-116). -/
def compare (h : Heap) (s other : Set) : Ordering :=
  if s.mask < other.mask then .lt
  else if s.mask > other.mask then .gt
  else if s.bits < other.bits then .lt
  else if s.bits > other.bits then .gt
  else compareVals (keysOf s.bits) (s.attrs h) (other.attrs h)

/-- `attr.Set.ForEachAttr` (set.go:119-129): (key, value) in ascending key order. -/
def forEachAttr (h : Heap) (s : Set) : List (Nat × Bytes) :=
  (keysOf s.bits).map fun k => (k, (s.attrs h).get k)

/-! ### The wrappers `dep.Type` and `version.AttrSet`

Both encode keys `< 0` as bits of the mask: `Mask |= attr.Mask(-key)`. `key` is an
`int8`; for `-128 ≤ key < 0` the conversion `attr.Mask(-key)` is `|key|` (for `-128`
the negation overflows to `-128` and the conversion to `uint8` gives `128`). -/

/-- int8 range of `dep.AttrKey` / `version.AttrKey`. -/
def int8OK (k : Int) : Bool := -128 ≤ k && k ≤ 127

/-- `dep.Type.AddAttr` (type.go:50-57) = `version.AttrSet.SetAttr` (version.go:35-42). -/
def addAttr (h : Heap) (s : Set) (key : Int) (value : Bytes) : Res (Heap × Set) :=
  if key < 0 then .ok (h, { s with mask := s.mask ||| key.natAbs })
  else setAttr h s key.toNat value

/-- `dep.Type.GetAttr` (type.go:60-66) = `version.AttrSet.GetAttr` (version.go:45-51). -/
def getAttrW (h : Heap) (s : Set) (key : Int) : Option Bytes :=
  if key < 0 then (if s.mask &&& key.natAbs != 0 then some [] else none)
  else getAttr h s key.toNat

/-- `version.AttrSet.ForEachAttr` (version.go:61-72): mask bits first, as keys `-(1<<k)`. -/
def forEachAttrV (h : Heap) (s : Set) : List (Int × Bytes) :=
  (((List.range C19AttrKeys.maskWidth).filter fun k => s.mask.testBit k).map
      fun k => (-((2 ^ k : Nat) : Int), ([] : Bytes)))
  ++ (forEachAttr h s).map fun kv => ((kv.1 : Int), kv.2)

end DepsDev.Model.Resolve.Attr
