/-
Text forms of attribute sets: `dep.Type.String` (dep/type.go:88-108),
`version.AttrSet.String` (version/version.go:79-111), the stringer `AttrKey.String`
(dep|version/stringer.go), `deptest.ParseString` (internal/deptest/deptest.go:77-132),
`versiontest.ParseString/ParseSingle/String` (internal/versiontest/versiontest.go).

Standard-library functions they call are re-implemented here for exactly the uses made
of them (modelled, not verified; tied to the real code by the correspondence harness):
`strings.Fields`, `strings.TrimSpace`, `strings.ToLower` (as used for a dictionary
lookup), `strings.Cut`, `strings.Join`, `strconv.Quote`, `strconv.Unquote` for inputs
starting with `"` or a backquote (the only ones the callers pass), `utf8.DecodeRune`.

White space: Go decides `unicode.IsSpace` on decoded runes. A byte >= 0xC0 is never
consumed as a continuation byte and none of the encodings of a white-space rune starts
with a continuation byte, so an occurrence of such an encoding in the byte string is
always a decoded rune; the model therefore scans for the encodings
(`Gen.C19Print.spacePatterns`) byte-wise.

Core Lean only.
-/
import DepsDev.Model.Resolve.Attr
import DepsDev.Gen.C19Print

namespace DepsDev.Model.Resolve.AttrText
open DepsDev DepsDev.Gen DepsDev.Model.Resolve.Attr

/-! ### UTF-8 -/

def cont (x : Nat) : Bool := 0x80 ≤ x && x ≤ 0xBF

/-- the `acceptRanges` test of a 3-byte sequence with lead byte `c` (utf8.go). -/
def accept3 (c b1 b2 : Nat) : Bool :=
  decide ((if c = 0xE0 then 0xA0 else 0x80) ≤ b1) && decide (b1 ≤ (if c = 0xED then 0x9F else 0xBF)) && cont b2

/-- the `acceptRanges` test of a 4-byte sequence with lead byte `c`. -/
def accept4 (c b1 b2 b3 : Nat) : Bool :=
  decide ((if c = 0xF0 then 0x90 else 0x80) ≤ b1) && decide (b1 ≤ (if c = 0xF4 then 0x8F else 0xBF)) &&
  cont b2 && cont b3

/-- `utf8.DecodeRuneInString`: (rune, width); invalid or truncated input gives
`(0xFFFD, 1)`, the empty string `(0xFFFD, 0)`. -/
def decodeRune : Bytes → Nat × Nat
  | [] => (0xFFFD, 0)
  | b0 :: rest =>
    let c := b0.toNat
    if c < 0x80 then (c, 1)
    else if c < 0xC2 then (0xFFFD, 1)
    else if c < 0xE0 then
      match rest with
      | b1 :: _ =>
        if cont b1.toNat then ((c - 0xC0) * 64 + (b1.toNat - 0x80), 2) else (0xFFFD, 1)
      | [] => (0xFFFD, 1)
    else if c < 0xF0 then
      match rest with
      | b1 :: b2 :: _ =>
        if accept3 c b1.toNat b2.toNat then
          ((c - 0xE0) * 4096 + (b1.toNat - 0x80) * 64 + (b2.toNat - 0x80), 3)
        else (0xFFFD, 1)
      | _ => (0xFFFD, 1)
    else if c < 0xF5 then
      match rest with
      | b1 :: b2 :: b3 :: _ =>
        if accept4 c b1.toNat b2.toNat b3.toNat then
          ((c - 0xF0) * 262144 + (b1.toNat - 0x80) * 4096 + (b2.toNat - 0x80) * 64 + (b3.toNat - 0x80), 4)
        else (0xFFFD, 1)
      | _ => (0xFFFD, 1)
    else (0xFFFD, 1)

/-- `utf8.ValidRune`. -/
def validRune (r : Nat) : Bool := r < 0xD800 || (0xE000 ≤ r && r ≤ 0x10FFFF)

/-- `utf8.AppendRune`. -/
def encodeRune (r : Nat) : Bytes :=
  if r < 0x80 then [r.toUInt8]
  else if r < 0x800 then [(0xC0 + r / 64).toUInt8, (0x80 + r % 64).toUInt8]
  else if !validRune r then [0xEF, 0xBF, 0xBD]
  else if r < 0x10000 then
    [(0xE0 + r / 4096).toUInt8, (0x80 + r / 64 % 64).toUInt8, (0x80 + r % 64).toUInt8]
  else
    [(0xF0 + r / 262144).toUInt8, (0x80 + r / 4096 % 64).toUInt8, (0x80 + r / 64 % 64).toUInt8,
     (0x80 + r % 64).toUInt8]

/-- `utf8.ValidString` (skip = bytes of the current rune still to pass). -/
def validGo : Bytes → Nat → Bool
  | [], _ => true
  | _ :: rest, skip + 1 => validGo rest skip
  | b :: rest, 0 =>
    let rw := decodeRune (b :: rest)
    if rw.1 == 0xFFFD && rw.2 == 1 then false else validGo rest (rw.2 - 1)
def validString (s : Bytes) : Bool := validGo s 0

/-! ### White space, Fields, TrimSpace, Cut, Join -/

/-- Width of the white-space rune at the head of `s` (0 = none). -/
def spaceWidth (s : Bytes) : Nat :=
  match C19Print.spacePatterns.find? (fun p => p.isPrefixOf s) with
  | some p => p.length
  | none => 0

/-- The string contains a rune with `unicode.IsSpace`. -/
def hasSpace : Bytes → Bool
  | [] => false
  | b :: rest => spaceWidth (b :: rest) != 0 || hasSpace rest

/-- `strings.Fields` (`skip` = remaining bytes of a white-space rune, `cur` = the
current field, reversed). -/
def fieldsGo : Bytes → Nat → Bytes → List Bytes
  | [], _, cur => if cur.isEmpty then [] else [cur.reverse]
  | _ :: rest, skip + 1, cur => fieldsGo rest skip cur
  | b :: rest, 0, cur =>
    let w := spaceWidth (b :: rest)
    if w = 0 then fieldsGo rest 0 (b :: cur)
    else (if cur.isEmpty then [] else [cur.reverse]) ++ fieldsGo rest (w - 1) []
def fields (s : Bytes) : List Bytes := fieldsGo s 0 []

/-- `strings.TrimLeftFunc(s, unicode.IsSpace)`. -/
def trimLeftGo : Bytes → Nat → Bytes
  | [], _ => []
  | _ :: rest, skip + 1 => trimLeftGo rest skip
  | b :: rest, 0 =>
    let w := spaceWidth (b :: rest)
    if w = 0 then b :: rest else trimLeftGo rest (w - 1)

/-- Width of the white-space rune at the END of the string whose reversal is `rs`. -/
def spaceWidthRev (rs : Bytes) : Nat :=
  match C19Print.spacePatterns.find? (fun p => p.reverse.isPrefixOf rs) with
  | some p => p.length
  | none => 0

def trimRightGo : Bytes → Nat → Bytes
  | [], _ => []
  | _ :: rest, skip + 1 => trimRightGo rest skip
  | b :: rest, 0 =>
    let w := spaceWidthRev (b :: rest)
    if w = 0 then b :: rest else trimRightGo rest (w - 1)

/-- `strings.TrimSpace`. -/
def trimSpace (s : Bytes) : Bytes := (trimRightGo (trimLeftGo s 0).reverse 0).reverse

/-- `strings.Cut(s, " ")`: (before, after, found). -/
def cutSpace : Bytes → Bytes × Bytes × Bool
  | [] => ([], [], false)
  | b :: rest =>
    if b == 0x20 then ([], rest, true)
    else let r := cutSpace rest; (b :: r.1, r.2.1, r.2.2)

/-- `strings.Join(elems, sep)`. -/
def join (sep : Bytes) : List Bytes → Bytes
  | [] => []
  | [x] => x
  | x :: y :: rest => x ++ sep ++ join sep (y :: rest)

/-! ### strconv.Quote / strconv.Unquote -/

/-- `lowerhex[n]`. -/
def lowerhex (n : Nat) : UInt8 := if n < 10 then (48 + n).toUInt8 else (87 + n).toUInt8

/-- `strconv.IsPrint` (ASCII by its rule, the rest from the generated ranges). -/
def isPrint (r : Nat) : Bool :=
  if r < 0x80 then 0x20 ≤ r && r ≤ 0x7E
  else C19Print.printRanges.any fun p => p.1 ≤ r && r ≤ p.2

/-- `strconv.appendEscapedRune(buf, r, '"', false, false)` (quote.go:68-118). -/
def escapeRune (r : Nat) : Bytes :=
  if r == 0x22 || r == 0x5C then [0x5C, r.toUInt8]
  else if isPrint r then encodeRune r
  else if r == 7 then [0x5C, 0x61]         -- \a
  else if r == 8 then [0x5C, 0x62]         -- \b
  else if r == 12 then [0x5C, 0x66]        -- \f
  else if r == 10 then [0x5C, 0x6E]        -- \n
  else if r == 13 then [0x5C, 0x72]        -- \r
  else if r == 9 then [0x5C, 0x74]         -- \t
  else if r == 11 then [0x5C, 0x76]        -- \v
  else if r < 0x20 || r == 0x7F then [0x5C, 0x78, lowerhex (r / 16), lowerhex (r % 16)]
  else
    let r := if validRune r then r else 0xFFFD
    if r < 0x10000 then
      [0x5C, 0x75, lowerhex (r / 4096 % 16), lowerhex (r / 256 % 16), lowerhex (r / 16 % 16), lowerhex (r % 16)]
    else
      [0x5C, 0x55, lowerhex (r / 268435456 % 16), lowerhex (r / 16777216 % 16), lowerhex (r / 1048576 % 16),
       lowerhex (r / 65536 % 16), lowerhex (r / 4096 % 16), lowerhex (r / 256 % 16), lowerhex (r / 16 % 16),
       lowerhex (r % 16)]

/-- body of `strconv.appendQuotedWith` (quote.go:31-55). -/
def quoteGo : Bytes → Nat → Bytes
  | [], _ => []
  | _ :: rest, skip + 1 => quoteGo rest skip
  | b :: rest, 0 =>
    let rw := decodeRune (b :: rest)
    (if rw.2 == 1 && rw.1 == 0xFFFD then [0x5C, 0x78, lowerhex (b.toNat / 16), lowerhex (b.toNat % 16)]
     else escapeRune rw.1) ++ quoteGo rest (rw.2 - 1)

/-- `strconv.Quote` (also `fmt`'s `%q` on a string). -/
def quote (s : Bytes) : Bytes := 0x22 :: (quoteGo s 0 ++ [0x22])

/-- `strconv.unhex`. -/
def unhex (b : UInt8) : Option Nat :=
  let c := b.toNat
  if 0x30 ≤ c && c ≤ 0x39 then some (c - 0x30)
  else if 0x61 ≤ c && c ≤ 0x66 then some (c - 0x61 + 10)
  else if 0x41 ≤ c && c ≤ 0x46 then some (c - 0x41 + 10)
  else none

/-- the hex loop of `UnquoteChar`: value of exactly `n` hex digits. -/
def hexValue : Nat → Bytes → Nat → Option Nat
  | 0, _, v => some v
  | _ + 1, [], _ => none
  | n + 1, b :: rest, v => match unhex b with
    | some x => hexValue n rest (v * 16 + x)
    | none => none

/-- what `unquote` appends for a rune produced with `multibyte = true`. -/
def appendMulti (r : Nat) : Bytes := if r < 0x80 then [r.toUInt8] else encodeRune r

/-- `strconv.UnquoteChar(s, '"')` followed by the append of `unquote`'s loop
(quote.go:259-368, 464-470): (bytes appended, bytes of input consumed). -/
def unquoteChar : Bytes → Option (Bytes × Nat)
  | [] => none
  | c :: rest =>
    if c == 0x22 then none
    else if c.toNat ≥ 0x80 then
      let rw := decodeRune (c :: rest)
      some (appendMulti rw.1, rw.2)
    else if c != 0x5C then some ([c], 1)
    else match rest with
      | [] => none
      | e :: s =>
        if e == 0x61 then some ([7], 2)
        else if e == 0x62 then some ([8], 2)
        else if e == 0x66 then some ([12], 2)
        else if e == 0x6E then some ([10], 2)
        else if e == 0x72 then some ([13], 2)
        else if e == 0x74 then some ([9], 2)
        else if e == 0x76 then some ([11], 2)
        else if e == 0x78 then (hexValue 2 s 0).map fun v => ([v.toUInt8], 4)
        else if e == 0x75 then
          match hexValue 4 s 0 with
          | some v => if validRune v then some (appendMulti v, 6) else none
          | none => none
        else if e == 0x55 then
          match hexValue 8 s 0 with
          | some v => if validRune v then some (appendMulti v, 10) else none
          | none => none
        else if 0x30 ≤ e.toNat && e.toNat ≤ 0x37 then
          match s with
          | d1 :: d2 :: _ =>
            if 0x30 ≤ d1.toNat && d1.toNat ≤ 0x37 && 0x30 ≤ d2.toNat && d2.toNat ≤ 0x37 then
              let v := (e.toNat - 0x30) * 64 + (d1.toNat - 0x30) * 8 + (d2.toNat - 0x30)
              if v > 255 then none else some ([v.toUInt8], 4)
            else none
          | _ => none
        else if e == 0x5C then some ([0x5C], 2)
        else if e == 0x22 then some ([0x22], 2)
        else none    -- includes \' (c != quote)

/-- the loop of `unquote` for a double-quoted string, after the opening quote
(quote.go:451-486), followed by `Unquote`'s check that nothing remains. -/
def unquoteGo : Bytes → Nat → Bytes → Option Bytes
  | [], _, _ => none
  | _ :: rest, skip + 1, buf => unquoteGo rest skip buf
  | b :: rest, 0, buf =>
    if b == 0x22 then (if rest.isEmpty then some buf else none)
    else match unquoteChar (b :: rest) with
      | none => none
      | some (out, n) => if b == 0x0A then none else unquoteGo rest (n - 1) (buf ++ out)

/-- `strings.IndexByte`-style split at the first `q`: (before, after). -/
def splitAt1 (q : UInt8) : Bytes → Option (Bytes × Bytes)
  | [] => none
  | b :: rest =>
    if b == q then some ([], rest)
    else (splitAt1 q rest).map fun p => (b :: p.1, p.2)

/-- `strconv.Unquote` for inputs whose first byte is `"` or a backquote (the callers
check this: deptest.go:84, versiontest.go:106); any other input is a syntax error
here, which is what Go returns except for single-quoted rune literals. -/
def unquote (s : Bytes) : Option Bytes :=
  match s with
  | q :: t =>
    if q == 0x22 then
      match splitAt1 0x22 t with
      | none => none
      | some (body, rem) =>
        if !body.contains 0x5C && !body.contains 0x0A && validString body then
          (if rem.isEmpty then some body else none)
        else unquoteGo t 0 []
    else if q == 0x60 then
      match splitAt1 0x60 t with
      | none => none
      | some (body, rem) => if rem.isEmpty then some (body.filter (· != 0x0D)) else none
    else none
  | [] => none

/-! ### stringer and dictionaries -/

def asciiLower (s : Bytes) : Bytes := s.map fun c => if 65 ≤ c.toNat && c.toNat ≤ 90 then c + 32 else c

def decimal (n : Nat) : Bytes := (Nat.toDigits 10 n).map fun c => c.toNat.toUInt8

/-- `AttrKey.String()` (stringer.go): the table name, else `AttrKey(<n>)`. -/
def keyName (names : List (Int × Bytes)) (k : Int) : Bytes :=
  match names.lookup k with
  | some n => n
  | none =>
    [0x41, 0x74, 0x74, 0x72, 0x4B, 0x65, 0x79, 0x28] ++            -- "AttrKey("
    (if k < 0 then 0x2D :: decimal k.natAbs else decimal k.toNat) ++ [0x29]

/-- `strings.ToLower(tok)` as far as a lookup in a dictionary of ASCII words can see
it: `none` when the result contains a non-ASCII rune (then it equals no ASCII word).
Non-ASCII runes whose lower case is ASCII come from `Gen.C19Print.lowerToAscii`. -/
def lowerGo : Bytes → Nat → Option Bytes
  | [], _ => some []
  | _ :: rest, skip + 1 => lowerGo rest skip
  | b :: rest, 0 =>
    if b.toNat < 0x80 then
      (lowerGo rest 0).map fun t => (if 65 ≤ b.toNat && b.toNat ≤ 90 then b + 32 else b) :: t
    else
      let rw := decodeRune (b :: rest)
      match C19Print.lowerToAscii.lookup rw.1 with
      | some l => (lowerGo rest (rw.2 - 1)).map fun t => l.toUInt8 :: t
      | none => none

/-- `parsingDict[strings.ToLower(tok)]` with `parsingDict = buildParsingDict(allKeys)`
(a later key with the same lower-cased name overwrites an earlier one). -/
def dictLookup (names : List (Int × Bytes)) (allKeys : List Int) (tok : Bytes) : Option Int :=
  match lowerGo tok 0 with
  | none => none
  | some w => allKeys.reverse.find? fun k => asciiLower (keyName names k) == w

/-! ### Printers -/

def depConst (name : String) : Int := (C19AttrKeys.depConsts.lookup name).getD 0

/-- `dep.Type.String` (type.go:88-108). -/
def depString (h : Heap) (s : Set) : Bytes :=
  let head : Bytes :=
    if s.mask != 0 then
      join [0x7C]
        ((if s.mask &&& (depConst "Dev").natAbs != 0 then [[0x64, 0x65, 0x76]] else []) ++            -- "dev"
         (if s.mask &&& (depConst "Opt").natAbs != 0 then [[0x6F, 0x70, 0x74]] else []) ++            -- "opt"
         (if s.mask &&& (depConst "Test").natAbs != 0 then [[0x74, 0x65, 0x73, 0x74]] else []))       -- "test"
    else [0x72, 0x65, 0x67]                                                                           -- "reg"
  head ++ (forEachAttr h s).flatMap fun kv =>
    [0x7C] ++ keyName C19AttrKeys.depNames (kv.1 : Int) ++ [0x3D] ++ quote kv.2

/-- `version.AttrSet.String` (version.go:79-111): the list of items, then joined. -/
def versionStringItems (h : Heap) (s : Set) : List Bytes :=
  (((List.range C19AttrKeys.versionMaskLen).filter fun bit => s.mask.testBit bit).map
      fun bit => keyName C19AttrKeys.versionNames (-((2 ^ bit : Nat) : Int)))
  ++ (forEachAttr h s).map fun kv =>
      keyName C19AttrKeys.versionNames (kv.1 : Int) ++ (if kv.2.isEmpty then [] else 0x3D :: quote kv.2)

def versionString (h : Heap) (s : Set) : Bytes :=
  if isRegular h s then [0x7B, 0x7D]
  else [0x7B] ++ join [0x2C] (versionStringItems h s) ++ [0x7D]

/-- `versiontest.String` (versiontest.go:127-138). -/
def versiontestString (h : Heap) (s : Set) : Bytes :=
  join [0x20] (C19AttrKeys.versionAllKeys.flatMap fun key =>
    match getAttrW h s key with
    | some value =>
      [asciiLower (keyName C19AttrKeys.versionNames key)] ++ (if value.isEmpty then [] else [value])
    | none => [])

/-! ### The writer of the deptest schema syntax

deptest has a parser but no printer. The writer below is the analogue of
`versiontest.String` for the syntax documented at `deptest.ParseString` (keys in
`allKeys` order, flag keys bare, a value after every other key), writing a value with
`strconv.Quote` when it cannot be a bare token: empty, starting with `"`, or containing
white space. It is mirrored in the harness (`depItems` in harness/cmd/c19/machine.go). -/

def depNeedsQuote (v : Bytes) : Bool := v.isEmpty || v.head? == some 0x22 || hasSpace v

/-- the items written: (text, value if it was quoted). -/
def depItems (h : Heap) (s : Set) : List (Bytes × Option Bytes) :=
  C19AttrKeys.depAllKeys.flatMap fun key =>
    match getAttrW h s key with
    | some value =>
      [(keyName C19AttrKeys.depNames key, none)] ++
        (if C19AttrKeys.depFlagKeys.contains key then []
         else if depNeedsQuote value then [(quote value, some value)] else [(value, none)])
    | none => []

def depWrite (h : Heap) (s : Set) : Bytes := join [0x20] ((depItems h s).map (·.1))

/-! ### Parsers -/

/-- the key/value loop shared by `deptest.ParseString` (deptest.go:113-130) and
`versiontest.ParseString` (versiontest.go:76-92): the `AddAttr`/`SetAttr` calls made. -/
def parseItems (names : List (Int × Bytes)) (allKeys flagKeys : List Int) :
    List Bytes → Res (List (Int × Bytes))
  | [] => .ok []
  | it :: rest =>
    match dictLookup names allKeys it with
    | none => .err                                    -- unexpected key
    | some key =>
      if flagKeys.contains key then
        match parseItems names allKeys flagKeys rest with
        | .ok l => .ok ((key, []) :: l)
        | e => e
      else match rest with
        | [] => .err                                  -- missing value
        | v :: rest' =>
          match parseItems names allKeys flagKeys rest' with
          | .ok l => .ok ((key, v) :: l)
          | e => e

/-- applying the recorded calls to a set. -/
def applyAttrs (h : Heap) (s : Set) : List (Int × Bytes) → Res (Heap × Set)
  | [] => .ok (h, s)
  | (k, v) :: rest =>
    match addAttr h s k v with
    | .ok (h', s') => applyAttrs h' s' rest
    | .err => .err
    | .panic => .panic

def endsWithBackslashQuote (s : Bytes) : Bool :=
  match s.reverse with
  | 0x22 :: 0x5C :: _ => true
  | _ => false

/-- "Join quoted fields back together" (deptest.go:80-108), as one structural
recursion over the items. State: `skip` = the outer loop's `i++` that follows a
completed quoted value is still to be done (it skips one item: mirrored as in the
code); `quoted = some q` = inside the inner loop with the fields `q` collected so far,
`none` = in the outer loop. -/
def joinQuoted : Bool → Option (List Bytes) → List Bytes → Res (List Bytes)
  | _, none, [] => .ok []
  | _, some _, [] => .err                                       -- unterminated quotes
  | true, none, _ :: rest => joinQuoted false none rest         -- the item skipped by the second `i++`
  | false, none, it :: rest =>
    if it.head? != some 0x22 then
      match joinQuoted false none rest with
      | .ok l => .ok (it :: l)
      | e => e
    else
      -- first iteration of the inner loop, on the same item
      if it.getLast? == some 0x22 then
        if it.length ≥ 2 && endsWithBackslashQuote it then joinQuoted false (some [it]) rest
        else match unquote (join [0x20] [it]) with
          | none => .err
          | some uq =>
            match joinQuoted true none rest with
            | .ok l => .ok (uq :: l)
            | e => e
      else joinQuoted false (some [it]) rest
  | _, some q, it :: rest =>
    -- a further iteration of the inner loop
    if it.getLast? == some 0x22 then
      if it.length ≥ 2 && endsWithBackslashQuote it then joinQuoted false (some (q ++ [it])) rest
      else match unquote (join [0x20] (q ++ [it])) with
        | none => .err
        | some uq =>
          match joinQuoted true none rest with
          | .ok l => .ok (uq :: l)
          | e => e
    else joinQuoted false (some (q ++ [it])) rest

/-- `deptest.ParseString`. -/
def depParseString (h : Heap) (s : Bytes) : Res (Heap × Set) :=
  match joinQuoted false none (fields s) with
  | .ok items =>
    match parseItems C19AttrKeys.depNames C19AttrKeys.depAllKeys C19AttrKeys.depFlagKeys items with
    | .ok calls => applyAttrs h Set.zero calls
    | .err => .err
    | .panic => .panic
  | .err => .err
  | .panic => .panic

/-- `versiontest.ParseString`. -/
def versionParseString (h : Heap) (s : Bytes) : Res (Heap × Set) :=
  match parseItems C19AttrKeys.versionNames C19AttrKeys.versionAllKeys C19AttrKeys.versionFlagKeys (fields s) with
  | .ok calls => applyAttrs h Set.zero calls
  | .err => .err
  | .panic => .panic

/-- `versiontest.ParseSingle` (versiontest.go:102-122). -/
def versionParseSingle (h : Heap) (s : Bytes) : Res (Heap × Set) :=
  let c := cutSpace (trimSpace s)
  let key := c.1
  let val : Option Bytes :=
    if c.2.2 then
      let v := trimSpace c.2.1
      if v.head? == some 0x22 || v.head? == some 0x60 then unquote v else some v
    else some c.2.1
  match val with
  | none => .err                                     -- bad quoted value
  | some v =>
    match dictLookup C19AttrKeys.versionNames C19AttrKeys.versionAllKeys key with
    | none => .err
    | some k => addAttr h Set.zero k v

end DepsDev.Model.Resolve.AttrText
