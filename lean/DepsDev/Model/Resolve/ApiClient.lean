/-
Model of the pure core of `util/resolve/api.go` (the API-backed `resolve.Client`)
at the pinned commit, for npm, over an abstract response type.

What is modelled: `flattenNPMDeps` (the four dependency sections and
bundleDependencies, alias splitting at the last '@', the `npm:` prefix, the final
`SortDependencies`), `mangledName`, `npmRequirements` (sort by path length, parent
lookup, the derived-from attribute, ONE atomic write of all new bundles into
`bundledVersions`), `isNPMBundle`, `makeVersion`, and the four client calls
`Version` / `Versions` / `Requirements` / `MatchingVersions` over the
`bundledVersions` store and the service. The Insights service is a pure function
from keys to responses (`Service`); gRPC, protobuf and the mutex itself are outside
the model: a client call is one atomic step on the store (see `Props/C18.lean`).

Not modelled: systems other than npm (`mavenRequirements`), error messages,
non-ASCII case folding in `strings.ToLower` (names are taken to be ASCII, as npm
requires), `nil` elements inside a response's repeated fields.

Core Lean only.
-/
import DepsDev.Model.Bytes

namespace DepsDev.Model.Resolve.ApiClient
open DepsDev

/-- Result of a Go call that returns `(T, error)` and may panic. Messages are not modelled. -/
inductive Res (α : Type) where
  | ok : α → Res α
  | err : Res α
  | panic : Res α
deriving Repr, DecidableEq

/-- comma-ok lookups: a missing value is the error return. -/
def Res.ofOption {α : Type} : Option α → Res α
  | some a => .ok a
  | none => .err

/-! ### Keys, versions, requirement types (the fragments the API client produces) -/

/-- `resolve.VersionType`. -/
inductive VType where
  | concrete | requirement
deriving DecidableEq, Repr

/-- `resolve.VersionKey` with `System = NPM` throughout. -/
structure VersionKey where
  name : Bytes
  vtype : VType
  version : Bytes
deriving DecidableEq, Repr

/-- `dep.Type` restricted to what `flattenNPMDeps` can build: the mask bits `Dev`,
`Opt` and the attributes `Scope`, `KnownAs`. -/
structure DepType where
  dev : Bool := false
  opt : Bool := false
  scope : Option Bytes := none
  knownAs : Option Bytes := none
deriving DecidableEq, Repr

/-- `resolve.RequirementVersion`. -/
structure ReqVer where
  key : VersionKey
  typ : DepType
deriving DecidableEq, Repr

/-- `version.AttrSet` restricted to what the API client sets: `Tags`, `Registries`,
`DerivedFrom`. -/
structure VAttrs where
  tags : Option Bytes := none
  registries : Option Bytes := none
  derivedFrom : Option Bytes := none
deriving DecidableEq, Repr

/-- `resolve.Version`. -/
structure Version where
  key : VersionKey
  attrs : VAttrs
deriving DecidableEq, Repr

/-! ### Responses of the Insights service (`pb.*`, abstracted) -/

/-- `pb.Requirements_NPM_Dependencies_Dependency`. -/
structure Dep where
  name : Bytes
  requirement : Bytes
deriving DecidableEq, Repr

/-- `pb.Requirements_NPM_Dependencies` (a nil pointer reads as all-empty through the
nil-safe getters). -/
structure Deps where
  dependencies : List Dep := []
  devDependencies : List Dep := []
  optionalDependencies : List Dep := []
  peerDependencies : List Dep := []
  bundleDependencies : List Bytes := []
deriving DecidableEq, Repr

/-- `pb.Requirements_NPM_Bundle`. -/
structure Bundle where
  path : Bytes
  name : Bytes
  version : Bytes
  dependencies : Deps := {}
deriving DecidableEq, Repr

/-- `pb.Requirements_NPM`. -/
structure NpmReqs where
  dependencies : Deps := {}
  bundled : List Bundle := []
deriving DecidableEq, Repr

/-- One entry of `pb.Package.Versions`. -/
structure PkgVersion where
  version : Bytes
  isDefault : Bool
deriving DecidableEq, Repr

/-- The fields of `pb.Version` the client reads. -/
structure VersionResp where
  isDefault : Bool
  registries : List Bytes
deriving DecidableEq, Repr

/-- The fake Insights service: a pure function from keys to responses. `none` is
`codes.NotFound` (any other gRPC error has the same canonical outcome `err`);
`getRequirements … = some none` is a response whose `Npm` field is nil. -/
structure Service where
  getPackage : Bytes → Option (List PkgVersion)
  getVersion : Bytes → Bytes → Option VersionResp
  getRequirements : Bytes → Bytes → Option (Option NpmReqs)

/-! ### Byte-string helpers (`strings.*` fragments) -/

/-- Go string `<`: lexicographic on bytes. -/
def bytesLt : Bytes → Bytes → Bool
  | [], [] => false
  | [], _ :: _ => true
  | _ :: _, [] => false
  | a :: as, b :: bs => if a < b then true else if b < a then false else bytesLt as bs

/-- `strings.ToLower` on ASCII. -/
def toLower (s : Bytes) : Bytes := s.map fun c => if 65 ≤ c && c ≤ 90 then c + 32 else c

/-- `strings.CutPrefix`. -/
def cutPrefix : Bytes → Bytes → Option Bytes
  | [], s => some s
  | _ :: _, [] => none
  | p :: ps, c :: cs => if p = c then cutPrefix ps cs else none

/-- `strings.TrimPrefix`. -/
def trimPrefix (p s : Bytes) : Bytes := (cutPrefix p s).getD s

/-- `i := strings.LastIndex(s, string(c)); if i >= 0 { s[:i], s[i+1:] }`: the parts
before and after the LAST occurrence of `c`, `none` when `c` does not occur. -/
def splitLast (c : UInt8) : Bytes → Option (Bytes × Bytes)
  | [] => none
  | x :: xs =>
    match splitLast c xs with
    | some (a, b) => some (x :: a, b)
    | none => if x = c then some ([], xs) else none

/-- `strings.Split(s, sep)` for a non-empty `sep`: leftmost non-overlapping
occurrences. `skip` counts the remaining bytes of a separator just matched, `acc` is
the current piece reversed. -/
def splitGo (sep : Bytes) : Nat → Bytes → Bytes → List Bytes
  | _, [], acc => [acc.reverse]
  | skip + 1, _ :: cs, acc => splitGo sep skip cs acc
  | 0, c :: cs, acc =>
    if sep.isPrefixOf (c :: cs) then acc.reverse :: splitGo sep (sep.length - 1) cs []
    else splitGo sep 0 cs (c :: acc)

def splitOn (sep s : Bytes) : List Bytes := splitGo sep 0 s []

/-- `strings.Join`. -/
def joinSep (sep : UInt8) : List Bytes → Bytes
  | [] => []
  | [x] => x
  | x :: y :: r => x ++ sep :: joinSep sep (y :: r)

/-- `sort.Slice(xs, less)` as the stable insertion sort. Go's pdqsort IS an insertion
sort (an element moves left while it is strictly less than its predecessor) for up to
12 elements; beyond that it may permute elements that compare equal, which no theorem
here depends on and the harness stays clear of. Structural, so examples evaluate. -/
def insertBy {α : Type} (less : α → α → Bool) (x : α) : List α → List α
  | [] => [x]
  | y :: ys => if less y x then y :: insertBy less x ys else x :: y :: ys

def stableSort {α : Type} (less : α → α → Bool) : List α → List α
  | [] => []
  | x :: xs => insertBy less x (stableSort less xs)

def npmPrefix : Bytes := [110, 112, 109, 58]                                   -- "npm:"
def nodeModulesPrefix : Bytes := [110, 111, 100, 101, 95, 109, 111, 100, 117, 108, 101, 115, 47]   -- "node_modules/"
def nodeModulesSep : Bytes := 47 :: nodeModulesPrefix                          -- "/node_modules/"
def latestTag : Bytes := [108, 97, 116, 101, 115, 116]                         -- "latest"
def peerScope : Bytes := [112, 101, 101, 114]                                  -- "peer"
def bundleScope : Bytes := [98, 117, 110, 100, 108, 101]                       -- "bundle"
def star : Bytes := [42]                                                       -- "*"
def atSign : UInt8 := 64                                                          -- '@'
def gtSign : UInt8 := 62                                                          -- '>'

/-! ### `flattenNPMDeps` (api.go:302-356) -/

/-- The closure `addDeps` applied to one dependency (api.go:305-330). An aliased
dependency `npm:<r>` keeps the alias in `KnownAs` and, when `r` contains '@', is
split at the LAST '@'; otherwise name and requirement are left as declared. -/
def addDep (t : DepType) (d : Dep) : ReqVer :=
  match cutPrefix npmPrefix d.requirement with
  | some r =>
    let typ := { t with knownAs := some d.name }
    match splitLast atSign r with
    | some (n, q) => ⟨⟨n, .requirement, q⟩, typ⟩
    | none => ⟨⟨d.name, .requirement, d.requirement⟩, typ⟩
  | none => ⟨⟨d.name, .requirement, d.requirement⟩, t⟩

/-- `a.Type.Equal(dep.NewType(dep.Dev))`. -/
def isDevAlone (t : DepType) : Bool := t.dev && !t.opt && t.scope.isNone && t.knownAs.isNone

/-- the name `sortNPMDependencies` orders by: `KnownAs` when present. -/
def sortName (r : ReqVer) : Bytes :=
  match r.typ.knownAs with
  | some n => n
  | none => r.key.name

/-- `less` of `sortNPMDependencies` (match.go:129-150). -/
def depLess (a b : ReqVer) : Bool :=
  let da := isDevAlone a.typ
  let db := isDevAlone b.typ
  if da != db then db
  else
    let na := sortName a
    let nb := sortName b
    let la := toLower na
    let lb := toLower nb
    if la != lb then bytesLt la lb else bytesLt nb na

/-- `SortDependencies` for npm (`sort.Slice`, see `stableSort`). -/
def sortDeps (l : List ReqVer) : List ReqVer := stableSort depLess l

def devType : DepType := { dev := true }
def optType : DepType := { opt := true }
def peerType : DepType := { scope := some peerScope }
def bundleType : DepType := { scope := some bundleScope }
def regular : DepType := {}

/-- the list `flattened` before `SortDependencies`. -/
def flattenRaw (d : Deps) : List ReqVer :=
  d.dependencies.map (addDep regular) ++ d.devDependencies.map (addDep devType) ++
  d.optionalDependencies.map (addDep optType) ++ d.peerDependencies.map (addDep peerType) ++
  d.bundleDependencies.map fun n => ⟨⟨n, .requirement, star⟩, bundleType⟩

def flattenNPMDeps (d : Deps) : List ReqVer := sortDeps (flattenRaw d)

/-! ### `mangledName`, `isNPMBundle` (api.go:381-398) -/

def isNPMBundle (name : Bytes) : Bool := name.contains gtSign

/-- `fmt.Sprintf("%s>%s>%s", root.Name, root.Version, strings.Join(pkgs, ">"))`. -/
def mangledName (root : VersionKey) (pkgs : List Bytes) : Bytes :=
  root.name ++ gtSign :: (root.version ++ gtSign :: joinSep gtSign pkgs)

/-- `strings.Split(strings.TrimPrefix(b.Path, "node_modules/"), "/node_modules/")`. -/
def pkgsOf (path : Bytes) : List Bytes := splitOn nodeModulesSep (trimPrefix nodeModulesPrefix path)

/-! ### `npmRequirements` (api.go:211-300) -/

/-- the local `type bundle struct`. -/
structure BundleAcc where
  vk : VersionKey
  originalName : Bytes
  deps : List ReqVer
deriving DecidableEq, Repr

/-- the local map `allDeps`: an association list in which the FIRST entry of a key
is its current value (`m[k] = v` conses). -/
abbrev AllDeps := List (Bytes × BundleAcc)

/-- the mangled name of a bundle entry. -/
def mangledOf (root : VersionKey) (b : Bundle) : Bytes := mangledName root (pkgsOf b.path)

/-- the name under which the loop looks up the bundling parent. -/
def parentNameOf (root : VersionKey) (b : Bundle) : Bytes :=
  let pkgs := pkgsOf b.path
  if pkgs.length - 1 > 0 then mangledName root pkgs.dropLast else root.name

/-- the requirement added to the bundling parent. -/
def bundleReq (root : VersionKey) (b : Bundle) : ReqVer :=
  ⟨⟨mangledOf root b, .requirement, b.version⟩, regular⟩

/-- one iteration of `for _, b := range reqs.Bundled` (api.go:232-277); `none` is the
"internal error: missing bundle parent" return. -/
def stepBundle (root : VersionKey) (all : AllDeps) (b : Bundle) : Option AllDeps :=
  let mangled := mangledOf root b
  let all1 : AllDeps :=
    (mangled, ⟨⟨mangled, .concrete, b.version⟩, b.name, flattenNPMDeps b.dependencies⟩) :: all
  let parentName := parentNameOf root b
  match all1.lookup parentName with
  | none => none
  | some pb => some ((parentName, { pb with deps := pb.deps ++ [bundleReq root b] }) :: all1)

def processBundles (root : VersionKey) : AllDeps → List Bundle → Option AllDeps
  | all, [] => some all
  | all, b :: bs =>
    match stepBundle root all b with
    | none => none
    | some all' => processBundles root all' bs

/-- `sort.Slice(reqs.Bundled, len(path_i) < len(path_j))` (see `stableSort`). -/
def sortBundled (bs : List Bundle) : List Bundle :=
  stableSort (fun a b => decide (a.path.length < b.path.length)) bs

/-- the pure part of `npmRequirements`: `allDeps` after the loop, or `none` on the
missing-parent error (nothing is stored in that case). -/
def buildAllDeps (root : VersionKey) (reqs : NpmReqs) : Option AllDeps :=
  processBundles root [(root.name, ⟨root, [], flattenNPMDeps reqs.dependencies⟩)] (sortBundled reqs.bundled)

/-- `bundledVersion`. -/
structure BundledVersion where
  version : Version
  requirements : List ReqVer
deriving DecidableEq, Repr

/-- the value stored for one `allDeps` entry (api.go:291-297). -/
def toEntry (acc : BundleAcc) : BundledVersion :=
  ⟨⟨acc.vk, { derivedFrom := some acc.originalName }⟩, acc.deps⟩

/-- `APIClient.bundledVersions`. -/
abbrev Store := Bytes → Option BundledVersion

def Store.empty : Store := fun _ => none

def Store.insert (st : Store) (k : Bytes) (v : BundledVersion) : Store :=
  fun k' => if k' = k then some v else st k'

/-- the loop `for name, bundle := range allDeps` under the mutex (api.go:281-298):
every entry except the root's is stored. Older (shadowed) cells of the association
list are written first, so the current value of every key is what remains. -/
def applyWrites (rootName : Bytes) (st : Store) : AllDeps → Store
  | [] => st
  | (k, acc) :: rest =>
    let st' := applyWrites rootName st rest
    if k = rootName then st' else st'.insert k (toEntry acc)

/-- `allDeps[root.Name].deps` (a missing key reads as the zero value). -/
def rootDeps (rootName : Bytes) (all : AllDeps) : List ReqVer :=
  match all.lookup rootName with
  | some b => b.deps
  | none => []

/-! ### `makeVersion` and the four client calls (api.go:69-209, 364-376) -/

def makeVersion (vk : VersionKey) (isDefault : Bool) (regs : Bytes) : Version :=
  ⟨vk, { tags := if isDefault then some latestTag else none,
         registries := if regs.isEmpty then none else some regs }⟩

/-- `APIClient.Version`. -/
def version (S : Service) (st : Store) (vk : VersionKey) : Res Version :=
  if isNPMBundle vk.name then
    match st vk.name with
    | none => .err
    | some bv => .ok bv.version
  else
    match S.getVersion vk.name vk.version with
    | none => .err
    | some r => .ok (makeVersion vk r.isDefault (joinSep 124 r.registries))

/-- `APIClient.Versions`. -/
def versions (S : Service) (st : Store) (name : Bytes) : Res (List Version) :=
  if isNPMBundle name then
    match st name with
    | none => .err
    | some bv => .ok [bv.version]
  else
    match S.getPackage name with
    | none => .err
    | some vs => .ok (vs.map fun v => makeVersion ⟨name, .concrete, v.version⟩ v.isDefault [])

/-- `APIClient.Requirements`: the result and the store afterwards. The write of all
new bundles is one step. A response without the `Npm` part makes `npmRequirements`
dereference a nil pointer. -/
def requirements (S : Service) (st : Store) (vk : VersionKey) : Res (List ReqVer) × Store :=
  if isNPMBundle vk.name then
    match st vk.name with
    | none => (.err, st)
    | some bv => (.ok bv.requirements, st)
  else
    match S.getRequirements vk.name vk.version with
    | none => (.err, st)
    | some none => (.panic, st)
    | some (some reqs) =>
      match buildAllDeps vk reqs with
      | none => (.err, st)
      | some all => (.ok (rootDeps vk.name all), applyWrites vk.name st all)

/-- `APIClient.MatchingVersions`; `matchReq` is `resolve.MatchRequirement` (which may panic). -/
def matchingVersions (matchReq : VersionKey → List Version → Res (List Version))
    (S : Service) (st : Store) (vk : VersionKey) : Res (List Version) :=
  if isNPMBundle vk.name then
    match st vk.name with
    | none => .err
    | some bv => if bv.version.key.version ≠ vk.version then .ok [] else .ok [bv.version]
  else
    match versions S st vk.name with
    | .ok vs => matchReq vk vs
    | .err => .err
    | .panic => .panic

/-! ### Call sequences -/

inductive Call where
  | version (vk : VersionKey)
  | versions (name : Bytes)
  | requirements (vk : VersionKey)
  | matching (vk : VersionKey)
deriving DecidableEq, Repr

/-- what a call returns. -/
inductive Obs where
  | version (r : Res Version)
  | versions (r : Res (List Version))
  | requirements (r : Res (List ReqVer))
deriving DecidableEq, Repr

/-- one client call as an atomic step: observation and store afterwards. -/
def exec (matchReq : VersionKey → List Version → Res (List Version)) (S : Service) (st : Store) :
    Call → Obs × Store
  | .version vk => (.version (version S st vk), st)
  | .versions n => (.versions (versions S st n), st)
  | .requirements vk => let r := requirements S st vk; (.requirements r.1, r.2)
  | .matching vk => (.versions (matchingVersions matchReq S st vk), st)

/-- a sequence of calls on one client: all observations and the final store. -/
def runCalls (matchReq : VersionKey → List Version → Res (List Version)) (S : Service) :
    Store → List Call → List Obs × Store
  | st, [] => ([], st)
  | st, c :: cs =>
    let r := exec matchReq S st c
    let rest := runCalls matchReq S r.2 cs
    (r.1 :: rest.1, rest.2)

/-! ### The finding classifier -/

/-- the alias target (what follows `npm:`) carries a range: it has an '@' that is
not its first byte (a leading '@' is the scope marker of `@scope/name`). -/
def hasRange (target : Bytes) : Bool := (target.drop 1).contains atSign

/-- `strings.Split(v, ".")`. -/
def dotComponents (v : Bytes) : List Bytes :=
  let r := v.foldr (fun x (acc : Bytes × List Bytes) =>
    if x = 46 then ([], acc.1 :: acc.2) else (x :: acc.1, acc.2)) ([], [])
  r.1 :: r.2

/-- classifier of F-C18-bundle-version-range: the version string a bundled package reports
is empty or written with npm range syntax (blank, tab, `=`, `^`, `~`, `<`, `>`, `|`, `*`, or
a component `x`/`X`). Such a string read as a requirement does not select the version
spelled the same way through `MatchRequirement` (it parses as a range, and the range does
not contain the string read as a version), which is the clause of `AskedOK` (`.matching` on a
bundle: matching behaves as string equality on the single stored version) that `b5_partial`
assumes; `APIClient.MatchingVersions` compares the two strings. -/
def rangeSyntax (v : Bytes) : Bool :=
  v.isEmpty ||
  v.any (fun b => b == 32 || b == 9 || b == 61 || b == 94 || b == 126 || b == 60 || b == 62 || b == 124 || b == 42) ||
  (dotComponents v).any (fun c => c == [120] || c == [88])

end DepsDev.Model.Resolve.ApiClient
