import DepsDev.Model.Resolve.Pypi

/-!
# Decidable hypotheses of the C08 `_partial` theorems (evaluated on the model's run)

`noLateExtras` is the hypothesis whose negation classifies finding F-C08-extras,
`routeClosed` the one whose negation classifies F-C08-route, `noStale` the one whose
negation classifies F-C08-stale, `u4` the property's own quantifier restriction. The
driver prints the first three for the `classify` op; the
harness mirrors them on its Go port of the model (`harness/cmd/c08/sim.go`), the
runner diffs the two.
-/
namespace DepsDev.Resolve.Pypi

/-- the final extras requested of a package: its criterion's, none without criterion -/
def extrasOfPkg (S : State) (p : Nat) : List Nat :=
  ((getCrit S.criteria p).getD Criterion.empty).extras

/-- every dependency visible under the final extras was visible when `p` was pinned -/
def pinStable (U : Universe) (S : State) (p : Pin) : Bool :=
  match getDependencies U ⟨p.pkg, p.id⟩ (extrasOfPkg S p.pkg), getDependencies U ⟨p.pkg, p.id⟩ p.ex with
  | .ok now, .ok thenDeps => now.all (fun d => thenDeps.contains d)
  | _, _ => false

/-- "the set of extras requested of a package does not grow (in a way that shows a new
dependency) after it is pinned" -/
def noLateExtras (U : Universe) (S : State) : Bool := S.mapping.all (pinStable U S)

/-- the node set is closed under "pinned dependency of a node": what an exact
`hasRouteToRoot` would guarantee -/
def routeClosed (S : State) (ids : List (Nat × Ver)) : Bool :=
  S.mapping.all fun pin =>
    match getCrit S.criteria pin.pkg with
    | none => true
    | some c => !(c.info.any fun (_, par) => idsGet ids par.pkg == some par) || (idsGet ids pin.pkg).isSome

/-- no stale information: every requirement recorded in the criterion of a node's
package was placed by a version that is itself a node (so the criterion's requirements
are exactly the edges into the node) -/
def noStale (S : State) (ids : List (Nat × Ver)) : Bool :=
  ids.all fun (p, _) =>
    match getCrit S.criteria p with
    | none => true
    | some c => c.info.all fun (_, par) => idsGet ids par.pkg == some par

def distinctPkgs : List Req → Bool
  | [] => true
  | r :: rs => !(rs.any (·.pkg == r.pkg)) && distinctPkgs rs

/-- U4: at most one requirement per (dependent version, package) -/
def u4 (U : Universe) : Bool := U.pkgs.all fun i => i.vers.all distinctPkgs

end DepsDev.Resolve.Pypi
