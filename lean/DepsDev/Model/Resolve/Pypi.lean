import DepsDev.Gen.C08Consts

/-!
# Model of `util/resolve/pypi/resolve.go` (property C08)

Executable, total, core-Lean model of the PyPI resolver: `resolution.resolve` with its
stack of state snapshots, `mergeIntoCriterion` (with `findMatches` / `intersect` as
coded), the preference order, `attemptToPinCriterion`, `backtrack`, `buildGraph` /
`hasRouteToRoot`, `getDependencies` (marker filtering through `filterSlice`, which
reorders), `unionExtras`.

**Boundary.** The model takes the answers of the layers below the resolver as DATA
(`Universe`): per version the requirement list in client order; per requirement the
truth of its marker for every set of extras (`Marker.table`, computed by the harness
with `pypi.VerifEvalMarker`); per (package, specifier) a `MatchRow`: whether the
specifier has a prerelease bound, the versions `Client.MatchingVersions` returns, and
the versions the prerelease-inclusive filter+sort of
`provider.matchingVersionsWithPrereleases` yields. PEP 440 and marker semantics are
C01–C03 / C16's business. The three LRU caches are pure memoisation of these answers
(C05's business) and are not modelled.

Identifiers: packages are numbered in ascending name order (so `Nat` order is
`PackageKey.Compare` and the `name` tie-break of `preferenceKey.Less`), a concrete
version is `(package, index in the client's Versions list)`.

Go slices shared between criteria (`informationReqs`, `informationParents`,
`candidates`) are only ever appended to by the newest state, whose view is the
longest, and `intersect` mutates a slice freshly built by `findMatches`; immutable
lists are therefore faithful. The two parallel `information*` slices are one list of
pairs (they are only ever appended to together).

`Pin.ex` is GHOST state: the extras the version was pinned with. No model function
reads it; the properties' hypotheses do.
-/
namespace DepsDev.Resolve.Pypi

open DepsDev.Gen

/-- A concrete version: package number and index in the package's version list. -/
structure Ver where
  pkg : Nat
  id : Nat
deriving DecidableEq, Repr

/-- Value of a marker for one extras set: false, true, or `Eval` panics. -/
inductive Cell where
  | f | t | p
deriving DecidableEq, Repr

/-- `dep.Environment` of a requirement, evaluated by the harness: absent, unparsable,
or one cell per subset of the dependent package's `exts`. -/
inductive Marker where
  | none
  | error
  | table (cells : List Cell)
deriving DecidableEq, Repr

/-- A `resolve.RequirementVersion` as the resolver sees it. `spec` is the row of the
match table (unique per package and specifier string), `ty` identifies the `dep.Type`
(equal ids iff `Type.Equal`), `nonEmpty`/`hasEqEq` are the two string tests of
`getPreference`, `extras` the split `EnabledDependencies` attribute. -/
structure Req where
  pkg : Nat
  spec : Nat
  ty : Nat
  nonEmpty : Bool
  hasEqEq : Bool
  extras : List Nat
  marker : Marker
deriving DecidableEq, Repr

structure MatchRow where
  /-- `provider.matchesPrerelease` -/
  hasPre : Bool
  /-- `Client.MatchingVersions` (`none` = error), version indices in returned order -/
  normal : Option (List Nat)
  /-- filter + sort of `matchingVersionsWithPrereleases` (`none` = `Versions` error) -/
  pre : Option (List Nat)
deriving Repr

structure PkgInfo where
  /-- `strings.ToLower(name) == "setuptools"` -/
  delay : Bool
  /-- the extras that index the marker tables of this package's requirements -/
  exts : List Nat
  /-- requirements of each version, client order -/
  vers : List (List Req)
deriving Repr

structure Universe where
  pkgs : List PkgInfo
  rows : List MatchRow
deriving Repr

/-- Result of a resolver step: value, `requirementsConflictedError`, any other error,
panic. -/
inductive Res (α : Type) where
  | ok (a : α)
  | conflict
  | err
  | panic
deriving Repr

namespace Res
@[inline] def bind {α β} (x : Res α) (f : α → Res β) : Res β :=
  match x with
  | .ok a => f a
  | .conflict => .conflict
  | .err => .err
  | .panic => .panic
instance : Monad Res where
  pure := .ok
  bind := bind
end Res

namespace Universe
def reqsOf (U : Universe) (v : Ver) : Option (List Req) :=
  match U.pkgs[v.pkg]? with
  | some i => i.vers[v.id]?
  | none => none
def extsOf (U : Universe) (p : Nat) : List Nat :=
  match U.pkgs[p]? with
  | some i => i.exts
  | none => []
def delayed (U : Universe) (p : Nat) : Bool :=
  match U.pkgs[p]? with
  | some i => i.delay
  | none => false
def row (U : Universe) (s : Nat) : Option MatchRow := U.rows[s]?
def hasPre (U : Universe) (r : Req) : Bool :=
  match U.row r.spec with
  | some row => row.hasPre
  | none => false
end Universe

/-! ## Markers and `getDependencies` -/

/-- index of the extras set in a marker table: bit `k` set iff `exts[k]` is requested -/
def maskOf (extras : List Nat) : List Nat → Nat
  | [] => 0
  | e :: es => (if extras.contains e then 1 else 0) + 2 * maskOf extras es

/-- the predicate of `getDependencies`: `parseMarker` then `Eval(extras)` -/
def evalMarker (U : Universe) (v : Ver) (extras : List Nat) (r : Req) : Res Bool :=
  match r.marker with
  | .none => .ok true
  | .error => .err
  | .table cells =>
    match cells[maskOf extras (U.extsOf v.pkg)]? with
    | some .t => .ok true
    | some .f => .ok false
    | some .p => .panic
    | none => .err

/-- `filterSlice` (resolve.go:571-586) on a copy: the unprocessed region is `ts[i:end]`;
an element that fails is replaced by the LAST unprocessed element. `n` bounds the
unprocessed length. -/
def filterSliceAux {α} (pred : α → Res Bool) : Nat → List α → List α → Res (List α)
  | 0, kept, _ => .ok kept.reverse
  | _ + 1, kept, [] => .ok kept.reverse
  | n + 1, kept, x :: rest =>
    match pred x with
    | .ok true => filterSliceAux pred n (x :: kept) rest
    | .ok false =>
      match rest.getLast? with
      | none => .ok kept.reverse
      | some l => filterSliceAux pred n kept (l :: rest.dropLast)
    | .conflict => .conflict
    | .err => .err
    | .panic => .panic

def filterSlice {α} (pred : α → Res Bool) (ts : List α) : Res (List α) :=
  filterSliceAux pred ts.length [] ts

/-- `provider.getDependencies` (resolve.go:589-612) -/
def getDependencies (U : Universe) (v : Ver) (extras : List Nat) : Res (List Req) :=
  match U.reqsOf v with
  | none => .err
  | some deps => filterSlice (evalMarker U v extras) deps

/-! ## Matching -/

/-- `provider.matchingVersions` (resolve.go:444-459) -/
def matchingVersions (U : Universe) (root : Ver) (r : Req) : Res (List Nat) :=
  match U.row r.spec with
  | none => .err
  | some row =>
    match row.normal with
    | none => .err
    | some mvs =>
      if r.pkg ≠ root.pkg then .ok mvs
      else if mvs.contains root.id then .ok [root.id] else .ok []

/-- `provider.matchingVersionsWithPrereleases` (resolve.go:464-513) -/
def matchingVersionsWithPrereleases (U : Universe) (root : Ver) (r : Req) : Res (List Nat) :=
  if U.hasPre r then matchingVersions U root r
  else
    match U.row r.spec with
    | none => .err
    | some row =>
      match row.pre with
      | none => .err
      | some mvs => .ok mvs

/-- the inner loop of `intersect`: position after the first occurrence of `a` in `b` -/
def dropThrough (a : Nat) : List Nat → Option (List Nat)
  | [] => none
  | b :: bs => if a = b then some bs else dropThrough a bs

/-- `intersect` (resolve.go:545-566), order dependent as coded -/
def intersect : List Nat → List Nat → List Nat
  | [], _ => []
  | a :: as, b =>
    match dropThrough a b with
    | some b' => a :: intersect as b'
    | none => intersect as b

def getMatches (U : Universe) (root : Ver) (anyPre : Bool) (r : Req) : Res (List Nat) :=
  if anyPre then matchingVersionsWithPrereleases U root r else matchingVersions U root r

def intersectAll (U : Universe) (root : Ver) (anyPre : Bool) : List Req → List Nat → Res (List Nat)
  | [], m => .ok m
  | r :: rs, m =>
    match getMatches U root anyPre r with
    | .ok mvs => intersectAll U root anyPre rs (intersect m mvs)
    | .conflict => .conflict
    | .err => .err
    | .panic => .panic

/-- whether `findMatches` uses prerelease-inclusive matching -/
def anyPreOf (U : Universe) (reqs : List Req) : Bool :=
  decide (reqs.length > 1) && reqs.any (U.hasPre ·)

/-- `provider.findMatches` (resolve.go:388-439) -/
def findMatches (U : Universe) (root : Ver) (reqs : List Req) (incompat : List Nat) : Res (List Nat) :=
  match reqs with
  | [] => .ok []
  | r0 :: rest =>
    let anyPre := anyPreOf U reqs
    match getMatches U root anyPre r0 with
    | .ok mvs =>
      let m := mvs.filter (fun x => !incompat.contains x)
      if m.isEmpty then .conflict else intersectAll U root anyPre rest m
    | .conflict => .conflict
    | .err => .err
    | .panic => .panic

/-! ## States -/

structure Criterion where
  /-- `informationReqs` zipped with `informationParents` -/
  info : List (Req × Ver)
  extras : List Nat
  incompat : List Nat
  cands : List Nat
deriving Repr

def Criterion.empty : Criterion := ⟨[], [], [], []⟩

/-- an entry of `versionMap`; `ex` is ghost (the extras in force when pinned) -/
structure Pin where
  pkg : Nat
  id : Nat
  ex : List Nat
deriving Repr

structure State where
  /-- `versionMap`: insertion order, most recent last -/
  mapping : List Pin
  /-- `criteria`: sorted by package -/
  criteria : List (Nat × Criterion)
deriving Repr

def getCrit : List (Nat × Criterion) → Nat → Option Criterion
  | [], _ => none
  | (n, c) :: rest, name => if n = name then some c else getCrit rest name

/-- `criteria.Put` (resolve.go:1125-1144): replace, or insert keeping the order -/
def putCrit : List (Nat × Criterion) → Nat → Criterion → List (Nat × Criterion)
  | [], name, c => [(name, c)]
  | (n, d) :: rest, name, c =>
    if n = name then (name, c) :: rest
    else if name < n then (name, c) :: (n, d) :: rest
    else (n, d) :: putCrit rest name c

def getPin : List Pin → Nat → Option Nat
  | [], _ => none
  | p :: rest, name => if p.pkg = name then some p.id else getPin rest name

/-- `versionMap.Set` (version_map.go:47-57) -/
def setPin (m : List Pin) (p : Pin) : List Pin :=
  m.filter (fun q => q.pkg ≠ p.pkg) ++ [p]

def insertNat (x : Nat) (xs : List Nat) : List Nat := if xs.contains x then xs else xs ++ [x]

/-- `unionExtras` (resolve.go:1087-1101) -/
def unionExtras (extras : List Nat) (req : List Nat) : List Nat :=
  req.foldl (fun acc e => insertNat e acc) extras

/-- `resolution.mergeIntoCriterion` (resolve.go:661-689) against state `S` -/
def mergeIntoCriterion (U : Universe) (root : Ver) (S : State) (req : Req) (parent : Ver) : Res Criterion :=
  let crit := (getCrit S.criteria req.pkg).getD Criterion.empty
  if crit.info.any (fun (r, p) => r.spec == req.spec && r.ty == req.ty && p == parent) then .ok crit
  else
    let reqs := crit.info.map (·.1) ++ [req]
    match findMatches U root reqs crit.incompat with
    | .ok m =>
      if m.isEmpty then .conflict
      else .ok { info := crit.info ++ [(req, parent)], extras := unionExtras crit.extras req.extras,
                 incompat := crit.incompat, cands := m }
    | .conflict => .conflict
    | .err => .err
    | .panic => .panic

/-- the loop of `getCriteriaToUpdate` (resolve.go:721-735): every dependency is merged
against the CURRENT state; a later dependency on the same package overwrites. -/
def mergeDeps (U : Universe) (root : Ver) (S : State) (cand : Ver) :
    List Req → List (Nat × Criterion) → Res (List (Nat × Criterion))
  | [], acc => .ok acc
  | d :: ds, acc =>
    match mergeIntoCriterion U root S d cand with
    | .ok c => mergeDeps U root S cand ds (putCrit acc d.pkg c)
    | .conflict => .conflict
    | .err => .err
    | .panic => .panic

/-- `resolution.getCriteriaToUpdate` (resolve.go:715-737) -/
def getCriteriaToUpdate (U : Universe) (root : Ver) (S : State) (cand : Ver) (extras : List Nat) :
    Res (List (Nat × Criterion)) :=
  match getDependencies U cand extras with
  | .ok deps => mergeDeps U root S cand deps []
  | .conflict => .conflict
  | .err => .err
  | .panic => .panic

def putAll (cs : List (Nat × Criterion)) (upd : List (Nat × Criterion)) : List (Nat × Criterion) :=
  upd.foldl (fun acc (n, c) => putCrit acc n c) cs

/-- outcome of `attemptToPinCriterion`: pinned (new top state), or the number of
failure causes, or a hard error -/
inductive PinRes where
  | pinned (S : State)
  | failed (causes : Nat)
  | err
  | panic

/-- the candidate loop of `attemptToPinCriterion` (resolve.go:753-786), candidates
already reversed (tried from the highest) -/
def tryCandidates (U : Universe) (root : Ver) (S : State) (name : Nat) (extras : List Nat) :
    List Nat → Nat → PinRes
  | [], causes => .failed causes
  | c :: cs, causes =>
    match getCriteriaToUpdate U root S ⟨name, c⟩ extras with
    | .ok upd => .pinned { mapping := setPin S.mapping ⟨name, c, extras⟩, criteria := putAll S.criteria upd }
    | .conflict => tryCandidates U root S name extras cs (causes + 1)
    | .err => .err
    | .panic => .panic

/-- `resolution.attemptToPinCriterion` (resolve.go:747-787) -/
def attemptToPinCriterion (U : Universe) (root : Ver) (S : State) (name : Nat) : PinRes :=
  let crit := (getCrit S.criteria name).getD Criterion.empty
  tryCandidates U root S name crit.extras crit.cands.reverse 0

/-! ## Preference -/

structure PrefKey where
  delayThis : Bool
  rating : Nat
  order : Nat
  name : Nat
deriving DecidableEq, Repr

/-- `preferenceKey.Less` (resolve.go:363-374) -/
def PrefKey.less (a b : PrefKey) : Bool :=
  if a.delayThis != b.delayThis then !a.delayThis
  else if a.rating != b.rating then a.rating < b.rating
  else if a.order != b.order then a.order < b.order
  else a.name < b.name

def ratingOf : List (Req × Ver) → Nat
  | [] => C08Consts.ratingNone
  | (r, _) :: rest =>
    if r.hasEqEq then C08Consts.ratingPinned
    else if r.nonEmpty then C08Consts.ratingSpecified
    else ratingOf rest

/-- index of the LAST direct dependency on the package (`direct[identify(d)] = i`) -/
def userOrder (direct : List Req) (name : Nat) : Nat :=
  go direct 0 C08Consts.defaultOrder
where
  go : List Req → Nat → Nat → Nat
    | [], _, acc => acc
    | d :: ds, i, acc => go ds (i + 1) (if d.pkg = name then i else acc)

/-- `provider.getPreference` (resolve.go:306-351) -/
def getPreference (U : Universe) (direct : List Req) (S : State) (name : Nat) : PrefKey :=
  let crit := (getCrit S.criteria name).getD Criterion.empty
  { delayThis := U.delayed name, rating := ratingOf crit.info, order := userOrder direct name, name := name }

/-- `resolution.isCurrentPinSatisfying` (resolve.go:693-709) -/
def isSatisfied (S : State) (name : Nat) (crit : Criterion) : Bool :=
  match getPin S.mapping name with
  | none => false
  | some v => crit.cands.contains v

def unsatisfied (S : State) : List Nat :=
  (S.criteria.filter (fun (n, c) => !isSatisfied S n c)).map (·.1)

/-- the selection loop of `resolve` (resolve.go:944-953) -/
def pickMin (U : Universe) (direct : List Req) (S : State) : Nat → PrefKey → List Nat → Nat
  | minName, _, [] => minName
  | minName, min, n :: ns =>
    let score := getPreference U direct S n
    if score.less min then pickMin U direct S n score ns else pickMin U direct S minName min ns

/-! ## Backtracking -/

def unionNat (a b : List Nat) : List Nat := a.foldl (fun acc x => insertNat x acc) b

/-- `patchCriteria` of `backtrack` (resolve.go:834-871) on the freshly pushed state;
`none` = some criterion lost all its candidates (the partially patched state is
discarded by the caller exactly as Go pops it) -/
def patchCriteria : List (Nat × List Nat) → List (Nat × Criterion) → Option (List (Nat × Criterion))
  | [], cs => some cs
  | (name, inc) :: rest, cs =>
    if inc.isEmpty then patchCriteria rest cs
    else
      match getCrit cs name with
      | none => patchCriteria rest cs
      | some crit =>
        let all := unionNat inc crit.incompat
        let m := crit.cands.filter (fun c => !all.contains c)
        if m.isEmpty then none
        else patchCriteria rest (putCrit cs name { crit with incompat := all, cands := m })

/-- `versionMap.Pop` -/
def popPin (m : List Pin) : Option (Pin × List Pin) :=
  match m.getLast? with
  | none => none
  | some p => some (p, m.dropLast)

/-- `resolution.backtrack` (resolve.go:793-886); the stack has its top at the head.
Returns the new stack and whether a state to continue from was found. `n` bounds the
number of loop iterations (each shortens the stack by one). -/
def backtrack : Nat → List State → List State × Bool
  | n + 1, _top :: broken :: prev :: rest =>
    if (_top :: broken :: prev :: rest).length < C08Consts.backtrackMinStates then (_top :: broken :: prev :: rest, false)
    else
      let incs : List (Nat × List Nat) := broken.criteria.map (fun (nm, c) => (nm, c.incompat))
      let incs := match popPin broken.mapping with
        | some (p, _) => incs ++ [(p.pkg, [p.id])]
        | none => incs
      match patchCriteria incs prev.criteria with
      | some cs => ({ mapping := prev.mapping, criteria := cs } :: prev :: rest, true)
      | none => backtrack n (prev :: prev :: rest)
  | _, st => (st, false)

/-! ## The main loop -/

inductive Outcome where
  | done (S : State)
  /-- `resolutionImpossibleError` or `errTooDeep`: reported as `Graph.Error` -/
  | graphError
  | err
  | panic

/-- the rounds of `resolution.resolve` (resolve.go:918-986); `fuel` = rounds left -/
def rounds (U : Universe) (root : Ver) (direct : List Req) : Nat → List State → Outcome
  | 0, _ => .graphError
  | _ + 1, [] => .err
  | fuel + 1, S :: below =>
    match unsatisfied S with
    | [] => .done S
    | n0 :: ns =>
      let name := pickMin U direct S n0 (getPreference U direct S n0) ns
      match attemptToPinCriterion U root S name with
      | .err => .err
      | .panic => .panic
      | .pinned S' => rounds U root direct fuel (S' :: S' :: below)
      | .failed causes =>
        if causes != 0 then
          match backtrack (below.length + 1) (S :: below) with
          | (st, true) => rounds U root direct fuel st
          | (_, false) => .graphError
        else rounds U root direct fuel (S :: S :: below)

/-- the initial criteria of `resolve` (resolve.go:901-912) -/
def initCriteria (U : Universe) (root : Ver) : List Req → State → Res State
  | [], S => .ok S
  | r :: rs, S =>
    match mergeIntoCriterion U root S r root with
    | .ok c => initCriteria U root rs { S with criteria := putCrit S.criteria r.pkg c }
    | .conflict => .conflict
    | .err => .err
    | .panic => .panic

/-- `resolution.resolve` (resolve.go:889-987) -/
def resolve (U : Universe) (root : Ver) (direct : List Req) (maxRounds : Nat) : Outcome :=
  match initCriteria U root direct ⟨[], []⟩ with
  | .ok S0 => rounds U root direct maxRounds [S0, S0]
  | .conflict => .graphError
  | .err => .err
  | .panic => .panic

/-! ## Building the graph -/

abbrev Conn := List (Ver × Bool)

def connGet : Conn → Ver → Option Bool
  | [], _ => none
  | (w, b) :: rest, v => if w = v then some b else connGet rest v

/-- the parent loop of `hasRouteToRoot` (resolve.go:240-257); `rec` is the recursive call -/
def parentsLoop (rec : Ver → Conn → Option (Conn × Bool)) (S : State) (v : Ver) :
    List (Req × Ver) → Conn → Option (Conn × Bool)
  | [], conn => some (conn, false)
  | (_, parent) :: ps, conn =>
    if connGet conn parent = some true then some ((v, true) :: conn, true)
    else if getPin S.mapping parent.pkg ≠ some parent.id then parentsLoop rec S v ps conn
    else
      match rec parent conn with
      | none => none
      | some (conn', true) => some ((v, true) :: conn', true)
      | some (conn', false) => parentsLoop rec S v ps conn'

/-- `hasRouteToRoot` (resolve.go:220-258); `none` = recursion budget exhausted (cannot
happen with budget > number of pins: every call marks one more pinned version) -/
def hasRouteToRoot (S : State) : Nat → Ver → Conn → Option (Conn × Bool)
  | 0, _, _ => none
  | fuel + 1, v, conn =>
    match connGet conn v with
    | some b => some (conn, b)
    | none =>
      let conn := (v, false) :: conn
      match getCrit S.criteria v.pkg with
      | none => some (conn, false)
      | some crit => parentsLoop (hasRouteToRoot S fuel) S v crit.info conn

def idsGet : List (Nat × Ver) → Nat → Option Ver
  | [], _ => none
  | (p, v) :: rest, name => if p = name then some v else idsGet rest name

/-- the node loop of `buildGraph` (resolve.go:170-179) -/
def addNodes (S : State) (fuel : Nat) : List Pin → Conn → List (Nat × Ver) → Option (List (Nat × Ver))
  | [], _, ids => some ids
  | p :: ps, conn, ids =>
    match hasRouteToRoot S fuel ⟨p.pkg, p.id⟩ conn with
    | none => none
    | some (conn', false) => addNodes S fuel ps conn' ids
    | some (conn', true) =>
      match idsGet ids p.pkg with
      | some _ => addNodes S fuel ps conn' ids
      | none => addNodes S fuel ps conn' (ids ++ [(p.pkg, ⟨p.pkg, p.id⟩)])

structure Edge where
  src : Ver
  dst : Ver
  req : Req
deriving Repr

structure Graph where
  /-- node 0 first -/
  nodes : List Ver
  edges : List Edge
deriving Repr

def edgesOf (ids : List (Nat × Ver)) (to : Ver) : List (Req × Ver) → List Edge
  | [] => []
  | (req, parent) :: rest =>
    match idsGet ids parent.pkg with
    | none => edgesOf ids to rest
    | some f => ⟨f, to, req⟩ :: edgesOf ids to rest

/-- the edge loop of `buildGraph` (resolve.go:182-215); `none` = the "unexpected
package" error -/
def addEdges (S : State) (root : Ver) (ids : List (Nat × Ver)) : List (Nat × Ver) → Option (List Edge)
  | [] => some []
  | (p, to) :: rest =>
    match getCrit S.criteria p with
    | none => if p = root.pkg then addEdges S root ids rest else none
    | some crit =>
      match addEdges S root ids rest with
      | none => none
      | some es => some (edgesOf ids to crit.info ++ es)

inductive BuildRes where
  | ok (g : Graph) (ids : List (Nat × Ver))
  | err
  /-- recursion budget of `hasRouteToRoot` exhausted: model failure, never a Go result -/
  | fuel

/-- `buildGraph` (resolve.go:159-218) -/
def buildGraph (S : State) (root : Ver) : BuildRes :=
  match addNodes S (S.mapping.length + 2) S.mapping [(root, true)] [(root.pkg, root)] with
  | none => .fuel
  | some ids =>
    match addEdges S root ids ids with
    | none => .err
    | some es => .ok ⟨ids.map (·.2), es⟩ ids

/-! ## `resolver.Resolve` -/

inductive Result where
  | graph (g : Graph) (S : State) (ids : List (Nat × Ver))
  | graphError
  | err
  | panic
  | fuel

/-- `resolver.Resolve` (resolve.go:96-150) with the round bound as a parameter -/
def resolveWith (U : Universe) (root : Ver) (maxRounds : Nat) : Result :=
  match getDependencies U root [] with
  | .conflict => .err
  | .err => .err
  | .panic => .panic
  | .ok direct =>
    match resolve U root direct maxRounds with
    | .graphError => .graphError
    | .err => .err
    | .panic => .panic
    | .done S =>
      match buildGraph S root with
      | .ok g ids => .graph g S ids
      | .err => .err
      | .fuel => .fuel

def Resolve (U : Universe) (root : Ver) : Result := resolveWith U root C08Consts.maxRounds

end DepsDev.Resolve.Pypi
