/-!
# Model of `util/resolve/pypi/internal/lru` (lru.go) and of memoisation through it

`Cache[K,V]` in Go is a map `m : K → *listNode` plus a doubly linked recency list `l` of
`(k, v)` entries (`head` = most recently used, `tail` = eviction candidate) and `maxSize`.
The model keeps the recency list, front first; the map is the index of that list by key
(`len(c.m)` = length of the list, `c.m[k]` = the entry with key `k`); the translator fact
`Gen.C05LruTraces` records runs of the real code in which the list walked forwards, the
list walked backwards and `len(c.m)` are checked to agree after every operation, and theorem
`Props.C05.lru_model_agrees_with_recorded_runs` replays them on this model.

Branch order follows lru.go (`Add` l.45-67, `Get` l.73-80). The one panic site (`ln :=
c.l.tail; ln.value.k` with an empty list, reachable only when `maxSize ≤ 0`) is a checked
operation: `add` returns `none`. Core Lean only.
-/

namespace DepsDev.Resolve.Lru

structure Cache (K V : Type) where
  /-- recency list, most recently used first -/
  entries : List (K × V)
  maxSize : Nat

variable {K V : Type} [DecidableEq K]

/-- `lru.New(size)`. -/
def new (size : Nat) : Cache K V := ⟨[], size⟩

/-- `c.m[k]`: the entry with key `k`, if any. -/
def lookup (k : K) : List (K × V) → Option V
  | [] => none
  | (k', v) :: l => if k' = k then some v else lookup k l

/-- unlink the node with key `k` from the list -/
def erase (k : K) : List (K × V) → List (K × V)
  | [] => []
  | (k', v) :: l => if k' = k then l else (k', v) :: erase k l

/-- `Cache.Get`: on a hit the node moves to the front. -/
def get (c : Cache K V) (k : K) : Option V × Cache K V :=
  match lookup k c.entries with
  | none => (none, c)
  | some v => (some v, { c with entries := (k, v) :: erase k c.entries })

/-- `Cache.Add`. `none` is the nil dereference of `c.l.tail` (empty list, `maxSize = 0`). -/
def add (c : Cache K V) (k : K) (v : V) : Option (Cache K V) :=
  match lookup k c.entries with
  | some _ =>
    -- key present: update the value, move to front, size unchanged
    some { c with entries := (k, v) :: erase k c.entries }
  | none =>
    if c.entries.length < c.maxSize then
      -- new key and room left: push
      some { c with entries := (k, v) :: c.entries }
    else
      match c.entries with
      | [] => none
      | _ :: _ =>
        -- reuse the tail node for (k, v) and move it to the front
        some { c with entries := (k, v) :: c.entries.dropLast }

/-! ## Memoisation through a cache

The three call sites in pypi/resolve.go (`parseMarker` l.614, `getConstraint` l.531,
`matchingVersionsWithPrereleases` l.472-512) all have the shape

    if v, ok := cache.Get(k); ok { return ofHit(v) }
    r, toStore := compute(k)           -- errors and some ok-paths store nothing
    if toStore != nil { cache.Add(k, toStore) }
    return r
-/

/-- What one memoised function computes. -/
structure Memo (K V ρ : Type) where
  /-- what the computation returns for `k` on a miss -/
  result : K → ρ
  /-- what it stores (nothing on error paths) -/
  store : K → Option V
  /-- what a hit returns -/
  ofHit : V → ρ
  /-- the code returns the very value it stores -/
  law : ∀ k v, store k = some v → result k = ofHit v

variable {ρ : Type}

/-- One memoised call. Outer `none` = panic inside `Add`. -/
def getOrCompute (m : Memo K V ρ) (c : Cache K V) (k : K) : Option (ρ × Cache K V) :=
  match get c k with
  | (some v, c') => some (m.ofHit v, c')
  | (none, c') =>
    match m.store k with
    | none => some (m.result k, c')
    | some v => (add c' k v).map fun c'' => (m.result k, c'')

/-- A list of memoised calls, threading the cache. -/
def runCalls (m : Memo K V ρ) : Cache K V → List K → Option (List ρ × Cache K V)
  | c, [] => some ([], c)
  | c, k :: ks =>
    match getOrCompute m c k with
    | none => none
    | some (r, c') => (runCalls m c' ks).map fun (rs, c'') => (r :: rs, c'')

/-- A client of one cache: it may choose every next key from the answers so far. -/
inductive Prog (K ρ R : Type) where
  | done (r : R)
  | call (k : K) (cont : ρ → Prog K ρ R)

/-- The program run without any cache: every call computes. -/
def Prog.pure {R : Type} (m : Memo K V ρ) : Prog K ρ R → R
  | .done r => r
  | .call k cont => (cont (m.result k)).pure m

/-- The program run against a cache. -/
def Prog.run {R : Type} (m : Memo K V ρ) : Cache K V → Prog K ρ R → Option (R × Cache K V)
  | c, .done r => some (r, c)
  | c, .call k cont =>
    match getOrCompute m c k with
    | none => none
    | some (r, c') => Prog.run m c' (cont r)

/-! ## Threads sharing one cache, one memoised call per atomic step -/

/-- One atomic step of a thread. -/
def stepThread {R : Type} (m : Memo K V ρ) (c : Cache K V) : Prog K ρ R → Option (Cache K V × Prog K ρ R)
  | .done r => some (c, .done r)
  | .call k cont => (getOrCompute m c k).map fun (r, c') => (c', cont r)

/-- Run a schedule (a list of thread indices; indices out of range are skipped). -/
def runSched {R : Type} (m : Memo K V ρ) : Cache K V → List (Prog K ρ R) → List Nat → Option (Cache K V × List (Prog K ρ R))
  | c, ps, [] => some (c, ps)
  | c, ps, i :: s =>
    match ps[i]? with
    | none => runSched m c ps s
    | some p =>
      match stepThread m c p with
      | none => none
      | some (c', p') => runSched m c' (ps.set i p') s

/-! ## The PyPI resolver's three caches

`markerCache` and `constraintCache` memoise pure parsers. A miss of `prereleaseMatchCache`
runs a computation that itself consults `constraintCache` (`getConstraint`), so its
computation is a program over the first two caches. -/

section Three
variable {KM VM RM KC VC RC KP VP RP : Type} [DecidableEq KM] [DecidableEq KC] [DecidableEq KP]

/-- A computation that may use the marker and the constraint cache. -/
inductive Prog2 (KM RM KC RC R : Type) where
  | done (r : R)
  | callM (k : KM) (cont : RM → Prog2 KM RM KC RC R)
  | callC (k : KC) (cont : RC → Prog2 KM RM KC RC R)

/-- A resolution as far as the caches are concerned. -/
inductive Prog3 (KM RM KC RC KP RP R : Type) where
  | done (r : R)
  | callM (k : KM) (cont : RM → Prog3 KM RM KC RC KP RP R)
  | callC (k : KC) (cont : RC → Prog3 KM RM KC RC KP RP R)
  | callP (k : KP) (cont : RP → Prog3 KM RM KC RC KP RP R)

structure Caches (KM VM KC VC KP VP : Type) where
  m : Cache KM VM
  c : Cache KC VC
  p : Cache KP VP

/-- The functions behind the three caches. A miss of the third runs `sub k`, which returns
the result and what to store. -/
structure Memo3 (KM VM RM KC VC RC KP VP RP : Type) where
  mm : Memo KM VM RM
  mc : Memo KC VC RC
  sub : KP → Prog2 KM RM KC RC (RP × Option VP)
  ofHitP : VP → RP

def Prog2.pure {R : Type} (mm : Memo KM VM RM) (mc : Memo KC VC RC) : Prog2 KM RM KC RC R → R
  | .done r => r
  | .callM k cont => (cont (mm.result k)).pure mm mc
  | .callC k cont => (cont (mc.result k)).pure mm mc

def Prog2.run {R : Type} (mm : Memo KM VM RM) (mc : Memo KC VC RC) :
    Cache KM VM → Cache KC VC → Prog2 KM RM KC RC R → Option (R × Cache KM VM × Cache KC VC)
  | cm, cc, .done r => some (r, cm, cc)
  | cm, cc, .callM k cont =>
    match getOrCompute mm cm k with
    | none => none
    | some (r, cm') => Prog2.run mm mc cm' cc (cont r)
  | cm, cc, .callC k cont =>
    match getOrCompute mc cc k with
    | none => none
    | some (r, cc') => Prog2.run mm mc cm cc' (cont r)

/-- The pure function behind the third cache. -/
def Memo3.resultP (M : Memo3 KM VM RM KC VC RC KP VP RP) (k : KP) : RP × Option VP :=
  (M.sub k).pure M.mm M.mc

def Prog3.pure {R : Type} (M : Memo3 KM VM RM KC VC RC KP VP RP) : Prog3 KM RM KC RC KP RP R → R
  | .done r => r
  | .callM k cont => (cont (M.mm.result k)).pure M
  | .callC k cont => (cont (M.mc.result k)).pure M
  | .callP k cont => (cont (M.resultP k).1).pure M

def Prog3.run {R : Type} (M : Memo3 KM VM RM KC VC RC KP VP RP) :
    Caches KM VM KC VC KP VP → Prog3 KM RM KC RC KP RP R → Option (R × Caches KM VM KC VC KP VP)
  | s, .done r => some (r, s)
  | s, .callM k cont =>
    match getOrCompute M.mm s.m k with
    | none => none
    | some (r, cm') => Prog3.run M { s with m := cm' } (cont r)
  | s, .callC k cont =>
    match getOrCompute M.mc s.c k with
    | none => none
    | some (r, cc') => Prog3.run M { s with c := cc' } (cont r)
  | s, .callP k cont =>
    match get s.p k with
    | (some v, cp') => Prog3.run M { s with p := cp' } (cont (M.ofHitP v))
    | (none, cp') =>
      match Prog2.run M.mm M.mc s.m s.c (M.sub k) with
      | none => none
      | some ((r, none), cm', cc') => Prog3.run M { m := cm', c := cc', p := cp' } (cont r)
      | some ((r, some v), cm', cc') =>
        match add cp' k v with
        | none => none
        | some cp'' => Prog3.run M { m := cm', c := cc', p := cp'' } (cont r)

end Three

/-! ## Replaying recorded runs of the real code -/

/-- Replays one recorded run (see `Gen.C05LruTraces`): every `Get` result and every recency
list after a step must be what the model computes. -/
def replay : Cache Nat Nat → List (Bool × Nat × Nat × Option Nat × List (Nat × Nat)) → Bool
  | _, [] => true
  | c, (isAdd, k, v, got, after) :: rest =>
    if isAdd then
      match add c k v with
      | none => false
      | some c' => got == none && c'.entries == after && replay c' rest
    else
      match get c k with
      | (r, c') => r == got && c'.entries == after && replay c' rest

end DepsDev.Resolve.Lru
