/-!
# Model of the npm resolver (deps.dev `util/resolve/npm/resolve.go`), bundle-free core

Core Lean only. The model follows `resolver.Resolve` line by line (queue popped from
the end, `insQueue` reversal, `candidate`, `protected`/`aliasProtected`, the walk-up
reuse loop, the protection marking loop, the pick of `wouldPick` with
`concreteForLatest`, the hoisting loop, the error exits), aliases included, bugs
included. Line numbers refer to `resolve.go` at the pinned commit.

## Boundary: the client's answers are data

The resolver never looks inside a requirement string itself, except for the test
`idep.Version == "*"` and one direct `semver.NPM.ParseConstraint(..).Match(..)` call
on the alias path of the walk-up. Everything else goes through
`resolve.Client`. A `Universe` therefore carries the *answers* of the client:

* `versions`   — `client.Version` / `client.Requirements`: every concrete version with
                 its attribute set and its imports **in the order
                 `client.Requirements` returns them** (for `LocalClient`: after
                 `sortNPMDependencies`);
* `matching`   — `client.MatchingVersions(pkg, requirement)` for every pair that can be
                 asked, in the order the client returns (ascending, `latest` moved last:
                 `match.go: sortNPMVersions`); `none` = the call fails;
* `semver`     — for every requirement string: `none` if
                 `semver.NPM.ParseConstraint` fails, else the version strings of the
                 universe that the constraint matches.

What a requirement *means* (range semantics, ordering of versions) is the business
of properties C03 and C12; nothing below depends on it.

## Names are numbers

The resolver only compares strings for equality (package names, version strings,
requirement strings, alias names, attribute values) and against five literals. All
strings are therefore interned to `Nat` by the harness (an injective table that is
part of the op line); the literals have fixed numbers (`Name.empty` … `Name.latest`).

## The install tree

Go's `treeNode` pointer structure is a finite map **path ↦ node**, the path being the
list of slots from the node up to the root (innermost first; `[]` is the root), a
slot being `(alias?, name)`: `children[pk]` of the node at `p` is the entry at
`⟨false, pk.Name⟩ :: p`, `alias[a]` is the entry at `⟨true, a⟩ :: p`, `node.parent` is the
tail. Nodes are never moved or deleted in the bundle-free core, so a path is a stable
identity; the queue holds paths.

## Not modelled here

Bundled (derived) packages: `injectDerivedFrom`, `getBundledVersion`, the branches of
the walk-up that handle a bundled child (lines 220–226 second arm, 236–266), the
`resolved.id == 0` branch (297–304) and the final scan for unused bundled versions
(405–423). On universes in which no version carries a `DerivedFrom` attribute all of
these are dead code: `getBundledVersion` returns nil for every requirement, so no node
has `bundled != nil`, every non-root node gets a non-zero id when it is created, and
`child.bundled == nil` makes line 240 break. `DepsDev.Resolve.NpmBundle` is the
extension with bundles (correspondence-checked only).
-/

namespace DepsDev.Resolve.Npm

abbrev Name := Nat

/-- `""` -/
def Name.empty : Name := 0
/-- `"*"` -/
def Name.star : Name := 1
/-- `"bundle"` -/
def Name.bundle : Name := 2
/-- `"peer"` -/
def Name.peer : Name := 3
/-- `"latest"` -/
def Name.latest : Name := 4

/-- Result of a Go call. `bad` is not a Go outcome: it says the universe's tables do not
answer a question the run asked, or that a tree path the run follows is missing
(excluded by `Universe` well-formedness and the tree invariant respectively). -/
inductive Outcome (α : Type) where
  | ok (a : α)
  | err
  | bad
deriving DecidableEq, Repr

/-- `internal/attr.Set` (also `dep.Type`, `version.AttrSet`): a bit mask and keyed
string attributes, kept sorted by key (so `Compare == 0` is structural equality). -/
structure AttrSet where
  mask : Nat
  attrs : List (Nat × Name)
deriving DecidableEq, Repr

namespace AttrSet

def empty : AttrSet := ⟨0, []⟩

def getL : List (Nat × Name) → Nat → Option Name
  | [], _ => none
  | (k, v) :: rest, key => if k = key then some v else getL rest key

/-- `GetAttr(key)` for a non-negative key. -/
def get (s : AttrSet) (key : Nat) : Option Name := getL s.attrs key

def setL : List (Nat × Name) → Nat → Name → List (Nat × Name)
  | [], key, v => [(key, v)]
  | (k, w) :: rest, key, v =>
    if key < k then (key, v) :: (k, w) :: rest
    else if key = k then (k, v) :: rest
    else (k, w) :: setL rest key v

/-- `SetAttr(key, value)` / `AddAttr` for a non-negative key. -/
def set (s : AttrSet) (key : Nat) (v : Name) : AttrSet := { s with attrs := setL s.attrs key v }

/-- `IsRegular`. -/
def isRegular (s : AttrSet) : Bool := s.mask == 0 && s.attrs.isEmpty

/-- bit test of the mask: `Mask & (1<<bit) != 0`. -/
def maskBit (s : AttrSet) (bit : Nat) : Bool := (s.mask / 2 ^ bit) % 2 == 1

end AttrSet

/-- dep attribute keys (`dep/key.go`). -/
def depScope : Nat := 3
def depKnownAs : Nat := 8
def depSelector : Nat := 11
/-- version attribute key `DerivedFrom` (`version/key.go`). -/
def verDerivedFrom : Nat := 3

/-- `resolve.Version` of type Concrete in system NPM. -/
structure Version where
  name : Name
  version : Name
  attr : AttrSet
deriving DecidableEq, Repr

namespace Version

/-- `v.VersionKey == w.VersionKey`. -/
def keyEq (v w : Version) : Bool := v.name == w.name && v.version == w.version

/-- `version.Blocked = -1`: mask bit 0. -/
def blocked (v : Version) : Bool := v.attr.maskBit 0

/-- `resolve.Version.Equal` (client.go): equal keys **or** equal attribute sets.
`none` is the zero `Version{}` that `concreteForLatest` returns when there is no single
`latest`: its key differs from every NPM key, its attribute set is empty. -/
def equalOpt (v : Version) : Option Version → Bool
  | some w => v.keyEq w || v.attr == w.attr
  | none => v.attr == AttrSet.empty

end Version

/-- `resolve.RequirementVersion`. -/
structure Import where
  name : Name
  req : Name
  ty : AttrSet
deriving DecidableEq, Repr

namespace Import

/-- `dep.Dev = -1`. -/
def dev (i : Import) : Bool := i.ty.maskBit 0
/-- `dep.Opt = -2`. -/
def opt (i : Import) : Bool := i.ty.maskBit 1
def regular (i : Import) : Bool := i.ty.isRegular
/-- `alias, _ := idep.Type.GetAttr(dep.KnownAs)`: `""` when absent. -/
def alias (i : Import) : Name :=
  match i.ty.get depKnownAs with
  | some a => a
  | none => Name.empty
/-- `scope, _ := d.Type.GetAttr(dep.Scope)`. -/
def scope (i : Import) : Name :=
  match i.ty.get depScope with
  | some a => a
  | none => Name.empty

end Import

/-- The client's answers (see the header). -/
structure Universe where
  versions : List (Version × List Import)
  matching : List ((Name × Name) × Option (List Version))
  semver : List (Name × Option (List Name))

namespace Universe

def findVersion : List (Version × List Import) → Name → Name → Option (Version × List Import)
  | [], _, _ => none
  | (v, is) :: rest, n, ver =>
    if v.name = n ∧ v.version = ver then some (v, is) else findVersion rest n ver

/-- `client.Version(vk)`. -/
def version (u : Universe) (n ver : Name) : Option Version :=
  match findVersion u.versions n ver with
  | some (v, _) => some v
  | none => none

/-- `client.Requirements(vk)`. -/
def requirements (u : Universe) (n ver : Name) : Option (List Import) :=
  match findVersion u.versions n ver with
  | some (_, is) => some is
  | none => none

def findMatching : List ((Name × Name) × Option (List Version)) → Name → Name → Option (Option (List Version))
  | [], _, _ => none
  | ((p, r), a) :: rest, pkg, req => if p = pkg ∧ r = req then some a else findMatching rest pkg req

/-- `client.MatchingVersions(pkg, req)`: `bad` when the table has no row,
`err` when the client fails. -/
def matchingVersions (u : Universe) (pkg req : Name) : Outcome (List Version) :=
  match findMatching u.matching pkg req with
  | none => .bad
  | some none => .err
  | some (some vs) => .ok vs

def findSemver : List (Name × Option (List Name)) → Name → Option (Option (List Name))
  | [], _ => none
  | (r, a) :: rest, req => if r = req then some a else findSemver rest req

/-- `semver.NPM.ParseConstraint(req)` then `.Match(version)`. -/
def constraintMatch (u : Universe) (req ver : Name) : Outcome Bool :=
  match findSemver u.semver req with
  | none => .bad
  | some none => .err
  | some (some vs) => .ok (vs.contains ver)

end Universe

/-! ## regularImports (lines 495–552), bundle-free -/

/-- first loop: the names that have a non-dev optional import. -/
def optPackage (imps : List Import) (n : Name) : Bool :=
  imps.any fun d => !d.dev && d.opt && d.name == n

/-- first loop: the names that have a non-dev import without any attribute. -/
def regPackage (imps : List Import) (n : Name) : Bool :=
  imps.any fun d => !d.dev && d.regular && d.name == n

/-- second loop: is `d` kept? -/
def keepImport (imps : List Import) (d : Import) : Bool :=
  if d.dev then false
  else if !d.opt && optPackage imps d.name then false
  else if d.scope = Name.bundle then !regPackage imps d.name
  else if d.scope = Name.peer then false
  else true

def regularImports (imps : List Import) : List Import := imps.filter (keepImport imps)

/-! ## The tree -/

structure Slot where
  alias : Bool
  name : Name
deriving DecidableEq, Repr

abbrev Path := List Slot

/-- `treeNode` without `parent`, `children`, `alias` (these are the paths). `pkg` is
`ver.name` in the bundle-free core. -/
structure TNode where
  ver : Version
  ideps : List Import
  processed : Bool
  /-- `protected` -/
  prot : List Name
  /-- `aliasProtected` -/
  aprot : List Name
  id : Nat
deriving DecidableEq, Repr

abbrev Tree := List (Path × TNode)

namespace Tree

def get? : Tree → Path → Option TNode
  | [], _ => none
  | (q, n) :: t, p => if q = p then some n else get? t p

/-- in-place update of the node at `p` (Go: a write through the pointer). -/
def modify (t : Tree) (p : Path) (f : TNode → TNode) : Tree :=
  t.map fun e => if e.1 = p then (e.1, f e.2) else e

end Tree

/-- `resolve.Node`: version key and the requirement keys of its errors (messages are
not modelled). -/
structure GNode where
  name : Name
  version : Name
  errs : List (Name × Name)
deriving DecidableEq, Repr

/-- `resolve.Edge`; `imp` (the import the edge resolves) and `fresh` (created by a new
install rather than by reuse) are ghost fields, not printed. `Requirement = imp.req`. -/
structure Edge where
  src : Nat
  dst : Nat
  ty : AttrSet
  imp : Import
  fresh : Bool
deriving DecidableEq, Repr

structure State where
  tree : Tree
  nodes : List GNode
  edges : List Edge
deriving DecidableEq

/-- `g.AddNode`. -/
def State.addNode (st : State) (v : Version) : State × Nat :=
  ({ st with nodes := st.nodes ++ [⟨v.name, v.version, []⟩] }, st.nodes.length)

/-- `g.AddEdge`: error when an endpoint is not a node. -/
def State.addEdge (st : State) (e : Edge) : Option State :=
  if e.src < st.nodes.length ∧ e.dst < st.nodes.length then
    some { st with edges := st.edges ++ [e] }
  else none

def addErrL : List GNode → Nat → Name × Name → List GNode
  | [], _, _ => []
  | g :: rest, 0, e => { g with errs := g.errs ++ [e] } :: rest
  | g :: rest, n + 1, e => g :: addErrL rest n e

/-- `g.AddError`: error when `n` is not a node. -/
def State.addError (st : State) (n : Nat) (req : Name × Name) : Option State :=
  if n < st.nodes.length then some { st with nodes := addErrL st.nodes n req } else none

/-- `candidate` (lines 435–451): the occupant of the slot a dependency `(ipk, alias)`
would look at in the node at `cur`, and whether it was found as a plain child. -/
def candidate (t : Tree) (cur : Path) (ipk alias : Name) : Option (Path × TNode × Bool) :=
  if alias = Name.empty then
    match t.get? (⟨false, ipk⟩ :: cur) with
    | some c => some (⟨false, ipk⟩ :: cur, c, true)
    | none =>
      match t.get? (⟨true, ipk⟩ :: cur) with
      | some c => some (⟨true, ipk⟩ :: cur, c, false)
      | none => none
  else
    match t.get? (⟨true, alias⟩ :: cur) with
    | some c => some (⟨true, alias⟩ :: cur, c, false)
    | none =>
      match t.get? (⟨false, alias⟩ :: cur) with
      | some c => some (⟨false, alias⟩ :: cur, c, false)
      | none => none

/-- `protected` (lines 453–469). -/
def isProtected (n : TNode) (ipk alias : Name) : Bool :=
  if alias = Name.empty then n.prot.contains ipk || n.aprot.contains ipk
  else n.aprot.contains alias || n.prot.contains alias

/-- `newTreeNode` (lines 472–491): `err` when `client.Requirements` fails. -/
def newTreeNode (u : Universe) (v : Version) (id : Nat) : Outcome TNode :=
  match u.requirements v.name v.version with
  | none => .err
  | some reqs => .ok ⟨v, regularImports reqs, false, [], [], id⟩

/-- One iteration of the walk-up loop body at `node` (lines 201–266, bundle-free):
`none` = `continue` (slot free), `some r` = the loop ends with `resolved = r`. -/
def walkAt (u : Universe) (t : Tree) (idep : Import) (dvers : List Version) (node : Path) :
    Outcome (Option (Option Path)) :=
  match candidate t node idep.name idep.alias with
  | none => .ok none
  | some (cp, child, true) =>
    -- lines 205–213, 233–235, then `break` at 241 (`child.bundled == nil`)
    if dvers.any (fun d => child.ver.keyEq d) || idep.req == Name.star then .ok (some (some cp))
    else .ok (some none)
  | some (cp, child, false) =>
    -- lines 215–230
    match u.constraintMatch idep.req child.ver.version with
    | .bad => .bad
    | .err => .err
    | .ok true => .ok (some (some cp))
    | .ok false => .ok (some none)

/-- The walk-up loop `for node := cur; node != nil; node = node.parent` (line 200). -/
def walkUp (u : Universe) (t : Tree) (idep : Import) (dvers : List Version) : Path → Outcome (Option Path)
  | [] =>
    match walkAt u t idep dvers [] with
    | .bad => .bad
    | .err => .err
    | .ok none => .ok none
    | .ok (some r) => .ok r
  | s :: parent =>
    match walkAt u t idep dvers (s :: parent) with
    | .bad => .bad
    | .err => .err
    | .ok none => walkUp u t idep dvers parent
    | .ok (some r) => .ok r

/-- `m[k] = true` on a Go `map[..]bool` used as a set. -/
def setInsert (k : Name) (l : List Name) : List Name := if l.contains k then l else k :: l

def markNode (ipk alias : Name) (n : TNode) : TNode :=
  if alias ≠ Name.empty then { n with aprot := setInsert alias n.aprot }
  else { n with prot := setInsert ipk n.prot }

/-- The marking loop (lines 281–295). -/
def markProtected (ipk alias : Name) : Tree → Path → Tree
  | t, [] =>
    if (candidate t [] ipk alias).isSome then t else t.modify [] (markNode ipk alias)
  | t, s :: parent =>
    if (candidate t (s :: parent) ipk alias).isSome then t
    else markProtected ipk alias (t.modify (s :: parent) (markNode ipk alias)) parent

/-- `concreteForLatest` (lines 556–565): the zero version (`none`) when the client
fails or does not return exactly one version. -/
def concreteForLatest (u : Universe) (pkg : Name) : Outcome (Option Version) :=
  match u.matchingVersions pkg Name.latest with
  | .bad => .bad
  | .err => .ok none
  | .ok [v] => .ok (some v)
  | .ok _ => .ok none

/-- The loop of lines 322–332 over `dvers` from the end (`rev` = `dvers` reversed). -/
def pickLoop (latest : Option Version) : List Version → Option Version
  | [] => none
  | v :: rest => if v.equalOpt latest || !v.blocked then some v else pickLoop latest rest

/-- `pick` of lines 321–332 given the initial `wouldPick = last` (line 185) and the
rest of `dvers` reversed. -/
def pickFrom (latest : Option Version) (last : Version) (rest : List Version) : Version :=
  match pickLoop latest (last :: rest) with
  | some v => v
  | none => last

/-- `wouldPick` after line 332: `none` iff `dvers` is empty (line 311). -/
def wouldPick (u : Universe) (dvers : List Version) : Outcome (Option Version) :=
  match dvers.reverse with
  | [] => .ok none
  | last :: rest =>
    match concreteForLatest u last.name with
    | .bad => .bad
    | .err => .err
    | .ok latest => .ok (some (pickFrom latest last rest))

def addProtected (pkg : Name) (n : TNode) : TNode := { n with prot := setInsert pkg n.prot }

/-- The hoisting loop (lines 352–361, `installHere` is always false without bundles):
returns the tree with the `protected` marks and the final `parent`. -/
def hoist (pkg alias : Name) : Tree → Path → Outcome (Tree × Path)
  | t, [] => .ok (t, [])
  | t, s :: pp =>
    match t.get? pp with
    | none => .bad
    | some ppn =>
      if (candidate t pp pkg alias).isSome then .ok (t, s :: pp)
      else if isProtected ppn pkg alias then .ok (t, s :: pp)
      else hoist pkg alias (t.modify (s :: pp) (addProtected pkg)) pp

/-- State of the loop over `cur.ideps`: graph + tree, and `insQueue` in Go's order. -/
structure Acc where
  st : State
  ins : List Path

/-- The body of `for _, idep := range cur.ideps` (lines 176–397) for the node at `cur`
with graph id `curId`. -/
def stepDep (u : Universe) (cur : Path) (curId : Nat) (a : Acc) (idep : Import) : Outcome Acc :=
  match u.matchingVersions idep.name idep.req with          -- 177
  | .bad => .bad
  | .err => .err
  | .ok dvers =>
    match walkUp u a.st.tree idep dvers cur with               -- 200–267
    | .bad => .bad
    | .err => .err
    | .ok (some rp) =>                                         -- 275–309
      match a.st.tree.get? rp with
      | none => .bad
      | some rn =>
        let ins := if rn.processed then a.ins else a.ins ++ [rp]
        let tree := markProtected idep.name idep.alias a.st.tree cur
        match ({ a.st with tree := tree } : State).addEdge ⟨curId, rn.id, idep.ty, idep, false⟩ with
        | none => .err
        | some st => .ok ⟨st, ins⟩
    | .ok none =>
      match wouldPick u dvers with                               -- 311–332
      | .bad => .bad
      | .err => .err
      | .ok none =>
        -- 311–314 (the error of AddError is ignored there)
        match a.st.addError curId (idep.name, idep.req) with
        | none => .ok a
        | some st => .ok ⟨st, a.ins⟩
      | .ok (some pick) =>
        match newTreeNode u pick a.st.nodes.length with          -- 333
        | .bad => .bad
        | .err => .err
        | .ok node =>
          if (candidate a.st.tree cur node.ver.name idep.alias).isSome then   -- 344–351
            match a.st.addError curId (idep.name, idep.req) with
            | none => .err
            | some st => .ok ⟨st, a.ins⟩
          else
            match hoist node.ver.name idep.alias a.st.tree cur with           -- 352–361
            | .bad => .bad
            | .err => .err
            | .ok (tree, parent) =>
              match tree.get? parent with
              | none => .bad
              | some pn =>
                if parent ≠ [] ∧ pn.ver.name = node.ver.name then             -- 368–377
                  match ({ a.st with tree := tree } : State).addError curId (idep.name, idep.req) with
                  | none => .err
                  | some st => .ok ⟨st, a.ins⟩
                else
                  let slot : Slot :=
                    if idep.alias = Name.empty then ⟨false, node.ver.name⟩ else ⟨true, idep.alias⟩  -- 378–385
                  let tree := tree ++ [(slot :: parent, node)]
                  let (st, id) := ({ a.st with tree := tree } : State).addNode node.ver          -- 388
                  match st.addEdge ⟨curId, id, idep.ty.set depSelector Name.empty, idep, true⟩ with -- 392–396
                  | none => .err
                  | some st => .ok ⟨st, a.ins ++ [slot :: parent]⟩

def stepDeps (u : Universe) (cur : Path) (curId : Nat) : List Import → Acc → Outcome Acc
  | [], a => .ok a
  | d :: rest, a =>
    match stepDep u cur curId a d with
    | .bad => .bad
    | .err => .err
    | .ok a' => stepDeps u cur curId rest a'

def setProcessed (n : TNode) : TNode := { n with processed := true }

/-- The main loop (lines 160–403). The queue is a stack whose head is the *last*
element of Go's slice. One unit of fuel per pop. `none` = fuel exhausted. -/
def loop (u : Universe) : Nat → List Path → State → Option (Outcome State)
  | _, [], st => some (.ok st)
  | 0, _ :: _, _ => none
  | fuel + 1, cur :: queue, st =>
    match st.tree.get? cur with
    | none => some .bad
    | some cn =>
      if cn.processed then loop u fuel queue st                      -- 167–169
      else
        let st1 : State := { st with tree := st.tree.modify cur setProcessed }  -- 170
        match stepDeps u cur cn.id cn.ideps ⟨st1, []⟩ with
        | .bad => some .bad
        | .err => some .err
        | .ok a => loop u fuel (a.ins ++ queue) a.st                 -- 400–402

/-- `Resolve` (lines 132–159, then the loop). -/
def resolve (u : Universe) (rootName rootVer : Name) (fuel : Nat) : Option (Outcome State) :=
  match u.version rootName rootVer with
  | none => some .err
  | some v =>
    match newTreeNode u v 0 with
    | .bad => some .bad
    | .err => some .err
    | .ok root =>
      loop u fuel [[]] ⟨[([], root)], [⟨v.name, v.version, []⟩], []⟩

end DepsDev.Resolve.Npm
