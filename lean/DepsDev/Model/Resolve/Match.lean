import DepsDev.Model.Semver.Constraint

/-!
# util/resolve/match.go — `SortVersions`, `sortNPMVersions`, `MatchRequirement`

Model conventions: DESIGN.md Appendix B. Version comparison, version parsing and
constraint matching are the semver model's (`DepsDev.Semver`), instantiated, not
re-modelled.

Abstractions (stated once, used by C12 and C14):

* `version.AttrSet` is abstracted to what match.go / client.go read and what the
  harness can set and observe: the three flag attributes `Blocked`, `Deleted`, `Error`
  and the `Tags` attribute (absent, or present with a byte-string value). Other
  value-carrying attributes are never generated and are not modelled.
* `vers[v.VersionKey]` in `SortVersions` / `sortNPMVersions` (a map from keys to parsed
  versions, filled from `sys.Parse(v.Version)`) is the function
  `v ↦ parse sys v.Version`: two list elements with the same key have the same version
  string, hence the same parse result.
* `sort.Slice` is modelled by `goSort`, the insertion sort that Go's `sort.Slice` runs for
  slices of at most 12 elements (`insertionSort_func`). By `Proofs/SortUnique.lean`, when
  `less` is a strict weak order on the elements whose ties are identical elements, **every**
  sorted permutation equals `goSort`'s, so the choice of algorithm is irrelevant there;
  outside that domain (Maven's intransitive comparison, duplicate version strings) the
  model only claims to describe Go for n ≤ 12.
* A panic inside `SortVersions` is modelled by a guard evaluated before sorting
  (`comparable`): some `Parse` panics, or some pair of parsed versions has no comparison
  result. Go would panic only if the offending comparison is actually executed; neither
  happens for any version the semver model parses (C01: `vcompare` is total on parsed
  versions of one system), so the guard never fires in the explored domain.
-/
namespace DepsDev.Resolve.Match

open DepsDev
open DepsDev.Semver (Outcome cmpBytes)

/-- `resolve.System`. -/
inductive RSystem where
  | unknown | npm | maven | pypi
  deriving Repr, DecidableEq, Inhabited

namespace RSystem
/-- `System.Semver()`. -/
def semver : RSystem → Semver.System
  | npm => .npm
  | maven => .maven
  | pypi => .pypi
  | unknown => .default

def wireName : RSystem → String
  | unknown => "UnknownSystem" | npm => "NPM" | maven => "Maven" | pypi => "PyPI"

def ofWire (s : String) : Option RSystem :=
  [unknown, npm, maven, pypi].find? (fun x => x.wireName == s)
end RSystem

/-- `resolve.VersionType`. -/
inductive VersionType where
  | unknown | concrete | requirement
  deriving Repr, DecidableEq, Inhabited

structure PackageKey where
  sys : RSystem
  name : Bytes
  deriving Repr, DecidableEq, Inhabited

structure VersionKey where
  pk : PackageKey
  vtype : VersionType
  version : Bytes
  deriving Repr, DecidableEq, Inhabited

/-- `version.AttrSet`, abstracted (see the header). -/
structure VAttrs where
  blocked : Bool := false
  deleted : Bool := false
  error : Bool := false
  tags : Option Bytes := none
  deriving Repr, DecidableEq, Inhabited

/-- `resolve.Version` = `VersionKey` + `version.AttrSet`. -/
structure Version where
  key : VersionKey
  attrs : VAttrs := {}
  deriving Repr, DecidableEq, Inhabited

/-- `resolve.Version` under a name that does not clash with `semver.Version`. -/
abbrev RVersion := Version

/-- `tags, _ := v.GetAttr(version.Tags)`: the empty string when absent. -/
def Version.tagsStr (v : Version) : Bytes :=
  match v.attrs.tags with
  | some t => t
  | none => []

/-! ### byte-string helper (`strings.Split`) -/

/-- `strings.Split(s, string(sep))` for a one-byte separator: never empty; `""` gives `[""]`,
consecutive (leading, trailing) separators give empty elements. -/
def splitOn (sep : UInt8) : Bytes → List Bytes
  | [] => [[]]
  | c :: cs =>
    match splitOn sep cs with
    | [] => [[c]]      -- not reachable: the result is never empty
    | p :: ps => if c == sep then [] :: p :: ps else (c :: p) :: ps

def latestBytes : Bytes := [108, 97, 116, 101, 115, 116]   -- "latest"

/-! ### `sort.Slice` -/

/-- One outer iteration of Go's `insertionSort_func`: `x` (at the right end) moves left
while `less x prev`; it comes to rest right after the right-most element `e` with
`¬ less x e` (or at the front). -/
def insertLast {α : Type} (less : α → α → Bool) (x : α) : List α → List α
  | [] => [x]
  | y :: ys => if (y :: ys).all (fun e => less x e) then x :: y :: ys else y :: insertLast less x ys

def sortFrom {α : Type} (less : α → α → Bool) : List α → List α → List α
  | acc, [] => acc
  | acc, x :: xs => sortFrom less (insertLast less x acc) xs

/-- Go's `insertionSort_func` (what `sort.Slice` runs for n ≤ 12). -/
def goSort {α : Type} (less : α → α → Bool) (l : List α) : List α := sortFrom less [] l

/-! ### `SortVersions`, `sortNPMVersions` -/

/-- A list element together with `vers[v.VersionKey]` (`none` = nil: did not parse). -/
structure DV where
  v : Version
  sv : Option Semver.Version
  deriving Repr, DecidableEq

/-- The loop `ver, err := sys.Parse(v.Version); if err != nil { continue }; vers[key] = ver`. -/
def dec (sys : Semver.System) (v : Version) : DV :=
  ⟨v, (Semver.parse sys v.key.version).toOption⟩

/-- The closure passed to `sort.Slice` in `SortVersions` and in `sortNPMVersions` (the two
are the same function of `(vers[·], Version string)`). -/
def less (a b : DV) : Bool :=
  match a.sv, b.sv with
  | some _, none => true          -- versions that parse sort before those that do not
  | none, some _ => false
  | some x, some y =>
    match Semver.vcompare x y with
    | .ok c => if c != 0 then c < 0 else cmpBytes a.v.key.version b.v.key.version < 0
    | .err => false               -- excluded by `comparable` before sorting
    | .panic => false
  | none, none => cmpBytes a.v.key.version b.v.key.version < 0

def cmpOK (a b : DV) : Bool :=
  match a.sv, b.sv with
  | some x, some y => (Semver.vcompare x y).isOk
  | _, _ => true

/-- No panic can occur while sorting (see the header). -/
def comparable (sys : Semver.System) (vs : List Version) : Bool :=
  vs.all (fun v => !(Semver.parse sys v.key.version).isPanic) &&
  (vs.map (dec sys)).all (fun a => (vs.map (dec sys)).all (fun b => cmpOK a b))

/-- Parse loop + `sort.Slice` of `SortVersions`/`sortNPMVersions`, on decorated elements. -/
def sortBase (sys : Semver.System) (vs : List Version) : Outcome (List DV) :=
  if comparable sys vs then .ok (goSort less (vs.map (dec sys))) else .panic

/-- `sv.IsPrerelease()` with `sv` possibly nil. -/
def DV.isPre (d : DV) : Bool :=
  match d.sv with
  | some x => x.isPrerelease
  | none => false

/-- `slices.Contains(strings.Split(tags, ","), "latest")`: the record carries the dist-tag
`latest`, i.e. one of the comma-separated tags is exactly `latest` (the repair of
F-C12-latest-substr; the test used to be `strings.Contains(tags, "latest")`). -/
def Version.exactLatest (v : Version) : Bool := (splitOn 44 v.tagsStr).contains latestBytes

/-- The test of the loop of `sortNPMVersions`, on a decorated element. -/
def DV.hasLatest (d : DV) : Bool := d.v.exactLatest

/-- Splits at the LAST element satisfying `p` (the loop keeps overwriting `latestIdx`). -/
def splitLast {α : Type} (p : α → Bool) : List α → Option (List α × α × List α)
  | [] => none
  | x :: xs =>
    match splitLast p xs with
    | some (pre, y, post) => some (x :: pre, y, post)
    | none => if p x then some ([], x, xs) else none

/-- Tail of `sortNPMVersions`: find the version tagged `latest`, move it to the end unless it is a
pre-release and not everything is a pre-release. -/
def moveLatest (ds : List DV) : List DV :=
  let allPrerelease := ds.all DV.isPre
  match splitLast DV.hasLatest ds with
  | none => ds
  | some (pre, x, post) =>
    if x.isPre && !allPrerelease then ds else pre ++ post ++ [x]

/-- `sortNPMVersions`. -/
def sortNPMVersions (vs : List Version) : Outcome (List Version) :=
  match sortBase .npm vs with
  | .ok ds => .ok ((moveLatest ds).map DV.v)
  | .err => .err
  | .panic => .panic

/-- `SortVersions`: dispatches on the system of the FIRST element. -/
def sortVersions (vs : List Version) : Outcome (List Version) :=
  match vs with
  | [] => .ok []
  | v0 :: _ =>
    if v0.key.pk.sys = .npm then sortNPMVersions vs
    else
      match sortBase v0.key.pk.sys.semver vs with
      | .ok ds => .ok (ds.map DV.v)
      | .err => .err
      | .panic => .panic

/-! ### `MatchRequirement` -/

/-- The loop `for _, v := range vers { if constraint.Match(v.Version) { append } }`. -/
def filterMatch (c : Semver.Constraint) : List Version → Outcome (List Version)
  | [] => .ok []
  | v :: vs =>
    match c.matchStr v.key.version with
    | .ok m =>
      match filterMatch c vs with
      | .ok r => .ok (if m then v :: r else r)
      | .err => .err
      | .panic => .panic
    | .err => .err
    | .panic => .panic

/-- The test of the non-range branch of `matchNPMRequirement`: exact version string, or one
of the comma-separated tags. -/
def npmExact (req : Bytes) (v : Version) : Bool :=
  req == v.key.version || (splitOn 44 v.tagsStr).contains req

/-- `matchNPMRequirement`. -/
def matchNPMRequirement (req : VersionKey) (vers : List Version) : Outcome (List Version) :=
  match sortNPMVersions vers with
  | .ok vers =>
    match Semver.parseConstraint req.pk.sys.semver req.version with
    | .panic => .panic
    | .err =>
      -- look for an exact string match, either on the version string or in the tags
      match vers.find? (npmExact req.version) with
      | some v => .ok [v]
      | none => .ok []
    | .ok c => filterMatch c vers
  | .err => .err
  | .panic => .panic

/-- `matchRequirement` (default implementation). -/
def matchRequirement (req : VersionKey) (versions : List Version) : Outcome (List Version) :=
  match sortVersions versions with
  | .ok versions =>
    match Semver.parseConstraint req.pk.sys.semver req.version with
    | .panic => .panic
    | .err => .ok (versions.filter (fun v => req.version == v.key.version))   -- fall back to string matching
    | .ok c => filterMatch c versions
  | .err => .err
  | .panic => .panic

/-- `MatchRequirement`. -/
def matchReq (req : VersionKey) (versions : List Version) : Outcome (List Version) :=
  if req.pk.sys = .npm then matchNPMRequirement req versions else matchRequirement req versions

/-! ### decidable hypothesis of the C12 partial theorems (correspondence op `classify`)

Not part of match.go: the classifier of the finding class F-C12-mvn-intrans, evaluated by
the driver so that the harness's copy is tied to the predicate the theorems use. -/

/-- `less` is a strict weak order on the decorated elements of the list whose ties have
identical version strings (`Proofs.C12Order.orderLawfulB_iff`). -/
def orderLawfulB (s : Semver.System) (l : List Version) : Bool :=
  let ds := l.map (dec s)
  ds.all fun a => ds.all fun b =>
    (!(less a b) || !(less b a)) &&
    (less a b || less b a || a.v.key.version == b.v.key.version) &&
    ds.all fun c => (less b a || less c b || !(less c a))

end DepsDev.Resolve.Match
