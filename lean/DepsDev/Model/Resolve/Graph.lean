import DepsDev.Model.Bytes

/-!
# Model of `Graph.Canon` (deps.dev `util/resolve/graph.go`)

Core Lean only. The model follows `Graph.Canon` step by step (error sort, node
sort with the root pinned, the post-sort duplicate scan, `renumber` + edge sort,
`canonBFS` with its two failure conditions, second `renumber`), bugs included.

## What is abstracted (rank encoding)

* A node's `VersionKey` and a `NodeError`'s `Req` (`resolve.VersionKey`) and an
  edge's `dep.Type` are **natural numbers**: the rank of the value under Go's own
  `VersionKey.Compare` / `dep.Type.Compare` (the harness computes the ranks with
  the real comparators and checks that they are strict total orders on the values
  used). The comparators themselves are outside this model.
* `Edge.Requirement` and `NodeError.Error` are Go strings compared by the
  built-in `<` / `strings.Compare` inside graph.go; they are `Bytes` here and
  compared byte-wise lexicographically (`bytesCmp`).

## Go's sorts

`sort.Sort` / `sort.Slice` are modelled by a (stable) insertion sort `sortBy` with
the same `less`. Where `less` is a strict total order up to identical elements
every sorted permutation is the same list (`Proofs/C13Sort.lean`,
`sortBy_eq_of_perm`), so the choice of algorithm does not matter. For the node
sort the *positions of identical nodes* do depend on the algorithm; Canon then
runs `canonBFS`, and `Props.C13.canon_relabel_invariant` shows the final result
does not depend on that choice either.

`orderedNodes.Dupe` is set by the sort "if it happens to compare two equal
nodes". In `Canon` the repaired code (F11) completes it by a scan, and the model
takes the scan's value (`dupScan`; `Proofs`: it is true iff there are two equal
nodes, which the sort's flag implies). In `canonBFS` the flag of the scratch sort
is modelled as "two equal nodes are adjacent in the sorted scratch list"
(`hasAdjDup`): a correct comparison sort must compare every two elements that end
up adjacent, and equal elements end up adjacent.

## Representation of `oldToNew`

Go's `on.IDs` (new position → old id) is the list `ids`; `Mapping()` is its
inverse, `mapping ids`. `canonBFS` fills `oldToNew[n] = nextLabel++`; the model
keeps the list `order` of nodes in labelling order (`oldToNew[n] > -1` iff
`n ∈ order`; `oldToNew[n]` = position of `n` in `order`; `nextLabel = order.length`)
and derives `oldToNew = mapping order` at the end.
-/

namespace DepsDev.Resolve.GraphCanon

/-- Result of a Go call: value, `error`, or a recovered panic (site recorded). -/
inductive Outcome (α : Type) where
  | ok (a : α)
  | err
  | panic (site : String)
deriving DecidableEq, Repr

/-- `resolve.NodeError`: `Req` as a rank, `Error` as bytes. -/
structure NodeError where
  req : Nat
  msg : Bytes
deriving DecidableEq, Repr

/-- `resolve.Node`: `Version` as a rank, and the errors. -/
structure Node where
  ver : Nat
  errs : List NodeError
deriving DecidableEq, Repr

/-- `resolve.Edge` (`src`/`dst` are `From`/`To`); `Type` as a rank. -/
structure Edge where
  src : Nat
  dst : Nat
  req : Bytes
  typ : Nat
deriving DecidableEq, Repr

/-- `resolve.Graph` (the fields `Canon` reads or writes). Node 0 is the root. -/
structure Graph where
  nodes : List Node
  edges : List Edge
deriving DecidableEq, Repr

/-! ## Comparators (graph.go:43-48, 317-333, and the closure in `renumber`) -/

/-- Go string comparison (`strings.Compare`, `<`): byte-wise lexicographic. -/
def bytesCmp : Bytes → Bytes → Ordering
  | [], [] => .eq
  | [], _ :: _ => .lt
  | _ :: _, [] => .gt
  | a :: as, b :: bs => (compare a.toNat b.toNat).then (bytesCmp as bs)

/-- `NodeError.Compare` (graph.go:43). -/
def NodeError.cmp (a b : NodeError) : Ordering :=
  (compare a.req b.req).then (bytesCmp a.msg b.msg)

def NodeError.less (a b : NodeError) : Bool := a.cmp b == .lt

/-- The loop `for i := range n.Errors` of `Node.Compare` (graph.go:327), entered
only when both slices have the same length. -/
def errsCmp : List NodeError → List NodeError → Ordering
  | a :: as, b :: bs => (a.cmp b).then (errsCmp as bs)
  | _, _ => .eq

/-- `Node.Compare` (graph.go:317). -/
def Node.cmp (a b : Node) : Ordering :=
  (compare a.ver b.ver).then
    ((compare a.errs.length b.errs.length).then (errsCmp a.errs b.errs))

def Node.less (a b : Node) : Bool := a.cmp b == .lt

/-- The `less` closure of `renumber` (graph.go:181-193). -/
def Edge.less (ei ej : Edge) : Bool :=
  if ej.src != ei.src then decide (ei.src < ej.src)
  else if ei.dst != ej.dst then decide (ei.dst < ej.dst)
  else if ei.req != ej.req then bytesCmp ei.req ej.req == .lt
  else compare ei.typ ej.typ == .lt

/-! ## Sorting -/

/-- Insert `x` into a sorted list, before the first element that is not less than it. -/
def insertBy {α : Type} (lt : α → α → Bool) (x : α) : List α → List α
  | [] => [x]
  | y :: ys => if lt y x then y :: insertBy lt x ys else x :: y :: ys

/-- Stable insertion sort by a strict `less`. Stands for Go's `sort.Sort`/`sort.Slice`. -/
def sortBy {α : Type} (lt : α → α → Bool) : List α → List α
  | [] => []
  | x :: xs => insertBy lt x (sortBy lt xs)

/-- `orderedNodes.Less` without the root clause, on (node, old id) pairs. -/
def pairLess (a b : Node × Nat) : Bool := a.1.less b.1

/-! ## `Canon` -/

/-- graph.go:126-130: sort one node's errors. -/
def sortErrors (n : Node) : Node := { n with errs := sortBy NodeError.less n.errs }

/-- graph.go:133-135: `newOrderedNodes` + `sort.Sort` with `KeepZero`: the
(node, old id) pairs after the sort; the root stays first, the others are sorted
by `Node.Compare`. -/
def sortNodes (nodes : List Node) : List (Node × Nat) :=
  match nodes.zipIdx with
  | [] => []
  | r :: rest => r :: sortBy pairLess rest

/-- `orderedNodes.Mapping` (graph.go:284): inverse of `ids`. -/
def mapping (ids : List Nat) : List Nat :=
  (List.range ids.length).map (fun j => ids.idxOf j)

/-- One edge of the loop graph.go:176-180; `none` = index out of range (Go panics). -/
def renumberEdge (oldToNew : List Nat) (e : Edge) : Option Edge :=
  match oldToNew[e.src]?, oldToNew[e.dst]? with
  | some s, some d => some { e with src := s, dst := d }
  | _, _ => none

/-- `renumber`, edge part (graph.go:176-193). Go panics iff some `oldToNew[e.From]` /
`oldToNew[e.To]` is out of range; otherwise every edge is rewritten (the `filterMap`
drops nothing then) and the edges are sorted. -/
def renumberEdges (oldToNew : List Nat) (edges : List Edge) : Outcome (List Edge) :=
  if edges.all (fun e => decide (e.src < oldToNew.length) && decide (e.dst < oldToNew.length)) then
    .ok (sortBy Edge.less (edges.filterMap (renumberEdge oldToNew)))
  else .panic "graph.go:oldToNew[e.From]"

/-- The scan graph.go:144-148 from position `i ≥ 1` on; `prev` is `Nodes[i-1]` when `i > 1`. -/
def dupScanFrom (root : Node) : Option Node → List Node → Bool
  | _, [] => false
  | prev, x :: xs =>
    (x.cmp root == .eq)
      || (match prev with | some p => x.cmp p == .eq | none => false)
      || dupScanFrom root (some x) xs

/-- `on.Dupe` after the scan graph.go:144-148 (see the header on the sort's own flag). -/
def dupScan : List Node → Bool
  | [] => false
  | r :: rest => dupScanFrom r none rest

/-- The ragged adjacency row `edges[n]` (graph.go:210-213). -/
def adjacency (edges : List Edge) (n : Nat) : List Nat :=
  (edges.filter (fun e => e.src == n)).map (·.dst)

/-- graph.go:236-242: unlabeled adjacent nodes, as (node, id) pairs. Go reads
`oldToNew[to]` for every `to` of the row, so it panics iff some `to` is out of range
(`none`); otherwise the `filterMap` drops nothing. -/
def scratch (nodes : List Node) (order : List Nat) (adj : List Nat) : Option (List (Node × Nat)) :=
  if adj.all (fun to => decide (to < nodes.length)) then
    some ((adj.filter (fun to => !order.contains to)).filterMap
      (fun to => (nodes[to]?).map (fun nd => (nd, to))))
  else none

/-- Two equal nodes adjacent in the sorted scratch list (`onScratch.Dupe`). -/
def hasAdjDup : List (Node × Nat) → Bool
  | a :: b :: rest => (a.1.cmp b.1 == .eq) || hasAdjDup (b :: rest)
  | _ => false

/-- graph.go:243-244: the scratch list after `if len(onScratch.Nodes) > 1 { sort.Sort(&onScratch) }`. -/
def kids (sc : List (Node × Nat)) : List (Node × Nat) :=
  if sc.length > 1 then sortBy pairLess sc else sc

/-- `onScratch.Dupe` after that sort (graph.go:245; see the header). -/
def dupKids (sc : List (Node × Nat)) : Bool :=
  decide (sc.length > 1) && hasAdjDup (kids sc)

/-- The `for len(queue) > 0` loop of `canonBFS` (graph.go:223-250). `order` lists the
labeled nodes in labelling order. The loop runs at most `1 + len(edges)` times
(`Proofs`: `bfs_fuel`), which is the fuel `canonBFS` passes. -/
def bfsLoop (nodes : List Node) (edges : List Edge) : Nat → List Nat → List Nat → Outcome (List Nat)
  | _, [], order => .ok order
  | 0, _ :: _, _ => .panic "model:fuel"
  | fuel + 1, n :: queue, order =>
    if order.contains n then bfsLoop nodes edges fuel queue order
    else
      match scratch nodes (order ++ [n]) (adjacency edges n) with
      | none => .panic "graph.go:oldToNew[to]"
      | some sc =>
        if dupKids sc then .err
        else bfsLoop nodes edges fuel (queue ++ (kids sc).map (·.2)) (order ++ [n])

/-- `canonBFS` (graph.go:196-256): the labelling order, or `err`. -/
def canonBFS (nodes : List Node) (edges : List Edge) : Outcome (List Nat) :=
  match bfsLoop nodes edges (edges.length + 1) [0] [] with
  | .ok order => if order.length < nodes.length then .err else .ok order
  | .err => .err
  | .panic s => .panic s

/-- `renumber(m, true)`, node part (graph.go:168-174): `nn[oldToNew[i]] = Nodes[i]`, i.e.
`nn[k] = Nodes[order[k]]`; `none` = index out of range. -/
def reorderNodes (nodes : List Node) (order : List Nat) : Option (List Node) :=
  if order.all (fun i => decide (i < nodes.length)) then some (order.filterMap (fun i => nodes[i]?))
  else none

/-- graph.go:133-140 on nodes whose errors are sorted: node sort with the root pinned,
then `renumber(on.Mapping(), false)`. Returns the new node slice and edge slice. -/
def stage1 (nodes0 : List Node) (edges : List Edge) : Outcome (List Node × List Edge) :=
  let on := sortNodes nodes0
  match renumberEdges (mapping (on.map (·.2))) edges with
  | .ok edges1 => .ok (on.map (·.1), edges1)
  | .err => .err
  | .panic s => .panic s

/-- graph.go:150-160, the body of `if on.Dupe`: `canonBFS`, then `renumber(m, true)`. -/
def bfsStage (nodes1 : List Node) (edges1 : List Edge) : Outcome Graph :=
  match canonBFS nodes1 edges1 with
  | .err => .err
  | .panic s => .panic s
  | .ok order =>
    match reorderNodes nodes1 order, renumberEdges (mapping order) edges1 with
    | some nodes2, .ok edges2 => .ok { nodes := nodes2, edges := edges2 }
    | none, _ => .panic "graph.go:nn[j]"
    | _, .panic s => .panic s
    | _, .err => .err

/-- graph.go:132-162: `Canon` after the error sort. -/
def canonSorted (nodes0 : List Node) (edges : List Edge) : Outcome Graph :=
  match stage1 nodes0 edges with
  | .err => .err
  | .panic s => .panic s
  | .ok (nodes1, edges1) =>
    if dupScan nodes1 then bfsStage nodes1 edges1
    else .ok { nodes := nodes1, edges := edges1 }

/-- `Graph.Canon` (graph.go:124-163). -/
def canon (g : Graph) : Outcome Graph :=
  canonSorted (g.nodes.map sortErrors) g.edges

/-- The invariant `Graph.AddEdge` maintains: edge endpoints are node ids. -/
def Graph.WF (g : Graph) : Bool :=
  g.edges.all (fun e => decide (e.src < g.nodes.length) && decide (e.dst < g.nodes.length))

end DepsDev.Resolve.GraphCanon
