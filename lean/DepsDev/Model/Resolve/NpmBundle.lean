import DepsDev.Model.Resolve.Npm

/-!
# Model of the npm resolver with bundled (derived) packages

Extension of `DepsDev.Resolve.Npm` (same file `util/resolve/npm/resolve.go`) by what the
core model leaves out: `getBundledVersion`, the bundle filter of `regularImports`,
`injectDerivedFrom`/`directBundleContent`, the bundled-child branches of the walk-up
(lines 236–266: a bundled version missing from the client is matched by its
`derivedFromVersion`, a mismatching one at the current level is deleted and replaced
*here*), the first use of a bundled node (lines 297–304) and the final scan for unused
bundled versions (lines 405–423).

**No theorem of `Props/C06.lean` is about this file.** It exists so that universes with
bundled packages can be run through the correspondence (Go = model on graph, tree and
`Graph.Error`) and through the Go-side oracle for the graph clauses. On bundle-free
universes it computes the same result as the core model (the driver checks this on every
op line it answers).

Additional data of the universe: `suffix`, for every dependency name containing `>`, the
part after the last `>` (`getBundledVersion` compares it with the `DerivedFrom` name to
detect an alias inside a bundle). `injectDerivedFrom` recurses over the client's data;
the model bounds the number of bundled nodes per call by `injectFuel` (exhaustion = `none`,
like the main loop).
-/

namespace DepsDev.Resolve.NpmBundle

open DepsDev.Resolve.Npm

structure BUniverse where
  u : Universe
  suffix : List (Name × Name)

def suffixOf (l : List (Name × Name)) (n : Name) : Name :=
  match l with
  | [] => n
  | (k, s) :: rest => if k = n then s else suffixOf rest n

/-- `bundledVersion` -/
structure Bundled where
  version : Version
  alias : Name
  dfVersion : Version
deriving DecidableEq, Repr

structure BNode where
  ver : Version
  ideps : List Import
  processed : Bool
  prot : List Name
  aprot : List Name
  id : Nat
  bundled : Option Bundled
deriving DecidableEq, Repr

abbrev BTree := List (Path × BNode)

namespace BTree

def get? : BTree → Path → Option BNode
  | [], _ => none
  | (q, n) :: t, p => if q = p then some n else get? t p

def modify (t : BTree) (p : Path) (f : BNode → BNode) : BTree :=
  t.map fun e => if e.1 = p then (e.1, f e.2) else e

/-- `q` is `p` or lies below `p`. -/
def below (p q : Path) : Bool := q.drop (q.length - p.length) == p && p.length ≤ q.length

/-- Removing a map entry: the node at `p` and everything installed below it become
unreachable. -/
def eraseSub (t : BTree) (p : Path) : BTree := t.filter fun e => !below p e.1

/-- `delete(parent.children, k)` while the removed node is still referenced (line 261: the
walk-up may already have chosen it as `resolved`): the node and its subtree stay alive, with
their parent pointers, but are no longer an entry of the parent's map. The subtree is moved
to a ghost slot `g` (a name no package has) of the same directory. -/
def detach (t : BTree) (p : Path) (g : Name) : BTree :=
  match p with
  | [] => t
  | _ :: rest =>
    t.map fun e =>
      if below p e.1 then (e.1.take (e.1.length - p.length) ++ (⟨false, g⟩ :: rest), e.2) else e

/-- Go map assignment `m[k] = node`: replaces an existing entry (whose subtree is lost). -/
def put (t : BTree) (p : Path) (n : BNode) : BTree := eraseSub t p ++ [(p, n)]

end BTree

structure BState where
  tree : BTree
  nodes : List GNode
  edges : List Edge
  /-- `Graph.Error` as the list of (name, version) of unused bundled versions -/
  unused : List (Name × Name)
  /-- number of detached subtrees so far (ghost slot names are `ghostBase + ghosts`) -/
  ghosts : Nat
deriving DecidableEq

/-- Ghost slot names start here (above every index of the string table). -/
def ghostBase : Nat := 1000000000

/-- `getBundledVersion` (lines 627–658). -/
def getBundledVersion (bu : BUniverse) (d : Import) : Outcome (Option Bundled) :=
  if !d.regular then .ok none
  else
    match bu.u.matchingVersions d.name d.req with
    | .bad => .bad
    | .err => .ok none
    | .ok [v] =>
      match v.attr.get verDerivedFrom with
      | none => .ok none
      | some name =>
        let sfx := suffixOf bu.suffix d.name
        .ok (some ⟨v, if sfx = name then Name.empty else sfx, { v with name := name }⟩)
    | .ok _ => .ok none

/-- second loop of `regularImports` with the bundle filter (line 530). -/
def filterImports (bu : BUniverse) (all : List Import) : List Import → Outcome (List Import)
  | [] => .ok []
  | d :: rest =>
    match filterImports bu all rest with
    | .bad => .bad
    | .err => .err
    | .ok keep =>
      if d.dev then .ok keep
      else if !d.opt && optPackage all d.name then .ok keep
      else
        match getBundledVersion bu d with
        | .bad => .bad
        | .err => .err
        | .ok (some _) => .ok keep
        | .ok none =>
          if d.scope = Name.bundle then (if regPackage all d.name then .ok keep else .ok (d :: keep))
          else if d.scope = Name.peer then .ok keep
          else .ok (d :: keep)

def regularImportsB (bu : BUniverse) (imps : List Import) : Outcome (List Import) := filterImports bu imps imps

def newTreeNode (bu : BUniverse) (v : Version) (id : Nat) : Outcome BNode :=
  match bu.u.requirements v.name v.version with
  | none => .err
  | some reqs =>
    match regularImportsB bu reqs with
    | .bad => .bad
    | .err => .err
    | .ok ideps => .ok ⟨v, ideps, false, [], [], id, none⟩

/-- `directBundleContent` (lines 605–622). -/
def directBundleContent (bu : BUniverse) (v : Version) : Outcome (List Bundled) :=
  match bu.u.requirements v.name v.version with
  | none => .err
  | some deps =>
    deps.foldr (fun d acc =>
      match acc with
      | .ok bvs =>
        match getBundledVersion bu d with
        | .bad => .bad
        | .err => .err
        | .ok (some bv) => .ok (bv :: bvs)
        | .ok none => .ok bvs
      | o => o) (.ok [])

/-- The recursion of `injectDerivedFrom` (lines 578–598) as a depth-first work list of
(bundled version, path of the node it goes under); one unit of fuel per bundled node;
`none` = fuel exhausted. -/
def injectLoop (bu : BUniverse) : Nat → List (Bundled × Path) → BTree → Option (Outcome BTree)
  | _, [], t => some (.ok t)
  | 0, _ :: _, _ => none
  | fuel + 1, (bv, parent) :: rest, t =>
    match newTreeNode bu bv.version 0 with
    | .bad => some .bad
    | .err => some .err
    | .ok cn0 =>
      let cn : BNode := { cn0 with ver := bv.dfVersion, bundled := some bv }
      let slot : Slot := if bv.alias = Name.empty then ⟨false, cn.ver.name⟩ else ⟨true, bv.alias⟩
      match directBundleContent bu bv.version with
      | .bad => some .bad
      | .err => some .err
      | .ok bvs =>
        injectLoop bu fuel (bvs.map (fun b => (b, slot :: parent)) ++ rest) (t.put (slot :: parent) cn)

def injectFuel : Nat := 200

/-- `injectDerivedFrom(node, v)` (lines 569–600). -/
def injectDerivedFrom (bu : BUniverse) (t : BTree) (nodePath : Path) (v : Version) : Option (Outcome BTree) :=
  match directBundleContent bu v with
  | .bad => some .bad
  | .err => some .err
  | .ok bvs => injectLoop bu injectFuel (bvs.map fun b => (b, nodePath)) t

def candidate (t : BTree) (cur : Path) (ipk alias : Name) : Option (Path × BNode × Bool) :=
  if alias = Name.empty then
    match t.get? (⟨false, ipk⟩ :: cur) with
    | some c => some (⟨false, ipk⟩ :: cur, c, true)
    | none =>
      match t.get? (⟨true, ipk⟩ :: cur) with
      | some c => some (⟨true, ipk⟩ :: cur, c, false)
      | none => none
  else
    match t.get? (⟨true, alias⟩ :: cur) with
    | some c => some (⟨true, alias⟩ :: cur, c, false)
    | none =>
      match t.get? (⟨false, alias⟩ :: cur) with
      | some c => some (⟨false, alias⟩ :: cur, c, false)
      | none => none

def isProtected (n : BNode) (ipk alias : Name) : Bool :=
  if alias = Name.empty then n.prot.contains ipk || n.aprot.contains ipk
  else n.aprot.contains alias || n.prot.contains alias

/-- result of one walk-up iteration: continue, or stop with (resolved, tree, installHere). -/
structure WalkRes where
  resolved : Option Path
  tree : BTree
  installHere : Bool

/-- lines 201–266 at `node`; `isCur` = (`node == cur`). -/
def walkAt (bu : BUniverse) (t : BTree) (ghost : Name) (idep : Import) (dvers : List Version) (node : Path)
    (isCur : Bool) : Outcome (Option WalkRes) :=
  match candidate t node idep.name idep.alias with
  | none => .ok none
  | some (cp, child, false) =>
    match bu.u.constraintMatch idep.req child.ver.version with
    | .bad => .bad
    | .err => .err
    | .ok true => .ok (some ⟨some cp, t, false⟩)
    | .ok false => .ok (some ⟨none, t, false⟩)
  | some (cp, child, true) =>
    let r2 : Bool := dvers.any (fun d => child.ver.keyEq d) || idep.req == Name.star
    -- line 236: client.Version(child.ver)
    match bu.u.version child.ver.name child.ver.version, child.bundled with
    | some _, _ => .ok (some ⟨if r2 then some cp else none, t, false⟩)
    | none, none => .ok (some ⟨if r2 then some cp else none, t, false⟩)
    | none, some bv =>
      match bu.u.constraintMatch idep.req bv.dfVersion.version with
      | .bad => .bad
      | .err => .err
      | .ok true => .ok (some ⟨some cp, t, false⟩)
      | .ok false =>
        if isCur then
          -- lines 254–263: `delete(child.parent.children, derivedFromPackage)`, `installHere = true`;
          -- `resolved` keeps what lines 208–235 gave it (the deleted child, for `*`)
          let gone : Path := ⟨false, bv.dfVersion.name⟩ :: node
          .ok (some ⟨if r2 then (if cp = gone then some (⟨false, ghost⟩ :: node) else some cp) else none,
            t.detach gone ghost, true⟩)
        else .ok (some ⟨if r2 then some cp else none, t, false⟩)

def walkUp (bu : BUniverse) (t : BTree) (ghost : Name) (idep : Import) (dvers : List Version) (isCur : Bool) :
    Path → Outcome WalkRes
  | [] =>
    match walkAt bu t ghost idep dvers [] isCur with
    | .bad => .bad
    | .err => .err
    | .ok none => .ok ⟨none, t, false⟩
    | .ok (some r) => .ok r
  | s :: parent =>
    match walkAt bu t ghost idep dvers (s :: parent) isCur with
    | .bad => .bad
    | .err => .err
    | .ok none => walkUp bu t ghost idep dvers false parent
    | .ok (some r) => .ok r

def markNode (ipk alias : Name) (n : BNode) : BNode :=
  if alias ≠ Name.empty then { n with aprot := setInsert alias n.aprot }
  else { n with prot := setInsert ipk n.prot }

def markProtected (ipk alias : Name) : BTree → Path → BTree
  | t, [] =>
    if (candidate t [] ipk alias).isSome then t else t.modify [] (markNode ipk alias)
  | t, s :: parent =>
    if (candidate t (s :: parent) ipk alias).isSome then t
    else markProtected ipk alias (t.modify (s :: parent) (markNode ipk alias)) parent

def addProtected (pkg : Name) (n : BNode) : BNode := { n with prot := setInsert pkg n.prot }

def hoist (pkg alias : Name) : BTree → Path → Outcome (BTree × Path)
  | t, [] => .ok (t, [])
  | t, s :: pp =>
    match t.get? pp with
    | none => .bad
    | some ppn =>
      if (candidate t pp pkg alias).isSome then .ok (t, s :: pp)
      else if isProtected ppn pkg alias then .ok (t, s :: pp)
      else hoist pkg alias (t.modify (s :: pp) (addProtected pkg)) pp

def BState.addNode (st : BState) (name version : Name) : BState × Nat :=
  ({ st with nodes := st.nodes ++ [⟨name, version, []⟩] }, st.nodes.length)

def BState.addEdge (st : BState) (e : Edge) : Option BState :=
  if e.src < st.nodes.length ∧ e.dst < st.nodes.length then
    some { st with edges := st.edges ++ [e] }
  else none

def BState.addError (st : BState) (n : Nat) (req : Name × Name) : Option BState :=
  if n < st.nodes.length then some { st with nodes := addErrL st.nodes n req } else none

structure Acc where
  st : BState
  ins : List Path

/-- The body of the dependency loop (lines 176–397); `none` = inject fuel exhausted. -/
def stepDep (bu : BUniverse) (cur : Path) (curId : Nat) (a : Acc) (idep : Import) : Option (Outcome Acc) :=
  match bu.u.matchingVersions idep.name idep.req with
  | .bad => some .bad
  | .err => some .err
  | .ok dvers =>
    match walkUp bu a.st.tree (ghostBase + a.st.ghosts) idep dvers true cur with
    | .bad => some .bad
    | .err => some .err
    | .ok ⟨some rp, tree0, detached⟩ =>
      let a : Acc := if detached then { a with st := { a.st with ghosts := a.st.ghosts + 1 } } else a
      match tree0.get? rp with
      | none => some .bad
      | some rn =>
        let ins := if rn.processed then a.ins else a.ins ++ [rp]
        let tree := markProtected idep.name idep.alias tree0 cur
        -- lines 297–304: first use of a bundled node
        match (if rn.id = 0 ∧ rp ≠ [] then rn.bundled else none) with
        | some bv =>
          let (st1, id) := ({ a.st with tree := tree.modify rp fun n => { n with id := a.st.nodes.length } } : BState).addNode
            bv.version.name bv.version.version
          match st1.addEdge ⟨curId, id, idep.ty.set depSelector Name.empty, idep, false⟩ with
          | none => some .err
          | some st => some (.ok ⟨st, ins⟩)
        | none =>
          if rn.id = 0 ∧ rp ≠ [] then some .bad   -- Go: nil dereference of resolved.bundled
          else
          match ({ a.st with tree := tree } : BState).addEdge ⟨curId, rn.id, idep.ty, idep, false⟩ with
          | none => some .err
          | some st => some (.ok ⟨st, ins⟩)
    | .ok ⟨none, tree0, installHere⟩ =>
      let st0 : BState := { a.st with tree := tree0, ghosts := if installHere then a.st.ghosts + 1 else a.st.ghosts }
      let a : Acc := { a with st := st0 }
      match Npm.wouldPick bu.u dvers with
      | .bad => some .bad
      | .err => some .err
      | .ok none =>
        match st0.addError curId (idep.name, idep.req) with
        | none => some (.ok ⟨st0, a.ins⟩)
        | some st => some (.ok ⟨st, a.ins⟩)
      | .ok (some pick) =>
        match newTreeNode bu pick a.st.nodes.length with
        | .bad => some .bad
        | .err => some .err
        | .ok node =>
          if (candidate tree0 cur node.ver.name idep.alias).isSome then
            match st0.addError curId (idep.name, idep.req) with
            | none => some .err
            | some st => some (.ok ⟨st, a.ins⟩)
          else
            match (if installHere then Outcome.ok (tree0, cur) else hoist node.ver.name idep.alias tree0 cur) with
            | .bad => some .bad
            | .err => some .err
            | .ok (tree, parent) =>
              match tree.get? parent with
              | none => some .bad
              | some pn =>
                if parent ≠ [] ∧ pn.ver.name = node.ver.name then
                  match ({ a.st with tree := tree } : BState).addError curId (idep.name, idep.req) with
                  | none => some .err
                  | some st => some (.ok ⟨st, a.ins⟩)
                else
                  let slot : Slot :=
                    if idep.alias = Name.empty then ⟨false, node.ver.name⟩ else ⟨true, idep.alias⟩
                  -- line 338 (before the placement in Go; the bundle content goes below the new node)
                  match injectDerivedFrom bu (tree.put (slot :: parent) node) (slot :: parent) pick with
                  | none => none
                  | some .bad => some .bad
                  | some .err => some .err
                  | some (.ok tree2) =>
                    let (st, id) := ({ a.st with tree := tree2 } : BState).addNode node.ver.name node.ver.version
                    match st.addEdge ⟨curId, id, idep.ty.set depSelector Name.empty, idep, true⟩ with
                    | none => some .err
                    | some st => some (.ok ⟨st, a.ins ++ [slot :: parent]⟩)

def stepDeps (bu : BUniverse) (cur : Path) (curId : Nat) : List Import → Acc → Option (Outcome Acc)
  | [], a => some (.ok a)
  | d :: rest, a =>
    match stepDep bu cur curId a d with
    | none => none
    | some .bad => some .bad
    | some .err => some .err
    | some (.ok a') => stepDeps bu cur curId rest a'

def setProcessed (n : BNode) : BNode := { n with processed := true }

def loop (bu : BUniverse) : Nat → List Path → BState → Option (Outcome BState)
  | _, [], st => some (.ok st)
  | 0, _ :: _, _ => none
  | fuel + 1, cur :: queue, st =>
    match st.tree.get? cur with
    | none => some .bad
    | some cn =>
      if cn.processed then loop bu fuel queue st
      else
        let st1 : BState := { st with tree := st.tree.modify cur setProcessed }
        match stepDeps bu cur cn.id cn.ideps ⟨st1, []⟩ with
        | none => none
        | some .bad => some .bad
        | some .err => some .err
        | some (.ok a) => loop bu fuel (a.ins ++ queue) a.st

/-- the final scan (lines 405–423): plain children only, not below an unused node. -/
def scanUnused (t : BTree) : Nat → List Path → List (Name × Name) → List (Name × Name)
  | 0, _, acc => acc
  | _, [], acc => acc
  | fuel + 1, cur :: stack, acc =>
    match t.get? cur with
    | none => scanUnused t fuel stack acc
    | some n =>
      if n.id = 0 ∧ cur ≠ [] then
        match n.bundled with
        | some bv => scanUnused t fuel stack ((bv.dfVersion.name, bv.dfVersion.version) :: acc)
        | none => scanUnused t fuel stack acc
      else
        let kids := (t.filter fun e => match e.1 with
          | s :: p => p == cur && !s.alias && s.name < ghostBase
          | [] => false).map (·.1)
        scanUnused t fuel (kids ++ stack) acc

def resolve (bu : BUniverse) (rootName rootVer : Name) (fuel : Nat) : Option (Outcome BState) :=
  match bu.u.version rootName rootVer with
  | none => some .err
  | some v =>
    match newTreeNode bu v 0 with
    | .bad => some .bad
    | .err => some .err
    | .ok root =>
      match injectDerivedFrom bu [([], root)] [] v with
      | none => none
      | some .bad => some .bad
      | some .err => some .err
      | some (.ok tree) =>
        match loop bu fuel [[]] ⟨tree, [⟨v.name, v.version, []⟩], [], [], 0⟩ with
        | some (.ok st) => some (.ok { st with unused := scanUnused st.tree (st.tree.length + 1) [[]] [] })
        | o => o

end DepsDev.Resolve.NpmBundle
