/-
Specification vocabulary for property C19 (used by the statements in Props/C19.lean
and by the lemmas in Proofs/C19*.lean): what the contents of a set are, when a set is
well formed in a heap, and the invariant of the register machine.
Core Lean only.
-/
import DepsDev.Model.Resolve.AttrMachine

namespace DepsDev.Model.Resolve.AttrSpec
open DepsDev DepsDev.Model.Resolve.Attr DepsDev.Model.Resolve.AttrMachine

/-- `attrBits` is exactly the key set of the map. -/
def BitsOK (h : Heap) (s : Set) : Prop :=
  ∀ k, s.bits.testBit k = ((s.attrs h).get? k).isSome

/-- A set that is well formed in a heap: its reference (if any) is allocated, its
bitmask describes its map, and the bitmask fits `attrBits` (uint64). -/
structure SetOK (h : Heap) (s : Set) : Prop where
  wf : ∀ r, s.ref = some r → r < h.next
  bitsOK : BitsOK h s
  bitsLt : s.bits < 2 ^ Gen.C19AttrKeys.attrBitsWidth

/-- Same contents: the same flags and the same key/value pairs. -/
def SameContents (h₁ : Heap) (a : Set) (h₂ : Heap) (b : Set) : Prop :=
  a.mask = b.mask ∧ ∀ k, getAttr h₁ a k = getAttr h₂ b k

/-- Everything observable of the set in register `i`: mask, bitmask, map. -/
def view (st : State) (i : Nat) : Nat × Nat × AMap :=
  ((st.regs i).mask, (st.regs i).bits, (st.regs i).attrs st.heap)

/-- The invariant of the register machine: every register holds a well-formed set and
no two registers share a map. -/
structure Inv (st : State) : Prop where
  ok : ∀ i, SetOK st.heap (st.regs i)
  noAlias : ∀ i j r, (st.regs i).ref = some r → (st.regs j).ref = some r → i = j

/-- `h'` extends `h`: everything allocated in `h` is unchanged. -/
def Heap.Ext (h h' : Heap) : Prop :=
  h.next ≤ h'.next ∧ ∀ r, r < h.next → h'.cells r = h.cells r

end DepsDev.Model.Resolve.AttrSpec
