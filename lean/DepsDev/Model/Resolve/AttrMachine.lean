/-
The register machine of the C19 correspondence harness (harness/cmd/c19/machine.go)
over the model: a state is a heap of maps plus registers holding `attr.Set` values.
One op line of the harness is one whole sequence of `Op`s; `runOps` executes it and
collects the observations, `render` prints them byte-identically to the harness.

Also here: the decidable predicates that delimit the text round-trip theorems
(`knownKeys`, `verTextOK`, `depTextOK`); their negations are the known-finding
classes, mirrored in the harness (machine.go) and tied by the op `cl`.

Core Lean only.
-/
import DepsDev.Model.Resolve.AttrText

namespace DepsDev.Model.Resolve.AttrMachine
open DepsDev DepsDev.Gen DepsDev.Model.Resolve.Attr DepsDev.Model.Resolve.AttrText

/-- which Go type the registers hold: `attr.Set`, `dep.Type`, `version.AttrSet`. -/
inductive Kind where
  | a | d | v
deriving DecidableEq, Repr

structure State where
  heap : Heap
  regs : Nat → Set

def State.init : State := ⟨Heap.empty, fun _ => Set.zero⟩

def State.setReg (st : State) (r : Nat) (s : Set) : State :=
  { st with regs := fun i => if i = r then s else st.regs i }

inductive Op where
  | new (r : Nat)
  | set (r : Nat) (key : Int) (v : Bytes)
  | orMask (r n : Nat)
  | clone (r r2 : Nat)
  | copy (r r2 : Nat)                    -- raw struct copy (the hazard)
  | cmp (r r2 : Nat)
  | get (r : Nat) (key : Int)
  | isReg (r : Nat)
  | each (r : Nat)
  | str (r : Nat)
  | vstr (r : Nat)
  | write (r : Nat)
  | classify (r : Nat)
  | parse (r : Nat) (txt : Bytes)
  | parseSingle (r : Nat) (txt : Bytes)
  | roundTrip (r r2 : Nat)
  | single (r : Nat) (key : Int) (v : Bytes)
  | matrix (n : Nat)
  | dump (n : Nat)
deriving Repr

/-- `op` is not the raw struct copy. -/
def Op.noCopy : Op → Bool
  | .copy _ _ => false
  | _ => true

/-- the register an op writes. -/
def Op.target : Op → Option Nat
  | .new r | .set r _ _ | .orMask r _ | .parse r _ | .parseSingle r _ | .single r _ _ => some r
  | .clone _ r2 | .copy _ r2 | .roundTrip _ r2 => some r2
  | _ => none

/-! ### classifier predicates -/

/-- what `GetAttr` shows for the keys 0..63. -/
def mapView (h : Heap) (s : Set) : List (Nat × Bytes) :=
  (List.range 64).filterMap fun k => (getAttr h s k).map fun v => (k, v)

/-- the mask fits `attr.Mask` (uint8; always so for the Go value) and every bit set in
it is a key declared in `<pkg>test.allKeys`. -/
def maskKnown (allKeys : List Int) (m : Nat) : Bool :=
  decide (m < 2 ^ C19AttrKeys.maskWidth) &&
  (List.range C19AttrKeys.maskWidth).all fun bit => !m.testBit bit || allKeys.contains (-((2 ^ bit : Nat) : Int))

/-- mask bits and attribute keys are declared in `<pkg>test.allKeys`, and the flag
keys that live in the map (dep.Selector) carry the empty value. -/
def knownKeys (allKeys flagKeys : List Int) (h : Heap) (s : Set) : Bool :=
  maskKnown allKeys s.mask &&
  (mapView h s).all fun kv =>
    allKeys.contains (kv.1 : Int) && (!flagKeys.contains (kv.1 : Int) || kv.2.isEmpty)

/-- every valued attribute is non-empty and free of white space (negation: F-C19-text). -/
def verTextOK (flagKeys : List Int) (h : Heap) (s : Set) : Bool :=
  (mapView h s).all fun kv =>
    flagKeys.contains (kv.1 : Int) || (!kv.2.isEmpty && !hasSpace kv.2)

/-- `strings.Contains(v, "  ")`. -/
def hasDoubleSpace : Bytes → Bool
  | a :: b :: rest => (a == 0x20 && b == 0x20) || hasDoubleSpace (b :: rest)
  | _ => false

/-- a value the deptest parser reads back from its quoted form. -/
def depQuotedOK (v : Bytes) : Bool :=
  v.getLast? != some 0x5C && v.head? != some 0x20 && !hasDoubleSpace v

def quotedItemsOK : List (Bytes × Option Bytes) → Bool
  | [] => true
  | [(_, some v)] => depQuotedOK v
  | (_, some _) :: _ :: _ => false
  | (_, none) :: rest => quotedItemsOK rest

/-- every value that must be written quoted is the last item written and is
`depQuotedOK` (negation: F-C19-deptest-quoted). -/
def depTextOK (h : Heap) (s : Set) : Bool := quotedItemsOK (depItems h s)

/-- no value has to be written quoted (implies `depTextOK`). -/
def depPlain (h : Heap) (s : Set) : Bool := (depItems h s).all fun it => it.2.isNone

/-! ### observations -/

structure RegDump where
  mask : Nat
  each : Option (List (Int × Bytes))
  view : List (Nat × Bytes)
deriving Repr, DecidableEq

inductive Obs where
  | none
  | cmp (o : Ordering)
  | equal (b : Bool)
  | got (v : Option Bytes)
  | flag (tag : String) (b : Bool)
  | each (l : List (Int × Bytes))
  | text (tag : String) (b : Bytes)
  | cls (known ok : Bool)
  | parsed (tag : String) (ok : Bool)
  | rt (text : Bytes) (res : Option Obs)
  | single (text : Bytes) (ok : Bool)
  | matrix (l : List Obs)
  | dump (l : List RegDump)
deriving Repr

inductive Out where
  | ok (st : State) (o : Obs)
  | panic
  | bad

def eachOf (k : Kind) (h : Heap) (s : Set) : Option (List (Int × Bytes)) :=
  match k with
  | .a => some ((forEachAttr h s).map fun kv => ((kv.1 : Int), kv.2))
  | .d => none
  | .v => some (forEachAttrV h s)

def cmpObs (k : Kind) (h : Heap) (a b : Set) : Obs :=
  match k with
  | .v => .equal (Attr.compare h a b == .eq)
  | _ => .cmp (Attr.compare h a b)

def regDump (k : Kind) (h : Heap) (s : Set) : RegDump :=
  ⟨s.mask, eachOf k h s, mapView h s⟩

def keyOK (k : Kind) (key : Int) : Bool :=
  match k with
  | .a => 0 ≤ key && key ≤ 255
  | _ => int8OK key

def allKeysOf : Kind → List Int
  | .d => C19AttrKeys.depAllKeys
  | _ => C19AttrKeys.versionAllKeys
def flagKeysOf : Kind → List Int
  | .d => C19AttrKeys.depFlagKeys
  | _ => C19AttrKeys.versionFlagKeys

/-- one step of the machine. -/
def exec (k : Kind) (st : State) : Op → Out
  | .new r => .ok (st.setReg r Set.zero) .none
  | .set r key v =>
    if !keyOK k key then .bad else
    match (match k with
           | .a => setAttr st.heap (st.regs r) key.toNat v
           | _ => addAttr st.heap (st.regs r) key v) with
    | .ok (h, s) => .ok ((State.mk h st.regs).setReg r s) .none
    | .err => .bad
    | .panic => .panic
  | .orMask r n =>
    if k != .a || n > 255 then .bad else
    .ok (st.setReg r { st.regs r with mask := (st.regs r).mask ||| n }) .none
  | .clone r r2 =>
    let hs := clone st.heap (st.regs r)
    .ok ((State.mk hs.1 st.regs).setReg r2 hs.2) .none
  | .copy r r2 => .ok (st.setReg r2 (rawCopy (st.regs r))) .none
  | .cmp r r2 => .ok st (cmpObs k st.heap (st.regs r) (st.regs r2))
  | .get r key =>
    if !keyOK k key then .bad else
    .ok st (.got (match k with
                  | .a => getAttr st.heap (st.regs r) key.toNat
                  | _ => getAttrW st.heap (st.regs r) key))
  | .isReg r => .ok st (.flag "r" (isRegular st.heap (st.regs r)))
  | .each r =>
    match eachOf k st.heap (st.regs r) with
    | some l => .ok st (.each l)
    | none => .bad
  | .str r =>
    match k with
    | .a => .bad
    | .d => .ok st (.text "t" (depString st.heap (st.regs r)))
    | .v => .ok st (.text "t" (versionString st.heap (st.regs r)))
  | .vstr r => if k != .v then .bad else .ok st (.text "x" (versiontestString st.heap (st.regs r)))
  | .write r => if k != .d then .bad else .ok st (.text "w" (depWrite st.heap (st.regs r)))
  | .classify r =>
    match k with
    | .a => .bad
    | .d => .ok st (.cls (knownKeys (allKeysOf .d) (flagKeysOf .d) st.heap (st.regs r)) (depTextOK st.heap (st.regs r)))
    | .v => .ok st (.cls (knownKeys (allKeysOf .v) (flagKeysOf .v) st.heap (st.regs r))
                         (verTextOK (flagKeysOf .v) st.heap (st.regs r)))
  | .parse r txt =>
    match k with
    | .a => .bad
    | _ =>
      match (if k == .d then depParseString st.heap txt else versionParseString st.heap txt) with
      | .ok (h, s) => .ok ((State.mk h st.regs).setReg r s) (.parsed "p" true)
      | .err => .ok (st.setReg r Set.zero) (.parsed "p" false)
      | .panic => .panic
  | .parseSingle r txt =>
    if k != .v then .bad else
    match versionParseSingle st.heap txt with
    | .ok (h, s) => .ok ((State.mk h st.regs).setReg r s) (.parsed "q" true)
    | .err => .ok (st.setReg r Set.zero) (.parsed "q" false)
    | .panic => .panic
  | .roundTrip r r2 =>
    match k with
    | .a => .bad
    | _ =>
      let text := if k == .d then depWrite st.heap (st.regs r) else versiontestString st.heap (st.regs r)
      match (if k == .d then depParseString st.heap text else versionParseString st.heap text) with
      | .ok (h, s) => .ok ((State.mk h st.regs).setReg r2 s) (.rt text (some (cmpObs k h (st.regs r) s)))
      | .err => .ok (st.setReg r2 Set.zero) (.rt text none)
      | .panic => .panic
  | .single r key v =>
    if k != .v || !keyOK k key then .bad else
    let text := asciiLower (keyName C19AttrKeys.versionNames key) ++ [0x20] ++ quote v
    match versionParseSingle st.heap text with
    | .ok (h, s) => .ok ((State.mk h st.regs).setReg r s) (.single text true)
    | .err => .ok (st.setReg r Set.zero) (.single text false)
    | .panic => .panic
  | .matrix n =>
    .ok st (.matrix ((List.range n).flatMap fun i => (List.range n).map fun j =>
      cmpObs k st.heap (st.regs i) (st.regs j)))
  | .dump n => .ok st (.dump ((List.range n).map fun i => regDump k st.heap (st.regs i)))

inductive RunOut where
  | ok (st : State) (obs : List Obs)
  | panic
  | bad

/-- a whole op line. -/
def runOps (k : Kind) : State → List Op → List Obs → RunOut
  | st, [], acc => .ok st acc.reverse
  | st, op :: ops, acc =>
    match exec k st op with
    | .ok st' o => runOps k st' ops (o :: acc)
    | .panic => .panic
    | .bad => .bad

/-- the state after a sequence (for theorems): `none` on panic or bad op. -/
def runState (k : Kind) : State → List Op → Option State
  | st, [] => some st
  | st, op :: ops =>
    match exec k st op with
    | .ok st' _ => runState k st' ops
    | _ => none

end DepsDev.Model.Resolve.AttrMachine
