/-!
# C05: schedules of threads over a shared, read-only state

Goroutines running `Resolve` are modelled as interleavings of atomic steps (DESIGN Appendix B).
A step function of type `Shared → Local → Local × Option Result` *cannot* write the shared
state: it does not return one. Which code has this type is decided by the translator facts
`Gen.C05ClientSliceWrites.sites = []` (no resolver writes a client-owned slice) and
`Gen.C05ResolverShared` (the resolver objects carry no other mutable state; PyPI's caches
are treated in `Lru.lean`). Data races in the sense of the Go memory model are outside this
model. Core Lean only.
-/

namespace DepsDev.Resolve.Purity

/-- A thread: its private state and, once it has finished, its result. -/
structure Thread (Local Result : Type) where
  loc : Local
  result : Option Result

variable {Shared Local Result : Type}

/-- One atomic step of a thread. A finished thread stays finished. -/
def stepT (step : Shared → Local → Local × Option Result) (σ : Shared) (t : Thread Local Result) :
    Thread Local Result :=
  match t.result with
  | some _ => t
  | none => ⟨(step σ t.loc).1, (step σ t.loc).2⟩

/-- `n` steps of one thread running alone. -/
def solo (step : Shared → Local → Local × Option Result) (σ : Shared) : Thread Local Result → Nat → Thread Local Result
  | t, 0 => t
  | t, n + 1 => solo step σ (stepT step σ t) n

/-- A schedule is a list of thread indices (indices that name no thread are skipped). -/
def runSchedule (step : Shared → Local → Local × Option Result) (σ : Shared) :
    List (Thread Local Result) → List Nat → List (Thread Local Result)
  | ts, [] => ts
  | ts, i :: s =>
    match ts[i]? with
    | none => runSchedule step σ ts s
    | some t => runSchedule step σ (ts.set i (stepT step σ t)) s

/-! For contrast: steps that may write the shared state (what in-place sorting or filtering
of a client-owned slice amounts to). -/

def stepTW (step : Shared → Local → Shared × Local × Option Result) (σ : Shared) (t : Thread Local Result) :
    Shared × Thread Local Result :=
  match t.result with
  | some _ => (σ, t)
  | none => ((step σ t.loc).1, ⟨(step σ t.loc).2.1, (step σ t.loc).2.2⟩)

def runScheduleW (step : Shared → Local → Shared × Local × Option Result) :
    Shared → List (Thread Local Result) → List Nat → Shared × List (Thread Local Result)
  | σ, ts, [] => (σ, ts)
  | σ, ts, i :: s =>
    match ts[i]? with
    | none => runScheduleW step σ ts s
    | some t => runScheduleW step (stepTW step σ t).1 (ts.set i (stepTW step σ t).2) s

end DepsDev.Resolve.Purity
