/-
Byte strings as the Go code sees them (`string` = immutable byte sequence).
Core Lean only. Hex codec for the line protocol (DESIGN Appendix A).
-/
namespace DepsDev

abbrev Bytes := List UInt8

namespace Bytes

def hexDigit (n : UInt8) : Char :=
  if n < 10 then Char.ofNat (48 + n.toNat) else Char.ofNat (87 + n.toNat)

def toHex (b : Bytes) : String :=
  if b.isEmpty then "-" else
  String.ofList (b.flatMap fun x => [hexDigit (x / 16), hexDigit (x % 16)])

def hexVal (c : Char) : Option UInt8 :=
  if '0' ≤ c ∧ c ≤ '9' then some (c.toNat - 48).toUInt8
  else if 'a' ≤ c ∧ c ≤ 'f' then some (c.toNat - 87).toUInt8
  else none

def ofHexChars : List Char → Option Bytes
  | [] => some []
  | [_] => none
  | a :: b :: rest => do
    let x ← hexVal a
    let y ← hexVal b
    let r ← ofHexChars rest
    pure ((x * 16 + y) :: r)

def ofHex (s : String) : Option Bytes :=
  if s == "-" then some [] else ofHexChars s.toList

def ofString (s : String) : Bytes := s.toUTF8.toList

/-- Lossy rendering for human-readable output (ASCII expected). -/
def toAscii (b : Bytes) : String := String.ofList (b.map fun x => Char.ofNat x.toNat)

end Bytes
end DepsDev
