/-
Byte strings as the Go code sees them (`string` = immutable byte sequence).
Core Lean only. Hex codec for the line protocol (DESIGN Appendix A).
-/
namespace DepsDev

abbrev Bytes := List UInt8

namespace Bytes

def hexDigit (n : UInt8) : Char :=
  if n < 10 then Char.ofNat (48 + n.toNat) else Char.ofNat (87 + n.toNat)

def toHex (b : Bytes) : String :=
  if b.isEmpty then "-" else
  String.ofList (b.flatMap fun x => [hexDigit (x / 16), hexDigit (x % 16)])

def hexVal (c : Char) : Option UInt8 :=
  if '0' ≤ c ∧ c ≤ '9' then some (c.toNat - 48).toUInt8
  else if 'a' ≤ c ∧ c ≤ 'f' then some (c.toNat - 87).toUInt8
  else none

def ofHexChars : List Char → Option Bytes
  | [] => some []
  | [_] => none
  | a :: b :: rest => do
    let x ← hexVal a
    let y ← hexVal b
    let r ← ofHexChars rest
    pure ((x * 16 + y) :: r)

def ofHex (s : String) : Option Bytes :=
  if s == "-" then some [] else ofHexChars s.toList

def ofString (s : String) : Bytes := s.toUTF8.toList

/-- Lossy rendering for human-readable output (ASCII expected). -/
def toAscii (b : Bytes) : String := String.ofList (b.map fun x => Char.ofNat x.toNat)

/-- `utf8.DecodeRuneInString`: (rune, width). Invalid or truncated encodings give
`(0xFFFD, 1)`; the empty string gives `(0xFFFD, 0)`. -/
def decodeRune (b : Bytes) : Nat × Nat :=
  let cont (x : UInt8) : Bool := 0x80 ≤ x && x ≤ 0xBF
  match b with
  | [] => (0xFFFD, 0)
  | b0 :: r =>
    if b0 < 0x80 then (b0.toNat, 1)
    else if 0xC2 ≤ b0 && b0 ≤ 0xDF then
      match r with
      | b1 :: _ => if cont b1 then ((b0.toNat - 0xC0) * 64 + (b1.toNat - 0x80), 2) else (0xFFFD, 1)
      | _ => (0xFFFD, 1)
    else if 0xE0 ≤ b0 && b0 ≤ 0xEF then
      match r with
      | b1 :: b2 :: _ =>
        let lo : UInt8 := if b0 == 0xE0 then 0xA0 else 0x80
        let hi : UInt8 := if b0 == 0xED then 0x9F else 0xBF
        if lo ≤ b1 && b1 ≤ hi && cont b2 then
          ((b0.toNat - 0xE0) * 4096 + (b1.toNat - 0x80) * 64 + (b2.toNat - 0x80), 3)
        else (0xFFFD, 1)
      | _ => (0xFFFD, 1)
    else if 0xF0 ≤ b0 && b0 ≤ 0xF4 then
      match r with
      | b1 :: b2 :: b3 :: _ =>
        let lo : UInt8 := if b0 == 0xF0 then 0x90 else 0x80
        let hi : UInt8 := if b0 == 0xF4 then 0x8F else 0xBF
        if lo ≤ b1 && b1 ≤ hi && cont b2 && cont b3 then
          ((b0.toNat - 0xF0) * 262144 + (b1.toNat - 0x80) * 4096 + (b2.toNat - 0x80) * 64 + (b3.toNat - 0x80), 4)
        else (0xFFFD, 1)
      | _ => (0xFFFD, 1)
    else (0xFFFD, 1)

/-- `unicode.IsSpace` (White_Space property) as used by `strings.TrimSpace`. -/
def isSpaceRune (r : Nat) : Bool :=
  r == 0x09 || r == 0x0A || r == 0x0B || r == 0x0C || r == 0x0D || r == 0x20 || r == 0x85 || r == 0xA0 ||
  r == 0x1680 || (0x2000 ≤ r && r ≤ 0x200A) || r == 0x2028 || r == 0x2029 || r == 0x202F || r == 0x205F || r == 0x3000

/-- Split into (rune, its bytes) following Go's `range` over a string. -/
def runes (b : Bytes) : List (Nat × Bytes) :=
  go b (b.length + 1)
where
  go (b : Bytes) : Nat → List (Nat × Bytes)
    | 0 => []
    | fuel + 1 =>
      match b with
      | [] => []
      | _ =>
        let (r, w) := decodeRune b
        let w := if w == 0 then 1 else w
        (r, b.take w) :: go (b.drop w) fuel

/-- `strings.TrimSpace`. -/
def trimSpace (b : Bytes) : Bytes :=
  let rs := runes b
  let rs := rs.dropWhile (fun p => isSpaceRune p.1)
  let rs := (rs.reverse.dropWhile (fun p => isSpaceRune p.1)).reverse
  rs.flatMap (·.2)

def isAscii (b : Bytes) : Bool := b.all (· < 0x80)

/-- ASCII lower-casing (`strings.ToLower` restricted to ASCII input). -/
def toLowerAscii (b : Bytes) : Bytes := b.map fun c => if 65 ≤ c && c ≤ 90 then c + 32 else c

/-- `strings.HasPrefix`. -/
def hasPrefix : Bytes → Bytes → Bool
  | _, [] => true
  | [], _ :: _ => false
  | a :: as, p :: ps => a == p && hasPrefix as ps

end Bytes
end DepsDev
