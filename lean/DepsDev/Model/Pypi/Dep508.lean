import DepsDev.Model.Pypi.Name

/-!
# Model of `pypi.ParseDependency` (util/pypi/metadata.go:142-196)

Statement by statement; the variable names are the Go ones. Every index and slice
expression of the Go is a checked operation here (`Outcome.panic` with the site),
and `Props.C16.parseDependency_no_panic` shows none of them can fire.
-/

namespace DepsDev.Pypi

/-- `pypi.Dependency`. -/
structure Dependency where
  name : Bytes := []
  extras : Bytes := []
  constraint : Bytes := []
  environment : Bytes := []
deriving DecidableEq, Repr

/-- The `IndexAny` set `whitespace+"[(;<=!~>"`. -/
def isNameStop (c : UInt8) : Bool :=
  isWs c || c.toNat == 91 || c.toNat == 40 || c.toNat == 59 || c.toNat == 60 ||
  c.toNat == 61 || c.toNat == 33 || c.toNat == 126 || c.toNat == 62

/-- Lines 163-172: the optional extras section. Returns `(d.Extras, s)`. -/
def parseExtras (s : Bytes) : Outcome (Bytes × Bytes) :=
  match s with
  | [] => .panic "metadata.go:164 s[0]"
  | c :: _ =>
    if c.toNat == 91 then                                   -- s[0] == '['
      match indexByte s 93 with                             -- strings.IndexByte(s, ']')
      | none => .err
      | some «end» => do
        let inner ← slice "metadata.go:170 s[1:end]" s 1 «end»
        let rest ← sliceFrom "metadata.go:171 s[end+1:]" s («end» + 1)
        pure (trim inner, rest)
    else .ok ([], s)

/-- `end := strings.IndexByte(s, b); if end < 0 { end = len(s) }`. -/
def indexByteOrLen (s : Bytes) (b : UInt8) : Nat :=
  match indexByte s b with
  | some e => e
  | none => s.length

/-- Lines 180-183: "May be parenthesized, we can remove those." -/
def stripParens (c0 : Bytes) : Outcome Bytes :=
  if hasPrefix c0 [40] && hasSuffix c0 [41] then          -- "(" … ")"
    slice "metadata.go:182 d.Constraint[1:len-1]" c0 1 (c0.length - 1)
  else .ok c0

/-- Lines 173-185: the optional constraint. Returns `(d.Constraint, s)`. -/
def parseConstraint (s : Bytes) : Outcome (Bytes × Bytes) :=
  match s with
  | [] => .ok ([], s)                                       -- len(s) > 0 fails
  | c :: _ =>
    if c.toNat == 59 then .ok ([], s)                       -- s[0] == ';'
    else do
      let «end» := indexByteOrLen s 59                      -- all of the remainder if no ';'
      let head ← slice "metadata.go:179 s[:end]" s 0 «end»
      let cons ← stripParens (trim head)
      let rest ← sliceFrom "metadata.go:184 s[end:]" s «end»
      pure (cons, rest)

/-- Lines 186-195: "Anything left must be a condition starting with ';'". -/
def parseEnvironment (d : Dependency) (s : Bytes) : Outcome Dependency :=
  match s with
  | [] => .ok d
  | c :: rest =>
    if c.toNat != 59 then .err                              -- len(s) > 0 && s[0] != ';'
    else .ok { d with environment := trim rest }            -- strings.Trim(s[1:], whitespace)

/-- Lines 161-195, after `nameEnd` is known: `nm = s[:nameEnd]`, `tl = s[nameEnd:]`. -/
def parseAfterName (nm tl : Bytes) : Outcome Dependency := do
  let s := trimLeft tl
  let (extras, s) ← parseExtras s
  let (cons, s) ← parseConstraint s
  parseEnvironment { name := canonPackageName nm, extras := extras, constraint := cons } s

/-- `pypi.ParseDependency`. -/
def parseDependency (v : Bytes) : Outcome Dependency :=
  if v.isEmpty then .err else
  let s := trim v
  match indexWhere isNameStop s with
  | some 0 => .err                                          -- nameEnd == 0
  | none => .ok { name := canonPackageName s }              -- nameEnd < 0
  | some nameEnd => do
    let nm ← slice "metadata.go:161 s[:nameEnd]" s 0 nameEnd
    let tl ← sliceFrom "metadata.go:162 s[nameEnd:]" s nameEnd
    parseAfterName nm tl

end DepsDev.Pypi
