import DepsDev.Model.Pypi.Basic
import DepsDev.Gen.C16PypiEnv

/-!
# Model of the PEP 508 marker parser and evaluator (util/resolve/pypi/markers.go)

`parseMarker`, `parseMarkerOr/And/Expr/Var/Op`, `parsePythonStr`, `markerExpr.Eval`,
`markerAnd.Eval`, `markerOr.Eval`, and the filter of `provider.getDependencies`
(resolve.go:589-611).

## The semver boundary (stated, not hidden)

Two things in this file's Go code are computed by `deps.dev/util/semver`:

* `mkMarkerVar`: `semver.PyPI.Parse(value)` succeeds?  → parameter `isVersion`;
* `parseMarkerExpr` / `Eval`: `semver.PyPI.ParseConstraint(op + rhs)` (may fail) and
  `constraint.MatchVersion(lhs.version)` → parameter `cmpLeaf lhs op rhs`
  (`.err` = ParseConstraint failed, `.ok b` = MatchVersion's result).

Both are **parameters** of this model (structure `Semver`). They are the business of
properties C02/C03 and of the semver model; the driver receives their values for the
leaves of each marker from the real code (op-line fields `ver=` and `leaf=`). Everything
else — lexing, the grammar, operator selection, which leaves take the version path,
string operators, extras, the Boolean structure — is modelled here.

## Parser state

Go's `envParser{input, pos}` is represented by the remaining input `input[pos:]`.

## Recursion

`parseMarkerOr → parseMarkerAnd → parseMarkerExpr → parseMarkerOr` recurses on the
same or a shorter remainder; the model takes fuel so that it is structurally recursive
(kernel-evaluable); running out is a separate result (`Fuelled.outOfFuel`), `parseMarker`
supplies `3 * len + 3`, and `Props.C16.parseMarker_fuel_sufficient` shows that this never
runs out, for any input.
-/

namespace DepsDev.Pypi
open DepsDev.Gen

/-- The two services the marker code takes from `util/semver` (system PyPI). -/
structure Semver where
  /-- `semver.PyPI.Parse(s)` returns no error. -/
  isVersion : Bytes → Bool
  /-- `c, err := semver.PyPI.ParseConstraint(op.String() + rhs)`; `.err` if `err != nil`,
  otherwise `.ok (c.MatchVersion(v))` where `v` is `semver.PyPI.Parse(lhs)`. -/
  cmpLeaf : Bytes → Nat → Bytes → Outcome Bool

/-! ### markerOp constants (values checked against `Gen.C16PypiEnv.opNames` in Props) -/
def opUnknown : Nat := 0
def opLessEqual : Nat := 1
def opLess : Nat := 2
def opNotEqual : Nat := 3
def opEqualEqual : Nat := 4
def opGreaterEqual : Nat := 5
def opGreater : Nat := 6
def opTildeEqual : Nat := 7
def opEqualEqualEqual : Nat := 8
def opIn : Nat := 9
def opNotIn : Nat := 10

/-- `markerVar` (the `*semver.Version` is represented by "it parsed"). -/
structure MarkerVar where
  name : Bytes
  value : Bytes
  hasVersion : Bool
deriving DecidableEq, Repr

/-- The `marker` interface: `markerExpr`, `markerAnd`, `markerOr`. For `expr`, `cons` is
`none` when `constraint == nil`, else `some (constraint.MatchVersion(left.version))`. -/
inductive Marker where
  | expr (op : Nat) (left right : MarkerVar) (cons : Option Bool)
  | and (left right : Marker)
  | or (left right : Marker)
deriving DecidableEq, Repr

/-- `mkMarkerVar`. -/
def mkMarkerVar (sv : Semver) (name value : Bytes) : MarkerVar :=
  { name := name, value := value, hasVersion := sv.isVersion value }

/-- `skipWsp` (the remainder after skipping). -/
def skipWsp (s : Bytes) : Bytes := s.dropWhile isWs

/-- `accept(lit)`: `none` if the input does not start with `lit`. -/
def accept (lit s : Bytes) : Option Bytes :=
  if lit.isPrefixOf s then some (s.drop lit.length) else none

/-- `peek` (`eof = 255`). -/
def peek : Bytes → UInt8
  | [] => 255
  | c :: _ => c

/-- `parsePythonStr`: `(value, remainder)`. -/
def parsePythonStr (s : Bytes) : Outcome (Bytes × Bytes) :=
  match s with
  | [] => .err                                        -- peek() = eof
  | q :: rest =>
    if q.toNat != 39 && q.toNat != 34 then .err       -- not ' or "
    else match indexByte rest q with                  -- IndexByte(input[pos+1:], s)
      | none => .err
      | some i => .ok (rest.take i, rest.drop (i + 1))

/-- The loop `for n, v := range environmentVariables { if p.accept(n) … }`. The Go map has
no order; no key is a prefix of another (`Props.C16.envVars_prefix_free`), so at most one
key can be accepted and the order is immaterial. -/
def acceptEnvVar (s : Bytes) : List (Bytes × Bytes × Bytes) → Option (Bytes × Bytes × Bytes)
  | [] => none
  | (key, name, value) :: rest =>
    match accept key s with
    | some r => some (name, value, r)
    | none => acceptEnvVar s rest

/-- `parseMarkerVar`. -/
def parseMarkerVar (sv : Semver) (s : Bytes) : Outcome (MarkerVar × Bytes) :=
  let s := skipWsp s
  match parsePythonStr s with
  | .ok (str, r) => .ok (mkMarkerVar sv [] str, r)
  | _ =>
    let c := (peek s).toNat
    if c == 101 || c == 105 || c == 111 || c == 112 || c == 115 then   -- 'e','i','o','p','s'
      match acceptEnvVar s C16PypiEnv.envVars with
      | some (name, value, r) => .ok (mkMarkerVar sv name value, r)
      | none => .err
    else .err

/-- The loop over `markerOpsByLength`. -/
def acceptOp (s : Bytes) : List Nat → Outcome (Option (Nat × Bytes))
  | [] => .ok none
  | o :: rest =>
    match C16PypiEnv.opStrings[o]? with
    | none => .panic "markerop_string.go: markerOp out of range of the stringer tables"
    | some str =>
      match accept str s with
      | some r => .ok (some (o, r))
      | none => acceptOp s rest

/-- `parseMarkerOp`. -/
def parseMarkerOp (s : Bytes) : Outcome (Nat × Bytes) :=
  let s := skipWsp s
  match acceptOp s C16PypiEnv.markerOpsByLength with
  | .ok (some r) => .ok r
  | .ok none =>
    match accept [110, 111, 116] s with               -- "not"
    | none => .err
    | some s1 =>
      let s2 := skipWsp s1
      if s2.length == s1.length then .err             -- !p.skipWsp()
      else match accept [105, 110] s2 with            -- "in"
        | none => .err
        | some s3 => .ok (opNotIn, s3)
  | .err => .err
  | .panic p => .panic p

def extraName : Bytes := [101, 120, 116, 114, 97]     -- "extra"

/-- The checks at the end of `parseMarkerExpr` (markers.go:292-318) that turn two operands
and an operator into a `markerExpr`. -/
def mkExpr (sv : Semver) (o : Nat) (l r : MarkerVar) : Outcome Marker :=
  -- ~= can only compare versions.
  if (!l.hasVersion || !r.hasVersion) && o == opTildeEqual then .err else do
  let cons ←
    if l.hasVersion && r.hasVersion && o != opEqualEqualEqual then
      match sv.cmpLeaf l.value o r.value with
      | .ok b => Outcome.ok (some b)
      | .err => .err
      | .panic p => .panic p
    else pure none
  if (l.name == extraName || r.name == extraName) && o != opEqualEqual then .err
  else pure (.expr o l r cons)

/-- Result of a fuelled parser: a Go outcome, or "the fuel ran out" (which
`Props.C16.parseMarker_fuel_sufficient` shows never happens for the fuel `parseMarker` gives). -/
inductive Fuelled (α : Type) where
  | done (o : Outcome α)
  | outOfFuel
deriving DecidableEq, Repr

/-- Sequencing: continue only after a Go-level success. -/
def Fuelled.bind {α β} (x : Fuelled α) (f : α → Fuelled β) : Fuelled β :=
  match x with
  | .done (.ok a) => f a
  | .done .err => .done .err
  | .done (.panic p) => .done (.panic p)
  | .outOfFuel => .outOfFuel

instance : Monad Fuelled where
  pure a := .done (.ok a)
  bind := Fuelled.bind

/-- The non-parenthesised case of `parseMarkerExpr`: `marker_var marker_op marker_var`
and the checks on the resulting expression. -/
def parseLeaf (sv : Semver) (s : Bytes) : Outcome (Marker × Bytes) := do
  let (l, s) ← parseMarkerVar sv s
  let (o, s) ← parseMarkerOp s
  let (r, s) ← parseMarkerVar sv s
  let e ← mkExpr sv o l r
  pure (e, s)

mutual
/-- `parseMarkerOr`. -/
def parseMarkerOr (sv : Semver) : Nat → Bytes → Fuelled (Marker × Bytes)
  | 0, _ => .outOfFuel
  | fuel + 1, s => do
    let (l, s) ← parseMarkerAnd sv fuel s
    let s := skipWsp s
    match accept [111, 114] s with                    -- "or"
    | none => pure (l, s)
    | some s => do
      let (r, s) ← parseMarkerOr sv fuel s
      pure (.or l r, s)
/-- `parseMarkerAnd`. -/
def parseMarkerAnd (sv : Semver) : Nat → Bytes → Fuelled (Marker × Bytes)
  | 0, _ => .outOfFuel
  | fuel + 1, s => do
    let (l, s) ← parseMarkerExpr sv fuel s
    let s := skipWsp s
    match accept [97, 110, 100] s with                -- "and"
    | none => pure (l, s)
    | some s => do
      let (r, s) ← parseMarkerAnd sv fuel s
      pure (.and l r, s)
/-- `parseMarkerExpr`. -/
def parseMarkerExpr (sv : Semver) : Nat → Bytes → Fuelled (Marker × Bytes)
  | 0, _ => .outOfFuel
  | fuel + 1, s =>
    let s := skipWsp s
    match accept [40] s with                          -- "("
    | some s => do
      let (m, s) ← parseMarkerOr sv fuel s
      match accept [41] s with                        -- ")"
      | none => .done .err
      | some s => pure (m, s)
    | none => .done (parseLeaf sv s)
end

/-- `parseMarker`. -/
def parseMarker (sv : Semver) (raw : Bytes) : Outcome Marker :=
  match parseMarkerOr sv (3 * raw.length + 3) raw with
  | .done (.ok (m, [])) => .ok m
  | .done (.ok (_, _ :: _)) => .err                   -- p.pos < len(p.input): expected EOF
  | .done .err => .err
  | .done (.panic p) => .panic p
  | .outOfFuel => .panic "model: out of fuel (unreachable)"

/-- `Eval`. Go's `&&`/`||` short-circuit; the `default: panic(...)` of the string switch is a
checked site (`Props.C16.eval_parsed_no_panic`: unreachable for parsed markers). -/
def Marker.eval (extras : List Bytes) : Marker → Outcome Bool
  | .expr op l r cons =>
    if l.name == extraName || r.name == extraName then
      let e := if l.name == extraName then r.value else l.value
      .ok (extras.contains e)                          -- extras[e] on map[string]bool of trues
    else match cons with
      | some b => .ok b                                -- constraint.MatchVersion(left.version)
      | none =>
        if op == opLessEqual then .ok (bytesLe l.value r.value)
        else if op == opLess then .ok (bytesLt l.value r.value)
        else if op == opNotEqual then .ok (l.value != r.value)
        else if op == opEqualEqual || op == opEqualEqualEqual then .ok (l.value == r.value)
        else if op == opGreaterEqual then .ok (bytesLe r.value l.value)
        else if op == opGreater then .ok (bytesLt r.value l.value)
        else if op == opIn then .ok (contains r.value l.value)
        else if op == opNotIn then .ok (!contains r.value l.value)
        else .panic "markers.go:417 unknown or invalid op"
  | .and l r =>
    match l.eval extras with
    | .ok true => r.eval extras
    | o => o
  | .or l r =>
    match l.eval extras with
    | .ok false => r.eval extras
    | o => o

/-- The filter closure of `provider.getDependencies` for one requirement: `env` is the
`dep.Environment` attribute (`none` = absent). `.ok keep`, or the error that aborts
`getDependencies`. -/
def keepDependency (sv : Semver) (env : Option Bytes) (extras : List Bytes) : Outcome Bool :=
  match env with
  | none => .ok true
  | some raw =>
    match parseMarker sv raw with
    | .ok m => m.eval extras
    | .err => .err
    | .panic p => .panic p

/-- What the hook `VerifEvalMarker` computes. -/
def evalMarker (sv : Semver) (raw : Bytes) (extras : List Bytes) : Outcome Bool :=
  keepDependency sv (some raw) extras

end DepsDev.Pypi
