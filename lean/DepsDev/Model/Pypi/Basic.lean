import DepsDev.Model.Bytes

/-!
# Byte-string primitives used by the PyPI models (property C16)

Re-implementations over `Bytes` of the `strings.*` functions that
`util/pypi/metadata.go` and `util/resolve/pypi/markers.go` call, for the
fragments used there. All cut sets and search sets in those files are ASCII, for
which Go's `strings.Trim/TrimLeft/IndexAny/IndexByte/HasPrefix/Contains` work
byte by byte (multi-byte UTF-8 sequences contain no ASCII byte, invalid UTF-8
decodes to U+FFFD which is in none of the sets), so the byte-level definitions
below are exact. Tied to the code by the correspondence ops `dep508`, `marker`.
Core Lean only.
-/

namespace DepsDev.Pypi

/-- Result of a Go call: value, `error`, or a recovered panic (site recorded). -/
inductive Outcome (α : Type) where
  | ok (a : α)
  | err
  | panic (site : String)
deriving DecidableEq, Repr

namespace Outcome
def bind {α β} (o : Outcome α) (f : α → Outcome β) : Outcome β :=
  match o with
  | .ok a => f a
  | .err => .err
  | .panic s => .panic s
instance : Monad Outcome where
  pure := .ok
  bind := bind
def isPanic {α} : Outcome α → Bool
  | .panic _ => true
  | _ => false
end Outcome

/-- PEP 508 whitespace: `' '` or `'\t'` (`const whitespace = " \t"`, `isSpace`). -/
def isWs (c : UInt8) : Bool := c.toNat == 32 || c.toNat == 9

/-- `strings.TrimLeft(s, " \t")`. -/
def trimLeft (s : Bytes) : Bytes := s.dropWhile isWs

/-- `strings.TrimRight(s, " \t")`, structurally: drop the element when everything after it
is already gone and it is whitespace. -/
def trimRight : Bytes → Bytes
  | [] => []
  | c :: cs =>
    match trimRight cs with
    | [] => if isWs c then [] else [c]
    | r => c :: r

/-- `strings.Trim(s, " \t")` (Go trims left, then right). -/
def trim (s : Bytes) : Bytes := trimRight (trimLeft s)

/-- `strings.IndexAny(s, set)` for an ASCII set given as a predicate: index of the first
byte in the set, `none` for -1. -/
def indexWhere (p : UInt8 → Bool) : Bytes → Option Nat
  | [] => none
  | c :: cs => if p c then some 0 else (indexWhere p cs).map (· + 1)

/-- `strings.IndexByte(s, b)`. -/
def indexByte (s : Bytes) (b : UInt8) : Option Nat := indexWhere (· == b) s

/-- `strings.HasPrefix(s, p)`. -/
def hasPrefix (s p : Bytes) : Bool := p.isPrefixOf s

/-- `strings.HasSuffix(s, p)`. -/
def hasSuffix (s p : Bytes) : Bool := p.isSuffixOf s

/-- `strings.Contains(s, sub)`. -/
def contains : Bytes → Bytes → Bool
  | [], sub => sub.isEmpty
  | c :: cs, sub => sub.isPrefixOf (c :: cs) || contains cs sub

/-- Go's `s[lo:hi]` with its bounds check. -/
def slice (site : String) (s : Bytes) (lo hi : Nat) : Outcome Bytes :=
  if lo ≤ hi ∧ hi ≤ s.length then .ok ((s.take hi).drop lo) else .panic site

/-- Go's `s[lo:]` with its bounds check. -/
def sliceFrom (site : String) (s : Bytes) (lo : Nat) : Outcome Bytes :=
  if lo ≤ s.length then .ok (s.drop lo) else .panic site

/-- Go's string `<` (bytewise lexicographic). -/
def bytesLt : Bytes → Bytes → Bool
  | _, [] => false
  | [], _ :: _ => true
  | a :: as, b :: bs => a.toNat < b.toNat || (a == b && bytesLt as bs)

def bytesLe (a b : Bytes) : Bool := !bytesLt b a

end DepsDev.Pypi
