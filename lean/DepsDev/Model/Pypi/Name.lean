import DepsDev.Model.Pypi.Basic

/-!
# Model of `pypi.CanonPackageName` (util/pypi/metadata.go:208-234)
-/

namespace DepsDev.Pypi

def isLower (c : UInt8) : Bool := 97 ≤ c.toNat && c.toNat ≤ 122   -- 'a'..'z'
def isUpper (c : UInt8) : Bool := 65 ≤ c.toNat && c.toNat ≤ 90    -- 'A'..'Z'
def isDigit (c : UInt8) : Bool := 48 ≤ c.toNat && c.toNat ≤ 57    -- '0'..'9'
/-- `c == '-' || c == '_' || c == '.'` -/
def isSep (c : UInt8) : Bool := c.toNat == 45 || c.toNat == 95 || c.toNat == 46

/-- The loop of `CanonPackageName`; `run` is the Go variable of the same name, the result is
what the remaining iterations append to `out`. -/
def canonLoop : Bool → Bytes → Bytes
  | _, [] => []
  | run, c :: cs =>
    if isLower c || isDigit c then c :: canonLoop false cs
    else if isUpper c then (c + 32) :: canonLoop false cs      -- c + ('a' - 'A')
    else if isSep c then
      if run then canonLoop true cs else 45 :: canonLoop true cs
    else canonLoop false cs                                     -- default: run = false

/-- `pypi.CanonPackageName`. -/
def canonPackageName (name : Bytes) : Bytes := canonLoop false name

end DepsDev.Pypi
