import DepsDev.Proofs.C04
import DepsDev.Props.SemverTies

/-!
# C04 — parsing and matching entry points are total: errors, never panics or hangs

In the model every Go panic site (index out of range, nil dereference, failed type
assertion, explicit `panic`) is an explicit `Outcome.panic`, and every function is
accepted by Lean's termination checker: loops that consume input carry fuel equal to
the remaining length plus one (each iteration consumes at least one byte), nothing
else is fuel-bounded in the semver model. "Returns a value or an error" is therefore
`≠ .panic` for the modelled entry points.

Proved in full (all byte strings, all nine systems unless stated):
* `parse_total` — `System.Parse` never panics;
* `token_total` — the constraint tokenizer never panics (uses the regenerated fact that
  the operator table has an entry for every system: repair F1);
* `compare_total` — `System.Compare` never panics, for the eight systems whose comparator
  is proved lawful in C01.
`Props/C04b.lean` continues: `compare_total_all` (all nine systems, Maven included),
`difference_total`, `parseConstraint_total`, `parseSetConstraint_total`, `match_total`,
`matchSet_total`, `matchVersion_total`, `matchVersionPrerelease_total`, `inc_total`.
NOT proved here (fuzz probes under `recover` and a deadline only): entry points outside
util/semver (PEP 508 / metadata / wheel / sdist parsers, POM processing, schema parsers,
resolvers); C15, C16 and C19 prove no-panic for the models of their own parsers.
-/
namespace DepsDev.Props.C04

open DepsDev DepsDev.Semver DepsDev.Proofs

/-- `System.Parse` returns a version or an error for every input. -/
theorem parse_total (s : System) (b : Bytes) : parse s b ≠ .panic := parse_noPanic s b

/-- The tokenizer never indexes past the operator table. -/
theorem token_total (s : System) (b : Bytes) : token s b ≠ .panic := by
  unfold token
  split
  · intro h; cases h
  · simp only
    split
    · intro h; cases h
    · have hop : ∃ m, opSetOf s = .ok m := by cases s <;> exact ⟨_, rfl⟩
      obtain ⟨m, hm⟩ := hop
      rw [hm]
      show (do let ops ← Outcome.ok m; _) ≠ _
      simp only [bind, Outcome.bind]
      repeat' split
      all_goals (intro h; cases h)

/-- `System.Compare` returns a sign for every pair of inputs (eight systems). -/
theorem compare_total (s : System) (hs : s ≠ .maven) (a b : Bytes) : compareStr s a b ≠ .panic := by
  unfold compareStr
  have ha := parse_total s a
  have hb := parse_total s b
  cases hpa : parse s a with
  | panic => exact absurd hpa ha
  | err =>
    cases hpb : parse s b with
    | panic => exact absurd hpb hb
    | err => simp
    | ok y => simp
  | ok x =>
    cases hpb : parse s b with
    | panic => exact absurd hpb hb
    | err => simp
    | ok y =>
      simp only
      have wa := C01.parse_wf s a x hpa
      have wb := C01.parse_wf s b y hpb
      have hT : C01.TotalPreorderOn (C01.WF s) := by
        cases s
        case maven => exact absurd rfl hs
        case pypi => exact C01.pypi
        case rubygems => exact C01.rubygems
        case default => exact C01.generic _ (Or.inl rfl)
        case cargo => exact C01.generic _ (Or.inr (Or.inl rfl))
        case go => exact C01.generic _ (Or.inr (Or.inr (Or.inl rfl)))
        case npm => exact C01.generic _ (Or.inr (Or.inr (Or.inr (Or.inl rfl))))
        case nuget => exact C01.generic _ (Or.inr (Or.inr (Or.inr (Or.inr (Or.inl rfl)))))
        case composer => exact C01.generic _ (Or.inr (Or.inr (Or.inr (Or.inr (Or.inr rfl)))))
      obtain ⟨c, _, hc⟩ := hT
      rw [hc x y wa wb]
      intro h; cases h

/-- Non-vacuity / regression: the inputs that used to panic now return errors in the model
(as they do in the repaired code): Composer constraints (F1) and NuGet `1* ` (F12). -/
example : (parseConstraint .composer "^1.0".toUTF8.toList).isPanic = false ∧
    parse .nuget "1* ".toUTF8.toList = .err := by
  constructor <;> decide +kernel

end DepsDev.Props.C04
