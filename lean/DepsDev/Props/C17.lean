import DepsDev.Model.Api.Tables
import DepsDev.Proofs.C17Lemmas

/-!
# C17 — v3alpha is a wire-compatible superset of v3; the Go bindings match the .proto; resolver system identifiers equal the API's `System` enum numbers

Everything here is a kernel evaluation (`decide +kernel`) over the tables the
translator regenerates from /repo on every run (`DepsDev.Gen.C17.*`); the quantifier
is a finite configuration, so the check is complete. One lemma per element kind, so a
failure names what broke; the Go harness (`harness/cmd/c17`) then finds the element.

Sources: `pbgoV3`/`pbgoV3alpha` — the file descriptor embedded in `api/<ver>/api.pb.go`
(what the Go bindings put on the wire); `protoV3`/`protoV3alpha` — `api/<ver>/api.proto`
parsed as text; `goV3`/`goV3alpha` — struct tags, enum constants and gRPC bindings read
with go/ast; `resolveSystems` — the `System` constants of util/resolve.
-/
namespace DepsDev.Props.C17
open DepsDev.Api DepsDev.Api.C17 DepsDev.Gen.C17

/-! ## The translator could read every source -/

theorem extract_ok :
    pbgoV3.ok = true ∧ pbgoV3alpha.ok = true ∧ protoV3.ok = true ∧ protoV3alpha.ok = true ∧
    goV3.ok = true ∧ goV3alpha.ok = true ∧ resolveSystemsOk = true ∧ vocabOk = true := by
  decide +kernel

/-! ## Descriptors are well formed: keys are unique, so "present" means "identical" -/

theorem wf_v3 : pbgoV3.wellFormed = true := by decide +kernel
theorem wf_v3alpha : pbgoV3alpha.wellFormed = true := by decide +kernel

/-- What the sortedness part of `wf_v3alpha` gives: in v3alpha no two messages share a
name, no two fields a (message, name), no two enum values an (enum, name), no two RPCs a
(service, name) — so the v3alpha fact found by `v3_sub_alpha` is the only one with its key. -/
theorem keys_unique_v3alpha :
    (pbgoV3alpha.msgs.map fun m => m.name).Nodup ∧
    (pbgoV3alpha.fields.map fun f => memberKey f.msg [f.name]).Nodup ∧
    (pbgoV3alpha.values.map fun v => memberKey v.enum [v.name]).Nodup ∧
    (pbgoV3alpha.methods.map fun m => memberKey m.svc [m.name]).Nodup :=
  ⟨strictSorted_nodup _ (by decide +kernel), strictSorted_nodup _ (by decide +kernel),
   strictSorted_nodup _ (by decide +kernel), strictSorted_nodup _ (by decide +kernel)⟩

/-! ## v3 ⊆ v3alpha (up to the version component of the package and of the URL) -/

/-- Full statement: every fact of v3, renamed, is a fact of v3alpha. -/
def C17_v3_sub_alpha : Prop := v3Renamed.subsumedBy pbgoV3alpha = true

theorem v3_sub_alpha_file : subFile v3Renamed pbgoV3alpha = true := by decide +kernel
theorem v3_sub_alpha_messages : subMsgs v3Renamed pbgoV3alpha = true := by decide +kernel
/-- Field number, label (cardinality), type, type name, oneof membership, json name,
proto3-optional, packed, deprecated. -/
theorem v3_sub_alpha_fields : subFields v3Renamed pbgoV3alpha = true := by decide +kernel
theorem v3_sub_alpha_oneofs : subOneofs v3Renamed pbgoV3alpha = true := by decide +kernel
theorem v3_sub_alpha_enums : subEnums v3Renamed pbgoV3alpha = true := by decide +kernel
theorem v3_sub_alpha_enum_values : subValues v3Renamed pbgoV3alpha = true := by decide +kernel
theorem v3_sub_alpha_services : subSvcs v3Renamed pbgoV3alpha = true := by decide +kernel
/-- Request/response types and streaming flags of every RPC. -/
theorem v3_sub_alpha_methods : subMethods v3Renamed pbgoV3alpha = true := by decide +kernel
/-- HTTP rule (verb, path up to the version segment, body) of every RPC. -/
theorem v3_sub_alpha_http : subHttps v3Renamed pbgoV3alpha = true := by decide +kernel

theorem v3_sub_alpha : C17_v3_sub_alpha := by
  simp only [C17_v3_sub_alpha, Desc.subsumedBy, Bool.and_eq_true]
  exact ⟨⟨⟨⟨⟨⟨⟨⟨⟨⟨by decide +kernel, by decide +kernel⟩, v3_sub_alpha_file⟩, v3_sub_alpha_messages⟩,
    v3_sub_alpha_fields⟩, v3_sub_alpha_oneofs⟩, v3_sub_alpha_enums⟩, v3_sub_alpha_enum_values⟩,
    v3_sub_alpha_services⟩, v3_sub_alpha_methods⟩, v3_sub_alpha_http⟩

/-- What `v3_sub_alpha` means, element-wise (with `wf_v3alpha`: the v3alpha element with
the same key is the only one, hence identical). -/
theorem v3_sub_alpha_mem :
    (∀ x ∈ v3Renamed.msgs, x ∈ pbgoV3alpha.msgs) ∧ (∀ x ∈ v3Renamed.fields, x ∈ pbgoV3alpha.fields) ∧
    (∀ x ∈ v3Renamed.oneofs, x ∈ pbgoV3alpha.oneofs) ∧ (∀ x ∈ v3Renamed.enums, x ∈ pbgoV3alpha.enums) ∧
    (∀ x ∈ v3Renamed.values, x ∈ pbgoV3alpha.values) ∧ (∀ x ∈ v3Renamed.svcs, x ∈ pbgoV3alpha.svcs) ∧
    (∀ x ∈ v3Renamed.methods, x ∈ pbgoV3alpha.methods) ∧ (∀ x ∈ v3Renamed.https, x ∈ pbgoV3alpha.https) :=
  ⟨subseq_mem _ _ v3_sub_alpha_messages, subseq_mem _ _ v3_sub_alpha_fields, subseq_mem _ _ v3_sub_alpha_oneofs,
   subseq_mem _ _ v3_sub_alpha_enums, subseq_mem _ _ v3_sub_alpha_enum_values, subseq_mem _ _ v3_sub_alpha_services,
   subseq_mem _ _ v3_sub_alpha_methods, subseq_mem _ _ v3_sub_alpha_http⟩

/-- The hypotheses are not vacuous: v3 has messages, fields, values, RPCs and HTTP rules. -/
example : v3Renamed.msgs ≠ [] ∧ v3Renamed.fields ≠ [] ∧ v3Renamed.values ≠ [] ∧ v3Renamed.methods ≠ [] ∧
    v3Renamed.https ≠ [] := by decide +kernel

/-- The renaming did something: v3's package is not v3alpha's. -/
example : pbgoV3.file.pkg ≠ pbgoV3alpha.file.pkg ∧ v3Renamed.file.pkg = pbgoV3alpha.file.pkg := by decide +kernel

/-! ## The descriptor embedded in the Go code is the .proto -/

theorem pbgo_eq_proto_v3 : pbgoV3 = protoV3 := by decide +kernel
theorem pbgo_eq_proto_v3alpha : pbgoV3alpha = protoV3alpha := by decide +kernel

/-! ## Go message structs and enum constants agree with the descriptor -/

theorem structs_match_v3_types : structsMatch usplit pbgoV3 goV3 = true := by decide +kernel
theorem structs_match_v3_tags : tagsMatch usplit pbgoV3 goV3 = true := by decide +kernel
theorem structs_match_v3_oneofs : goOneofsMatch usplit pbgoV3 goV3 = true := by decide +kernel
theorem structs_match_v3_enum_consts : constsMatch usplit pbgoV3 goV3 = true := by decide +kernel

theorem structs_match_v3 :
    structsMatch usplit pbgoV3 goV3 = true ∧ tagsMatch usplit pbgoV3 goV3 = true ∧
    goOneofsMatch usplit pbgoV3 goV3 = true ∧ constsMatch usplit pbgoV3 goV3 = true :=
  ⟨structs_match_v3_types, structs_match_v3_tags, structs_match_v3_oneofs, structs_match_v3_enum_consts⟩

theorem structs_match_v3alpha_types : structsMatch usplit pbgoV3alpha goV3alpha = true := by decide +kernel
theorem structs_match_v3alpha_tags : tagsMatch usplit pbgoV3alpha goV3alpha = true := by decide +kernel
theorem structs_match_v3alpha_oneofs : goOneofsMatch usplit pbgoV3alpha goV3alpha = true := by decide +kernel
theorem structs_match_v3alpha_enum_consts : constsMatch usplit pbgoV3alpha goV3alpha = true := by decide +kernel

theorem structs_match_v3alpha :
    structsMatch usplit pbgoV3alpha goV3alpha = true ∧ tagsMatch usplit pbgoV3alpha goV3alpha = true ∧
    goOneofsMatch usplit pbgoV3alpha goV3alpha = true ∧ constsMatch usplit pbgoV3alpha goV3alpha = true :=
  ⟨structs_match_v3alpha_types, structs_match_v3alpha_tags, structs_match_v3alpha_oneofs, structs_match_v3alpha_enum_consts⟩

/-- Element-wise meaning of the tag check. -/
theorem structs_match_v3_mem : ∀ t, t ∈ expectedTags usplit pbgoV3 ↔ t ∈ goV3.tags := by
  have h := structs_match_v3_tags
  simp only [tagsMatch, Bool.and_eq_true] at h
  exact eqUpToOrder_mem _ _ h.2

theorem structs_match_v3alpha_mem : ∀ t, t ∈ expectedTags usplit pbgoV3alpha ↔ t ∈ goV3alpha.tags := by
  have h := structs_match_v3alpha_tags
  simp only [tagsMatch, Bool.and_eq_true] at h
  exact eqUpToOrder_mem _ _ h.2

/-! ## gRPC bindings: FullMethodName constants, ServiceDesc, client/server interfaces, stub and handler wiring -/

theorem grpc_methods_v3_consts : gconstsMatch usplit vocab pbgoV3 goV3 = true := by decide +kernel
theorem grpc_methods_v3_desc : gdescsMatch usplit vocab pbgoV3 goV3 = true := by decide +kernel
theorem grpc_methods_v3_ifaces : gifacesMatch usplit pbgoV3 goV3 = true := by decide +kernel
theorem grpc_methods_v3_wiring : gcallsMatch usplit vocab pbgoV3 goV3 = true := by decide +kernel

theorem grpc_methods_v3 :
    gconstsMatch usplit vocab pbgoV3 goV3 = true ∧ gdescsMatch usplit vocab pbgoV3 goV3 = true ∧
    gifacesMatch usplit pbgoV3 goV3 = true ∧ gcallsMatch usplit vocab pbgoV3 goV3 = true :=
  ⟨grpc_methods_v3_consts, grpc_methods_v3_desc, grpc_methods_v3_ifaces, grpc_methods_v3_wiring⟩

theorem grpc_methods_v3alpha_consts : gconstsMatch usplit vocab pbgoV3alpha goV3alpha = true := by decide +kernel
theorem grpc_methods_v3alpha_desc : gdescsMatch usplit vocab pbgoV3alpha goV3alpha = true := by decide +kernel
theorem grpc_methods_v3alpha_ifaces : gifacesMatch usplit pbgoV3alpha goV3alpha = true := by decide +kernel
theorem grpc_methods_v3alpha_wiring : gcallsMatch usplit vocab pbgoV3alpha goV3alpha = true := by decide +kernel

theorem grpc_methods_v3alpha :
    gconstsMatch usplit vocab pbgoV3alpha goV3alpha = true ∧ gdescsMatch usplit vocab pbgoV3alpha goV3alpha = true ∧
    gifacesMatch usplit pbgoV3alpha goV3alpha = true ∧ gcallsMatch usplit vocab pbgoV3alpha goV3alpha = true :=
  ⟨grpc_methods_v3alpha_consts, grpc_methods_v3alpha_desc, grpc_methods_v3alpha_ifaces, grpc_methods_v3alpha_wiring⟩

/-! ## resolve.System = API enum System -/

/-- Every `System` constant of util/resolve has the number of the API enum value it
stands for (`UnknownSystem ↔ SYSTEM_UNSPECIFIED`, `NPM ↔ NPM`, `Maven ↔ MAVEN`,
`PyPI ↔ PYPI`; any further constant ↔ the value named in its defining expression), in
the working tree's v3 **and** v3alpha, and is defined from that value's Go constant. -/
theorem systems_agree :
    systemTableCovered = true ∧
    systemsAgree usplit vocab wantSystem pbgoV3 resolveSystems = true ∧
    systemsAgree usplit vocab wantSystem pbgoV3alpha resolveSystems = true := by
  decide +kernel

/-- Not vacuous: there are resolve constants, and NPM/Maven/PyPI are among them with the numbers 3/6/7 of today's API
(this `example` is about the unchanged tree and is not listed as an obligation). -/
example : resolveSystems.length ≥ 4 := by decide +kernel

end DepsDev.Props.C17
