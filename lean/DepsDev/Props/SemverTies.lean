import DepsDev.Model.Semver.Constraint
import DepsDev.Model.Semver.Diff

/-!
# Ties between the hand-written semver model and the tables regenerated from the Go source

Every constant the model spells out by hand (system numbers and names, token type
numbers, category numbers, table sizes the Go code indexes without a bounds check)
is checked here against `DepsDev.Gen.SemverTables`, which the translator rewrites from
/repo's working tree on every run. A change to a Go table that the model does not
follow breaks one of these theorems.
-/
namespace DepsDev.Props.SemverTies

open DepsDev DepsDev.Semver Gen.SemverTables

/-- `System` constants: names and values, in order. -/
theorem systems_ok : systems = System.all.map (fun s => (s.goName, s.toNat)) := by decide

/-- `byteType` has 128 entries (`byteType[r]` is only evaluated for `r < 0x7F`). -/
theorem byteType_len : byteType.length = 128 := by decide +kernel

/-- `operators` has an entry for every system: `operators[sys]` cannot panic (repair F1). -/
theorem operators_len : operators.length = System.all.length := by decide

theorem opSetOf_ok (sys : System) : (opSetOf sys).isOk = true := by
  cases sys <;> decide

/-- Token type numbers used by the model. -/
theorem tokTypes_ok : tokTypes =
    [("tokInvalid", tokInvalid), ("tokInternalError", tokInternalError), ("tokEmpty", tokEmpty), ("tokEqual", tokEqual),
     ("tokGreater", tokGreater), ("tokGreaterEqual", tokGreaterEqual), ("tokLess", tokLess), ("tokLessEqual", tokLessEqual),
     ("tokNotEqual", tokNotEqual), ("tokCaret", tokCaret), ("tokTilde", tokTilde), ("tokBacon", tokBacon),
     ("tokComma", tokComma), ("tokOr", tokOr), ("tokHyphen", tokHyphen), ("tokLbracket", tokLbracket),
     ("tokRbracket", tokRbracket), ("tokVersion", tokVersion), ("tokWildcard", tokWildcard), ("tokEOF", tokEOF)] := by decide

/-- Byte classes and version categories as the model's branches assume them. -/
theorem classes_ok : (tXX, tWS, tVS, tOP, tBR) = (0, 1, 2, 3, 4) ∧
    (versionSeparator, versionUnknown, versionStar, versionQualifier, versionNumeric, versionEOF) = (0, 1, 2, 3, 4, 5) := by decide

theorem values_ok : Gen.SemverTables.infinity = 2 ^ 63 - 1 ∧ Gen.SemverTables.wildcard = -1 ∧ mavenEmptyQualifier = -2 := by decide

/-- PEP 440 ranks in the order the comparator relies on. -/
theorem ranks_ok : (pep440Dev, pep440Alpha, pep440Beta, pep440Prerelease, pep440Empty, pep440Local, pep440Post) =
    (0, 1, 2, 3, 4, 5, 6) := by decide

/-- Operator tokens never contain version characters or spaces: every key of every
operator map consists of `tOP` bytes, or is the single hyphen. -/
theorem operator_keys_ok :
    operators.all (fun m => m.all (fun p => p.1 == [45] || p.1.all (fun c => byteTypeOf c.toNat == tOP))) = true := by decide +kernel

/-- `Diff` constants used by the model of diff.go. -/
theorem diffs_ok : diffs = [("Same", diffSame), ("DiffOther", diffOther), ("DiffMajor", diffMajor), ("DiffMinor", diffMinor),
    ("DiffPatch", diffPatch), ("DiffPrerelease", diffPrerelease), ("DiffBuild", diffBuild)] := by decide

theorem minPre_ok : minPre = [[48]] := by decide

end DepsDev.Props.SemverTies
