import DepsDev.Proofs.C09Laws
import DepsDev.Model.Semver.Constraint

/-!
# C09 — set union and intersection mean union and intersection of the versions matched

Domain: the generic three-component SemVer systems Default, NPM, Cargo, Go (`Sys4`); versions
of one system without extension (`VG s`); sets as `newSpan` builds their spans and
`Union`/`Intersect` keep them (`SetOK s`, see `newSpan_establishes`, `union_closed`,
`intersect_closed`). Versions enter only through C01's lawful comparator: `pt s v` is `v` as a
point of the linear preorder of system `s` (`pt_lt_iff`, `pt_le_iff` tie it to `vcompare`).

What is proved (all inputs, no size bounds):

* T1 `contains_vector_iff`, `contains_unit_iff`, `contains_empty`;
* T2 `newSpan_clean`, `newSpan_establishes`;
* T3 `intersect_pair`;
* T5 `empty_law` (every system, every candidate, both modes);
* T6/T4 under prerelease-inclusive matching: the FULL laws `UnionLawIncl`, `IntersectLawIncl`
  are REFUTED on the model (`unionLawIncl_refuted`, `intersectLawIncl_refuted`; finding
  F-C09-succ: `canon` merges `[..,2.1.0]` with `[2.1.1,..]` and thereby lets `2.1.1-a` in);
  `union_law_partial`, `intersect_law_partial` prove them for every candidate that does not
  lie strictly inside a successor seam of the operands' bounds (`NoSeam`);
  `intersect_law_single` proves the intersection law in full for single-span operands;
* release candidates (at most three numbers in `[0,∞]`, no prerelease tag), both modes, bounds
  tidy: `union_law_release`, `intersect_law_release` — full;
* T7 `union_comm_perm`, `intersect_comm`, `intersect_perm_left` (membership of the result).
-/
namespace DepsDev.Props.C09

open Std DepsDev DepsDev.Semver DepsDev.Proofs DepsDev.Proofs.C09

variable {s : System}

/-! ## The order on points is the sign of `vcompare` (tie to C01) -/

theorem pt_lt_iff {a b : Version} (ha : VG s a) (hb : VG s b) :
    pt s a < pt s b ↔ ∃ c, vcompare a b = .ok c ∧ c < 0 := by
  rw [vcompare_eq ha hb, Pt.lt_def]
  constructor
  · intro h; exact ⟨_, rfl, by rw [h]; decide⟩
  · rintro ⟨c, hc, hlt⟩
    injection hc with hc
    subst hc
    exact (ordToInt_lt_zero_b _).mp hlt

theorem pt_le_iff {a b : Version} (ha : VG s a) (hb : VG s b) :
    pt s a ≤ pt s b ↔ ∃ c, vcompare a b = .ok c ∧ c ≤ 0 := by
  rw [vcompare_eq ha hb, Pt.le_def]
  constructor
  · intro h; exact ⟨_, rfl, ordToInt_le_zero.mpr h⟩
  · rintro ⟨c, hc, hle⟩
    injection hc with hc
    subst hc
    exact ordToInt_le_zero.mp hle

/-! ## T1 — `span.contains` under prerelease-inclusive matching -/

/-- A vector span contains `v` iff `min ≤ v ≤ max`, strictly at an open end, in terms of the
signs of `compare`; `contains` never fails. -/
theorem contains_vector_iff {sp : Span} {a b v : Version} (hsp : SpanOK s sp) (hr : sp.rank = .vector)
    (hmin : sp.min = some a) (hmax : sp.max = some b) (hv : VG s v) :
    ∃ x y r, vcompare a v = .ok x ∧ vcompare v b = .ok y ∧ sp.contains v true = .ok r ∧
      (r = true ↔ (if sp.minOpen then x < 0 else x ≤ 0) ∧ (if sp.maxOpen then y < 0 else y ≤ 0)) := by
  have hne : sp.rank ≠ .empty := by rw [hr]; decide
  obtain ⟨a', b', h1, h2, ha, hb, -⟩ := hsp.bounds hne
  rw [hmin] at h1; cases h1
  rw [hmax] at h2; cases h2
  refine ⟨_, _, _, vcompare_eq ha.1 hv, vcompare_eq hv hb.1, contains_incl hsp hv, ?_⟩
  rw [has_eq hne hmin hmax, decide_eq_true_eq]
  unfold inItv
  simp only [ordToInt_lt_zero_b, ordToInt_le_zero]
  rfl

/-- A unit span contains exactly the versions that compare equal to its point. -/
theorem contains_unit_iff {sp : Span} {m v : Version} (hsp : SpanOK s sp) (hr : sp.rank = .unit)
    (hmin : sp.min = some m) (hv : VG s v) :
    ∃ x r, vcompare m v = .ok x ∧ sp.contains v true = .ok r ∧ (r = true ↔ x = 0) := by
  have hne : sp.rank ≠ .empty := by rw [hr]; decide
  obtain ⟨a', b', h1, h2, ha, hb, -, hfl, hu, -⟩ := hsp.bounds hne
  rw [hmin] at h1; cases h1
  have := hu hr; subst this
  refine ⟨_, _, vcompare_eq ha.1 hv, contains_incl hsp hv, ?_⟩
  rw [has_eq hne hmin h2, decide_eq_true_eq, ordToInt_eq_zero, ord_eq_iff]
  rcases hfl with h | ⟨f1, f2⟩
  · exact absurd h (by grind)
  · unfold inItv; simp [f1, f2]

/-- An empty span contains nothing (any candidate, either mode). -/
theorem contains_empty {sp : Span} (h : sp.rank = .empty) (v : Version) (incl : Bool) :
    sp.contains v incl = .ok false := Proofs.C09.contains_empty h v incl

/-- Release mode differs from inclusive mode only for prerelease candidates. -/
theorem contains_release_eq (sp : Span) {v : Version} (h : v.isPrerelease = false) :
    sp.contains v false = sp.contains v true := contains_release sp h

/-! ## T2 — `newSpan` -/

/-- On clean bounds (`Clean`: no wildcard number, no build tag) `newSpan` keeps the bounds and
decides the rank by comparing them: equal and an end excluded → empty; equal → unit;
`min < max` → vector; `min > max` → error. -/
theorem newSpan_clean {a b : Version} (ha : VOK s a) (hb : VOK s b) (ao bo : Bool) :
    newSpan a ao b bo =
      if (pt s a ≤ pt s b ∧ pt s b ≤ pt s a) ∧ (ao = true ∨ bo = true) then .ok Span.emptySpan
      else if pt s a ≤ pt s b ∧ pt s b ≤ pt s a then
        .ok { rank := .unit, minOpen := ao, maxOpen := bo, min := some a, max := some a }
      else if pt s a < pt s b then
        .ok { rank := .vector, minOpen := ao, maxOpen := bo, min := some a, max := some b }
      else .err := newSpan_eq ha hb ao bo

/-- Whatever `newSpan` returns on two versions of a generic system is a well-formed span with
clean bounds: the invariant `SpanOK` is established by the constructor every span goes through. -/
theorem newSpan_establishes (hs : Sys4 s) {a b : Version} (ha : VG s a) (hb : VG s b) (ao bo : Bool)
    {sp : Span} (h : newSpan a ao b bo = .ok sp) : SpanOK s sp := by
  refine newSpan_spanOK ?_ ha hb ao bo h
  rcases hs with h | h | h | h <;> subst h <;> decide

/-! ## T3 — one `selem` against the spans of `t` in `Intersect` -/

/-- The inner loop of `Intersect` never fails, and the spans it appends denote
`selem ∩ ⋃ ts`: each computed span contains `v` iff both `selem` and `telem` do, and the
`continue`/`break` conditions only drop pairs with an empty intersection (`break` given that
`ts` is sorted by `min`). -/
theorem intersect_pair {selem : Span} (hs : SpanOK s selem) (hne : selem.rank ≠ .empty) (ts acc : List Span)
    (hts : ∀ t ∈ ts, SpanOK s t) (hsorted : MinSorted s ts) :
    ∃ add, VSet.intersect.tloop selem ts acc = .ok (acc ++ add) ∧ (∀ x ∈ add, SpanOK s x) ∧
      ∀ v, anyHas s add v = (has s selem v && anyHas s ts v) := by
  obtain ⟨add, e, h1, -, h2⟩ := tloop_spec (fun _ => True) hs hne ⟨fun _ _ => trivial, fun _ _ => trivial⟩ ts acc
    hts (fun _ _ => ⟨fun _ _ => trivial, fun _ _ => trivial⟩) hsorted
  exact ⟨add, e, fun x hx => (h1 x hx).1, h2⟩

/-! ## T5 — a set reported empty matches nothing -/

/-- Every system, every candidate, both modes. (`S.span ≠ []`: a `Set` without any span is not
produced by the parser or the operations; the model, like the Go code, lets it match every release.) -/
theorem empty_law (S : VSet) (hne : S.span ≠ []) (h : S.isEmpty = true) (v : Version) (incl : Bool) :
    S.matchVersion v incl = .ok false := by
  unfold VSet.matchVersion
  have : S.span.isEmpty = false := by
    cases h' : S.span with
    | nil => exact absurd h' hne
    | cons _ _ => rfl
  simp only [this, Bool.false_eq_true, ↓reduceIte]
  apply matchGo_empty
  intro x hx
  unfold VSet.isEmpty at h
  rw [List.all_eq_true] at h
  simpa using h x hx

/-! ## T6 / T4 — the laws under prerelease-inclusive matching -/

/-- `v` does not lie strictly between two release bounds `a < b ≤ inc(fill(a,0))` of the operands
(a *successor seam*, across which `canon` merges two closed ends). -/
def NoSeam (s : System) (A B : VSet) (v : Version) : Prop :=
  SeamFree s (· ∈ bounds (A.span ++ B.span)) v

/-- The union law at full strength (inclusive matching). -/
def UnionLawIncl (s : System) : Prop :=
  ∀ A B v, SetOK s A → SetOK s B → VG s v →
    ∃ U a b, A.union B = .ok U ∧ A.matchVersion v true = .ok a ∧ B.matchVersion v true = .ok b ∧
      U.matchVersion v true = .ok (a || b)

/-- The intersection law at full strength (inclusive matching; second operand sorted by `min`). -/
def IntersectLawIncl (s : System) : Prop :=
  ∀ A B v, SetOK s A → SetOK s B → MinSorted s B.span → VG s v →
    ∃ R a b, A.intersect B = .ok R ∧ A.matchVersion v true = .ok a ∧ B.matchVersion v true = .ok b ∧
      R.matchVersion v true = .ok (a && b)

theorem union_law_partial (hs : Sys4 s) {A B : VSet} (hA : SetOK s A) (hB : SetOK s B) {v : Version}
    (hv : VG s v) (hseam : NoSeam s A B v) :
    ∃ U a b, A.union B = .ok U ∧ A.matchVersion v true = .ok a ∧ B.matchVersion v true = .ok b ∧
      U.matchVersion v true = .ok (a || b) := by
  obtain ⟨U, e, hU, -, -, hlaw⟩ := union_core hs.ne.1 hA hB
  refine ⟨U, _, _, e, matchVersion_eq hs hA.nonempty hA.spans hv true (Or.inl rfl),
    matchVersion_eq hs hB.nonempty hB.spans hv true (Or.inl rfl), ?_⟩
  rw [matchVersion_eq hs hU.nonempty hU.spans hv true (Or.inl rfl), hlaw v hseam]

theorem intersect_law_partial (hs : Sys4 s) {A B : VSet} (hA : SetOK s A) (hB : SetOK s B)
    (hsorted : MinSorted s B.span) {v : Version} (hv : VG s v) (hseam : NoSeam s A B v) :
    ∃ R a b, A.intersect B = .ok R ∧ A.matchVersion v true = .ok a ∧ B.matchVersion v true = .ok b ∧
      R.matchVersion v true = .ok (a && b) := by
  obtain ⟨R, e, hR, -, -, hlaw⟩ := intersect_core hs.ne.1 hA hB hsorted
  refine ⟨R, _, _, e, matchVersion_eq hs hA.nonempty hA.spans hv true (Or.inl rfl),
    matchVersion_eq hs hB.nonempty hB.spans hv true (Or.inl rfl), ?_⟩
  rw [matchVersion_eq hs hR.nonempty hR.spans hv true (Or.inl rfl), hlaw v (Or.inr hseam)]

/-- For single-span operands (no `canon` merging) the inclusive intersection law holds for
every candidate. -/
theorem intersect_law_single (hs : Sys4 s) {A B : VSet} (hA : SetOK s A) (hB : SetOK s B)
    (h1 : A.span.length = 1) (h2 : B.span.length = 1) {v : Version} (hv : VG s v) :
    ∃ R a b, A.intersect B = .ok R ∧ A.matchVersion v true = .ok a ∧ B.matchVersion v true = .ok b ∧
      R.matchVersion v true = .ok (a && b) := by
  obtain ⟨R, e, hR, -, -, hlaw⟩ := intersect_core hs.ne.1 hA hB (minSorted_of_length_le_one _ (by omega))
  refine ⟨R, _, _, e, matchVersion_eq hs hA.nonempty hA.spans hv true (Or.inl rfl),
    matchVersion_eq hs hB.nonempty hB.spans hv true (Or.inl rfl), ?_⟩
  rw [matchVersion_eq hs hR.nonempty hR.spans hv true (Or.inl rfl), hlaw v (Or.inl (by rw [h1, h2]; decide))]

/-- `Union` and `Intersect` keep sets in the domain, return them sorted by `min`, and introduce no
new bound. -/
theorem union_closed (hs : Sys4 s) {A B : VSet} (hA : SetOK s A) (hB : SetOK s B) :
    ∃ U, A.union B = .ok U ∧ SetOK s U ∧ MinSorted s U.span ∧
      ∀ x ∈ bounds U.span, x ∈ bounds (A.span ++ B.span) := by
  obtain ⟨U, e, h1, h2, h3, -⟩ := union_core hs.ne.1 hA hB
  exact ⟨U, e, h1, h2, h3⟩

theorem intersect_closed (hs : Sys4 s) {A B : VSet} (hA : SetOK s A) (hB : SetOK s B)
    (hsorted : MinSorted s B.span) :
    ∃ R, A.intersect B = .ok R ∧ SetOK s R ∧ MinSorted s R.span ∧
      ∀ x ∈ bounds R.span, x ∈ bounds (A.span ++ B.span) := by
  obtain ⟨R, e, h1, h2, h3, -⟩ := intersect_core hs.ne.1 hA hB hsorted
  exact ⟨R, e, h1, h2, h3⟩

/-! ## Refutation of the full inclusive laws: finding F-C09-succ -/

def rel (n : List Int) : Version := { sys := .npm, userNumCount := 3, num := n }
def wInf : Version := rel [infinity, infinity, infinity]
/-- `>=1.0.0` = `{[1.0.0:∞.∞.∞]}` -/
def wA : VSet := { sys := .npm, span := [{ rank := .vector, min := some (rel [1, 0, 0]), max := some wInf }] }
/-- `<=2.1.0 || >=2.1.1` = `{[0.0.0-0:2.1.0],[2.1.1:∞.∞.∞]}` (kept apart by `canon` because of the prerelease tag of the least version) -/
def wB : VSet := { sys := .npm, span := [
  { rank := .vector, min := some { sys := .npm, userNumCount := 3, num := [0, 0, 0], pre := [[48]] },
    max := some (rel [2, 1, 0]) },
  { rank := .vector, min := some (rel [2, 1, 1]), max := some wInf }] }
/-- `>=1.0.0 <=2.1.0` = `{[1.0.0:2.1.0]}` -/
def wC : VSet := { sys := .npm, span := [{ rank := .vector, min := some (rel [1, 0, 0]), max := some (rel [2, 1, 0]) }] }
/-- `>=2.1.1` = `{[2.1.1:∞.∞.∞]}` -/
def wD : VSet := { sys := .npm, span := [{ rank := .vector, min := some (rel [2, 1, 1]), max := some wInf }] }
/-- `2.1.1-a` -/
def wV : Version := { sys := .npm, userNumCount := 3, isPrerelease := true, num := [2, 1, 1], pre := [[97]] }

/-- The witnesses are what the model's `ParseConstraint` / `Parse` return on the constraint texts
of the finding (`C09 setop inter NPM ">=1.0.0" "<=2.1.0 || >=2.1.1" "2.1.1-a"`). -/
example : (parseConstraint .npm ">=1.0.0".toUTF8.toList >>= fun c => Outcome.ok c.set) = .ok wA ∧
    (parseConstraint .npm "<=2.1.0 || >=2.1.1".toUTF8.toList >>= fun c => Outcome.ok c.set) = .ok wB ∧
    (parseConstraint .npm ">=1.0.0 <=2.1.0".toUTF8.toList >>= fun c => Outcome.ok c.set) = .ok wC ∧
    (parseConstraint .npm ">=2.1.1".toUTF8.toList >>= fun c => Outcome.ok c.set) = .ok wD ∧
    parse .npm "2.1.1-a".toUTF8.toList = .ok wV := by
  refine ⟨?_, ?_, ?_, ?_, ?_⟩ <;> decide +kernel

theorem wA_ok : SetOK .npm wA := setOK_of_b (by decide +kernel)
theorem wB_ok : SetOK .npm wB := setOK_of_b (by decide +kernel)
theorem wC_ok : SetOK .npm wC := setOK_of_b (by decide +kernel)
theorem wD_ok : SetOK .npm wD := setOK_of_b (by decide +kernel)
theorem wB_sorted : MinSorted .npm wB.span := minSorted_of_b (by decide +kernel)

/-- `[1.0.0,∞] ∩ {[0.0.0-0,2.1.0],[2.1.1,∞]}` is computed as `[1.0.0,∞]`, which contains `2.1.1-a`
under inclusive matching although the second operand does not. -/
theorem intersectLawIncl_refuted : ¬ IntersectLawIncl .npm := by
  intro h
  obtain ⟨R, a, b, e, ea, eb, er⟩ := h wA wB wV wA_ok wB_ok wB_sorted ⟨rfl, rfl⟩
  have e' : wA.intersect wB = .ok wA := by decide +kernel
  have ea' : wA.matchVersion wV true = .ok true := by decide +kernel
  have eb' : wB.matchVersion wV true = .ok false := by decide +kernel
  rw [e'] at e; cases e
  rw [ea'] at ea er; cases ea
  rw [eb'] at eb; cases eb
  cases er

/-- `[1.0.0,2.1.0] ∪ [2.1.1,∞]` is computed as `[1.0.0,∞]`, which contains `2.1.1-a` under inclusive
matching although neither operand does. -/
theorem unionLawIncl_refuted : ¬ UnionLawIncl .npm := by
  intro h
  obtain ⟨U, a, b, e, ea, eb, eu⟩ := h wC wD wV wC_ok wD_ok ⟨rfl, rfl⟩
  have e' : wC.union wD = .ok wA := by decide +kernel
  have ea' : wC.matchVersion wV true = .ok false := by decide +kernel
  have eb' : wD.matchVersion wV true = .ok false := by decide +kernel
  have eu' : wA.matchVersion wV true = .ok true := by decide +kernel
  rw [e'] at e; cases e
  rw [ea'] at ea; cases ea
  rw [eb'] at eb; cases eb
  rw [eu'] at eu; cases eu

/-- The witness is exactly what `NoSeam` excludes: `2.1.1-a` lies inside the seam `(2.1.0, 2.1.1)`. -/
theorem witness_in_seam : ¬ NoSeam .npm wA wB wV := by
  have g : ∀ v : Version, v.sys = .npm → v.ext = .none → VG .npm v := fun _ h1 h2 => ⟨h1, h2⟩
  have l1 : pt .npm (rel [2, 1, 0]) < pt .npm (rel [2, 1, 1]) :=
    (ltB_iff (g _ rfl rfl) (g _ rfl rfl)).mp (by decide +kernel)
  have l2 : ¬ pt .npm (rel [2, 1, 1]) < pt .npm (rel [2, 1, 1]) := fun h =>
    absurd ((ltB_iff (g _ rfl rfl) (g _ rfl rfl)).mpr h) (by decide +kernel)
  have l3 : pt .npm (rel [2, 1, 0]) < pt .npm wV :=
    (ltB_iff (g _ rfl rfl) (g _ rfl rfl)).mp (by decide +kernel)
  have l4 : pt .npm wV < pt .npm (rel [2, 1, 1]) :=
    (ltB_iff (g _ rfl rfl) (g _ rfl rfl)).mp (by decide +kernel)
  intro h
  exact h (rel [2, 1, 0]) (rel [2, 1, 1]) (by decide +kernel) (by decide +kernel)
    ⟨rfl, rfl, l1, rel [2, 1, 1], by decide +kernel, l2⟩ ⟨l3, l4⟩

/-! ## Release candidates: both laws in full, in both matching modes -/

/-- Release candidates never lie in a successor seam (bounds tidy: at most three numbers in
`[0,∞]`, an `∞` minor followed by an `∞` patch — the shape `setTail` leaves). -/
theorem noSeam_of_release {A B : VSet}
    (htidy : ∀ x ∈ bounds (A.span ++ B.span), x.pre = [] → Tidy x) {v : Version} (hb : Bounded v)
    (hpre : v.pre = []) : NoSeam s A B v :=
  release_seamFree htidy hb hpre

/-- For a release candidate the two matching modes agree. -/
theorem matchVersion_release (hs : Sys4 s) {S : VSet} (hS : SetOK s S) {v : Version} (hv : VG s v)
    (hrel : v.isPrerelease = false) : S.matchVersion v false = S.matchVersion v true := by
  rw [matchVersion_eq hs hS.nonempty hS.spans hv false (Or.inr hrel),
    matchVersion_eq hs hS.nonempty hS.spans hv true (Or.inl rfl)]

theorem union_law_release (hs : Sys4 s) {A B : VSet} (hA : SetOK s A) (hB : SetOK s B)
    (htidy : ∀ x ∈ bounds (A.span ++ B.span), x.pre = [] → Tidy x) {v : Version} (hv : VG s v)
    (hrel : v.isPrerelease = false) (hpre : v.pre = []) (hb : Bounded v) (incl : Bool) :
    ∃ U a b, A.union B = .ok U ∧ A.matchVersion v incl = .ok a ∧ B.matchVersion v incl = .ok b ∧
      U.matchVersion v incl = .ok (a || b) := by
  obtain ⟨U, e, hU, -, -, hlaw⟩ := union_core hs.ne.1 hA hB
  have hi : incl = true ∨ v.isPrerelease = false := Or.inr hrel
  refine ⟨U, _, _, e, matchVersion_eq hs hA.nonempty hA.spans hv incl hi,
    matchVersion_eq hs hB.nonempty hB.spans hv incl hi, ?_⟩
  rw [matchVersion_eq hs hU.nonempty hU.spans hv incl hi, hlaw v (noSeam_of_release htidy hb hpre)]

theorem intersect_law_release (hs : Sys4 s) {A B : VSet} (hA : SetOK s A) (hB : SetOK s B)
    (hsorted : MinSorted s B.span)
    (htidy : ∀ x ∈ bounds (A.span ++ B.span), x.pre = [] → Tidy x) {v : Version} (hv : VG s v)
    (hrel : v.isPrerelease = false) (hpre : v.pre = []) (hb : Bounded v) (incl : Bool) :
    ∃ R a b, A.intersect B = .ok R ∧ A.matchVersion v incl = .ok a ∧ B.matchVersion v incl = .ok b ∧
      R.matchVersion v incl = .ok (a && b) := by
  obtain ⟨R, e, hR, -, -, hlaw⟩ := intersect_core hs.ne.1 hA hB hsorted
  have hi : incl = true ∨ v.isPrerelease = false := Or.inr hrel
  refine ⟨R, _, _, e, matchVersion_eq hs hA.nonempty hA.spans hv incl hi,
    matchVersion_eq hs hB.nonempty hB.spans hv incl hi, ?_⟩
  rw [matchVersion_eq hs hR.nonempty hR.spans hv incl hi,
    hlaw v (Or.inr (noSeam_of_release htidy hb hpre))]

/-! ## T7 — operand order and span order do not change what the result matches -/

/-- Union: any rearrangement of the spans of the two operands (in particular swapping the
operands, or permuting the spans inside one) yields a result matching the same candidates. -/
theorem union_comm_perm (hs : Sys4 s) {A B A' B' : VSet} (hA : SetOK s A) (hB : SetOK s B)
    (hA' : SetOK s A') (hB' : SetOK s B')
    (hperm : ∀ x, x ∈ A'.span ++ B'.span ↔ x ∈ A.span ++ B.span) {v : Version} (hv : VG s v)
    (hseam : NoSeam s A B v) :
    ∃ U U', A.union B = .ok U ∧ A'.union B' = .ok U' ∧ U'.matchVersion v true = U.matchVersion v true := by
  obtain ⟨U, e, hU, -, -, hlaw⟩ := union_core hs.ne.1 hA hB
  obtain ⟨U', e', hU', -, -, hlaw'⟩ := union_core hs.ne.1 hA' hB'
  refine ⟨U, U', e, e', ?_⟩
  have hseam' : SeamFree s (· ∈ bounds (A'.span ++ B'.span)) v :=
    SeamFree.mono (fun x hx => (bounds_mem_congr hperm x).mp hx) hseam
  rw [matchVersion_eq hs hU.nonempty hU.spans hv true (Or.inl rfl),
    matchVersion_eq hs hU'.nonempty hU'.spans hv true (Or.inl rfl), hlaw v hseam, hlaw' v hseam',
    ← anyHas_append, ← anyHas_append, anyHas_congr hperm]

theorem union_comm (hs : Sys4 s) {A B : VSet} (hA : SetOK s A) (hB : SetOK s B) {v : Version} (hv : VG s v)
    (hseam : NoSeam s A B v) :
    ∃ U U', A.union B = .ok U ∧ B.union A = .ok U' ∧ U'.matchVersion v true = U.matchVersion v true :=
  union_comm_perm hs hA hB hB hA (fun x => by simp only [List.mem_append]; exact Or.comm) hv hseam

/-- Intersection commutes in what it matches (both operands sorted by `min`). -/
theorem intersect_comm (hs : Sys4 s) {A B : VSet} (hA : SetOK s A) (hB : SetOK s B)
    (hsA : MinSorted s A.span) (hsB : MinSorted s B.span) {v : Version} (hv : VG s v)
    (hseam : NoSeam s A B v) :
    ∃ R R', A.intersect B = .ok R ∧ B.intersect A = .ok R' ∧ R'.matchVersion v true = R.matchVersion v true := by
  obtain ⟨R, e, hR, -, -, hlaw⟩ := intersect_core hs.ne.1 hA hB hsB
  obtain ⟨R', e', hR', -, -, hlaw'⟩ := intersect_core hs.ne.1 hB hA hsA
  refine ⟨R, R', e, e', ?_⟩
  have hseam' : SeamFree s (· ∈ bounds (B.span ++ A.span)) v :=
    SeamFree.mono (fun x hx => (bounds_mem_congr (fun y => by simp only [List.mem_append]; exact Or.comm) x).mp hx) hseam
  rw [matchVersion_eq hs hR.nonempty hR.spans hv true (Or.inl rfl),
    matchVersion_eq hs hR'.nonempty hR'.spans hv true (Or.inl rfl), hlaw v (Or.inr hseam),
    hlaw' v (Or.inr hseam'), Bool.and_comm]

/-- Permuting the spans of the first operand of `Intersect` does not change what the result matches. -/
theorem intersect_perm_left (hs : Sys4 s) {A A' B : VSet} (hA : SetOK s A) (hA' : SetOK s A') (hB : SetOK s B)
    (hsB : MinSorted s B.span) (hperm : ∀ x, x ∈ A'.span ↔ x ∈ A.span) {v : Version} (hv : VG s v)
    (hseam : NoSeam s A B v) :
    ∃ R R', A.intersect B = .ok R ∧ A'.intersect B = .ok R' ∧ R'.matchVersion v true = R.matchVersion v true := by
  obtain ⟨R, e, hR, -, -, hlaw⟩ := intersect_core hs.ne.1 hA hB hsB
  obtain ⟨R', e', hR', -, -, hlaw'⟩ := intersect_core hs.ne.1 hA' hB hsB
  refine ⟨R, R', e, e', ?_⟩
  have hperm' : ∀ x, x ∈ A'.span ++ B.span ↔ x ∈ A.span ++ B.span := fun x => by
    simp only [List.mem_append, hperm x]
  have hseam' : SeamFree s (· ∈ bounds (A'.span ++ B.span)) v :=
    SeamFree.mono (fun x hx => (bounds_mem_congr hperm' x).mp hx) hseam
  rw [matchVersion_eq hs hR.nonempty hR.spans hv true (Or.inl rfl),
    matchVersion_eq hs hR'.nonempty hR'.spans hv true (Or.inl rfl), hlaw v (Or.inr hseam),
    hlaw' v (Or.inr hseam'), anyHas_congr hperm]

/-! ## The hypotheses are satisfiable by non-trivial instances -/

/-- `3.0.0-a` -/
def wP : Version := { sys := .npm, userNumCount := 3, isPrerelease := true, num := [3, 0, 0], pre := [[97]] }
/-- `2.1.1` -/
def wR : Version := rel [2, 1, 1]
/-- `{[2.1.1:∞.∞.∞],[0.0.0-0:2.1.0]}`: `wB` with its spans swapped -/
def wB' : VSet := { sys := .npm, span := wB.span.reverse }

/-- `union_law_partial`, `union_comm`: a prerelease candidate, operands whose abutting closed ends
`canon` does merge (`[1.0.0,2.1.0] ∪ [2.1.1,∞] = [1.0.0,∞]`), candidate outside the seam. -/
example : Sys4 .npm ∧ SetOK .npm wC ∧ SetOK .npm wD ∧ VG .npm wP ∧ NoSeam .npm wC wD wP ∧
    wC.union wD = .ok wA ∧ wA.matchVersion wP true = .ok true ∧ wC.matchVersion wP true = .ok false :=
  ⟨Or.inr (Or.inl rfl), wC_ok, wD_ok, ⟨rfl, rfl⟩, seamFree_of_noSeamB (by decide +kernel),
    by decide +kernel, by decide +kernel, by decide +kernel⟩

/-- `intersect_law_partial`, `intersect_comm`, `intersect_perm_left`, `union_comm_perm`: multi-span sorted
operand, prerelease candidate outside the seam. -/
example : SetOK .npm wA ∧ SetOK .npm wB ∧ SetOK .npm wB' ∧ MinSorted .npm wA.span ∧ MinSorted .npm wB.span ∧
    (∀ x, x ∈ wB'.span ↔ x ∈ wB.span) ∧ VG .npm wP ∧ NoSeam .npm wA wB wP ∧ NoSeam .npm wB wA wP :=
  ⟨wA_ok, wB_ok, setOK_of_b (by decide +kernel), minSorted_of_b (by decide +kernel), wB_sorted,
    fun x => by simp [wB'], ⟨rfl, rfl⟩, seamFree_of_noSeamB (by decide +kernel),
    seamFree_of_noSeamB (by decide +kernel)⟩

/-- `intersect_law_single`: `[1.0.0,∞] ∩ [1.0.0,2.1.0]`, candidate `2.1.1-a`. -/
example : SetOK .npm wA ∧ SetOK .npm wC ∧ wA.span.length = 1 ∧ wC.span.length = 1 ∧ VG .npm wV :=
  ⟨wA_ok, wC_ok, rfl, rfl, ⟨rfl, rfl⟩⟩

/-- `union_law_release`, `intersect_law_release`, `noSeam_of_release`, `matchVersion_release`: the release
candidate `2.1.1` with the operands of the refutation (all release bounds tidy, `∞.∞.∞` included). -/
example : (∀ x ∈ bounds (wA.span ++ wB.span), x.pre = [] → Tidy x) ∧ VG .npm wR ∧ wR.isPrerelease = false ∧
    wR.pre = [] ∧ Bounded wR :=
  ⟨by decide +kernel, ⟨rfl, rfl⟩, rfl, rfl, by decide +kernel⟩

/-- `contains_vector_iff`, `contains_unit_iff`, `newSpan_clean`, `intersect_pair`: spans of the witnesses. -/
example : SpanOK .npm { rank := .vector, min := some (rel [1, 0, 0]), max := some wInf } ∧
    SpanOK .npm { rank := .unit, min := some wR, max := some wR } ∧ VOK .npm (rel [1, 0, 0]) ∧ VOK .npm wInf :=
  ⟨spanOK_of_b (by decide +kernel), spanOK_of_b (by decide +kernel), by decide +kernel, by decide +kernel⟩

/-- `empty_law`: the set `{<empty>}`. -/
example : ({ sys := .npm, span := [Span.emptySpan] } : VSet).span ≠ [] ∧
    ({ sys := .npm, span := [Span.emptySpan] } : VSet).isEmpty = true := ⟨by decide, by decide⟩

end DepsDev.Props.C09
