import DepsDev.Gen.C05ClientSliceWrites
import DepsDev.Gen.C05ResolverShared
import DepsDev.Gen.C05LruCaps
import DepsDev.Gen.C05LruTraces
import DepsDev.Proofs.C05Sort
import DepsDev.Proofs.C05Lru
import DepsDev.Proofs.C05Sched
import DepsDev.Proofs.C05Client

/-!
# C05 - resolution is a pure function of the package universe and the root

"Same canonical graph no matter how often asked, what was resolved earlier on the same
client / resolver, in what order versions were inserted into the client, or how many
resolutions run concurrently; resolving never changes what the client subsequently reports."

The three resolvers' own models are C06-C08's; this file is generic + targeted:

* **ties** (regenerated from /repo on every run): no client-owned slice reaches an in-place
  write (`no_client_slice_writes`); the resolver objects carry exactly the expected state
  (`resolver_shared_expected`); the LRU capacities are positive (`lru_caps_positive`); the LRU
  model reproduces recorded runs of the real code (`lru_model_agrees_with_recorded_runs`).
* **(a)+(d)** `interleave_readonly`, `interleave_result`: a step function that cannot write the
  shared state gives every thread its solo result under every schedule, any number of threads.
  `writes_break_schedule_independence` shows the type restriction is what carries it.
* **(b)** `memo_correct`, `history_independent`, `pypi_caches_invisible`,
  `shared_cache_schedule_independent`: the caches never change a result.
* **(c)** `insertion_order_independent`: the LocalClient reports the same for every order of
  the same `AddVersion` calls, given a version sort with a unique result
  (`sort_result_unique`); `order_dependence_without_tiebreak` shows the hypothesis is needed
  (this was defect F5).
-/

namespace DepsDev.Props.C05

open DepsDev.Resolve DepsDev.Resolve.Purity

/-! ## Ties to the code (regenerated translator facts) -/

/-- No value obtained from `Client.Versions/Requirements/MatchingVersions` (or from the
LocalClient's maps) reaches a sort, reverse, filter-in-place, index assignment or
`append(x[:i], …)` in util/resolve or the three resolver packages without a copy in between. -/
theorem no_client_slice_writes : Gen.C05ClientSliceWrites.sites = [] := by decide

/-- The pass did see the client reads it is about. -/
theorem taint_pass_nonvacuous :
    Gen.C05ClientSliceWrites.sources ≠ [] ∧ 50 ≤ Gen.C05ClientSliceWrites.functionsAnalysed := by decide

/-- What a resolver object can carry from one `Resolve` call to the next. The translator classifies
every field of the three `resolver` structs: the `resolve.Client`; fields of an immutable scalar
type (bool, numbers, string, named types / arrays / structs over those without pointer-receiver
methods) - harmless once (1) holds, and NOT part of this fact; LRU caches; anything else that can
hold mutable shared state (pointer, map, slice, chan, func, other interfaces, sync/atomic types,
structs containing such). The fact: (2) the only fields that are neither client nor immutable
scalars are three LRU caches of the PyPI resolver; (1) no resolver field is assigned, incremented,
written through or has its address taken outside the constructor; (3) no function of util/resolve
or of the three resolver packages writes a package-level variable. Field and type names are not
pinned. -/
theorem resolver_shared_expected :
    Gen.C05ResolverShared.statefulFields.map (fun f => (f.1, f.2.2.2)) =
      [("pypi", "lru-cache"), ("pypi", "lru-cache"), ("pypi", "lru-cache")] ∧
    Gen.C05ResolverShared.fieldWrites = [] ∧
    Gen.C05ResolverShared.pkgVarWrites = [] := by decide

/-- The functions that put something into an LRU cache read, of the resolver's own state, only
fields whose type is `resolve.Client` or an LRU cache: what they store is a function of the cache key
and the universe, not of the root or of anything else a single `Resolve` call carries (the premise
of `Lru.Memo`: `store` depends on the key alone). Function and field names are not pinned. State
reached through methods they call is not followed. -/
theorem cache_fillers_read_only_client_and_caches :
    Gen.C05ResolverShared.cacheFillerOtherReads = [] ∧ Gen.C05ResolverShared.cacheFillerReads ≠ [] := by
  decide

/-- The three caches are created with a positive capacity (so `Add` never dereferences a nil tail). -/
theorem lru_caps_positive : ∀ c ∈ Gen.C05LruCaps.caps, 0 < c.2 := by decide

/-- The capacities extracted are those of exactly the cache fields of the PyPI resolver: the
fields that receive a freshly created cache are, as a set, the stateful fields, and no field
receives two. The order in which the constructor fills them, or the struct declares them, is
immaterial (the fields are independent caches), so this is a permutation, not list equality. -/
theorem lru_caps_cover_cache_fields :
    (Gen.C05LruCaps.caps.map (·.1)).isPerm (Gen.C05ResolverShared.statefulFields.map (·.2.1)) = true ∧
    (Gen.C05LruCaps.caps.map (·.1)).Nodup := by decide

/-- The LRU model returns, step by step, the `Get` results and recency lists that the real
`pypi/internal/lru` code produced on the recorded runs (evictions included). -/
theorem lru_model_agrees_with_recorded_runs :
    Gen.C05LruTraces.traces.all (fun t => Lru.replay (Lru.new t.1) t.2) = true := by decide +kernel

/-- The recorded runs do exercise eviction: some run issues more distinct keys than its capacity. -/
theorem lru_recorded_runs_nonvacuous :
    60 ≤ Gen.C05LruTraces.traces.length ∧
    Gen.C05LruTraces.traces.any (fun t => t.2.any (fun s => s.2.2.2.2.length == t.1 && s.1)) = true := by
  decide +kernel

/-! ## (a) + (d): schedules over a read-only shared state -/

/-- Full statement (d): for ANY step function that cannot write the shared state, any number of
threads, ANY schedule and every thread: its state after the schedule is its solo state after as
many steps as it was given. -/
def C05_interleave : Prop :=
  ∀ (Shared Local Result : Type) (step : Shared → Local → Local × Option Result) (σ : Shared)
    (s : List Nat) (ts : List (Thread Local Result)) (i : Nat),
    (runSchedule step σ ts s)[i]? = (ts[i]?).map fun t => solo step σ t (s.count i)

theorem interleave_readonly : C05_interleave :=
  fun _ _ _ step σ s ts i => Purity.interleave_readonly step σ s ts i

/-- Each thread's final result equals that of its solo run, whatever the others do. -/
theorem interleave_result {Shared Local Result : Type} (step : Shared → Local → Local × Option Result) (σ : Shared)
    (ts : List (Thread Local Result)) (s : List Nat) (i : Nat) (t : Thread Local Result) (hi : ts[i]? = some t)
    {n : Nat} {r : Result} (hsolo : (solo step σ t n).result = some r) (hturns : n ≤ s.count i) :
    ((runSchedule step σ ts s)[i]?).bind (·.result) = some r :=
  Purity.interleave_result step σ ts s i t hi hsolo hturns

/-- Non-vacuity: three countdown threads over a shared increment, two different schedules. -/
example :
    let step : Nat → Nat × Nat → (Nat × Nat) × Option Nat :=
      fun σ l => if l.1 = 0 then (l, some l.2) else ((l.1 - 1, l.2 + σ), none)
    let ts : List (Thread (Nat × Nat) Nat) := [⟨(2, 0), none⟩, ⟨(1, 5), none⟩, ⟨(3, 1), none⟩]
    ((runSchedule step 7 ts [0, 1, 2, 0, 1, 2, 0, 2, 2, 1]).map (·.result) = [some 14, some 12, some 22]) ∧
    ((runSchedule step 7 ts [2, 2, 2, 2, 1, 1, 0, 0, 0, 5]).map (·.result) = [some 14, some 12, some 22]) := by
  decide

/-- **Why the type matters** (the shape of defects F3/F4 before their repair): if a step may
write the shared state - here: reverse a shared list in place, as Maven's `findMatch` did with
the client's version list - the result of a thread depends on the schedule. -/
theorem writes_break_schedule_independence :
    ∃ (step : List Nat → Unit → List Nat × Unit × Option Nat) (σ : List Nat) (ts : List (Thread Unit Nat)),
      ((runScheduleW step σ ts [0, 1]).2.map (·.result)) ≠ ((runScheduleW step σ ts [1, 0]).2.map (·.result)) :=
  ⟨fun σ _ => (σ.reverse, (), σ.head?), [1, 2, 3], [⟨(), none⟩, ⟨(), none⟩], by decide⟩

/-! ## (b): history independence of the caches -/

/-- Full statement (b), call lists: for any memoised function, any capacity > 0, any cache
state in which every entry is what the function stores (in particular every state reachable
from the empty cache), and any list of keys: the values returned are the uncached ones. -/
def C05_memo : Prop :=
  ∀ (K V ρ : Type) [DecidableEq K] (m : Lru.Memo K V ρ) (ks : List K) (c : Lru.Cache K V),
    Lru.Inv m c → 0 < c.maxSize → (Lru.runCalls m c ks).map (·.1) = some (ks.map m.result)

theorem memo_correct : C05_memo := by
  intro K V ρ _ m ks c h hpos
  obtain ⟨c', h', _, _⟩ := Lru.memo_correct m ks h hpos
  simp [h']

/-- Every cache state reachable from the empty cache by memoised calls, bare `Get`s and
arbitrary evictions satisfies the invariant; a client run from it returns what it returns from
the empty cache, namely its cache-free result. -/
theorem history_independent {K V ρ R : Type} [DecidableEq K] (m : Lru.Memo K V ρ) {n : Nat} (hn : 0 < n)
    {c : Lru.Cache K V} (h : Lru.Reachable m n c) (p : Lru.Prog K ρ R) :
    (p.run m c).map (·.1) = (p.run m (Lru.new n)).map (·.1) := by
  have := Lru.history_independent m hn h p
  rw [this.1, this.2]

/-- Full statement (b) for the PyPI resolver's three caches, including the computation of a
`prereleaseMatchCache` entry consulting `constraintCache`. -/
def C05_pypi_caches : Prop :=
  ∀ (KM VM RM KC VC RC KP VP RP R : Type) [DecidableEq KM] [DecidableEq KC] [DecidableEq KP]
    (M : Lru.Memo3 KM VM RM KC VC RC KP VP RP) (_ : Lru.LawP M)
    (p : Lru.Prog3 KM RM KC RC KP RP R) (s : Lru.Caches KM VM KC VC KP VP),
    Lru.Inv3 M s → (p.run M s).map (·.1) = some (p.pure M)

theorem pypi_caches_invisible : C05_pypi_caches := by
  intro KM VM RM KC VC RC KP VP RP R _ _ _ M law p s h
  obtain ⟨s', h', _⟩ := Lru.run3_eq_pure M law p h
  simp [h']

/-- Fresh caches of any positive capacities (those of `pypi.NewResolver` are positive:
`lru_caps_positive`) satisfy the invariant, and so does the state after any resolution:
resolutions on one resolver compose. -/
theorem pypi_fresh_caches_ok {KM VM RM KC VC RC KP VP RP : Type} [DecidableEq KM] [DecidableEq KC] [DecidableEq KP]
    (M : Lru.Memo3 KM VM RM KC VC RC KP VP RP) (nm nc np : Nat) (hm : 0 < nm) (hc : 0 < nc) (hp : 0 < np) :
    Lru.Inv3 M ⟨Lru.new nm, Lru.new nc, Lru.new np⟩ :=
  ⟨Lru.inv_new _ _, Lru.inv_new _ _, fun _ _ h => by simp [Lru.new] at h, hm, hc, hp⟩

theorem pypi_resolutions_compose {KM VM RM KC VC RC KP VP RP R : Type} [DecidableEq KM] [DecidableEq KC] [DecidableEq KP]
    (M : Lru.Memo3 KM VM RM KC VC RC KP VP RP) (law : Lru.LawP M) (p : Lru.Prog3 KM RM KC RC KP RP R)
    {s : Lru.Caches KM VM KC VC KP VP} (h : Lru.Inv3 M s) :
    ∃ s', p.run M s = some (p.pure M, s') ∧ Lru.Inv3 M s' :=
  Lru.run3_eq_pure M law p h

/-- (b)+(d) for a cache that IS shared mutable state: threads that each perform one memoised
call per atomic step on one shared cache. Whatever the schedule, a thread that has finished
has finished with its solo, cache-free result. -/
theorem shared_cache_schedule_independent {K V ρ R : Type} [DecidableEq K] (m : Lru.Memo K V ρ) (s : List Nat)
    {c : Lru.Cache K V} (ps : List (Lru.Prog K ρ R)) (h : Lru.Inv m c) (hpos : 0 < c.maxSize)
    {c' : Lru.Cache K V} {ps' : List (Lru.Prog K ρ R)} (hr : Lru.runSched m c ps s = some (c', ps'))
    (i : Nat) (r : R) (hd : ps'[i]? = some (.done r)) : (ps[i]?).map (Lru.Prog.pure m) = some r :=
  Lru.sched_results_pure m s ps h hpos hr i r hd

/-- The cache stays a bounded map with distinct keys. -/
theorem lru_wellformed {K V : Type} [DecidableEq K] {c : Lru.Cache K V} (h : Lru.WF c) (k : K) (v : V) :
    Lru.WF (Lru.get c k).2 ∧ ∀ c', Lru.add c k v = some c' → Lru.WF c' :=
  ⟨Lru.get_wf h k, fun _ ha => Lru.add_wf h ha⟩

/-- Non-vacuity: a capacity-2 cache over a function that refuses odd keys; five calls over
three distinct cacheable keys force evictions, a hit and a re-computation; the answers are
the uncached ones and the cache ends full. -/
example :
    let m : Lru.Memo Nat Nat (Option Nat) :=
      { result := fun k => if k % 2 = 0 then some (k * k) else none
        store := fun k => if k % 2 = 0 then some (k * k) else none
        ofHit := some
        law := fun _ _ h => h }
    (Lru.runCalls m (Lru.new 2) [2, 4, 3, 2, 6, 4]).map (fun r => (r.1, r.2.entries)) =
      some ([some 4, some 16, none, some 4, some 36, some 16], [(4, 16), (6, 36)]) := by
  decide

/-! ## (c): insertion order -/

/-- Uniqueness of the sorted permutation (the lemma behind (c); C12/C14 have their own copies). -/
theorem sort_result_unique {α : Type} (lt : α → α → Bool) (l₁ l₂ : List α)
    (htot : TotalOn lt l₁) (p : l₁.Perm l₂) (s₁ : Sorted lt l₁) (s₂ : Sorted lt l₂) : l₁ = l₂ :=
  sorted_perm_unique lt l₁ l₂ htot p s₁ s₂

/-- Full statement (c): for every version sort with a canonical result on lists of distinct
version strings, every dependency sort that permutes, every `Deleted` test, and every two
orders of the same `AddVersion` calls with pairwise distinct (package, version) pairs (U1):
`Versions`, `Requirements`, `Version` and `MatchingVersions` answer the same. -/
def C05_insertion_order : Prop :=
  ∀ (P K A D : Type) [DecidableEq P] [DecidableEq K] (deleted : A → Bool)
    (sortV : List (Ver K A) → List (Ver K A)) (sortD : List (P × D) → List (P × D)),
    SortCanon sortV → (∀ l, (sortD l).Perm l) →
    ∀ (adds adds' : List (Add P K A D)), adds.Perm adds' → (adds.map keyOf).Nodup →
      (∀ pk, (build deleted sortV sortD adds').Versions pk = (build deleted sortV sortD adds).Versions pk) ∧
      (∀ vk, (build deleted sortV sortD adds').Requirements vk = (build deleted sortV sortD adds).Requirements vk) ∧
      (∀ vk, (build deleted sortV sortD adds').Version vk = (build deleted sortV sortD adds).Version vk) ∧
      (∀ (Req : Type) (matchReq : Req → List (Ver K A) → List (Ver K A)) pk req,
        (build deleted sortV sortD adds').MatchingVersions matchReq pk req =
          (build deleted sortV sortD adds).MatchingVersions matchReq pk req)

theorem insertion_order_independent : C05_insertion_order := by
  intro P K A D _ _ deleted sortV sortD hV hD adds adds' p hk
  have hk' : (adds'.map keyOf).Nodup := (p.map keyOf).nodup_iff.mp hk
  have hv : ∀ pk, (build deleted sortV sortD adds').Versions pk = (build deleted sortV sortD adds).Versions pk := by
    intro pk
    rw [versions_eq deleted hV hD adds' hk', versions_eq deleted hV hD adds hk,
      versionsSpec_perm deleted hV p hk]
  refine ⟨hv, ?_, ?_, ?_⟩
  · intro vk
    rw [requirements_eq, requirements_eq, importsSpec_perm deleted sortD p hk]
  · intro vk
    have := hv vk.1
    simp only [Store.Versions] at this
    simp only [Store.Version, this]
  · intro Req matchReq pk req
    have := hv pk
    simp only [Store.Versions] at this
    simp only [Store.MatchingVersions, this]

/-- What `Versions` is: the sort of the set of live versions added for the package. -/
theorem versions_are_sorted_set {P K A D : Type} [DecidableEq P] [DecidableEq K] (deleted : A → Bool)
    {sortV : List (Ver K A) → List (Ver K A)} {sortD : List (P × D) → List (P × D)}
    (hV : SortCanon sortV) (hD : ∀ l, (sortD l).Perm l) (adds : List (Add P K A D))
    (hk : (adds.map keyOf).Nodup) (pk : P) :
    (build deleted sortV sortD adds).Versions pk = versionsSpec deleted sortV pk adds :=
  versions_eq deleted hV hD adds hk pk

/-- The hypothesis is satisfiable by what the code guarantees: ANY routine that returns a
sorted permutation (Go's pdqsort included) is canonical once the comparator decides every two
versions with different strings (true of `SortVersions` after repair F5: lexical tie-break),
also when followed by npm's "move `latest` to the end". -/
theorem sortCanon_of_total_comparator {K A : Type} [DecidableEq K] {lt : Ver K A → Ver K A → Bool}
    {dom : List (Ver K A) → Prop} {sortV post : List (Ver K A) → List (Ver K A)}
    (hs : SortSpec lt dom sortV) (hdom : ∀ l, (l.map Ver.key).Nodup → dom l)
    (htot : ∀ a b : Ver K A, a.key ≠ b.key → lt a b = true ∨ lt b a = true)
    (hpost : ∀ l, (post l).Perm l) : SortCanon sortV ∧ SortCanon (post ∘ sortV) :=
  ⟨sortCanon_of_spec hs hdom htot, (sortCanon_of_spec hs hdom htot).comp hpost⟩

/-- ... and by a concrete routine: insertion sort by version number (keys are numbers here). -/
def ltKey (a b : Ver Nat Unit) : Bool := decide (a.key < b.key)

theorem insertionSort_canon : SortCanon (insertionSort ltKey) := by
  refine sortCanon_of_spec (lt := ltKey) (dom := fun _ => True) ⟨insertionSort_perm ltKey, ?_⟩ (fun _ _ => trivial) ?_
  · intro l _
    apply insertionSort_sorted
    constructor
    · intro a _ b _ h; simp only [ltKey, decide_eq_true_eq, decide_eq_false_iff_not] at *; omega
    · intro a _ b _ c _ h1 h2; simp only [ltKey, decide_eq_false_iff_not] at *; omega
  · intro a b h
    simp only [ltKey, decide_eq_true_eq]; omega

/-- Non-vacuity of (c): the same four calls in two orders (one package depending on a package
that is never added, one deleted version) give the same answers. -/
example :
    let del : Bool → Bool := id
    let adds : List (Add String Nat Bool Unit) :=
      [⟨"a", 3, false, [("b", ())]⟩, ⟨"a", 1, false, []⟩, ⟨"c", 7, true, []⟩, ⟨"a", 2, false, [("zz", ())]⟩]
    let s₁ := build del (insertionSort (fun x y => decide (x.key < y.key))) id adds
    let s₂ := build del (insertionSort (fun x y => decide (x.key < y.key))) id adds.reverse
    (s₁.Versions "a" = s₂.Versions "a") ∧ ((s₁.Versions "a").map (·.map (·.key)) = some [1, 2, 3]) ∧
      (s₁.Versions "zz" = some []) ∧ (s₂.Versions "zz" = some []) ∧ (s₁.Versions "c" = none) ∧
      (s₁.Requirements ("a", 2) = s₂.Requirements ("a", 2)) := by
  decide

/-- **The hypothesis is needed** (defect F5 before its repair): with a comparator that leaves two
different version strings undecided - `1.0` and `1.0.0`, here keys 10 and 100 compared by their
leading digit - a correct stable sort keeps insertion order, and the client answers differently
for the two orders. -/
theorem order_dependence_without_tiebreak :
    ∃ (lt : Ver Nat Unit → Ver Nat Unit → Bool) (adds adds' : List (Add String Nat Unit Unit)),
      adds.Perm adds' ∧ (adds.map keyOf).Nodup ∧
      (build (fun _ => false) (insertionSort lt) id adds).Versions "b" ≠
        (build (fun _ => false) (insertionSort lt) id adds').Versions "b" :=
  ⟨fun x y => decide (x.key % 9 < y.key % 9),
   [⟨"b", 10, (), []⟩, ⟨"b", 100, (), []⟩], [⟨"b", 100, (), []⟩, ⟨"b", 10, (), []⟩],
   List.Perm.swap _ _ _, by decide, by decide⟩

/-
TIES (DESIGN 3.3) - theorem : model definitions unfolded ; Gen constants used ; how tied to the code

no_client_slice_writes            : - ; Gen.C05ClientSliceWrites.sites ; translator (taint pass) regenerated every run
taint_pass_nonvacuous             : - ; Gen.C05ClientSliceWrites.{sources,clones,functionsAnalysed} ; translator
resolver_shared_expected          : - ; Gen.C05ResolverShared.{statefulFields,fieldWrites,pkgVarWrites} ; translator (field classification)
cache_fillers_read_only_client_and_caches : - ; Gen.C05ResolverShared.{cacheFillerOtherReads,cacheFillerReads} ; translator (premise of Lru.Memo)
lru_caps_positive, lru_caps_cover_cache_fields, pypi_fresh_caches_ok : Lru.new ; Gen.C05LruCaps.caps ; translator
lru_model_agrees_with_recorded_runs, lru_recorded_runs_nonvacuous : Lru.{new,get,add,replay} ; Gen.C05LruTraces.traces ;
                                    runs of the real lru.go recorded by the translator, replayed in the kernel
interleave_readonly, interleave_result, writes_break_schedule_independence :
                                    Purity.{stepT,solo,runSchedule,runScheduleW} ; - ; generic; applicability to the
                                    resolvers = no_client_slice_writes + resolver_shared_expected + replay oracle (conc)
memo_correct, history_independent, shared_cache_schedule_independent, lru_wellformed :
                                    Lru.{get,add,getOrCompute,runCalls,Prog.run,Prog.pure,runSched} ; - ; LRU model tied as above;
                                    that parseMarker / getConstraint / matchingVersionsWithPrereleases have the
                                    get-or-compute shape of `Memo` is by reading (pypi/resolve.go l.464-543, 614-625) and
                                    the replay oracle (hist)
pypi_caches_invisible, pypi_resolutions_compose : Lru.{Prog2,Prog3}.{run,pure} ; - ; same
insertion_order_independent, versions_are_sorted_set : Purity.{addVersion,build,upsert,ensure,Store.*} ; - ;
                                    model of client.go l.82-155, tied by the replay oracle (perm: client dump and graphs);
                                    the C14 builder's model of the same code is independent of this one
sort_result_unique, sortCanon_of_total_comparator, insertionSort_canon, order_dependence_without_tiebreak :
                                    Purity.{Sorted,TotalOn,SortSpec,insertionSort} ; - ; Go's sort.Slice assumed to meet SortSpec
-/

end DepsDev.Props.C05
