import DepsDev.Proofs.C02NuGet
import DepsDev.Proofs.C02Gem
import DepsDev.Proofs.C02Pep
import DepsDev.Proofs.C02MvnShape
import DepsDev.Proofs.C02Mvn39
import DepsDev.Proofs.C02MvnParse
import DepsDev.Props.C01Maven

/-!
# C02 — version ordering agrees with each ecosystem's own implementation

For every ecosystem `E` there is a reference specification `Ref.E` of the ecosystem's
*published* ordering algorithm on syntax trees (`lean/DepsDev/Ref/*.lean`, each validated
against the real tool where one is installed), and `embed : Ast → Version`, the model
`Version` that `System.Parse` produces from the tree's normal form (tied to the code by
the correspondence op `embed`). The property, at full strength, is

    Agrees embed Ref.E.compare WF :=
      ∀ a b, WF a → WF b → vcompare (embed a) (embed b) = ok (sign of Ref.E.compare a b)

with `WF` = "both the reference and the library accept the version". What is proved:

| ecosystem | statement | status |
|---|---|---|
| NuGet | `nuget_agree` | full, on NuGet's domain |
| NPM, Cargo, Go | `SemVerAgrees s` | refuted (`semver_agree_false_bigpre`, `…_negident`); `semver_agree_partial` with the two classes excluded |
| RubyGems | `GemAgrees` | refuted (`gem_agree_false_case`); `gem_agree_partial` for versions without upper-case letters |
| PyPI | `PepAgrees` | refuted four ways; `pypi_agree_partial` with the four classes excluded |
| Maven | `MavenAgrees` | refuted four ways (+ a spelling-level one); `maven_agree_partial`: the whole DESIGN 6.4 shape (stages S1–S4) with exactly the four classes excluded; `maven_agree_keyorder`: outside C01's `ZeroDotQual` both sides are C01's key order |

The second clause of the property ("the normal form is always accepted") is
`parse s (render a) = ok (embed a)`; it is proved for Maven (`maven_normal_form_accepted`, hence
`maven_compare_strings` on the strings themselves); for the other ecosystems the driver
evaluates it structurally on every generated tree (`eq=1` in the `embed` op) — a test,
labelled as such.
-/
namespace DepsDev.Props.C02

open Std DepsDev DepsDev.Semver DepsDev.Ref DepsDev.Proofs DepsDev.Proofs.C02 DepsDev.Proofs.C02Mvn

/-- The first clause of C02 for one ecosystem, on a class `WF` of syntax trees. -/
def Agrees {A : Type} (embed : A → Version) (ref : A → A → Ordering) (WF : A → Prop) : Prop :=
  ∀ a b : A, WF a → WF b → vcompare (embed a) (embed b) = .ok (ordToInt (ref a b))

/-! ## NuGet — full -/

/-- **NuGet**: on every pair of versions of NuGet's domain (SemVer 2 labels, numeric ones
below 2^31, parts below 2^31, optional fourth part, metadata) the library's order is
`VersionComparer.Default`. -/
theorem nuget_agree : Agrees embedNuGet NuGet.compare (fun a => a.valid = true) := by
  intro a b ha hb
  have conv : ∀ (x : NuGet.Ast), x.valid = true → ∀ i ∈ x.pre, IdentOk .nuget i := by
    intro x hx i hi
    simp only [NuGet.Ast.valid, Bool.and_eq_true] at hx
    have := List.all_eq_true.mp hx.1.2 i hi
    cases i with
    | num n =>
      have h31 : n < 2 ^ 31 := by simpa [NuGet.identValid] using this
      exact ⟨by omega, fun _ => h31⟩
    | alnum s =>
      simp only [NuGet.identValid, Bool.and_eq_true, Bool.not_eq_true'] at this
      exact ⟨this.1, this.2⟩
  exact DepsDev.Proofs.C02.nuget_agree a b (conv a ha) (conv b hb)

/-! ## NPM, Cargo, Go -/

/-- A SemVer version the library accepts too (numbers below 2^63-1). -/
@[reducible] def SemVerWF (a : SemVer.Ast) : Prop := a.valid = true ∧ SemVer.inLib a = true

/-- Hypothesis clause: no numeric prerelease identifier of 2^63 or more. -/
@[reducible] def NoBigPre (a : SemVer.Ast) : Prop := SemVer.bigPre a = false
/-- Hypothesis clause: no alphanumeric prerelease identifier of the form `-digits`. -/
@[reducible] def NoNegIdent (a : SemVer.Ast) : Prop := SemVer.negIdent a = false

def IsSemVerSys (s : System) : Prop := s = .npm ∨ s = .cargo ∨ s = .go

/-- C02 for a SemVer system at full strength. -/
def SemVerAgrees (s : System) : Prop := Agrees (embedSemVer s) SemVer.precedence SemVerWF

def bigA : SemVer.Ast := { major := 1, minor := 0, patch := 0, pre := [.num 9223372036854775808] }
def bigB : SemVer.Ast := { major := 1, minor := 0, patch := 0, pre := [.num 10000000000000000000] }
def negA : SemVer.Ast := { major := 1, minor := 0, patch := 0, pre := [.alnum [45, 49]] }
def negB : SemVer.Ast := { major := 1, minor := 0, patch := 0, pre := [.num 0] }

/-- `1.0.0-9223372036854775808` vs `1.0.0-10000000000000000000`: the library compares the
identifiers as text (F-C02-bigpre). -/
theorem semver_agree_false_bigpre (s : System) (hs : IsSemVerSys s) : ¬ SemVerAgrees s := by
  intro h
  have := h bigA bigB ⟨by decide, by decide⟩ ⟨by decide, by decide⟩
  rcases hs with e | e | e <;> subst e <;> revert this <;> decide +kernel

/-- `1.0.0--1` vs `1.0.0-0`: the library reads `-1` as a number (F-C02-neg-ident). -/
theorem semver_agree_false_negident (s : System) (hs : IsSemVerSys s) : ¬ SemVerAgrees s := by
  intro h
  have := h negA negB ⟨by decide, by decide⟩ ⟨by decide, by decide⟩
  rcases hs with e | e | e <;> subst e <;> revert this <;> decide +kernel

theorem identOk_of (s : System) (hs : s ≠ .nuget) (a : SemVer.Ast) (hv : a.valid = true)
    (hb : NoBigPre a) (hn : NoNegIdent a) : ∀ i ∈ a.pre, IdentOk s i := by
  intro i hi
  simp only [SemVer.Ast.valid, Bool.and_eq_true] at hv
  have hvi := List.all_eq_true.mp hv.1 i hi
  have hbi := List.any_eq_false.mp hb i hi
  have hni := List.any_eq_false.mp hn i hi
  cases i with
  | num n => exact ⟨by simpa using hbi, fun e => absurd e hs⟩
  | alnum t => exact ⟨hvi, by simpa using hni⟩

/-- **NPM, Cargo, Go**: outside the two finding classes the library's order is SemVer 2.0.0
precedence (= node-semver `compare`, the semver crate's `cmp_precedence`,
`x/mod/semver.Compare`). -/
theorem semver_agree_partial (s : System) (hs : IsSemVerSys s) :
    Agrees (embedSemVer s) SemVer.precedence
      (fun a => SemVerWF a ∧ NoBigPre a ∧ NoNegIdent a) := by
  intro a b ⟨⟨hva, _⟩, hba, hna⟩ ⟨⟨hvb, _⟩, hbb, hnb⟩
  have hne : s ≠ .nuget := by rcases hs with e | e | e <;> subst e <;> decide
  exact semver_agree s hne a b (identOk_of s hne a hva hba hna) (identOk_of s hne b hvb hbb hnb)

theorem npm_agree_partial : Agrees (embedSemVer .npm) Npm.compare (fun a => SemVerWF a ∧ NoBigPre a ∧ NoNegIdent a) :=
  semver_agree_partial .npm (Or.inl rfl)
theorem cargo_agree_partial : Agrees (embedSemVer .cargo) Cargo.cmpPrecedence (fun a => SemVerWF a ∧ NoBigPre a ∧ NoNegIdent a) :=
  semver_agree_partial .cargo (Or.inr (Or.inl rfl))
theorem go_agree_partial : Agrees (embedSemVer .go) GoMod.compare (fun a => SemVerWF a ∧ NoBigPre a ∧ NoNegIdent a) :=
  semver_agree_partial .go (Or.inr (Or.inr rfl))

/-- Build metadata never takes part (reference side; the model side is `C01.build_irrelevant`). -/
theorem semver_build_ignored (a b : SemVer.Ast) (x : List Bytes) :
    SemVer.precedence { a with build := x } b = SemVer.precedence a b := rfl

/-! ## RubyGems -/

@[reducible] def GemWF (a : Gem.Ast) : Prop := a.valid = true ∧ Gem.inLib a = true
/-- Hypothesis clause: no upper-case letters. -/
@[reducible] def Gem.Lower (a : Gem.Ast) : Prop := a.lower = true

def GemAgrees : Prop := Agrees embedGem Gem.compare GemWF

def gemA : Gem.Ast := { segs := [.num 1, .num 0, .str [65]] }
def gemB : Gem.Ast := { segs := [.num 1, .num 0, .str [97]] }

/-- `1.0.A` vs `1.0.a`: the library folds case, `Gem::Version` does not (F-C02-gem-case). -/
theorem gem_agree_false_case : ¬ GemAgrees := by
  intro h
  have hAB := h gemA gemB ⟨by decide, by decide⟩ ⟨by decide, by decide⟩
  -- the library folds case: `1.0.A` and `1.0.a` give the same numbers and elements
  have hsame : vcompare (embedGem gemA) (embedGem gemB) = vcompare (embedGem gemB) (embedGem gemB) := by
    have e : embedGem gemA = { embedGem gemB with pre := [[65]] } := by decide +kernel
    rw [e]
    rfl
  have hBB := gem_agree gemB gemB (by decide) (by decide) (by decide) (by decide)
  rw [hsame, hBB] at hAB
  revert hAB; decide +kernel

/-- **RubyGems** (after repair F9): on versions without upper-case letters the library's
order is `Gem::Version#<=>`. -/
theorem gem_agree_partial : Agrees embedGem Gem.compare (fun a => GemWF a ∧ Gem.Lower a) := by
  intro a b ⟨⟨hva, _⟩, hla⟩ ⟨⟨hvb, _⟩, hlb⟩
  exact gem_agree a b hva hla hvb hlb

/-! ## PyPI -/

@[reducible] def PepWF (a : Pep440.Ast) : Prop := a.valid = true ∧ Pep.inLib a = true
/-- Hypothesis clause: not a prerelease with `.post0`. -/
@[reducible] def Pep.NoPrePost0 (a : Pep440.Ast) : Prop := Pep.prePost0 a = false
/-- Hypothesis clause: no local version on a post- or dev-release that is not a prerelease. -/
@[reducible] def Pep.NoLocalPostDev (a : Pep440.Ast) : Prop := Pep.localPostDev a = false
/-- Hypothesis clause: no local version on a prerelease. -/
@[reducible] def Pep.NoLocalPre (a : Pep440.Ast) : Prop := Pep.localPre a = false
/-- Hypothesis clause: no upper-case letter in the local version. -/
@[reducible] def Pep.LocalLower (a : Pep440.Ast) : Prop := Pep.localUpper a = false

def PepAgrees : Prop := Agrees embedPep Pep440.compare PepWF

def pepV (rel : List Nat) (pre : Option (Pep440.PreKind × Nat)) (post dev : Option Nat) (loc : List Pep440.LocalSeg) : Pep440.Ast :=
  { release := rel, pre := pre, post := post, dev := dev, loc := loc }

/-- `1.0a1.post0` vs `1.0a1` (F-C02-pypi-post0). -/
theorem pypi_agree_false_post0 : ¬ PepAgrees := by
  intro h
  have := h (pepV [1, 0] (some (.a, 1)) (some 0) none []) (pepV [1, 0] (some (.a, 1)) none none [])
    ⟨by decide, by decide⟩ ⟨by decide, by decide⟩
  revert this; decide +kernel

/-- `1.0.post1+x` vs `1.0.post1` (F-C02-pypi-local-postdev). -/
theorem pypi_agree_false_local_postdev : ¬ PepAgrees := by
  intro h
  have := h (pepV [1, 0] none (some 1) none [.str [120]]) (pepV [1, 0] none (some 1) none [])
    ⟨by decide, by decide⟩ ⟨by decide, by decide⟩
  revert this; decide +kernel

/-- `1.0a0.dev2+ab` vs `1.0a0` (F-C02-pypi-local-pre). -/
theorem pypi_agree_false_local_pre : ¬ PepAgrees := by
  intro h
  have := h (pepV [1, 0] (some (.a, 0)) none (some 2) [.str [97, 98]]) (pepV [1, 0] (some (.a, 0)) none none [])
    ⟨by decide, by decide⟩ ⟨by decide, by decide⟩
  revert this; decide +kernel

/-- `1.0+ABC` vs `1.0+abc` (F-C02-pypi-local-case). -/
theorem pypi_agree_false_local_case : ¬ PepAgrees := by
  intro h
  have := h (pepV [1, 0] none none none [.str [65, 66, 67]]) (pepV [1, 0] none none none [.str [97, 98, 99]])
    ⟨by decide, by decide⟩ ⟨by decide, by decide⟩
  revert this; decide +kernel

/-- **PyPI**: outside the four finding classes the library's order is packaging's `_cmpkey` order. -/
theorem pypi_agree_partial :
    Agrees embedPep Pep440.compare
      (fun a => PepWF a ∧ Pep.NoPrePost0 a ∧ Pep.NoLocalPostDev a ∧ Pep.NoLocalPre a ∧ Pep.LocalLower a) := by
  intro a b ⟨⟨hva, hla⟩, h1a, h2a, h3a, h4a⟩ ⟨⟨hvb, hlb⟩, h1b, h2b, h3b, h4b⟩
  exact pep_agree a b ⟨hva, hla, h1a, h2a, h3a, h4a⟩ ⟨hvb, hlb, h1b, h2b, h3b, h4b⟩

/-- Hypothesis clause of the acceptance oracle: no upper-case letter within the first three
bytes (after one optional `v`), the window `possibleVersionString` inspects. -/
@[reducible] def Pep.NoEarlyUpper (s : Bytes) : Prop := Pep.earlyUpper s = false

/-- `10RC.0` (packaging: the version `10rc0`) is rejected, its normal form accepted (F-C02-pypi-upper). -/
theorem pypi_upper_rejected :
    parse .pypi [49, 48, 82, 67, 46, 48] = .err ∧ (parse .pypi [49, 48, 114, 99, 48]).isOk = true ∧
      ¬ Pep.NoEarlyUpper [49, 48, 82, 67, 46, 48] := by
  refine ⟨by decide +kernel, by decide +kernel, by decide⟩

/-- Hypothesis clause of the acceptance oracle: no `v` in front of an epoch. -/
@[reducible] def Pep.NoVEpoch (s : Bytes) : Prop := Pep.vEpoch s = false

/-- `v1!2.0` (packaging: `1!2.0`, the `v` comes before the epoch in PEP 440) is rejected; the
library strips a `v` only after the epoch (F-C02-pypi-v-epoch). -/
theorem pypi_v_epoch_rejected :
    parse .pypi [118, 49, 33, 50, 46, 48] = .err ∧ (parse .pypi [49, 33, 50, 46, 48]).isOk = true ∧
      ¬ Pep.NoVEpoch [118, 49, 33, 50, 46, 48] := by
  refine ⟨by decide +kernel, by decide +kernel, by decide⟩

/-! ## Maven -/

@[reducible] def MavenWF (a : MavenCV.Ast) : Prop := a.valid = true ∧ Maven.inLib a = true
@[reducible] def Maven.NoFinalSnapshot (a : MavenCV.Ast) : Prop := Maven.finalSnapshot a = false
@[reducible] def Maven.NoZeroSnapshot (a : MavenCV.Ast) : Prop := Maven.zeroSnapshot a = false
@[reducible] def Maven.NoDotUnknown (a : MavenCV.Ast) : Prop := Maven.dotUnknown a = false
@[reducible] def Maven.NoZeroDot (a : MavenCV.Ast) : Prop := Maven.zeroDot a = false

def MavenAgrees : Prop := Agrees embedMaven MavenCV.compare MavenWF

/-- `1.0-final-SNAPSHOT` vs `1.0-SNAPSHOT` (F-C02-mvn-final-snapshot). -/
theorem maven_agree_false_final_snapshot : ¬ MavenAgrees := by
  intro h
  have := h { nums := [1, 0], qual := some (.dash, MavenCV.wFinal), snapshot := true } { nums := [1, 0], snapshot := true }
    ⟨by decide, by decide⟩ ⟨by decide, by decide⟩
  revert this; decide +kernel

/-- `1-alpha-0-SNAPSHOT` vs `1-alpha-SNAPSHOT` (F-C02-mvn-zero-snapshot). -/
theorem maven_agree_false_zero_snapshot : ¬ MavenAgrees := by
  intro h
  have := h { nums := [1], qual := some (.dash, MavenCV.wAlpha), qnum := some (.dash, 0), snapshot := true }
    { nums := [1], qual := some (.dash, MavenCV.wAlpha), snapshot := true }
    ⟨by decide, by decide⟩ ⟨by decide, by decide⟩
  revert this; decide +kernel

/-- `1.foo` vs `1-alpha` (F-C02-mvn-dot-unknown). -/
theorem maven_agree_false_dot_unknown : ¬ MavenAgrees := by
  intro h
  have := h { nums := [1], qual := some (.dot, [102, 111, 111]) } { nums := [1], qual := some (.dash, MavenCV.wAlpha) }
    ⟨by decide, by decide⟩ ⟨by decide, by decide⟩
  revert this; decide +kernel

/-- `0.alpha` vs `0-alpha`: ComparableVersion keeps the `0` before a dot-attached qualifier but
drops it before a `-` list, so number > list; the library compares the two qualifiers
(F-C02-mvn-zero-dot). -/
theorem maven_agree_false_zero_dot : ¬ MavenAgrees := by
  intro h
  have := h { nums := [0], qual := some (.dot, MavenCV.wAlpha) } { nums := [0], qual := some (.dash, MavenCV.wAlpha) }
    ⟨by decide, by decide⟩ ⟨by decide, by decide⟩
  revert this; decide +kernel

/-- Hypothesis clause (on spellings): no zero component spelled `00`. -/
@[reducible] def Maven.NoZeroRun (s : Bytes) : Prop := zeroRun s = false

/-- `1.00` and `1.0` are spellings of the same tree (ComparableVersion strips leading zeros:
equal), the library says `1.00 > 1.0` (F-C02-mvn-leading-zero). -/
theorem maven_leading_zero_false :
    compareStr .maven [49, 46, 48, 48] [49, 46, 48] = .ok 1 ∧
      MavenCV.compare { nums := [1, 0] } { nums := [1, 0] } = .eq ∧ ¬ Maven.NoZeroRun [49, 46, 48, 48] := by
  refine ⟨by decide +kernel, by decide +kernel, by decide⟩

/-- The domain of `maven_agree_partial`: the Maven-Central shape of DESIGN 6.4 (`Ast.valid`:
numbers separated by dots, optionally a lower-case qualifier word attached with `.`, `-` or
directly, optionally a number after it attached the same three ways, optionally `-SNAPSHOT`;
no number after `ga`/`final`/`release`), numbers the library reads exactly, outside the four
tree-level finding classes. All clauses are decidable. -/
@[reducible] def MavenDomain (a : MavenCV.Ast) : Prop :=
  MavenWF a ∧ Maven.NoFinalSnapshot a ∧ Maven.NoZeroSnapshot a ∧ Maven.NoDotUnknown a ∧ Maven.NoZeroDot a

theorem goodAst_of_domain {a : MavenCV.Ast} (h : MavenDomain a) : GoodAst' a :=
  ⟨h.1.1, h.2.1, h.2.2.1, h.2.2.2.1, h.2.2.2.2⟩

/-- **Maven** (stages S1–S4 at once: dotted numbers of any length with their trailing zeros;
known qualifiers incl. the aliases `ga`/`final`/`release`, `cr`, and `a`/`b`/`m` before a digit;
a number after the qualifier; `-SNAPSHOT`; unknown qualifiers attached with `-`): on every pair
of versions of `MavenDomain` — the DESIGN 6.4 shape outside exactly the four recorded finding
classes — the library's comparison has the sign of `ComparableVersion.compareTo` (Maven
3.6–3.8.6 as specified in `Ref/MavenCV.lean`). C01's `ZeroDotQual` versions (`4.1.0.Beta1`)
are inside: there the order is no key order, but the two sides still agree step by step. -/
theorem maven_agree_partial : Agrees embedMaven MavenCV.compare MavenDomain := by
  intro a b ha hb
  exact maven_agree' (goodAst_of_domain ha) (goodAst_of_domain hb)

/-- **Maven, clause 2** (the normal form is accepted, and `embedMaven` is what `System.Parse` makes
of it): for every tree of DESIGN 6.4 whose numbers are below `infinity`. -/
theorem maven_normal_form_accepted (a : MavenCV.Ast) (h : MavenWF a) :
    parse .maven (MavenCV.render a) = .ok (embedMaven a) :=
  parse_render a h.1 h.2

/-- **Maven, on strings**: for all version strings `render a`, `render b` of the DESIGN 6.4 shape
outside the four finding classes (numbers without leading zeros, lower-case qualifier,
`-SNAPSHOT`), `System.Compare` has the sign of `ComparableVersion.compareTo`. -/
theorem maven_compare_strings (a b : MavenCV.Ast) (ha : MavenDomain a) (hb : MavenDomain b) :
    compareStr .maven (MavenCV.render a) (MavenCV.render b) = .ok (ordToInt (MavenCV.compare a b)) := by
  rw [compareStr_render a b ha.1.1 ha.1.2 hb.1.1 hb.1.2]
  exact maven_agree_partial a b ha hb

/-- Hypothesis clause of `maven_agree_keyorder`: not C01's `ZeroDotQual` — the last number is
`0` and a qualifier other than `ga`/`final`/`release` is attached to it with a dot
(`4.1.0.Beta1`, `2.0.alpha`; contains `Maven.NoZeroDot`). Not a disagreement class. -/
@[reducible] def Maven.NoZeroDotQual (a : MavenCV.Ast) : Prop := Maven.zeroDotQual a = false

theorem goodAst_of_domain_key {a : MavenCV.Ast} (h : MavenDomain a) (hz : Maven.NoZeroDotQual a) : GoodAst a :=
  ⟨h.1.1, h.2.1, h.2.2.1, h.2.2.2.1, hz⟩

/-- Outside `ZeroDotQual` both sides are the key order `mavenLex` of C01 (a `TransCmp`: `padLex`
over the four-component element keys) on the library's element lists: ComparableVersion's
comparison *is* that key order, and the library renders it. -/
theorem maven_agree_keyorder (a b : MavenCV.Ast) (ha : MavenDomain a) (hb : MavenDomain b)
    (za : Maven.NoZeroDotQual a) (zb : Maven.NoZeroDotQual b) :
    MavenCV.compare a b = mavenLex (elemsOf a) (elemsOf b) ∧
      vcompare (embedMaven a) (embedMaven b) = .ok (ordToInt (mavenLex (elemsOf a) (elemsOf b))) := by
  have h := ref_compare (goodAst_of_domain_key ha za) (goodAst_of_domain_key hb zb)
  exact ⟨h, h ▸ maven_agree (goodAst_of_domain_key ha za) (goodAst_of_domain_key hb zb)⟩

/-- The library's version of every tree of DESIGN 6.4 lies in C01's `InShape` (`MavenShape` on the
elements), and C01's `ZeroDotQual` on its elements is `Maven.zeroDotQual` on the tree: the domain
of `maven_agree_keyorder` is C01's `InDomain`, pulled back along `embedMaven`. -/
theorem maven_embed_inShape (a : MavenCV.Ast) (hv : a.valid = true) :
    C01Maven.InShape (embedMaven a) ∧
      ZeroDotQual (C01Maven.mavenElems (embedMaven a)) = Maven.zeroDotQual a :=
  ⟨⟨⟨rfl, _, rfl⟩, elems_shape hv⟩, elems_zeroDotQual hv⟩

theorem maven_embed_inDomain (a : MavenCV.Ast) (hv : a.valid = true) (hz : Maven.NoZeroDotQual a) :
    C01Maven.InDomain (embedMaven a) :=
  ⟨⟨rfl, _, rfl⟩, elems_shape hv, (elems_zeroDotQual hv).trans hz⟩

/-! ### Maven 3.8.7 / 3.9.x (`Ref/MavenExt39.lean`) -/

/-- Hypothesis clause for the 3.9 semantics: the qualifier is not attached with a dot. -/
@[reducible] def Maven.NoDotQual (a : MavenCV.Ast) : Prop := Maven.dotQual a = false

/-- **Maven 3.8.7 / 3.9.x**: the one change of `parseVersion` only concerns dot-attached words, so on
the versions of `MavenDomain` whose qualifier is attached with `-` or directly (`1.0-rc-1`,
`1.0rc1`, `3.0.0-SNAPSHOT`, plain numbers) the library's comparison has the sign of the 3.9
`ComparableVersion` too. -/
theorem maven39_agree_partial :
    Agrees embedMaven MavenCV39.compare (fun a => MavenDomain a ∧ Maven.NoDotQual a) := by
  intro a b ⟨ha, da⟩ ⟨hb, db⟩
  rw [compare39_eq a b ha.1.1 hb.1.1 da db]
  exact maven_agree_partial a b ha hb

/-- With a dot-attached qualifier the library follows 3.8.6, not 3.9: `1.alpha < 1-alpha` in the
library and in `Ref.MavenCV` (a string item is below a list item), equal in 3.9 (`.X` is read as
`-X`). The library documents this choice ("roughly equivalent to v3.6.0 / v3.8.6"). -/
theorem maven39_dot_qual_differs :
    vcompare (embedMaven { nums := [1], qual := some (.dot, MavenCV.wAlpha) })
        (embedMaven { nums := [1], qual := some (.dash, MavenCV.wAlpha) }) = .ok (-1) ∧
      MavenCV.compare { nums := [1], qual := some (.dot, MavenCV.wAlpha) } { nums := [1], qual := some (.dash, MavenCV.wAlpha) } = .lt ∧
      MavenCV39.compare { nums := [1], qual := some (.dot, MavenCV.wAlpha) } { nums := [1], qual := some (.dash, MavenCV.wAlpha) } = .eq ∧
      MavenDomain { nums := [1], qual := some (.dot, MavenCV.wAlpha) } ∧
      ¬ Maven.NoDotQual { nums := [1], qual := some (.dot, MavenCV.wAlpha) } := by
  refine ⟨by decide +kernel, by decide +kernel, by decide +kernel, by decide, by decide⟩

/-- Hence the 3.9 statement on all of `MavenDomain` is false; `Maven.NoDotQual` is the clause that fails. -/
theorem maven39_agree_false_dot_qual : ¬ Agrees embedMaven MavenCV39.compare MavenDomain := by
  intro h
  have h1 := h { nums := [1], qual := some (.dot, MavenCV.wAlpha) } { nums := [1], qual := some (.dash, MavenCV.wAlpha) }
    (by decide) (by decide)
  rw [maven39_dot_qual_differs.1, maven39_dot_qual_differs.2.2.1] at h1
  revert h1; decide

/-- The elements of the library's version of a tree of the domain, in closed form: the first
number, the other numbers (trailing zeros dropped when nothing or a `-` element follows), then
the qualifier unless `ga`/`final`/`release`, its number unless `0`, and `-snapshot`. -/
theorem maven_elems_closed (a : MavenCV.Ast) (n : Nat) (ns : List Nat) (hn : a.nums = n :: ns) (hv : a.valid = true) :
    (embedMaven a).ext = .maven (numE 0 n :: tailElems ns a) := by
  have := embed_elems a n ns hn hv
  show Ext.maven (elemsOf a) = _
  rw [elemsOf, this]

/-! ## Non-vacuity: every hypothesis set has concrete, non-trivially ordered inhabitants -/

example : NuGet.Ast.valid { major := 1, minor := 0, patch := 0, revision := 2, pre := [.alnum [66, 101, 116, 97], .num 7] } = true ∧
    NuGet.Ast.valid { major := 1, minor := 0, patch := 0, revision := 2, pre := [.alnum [98, 101, 116, 97], .num 10] } = true ∧
    NuGet.compare { major := 1, minor := 0, patch := 0, revision := 2, pre := [.alnum [66, 101, 116, 97], .num 7] }
      { major := 1, minor := 0, patch := 0, revision := 2, pre := [.alnum [98, 101, 116, 97], .num 10] } = .lt := by
  refine ⟨by decide, by decide, by decide⟩

def nvA : SemVer.Ast := { major := 1, minor := 2, patch := 3, pre := [.alnum [114, 99], .num 1], build := [[120]] }
def nvB : SemVer.Ast := { major := 1, minor := 2, patch := 3, pre := [.alnum [114, 99], .alnum [120, 45, 49]] }
example : (SemVerWF nvA ∧ NoBigPre nvA ∧ NoNegIdent nvA) ∧ (SemVerWF nvB ∧ NoBigPre nvB ∧ NoNegIdent nvB) ∧
    SemVer.precedence nvA nvB = .lt := by
  refine ⟨⟨⟨by decide, by decide⟩, by decide, by decide⟩, ⟨⟨by decide, by decide⟩, by decide, by decide⟩, by decide⟩

def gvA : Gem.Ast := { segs := [.num 1, .num 2, .num 0, .str [112, 114, 101], .num 1] }
def gvB : Gem.Ast := { segs := [.num 1, .num 2, .str [114, 99], .num 0] }
example : (GemWF gvA ∧ Gem.Lower gvA) ∧ (GemWF gvB ∧ Gem.Lower gvB) ∧ Gem.compare gvA gvB = .lt := by
  refine ⟨⟨⟨by decide, by decide⟩, by decide⟩, ⟨⟨by decide, by decide⟩, by decide⟩, by decide⟩

def pvA : Pep440.Ast := { epoch := 1, release := [2, 0], pre := some (.rc, 1), post := some 2, dev := some 3 }
def pvB : Pep440.Ast := { epoch := 1, release := [2], loc := [.str [117, 98, 117, 110, 116, 117], .num 1] }
example : (PepWF pvA ∧ Pep.NoPrePost0 pvA ∧ Pep.NoLocalPostDev pvA ∧ Pep.NoLocalPre pvA ∧ Pep.LocalLower pvA) ∧
    (PepWF pvB ∧ Pep.NoPrePost0 pvB ∧ Pep.NoLocalPostDev pvB ∧ Pep.NoLocalPre pvB ∧ Pep.LocalLower pvB) ∧
    Pep440.compare pvA pvB = .lt := by
  refine ⟨⟨⟨by decide, by decide⟩, by decide, by decide, by decide, by decide⟩,
    ⟨⟨by decide, by decide⟩, by decide, by decide, by decide, by decide⟩, by decide⟩


/-- `1.0-rc-1`, `1.0`, `3.0.0-beta`, `3.0.0-SNAPSHOT`, `2.0.1-a1` (= `2.0.1-alpha-1`), `1.2-foo-3`. -/
def mvRc1 : MavenCV.Ast := { nums := [1, 0], qual := some (.dash, MavenCV.wRc), qnum := some (.dash, 1) }
def mv10 : MavenCV.Ast := { nums := [1, 0] }
def mvBeta : MavenCV.Ast := { nums := [3, 0, 0], qual := some (.dash, MavenCV.wBeta) }
def mvSnap : MavenCV.Ast := { nums := [3, 0, 0], snapshot := true }
def mvA1 : MavenCV.Ast := { nums := [2, 0, 1], qual := some (.dash, [97]), qnum := some (.trans, 1) }
def mvAlpha1 : MavenCV.Ast := { nums := [2, 0, 1], qual := some (.dash, MavenCV.wAlpha), qnum := some (.dash, 1) }
def mvFoo : MavenCV.Ast := { nums := [1, 2], qual := some (.dash, [102, 111, 111]), qnum := some (.dash, 3) }
def mvSp : MavenCV.Ast := { nums := [1, 2], qual := some (.dash, MavenCV.wSp) }

example : MavenCV.render mvRc1 = "1.0-rc-1".toUTF8.toList ∧ MavenCV.render mv10 = "1.0".toUTF8.toList ∧
    MavenCV.render mvBeta = "3.0.0-beta".toUTF8.toList ∧ MavenCV.render mvSnap = "3.0.0-SNAPSHOT".toUTF8.toList ∧
    MavenCV.render mvA1 = "2.0.1-a1".toUTF8.toList ∧ MavenCV.render mvFoo = "1.2-foo-3".toUTF8.toList := by
  decide +kernel

theorem mvRc1_dom : MavenDomain mvRc1 := by decide
theorem mv10_dom : MavenDomain mv10 := by decide
theorem mvBeta_dom : MavenDomain mvBeta := by decide
theorem mvSnap_dom : MavenDomain mvSnap := by decide
theorem mvA1_dom : MavenDomain mvA1 := by decide
theorem mvAlpha1_dom : MavenDomain mvAlpha1 := by decide
theorem mvFoo_dom : MavenDomain mvFoo := by decide
theorem mvSp_dom : MavenDomain mvSp := by decide

/-- `maven_agree_partial` on `1.0-rc-1 < 1.0`, `3.0.0-beta < 3.0.0-SNAPSHOT`, `2.0.1-a1 = 2.0.1-alpha-1`,
`1.2-sp < 1.2-foo-3` (unknown qualifier after `sp`): the reference says so, hence the library. -/
example : vcompare (embedMaven mvRc1) (embedMaven mv10) = .ok (-1) ∧
    vcompare (embedMaven mvBeta) (embedMaven mvSnap) = .ok (-1) ∧
    vcompare (embedMaven mvA1) (embedMaven mvAlpha1) = .ok 0 ∧
    vcompare (embedMaven mvSp) (embedMaven mvFoo) = .ok (-1) := by
  refine ⟨(maven_agree_partial _ _ mvRc1_dom mv10_dom).trans ?_, (maven_agree_partial _ _ mvBeta_dom mvSnap_dom).trans ?_,
    (maven_agree_partial _ _ mvA1_dom mvAlpha1_dom).trans ?_, (maven_agree_partial _ _ mvSp_dom mvFoo_dom).trans ?_⟩ <;>
  decide +kernel

/-- `maven_agree_keyorder` on the same pair; the strings themselves compare the same way in the model
of `System.Compare`, and `embedMaven` is what `System.Parse` yields on them. -/
example : MavenCV.compare mvRc1 mv10 = mavenLex (elemsOf mvRc1) (elemsOf mv10) :=
  (maven_agree_keyorder _ _ mvRc1_dom mv10_dom (by decide) (by decide)).1

example : compareStr .maven "1.0-rc-1".toUTF8.toList "1.0".toUTF8.toList = .ok (-1) ∧
    compareStr .maven "3.0.0-beta".toUTF8.toList "3.0.0-SNAPSHOT".toUTF8.toList = .ok (-1) ∧
    parse .maven (MavenCV.render mvRc1) = .ok (embedMaven mvRc1) ∧
    parse .maven (MavenCV.render mvSnap) = .ok (embedMaven mvSnap) := by
  decide +kernel

/-- `maven_compare_strings` / `maven_normal_form_accepted` on `1.0-rc-1` vs `1.0` and on the
transition spelling `2.0.1-a1`. -/
example : compareStr .maven "1.0-rc-1".toUTF8.toList "1.0".toUTF8.toList = .ok (-1) := by
  have h := maven_compare_strings mvRc1 mv10 mvRc1_dom mv10_dom
  have e1 : MavenCV.render mvRc1 = "1.0-rc-1".toUTF8.toList := by decide +kernel
  have e2 : MavenCV.render mv10 = "1.0".toUTF8.toList := by decide +kernel
  rw [e1, e2] at h
  exact h.trans (by decide +kernel)

example : parse .maven (MavenCV.render mvA1) = .ok (embedMaven mvA1) := maven_normal_form_accepted mvA1 (by decide)

/-- `maven39_agree_partial` on `1.0-rc-1 < 1.0` and `2.0.1-a1 = 2.0.1-alpha-1`. -/
example : vcompare (embedMaven mvRc1) (embedMaven mv10) = .ok (ordToInt (MavenCV39.compare mvRc1 mv10)) ∧
    MavenCV39.compare mvRc1 mv10 = .lt ∧ MavenCV39.compare mvA1 mvAlpha1 = .eq :=
  ⟨maven39_agree_partial _ _ ⟨mvRc1_dom, by decide⟩ ⟨mv10_dom, by decide⟩, by decide +kernel, by decide +kernel⟩

/-- `maven_embed_inDomain`: `1.0-rc-1` as a version is in C01's `InDomain`; `maven_embed_inShape`:
`4.1.0.beta1` is in C01's `InShape` and `ZeroDotQual` there. -/
example : C01Maven.InDomain (embedMaven mvRc1) := maven_embed_inDomain mvRc1 (by decide) (by decide)

/-- `maven_elems_closed`: `3.0.0-beta` is `3`, `-beta`. -/
example : (embedMaven mvBeta).ext = .maven [numE 0 3, ⟨45, MavenCV.wBeta, 0⟩] :=
  (maven_elems_closed mvBeta 3 [0, 0] rfl (by decide)).trans (by decide +kernel)

/-- `4.1.0.Beta1` (C01's `ZeroDotQual` witness) is in `MavenDomain`, not in the key-order domain;
`maven_agree_partial` on the intransitive triple of C01: `4.1 < 4.1-jre < 4.1.0.Beta1 < 4.1`, on both sides. -/
def mvBeta1 : MavenCV.Ast := { nums := [4, 1, 0], qual := some (.dot, MavenCV.wBeta), qnum := some (.trans, 1) }
def mv41 : MavenCV.Ast := { nums := [4, 1] }
def mvJre : MavenCV.Ast := { nums := [4, 1], qual := some (.dash, [106, 114, 101]) }
theorem mvBeta1_dom : MavenDomain mvBeta1 ∧ ¬ Maven.NoZeroDotQual mvBeta1 := by decide

example : MavenCV.render mvBeta1 = "4.1.0.beta1".toUTF8.toList := by decide +kernel

example : C01Maven.InShape (embedMaven mvBeta1) ∧ ZeroDotQual (C01Maven.mavenElems (embedMaven mvBeta1)) = true :=
  ⟨(maven_embed_inShape mvBeta1 (by decide)).1, (maven_embed_inShape mvBeta1 (by decide)).2.trans (by decide)⟩

example : vcompare (embedMaven mv41) (embedMaven mvJre) = .ok (-1) ∧
    vcompare (embedMaven mvJre) (embedMaven mvBeta1) = .ok (-1) ∧
    vcompare (embedMaven mvBeta1) (embedMaven mv41) = .ok (-1) := by
  refine ⟨(maven_agree_partial _ _ (by decide) (by decide)).trans ?_,
    (maven_agree_partial _ _ (by decide) mvBeta1_dom.1).trans ?_,
    (maven_agree_partial _ _ mvBeta1_dom.1 (by decide)).trans ?_⟩ <;> decide +kernel

end DepsDev.Props.C02
