import DepsDev.Model.Resolve.Maven
namespace DepsDev.Props.C07
end DepsDev.Props.C07
