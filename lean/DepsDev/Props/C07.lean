import DepsDev.Proofs.C07Prov
import DepsDev.Proofs.C07Tree
import DepsDev.Proofs.C07Account
import DepsDev.Proofs.C07Nearest
import DepsDev.Proofs.C07Unique
import DepsDev.Proofs.C07Fuel

/-!
# C07 — a Maven resolution graph obeys Maven's mediation rules

Statements about `DepsDev.Resolve.Maven.Resolve`, the model of
`util/resolve/maven/resolve.go` (see `Model/Resolve/Maven.lean` for the boundary: the
client's answers, including everything about requirement strings, are data of the
`Universe`). Every theorem is for ALL universes, roots and fuel values: "if the model
returns a graph, then …"; `resolve_terminates` shows that with the driver's fuel it always
returns a graph or an error. The graph is `s.g` of the returned final `State s`; `s.done`,
`s.created` and `s.requirements` are the popped todo elements, the creating edges and
the accumulated requirement lists at the end of the last pass (ghost observations of the
run, never read by the algorithm).

Full statements first (`M1` … as `Bool`/`Prop` definitions), then what is proved:

* proved in full: M3, M4 (both halves), M5, M6 (local and path form), M7, M8, reachability,
  the spanning tree of creating edges, M2 relative to the accumulated requirement lists;
* `m1_partial` under `DefaultKeys` (refutation `m1_false` from the F-C07-classifier witness);
* `m2_nearest_partial` under `FirstPass` (refutation `m2_false` from the F-C07-stale-req witness).
-/

namespace DepsDev.Props.C07
open DepsDev DepsDev.Resolve.Maven DepsDev.Gen

/-! ## Vocabulary -/

/-- The model returned the final state `s` after `passes` passes (for some fuel). -/
def Returned (u : Universe) (root : VK) (s : State) (passes : Nat) : Prop :=
  ∃ fuel, Resolve u root fuel = .graph s passes

/-- Artifact key of an edge: name of its target node, classifier and type of its dependency type. -/
def edgeKey (s : State) (e : Edge) : Option PackageKey :=
  (s.g.vkAt e.dst).map fun v => packageKeyForDependency v.name e.typ

/-- Version string of node `i`. -/
def versionAt (s : State) (i : Nat) : Option Bytes := (s.g.vkAt i).map (·.version)

/-- Reachability from the root along edges. -/
inductive Reach (g : Graph) : Nat → Prop
  | root : Reach g 0
  | step {a : Nat} {e : Edge} : Reach g a → e ∈ g.edges → e.src = a → Reach g e.dst

theorem nodup_getElem_inj {α : Type} {l : List α} (h : l.Nodup) {i j : Nat} (hi : i < l.length) (hj : j < l.length)
    (heq : l[i] = l[j]) : i = j := by
  rcases Nat.lt_trichotomy i j with hlt | rfl | hgt
  · exact absurd heq ((List.pairwise_iff_getElem.mp h) i j hi hj hlt)
  · rfl
  · exact absurd heq.symm ((List.pairwise_iff_getElem.mp h) j i hj hi hgt)

/-! ## The pass that produced a returned graph -/

theorem retry_graph {u : Universe} {root : VK} {fuel : Nat} :
    ∀ (n : Nat) (reqs : ReqMap) (passes : Nat) (s : State) (p : Nat),
      retry u root fuel n reqs passes = .graph s p →
      passes < p ∧ ∃ reqs0, resolveOnce u root reqs0 fuel = .ok (some s) ∧ (p = passes + 1 → reqs0 = reqs) := by
  intro n
  induction n with
  | zero =>
    intro reqs passes s p h
    unfold retry at h
    split at h
    · rename_i s' hs; cases h; exact ⟨by omega, reqs, hs, fun _ => rfl⟩
    · cases h
    · cases h
    · cases h
  | succ n ih =>
    intro reqs passes s p h
    unfold retry at h
    split at h
    · rename_i s' hs; cases h; exact ⟨by omega, reqs, hs, fun _ => rfl⟩
    · cases h
    · obtain ⟨hlt, reqs0, h0, _⟩ := ih _ _ _ _ h
      exact ⟨by omega, reqs0, h0, fun hp => by omega⟩
    · cases h

/-- A returned graph is the final state of one pass of the breadth-first loop started from
`initState`; with `passes = 1` that pass started with an empty requirements map. -/
theorem returned_pass {u : Universe} {root : VK} {s : State} {p : Nat} (h : Returned u root s p) :
    ∃ fuel reqs0 mgt, dependencyManagement u root = some mgt ∧
      loop u mgt fuel true (initState root reqs0) = .ok (some s) ∧ (p = 1 → reqs0 = []) := by
  obtain ⟨fuel, h⟩ := h
  obtain ⟨_, reqs0, h0, hp⟩ := retry_graph _ _ _ _ _ h
  obtain ⟨mgt, hm, hl⟩ := resolveOnce_ok h0
  exact ⟨fuel, reqs0, mgt, hm, hl, fun h1 => hp (by omega)⟩

/-- Termination (full). With the fuel the driver supplies (`Universe.fuel` = number of versions of
the universe + 2) the model never runs out of fuel: every pass of the breadth-first loop pops at most
one todo element per version of the universe, and there are at most `maxRetries + 1` passes. So
`Resolve u root u.fuel` is a graph or one of the three errors. -/
theorem resolve_terminates (u : Universe) (root : VK) : Resolve u root u.fuel ≠ .outOfFuel :=
  retry_fuel _ _ _

/-! ## M3 — range edges point inside their range -/

/-- M3 (full). Every edge whose requirement is a range points to a version the range matches. -/
theorem m3_range_edges_inside {u : Universe} {root : VK} {s : State} {p : Nat} (h : Returned u root s p) :
    ∀ e ∈ s.g.edges, reqKind u e.req = .hard →
      ∃ v, s.g.vkAt e.dst = some v ∧ reqMatches u e.req v.version = true := by
  obtain ⟨fuel, reqs0, mgt, _, hl, _⟩ := returned_pass h
  obtain ⟨⟨_, hx⟩, _, _⟩ := prov_loop hl
  intro e he hk
  obtain ⟨first, cur, d, imps, mv, L, _, _, _, _, _, hv, hreq, _, _, hmem, hfm⟩ := (hx.edges e he).ex
  refine ⟨_, hv, ?_⟩
  rw [hreq] at hk ⊢
  exact findMatch_sat hfm _ hmem hk

/-! ## M7 — test / optional / provided only from the root -/

/-- M7 (full). An edge leaving a node other than the root is not test, optional or provided. -/
theorem m7_root_only_scopes {u : Universe} {root : VK} {s : State} {p : Nat} (h : Returned u root s p) :
    ∀ e ∈ s.g.edges, e.src ≠ 0 → rootOnly e.typ = false := by
  obtain ⟨fuel, reqs0, mgt, _, hl, _⟩ := returned_pass h
  obtain ⟨⟨_, hx⟩, _, _⟩ := prov_loop hl
  intro e he hsrc
  obtain ⟨first, cur, d, imps, mv, L, hlog, _, himps, hd, _, _, _, htyp, _, _, _⟩ := (hx.edges e he).ex
  have hf : first = false := by
    have := hx.doneFirst _ hlog
    simp only at this
    cases first with
    | false => rfl
    | true => exact absurd (this.mp rfl) hsrc
  subst hf
  obtain ⟨_, imp, _, _, hfil, rfl⟩ := mem_imports himps hd
  have hro := filterImport_nonfirst hfil
  rcases htyp with ht | ht
  · rw [ht]; exact hro
  · rw [ht]; simpa [toDep] using hro

/-! ## M5 — the root's dependencyManagement overrides transitive versions -/

/-- M5 (full). An edge leaving a non-root node whose artifact key the root manages carries the
managed version as its requirement. -/
theorem m5_management_overrides {u : Universe} {root : VK} {s : State} {p : Nat} (h : Returned u root s p) :
    ∃ mgt, dependencyManagement u root = some mgt ∧
      ∀ e ∈ s.g.edges, e.src ≠ 0 → ∀ pk v, edgeKey s e = some pk → mgt.lookup pk = some v → e.req = v := by
  obtain ⟨fuel, reqs0, mgt, hm, hl, _⟩ := returned_pass h
  obtain ⟨⟨_, hx⟩, _, _⟩ := prov_loop hl
  refine ⟨mgt, hm, ?_⟩
  intro e he hsrc pk v hk hlk
  obtain ⟨first, cur, d, imps, mv, L, hlog, _, _, _, _, hv, hreq, htyp, _, _, _⟩ := (hx.edges e he).ex
  have hf : first = false := by
    have := hx.doneFirst _ hlog
    simp only at this
    cases first with
    | false => rfl
    | true => exact absurd (this.mp rfl) hsrc
  subst hf
  have hkey : pk = depKey d := by
    simp only [edgeKey, hv, Option.map_some, Option.some.injEq] at hk
    rcases htyp with ht | ht
    · rw [ht] at hk; exact hk.symm
    · rw [ht] at hk
      have := packageKey_withSelector d.name d.typ
      simp only [withSelector] at this
      rw [this] at hk; exact hk.symm
  subst hkey
  rw [hreq]
  simp [depVer, managedVersion, hlk]

/-! ## M6 — exclusions -/

/-- The exclusion set in force at node `id`: that of the todo element popped for it. -/
def ExclAt (s : State) (id : Nat) (x : Option (List Bytes)) : Prop :=
  ∃ f t, (id, f, t) ∈ s.done ∧ t.exclusions = x

/-- M6, local form (full). (a) every edge leaves a popped element under whose exclusion set the
target's name is not excluded; (b) a node has one exclusion set; (c) the root's is empty (nil);
(d) the set of a created node is its parent's merged with the exclusions declared on its creating
edge. -/
theorem m6_excluded_not_reached {u : Universe} {root : VK} {s : State} {p : Nat} (h : Returned u root s p) :
    (∀ e ∈ s.g.edges, ∃ x v, ExclAt s e.src x ∧ s.g.vkAt e.dst = some v ∧ isExcluded x v.name = some false) ∧
    (∀ id x y, ExclAt s id x → ExclAt s id y → x = y) ∧
    (∀ x, ExclAt s 0 x → x = none) ∧
    (∀ c ∈ s.created, ∃ px, ExclAt s c.2.1.src px ∧
      ExclAt s c.1 (mergeExcl (declaredExclusions c.2.1.typ) px)) := by
  obtain ⟨fuel, reqs0, mgt, _, hl, _⟩ := returned_pass h
  obtain ⟨⟨_, hx⟩, _, htodo⟩ := prov_loop hl
  obtain ⟨_, ht⟩ := tree_loop hl
  -- two done entries with one id are the same element
  have huniq : ∀ id f t f' t', (id, f, t) ∈ s.done → (id, f', t') ∈ s.done → t = t' := by
    intro id f t f' t' h1 h2
    obtain ⟨i, hi, hgi⟩ := List.getElem_of_mem h1
    obtain ⟨j, hj, hgj⟩ := List.getElem_of_mem h2
    have hi' : i < (s.done.map (·.1)).length := by simpa using hi
    have hj' : j < (s.done.map (·.1)).length := by simpa using hj
    have heq : (s.done.map (·.1))[i] = (s.done.map (·.1))[j] := by simp [hgi, hgj]
    have hij : i = j := nodup_getElem_inj ht.doneIds hi' hj' heq
    subst hij
    rw [hgi] at hgj
    cases hgj
    rfl
  refine ⟨?_, ?_, ?_, ?_⟩
  · intro e he
    obtain ⟨first, cur, d, imps, mv, L, hlog, _, _, _, hex, hv, _, _, _, _, _⟩ := (hx.edges e he).ex
    exact ⟨cur.exclusions, _, ⟨first, cur, hlog, rfl⟩, hv, hex⟩
  · intro id x y ⟨f, t, h1, hx1⟩ ⟨f', t', h2, hy1⟩
    have := huniq _ _ _ _ _ h1 h2
    subst this
    rw [← hx1, ← hy1]
  · intro x ⟨f, t, h1, hx1⟩
    rw [← hx1]
    exact ht.rootExcl _ h1 rfl
  · intro c hc
    have hcr := ht.crt c hc
    obtain ⟨f, pt, hp1, hp2⟩ := hcr.excl
    refine ⟨pt.exclusions, ⟨f, pt, hp1, rfl⟩, ?_⟩
    -- the created element itself has been popped (todo is empty at the end)
    rcases ht.popped c hc with hp | ⟨f', hp⟩
    · rw [htodo] at hp; cases hp
    · exact ⟨f', c.2.2, hp, hp2⟩

/-- `x ⊆ y` as sets of exclusion patterns. -/
def ExclSub (x y : Option (List Bytes)) : Prop := ∀ a ∈ x.getD [], a ∈ y.getD []

theorem exclSub_merge_own (own parent : Option (List Bytes)) : ExclSub own (mergeExcl own parent) := by
  intro a ha
  cases own with
  | none => simp at ha
  | some de => simp only [Option.getD_some] at ha; simp [mergeExcl, ha]

theorem exclSub_merge_parent (own parent : Option (List Bytes)) : ExclSub parent (mergeExcl own parent) := by
  intro a ha
  cases own with
  | none => simpa [mergeExcl] using ha
  | some de => simp [mergeExcl, ha]

/-- A name a smaller pattern set excludes is never "not excluded" under a larger one. -/
theorem isExcluded_mono {x y : Option (List Bytes)} (hsub : ExclSub x y) {n : Bytes}
    (h : isExcluded x n = some true) : isExcluded y n ≠ some false := by
  cases x with
  | none => simp [isExcluded] at h
  | some l =>
    have hmem : ∀ a, l.contains a = true → ∃ l', y = some l' ∧ l'.contains a = true := by
      intro a ha
      have ha' : a ∈ l := by simpa using ha
      have := hsub a (by simpa using ha')
      cases y with
      | none => simp at this
      | some l' => exact ⟨l', rfl, by simpa using this⟩
    simp only [isExcluded] at h
    split at h
    · rename_i hc
      obtain ⟨l', rfl, hl'⟩ := hmem _ hc
      simp only [isExcluded]
      repeat' split
      all_goals simp_all
    · split at h
      · rename_i hc
        obtain ⟨l', rfl, hl'⟩ := hmem _ hc
        simp only [isExcluded]
        repeat' split
        all_goals simp_all
      · split at h
        · cases h
        · rename_i grp art hsp
          simp only [Option.some.injEq, Bool.or_eq_true] at h
          rcases h with hc | hc
          · obtain ⟨l', rfl, hl'⟩ := hmem _ hc
            simp only [isExcluded]
            repeat' split
            all_goals simp_all
          · obtain ⟨l', rfl, hl'⟩ := hmem _ hc
            simp only [isExcluded]
            repeat' split
            all_goals simp_all

/-- A path of creating edges from the root to node `id`. -/
inductive CreationPath (s : State) : Nat → List Edge → Prop
  | root : CreationPath s 0 []
  | step {a id : Nat} {p : List Edge} {c : Nat × Edge × Todo} :
      CreationPath s a p → c ∈ s.created → c.2.1.src = a → c.1 = id → CreationPath s id (p ++ [c.2.1])

/-- M6, path form (full). An artifact excluded on the creating path of a node is not reached
from that node: for every edge `e` leaving node `id` and every creating edge `e'` on the path
from the root to `id`, the exclusions declared on `e'` do not exclude the name of `e`'s target. -/
theorem m6_excluded_on_path_not_reached {u : Universe} {root : VK} {s : State} {p : Nat}
    (h : Returned u root s p) :
    ∀ id path, CreationPath s id path → ∀ e ∈ s.g.edges, e.src = id → ∀ v, s.g.vkAt e.dst = some v →
      ∀ e' ∈ path, isExcluded (declaredExclusions e'.typ) v.name ≠ some true := by
  obtain ⟨hedge, huniq, hroot, hinh⟩ := m6_excluded_not_reached h
  have hpath : ∀ id path, CreationPath s id path → ∀ x, ExclAt s id x →
      ∀ e' ∈ path, ExclSub (declaredExclusions e'.typ) x := by
    intro id path hp
    induction hp with
    | root => intro x _ e' he'; cases he'
    | step hprev hc hsrc hid ih =>
      rename_i a id p c
      intro x hx e' he'
      obtain ⟨px, hpx, hcx⟩ := hinh c hc
      rw [hid] at hcx
      rw [hsrc] at hpx
      have hxeq := huniq _ _ _ hx hcx
      subst hxeq
      simp only [List.mem_append, List.mem_singleton] at he'
      rcases he' with he' | rfl
      · intro b hb
        exact exclSub_merge_parent _ _ b (ih px hpx e' he' b hb)
      · exact exclSub_merge_own _ _
  intro id path hp e he hsrc v hv e' he' hex
  obtain ⟨x, v', hx, hv', hnot⟩ := hedge e he
  rw [hv] at hv'
  cases hv'
  rw [hsrc] at hx
  exact isExcluded_mono (hpath id path hp x hx e' he') hex hnot

/-! ## M8 and the tree of creating edges; reachability -/

/-- The creating edges (`s.created`: the edges added together with their target node, the only
ones that get `dep.Selector`) form a spanning tree: each is an edge of the graph into its node
from an older node, and every node but the root has one. -/
theorem created_spanning_tree {u : Universe} {root : VK} {s : State} {p : Nat} (h : Returned u root s p) :
    (∀ c ∈ s.created, c.2.1 ∈ s.g.edges ∧ c.2.1.dst = c.1 ∧ c.2.1.src < c.1 ∧
      c.2.1.typ.hasAttr C07Consts.keySelector = true) ∧
    (∀ id, 0 < id → id < s.g.nodes.length → ∃ c ∈ s.created, c.1 = id) := by
  obtain ⟨fuel, reqs0, mgt, _, hl, _⟩ := returned_pass h
  obtain ⟨_, ht⟩ := tree_loop hl
  exact ⟨fun c hc => ⟨(ht.crt c hc).mem, (ht.crt c hc).dst, (ht.crt c hc).src, (ht.crt c hc).sel⟩, ht.cover⟩

/-- M8 (full). A node created through a declaration of type war, ear or rar
(`C07Consts.includesDependenciesTypes`) has no outgoing edge. -/
theorem m8_war_not_traversed {u : Universe} {root : VK} {s : State} {p : Nat} (h : Returned u root s p) :
    ∀ c ∈ s.created, includesDependencies c.2.1.typ = true → ∀ e ∈ s.g.edges, e.src ≠ c.1 := by
  obtain ⟨fuel, reqs0, mgt, _, hl, _⟩ := returned_pass h
  obtain ⟨_, ht⟩ := tree_loop hl
  intro c hc hi
  exact ht.sealed c hc (by rw [(ht.crt c hc).incl]; exact hi)

/-- Every node of a returned graph is reachable from the root. -/
theorem reach_all_nodes {u : Universe} {root : VK} {s : State} {p : Nat} (h : Returned u root s p) :
    ∀ i, i < s.g.nodes.length → Reach s.g i := by
  obtain ⟨hcrt, hcover⟩ := created_spanning_tree h
  intro i
  induction i using Nat.strongRecOn with
  | _ i ih =>
    intro hi
    by_cases h0 : i = 0
    · subst h0; exact .root
    · obtain ⟨c, hc, hci⟩ := hcover i (by omega) hi
      obtain ⟨hmem, hdst, hsrc, _⟩ := hcrt c hc
      have := Reach.step (ih c.2.1.src (by omega) (by omega)) hmem rfl
      rw [hdst, hci] at this
      exact this

/-- Every node has been popped from the todo queue exactly as one element. -/
theorem all_nodes_popped {u : Universe} {root : VK} {s : State} {p : Nat} (h : Returned u root s p) :
    ∀ i, i < s.g.nodes.length → ∃ f t, (i, f, t) ∈ s.done := by
  obtain ⟨fuel, reqs0, mgt, _, hl, _⟩ := returned_pass h
  obtain ⟨_, _, htodo⟩ := prov_loop hl
  obtain ⟨f, ht⟩ := tree_loop hl
  have hf : f = false := by
    cases f with
    | false => rfl
    | true => have := ht.init rfl; rw [this] at htodo; simp [initState] at htodo
  subst hf
  intro i hi
  by_cases h0 : i = 0
  · subst h0; exact ht.rootDone rfl
  · obtain ⟨c, hc, hci⟩ := ht.cover i (by omega) hi
    rcases ht.popped c hc with hp | ⟨f, hp⟩
    · rw [htodo] at hp; cases hp
    · exact ⟨f, c.2.2, by rw [← hci]; exact hp⟩

/-! ## M4 — no declaration is dropped silently -/

/-- M4, first half (full). Every declaration (after the scope filter of `imports`) of every
traversed node that is not excluded is accounted for: by an edge from that node with the
declaration's (managed) requirement and type, or by a node error with that requirement. -/
theorem m4_declarations_accounted {u : Universe} {root : VK} {s : State} {p : Nat} (h : Returned u root s p) :
    ∃ mgt, dependencyManagement u root = some mgt ∧
      ∀ x ∈ s.done, x.2.2.includesDependencies = false →
        ∀ imps, imports u x.2.2.key.vk (optsOf x.2.1) = some imps →
          ∀ d ∈ imps, isExcluded x.2.2.exclusions d.name = some false → Accounted mgt s x.1 x.2.1 d := by
  obtain ⟨fuel, reqs0, mgt, hm, hl, _⟩ := returned_pass h
  exact ⟨mgt, hm, acct_loop hl⟩

/-- M4, converse (full). A node error is recorded only when `findMatch` had no answer: every error
`x` on node `i` is the (managed) requirement of a non-excluded declaration of the todo element popped
for `i`, and `findMatch` answered `errNoMatch` on a prefix, containing that requirement, of the
list finally accumulated for the declaration's artifact key. -/
theorem m4_errors_only_without_match {u : Universe} {root : VK} {s : State} {p : Nat} (h : Returned u root s p) :
    ∃ mgt, dependencyManagement u root = some mgt ∧
      ∀ i, ∀ x ∈ s.g.errAt i, ErrProv u mgt s.done s i x := by
  obtain ⟨fuel, reqs0, mgt, hm, hl, _⟩ := returned_pass h
  exact ⟨mgt, hm, errprov_loop hl⟩

/-- `n + 1` consecutive passes, each fed the requirements of the previous one, all ended in
`errIncompatible`. -/
def IncompatibleChain (u : Universe) (root : VK) (fuel : Nat) : Nat → ReqMap → Prop
  | 0, r => ∃ r', resolveOnce u root r fuel = .error (.incompatible, r')
  | n + 1, r => ∃ r', resolveOnce u root r fuel = .error (.incompatible, r') ∧ IncompatibleChain u root fuel n r'

theorem retry_incompatible {u : Universe} {root : VK} {fuel : Nat} :
    ∀ (n : Nat) (reqs : ReqMap) (passes : Nat), retry u root fuel n reqs passes = .err .incompatible →
      IncompatibleChain u root fuel n reqs := by
  intro n
  induction n with
  | zero =>
    intro reqs passes h
    unfold retry at h
    split at h
    · cases h
    · cases h
    · rename_i r' hr; exact ⟨r', hr⟩
    · rename_i e r' hne hr
      cases h
      exact (hne rfl).elim
  | succ n ih =>
    intro reqs passes h
    unfold retry at h
    split at h
    · cases h
    · cases h
    · rename_i r' hr; exact ⟨r', hr, ih _ _ h⟩
    · rename_i e r' hne hr
      cases h
      exact (hne rfl).elim

/-- M4, second half (full). The incompatible-requirements error is returned only after the
first pass and all `maxRetries` retries ended in it. -/
theorem m4_incompatible_only_after_retries {u : Universe} {root : VK} {fuel : Nat}
    (h : Resolve u root fuel = .err .incompatible) :
    IncompatibleChain u root fuel C07Consts.maxRetries [] :=
  retry_incompatible _ _ _ h

/-! ## M2 — nearest declaration wins -/

/-- M2 relative to the accumulated requirement lists (full). The target of an edge is what
`findMatch` answers on a prefix of the list finally accumulated for the edge's artifact key, and
when that list holds only soft requirements the target is the FIRST of them. -/
theorem m2_soft_requirements_first {u : Universe} {root : VK} {s : State} {p : Nat} (h : Returned u root s p) :
    ∀ e ∈ s.g.edges, ∀ pk, edgeKey s e = some pk →
      (∃ L v, L <+: s.requirements.get pk ∧ e.req ∈ L ∧ s.g.vkAt e.dst = some v ∧ findMatch u v.name L = .ok v.version) ∧
      ((∀ r ∈ s.requirements.get pk, reqKind u r = .soft) →
        ∃ r0 rest, s.requirements.get pk = r0 :: rest ∧ versionAt s e.dst = some r0) := by
  obtain ⟨fuel, reqs0, mgt, _, hl, _⟩ := returned_pass h
  obtain ⟨⟨_, hx⟩, _, _⟩ := prov_loop hl
  intro e he pk hk
  obtain ⟨first, cur, d, imps, mv, L, _, _, _, _, _, hv, hreq, htyp, hpre, hmem, hfm⟩ := (hx.edges e he).ex
  have hkey : pk = depKey d := by
    simp only [edgeKey, hv, Option.map_some, Option.some.injEq] at hk
    rcases htyp with ht | ht
    · rw [ht] at hk; exact hk.symm
    · rw [ht] at hk
      have := packageKey_withSelector d.name d.typ
      simp only [withSelector] at this
      rw [this] at hk; exact hk.symm
  subst hkey
  refine ⟨⟨L, _, hpre, by rw [hreq]; exact hmem, hv, hfm⟩, ?_⟩
  intro hsoft
  obtain ⟨t, ht⟩ := hpre
  cases L with
  | nil => cases hmem
  | cons r0 rest =>
    have hall : ∀ r ∈ r0 :: rest, reqKind u r = .soft := by
      intro r hr; exact hsoft r (by rw [← ht]; exact List.mem_append_left _ hr)
    have := findMatch_all_soft_ok hall hfm
    subst this
    exact ⟨mv, rest ++ t, by rw [← ht]; simp, by simp [versionAt, hv]⟩

/-- The graph was returned by the first pass: no retry after `errIncompatible`. -/
def FirstPass (passes : Nat) : Prop := passes = 1

/-- Full statement of M2 on a returned graph (decidable): for every edge `e`, if all edges to
`e`'s artifact key carry soft requirements, `e` points to the version demanded by the FIRST edge
with that key (edges are in breadth-first discovery order: the nearest declaration). -/
def m2 (u : Universe) (s : State) : Bool :=
  s.g.edges.all fun e =>
    match s.g.vkAt e.dst with
    | none => true
    | some v =>
      let same := s.g.edges.filter (edgeHasKey s.g (packageKeyForDependency v.name e.typ))
      !(same.all fun e' => reqKind u e'.req == .soft) ||
        (match same.head? with
         | some e0 => v.version == e0.req
         | none => true)

def M2_full : Prop := ∀ u root s p, Returned u root s p → m2 u s = true

/-- M2, first pass, relative to the accumulated lists (hypothesis `FirstPass`). When the
list accumulated for an artifact key holds only soft requirements, every edge with that key points to
the version demanded by the first edge with that key. -/
theorem m2_nearest_partial {u : Universe} {root : VK} {s : State} {p : Nat} (h : Returned u root s p)
    (hp : FirstPass p) :
    ∀ pk, (∀ r ∈ s.requirements.get pk, reqKind u r = .soft) →
      ∀ e ∈ s.g.edges, edgeKey s e = some pk →
        ∃ e0, s.g.edges.find? (edgeHasKey s.g pk) = some e0 ∧ versionAt s e.dst = some e0.req := by
  obtain ⟨fuel, reqs0, mgt, _, hl, h1⟩ := returned_pass h
  have := h1 hp
  subst this
  have hn := near_loop hl
  intro pk hsoft e he hk
  obtain ⟨_, hfirst⟩ := m2_soft_requirements_first h e he pk hk
  obtain ⟨r0, rest, hget, hver⟩ := hfirst hsoft
  obtain ⟨e0, hf, hr⟩ := hn.head pk r0 rest hget (hsoft r0 (by rw [hget]; simp))
  exact ⟨e0, hf, by rw [hr]; exact hver⟩

theorem head?_filter_eq_find? {α : Type} (l : List α) (q : α → Bool) : (l.filter q).head? = l.find? q := by
  induction l with
  | nil => rfl
  | cons a l ih =>
    by_cases h : q a = true
    · simp [List.filter, List.find?, h]
    · have h' : q a = false := by simpa using h
      simp [List.filter, List.find?, h', ih]

/-- M2 (partial: hypothesis `FirstPass`) — the full statement `m2` holds for every graph returned
by the first pass: an artifact key all of whose edges carry soft requirements is resolved to the
version demanded by the first edge with that key. -/
theorem m2_partial {u : Universe} {root : VK} {s : State} {p : Nat} (h : Returned u root s p)
    (hp : FirstPass p) : m2 u s = true := by
  obtain ⟨fuel, reqs0, mgt, _, hl, h1⟩ := returned_pass h
  have hr0 := h1 hp
  subst hr0
  have hn := near_loop hl
  simp only [m2, List.all_eq_true]
  intro e he
  split
  · rfl
  · rename_i v hv
    simp only [Bool.or_eq_true, Bool.not_eq_true']
    by_cases hall : ((s.g.edges.filter (edgeHasKey s.g (packageKeyForDependency v.name e.typ))).all
        fun e' => reqKind u e'.req == .soft) = true
    · refine .inr ?_
      -- no hard (and no unparsable) requirement was accumulated for the key
      have hsoft : ∀ r ∈ s.requirements.get (packageKeyForDependency v.name e.typ), reqKind u r = .soft := by
        intro r hr
        cases hk : reqKind u r with
        | soft => rfl
        | bad => exact absurd hk (hn.noBad _ r hr)
        | hard =>
          obtain ⟨e', he', hk', hh'⟩ := hn.hardEdge _ ⟨r, hr, hk⟩
          simp only [List.all_eq_true, List.mem_filter] at hall
          have := hall e' ⟨he', hk'⟩
          rw [hh'] at this
          cases this
      have hkey : edgeKey s e = some (packageKeyForDependency v.name e.typ) := by simp [edgeKey, hv]
      obtain ⟨e0, hf, hver⟩ := m2_nearest_partial h hp _ hsoft e he hkey
      rw [head?_filter_eq_find?, hf]
      simp only [versionAt, hv, Option.map_some, Option.some.injEq] at hver
      simp [hver]
    · exact .inl (by simpa using hall)

/-! ## M1 — one version per artifact key -/

/-- Full statement of M1 on a returned graph (decidable): two edges with one artifact key point
to one version, and an edge with the root's own (default) key points to the root's version. -/
def m1 (s : State) : Bool :=
  (s.g.edges.all fun e1 => s.g.edges.all fun e2 =>
    match s.g.vkAt e1.dst, s.g.vkAt e2.dst with
    | some v1, some v2 =>
      !(packageKeyForDependency v1.name e1.typ == packageKeyForDependency v2.name e2.typ) || v1.version == v2.version
    | _, _ => true) &&
  (s.g.edges.all fun e =>
    match s.g.vkAt e.dst, s.g.vkAt 0 with
    | some v, some r => !(packageKeyForDependency v.name e.typ == defaultKey r.name) || v.version == r.version
    | _, _ => true)

def M1_full : Prop := ∀ u root s p, Returned u root s p → m1 s = true

/-- M1 (partial: hypothesis `DefaultKeys`, every declaration of the universe has the default
classifier and type). Then no two nodes of a returned graph share a name. -/
theorem m1_partial {u : Universe} {root : VK} {s : State} {p : Nat} (hu : DefaultKeys u = true)
    (h : Returned u root s p) :
    m1 s = true ∧
    (∀ i j vi vj, s.g.vkAt i = some vi → s.g.vkAt j = some vj → vi.name = vj.name → i = j) := by
  obtain ⟨fuel, reqs0, mgt, _, hl, _⟩ := returned_pass h
  have hq := uniq_loop hu hl
  refine ⟨?_, hq.names⟩
  simp only [m1, Bool.and_eq_true, List.all_eq_true]
  refine ⟨?_, ?_⟩
  · intro e1 _ e2 _
    split
    · rename_i v1 v2 h1 h2
      by_cases hk : packageKeyForDependency v1.name e1.typ = packageKeyForDependency v2.name e2.typ
      · have hn : v1.name = v2.name := congrArg PackageKey.name hk
        have := hq.names _ _ _ _ h1 h2 hn
        rw [this, h2] at h1
        cases h1
        simp
      · simp [hk]
    · rfl
  · intro e _
    split
    · rename_i v r h1 h2
      by_cases hk : packageKeyForDependency v.name e.typ = defaultKey r.name
      · have hn : v.name = r.name := congrArg PackageKey.name hk
        have := hq.names _ _ _ _ h1 h2 hn
        rw [this, h2] at h1
        cases h1
        simp
      · simp [hk]
    · rfl

/-! ## Refutations of the full M1 and M2 (witnesses of the known findings) -/

namespace Witness
def ga : Bytes := [103, 58, 97]
def gb : Bytes := [103, 58, 98]
def gc : Bytes := [103, 58, 99]
def gj : Bytes := [103, 58, 106]
def gk : Bytes := [103, 58, 107]
def gr : Bytes := [103, 58, 114]
def gy : Bytes := [103, 58, 121]
def v1 : Bytes := [49]
def v10 : Bytes := [49, 46, 48]
def v20 : Bytes := [50, 46, 48]
def v30 : Bytes := [51, 46, 48]
def r2030 : Bytes := [91, 50, 46, 48, 44, 51, 46, 48, 93]     -- "[2.0,3.0]"
def r20 : Bytes := [91, 50, 46, 48, 93]                        -- "[2.0]"
def reg : DepType := { mask := 0, attrs := [] }
def tests : DepType := { mask := 0, attrs := [(4, [116, 101, 115, 116, 115])] }   -- MavenClassifier "tests"

/-- F-C07-classifier (props/C07.known.json): r@1.0 → a@1.0, b@1.0; b@1.0 → (tests) a@1.0, c@1.0;
c@1.0 → (tests) a@[2.0,3.0]; a has 1.0, 2.0, 3.0. -/
def classifierU : Universe :=
  { pkgs := [
      { name := ga, versions := [⟨v10, true, []⟩, ⟨v20, true, []⟩, ⟨v30, true, []⟩] },
      { name := gb, versions := [⟨v10, true, [⟨ga, v10, tests⟩, ⟨gc, v10, reg⟩]⟩] },
      { name := gc, versions := [⟨v10, true, [⟨ga, r2030, tests⟩]⟩] },
      { name := gr, versions := [⟨v10, true, [⟨ga, v10, reg⟩, ⟨gb, v10, reg⟩]⟩] }],
    reqs := [⟨v10, .soft, []⟩, ⟨r2030, .hard, [v20, v30]⟩] }

/-- F-C07-stale-req (props/C07.known.json): r@1 → j@1.0, a@1.0; j@1.0 → y@1.0; y@1.0 → k@1.0;
a@1.0 → b@1.0 → c@1.0 → k@2.0, j@[2.0]; j has 1.0, 2.0; k has 1.0, 2.0. -/
def staleU : Universe :=
  { pkgs := [
      { name := ga, versions := [⟨v10, true, [⟨gb, v10, reg⟩]⟩] },
      { name := gb, versions := [⟨v10, true, [⟨gc, v10, reg⟩]⟩] },
      { name := gc, versions := [⟨v10, true, [⟨gk, v20, reg⟩, ⟨gj, r20, reg⟩]⟩] },
      { name := gj, versions := [⟨v10, true, [⟨gy, v10, reg⟩]⟩, ⟨v20, true, []⟩] },
      { name := gk, versions := [⟨v10, true, []⟩, ⟨v20, true, []⟩] },
      { name := gr, versions := [⟨v1, true, [⟨gj, v10, reg⟩, ⟨ga, v10, reg⟩]⟩] },
      { name := gy, versions := [⟨v10, true, [⟨gk, v10, reg⟩]⟩] }],
    reqs := [⟨v10, .soft, []⟩, ⟨v20, .soft, []⟩, ⟨r20, .hard, [v20]⟩] }

/-- evaluate a decidable graph predicate on what `Resolve` returns -/
def onGraph (r : Result) (f : State → Bool) : Bool :=
  match r with
  | .graph s _ => f s
  | _ => true

def passesOf (r : Result) : Nat :=
  match r with
  | .graph _ p => p
  | _ => 0
end Witness

open Witness in
/-- M1 fails on the unchanged code (F-C07-classifier): artifact key (g:a, tests) is resolved to
1.0 and to 3.0 in one graph, returned by the first pass. -/
theorem m1_false : ¬ M1_full := by
  intro h
  have key : ∀ r, r = Resolve classifierU ⟨gr, v10⟩ classifierU.fuel → onGraph r m1 = true := by
    intro r hr
    cases r with
    | graph s p => exact h _ _ s p ⟨_, hr.symm⟩
    | err e => rfl
    | outOfFuel => rfl
  exact absurd (key _ rfl) (by decide)

open Witness in
/-- M2 fails on the unchanged code (F-C07-stale-req): the only edge to g:k asks for 2.0 (a soft
requirement; 2.0 exists) and points to 1.0, in a graph returned after one retry. -/
theorem m2_false : ¬ M2_full := by
  intro h
  have key : ∀ r, r = Resolve staleU ⟨gr, v1⟩ staleU.fuel → onGraph r (m2 staleU) = true := by
    intro r hr
    cases r with
    | graph s p => exact h _ _ s p ⟨_, hr.symm⟩
    | err e => rfl
    | outOfFuel => rfl
  exact absurd (key _ rfl) (by decide)

/-! ## Non-vacuity -/

open Witness in
/-- The classifier witness is returned by the first pass with five nodes: `Returned` and
`FirstPass` are inhabited, and the witness lies outside `DefaultKeys`. -/
example : passesOf (Resolve classifierU ⟨gr, v10⟩ classifierU.fuel) = 1 ∧
    onGraph (Resolve classifierU ⟨gr, v10⟩ classifierU.fuel) (fun s => s.g.nodes.length == 5) = true ∧
    DefaultKeys classifierU = false := by decide

open Witness in
/-- The stale-requirement universe satisfies `DefaultKeys`; its graph needs two passes, has six
nodes and satisfies M1 (as `m1_partial` says it must). -/
example : DefaultKeys staleU = true ∧ passesOf (Resolve staleU ⟨gr, v1⟩ staleU.fuel) = 2 ∧
    onGraph (Resolve staleU ⟨gr, v1⟩ staleU.fuel) (fun s => s.g.nodes.length == 6 && m1 s) = true := by decide

open Witness in
/-- A first-pass graph with a range edge, a managed version and an exclusion (hypotheses of M3, M5,
M6 met non-trivially): r@1.0 manages k→2.0, depends on c@1.0 excluding g:j; c@1.0 → k@1.0 (managed to
2.0), j@[2.0] (excluded), y@[2.0] (a range edge). -/
example :
    let u : Universe :=
      { pkgs := [
          { name := gc, versions := [⟨v10, true, [⟨gk, v10, reg⟩, ⟨gj, r20, reg⟩, ⟨gy, r20, reg⟩]⟩] },
          { name := gj, versions := [⟨v20, true, []⟩] },
          { name := gk, versions := [⟨v10, true, []⟩, ⟨v20, true, []⟩] },
          { name := gy, versions := [⟨v20, true, []⟩] },
          { name := gr, versions := [⟨v10, true,
              [⟨gk, v20, { mask := 0, attrs := [(6, [109, 97, 110, 97, 103, 101, 109, 101, 110, 116])] }⟩,
               ⟨gc, v10, { mask := 0, attrs := [(9, gj)] }⟩]⟩] }],
        reqs := [⟨v10, .soft, []⟩, ⟨v20, .soft, []⟩, ⟨r20, .hard, [v20]⟩] }
    passesOf (Resolve u ⟨gr, v10⟩ u.fuel) = 1 ∧
    onGraph (Resolve u ⟨gr, v10⟩ u.fuel) (fun s =>
      s.g.nodes.length == 4 && s.g.edges.length == 3 &&
      s.g.edges.any (fun e => reqKind u e.req == .hard) &&
      s.g.nodes.all (fun n => n.vk.name != gj)) = true := by decide

/-! ## Ties to the generated constants -/

/-- The constants the model is written against have the values the statements above were read
with: 100 retries; war/ear/rar; "provided"; "management"; "jar"; the exclusion wildcards; the
attribute keys of `dep`. A change of any of them in /repo breaks this theorem. The two tables
the model only tests membership in (`includesDependenciesTypes`, `exclusionSeparators`) are
pinned as sets (permutation + no duplicate): the order in which /repo writes the comparisons is
immaterial. -/
theorem consts_tie :
    C07Consts.maxRetries = 100 ∧
    C07Consts.includesDependenciesTypes.isPerm [[101, 97, 114], [119, 97, 114], [114, 97, 114]] = true ∧
    C07Consts.includesDependenciesTypes.Nodup ∧
    C07Consts.scopeProvided = [112, 114, 111, 118, 105, 100, 101, 100] ∧
    C07Consts.originManagement = [109, 97, 110, 97, 103, 101, 109, 101, 110, 116] ∧
    C07Consts.defaultArtifactType = [106, 97, 114] ∧
    C07Consts.exclAll = [42, 58, 42] ∧ C07Consts.nameSep = [58] ∧
    C07Consts.exclGroupSuffix = [58, 42] ∧ C07Consts.exclArtifactPrefix = [42, 58] ∧
    C07Consts.exclusionSeparators.isPerm [124, 44] = true ∧ C07Consts.exclusionSeparators.Nodup ∧
    C07Consts.keyOpt = -2 ∧ C07Consts.keyTest = -4 ∧ C07Consts.keyScope = 3 ∧
    C07Consts.keyClassifier = 4 ∧ C07Consts.keyArtifactType = 5 ∧ C07Consts.keyOrigin = 6 ∧
    C07Consts.keyExclusions = 9 ∧ C07Consts.keySelector = 11 := by decide

end DepsDev.Props.C07

/-
TIES (DESIGN 3.3) — what each theorem rests on.

all theorems:
  model: Resolve.Maven.{Resolve, retry, resolveOnce, loop, processDeps, processDep, findMatch, scan, pick,
         matchesAll, imports, filterImport, optsOf, toDep, declaredExclusions, parseExclusions, fieldsAux,
         dependencyManagement, managedVersion, depKey, depVer, reqsAfter, curIdOf, childTodo, mergeExcl,
         isExcluded, splitName, includesDependencies, packageKeyForDependency, DepType.getAttr/hasAttr/setAttr,
         Graph.addNode/addEdge/addError, clientVersion/clientVersions/clientRequirements, reqKind, reqMatches,
         initState, rootKey}                                              (Model/Resolve/Maven.lean)
  tie:   correspondence stream `C07 resolve` (every op line: canonical Go result = canonical model result,
         including the number of passes); the ghost fields State.done / State.created / the final
         State.requirements are NOT observed by the correspondence (they are defined by the model run).
  Gen:   C07Consts.{maxRetries, keyOpt, keyTest, keyScope, keyClassifier, keyArtifactType, keyOrigin,
         keyExclusions, keySelector, includesDependenciesTypes, scopeProvided, originManagement,
         defaultArtifactType, exclAll, nameSep, exclGroupSuffix, exclArtifactPrefix, exclusionSeparators}
         (consts_tie pins their values; Proofs/C07Attr.lean needs keySelector different from the keys read).
  data:  Universe.reqs (soft / hard / unparsable, and which strings a range matches) and the order of
         Package.versions are INPUTS computed by the harness with the real semver / SortVersions;
         "is a range" and "inside the range" in M2, M3 mean these tables (C03/C12 own their meaning).
m1_false, m2_false: evaluation (`decide`) of Resolve on Witness.classifierU / Witness.staleU, which are the
  decoded op lines of props/C07.known.json (checked equal once with the driver's parser).
-/
