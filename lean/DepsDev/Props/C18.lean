/-
C18 — the API-backed client maps bundles and aliases consistently, race-free.

Statements and top-level theorems only; helper lemmas are in `Proofs/C18*.lean`, the
model in `Model/Resolve/ApiClient*.lean`. `S` is ANY service (a function from keys to
responses), `m` is ANY `MatchRequirement`, responses have any nesting depth and any
names, unless a hypothesis says otherwise.

B1  every bundle a requirements response lists becomes a package (its mangled name)
    with a single Concrete version recording the package it derives from;
B2  its bundling parent requires it with a requirement matching exactly that version;
B3  all four client calls read that one entry;
B4  `npm:name@range` becomes a requirement on `name` with `range`, carrying the alias;
B5  the API client and the in-memory client holding the same data answer alike;
B6  under any interleaving of atomic calls the store is monotone.
-/
import DepsDev.Proofs.C18Flatten
import DepsDev.Proofs.C18Store
import DepsDev.Proofs.C18Unambiguous

namespace DepsDev.Props.C18
open DepsDev
open DepsDev.Model.Resolve.ApiClient
open DepsDev.Proofs.C18

/-! ## B1 -/

/-- the entry B1 expects for bundle `b` of the response to `Requirements(vk)`. -/
def bundledVersionOf (vk : VersionKey) (b : Bundle) : Version :=
  ⟨⟨mangledOf vk b, .concrete, b.version⟩, { derivedFrom := some b.name }⟩

/-- B1, every response: after a successful `Requirements(vk)` every listed bundle is a
package (its mangled name — recognised as a bundle by `isNPMBundle`) with exactly one
version, Concrete, recording the package a listed bundle AT THAT NAME derives from. -/
theorem b1_general (S : Service) (st : Store) (vk : VersionKey) (reqs : NpmReqs) (ds : List ReqVer)
    (hplain : isNPMBundle vk.name = false)
    (hresp : S.getRequirements vk.name vk.version = some (some reqs))
    (hok : (requirements S st vk).1 = .ok ds) :
    ∀ b ∈ reqs.bundled, ∃ b' ∈ reqs.bundled, mangledOf vk b' = mangledOf vk b ∧
      isNPMBundle (mangledOf vk b) = true ∧
      versions S (requirements S st vk).2 (mangledOf vk b) = .ok [bundledVersionOf vk b'] := by
  intro b hb
  rcases requirements_cases S st vk with ⟨_, h⟩ | ⟨reqs', all, _, h2, h3, h4, _⟩
  · have := h ds hok; simp [hplain] at this
  · rw [hresp] at h2
    simp only [Option.some.injEq] at h2
    subst h2
    obtain ⟨acc, b', hl, hb', hm, hvk, hon⟩ := buildAllDeps_entry h3 hb
    refine ⟨b', hb', hm, isNPMBundle_mangledOf vk b, ?_⟩
    rw [versions_bundle _ _ _ (isNPMBundle_mangledOf vk b), h4, applyWrites_apply]
    simp only [mangledOf_ne_name vk b, if_false, hl]
    simp [toEntry, bundledVersionOf, hvk, hon, hm]

/-- B1 on responses without two bundles at one mangled name: the single version is
the bundle's own (`b.Version`, `DerivedFrom = b.Name`). -/
theorem b1 (S : Service) (st : Store) (vk : VersionKey) (reqs : NpmReqs) (ds : List ReqVer)
    (hplain : isNPMBundle vk.name = false)
    (hresp : S.getRequirements vk.name vk.version = some (some reqs))
    (hok : (requirements S st vk).1 = .ok ds)
    (hnd : KeysNodup vk reqs) :
    ∀ b ∈ reqs.bundled,
      versions S (requirements S st vk).2 (mangledOf vk b) = .ok [bundledVersionOf vk b] := by
  intro b hb
  obtain ⟨b', hb', hm, _, hv⟩ := b1_general S st vk reqs ds hplain hresp hok b hb
  have : b' = b := inj_of_nodup_map (mangledOf vk) hnd hb' hb hm
  subst this; exact hv

/-! ## B2 -/

/-- the requirements the bundling parent of `b` answers with: the result of the
`Requirements(vk)` call itself for a directly bundled package, the stored requirements
of the parent bundle otherwise. -/
def parentRequirements (S : Service) (st' : Store) (vk : VersionKey) (ds : List ReqVer) (b : Bundle) :
    Res (List ReqVer) :=
  if parentNameOf vk b = vk.name then .ok ds
  else (requirements S st' ⟨parentNameOf vk b, .concrete, []⟩).1

/-- B2 (responses without two bundles at one mangled name): the bundling parent of
every bundle carries the requirement `(mangled name, b.Version)`, and
`MatchingVersions` of that requirement returns exactly the bundled version. -/
theorem b2 (m : MatchReq) (S : Service) (st : Store) (vk : VersionKey) (reqs : NpmReqs) (ds : List ReqVer)
    (hplain : isNPMBundle vk.name = false)
    (hresp : S.getRequirements vk.name vk.version = some (some reqs))
    (hok : (requirements S st vk).1 = .ok ds)
    (hnd : KeysNodup vk reqs) :
    ∀ b ∈ reqs.bundled,
      (∃ rs, parentRequirements S (requirements S st vk).2 vk ds b = .ok rs ∧ bundleReq vk b ∈ rs) ∧
      (bundleReq vk b).key.version = b.version ∧
      matchingVersions m S (requirements S st vk).2 (bundleReq vk b).key = .ok [bundledVersionOf vk b] := by
  intro b hb
  rcases requirements_cases S st vk with ⟨_, h⟩ | ⟨reqs', all, _, h2, h3, h4, h5⟩
  · have := h ds hok; simp [hplain] at this
  · rw [hresp] at h2
    simp only [Option.some.injEq] at h2
    subst h2
    rw [h5] at hok
    simp only [Res.ok.injEq] at hok
    refine ⟨?_, rfl, ?_⟩
    · obtain ⟨pacc, hl, hmem⟩ := buildAllDeps_parentInv h3 hnd b hb
      unfold parentRequirements
      by_cases hp : parentNameOf vk b = vk.name
      · refine ⟨ds, by simp [hp], ?_⟩
        rw [← hok]
        unfold rootDeps
        rw [← hp, hl]
        exact hmem
      · simp only [hp, if_false]
        have hbund : isNPMBundle (parentNameOf vk b) = true := by
          rcases parentNameOf_cases vk b with h | ⟨pkgs, h⟩
          · exact absurd h hp
          · rw [h]; exact isNPMBundle_mangledName vk pkgs
        rw [requirements_bundle _ _ _ hbund, h4]
        simp only [applyWrites_apply, hp, if_false, hl]
        exact ⟨_, rfl, by simpa [toEntry] using hmem⟩
    · obtain ⟨acc, hl, hvk, hon⟩ := buildAllDeps_entry_own h3 hnd hb
      have hbund : isNPMBundle (bundleReq vk b).key.name = true := isNPMBundle_mangledOf vk b
      rw [matchingVersions_bundle m _ _ _ hbund, h4]
      simp only [bundleReq, applyWrites_apply, mangledOf_ne_name vk b, if_false, hl]
      simp [toEntry, bundledVersionOf, hvk, hon]

/-- B2 without the distinct-names hypothesis. -/
def B2_all_responses : Prop :=
  ∀ (m : MatchReq) (S : Service) (st : Store) (vk : VersionKey) (reqs : NpmReqs) (ds : List ReqVer),
    isNPMBundle vk.name = false → S.getRequirements vk.name vk.version = some (some reqs) →
    (requirements S st vk).1 = .ok ds →
    ∀ b ∈ reqs.bundled,
      matchingVersions m S (requirements S st vk).2 (bundleReq vk b).key = .ok [bundledVersionOf vk b]

/-- why `KeysNodup` is there: a (malformed) response listing two bundles at ONE path
with different versions leaves the parent with a requirement for the first version
that matches nothing — only the last entry at a path is stored. A domain precondition
(an installation path holds one package), not a finding. -/
theorem b2_all_responses_false : ¬ B2_all_responses := by
  intro h
  let b1 : Bundle := ⟨nodeModulesPrefix ++ [98], [98], [49], {}⟩
  let b2 : Bundle := ⟨nodeModulesPrefix ++ [98], [98], [50], {}⟩
  let rq : NpmReqs := { bundled := [b1, b2] }
  let S : Service := ⟨fun _ => none, fun _ _ => none, fun _ _ => some (some rq)⟩
  have := h (fun _ _ => .ok []) S Store.empty ⟨[97], .concrete, [49]⟩ rq _ (by decide) rfl rfl b1 (by simp [rq])
  revert this
  decide

/-! ## B3 -/

/-- B3: for a bundle name the four calls read the same `bundledVersions` entry (and
all four fail exactly when there is none). -/
theorem b3 (m : MatchReq) (S : Service) (st : Store) (vk : VersionKey) (hb : isNPMBundle vk.name = true) :
    (∀ e, st vk.name = some e →
      version S st vk = .ok e.version ∧
      versions S st vk.name = .ok [e.version] ∧
      requirements S st vk = (.ok e.requirements, st) ∧
      matchingVersions m S st vk = .ok (if e.version.key.version = vk.version then [e.version] else [])) ∧
    (st vk.name = none →
      version S st vk = .err ∧ versions S st vk.name = .err ∧
      requirements S st vk = (.err, st) ∧ matchingVersions m S st vk = .err) := by
  rw [version_bundle S st vk hb, versions_bundle S st vk.name hb, requirements_bundle S st vk hb,
    matchingVersions_bundle m S st vk hb]
  constructor
  · intro e he
    rw [he]
    refine ⟨rfl, rfl, rfl, ?_⟩
    by_cases h : e.version.key.version = vk.version <;> simp [h]
  · intro he
    rw [he]
    exact ⟨rfl, rfl, rfl, rfl⟩

/-- B1–B3 together: after `Requirements(bundler)` the four calls on every bundle it
lists return the same single version, found by the parent's requirement. -/
theorem b3_after_requirements (m : MatchReq) (S : Service) (st : Store) (vk : VersionKey) (reqs : NpmReqs)
    (ds : List ReqVer)
    (hplain : isNPMBundle vk.name = false)
    (hresp : S.getRequirements vk.name vk.version = some (some reqs))
    (hok : (requirements S st vk).1 = .ok ds)
    (hnd : KeysNodup vk reqs) :
    ∀ b ∈ reqs.bundled, ∃ rs,
      let st' := (requirements S st vk).2
      let key : VersionKey := ⟨mangledOf vk b, .concrete, b.version⟩
      version S st' key = .ok (bundledVersionOf vk b) ∧
      versions S st' key.name = .ok [bundledVersionOf vk b] ∧
      requirements S st' key = (.ok rs, st') ∧
      matchingVersions m S st' (bundleReq vk b).key = .ok [bundledVersionOf vk b] := by
  intro b hb
  have hv := b1 S st vk reqs ds hplain hresp hok hnd b hb
  have hbund : isNPMBundle (mangledOf vk b) = true := isNPMBundle_mangledOf vk b
  rw [versions_bundle _ _ _ hbund] at hv
  cases he : (requirements S st vk).2 (mangledOf vk b) with
  | none => rw [he] at hv; cases hv
  | some e =>
    rw [he] at hv
    simp only [Res.ok.injEq, List.cons.injEq, and_true] at hv
    have h3 := (b3 m S (requirements S st vk).2 ⟨mangledOf vk b, .concrete, b.version⟩ hbund).1 e he
    refine ⟨e.requirements, ?_, ?_, h3.2.2.1, ?_⟩
    · rw [h3.1, hv]
    · rw [h3.2.1, hv]
    · exact (b2 m S st vk reqs ds hplain hresp hok hnd b hb).2.2

/-! ## B4 -/

/-- B4, the split-at-the-last-'@' law: for every name (also with '@' and '/', e.g.
`@s/c`) and every range without '@'. -/
theorem b4_split_last (t : DepType) (alias name range : Bytes) (hr : atSign ∉ range) :
    addDep t ⟨alias, npmPrefix ++ (name ++ atSign :: range)⟩ =
      ⟨⟨name, .requirement, range⟩, { t with knownAs := some alias }⟩ :=
  addDep_alias t alias name range hr

/-- an npm package name: an optional leading '@' (scope marker), no other '@'. -/
def NpmName (name : Bytes) : Prop := name ≠ [] ∧ atSign ∉ name.drop 1

/-- B4 at full strength: every aliased dependency `npm:<name>` or `npm:<name>@<range>`
is a requirement on the real name carrying the alias. -/
def B4_full : Prop :=
  ∀ (t : DepType) (alias name : Bytes) (range : Option Bytes), NpmName name →
    (∀ r, range = some r → atSign ∉ r) →
    let r := addDep t ⟨alias, npmPrefix ++ name ++ (match range with | some r => atSign :: r | none => [])⟩
    r.key.name = name ∧ r.typ.knownAs = some alias

/-- F-C18-alias-norange: `"x": "npm:b"` becomes a requirement on package `x` with
version `npm:b`. -/
theorem b4_norange_plain :
    addDep regular ⟨[120], npmPrefix ++ [98]⟩ = ⟨⟨[120], .requirement, npmPrefix ++ [98]⟩, { knownAs := some [120] }⟩ := by
  decide

/-- F-C18-alias-norange: `"x": "npm:@s/c"` becomes a requirement on the EMPTY package
name with version `s/c`. -/
theorem b4_norange_scoped :
    addDep regular ⟨[120], npmPrefix ++ [64, 115, 47, 99]⟩ = ⟨⟨[], .requirement, [115, 47, 99]⟩, { knownAs := some [120] }⟩ := by
  decide

theorem b4_full_false : ¬ B4_full := by
  intro h
  have := (h regular [120] [98] none ⟨by decide, by decide⟩ (fun _ e => by cases e)).1
  revert this
  decide

/-- B4, proved: when the alias target has a range (`hasRange`, the clause finding
F-C18-alias-norange removes) the requirement is on the target's name part — which is
not empty — with the range after the last '@', carrying the alias. -/
theorem b4_partial (t : DepType) (alias target : Bytes) (h : hasRange target = true) :
    ∃ name range, name ≠ [] ∧ atSign ∉ range ∧ target = name ++ atSign :: range ∧
      addDep t ⟨alias, npmPrefix ++ target⟩ =
        ⟨⟨name, .requirement, range⟩, { t with knownAs := some alias }⟩ := by
  obtain ⟨name, range, hne, hr, rfl⟩ := (hasRange_iff target).mp h
  exact ⟨name, range, hne, hr, rfl, addDep_alias t alias name range hr⟩

/-- B4 through `flattenNPMDeps`: an aliased dependency in any of the four sections
yields the requirement on the real name with the section's type and the alias. -/
theorem b4_flatten (d : Deps) (alias name range : Bytes) (hr : atSign ∉ range) :
    let x : Dep := ⟨alias, npmPrefix ++ (name ++ atSign :: range)⟩
    (x ∈ d.dependencies → ⟨⟨name, .requirement, range⟩, { knownAs := some alias }⟩ ∈ flattenNPMDeps d) ∧
    (x ∈ d.devDependencies → ⟨⟨name, .requirement, range⟩, { dev := true, knownAs := some alias }⟩ ∈ flattenNPMDeps d) ∧
    (x ∈ d.optionalDependencies → ⟨⟨name, .requirement, range⟩, { opt := true, knownAs := some alias }⟩ ∈ flattenNPMDeps d) ∧
    (x ∈ d.peerDependencies → ⟨⟨name, .requirement, range⟩, { scope := some peerScope, knownAs := some alias }⟩ ∈ flattenNPMDeps d) := by
  intro x
  have e : ∀ t, addDep t x = ⟨⟨name, .requirement, range⟩, { t with knownAs := some alias }⟩ :=
    fun t => addDep_alias t alias name range hr
  refine ⟨fun h => ?_, fun h => ?_, fun h => ?_, fun h => ?_⟩ <;>
    rw [mem_flatten] <;> simp only [flattenRaw, List.mem_append, List.mem_map]
  · exact Or.inl (Or.inl (Or.inl (Or.inl ⟨x, h, e regular⟩)))
  · exact Or.inl (Or.inl (Or.inl (Or.inr ⟨x, h, e devType⟩)))
  · exact Or.inl (Or.inl (Or.inr ⟨x, h, e optType⟩))
  · exact Or.inl (Or.inr ⟨x, h, e peerType⟩)

/-- every flattened requirement comes from a declared entry: nothing is invented and
nothing is dropped (`flattenNPMDeps` is a permutation of the per-entry images). -/
theorem flatten_is_perm (d : Deps) : (flattenNPMDeps d).Perm (flattenRaw d) := flatten_perm d

/-- the classifier of F-C18-alias-norange is the negation of B4's hypothesis. -/
theorem hasRange_spec (target : Bytes) :
    hasRange target = true ↔ ∃ name range, name ≠ [] ∧ atSign ∉ range ∧ target = name ++ atSign :: range :=
  hasRange_iff target

/-! ## B6 — interleavings -/

/-- B6, invariant: after ANY interleaving of atomic calls of any number of threads,
every stored entry is the one the service's responses define for its key. -/
theorem b6_store_invariant (m : MatchReq) (S : Service) (sched : Schedule) :
    StoreInv S (runSched m S Store.empty sched) :=
  runSched_inv m sched (storeInv_empty S)

/-- B6, monotone store: once a key is present its value never changes, whatever the
threads do afterwards. -/
theorem b6_monotone (m : MatchReq) (S : Service) (hU : Unambiguous S) (pre post : Schedule)
    (k : Bytes) (e : BundledVersion)
    (h : runSched m S Store.empty pre k = some e) :
    runSched m S Store.empty (pre ++ post) k = some e ∧ Written S k e := by
  rw [runSched_append]
  exact ⟨runSched_mono m hU post (b6_store_invariant m S pre) h, b6_store_invariant m S pre k e h⟩

/-- B6, the consequence for a thread: after its own successful `Requirements(vk)` —
at any point `pre` of any interleaving — every later lookup of a bundle the response
lists (after any further steps `mid` of any threads) returns the entry the service
defines, through all four calls. -/
theorem b6_lookup_after_own_requirements (m : MatchReq) (S : Service) (hU : Unambiguous S)
    (pre mid : Schedule) (t : Nat) (vk : VersionKey) (reqs : NpmReqs) (ds : List ReqVer)
    (hplain : isNPMBundle vk.name = false)
    (hresp : S.getRequirements vk.name vk.version = some (some reqs))
    (hok : (exec m S (runSched m S Store.empty pre) (.requirements vk)).1 = .requirements (.ok ds))
    (hnd : KeysNodup vk reqs) :
    ∀ b ∈ reqs.bundled, ∃ e, Written S (mangledOf vk b) e ∧ e.version = bundledVersionOf vk b ∧
      let st := runSched m S Store.empty (pre ++ (t, .requirements vk) :: mid)
      let key : VersionKey := ⟨mangledOf vk b, .concrete, b.version⟩
      st (mangledOf vk b) = some e ∧
      version S st key = .ok e.version ∧
      versions S st key.name = .ok [e.version] ∧
      (requirements S st key).1 = .ok e.requirements ∧
      matchingVersions m S st (bundleReq vk b).key = .ok [e.version] := by
  intro b hb
  have hI := b6_store_invariant m S pre
  have hok' : (requirements S (runSched m S Store.empty pre) vk).1 = .ok ds := by
    simpa [exec] using hok
  have hv := b1 S _ vk reqs ds hplain hresp hok' hnd b hb
  have hbund : isNPMBundle (mangledOf vk b) = true := isNPMBundle_mangledOf vk b
  rw [versions_bundle _ _ _ hbund] at hv
  cases he : (requirements S (runSched m S Store.empty pre) vk).2 (mangledOf vk b) with
  | none => rw [he] at hv; cases hv
  | some e =>
    rw [he] at hv
    simp only [Res.ok.injEq, List.cons.injEq, and_true] at hv
    have hI1 : StoreInv S (exec m S (runSched m S Store.empty pre) (.requirements vk)).2 :=
      exec_inv m _ hI
    have hst : runSched m S Store.empty (pre ++ (t, .requirements vk) :: mid) (mangledOf vk b) = some e := by
      rw [runSched_append]
      exact runSched_mono m hU mid hI1 (by simpa [exec] using he)
    refine ⟨e, hI1 _ e (by simpa [exec] using he), hv, hst, ?_⟩
    have h3 := (b3 m S _ ⟨mangledOf vk b, .concrete, b.version⟩ hbund).1 e hst
    refine ⟨h3.1, h3.2.1, by rw [h3.2.2.1], ?_⟩
    have h4 := (b3 m S _ (bundleReq vk b).key hbund).1 e hst
    rw [h4.2.2.2, hv]
    simp [bundledVersionOf, bundleReq]

/-! ## B5 — agreement with the in-memory client -/

/-- the ordering premise along a call sequence: every call satisfies `AskedOK` at the
store the API client has when the call is made. -/
def WellAsked (m : MatchReq) (sortVers : List Version → List Version) (mentioned : Bytes → Bool)
    (S : Service) (F : Store) : Store → List Call → Prop
  | _, [] => True
  | st, c :: cs => AskedOK m sortVers mentioned S F st c ∧
      WellAsked m sortVers mentioned S F (exec m S st c).2 cs

/-- B5 (partial: the ordering premise and the data-coherence premises are hypotheses;
the harness checks them on the real npm resolver). For a coherent, unambiguous service
`S`, the in-memory client loaded with the data of `S` (`load`, with `F = F(S)`) answers
every call of a well-asked sequence as the API client over `S` does (results of
`Version` compared by key). -/
theorem b5_partial (m : MatchReq) (sortVers : List Version → List Version) (mentioned : Bytes → Bool)
    (S : Service) (F : Store)
    (hF : ∀ k e, F k = some e ↔ Written S k e)
    (hperm : ∀ l, (sortVers l).Perm l)
    (hsort : ∀ vk l, m vk (sortVers l) = m vk l)
    (hcoh : Coherent S) :
    ∀ (cs : List Call) (st : Store), StoreInv S st → WellAsked m sortVers mentioned S F st cs →
      AgreeAll (runCalls m S st cs).1 (cs.map (Local.exec m (load sortVers mentioned S F)))
  | [], _, _, _ => trivial
  | c :: cs, _, hI, hw =>
    ⟨b5_call hF hperm hsort hcoh hI c hw.1,
      b5_partial m sortVers mentioned S F hF hperm hsort hcoh cs _ (exec_inv m c hI) hw.2⟩

/-- `F(S)` exists for every unambiguous service, so `b5_partial` is not vacuous in `F`. -/
theorem b5_F_exists (S : Service) (hU : Unambiguous S) : ∃ F : Store, ∀ k e, F k = some e ↔ Written S k e :=
  exists_F hU

/-- B6's hypothesis is checkable: `F(S)` is a function whenever no served version
string contains '>' (names asked through the plain path never do). -/
theorem b6_unambiguous_of_gtfree (S : Service) (h : VersionsGtFree S) : Unambiguous S :=
  unambiguous_of_gtfree S h

/-! ## Non-vacuity: the hypotheses are satisfiable together

`a@1` declares the aliased dependency `"x": "npm:@s/c@^1"` and bundles `b@1.5`
(`node_modules/b`) which itself bundles `@s/c@2` (`node_modules/b/node_modules/@s/c`);
the response lists the nested bundle first. -/
namespace Example

def root : VersionKey := ⟨[97], .concrete, [49]⟩
def bundleB : Bundle := ⟨nodeModulesPrefix ++ [98], [98], [49, 46, 53], {}⟩
def bundleC : Bundle := ⟨nodeModulesPrefix ++ [98] ++ nodeModulesSep ++ [64, 115, 47, 99], [64, 115, 47, 99], [50], {}⟩
def reqs : NpmReqs :=
  { dependencies := { dependencies := [⟨[120], npmPrefix ++ [64, 115, 47, 99, 64, 94, 49]⟩] },
    bundled := [bundleC, bundleB] }

def S : Service where
  getPackage n := if n = [97] then some [⟨[49], true⟩] else none
  getVersion n v := if n = [97] ∧ v = [49] then some ⟨true, []⟩ else none
  getRequirements n v := if n = [97] ∧ v = [49] then some (some reqs) else none

/-- `Requirements(a@1)`: the alias is resolved to `@s/c` / `^1` / KnownAs `x`, the
directly bundled `b` is required under `a>1>b` with version `1.5`. -/
def rootReqs : List ReqVer :=
  [⟨⟨[64, 115, 47, 99], .requirement, [94, 49]⟩, { knownAs := some [120] }⟩,
   ⟨⟨[97, 62, 49, 62, 98], .requirement, [49, 46, 53]⟩, {}⟩]

example : isNPMBundle root.name = false := by decide
example : S.getRequirements root.name root.version = some (some reqs) := by decide
example : KeysNodup root reqs := by unfold KeysNodup; decide
example : (requirements S Store.empty root).1 = .ok rootReqs := by decide
/-- the nested bundle is reachable under `a>1>b>@s/c` and its parent `a>1>b` requires it. -/
example : mangledOf root bundleC = [97, 62, 49, 62, 98, 62, 64, 115, 47, 99] := by decide
example : (requirements S (requirements S Store.empty root).2 ⟨mangledOf root bundleB, .concrete, [49, 46, 53]⟩).1 =
    .ok [bundleReq root bundleC] := by decide
example : hasRange [64, 115, 47, 99, 64, 94, 49] = true := by decide

/-- B6's and B5's service hypotheses hold for it. -/
theorem versionsGtFree : VersionsGtFree S := by
  intro n v h
  unfold S at h
  simp only at h
  by_cases hc : n = [97] ∧ v = [49]
  · rw [hc.2]; decide
  · simp [hc] at h

theorem unambiguous : Unambiguous S := unambiguous_of_gtfree S versionsGtFree

theorem coherent : Coherent S := by
  intro n v _
  unfold S
  simp only
  by_cases hn : n = [97]
  · subst hn
    by_cases hv : v = [49]
    · subst hv; simp
    · simp [hv]
      exact fun e => hv e.symm
  · simp [hn]

/-- an exact matcher (`MatchRequirement` reading a version string as "exactly it"). -/
def exactMatch : MatchReq := fun vk vs => .ok (vs.filter fun v => v.key.version = vk.version)

/-- a well-asked sequence: `Requirements(a@1)`, then the bundle `a>1>b` through
`MatchingVersions` of the parent's requirement, `Version` and `Requirements` of the
Concrete key it returned. -/
def calls : List Call :=
  [.requirements root, .matching (bundleReq root bundleB).key,
   .version ⟨mangledOf root bundleB, .concrete, [49, 46, 53]⟩,
   .requirements ⟨mangledOf root bundleB, .concrete, [49, 46, 53]⟩]

theorem wellAsked (F : Store) : WellAsked exactMatch id (fun _ => false) S F Store.empty calls := by
  have hst : (requirements S Store.empty root).2 (mangledOf root bundleB) =
      some ⟨bundledVersionOf root bundleB, [bundleReq root bundleC]⟩ := by decide
  refine ⟨?_, ?_, ?_, ?_, trivial⟩
  · exact ⟨rfl, by decide⟩
  · refine ⟨fun _ => ?_, fun e he => ?_⟩
    · show (requirements S Store.empty root).2 (mangledOf root bundleB) ≠ none
      rw [hst]; simp
    · have he' : (requirements S Store.empty root).2 (mangledOf root bundleB) = some e := he
      rw [hst] at he'
      cases he'
      decide
  · refine ⟨fun _ => ?_, fun e he => ?_⟩
    · show (requirements S Store.empty root).2 (mangledOf root bundleB) ≠ none
      rw [hst]; simp
    · have he' : (requirements S Store.empty root).2 (mangledOf root bundleB) = some e := he
      rw [hst] at he'
      cases he'
      rfl
  · refine ⟨fun _ => ?_, fun e he => ?_⟩
    · show (requirements S Store.empty root).2 (mangledOf root bundleB) ≠ none
      rw [hst]; simp
    · have he' : (requirements S Store.empty root).2 (mangledOf root bundleB) = some e := he
      rw [hst] at he'
      cases he'
      rfl

/-- all hypotheses of `b5_partial` hold together on the example. -/
example : ∃ F : Store, (∀ k e, F k = some e ↔ Written S k e) ∧
    AgreeAll (runCalls exactMatch S Store.empty calls).1
      (calls.map (Local.exec exactMatch (load id (fun _ => false) S F))) := by
  obtain ⟨F, hF⟩ := b5_F_exists S unambiguous
  exact ⟨F, hF, b5_partial exactMatch id (fun _ => false) S F hF (fun _ => List.Perm.refl _)
    (fun _ _ => rfl) coherent calls Store.empty (storeInv_empty S) (wellAsked F)⟩

end Example

/- Ties (DESIGN 3.3): which model definitions each theorem unfolds, and the
correspondence stream that ties them to util/resolve/api.go.

theorem                               model definitions                                   tie
b1_general b1 b2 b3_after_requirements  requirements buildAllDeps stepBundle applyWrites    ops apiclient/resolve (r: then v:/s:/r:/m: on bundles)
                                      mangledName pkgsOf versions matchingVersions
b3                                    version versions requirements matchingVersions      ops apiclient (calls on names with '>')
b4_split_last b4_partial b4_flatten   addDep splitLast cutPrefix flattenNPMDeps           ops apiclient (small-scope exhaustive requirement strings), classify
b4_full_false b4_norange_*            addDep                                              known-finding witnesses F-C18-alias-norange
b6_*                                  exec requirements applyWrites (atomic steps)        ops conc, racedet (runtime facts: mutex, races)
b5_partial                            exec, Local.exec, load                              op resolve + oracle b5 (real npm resolver over both real clients)
No Gen constants are used (C18 has no translator tables).
-/

end DepsDev.Props.C18
