import DepsDev.Proofs.C13Canon

/-!
# C13 — graph canonicalisation yields one representative per isomorphism class

Property (properties.jsonl, C13): if two graphs differ only by a renumbering of the
non-root nodes and by the order of edges and of per-node errors, `Canon` of both yields
identical graphs or fails for both; `Canon` is idempotent; it preserves the root, the
multiset of nodes with their errors, and every edge with its requirement and type; also
in the presence of duplicate nodes.

The statements are about `canon`, the model of `Graph.Canon` in
`Model/Resolve/Graph.lean` (tied to the Go code by the `gcanon` correspondence stream).
All of them are for **all** graphs: no bound on size, any contents, duplicates allowed.
Contents are ranks (`Nat`) under the real comparators (`VersionKey.Compare`,
`dep.Type.Compare`), which are assumed to be strict total orders and are outside this model.
-/

namespace DepsDev.Props.C13

open DepsDev
open DepsDev.Resolve.GraphCanon
open List

/-- `g'` is `g` with node `i` moved to position `π i`, where `π` permutes the node ids
(`lt` + `inj`: an injection of `0..n-1` into itself) and fixes the root `0`; the errors of
every node and the edges may be listed in any order. -/
structure IsRelabel (π : Nat → Nat) (g g' : Graph) : Prop where
  len : g'.nodes.length = g.nodes.length
  lt : ∀ i, i < g.nodes.length → π i < g.nodes.length
  inj : ∀ i j, i < g.nodes.length → j < g.nodes.length → π i = π j → i = j
  root : π 0 = 0
  node : ∀ i, i < g.nodes.length →
    ∃ a b, g.nodes[i]? = some a ∧ g'.nodes[π i]? = some b ∧ a.ver = b.ver ∧ a.errs ~ b.errs
  edges : g'.edges ~ g.edges.map (mapE π)

/-- What an edge says in terms of contents: (from-node, to-node, requirement, type), nodes
with their errors sorted. -/
def edgeContent (g : Graph) (e : Edge) : Option Node × Option Node × Bytes × Nat :=
  ((g.nodes[e.src]?).map sortErrors, (g.nodes[e.dst]?).map sortErrors, e.req, e.typ)

/-! ## Statements (full strength) -/

/-- (c) One representative per isomorphism class: relabelled/shuffled inputs give the same
outcome – both `ok` with identical graphs, or both `err`. `g.WF` is the invariant of the
`Graph` API (`AddEdge` only accepts existing nodes). -/
def C13_relabel_invariant : Prop :=
  ∀ (π : Nat → Nat) (g g' : Graph), g.WF = true → IsRelabel π g g' → canon g = canon g'

/-- (b) Idempotence. -/
def C13_idempotent : Prop :=
  ∀ (g g' : Graph), canon g = .ok g' → canon g' = .ok g'

/-- (a) Preservation: on success the root, the multiset of nodes (errors sorted) and the
multiset of edges by content are those of the input. -/
def C13_preserves : Prop :=
  ∀ (g g' : Graph), canon g = .ok g' →
    g'.nodes.head? = (g.nodes.map sortErrors).head? ∧
    g'.nodes ~ g.nodes.map sortErrors ∧
    g'.edges.map (edgeContent g') ~ g.edges.map (edgeContent g)

/-- (a'), stronger: the output *is* a relabeling of the input by a permutation fixing the root. -/
def C13_output_is_relabel : Prop :=
  ∀ (g g' : Graph), canon g = .ok g' → g.WF = true ∧ ∃ π, IsRelabel π g g'

/-! ## Bridges to the exact form used in `Proofs/` -/

theorem edgesIn_of_wf {g : Graph} (h : g.WF = true) : EdgesIn g.nodes.length g.edges := by
  unfold Graph.WF at h
  rw [List.all_eq_true] at h
  intro e he
  simpa using h e he

theorem wf_of_edgesIn {g : Graph} (h : EdgesIn g.nodes.length g.edges) : g.WF = true := by
  unfold Graph.WF
  rw [List.all_eq_true]
  intro e he
  simpa using h e he

theorem sortErrors_eq_of_perm {a b : Node} (hv : a.ver = b.ver) (he : a.errs ~ b.errs) :
    sortErrors a = sortErrors b := by
  cases a; cases b
  simp only [sortErrors, Node.mk.injEq] at *
  exact ⟨hv, sortBy_eq_of_perm nodeErrorLess_strictTotal he⟩

/-- A relabeling with shuffled errors becomes an exact relabeling once errors are sorted. -/
theorem IsRelabel.toIso {π : Nat → Nat} {g g' : Graph} (h : IsRelabel π g g') :
    Iso π (g.nodes.map sortErrors) g.edges (g'.nodes.map sortErrors) g'.edges where
  len := by simp [h.len]
  lt := by simpa using h.lt
  inj := by simpa using h.inj
  root := h.root
  node := by
    intro i hi
    simp only [List.length_map] at hi
    obtain ⟨a, b, ha, hb, hv, he⟩ := h.node i hi
    simp [ha, hb, sortErrors_eq_of_perm hv he]
  edges := h.edges

/-- An exact relabeling of the error-sorted nodes is a relabeling of the original graph. -/
theorem IsRelabel.ofIso {π : Nat → Nat} {g g' : Graph}
    (h : Iso π (g.nodes.map sortErrors) g.edges g'.nodes g'.edges) : IsRelabel π g g' where
  len := by simpa using h.len
  lt := by simpa using h.lt
  inj := by simpa using h.inj
  root := h.root
  node := by
    intro i hi
    have := h.node i (by simpa using hi)
    have e : g.nodes[i]? = some g.nodes[i] := List.getElem?_eq_getElem hi
    simp only [List.getElem?_map, e, Option.map_some] at this
    exact ⟨g.nodes[i], sortErrors g.nodes[i], e, this, rfl, (sortBy_perm _).symm⟩
  edges := h.edges

/-! ## Theorems -/

/-- **(c) full.** -/
theorem canon_relabel_invariant : C13_relabel_invariant := by
  intro π g g' hwf h
  unfold canon
  exact canonSorted_iso h.toIso (by simpa using edgesIn_of_wf hwf)

/-- **(a') full.** -/
theorem canon_output_is_relabel : C13_output_is_relabel := by
  intro g g' h
  unfold canon at h
  obtain ⟨hE, π, hI⟩ := canonSorted_relabel h
  exact ⟨wf_of_edgesIn (by simpa using hE), π, IsRelabel.ofIso hI⟩

/-- **(b) full.** -/
theorem canon_idempotent : C13_idempotent := by
  intro g g' h
  obtain ⟨hwf, π, hr⟩ := canon_output_is_relabel g g' h
  rw [← canon_relabel_invariant π g g' hwf hr]
  exact h

/-- Every relabeling preserves the root, the node multiset and the edge-content multiset. -/
theorem IsRelabel.preserves {π : Nat → Nat} {g g' : Graph} (h : IsRelabel π g g') (hwf : g.WF = true) :
    (g'.nodes.map sortErrors).head? = (g.nodes.map sortErrors).head? ∧
    g'.nodes.map sortErrors ~ g.nodes.map sortErrors ∧
    g'.edges.map (edgeContent g') ~ g.edges.map (edgeContent g) := by
  have I := h.toIso
  refine ⟨?_, I.nodes_perm, ?_⟩
  · have h0 : ∀ l : List Node, l.head? = l[0]? := fun l => by cases l <;> rfl
    rw [h0, h0]
    by_cases hn : 0 < (g.nodes.map sortErrors).length
    · have := I.node 0 hn
      rwa [I.root] at this
    · have e1 : g.nodes.map sortErrors = [] := List.eq_nil_of_length_eq_zero (by omega)
      have e2 : g'.nodes.map sortErrors = [] := List.eq_nil_of_length_eq_zero (by rw [I.len]; omega)
      rw [e1, e2]
  · have p := h.edges.map (edgeContent g')
    refine p.trans (Perm.of_eq ?_)
    rw [List.map_map]
    apply List.map_congr_left
    intro e he
    have hE := edgesIn_of_wf hwf e he
    have n1 := I.node e.src (by simpa using hE.1)
    have n2 := I.node e.dst (by simpa using hE.2)
    simp only [List.getElem?_map] at n1 n2
    simp [edgeContent, n1, n2]

theorem sortErrors_idem (n : Node) : sortErrors (sortErrors n) = sortErrors n := by
  cases n
  simp only [sortErrors, Node.mk.injEq, true_and]
  exact sortBy_of_sorted _ (sortBy_sorted nodeErrorLess_strictTotal.weak _)

/-- **(a) full.** -/
theorem canon_preserves : C13_preserves := by
  intro g g' h
  -- the output nodes are (a permutation of) error-sorted input nodes, hence error-sorted
  unfold canon at h
  obtain ⟨hE, π, hI⟩ := canonSorted_relabel h
  have hwf : g.WF = true := wf_of_edgesIn (by simpa using hE)
  have hr : IsRelabel π g g' := IsRelabel.ofIso hI
  have hfix : g'.nodes.map sortErrors = g'.nodes := by
    have hp := hI.nodes_perm
    calc g'.nodes.map sortErrors = g'.nodes.map id := by
          apply List.map_congr_left
          intro n hn
          obtain ⟨m, _, rfl⟩ := List.mem_map.mp (hp.mem_iff.mp hn)
          exact sortErrors_idem m
      _ = g'.nodes := List.map_id _
  have := hr.preserves hwf
  rwa [hfix] at this

/-! ## The modelled sort does not matter (DESIGN Appendix B, `sort.Sort`) -/

/-- Any sorted permutation of the edges (whatever `sort.Slice` does) is the model's. -/
theorem edge_sort_unique {l s : List Edge} (hs : Sorted Edge.less s) (p : s ~ l) : s = sortBy Edge.less l :=
  eq_sortBy_of_sorted_perm edgeLess_strictTotal hs p

/-- Any sorted permutation of a node's errors is the model's. -/
theorem error_sort_unique {l s : List NodeError} (hs : Sorted NodeError.less s) (p : s ~ l) :
    s = sortBy NodeError.less l :=
  eq_sortBy_of_sorted_perm nodeErrorLess_strictTotal hs p

/-- Any sorted permutation of the node *contents* is the model's (the positions of identical
nodes may differ; `canon_relabel_invariant` covers that). -/
theorem node_sort_unique {l s : List Node} (hs : Sorted Node.less s) (p : s ~ l) : s = sortBy Node.less l :=
  eq_sortBy_of_sorted_perm nodeLess_strictTotal hs p

/-- The repaired scan (graph.go:144-148) finds a duplicate exactly when there is one. -/
theorem dupScan_iff_dup (r : Node) (others : List Node) :
    dupScan (r :: sortBy Node.less others) = true ↔ ¬ (r :: others).Nodup := by
  have h := dupScan_false_iff r _ (sortBy_sorted nodeLess_strictTotal.weak others)
  have hp : (r :: sortBy Node.less others) ~ (r :: others) := (sortBy_perm others).cons r
  rw [← hp.nodup_iff, ← h]
  simp

/-- **The node sort's tie-breaking does not matter.** `NodeSorted N0 P` says `P` is *a* result
of `sort.Sort(on)` with the root pinned (any correct algorithm, identical nodes in any
relative order); running the rest of `Canon` (`canonWith`: renumber, scan, BFS, renumber) from
it gives exactly what the model – which uses a stable insertion sort – gives. -/
def C13_sort_choice_irrelevant : Prop :=
  ∀ (g : Graph) (P : List (Node × Nat)), g.WF = true → NodeSorted (g.nodes.map sortErrors) P →
    canonWith P g.edges = canon g

theorem canon_sort_choice_irrelevant : C13_sort_choice_irrelevant := by
  intro g P hwf hP
  unfold canon
  exact canonWith_eq_canonSorted hP (by simpa using edgesIn_of_wf hwf)

/-- In `canonBFS` the scratch sort has a unique result whenever it is used (no two equal nodes). -/
theorem scratch_sort_unique {sc K : List (Node × Nat)} (hs : Sorted pairLess K) (p : K ~ sc)
    (nd : (sc.map Prod.fst).Nodup) : K = sortBy pairLess sc := by
  apply sorted_perm_unique _ hs (sortBy_sorted pairLess_strictWeak sc) (p.trans (sortBy_perm sc).symm)
  intro a b ha hb hab hba
  have hk : a.1 = b.1 := nodeLess_strictTotal.tri _ _ hab hba
  exact inj_on_of_nodup_map nd (p.mem_iff.mp ha) (mem_sortBy.mp hb) hk

/-- The model reports a panic exactly when an edge endpoint is not a node (Go: index out of
range in `renumber`); in particular the loop bound `1 + len(edges)` the model gives
`canonBFS` is never exhausted. -/
def C13_panic_iff_not_wf : Prop :=
  ∀ g : Graph, (∃ s, canon g = .panic s) ↔ g.WF = false

theorem canon_panic_iff_not_wf : C13_panic_iff_not_wf := by
  intro g
  constructor
  · rintro ⟨s, hs⟩
    cases hwf : g.WF with
    | false => rfl
    | true =>
      exfalso
      unfold canon at hs
      exact canonSorted_no_panic (by simpa using edgesIn_of_wf hwf) s hs
  · intro hwf
    refine ⟨"graph.go:oldToNew[e.From]", ?_⟩
    unfold canon
    apply canonSorted_panic_of_not_edgesIn
    intro hE
    have := wf_of_edgesIn (g := g) (by simpa using hE)
    rw [hwf] at this
    cases this

/-! ## Non-vacuity: the hypotheses are satisfiable, also with duplicates of the root -/

/-- The F11 witness: root `r` (rank 9), `a` (rank 5) and a second copy of `r`;
`r → r' → a`. -/
def gF11 : Graph :=
  { nodes := [⟨9, []⟩, ⟨5, []⟩, ⟨9, []⟩], edges := [⟨0, 2, [], 0⟩, ⟨2, 1, [], 0⟩] }

/-- The same graph with the two non-root nodes inserted in the other order and the edges listed backwards. -/
def gF11' : Graph :=
  { nodes := [⟨9, []⟩, ⟨9, []⟩, ⟨5, []⟩], edges := [⟨1, 2, [], 0⟩, ⟨0, 1, [], 0⟩] }

def swap12 (i : Nat) : Nat := if i = 1 then 2 else if i = 2 then 1 else i

example : gF11.WF = true := by decide

example : IsRelabel swap12 gF11 gF11' where
  len := by decide
  lt := by decide
  inj := by
    have h : ∀ i, i < 3 → ∀ j, j < 3 → swap12 i = swap12 j → i = j := by decide
    exact fun i j hi hj => h i hi j hj
  root := by decide
  node := by
    intro i hi
    match i, hi with
    | 0, _ => exact ⟨_, _, rfl, rfl, rfl, Perm.refl _⟩
    | 1, _ => exact ⟨_, _, rfl, rfl, rfl, Perm.refl _⟩
    | 2, _ => exact ⟨_, _, rfl, rfl, rfl, Perm.refl _⟩
  edges := by decide

/-- `Canon` succeeds on it through the BFS path (there are duplicate nodes), for both insertion orders,
with the same result. -/
example : canon gF11 = .ok { nodes := [⟨9, []⟩, ⟨9, []⟩, ⟨5, []⟩], edges := [⟨0, 1, [], 0⟩, ⟨1, 2, [], 0⟩] } := by
  decide
example : canon gF11' = canon gF11 := by decide
example : dupScan ((sortNodes (gF11.nodes.map sortErrors)).map Prod.fst) = true := by decide

/-- A graph with node errors in two orders, parallel edges of different types, a self-loop and a cycle. -/
def gErr : Graph :=
  { nodes := [⟨3, [⟨1, [101]⟩, ⟨0, [102]⟩]⟩, ⟨3, []⟩, ⟨2, []⟩],
    edges := [⟨0, 1, [42], 1⟩, ⟨0, 1, [42], 0⟩, ⟨1, 1, [], 0⟩, ⟨1, 2, [], 0⟩, ⟨2, 0, [], 0⟩] }

example : canon gErr = .ok
    { nodes := [⟨3, [⟨0, [102]⟩, ⟨1, [101]⟩]⟩, ⟨2, []⟩, ⟨3, []⟩],
      edges := [⟨0, 2, [42], 0⟩, ⟨0, 2, [42], 1⟩, ⟨1, 0, [], 0⟩, ⟨2, 1, [], 0⟩, ⟨2, 2, [], 0⟩] } := by
  decide

/-- A different (unstable) result of the node sort for `gF11'`: the two identical nodes `r`
swapped. `canon_sort_choice_irrelevant` applies to it. -/
example : NodeSorted (gF11'.nodes.map sortErrors) [(⟨9, []⟩, 0), (⟨5, []⟩, 2), (⟨9, []⟩, 1)] where
  perm := by decide
  head := by decide
  sorted := by decide

example : canon { nodes := [⟨1, []⟩], edges := [⟨0, 1, [], 0⟩] } = .panic "graph.go:oldToNew[e.From]" := by
  decide

/-- Both failure conditions of `canonBFS` occur (so "fails for both" is not vacuous either). -/
example : canon { nodes := [⟨1, []⟩, ⟨1, []⟩], edges := [] } = .err := by decide            -- unreachable
example : canon { nodes := [⟨1, []⟩, ⟨2, []⟩, ⟨2, []⟩], edges := [⟨0, 1, [], 0⟩, ⟨0, 2, [], 0⟩] } = .err := by
  decide                                                                                      -- duplicate direct dependency

end DepsDev.Props.C13

/-
TIES (DESIGN 3.3) — what each theorem rests on.

canon_relabel_invariant, canon_idempotent, canon_preserves, canon_output_is_relabel,
canon_panic_iff_not_wf:
  model: Resolve.GraphCanon.{canon, canonSorted, stage1, sortErrors, sortNodes, mapping,
         renumberEdges, renumberEdge, dupScan, dupScanFrom, bfsStage, canonBFS, bfsLoop, adjacency,
         scratch, kids, dupKids, hasAdjDup, reorderNodes, sortBy, insertBy,
         Node.cmp, NodeError.cmp, errsCmp, bytesCmp, Edge.less}      (Model/Resolve/Graph.lean)
  tie:   correspondence stream `C13 gcanon` (every generated op: Go result = model result),
         `C13 ncmp` (Node.cmp = Node.Compare on a pool), `C13 vkorder` / `C13 typeorder`
         (the rank encoding's assumption: the external comparators are strict total orders).
  Gen:   none.
canon_sort_choice_irrelevant, node_sort_unique, edge_sort_unique, error_sort_unique,
scratch_sort_unique, dupScan_iff_dup:
  same model definitions; they discharge the "modelled, not verified" item `sort.Sort/sort.Slice`
  (any correct sort gives the model's result) and show that the F11 scan is complete.
-/
