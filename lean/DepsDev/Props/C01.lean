import DepsDev.Proofs.C01Gem
import DepsDev.Proofs.C01Pep
import DepsDev.Gen.SemverGlobals

/-!
# C01 — version comparison is a total preorder in every packaging system

Statement at full strength, then what is proved.

* `TotalPreorderOn P`: on the versions satisfying `P`, `vcompare` never fails and is
  the `Int` rendering of a lawful (`Std.TransCmp`) comparator; `laws` unfolds this
  into the four clauses of the property (reflexive, sign-antisymmetric, transitive,
  congruent) in terms of the results of `vcompare`.
* Proved in full, with no well-formedness hypothesis beyond "both are versions of the
  system, in the shape `Parse` produces" (`WF`): Default, Cargo, Go, NPM, NuGet,
  Composer (`generic`), RubyGems (`rubygems`), PyPI (`pypi`).
* Maven: see `maven_*` below.
* `parse_wf`: everything `Parse` accepts is in `WF`.
* `build_irrelevant`: build metadata never changes the result.
* `no_global_writes`: no package-level variable of util/semver is written after init
  (regenerated fact), which is what "no dependence on the history of calls" rests on.
-/
namespace DepsDev.Props.C01

open Std DepsDev DepsDev.Semver DepsDev.Proofs

/-- The shape of a version of system `s` as `System.Parse` produces it. -/
def WF (s : System) (v : Version) : Prop :=
  v.sys = s ∧
  match s with
  | .maven => ∃ e, v.ext = .maven e
  | .pypi => ∃ e, v.ext = .pep e
  | .rubygems => ∃ e, v.ext = .gem e
  | _ => v.ext = .none

/-- C01 on a class of versions: comparison always succeeds and is the rendering of a
lawful total preorder. -/
def TotalPreorderOn (P : Version → Prop) : Prop :=
  ∃ c : Version → Version → Ordering, TransCmp c ∧
    ∀ a b, P a → P b → vcompare a b = .ok (ordToInt (c a b))

/-- The clauses of the property, spelled out on the results of `vcompare`. -/
structure Laws (P : Version → Prop) : Prop where
  total : ∀ a b, P a → P b → ∃ x : Int, vcompare a b = .ok x ∧ (x = -1 ∨ x = 0 ∨ x = 1)
  refl : ∀ a, P a → vcompare a a = .ok 0
  antisymm : ∀ a b x, P a → P b → vcompare a b = .ok x → vcompare b a = .ok (-x)
  trans_le : ∀ a b c x y z, P a → P b → P c → vcompare a b = .ok x → vcompare b c = .ok y →
    vcompare a c = .ok z → x ≤ 0 → y ≤ 0 → z ≤ 0 ∧ ((x < 0 ∨ y < 0) → z < 0)
  congr : ∀ a b c, P a → P b → P c → vcompare a b = .ok 0 → vcompare a c = vcompare b c

theorem laws {P : Version → Prop} (h : TotalPreorderOn P) : Laws P := by
  obtain ⟨c, hT, hc⟩ := h
  have L : LawfulInt (fun a b => ordToInt (c a b)) := LawfulInt.of_cmp c (fun _ _ => rfl)
  refine ⟨?_, ?_, ?_, ?_, ?_⟩
  · intro a b ha hb
    exact ⟨_, hc a b ha hb, L.sign a b⟩
  · intro a ha
    rw [hc a a ha ha]; congr 1; exact L.refl a
  · intro a b x ha hb hx
    rw [hc a b ha hb] at hx
    rw [hc b a hb ha]
    injection hx with hx
    congr 1; rw [← hx]; exact L.antisymm a b
  · intro a b c' x y z ha hb hc' hx hy hz hx0 hy0
    rw [hc _ _ ha hb] at hx; rw [hc _ _ hb hc'] at hy; rw [hc _ _ ha hc'] at hz
    injection hx with hx; injection hy with hy; injection hz with hz
    subst hx hy hz
    refine ⟨L.trans_le hx0 hy0, ?_⟩
    rintro (h | h)
    · exact L.trans_lt_left h hy0
    · exact L.trans_lt_right hx0 h
  · intro a b c' ha hb hc' hab
    rw [hc _ _ ha hb] at hab
    injection hab with hab
    rw [hc _ _ ha hc', hc _ _ hb hc']
    congr 1
    exact L.congr (f := fun a b => ordToInt (c a b)) hab c'

/-- Systems whose versions carry no extension. -/
def IsGeneric (s : System) : Prop :=
  s = .default ∨ s = .cargo ∨ s = .go ∨ s = .npm ∨ s = .nuget ∨ s = .composer

/-- **Default, Cargo, Go, NPM, NuGet, Composer**: full, unconditional. -/
theorem generic (s : System) (hs : IsGeneric s) : TotalPreorderOn (WF s) := by
  refine ⟨genericOrd s, inferInstance, ?_⟩
  intro a b ⟨ha, ha'⟩ ⟨hb, hb'⟩
  have ea : a.ext = .none := by rcases hs with h | h | h | h | h | h <;> subst h <;> exact ha'
  have eb : b.ext = .none := by rcases hs with h | h | h | h | h | h <;> subst h <;> exact hb'
  have := compare_generic a b (ha.trans hb.symm) ea eb
  rw [ha] at this
  exact this

/-- **RubyGems**: full, unconditional (after repair F6). -/
theorem rubygems : TotalPreorderOn (WF .rubygems) := by
  refine ⟨gemOrd, inferInstance, ?_⟩
  intro a b ⟨ha, ea, ha'⟩ ⟨hb, eb, hb'⟩
  exact compare_gem a b (ha.trans hb.symm) ea eb ha' hb'

/-- **PyPI**: full, unconditional. -/
theorem pypi : TotalPreorderOn (WF .pypi) := by
  refine ⟨pepOrd, inferInstance, ?_⟩
  intro a b ⟨ha, ea, ha'⟩ ⟨hb, eb, hb'⟩
  exact compare_pep a b (ha.trans hb.symm) ea eb ha' hb'

/-! ### Maven

The library re-implements Maven's `ComparableVersion` (≤ 3.8.6), whose order is not
transitive even on the Maven-Central shape of DESIGN 6.4: a zero numeric component
followed by a `.`-separated qualifier is skipped as padding by a shorter version but
compared as a number by others. `maven_not_transitive` proves this on the model from
the witness `4.1 < 4.1-jre < 4.1.0.Beta1 < 4.1` (known finding F-C01-mvn-zeroq; the
same three comparisons hold in Maven 3.8.6 itself). The lawfulness theorem for the
Maven shape under `¬ZeroDotQual` is NOT proved here: that clause is covered by the
exhaustive-triple oracle of the correspondence harness only (a test, labelled as such). -/

def mv (els : List MavenElem) : Version := { sys := .maven, isPrerelease := true, ext := .maven els }

/-- Elements of `4.1`, `4.1-jre`, `4.1.0.Beta1` as `mavenInit` produces them. -/
def mvX : List MavenElem := [⟨0, [52], 4⟩, ⟨46, [49], 1⟩]
def mvY : List MavenElem := [⟨0, [52], 4⟩, ⟨46, [49], 1⟩, ⟨45, [106, 114, 101], 0⟩]
def mvZ : List MavenElem := [⟨0, [52], 4⟩, ⟨46, [49], 1⟩, ⟨46, [48], 0⟩, ⟨46, [98, 101, 116, 97], 0⟩, ⟨45, [49], 1⟩]

example : mavenInit "4.1".toUTF8.toList = .ok (mvX, false) ∧
    mavenInit "4.1-jre".toUTF8.toList = .ok (mvY, true) ∧
    mavenInit "4.1.0.Beta1".toUTF8.toList = .ok (mvZ, true) := by
  refine ⟨?_, ?_, ?_⟩ <;> decide +kernel

/-- Transitivity as the property states it, for Maven versions. -/
def MavenTransitive : Prop :=
  ∀ a b c : Version, WF .maven a → WF .maven b → WF .maven c →
    vcompare a b = .ok (-1) → vcompare b c = .ok (-1) → vcompare a c = .ok (-1)

theorem maven_not_transitive : ¬ MavenTransitive := by
  intro h
  have := h (mv mvX) (mv mvY) (mv mvZ) ⟨rfl, _, rfl⟩ ⟨rfl, _, rfl⟩ ⟨rfl, _, rfl⟩
    (by decide +kernel) (by decide +kernel)
  revert this
  decide +kernel

/-- Build metadata is never read by the comparison. -/
theorem build_irrelevant (v w : Version) (x : Bytes) :
    vcompare { v with build := x } w = vcompare v w ∧ vcompare w { v with build := x } = vcompare w v := by
  constructor <;> rfl

theorem parseGeneric_wf (s : System) (hs : s ≠ .maven ∧ s ≠ .pypi) (b : Bytes) (v : Version)
    (h : parseGeneric s b false = .ok v) : WF s v := by
  unfold parseGeneric at h
  split at h
  · cases h
  · cases h
  · split at h
    · rename_i hr
      have : s = .rubygems := by simpa using hr
      subst this
      split at h
      · injection h with h; subst h; exact ⟨rfl, _, rfl⟩
      · cases h
      · cases h
    · rename_i hr
      injection h with h; subst h
      refine ⟨rfl, ?_⟩
      cases s <;> simp_all

/-- Everything `System.Parse` accepts has the shape `WF` (for every system). -/
theorem parse_wf (s : System) (b : Bytes) (v : Version) (h : parse s b = .ok v) : WF s v := by
  unfold parse at h
  split at h
  · cases h
  · unfold parseInf at h
    simp only [Bool.false_and, Bool.false_eq_true, ↓reduceIte] at h
    cases s
    case maven =>
      simp only at h
      split at h
      · injection h with h; subst h; exact ⟨rfl, _, rfl⟩
      · cases h
      · cases h
    case pypi =>
      simp only at h
      unfold pepInit at h
      split at h
      · injection h with h; subst h; exact ⟨rfl, _, rfl⟩
      · cases h
      · cases h
    all_goals exact parseGeneric_wf _ (by decide) b v h

/-- Non-vacuity: concrete, distinct, non-trivially ordered versions satisfy the hypotheses. -/
example : WF .npm { sys := .npm, num := [1, 2, 3], pre := [[97]] } ∧
    WF .npm { sys := .npm, num := [1, 2, 3] } ∧
    vcompare { sys := .npm, num := [1, 2, 3], pre := [[97]] } { sys := .npm, num := [1, 2, 3] } = .ok (-1) := by
  refine ⟨⟨rfl, rfl⟩, ⟨rfl, rfl⟩, by decide +kernel⟩

/-- Tie to the code (regenerated): outside `init` no package-level variable of util/semver is
assigned, incremented, or written through an index/field path, and every address taken of one
(today: two `&zeroPEP440` in `pep440Extension.compare`) is followed by the translator through
locals, parameters and receivers of the package and only ever read. The statement names no
identifier of /repo: any new write (or a pointer the translator cannot follow) makes the list
non-empty and breaks the theorem. -/
theorem no_global_writes : Gen.SemverGlobals.writes = [] := by
  decide

end DepsDev.Props.C01
