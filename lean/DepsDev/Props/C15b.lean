import DepsDev.Proofs.C15Api
import DepsDev.Proofs.C15ApiView
import DepsDev.Proofs.C15ApiType

/-!
# C15, second instance of the documented pipeline: `(*APIClient).Requirements` for Maven
(util/resolve/maven.go: `mavenRequirements`, `fetchMavenParents`, `mavenRequirementsToProject`,
`MavenDepType`, `MavenDepTypeToDependency`)

Model: `DepsDev.Model.Maven.Api`. Contents
1. ties: the example's loop and pipeline (`Model.Maven.Pipeline`, the subject of `Props.C15`) are the
   instance `exampleCfg` of the generic walk and pipeline the API client is another instance of;
   the parent bound is the generated `MaxMavenParent`;
2. the parent walk: at most `MaxMavenParent` fetches, no key twice, a cycle reached within the
   bound is the error, and on a chain that is found, acyclic and within the bound the loop is the
   fold of `MergeParent` (closed form of `apiRequirements` on the fetched chain);
3. refinement: for every lineage the API client returns `MavenDepType` mapped over the dependencies
   the documented pipeline computes on the API's view of the lineage (default profiles only);
4. `MavenDepTypeToDependency (MavenDepType d origin) = (normalise d, origin)` for every dependency;
   `MavenDepTypeToDependency` never panics, for every Maven dep.Type, and returns the error exactly for
   Test together with Scope or a non-empty exclusion segment without a colon. (Both were false before the
   repair of F-C15-i: regression examples on the old witnesses.)
-/
namespace DepsDev.Props.C15b
open DepsDev DepsDev.Model.Maven DepsDev.Model.Maven.Api DepsDev.Gen
open DepsDev.Proofs.C15Api DepsDev.Proofs.C15ApiView DepsDev.Proofs.C15ApiType

/-! ## 1. Ties -/

/-- The loop of the example's `mergeParents` (model `mergeParentsLoop`, on which `Props.C15` rests) is the
instance "fetch from the repository, library JDK/OS, parents must be `pom`" of the generic walk. -/
theorem example_loop_is_walk (repo : List Project) (fuel n : Nat) (vis : List Key) (k : Key) (r : Project) :
    mergeParentsLoop repo fuel n vis k r = walkLoop ⟨fetch repo, jdkEnv, osEnv, true⟩ fuel n vis k r :=
  mergeParentsLoop_eq_walk repo fuel n vis k r

/-- The modelled direct pipeline is the instance `exampleCfg` of the generic pipeline. -/
theorem example_pipeline_is_instance (L : Lineage) : goProject L = pipelineWith interpolateStr (exampleCfg L.repo) L.root :=
  goProject_eq_pipeline interpolateStr L

/-- `resolve.MaxMavenParent` (regenerated from util/resolve/maven.go by the translator) is the
documented bound of 100, and it is the fuel of the API client's walk. -/
theorem parent_bound_is_generated :
    C15Consts.maxMavenParent = 100 ∧
    ∀ (f : InterpFn) (U : Universe) (k : Key) (r : Project),
      walkWith f (apiCfg U).walk k (apiCfg U).rootStart r =
        (walkLoop (apiCfg U).walk C15Consts.maxMavenParent 0 [] k r).map (Project.InterpolateWith f) :=
  ⟨rfl, fun _ _ _ _ => rfl⟩

/-- Passing no JDK and no OS merges exactly the profiles that are active by default, and is never an error. -/
theorem default_profiles_only (p : Project) :
    p.MergeProfiles [] blankOS = some ((p.profiles.filter fun pr => falsyBoolean pr.abd).foldl mergeProfile p) := by
  have hact : ∀ pr : Profile, pr.activated [] blankOS = some false := by
    intro pr; simp [Profile.activated, blankOS, OS.blank]
  unfold Project.MergeProfiles activeProfiles
  simp [hact]

/-! ## 2. The parent walk -/

/-- **Never more than `MaxMavenParent` = 100 fetches** in one parent walk of the API client (the project's own
parents, or one imported BOM's), whatever the service answers. -/
theorem api_parent_walk_at_most_100_fetches (U : Universe) (n : Nat) (vis : List Key) (k : Key) (r : Project) :
    (walkLoopT (apiCfg U).walk C15Consts.maxMavenParent n vis k r).2.length ≤ 100 ∧
    (walkLoopT (apiCfg U).walk C15Consts.maxMavenParent n vis k r).1 =
      walkLoop (apiCfg U).walk C15Consts.maxMavenParent n vis k r :=
  ⟨walk_fetch_bound _ _ _ _ _ _, walkLoopT_fst _ _ _ _ _ _⟩

/-- The same for every instance and every fuel; and no key is fetched twice. -/
theorem parent_walk_fetches (c : WalkCfg) (fuel n : Nat) (vis : List Key) (k : Key) (r : Project) :
    (walkLoopT c fuel n vis k r).2.length ≤ fuel ∧ (walkLoopT c fuel n vis k r).2.Nodup ∧
    (∀ x ∈ (walkLoopT c fuel n vis k r).2, x ∉ vis) :=
  ⟨walk_fetch_bound c fuel n vis k r, walk_fetch_distinct c fuel n vis k r⟩

/-- **A cycle of parents returns the error**, when the walk gets to it within the bound: if following the
parent links from `k` through `path` (complete keys, found, profiles merged) arrives at a complete key that
is already visited, and `path` is shorter than the fuel, the walk fails. -/
theorem parent_cycle_is_error (c : WalkCfg) {k k' : Key} {path : List Key} (hs : Steps c k path k')
    (fuel n : Nat) (vis : List Key) (r : Project) (hk' : Api.Key.incomplete k' = false)
    (hcyc : k' ∈ vis ∨ k' ∈ path) (hl : path.length < fuel) : walkLoop c fuel n vis k r = none :=
  walk_cycle_is_error c hs fuel n vis r hk' hcyc hl

/-- **On a chain the loop is the fold.** Hypotheses, precisely: the chain `anc` from `k` is found and ends at an
incomplete key (`IsChain`: every key complete, fetched, packaging accepted, profiles merged without error),
has no cycle (its keys are pairwise distinct and none is already visited), and is no longer than the fuel. -/
theorem parent_walk_is_fold_on_chain (c : WalkCfg) (anc : List Project) (fuel n : Nat) (vis : List Key) (k : Key)
    (r : Project) (hfound : IsChain c n k anc) (hnocycle : (chainKeys k anc).Nodup)
    (hfresh : ∀ x ∈ chainKeys k anc, x ∉ vis) (hbound : anc.length ≤ fuel) :
    walkLoop c fuel n vis k r = some (anc.foldl Project.MergeParent r) :=
  walk_eq_fold c anc fuel n vis k r hfound hnocycle hfresh hbound

/-- **`apiRequirements` in closed form on the fetched chain** (refinement lemma, every service, every chain
length up to the bound): when the project is found, its name is a Maven name, and its parent chain `anc` (as
delivered by the service, default profiles merged) is found, acyclic and at most 100 long, the result is
`MavenDepType` mapped over the dependencies of: fold `MergeParent` over the chain, `Interpolate`,
`ProcessDependencies` with the import callback. -/
theorem apiRequirements_on_chain (f : InterpFn) (U : Universe) (name version : Bytes) (resp : Option RMaven)
    (pk : Key) (p0 : Project) (anc : List Project)
    (hname : name.contains cGt = false) (hfound : apiFetch U name version = some resp)
    (hkey : makeProjectKey name version = some pk)
    (hp0 : (toProject pk resp).MergeProfiles [] blankOS = some p0)
    (hchain : IsChain (apiCfg U).walk 0 p0.parent anc) (hnocycle : (chainKeys p0.parent anc).Nodup)
    (hbound : anc.length ≤ 100) :
    apiRequirementsWith f U name version =
      some ((((anc.foldl Project.MergeParent p0).InterpolateWith f).ProcessDependencies (importWith f (apiCfg U))).deps.map
        fun d => ⟨apiName d.g d.a, d.v, mavenDepType d []⟩) := by
  have hw := walk_eq_fold (apiCfg U).walk anc 100 0 [] p0.parent p0 hchain hnocycle (by simp) hbound
  have hw' : walkLoop { get := apiGet U, jdk := [], os := blankOS, needPom := false } (C15Consts.maxMavenParent - 0) 0 []
      p0.parent p0 = some (anc.foldl Project.MergeParent p0) := hw
  unfold apiRequirementsWith
  simp only [hname, Bool.false_eq_true, if_false, hfound, hkey, pipelineWith, apiCfg, hp0, walkWith, hw', Option.map_some]
  rfl

/-- The same closed form for the example's pipeline (chain of at most 99 ancestors, each with packaging `pom`,
library JDK/OS): both instances compute "fold `MergeParent`, `Interpolate`, `ProcessDependencies`". -/
theorem example_on_chain (L : Lineage) (p0 : Project) (anc : List Project)
    (hp0 : L.root.MergeProfiles jdkEnv osEnv = some p0)
    (hchain : IsChain (exampleCfg L.repo).walk 1 p0.parent anc) (hnocycle : (chainKeys p0.parent anc).Nodup)
    (hbound : anc.length ≤ 99) :
    goProject L = some (((anc.foldl Project.MergeParent p0).Interpolate).ProcessDependencies
      (importWith interpolateStr (exampleCfg L.repo))) := by
  have hw := walk_eq_fold (exampleCfg L.repo).walk anc 99 1 [] p0.parent p0 hchain hnocycle (by simp) hbound
  have hw' : walkLoop { get := fetch L.repo, jdk := jdkEnv, os := osEnv, needPom := true } (C15Consts.maxMavenParent - 1) 1 []
      p0.parent p0 = some (anc.foldl Project.MergeParent p0) := hw
  rw [example_pipeline_is_instance]
  simp only [pipelineWith, exampleCfg, hp0, walkWith, hw', Option.map_some]

/-! ## 3. Refinement: the API client computes the documented pipeline on its view of the lineage -/

/-- **For every lineage** (no size bound, cycles and missing parents included: then both sides are the error)
whose effective project name has no `>`: `Requirements` over the service that serves the lineage =
`MavenDepType` mapped over the dependencies of the documented pipeline (the example's walk, packaging test and
import callback; no JDK, no OS; walk of the project's parents from index 0) on the API's view of the lineage. -/
theorem api_eq_direct_on_view (L : Lineage)
    (hname : (apiName L.root.storeKey.g L.root.storeKey.a).contains cGt = false) :
    apiOfLineage L = directOnView L :=
  api_eq_direct_on_view_with interpolateStr L hname

/-- The conversion loses nothing the view does not lose: `mavenRequirementsToProject` after the harness's encoding
is the view, up to the packaging (which the API does not transport). -/
theorem to_project_of_encoding (k : Key) (p : Project) :
    toProject k (some (encodePom p)) = { view k p with packaging := [] } :=
  toProject_encode k p

/-! ## 4. `MavenDepType` and `MavenDepTypeToDependency` -/

/-- The Scope attribute is never `test`, `compile` or empty (dep.Scope: "Maven scopes 'compile' and 'test' are
not valid here"), and Test is set exactly for scope `test`. -/
theorem depType_scope_valid (d : Dep) (origin : Bytes) :
    ((mavenDepType d origin).test = true ↔ d.scope = bTest) ∧
    ∀ s, (mavenDepType d origin).scope = some s → s = d.scope ∧ s ≠ bTest ∧ s ≠ bCompile ∧ s ≠ [] := by
  constructor
  · simp [mavenDepType]
  · intro s hs
    unfold mavenDepType at hs
    by_cases h1 : (d.scope == bTest) = true
    · simp [h1] at hs
    · by_cases h2 : (!d.scope.isEmpty && d.scope != bCompile) = true
      · simp only [h1, h2, if_true, Bool.false_eq_true, if_false, Option.some.injEq] at hs
        subst hs
        simp only [Bool.and_eq_true, Bool.not_eq_true', bne_iff_ne, ne_eq] at h2
        refine ⟨rfl, by simpa using h1, h2.2, ?_⟩
        intro e; simp [e] at h2
      · simp [h1, h2] at hs

/-- **The round trip**, for every dependency and every origin: the result is the dependency normalised (no
coordinates; `jar`, `compile`, "not optional" as empty strings; exclusions containing a pipe dropped — that
is what `ExclusionsString` does —, the others split at their first colon) and the origin. -/
theorem depType_roundtrip (d : Dep) (origin : Bytes) :
    mavenDepTypeToDependency (mavenDepType d origin) = .ok (normalise d, origin) :=
  DepsDev.Proofs.C15ApiType.depType_roundtrip d origin

/-- `g:x:1` with the single exclusion `a|b:c` (the witness of F-C15-i, fixed): `ExclusionsString` skips the
exclusion, the attribute is the empty string, its only segment is empty and skipped. -/
def W_pipe : Dep := ⟨[103], [120], [49], [], [], [], [], [⟨[97, 124, 98], [99]⟩]⟩

example : (mavenDepType W_pipe []).excl = some [] := by decide
example : mavenDepTypeToDependency (mavenDepType W_pipe []) = .ok (⟨[], [], [], [], [], [], [], []⟩, []) := by decide

/-- Well-formed exclusions (`g:a` with no pipe in either part and no colon in the group) come back unchanged. -/
theorem exclusions_come_back (d : Dep) (hwf : ∀ e ∈ d.excl, hasPipe e = false ∧ cColon ∉ e.g) :
    (normalise d).excl = d.excl := by
  have hk : kept d.excl = d.excl := by
    unfold kept
    apply List.filter_eq_self.2
    intro e he; simp [(hwf e he).1]
  have hv : ∀ e ∈ d.excl, viewExcl e = e := by
    intro e he
    have hc := (hwf e he).2
    have : cutColon (apiName e.g e.a) = some (e.g, e.a) := by
      generalize e.g = g at hc
      induction g with
      | nil => simp [apiName, cutColon]
      | cons c g ih =>
        simp only [List.mem_cons, not_or] at hc
        have hcc : ¬ c = cColon := fun e => hc.1 e.symm
        have : apiName (c :: g) e.a = c :: apiName g e.a := rfl
        rw [this, cutColon]
        simp [hcc, ih hc.2]
    simp [viewExcl, this]
  simp only [normalise, hk]
  exact (List.map_congr_left hv).trans (List.map_id _)

/-- **`MavenDepTypeToDependency` is total**: it never panics (no slice expression goes out of range), for every
Maven dep.Type. -/
theorem typeToDependency_total (t : DType) : mavenDepTypeToDependency t ≠ .panic :=
  typeToDependency_no_panic t

/-- It returns the error `invalid Maven dep.Type` exactly for Test together with Scope, or an exclusions
attribute one of whose non-empty `|`-separated segments has no colon; otherwise a dependency. -/
theorem typeToDependency_error_condition (t : DType) :
    mavenDepTypeToDependency t = .err ↔
      (t.test = true ∧ t.scope ≠ none) ∨ ∃ e, t.excl = some e ∧ ∃ s ∈ splitPipe e, s ≠ [] ∧ cColon ∉ s :=
  typeToDependency_err_iff t

/-- a type whose exclusions attribute is `nocolon` (the second witness of F-C15-i, fixed): the error -/
def W_nocolon : DType := ⟨false, false, false, none, none, none, none, some [110, 111, 99, 111, 108, 111, 110]⟩

example : mavenDepTypeToDependency W_nocolon = .err := by decide
/-- `g:x||*:*|`: empty segments are skipped -/
example : mavenDepTypeToDependency ⟨false, false, false, none, none, none, none, some [103, 58, 120, 124, 124, 42, 58, 42, 124]⟩ =
    .ok (⟨[], [], [], [], [], [], [], [⟨[103], [120]⟩, ⟨[42], [42]⟩]⟩, []) := by decide

/-! ## Non-vacuity -/

/-- a dependency with scope runtime, type pom, optional, one exclusion with a pipe and two without -/
def E_dep : Dep := ⟨[103], [120], [49], bPom, [116], [114, 117, 110], bTrue,
  [⟨[103], [121]⟩, ⟨[97, 124, 98], [99]⟩, ⟨[42], [42]⟩]⟩

example : mavenDepTypeToDependency (mavenDepType E_dep [105]) =
    .ok (⟨[], [], [], bPom, [116], [114, 117, 110], bTrue, [⟨[103], [121]⟩, ⟨[42], [42]⟩]⟩, [105]) := by decide

/-- a service with the project `g:c:1` (parent `g:q:1`, one dependency) and its parent (one dependency, no parent):
the hypotheses of `apiRequirements_on_chain` hold with the chain `[q]`. -/
def E_U : Universe :=
  [([103, 58, 99], [49], some ⟨some ([103, 58, 113], [49]), [⟨[103, 58, 120], [49], [], [], [], [], []⟩], [], [], []⟩),
   ([103, 58, 113], [49], some ⟨none, [⟨[103, 58, 121], [50], [], [], [116, 101, 115, 116], [], []⟩], [], [], []⟩)]

def E_q : Project := ⟨[103], [113], [49], ⟨[], [], []⟩, [], [], [⟨[103], [121], [50], [], [], bTest, [], []⟩], [], []⟩

example : IsChain (apiCfg E_U).walk 0 ⟨[103], [113], [49]⟩ [E_q] ∧ (chainKeys ⟨[103], [113], [49]⟩ [E_q]).Nodup := by
  refine ⟨⟨by decide, E_q, by decide, by decide, by decide, ?_⟩, by decide⟩
  show Api.Key.incomplete E_q.parent = true
  decide

/-- a cycle `g:a:1 → g:b:1 → g:a:1`: the hypotheses of `parent_cycle_is_error` hold -/
def E_cyc : Universe :=
  [([103, 58, 97], [49], some ⟨some ([103, 58, 98], [49]), [], [], [], []⟩),
   ([103, 58, 98], [49], some ⟨some ([103, 58, 97], [49]), [], [], [], []⟩)]

example : Steps (apiCfg E_cyc).walk ⟨[103], [97], [49]⟩ [⟨[103], [97], [49]⟩, ⟨[103], [98], [49]⟩] ⟨[103], [97], [49]⟩ :=
  .step (p := toProject ⟨[103], [97], [49]⟩ (some ⟨some ([103, 58, 98], [49]), [], [], [], []⟩))
    (q := toProject ⟨[103], [97], [49]⟩ (some ⟨some ([103, 58, 98], [49]), [], [], [], []⟩)) (by decide) (by decide) (by decide)
    (.step (p := toProject ⟨[103], [98], [49]⟩ (some ⟨some ([103, 58, 97], [49]), [], [], [], []⟩))
      (q := toProject ⟨[103], [98], [49]⟩ (some ⟨some ([103, 58, 97], [49]), [], [], [], []⟩)) (by decide) (by decide) (by decide)
      (.refl _))

/-
Ties (DESIGN 3.3):
  example_loop_is_walk, example_pipeline_is_instance : Model.Maven.mergeParentsLoop / goProject (op `pom`) =
                                  instances of Api.walkLoop / Api.pipelineWith
  parent_*, api_parent_walk_*   : Api.walkLoop, Api.walkLoopT, Gen.C15Consts.maxMavenParent (ops `apireq`, `apidirect`,
                                  compact chains `C n back imp` around the bound)
  apiRequirements_on_chain, api_eq_direct_on_view : Api.apiRequirements, Api.toProject, Api.encodePom, Api.view,
                                  Api.directOnView (ops `apireq`, `apidirect`; harness oracle api-direct)
  depType_*, typeToDependency_* : Api.mavenDepType, Api.mavenDepTypeToDependency (ops `deptype`, `typedep`;
                                  harness oracles deptype-roundtrip, api-total)
-/
end DepsDev.Props.C15b
