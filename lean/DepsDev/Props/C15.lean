import DepsDev.Proofs.C15Interp
import DepsDev.Proofs.C15Precedence
import DepsDev.Proofs.C15Equal
import DepsDev.Proofs.C15Chain
import DepsDev.Model.Maven.Clauses
import DepsDev.Ref.MavenModel

/-!
# C15 — the effective POM computed from a project lineage equals Maven's;
interpolation terminates for every property table

Model: `DepsDev.Model.Maven.*` (the Go code, divergences included).
Spec: `DepsDev.Ref.MavenModel.effective` (Maven's model building algorithm).

Contents
1. termination and the shape of the result of `interpolating` (unconditional, all inputs);
2. precedence lemmas (unconditional, all inputs);
3. the equality with Maven: full statement, its refutation on the unchanged code by
   concrete witnesses (one per divergence class), the partial theorem, non-vacuity.
-/
namespace DepsDev.Props.C15
open DepsDev DepsDev.Model.Maven DepsDev.Ref DepsDev.Gen
open DepsDev.Proofs.C15Interp DepsDev.Proofs.C15Precedence DepsDev.Proofs.C15Equal DepsDev.Proofs.C15Chain

/-! ## 1. Interpolation terminates and leaves unresolved placeholders in place -/

/-- **Termination.** `interpolating` is a total function (Lean accepted its definition
with the measure `(free dictionary entries, length)` and no fuel), and the Go loop
run with an explicit step budget — `interpF`, which answers `none` when the budget is
exhausted — returns that same value for every budget from `need d resolving s` on, for
every table (cyclic and self-referential ones included), every `resolving` set and every string. -/
theorem interp_terminates (d : Dict) (resolving : List Bytes) (s : Bytes) :
    ∀ fuel, need d resolving s ≤ fuel → interpF fuel d resolving s = some (interpolating d resolving s) :=
  fun fuel h => interpF_eq fuel d resolving s h

/-- The total function satisfies the equations of the Go loop body (one per branch). -/
theorem interp_loop_equations (d : Dict) (r : List Bytes) (s : Bytes) :
    (findOpen s = none → interpolating d r s = (s, true)) ∧
    (∀ pre after, findOpen s = some (pre, after) → findClose after = none → interpolating d r s = (s, true)) ∧
    (∀ pre after key rest, findOpen s = some (pre, after) → findClose after = some (key, rest) →
      (r.contains key = true → interpolating d r s = (pre ++ cDollar :: cOpen :: after, false)) ∧
      (∀ v, r.contains key = false → d.get key = some v →
        interpolating d r s = (pre ++ (interpolating d (key :: r) v).1 ++ (interpolating d r rest).1,
                               (interpolating d (key :: r) v).2 && (interpolating d r rest).2)) ∧
      (r.contains key = false → d.get key = none →
        interpolating d r s = (pre ++ (cDollar :: cOpen :: key ++ [cClose]) ++ (interpolating d r rest).1, false))) :=
  ⟨interp_no_open, fun _ _ => interp_no_close,
   fun _ _ _ _ h1 h2 => ⟨interp_cycle h1 h2, fun _ hr hv => interp_defined h1 h2 hr hv, interp_undefined h1 h2⟩⟩

/-- Strings without `${` are unchanged (and count as resolved), whatever the table. -/
theorem interp_no_placeholder_identity (d : Dict) (resolving : List Bytes) (s : Bytes)
    (h : ¬ [cDollar, cOpen] <:+: s) : interpolating d resolving s = (s, true) :=
  interp_identity h

/-- **Unresolved placeholders stay in place.** Let `${key}` be the first placeholder of a
string (`pre` has no `${`, `key` has no `}`).
* If `key` is undefined, the output is `pre ++ "${key}"` followed by the interpolation of the rest,
  and the result is flagged unresolved.
* If `key` is being expanded (it is on a cycle that led here), the output is the input verbatim from
  there on, and the result is flagged unresolved. -/
theorem interp_leaves_unresolved (d : Dict) (resolving : List Bytes) (pre key rest : Bytes)
    (hpre : ¬ [cDollar, cOpen] <:+: pre) (hkey : cClose ∉ key) :
    (d.get key = none → resolving.contains key = false →
      interpolating d resolving (pre ++ cDollar :: cOpen :: key ++ cClose :: rest) =
        (pre ++ cDollar :: cOpen :: key ++ cClose :: (interpolating d resolving rest).1, false)) ∧
    (resolving.contains key = true →
      interpolating d resolving (pre ++ cDollar :: cOpen :: key ++ cClose :: rest) =
        (pre ++ cDollar :: cOpen :: key ++ cClose :: rest, false)) := by
  have h1 := findOpen_decomp pre (key ++ cClose :: rest) hpre
  have h2 := findClose_decomp key rest hkey
  constructor
  · intro hv hr
    have := interp_undefined (d := d) h1 h2 hr hv
    simpa using this
  · intro hr
    have := interp_cycle (d := d) h1 h2 hr
    simpa using this

/-- A self-referential property (`k = …${k}…`, the reference being the first placeholder of the
value): expanding `${k}` yields the value with its inner `${k}` left verbatim, unresolved. -/
theorem interp_leaves_unresolved_self_reference (d : Dict) (k v pre after rest : Bytes)
    (hv : d.get k = some v) (h1 : findOpen v = some (pre, after)) (h2 : findClose after = some (k, rest)) :
    interpolating d [] (cDollar :: cOpen :: k ++ [cClose]) = (v, false) :=
  interp_self_reference hv h1 h2

/-- With nothing defined every string is returned unchanged. -/
theorem interp_nothing_defined (resolving : List Bytes) (s : Bytes) : (interpolating [] resolving s).1 = s :=
  interp_empty_dict resolving s

/-- A 3-cycle `a = x${b}`, `b = y${c}`, `c = z${a}`: `${a}` expands to `xyz${a}`, unresolved
(evaluated through the budgeted twin, which `interp_terminates` equates with `interpolating`). -/
theorem interp_three_cycle :
    interpolating [([97], [120, 36, 123, 98, 125]), ([98], [121, 36, 123, 99, 125]), ([99], [122, 36, 123, 97, 125])] []
      [36, 123, 97, 125] = ([120, 121, 122, 36, 123, 97, 125], false) := by
  have h := interp_terminates
    [([97], [120, 36, 123, 98, 125]), ([98], [121, 36, 123, 99, 125]), ([99], [122, 36, 123, 97, 125])] []
    [36, 123, 97, 125] 40 (by decide)
  have e : interpF 40 [([97], [120, 36, 123, 98, 125]), ([98], [121, 36, 123, 99, 125]), ([99], [122, 36, 123, 97, 125])] []
      [36, 123, 97, 125] = some ([120, 121, 122, 36, 123, 97, 125], false) := by decide
  rw [e] at h
  exact (Option.some.inj h).symm

/-! ## 2. Precedence -/

/-- **Child property beats parent.** After `MergeParent`, the table built by `propertyMap`'s first
loop gives a key the child's value whenever the child declares it, the parent's otherwise. -/
theorem child_property_beats_parent (child parent : Project) (k : Bytes) :
    (propsToDict (child.MergeParent parent).props).get k =
      match (propsToDict child.props).get k with
      | some v => some v
      | none => (propsToDict parent.props).get k :=
  propsMerge_get child.props parent.props k

/-- **Profile property beats project.** After merging an active profile the profile's value wins. -/
theorem profile_property_beats_project (p : Project) (prof : Profile) (k : Bytes) :
    (propsToDict (mergeProfile p prof).props).get k =
      match (propsToDict prof.props).get k with
      | some v => some v
      | none => (propsToDict p.props).get k :=
  propsMerge_get prof.props p.props k

/-- Within one `<properties>` block the last declaration of a name wins. -/
theorem last_property_declaration_wins (props : List (Bytes × Bytes)) (k : Bytes) :
    (propsToDict props).get k = lastVal props k :=
  propsToDict_get props k

/-- **`project.version` cannot be overridden** by a property of that name… -/
theorem project_version_not_overridable (p : Project) (h : p.v ≠ []) :
    p.propertyMap.get (MavenModel.bProjectDot ++ MavenModel.bVersion) = some p.v ∧
    p.propertyMap.get (MavenModel.bPomDot ++ MavenModel.bVersion) = some p.v :=
  ⟨project_version_fixed p h, pom_version_fixed p h⟩

/-- …**the bare name `version` can**: a declared property of that name hides the built-in. -/
theorem bare_version_overridable (p : Project) (v : Bytes) (h : (propsToDict p.props).get MavenModel.bVersion = some v) :
    p.propertyMap.get MavenModel.bVersion = some v :=
  bare_version_kept p v h

/-- **First declaration wins on duplicate dependency keys.** The entry `ProcessDependencies`
records for a key is the first dependency with that key (with its type defaulted to `jar`). -/
theorem first_declaration_wins (deps : List Dep) (k : DepKey) :
    (dedupeDeps deps []).get k = (deps.find? fun d => d.key = k).map Dep.normType := by
  rw [dedupeDeps_get]; rfl

/-- The same for dependency management: the first non-import declaration of a key wins
among the entries of one list, and an entry that is already managed is never replaced. -/
theorem first_managed_declaration_wins (ds : List Dep) (m : DepMap) (k : DepKey) :
    (addDepManagement ds m).1.get k =
      match m.get k with
      | some x => some x
      | none => (ds.find? fun d => d.scope ≠ bImport ∧ d.key = k).map Dep.normType :=
  addDepManagement_get ds m k

/-- **Management never overwrites a present field**: version, scope and exclusions are copied
only into empty fields; group, artifact, type, classifier and optional are never touched. -/
theorem management_never_overwrites (mgmt : DepMap) (k : DepKey) (dep : Dep) :
    let r := fillFromManagement mgmt (k, dep)
    (dep.v ≠ [] → r.v = dep.v) ∧ (dep.scope ≠ [] → r.scope = dep.scope) ∧ (dep.excl ≠ [] → r.excl = dep.excl) ∧
    r.g = dep.g ∧ r.a = dep.a ∧ r.typ = dep.typ ∧ r.cls = dep.cls ∧ r.opt = dep.opt :=
  fill_keeps_present mgmt k dep

/-- …and an empty version / scope / exclusion list is filled from the managed entry of the key. -/
theorem management_fills_empty (mgmt : DepMap) (k : DepKey) (dep dm : Dep) (h : mgmt.get k = some dm) :
    let r := fillFromManagement mgmt (k, dep)
    (dep.v = [] → r.v = dm.v) ∧ (dep.scope = [] → r.scope = dm.scope) ∧ (dep.excl = [] → r.excl = dm.excl) :=
  fill_fills_empty mgmt k dep dm h

/-- **Own managed entry beats imported.** What the project's own `dependencyManagement` says
about a key is what `ProcessDependencies` ends up with, whatever the imports contain. -/
theorem own_managed_beats_imported (p : Project) (get : Bytes → Bytes → Bytes → Option (List Dep))
    (k : DepKey) (x : Dep) (h : (addDepManagement p.mgmt []).1.get k = some x) :
    (importLoop get C15Consts.maxImports (addDepManagement p.mgmt []).2 [] (addDepManagement p.mgmt []).1).get k = some x :=
  importLoop_keeps get _ _ _ h

/-- **Earlier import beats later.** Once a key is managed — by an own entry or by an import
already processed — no later step of the import loop changes it. -/
theorem earlier_import_beats_later (get : Bytes → Bytes → Bytes → Option (List Dep)) (fuel : Nat)
    (queue : List Dep) (imported : List DepKey) (m : DepMap) (k : DepKey) (x : Dep) (h : m.get k = some x) :
    (importLoop get fuel queue imported m).get k = some x :=
  importLoop_keeps get fuel queue imported h

/-! ## 3. Equality with Maven's model builder -/

/-- The Go pipeline and Maven's algorithm yield the same dependencies and managed dependencies
(all eight fields, in order), up to the representation of defaults (`canon`). -/
def Agrees (L : Lineage) : Prop :=
  (goPipeline L).map MavenModel.canon = (MavenModel.effective L).map MavenModel.canon

instance (L : Lineage) : Decidable (Agrees L) := by unfold Agrees; infer_instance

/-- **The property at full strength**: for every lineage that is a valid model for Maven. -/
def C15_effective_pom_equals_maven : Prop :=
  ∀ L : Lineage, MavenModel.effective L ≠ none → Agrees L

/-! ### Witnesses: one small lineage per divergence class -/

def bG : Bytes := [103]        -- g
def bX : Bytes := [120]        -- x
def bC : Bytes := [99]         -- c   (the project's artifactId)
def bB : Bytes := [98]         -- b   (a BOM)
def bQ : Bytes := [113]        -- q   (the BOM's parent)
def b1 : Bytes := [49]         -- 1
def b2 : Bytes := [50]         -- 2
def noKey : Key := ⟨[], [], []⟩
def dep (g a v : Bytes) : Dep := ⟨g, a, v, [], [], [], [], []⟩
def single (deps mgmt : List Dep) (profiles : List Profile) : Lineage :=
  ⟨⟨bG, bC, b1, noKey, [], [], deps, mgmt, profiles⟩, []⟩

/-- (a) a placeholder the library cannot resolve: `g:x:${u}`. Maven keeps the dependency
with the placeholder verbatim, the library drops it. -/
def W_a : Lineage := single [dep bG bX [36, 123, 117, 125]] [] []
/-- (b) duplicate declaration within one POM: `g:x:1`, `g:x:2`. Maven: the last one; library: the first. -/
def W_b : Lineage := single [dep bG bX b1, dep bG bX b2] [] []
/-- (c) keys that coincide only after interpolation: `${project.groupId}:x:1`, `g:x:2`. Maven keeps both. -/
def W_c : Lineage := single [dep (cDollar :: cOpen :: MavenModel.bProjectDot ++ MavenModel.bGroupId ++ [cClose]) bX b1, dep bG bX b2] [] []
/-- (d) JDK activation `!1.8`: a negation for Maven (active on 11.0.8), an error for the library. -/
def W_d : Lineage := single [] [] [⟨[], .simple true [1, 8], ⟨[], [], [], []⟩, [], [dep bG bX b1], []⟩]
/-- (f) `${project.parent.version}` inside an imported BOM that has a parent: unresolved in the
library (the project the import callback builds has no `Parent`), so the managed entry is dropped. -/
def W_f : Lineage :=
  ⟨⟨bG, bC, b1, noKey, [], [], [], [⟨bG, bB, b1, bPom, [], bImport, [], []⟩], []⟩,
   [⟨[], bB, [], ⟨bG, bQ, b1⟩, bPom, [], [],
      [dep bG bX (cDollar :: cOpen :: MavenModel.bProjectDot ++ MavenModel.bParentVersion ++ [cClose])], []⟩,
    ⟨bG, bQ, b1, noKey, bPom, [], [], [], []⟩]⟩
/-- (g) JDK activation `11.0.7`: Maven tests `java.version.startsWith`, the library `≤` within the same minor. -/
def W_g : Lineage := single [] [] [⟨[], .simple false [11, 0, 7], ⟨[], [], [], []⟩, [], [dep bG bX b1], []⟩]

theorem W_valid : MavenModel.effective W_a ≠ none ∧ MavenModel.effective W_b ≠ none ∧ MavenModel.effective W_c ≠ none ∧
    MavenModel.effective W_d ≠ none ∧ MavenModel.effective W_f ≠ none ∧ MavenModel.effective W_g ≠ none := by decide

set_option maxRecDepth 8000 in
theorem refute_a_unresolved_dropped : ¬ Agrees W_a := by unfold Agrees; rw [goPipeline_eq_F]; decide
set_option maxRecDepth 8000 in
theorem refute_b_duplicate_first_wins : ¬ Agrees W_b := by unfold Agrees; rw [goPipeline_eq_F]; decide
set_option maxRecDepth 8000 in
theorem refute_c_dedupe_after_interpolation : ¬ Agrees W_c := by unfold Agrees; rw [goPipeline_eq_F]; decide
set_option maxRecDepth 8000 in
theorem refute_d_jdk_negation : ¬ Agrees W_d := by unfold Agrees; rw [goPipeline_eq_F]; decide
set_option maxRecDepth 8000 in
theorem refute_f_parent_builtin_in_bom : ¬ Agrees W_f := by unfold Agrees; rw [goPipeline_eq_F]; decide
set_option maxRecDepth 8000 in
theorem refute_g_jdk_prefix : ¬ Agrees W_g := by unfold Agrees; rw [goPipeline_eq_F]; decide

/-- The property does not hold of the unchanged code. -/
theorem c15_effective_pom_equals_maven_false : ¬ C15_effective_pom_equals_maven :=
  fun h => refute_a_unresolved_dropped (h W_a W_valid.1)

/-- Each witness falsifies exactly the clause it is named after (the classifier of a finding
is the negation of that clause). -/
theorem witnesses_classified :
    Clauses.clauseA W_a = false ∧ Clauses.clauseB W_b = false ∧ Clauses.clauseC W_c = false ∧
    Clauses.clauseD W_d = false ∧ Clauses.clauseF W_f = false ∧ Clauses.clauseG W_g = false := by
  refine ⟨?_, by decide, ?_, by decide, by decide, by decide⟩
  · unfold Clauses.clauseA Clauses.resolvable Dep.interpolate
    rw [interpolateStr_eq_F]
    decide
  · unfold Clauses.clauseC Clauses.stable Clauses.keyPairs Dep.interpolate
    rw [interpolateStr_eq_F]
    decide

/-! ### The partial theorem -/

/-- **Partial equality theorem** (fragment: a single POM — no parent, no profiles — without
import-scoped entries and without any `${` in its dependency fields). Exact hypotheses:
`SinglePlain L` (the fragment), `Clauses.clauseB L` (no duplicate key within the POM; on this
fragment clauses a, c, d, f, g hold trivially), and Maven-validity of the result
(`ValidSingle`: ids well-formed, every dependency has a version after management).
Outside the fragment the equality rests on the differential evidence only. -/
theorem pipeline_eq_ref_partial (L : Lineage) (hfrag : SinglePlain L = true) (hB : Clauses.clauseB L = true)
    (hvalid : ValidSingle L = true) : Agrees L :=
  single_plain_agrees L hfrag hB hvalid

/-- **Inheritance is "concatenate, then the first declaration wins".** Maven's child-wins keyed
merge of a child's list (distinct keys) with the merged list of its ancestors equals the
deduplicated concatenation the library computes. -/
theorem inheritance_is_concat_then_first_wins (child anc : List Dep)
    (h : Clauses.allDistinct (child.map MavenModel.mkey) = true) :
    MavenModel.mergeKeyed child (firstWins anc) false = firstWins (child ++ anc) :=
  inherit_eq_firstWins child anc h

/-- **Partial equality theorem with inheritance** (fragment `InheritPlain`: the parent chain resolves
and is no longer than the library's parent bound; no POM on it has profiles, `${`, or an
import-scoped entry; within one POM the keys are distinct — a child may override its ancestors'
declarations). Exact hypotheses: `InheritPlain L` and Maven-validity `effective L ≠ none`.
On this fragment the six clauses hold. Lineages with profiles, imports or placeholders rest on
the differential evidence only. -/
theorem pipeline_eq_ref_partial_inheritance (L : Lineage) (hfrag : InheritPlain L = true)
    (hvalid : MavenModel.effective L ≠ none) : Agrees L :=
  inherit_plain_agrees L hfrag hvalid

/-! ### Non-vacuity -/

/-- a lineage with inheritance and overriding: the child `c` (no groupId, no version, parent `g:q:1`)
declares `g:x` without version and manages `g:x:2`; the parent declares `g:x:1` (overridden) and
`g:y` without version, and manages `g:x:9` (overridden) and `g:y:3`. -/
def E_inh : Lineage :=
  ⟨⟨[], bC, [], ⟨bG, bQ, b1⟩, [], [], [dep bG bX []], [dep bG bX b2], []⟩,
   [⟨bG, bQ, b1, noKey, bPom, [], [⟨bG, bX, b1, [], [], [116], [], []⟩, dep bG [121] []],
      [dep bG bX [57], dep bG [121] [51]], []⟩]⟩

example : InheritPlain E_inh = true := by decide
example : MavenModel.effective E_inh =
    some ([dep bG bX b2, dep bG [121] [51]], [dep bG bX b2, dep bG [121] [51]]) := by decide
example : Agrees E_inh := pipeline_eq_ref_partial_inheritance E_inh (by decide) (by decide)


/-- a lineage inside the fragment: `g:c:1` with dependency `g:x` (no version, scope test) and
managed `g:x:2` with an exclusion; both sides yield `g:x:2:jar::test` with the exclusion. -/
def E_ok : Lineage :=
  single [⟨bG, bX, [], [], [], [116], [], []⟩] [⟨bG, bX, b2, [], [], [], [], [⟨bG, bC⟩]⟩] []

example : SinglePlain E_ok = true ∧ Clauses.clauseB E_ok = true ∧ ValidSingle E_ok = true := by decide
example : Clauses.inside E_ok = true := by
  unfold Clauses.inside Clauses.clauseA Clauses.clauseC Clauses.clauseF Clauses.resolvable Clauses.stable
    Clauses.keyPairs Dep.interpolate
  rw [interpolateStr_eq_F]; decide
example : MavenModel.effective E_ok =
    some ([⟨bG, bX, b2, [], [], [116], [], [⟨bG, bC⟩]⟩], [⟨bG, bX, b2, [], [], [], [], [⟨bG, bC⟩]⟩]) := by decide
example : Agrees E_ok := pipeline_eq_ref_partial E_ok (by decide) (by decide) (by decide)
/-- the hypotheses of the interpolation theorems are satisfiable with non-trivial data -/
example : interpolating [([97], [49])] [] [36, 123, 122, 125] = ([36, 123, 122, 125], false) := by
  have := (interp_leaves_unresolved [([97], [49])] [] [] [122] [] (by decide) (by decide)).1 (by decide) (by decide)
  simpa [interp_no_open (d := [([97], [49])]) (r := []) (s := []) rfl] using this

/-
Ties (DESIGN 3.3):
  interp_* theorems            : Model.Maven.interpolating, findOpen, findClose, interpF (op `interp`)
  child_/profile_/last_property : Model.Maven.propsToDict, propsMerge, Project.MergeParent, mergeProfile (op `pom`)
  project_version_*, bare_*    : Model.Maven.Project.propertyMap, Gen.C15Consts.builtins, builtinPrefixes (op `pom`)
  first_*, management_*, own_*, earlier_* : Model.Maven.dedupeDeps, addDepManagement, importLoop,
                                  fillFromManagement, Gen.C15Consts.maxImports (op `pom`)
  Agrees, refute_*, pipeline_eq_ref_partial : Model.Maven.goPipeline, Ref.MavenModel.effective (ops `pom`, `ref`),
                                  Model.Maven.Clauses (op `classify`)
-/
end DepsDev.Props.C15
