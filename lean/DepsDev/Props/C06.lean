import DepsDev.Proofs.C06Spec
import DepsDev.Proofs.C06Cycle
import DepsDev.Proofs.C06Conflict
import DepsDev.Proofs.C06T2

/-!
# C06 — an npm resolution graph is a valid, loadable node_modules installation

Statements about `DepsDev.Resolve.Npm.resolve`, the bundle-free model of
`util/resolve/npm/resolve.go` (`Model/Resolve/Npm.lean`; its header states the boundary:
the client's answers — version lists, requirement lists, `MatchingVersions` results — are
data of the `Universe`; what a requirement string *means* is C03/C12's business).

Every theorem is of the form: *for every universe, root and fuel, if the run finishes
(`resolve u rn rv fuel = some (.ok st)`) then …*. Termination is not proved; for universes
with aliases it is false (`alias_cycle_never_finishes`, helper file `Proofs/C06Cycle.lean`).
Universes with bundled (derived) packages are outside this model (`Model/Resolve/NpmBundle.lean`
covers them for the correspondence only).

| clause | theorem | strength |
|---|---|---|
| E3 every node reachable | `e3_reachable` | full (aliases included) |
| T1 no directory holds two packages of one name | `t1_one_name_per_directory` | full (aliases included) |
| E4 a fresh install is the pick of lines 321–332 | `e4_fresh_pick` + `PickSpec` | full |
| E4 "`latest` if it satisfies" | `e4_latest_partial` | needs `LatestLast`; `e4_latest_refuted` |
| E4 "else highest non-deprecated, else highest" | `e4_highest_partial` | needs `U2` |
| E2 w.r.t. `regularImports` | `e2_regular_resolved` | full |
| E2 w.r.t. every non-dev, non-peer requirement | `e2_partial` | needs `OptPlain`; `e2_optpeer_refuted` |
| E1 what each edge's branch guarantees | `e1_edge_cases` | full (alias path: version string only) |
| E1 target is a satisfying version of the required package | `e1_partial` | needs `AliasFree`, `TableWf`; `e1_alias_refuted` |
| every edge resolves a requirement of its source | `edges_from_requirements` | full |
| T2 Node's walk-up lookup lands on the edge's target | `t2_partial` | needs `AliasFree`, `U3`, `TableWf`; `t2_alias_refuted` |
| termination | not proved; false with aliases (`alias_cycle_never_finishes`) and, without aliases and bundles, on conflict cycles (`conflict_cycle_never_finishes`; hypothesis `NoConflictCycle`) | — |
-/

namespace DepsDev.Props.C06

open DepsDev.Resolve.Npm

/-! ## Well-formedness of universes (decidable; `U1`–`U3` of DESIGN 6.5, table sanity) -/

/-- U1: the (package, version string) keys of the universe are pairwise distinct. -/
def U1 (u : Universe) : Prop := (u.versions.map fun e => (e.1.name, e.1.version)).Nodup

/-- U2 (at most one `latest` per package) as the resolver can observe it: in an answer of
`MatchingVersions`, a version whose attribute set equals that of the package's `latest`
*is* the latest (so the odd `Version.Equal` — equal keys *or* equal attributes — agrees
with key equality). -/
def u2 (u : Universe) : Bool :=
  u.matching.all fun row =>
    match row.2 with
    | none => true
    | some vs =>
      match concreteForLatest u row.1.1 with
      | .ok (some L) => vs.all fun v => !(decide (v.attr = L.attr)) || v.keyEq L
      | _ => true
def U2 (u : Universe) : Prop := u2 u = true

/-- The name under which a dependency is installed. -/
def effName (i : Import) : Name := if i.alias = Name.empty then i.name else i.alias

/-- U3: after `regularImports` the effective names of one version's dependencies are
pairwise distinct. -/
def U3 (u : Universe) : Prop := ∀ e ∈ u.versions, ((regularImports e.2).map effName).Nodup

/-- The match table only lists versions of the package asked for, and each of them is a
version the client knows (with these attributes). -/
def tableWf (u : Universe) : Bool :=
  u.matching.all fun row =>
    match row.2 with
    | none => true
    | some vs => vs.all fun v => v.name == row.1.1 && decide (u.version v.name v.version = some v)
def TableWf (u : Universe) : Prop := tableWf u = true

/-- Hypothesis of the alias clauses: no requirement carries `KnownAs`. -/
def AliasFree (u : Universe) : Prop := ∀ e ∈ u.versions, ∀ d ∈ e.2, d.alias = Name.empty

/-- Hypothesis of "`latest` if it satisfies": whenever the package's `latest` is among the
versions matching a requirement, the client lists it last (`match.go: sortNPMVersions`
does so unless `latest` is a prerelease and the package has a release). -/
def latestLast (u : Universe) : Bool :=
  u.matching.all fun row =>
    match row.2 with
    | none => true
    | some vs =>
      match concreteForLatest u row.1.1 with
      | .ok (some L) =>
        !(vs.any fun v => v.keyEq L) ||
          (match vs.reverse with
           | l :: _ => l.keyEq L
           | [] => false)
      | _ => true
def LatestLast (u : Universe) : Prop := latestLast u = true

/-- Hypothesis of E2: a (non-dev) optional requirement is not also peer- or bundle-scoped. -/
def OptPlain (u : Universe) : Prop := ∀ e ∈ u.versions, OptPlainList e.2

/-! ### Conflict cycles (hypothesis of termination; finding F-C06-conflict-cycle)

A resolution of an alias-free, bundle-free universe can only go on for ever by nesting fresh
installs ever deeper. A fresh install below the root level of a package `q` happens only after
some requirement on `q` rejected an installed copy of `q` (or hit the trace of such a
rejection), i.e. `q` is *conflicted*: the version one requirement would install is not accepted
by another requirement. And every node of the tree was installed as the pick of a requirement
of a node in its parent's subtree, so an infinite branch is an infinite walk in the *pick graph*
(version → the versions its requirements would install) through conflicted packages; a node is
never installed directly under a node of its own package (the `unreachable version` exit), so
the walk cannot stay on one version. Only versions the root reaches in the pick graph are ever
installed. `conflictCycleFrom` is this necessary condition: among the requirements of the
versions reachable from the root, the pick graph restricted to conflicted packages, self-loops
removed, has a cycle. -/

/-- every requirement that survives `regularImports`, with the version that has it -/
def allReqs (u : Universe) : List (Version × Import) :=
  u.versions.flatMap fun e => (regularImports e.2).map fun d => (e.1, d)

/-- the version a fresh install for `d` would pick -/
def pickOf (u : Universe) (d : Import) : Option Version :=
  match u.matchingVersions d.name d.req with
  | .ok dvers =>
    match wouldPick u dvers with
    | .ok (some w) => some w
    | _ => none
  | _ => none

/-- the walk-up for `d` would not reuse an installed copy `w` of its package -/
def rejects (u : Universe) (d : Import) (w : Version) : Bool :=
  d.req != Name.star &&
    match u.matchingVersions d.name d.req with
    | .ok dvers => !(dvers.any fun x => w.keyEq x)
    | _ => false

abbrev VKey := Name × Name

def vkey (v : Version) : VKey := (v.name, v.version)

/-- `n` rounds of adding successors -/
def reachN (es : List (VKey × VKey)) : Nat → List VKey → List VKey
  | 0, xs => xs
  | n + 1, xs => reachN es n (xs ++ ((es.filter fun e => xs.contains e.1 && !xs.contains e.2).map (·.2)).eraseDups)

/-- the full pick graph: version → the versions fresh installs for its requirements pick -/
def fullPickEdges (u : Universe) : List (VKey × VKey) :=
  (allReqs u).filterMap fun r =>
    match pickOf u r.2 with
    | some w => some (vkey r.1, vkey w)
    | none => none

/-- the requirements of the versions the root can ever cause to be installed -/
def reqsFrom (u : Universe) (rn rv : Name) : List (Version × Import) :=
  let es := fullPickEdges u
  let reach := reachN es es.length [(rn, rv)]
  (allReqs u).filter fun r => reach.contains (vkey r.1)

/-- among `rs`: some requirement on `q` rejects the version another requirement on `q` installs -/
def conflicted (u : Universe) (rs : List (Version × Import)) (q : Name) : Bool :=
  rs.any fun r1 => r1.2.name == q &&
    match pickOf u r1.2 with
    | some w => rs.any fun r2 => r2.2.name == q && rejects u r2.2 w
    | none => false

/-- pick graph of `rs` on the versions of conflicted packages, self-loops removed -/
def pickEdges (u : Universe) (rs : List (Version × Import)) : List (VKey × VKey) :=
  let conf := (rs.map fun r => r.2.name).eraseDups.filter (conflicted u rs)
  rs.filterMap fun r =>
    if conf.contains r.1.name && conf.contains r.2.name then
      match pickOf u r.2 with
      | some w => if vkey r.1 = vkey w then none else some (vkey r.1, vkey w)
      | none => none
    else none

/-- some edge `x → y` closes a cycle: `y` reaches `x` -/
def hasCycle (es : List (VKey × VKey)) : Bool :=
  es.any fun e => (reachN es es.length [e.2]).contains e.1

/-- The root can reach a conflict cycle. -/
def conflictCycleFrom (u : Universe) (rn rv : Name) : Bool := hasCycle (pickEdges u (reqsFrom u rn rv))

/-- Hypothesis of termination for alias-free, bundle-free universes (argued necessary for
non-termination above, conjectured sufficient for termination; without it termination is
refuted by `conflict_cycle_never_finishes`). -/
def NoConflictCycle (u : Universe) (rn rv : Name) : Prop := conflictCycleFrom u rn rv = false

instance (u : Universe) (rn rv : Name) : Decidable (NoConflictCycle u rn rv) := by
  unfold NoConflictCycle; infer_instance
instance (u : Universe) : Decidable (U1 u) := by unfold U1; infer_instance
instance (u : Universe) : Decidable (U2 u) := by unfold U2; infer_instance
instance (u : Universe) : Decidable (U3 u) := by unfold U3; infer_instance
instance (u : Universe) : Decidable (TableWf u) := by unfold TableWf; infer_instance
instance (u : Universe) : Decidable (AliasFree u) := by unfold AliasFree; infer_instance
instance (u : Universe) : Decidable (LatestLast u) := by unfold LatestLast; infer_instance
instance (u : Universe) : Decidable (OptPlain u) := by unfold OptPlain OptPlainList; infer_instance

/-- The universes the property quantifies over. -/
def WF (u : Universe) : Prop := U1 u ∧ U2 u ∧ U3 u ∧ TableWf u
instance (u : Universe) : Decidable (WF u) := by unfold WF; infer_instance

/-- The run of `Resolve` on `(u, root)` finishes within `fuel` pops with state `st`. -/
def Finishes (u : Universe) (rn rv : Name) (fuel : Nat) (st : State) : Prop :=
  resolve u rn rv fuel = some (.ok st)

instance (u : Universe) (rn rv : Name) (fuel : Nat) (st : State) : Decidable (Finishes u rn rv fuel st) := by
  unfold Finishes; infer_instance

/-! ## E3 -/

/-- E3: every node of the returned graph is reachable from the root. -/
def E3 (st : State) : Prop := ∀ i, i < st.nodes.length → Reach st.edges i

theorem e3_reachable {u : Universe} {rn rv : Name} {fuel : Nat} {st : State}
    (h : Finishes u rn rv fuel st) : E3 st :=
  (resolve_inv h).inv.reach

/-! ## T1 -/

/-- T1: no two entries of the install tree have the same directory path of names — no
directory holds two packages of one name, plain children and alias slots alike. -/
def T1 (st : State) : Prop := (st.tree.map fun e => names e.1).Nodup

theorem t1_one_name_per_directory {u : Universe} {rn rv : Name} {fuel : Nat} {st : State}
    (h : Finishes u rn rv fuel st) : T1 st := by
  have := (resolve_inv h).inv.names_nodup
  unfold T1
  simpa [Tree.static, Tree.dyn, DEntry.static, TNode.dentry, Function.comp_def] using this

/-! ## E1 -/

/-- What the branch that added each edge guarantees (see `EdgeOK`): a fresh install is the
pick among the matching versions; a reused plain child has the key of a matching version or
is a copy of the required package (requirement `*`); on the alias path only the occupant's
version string was matched. -/
theorem e1_edge_cases {u : Universe} {rn rv : Name} {fuel : Nat} {st : State}
    (h : Finishes u rn rv fuel st) : ∀ e ∈ st.edges, EdgeOK u st.tree.static st.nodes e :=
  (resolve_inv h).inv.edge_ok

/-- E1 in full: every edge leads to a version **of the required package** that satisfies the
requirement (is among the client's matching versions), or the requirement is `*` and an
installed copy of the package is reused. -/
def E1 (u : Universe) (st : State) : Prop :=
  ∀ e ∈ st.edges, ∃ dvers g, u.matchingVersions e.imp.name e.imp.req = .ok dvers ∧
    st.nodes[e.dst]? = some g ∧ g.name = e.imp.name ∧
    ((∃ d ∈ dvers, g.name = d.name ∧ g.version = d.version) ∨
     (e.imp.req = Name.star ∧ e.fresh = false))

theorem tableWf_row {u : Universe} (hT : TableWf u) {p r : Name} {vs : List Version}
    (hm : u.matchingVersions p r = .ok vs) {v : Version} (hv : v ∈ vs) :
    v.name = p ∧ u.version v.name v.version = some v := by
  have hrow := matchingVersions_row hm
  unfold TableWf tableWf at hT
  have := List.all_eq_true.1 hT _ hrow
  simp only at this
  have := List.all_eq_true.1 this v hv
  simpa using this

/-- No slot of the tree is an alias slot when no requirement has an alias. -/
theorem no_alias_slot {u : Universe} {rn rv : Name} {fuel : Nat} {st : State}
    (hA : AliasFree u) (h : Finishes u rn rv fuel st) :
    (∀ x ∈ st.tree.static, ∀ d ∈ x.ideps, d.alias = Name.empty) ∧ ¬ HasAliasSlot st.tree.static := by
  have hl := resolve_inv h
  have hideps : ∀ x ∈ st.tree.static, ∀ d ∈ x.ideps, d.alias = Name.empty := by
    intro x hx d hd
    obtain ⟨reqs, hreqs, hid⟩ := hl.inv.ideps x hx
    obtain ⟨w, hw, _, _⟩ := requirements_mem hreqs
    rw [hid] at hd
    exact hA _ hw d (mem_regularImports.1 hd).1
  refine ⟨hideps, ?_⟩
  rintro ⟨x, hx, s, hs, hal⟩
  -- walk down the path to the offending slot
  have key : ∀ p : Path, p ∈ st.tree.keys → ∀ s ∈ p, s.alias = true → False := by
    intro p
    induction p with
    | nil => intro _ s hs; cases hs
    | cons s0 p ih =>
      intro hp s hs hal
      rcases List.mem_cons.1 hs with hs | hs
      · subst hs
        obtain ⟨y, hy, d, hd, hne⟩ := hl.alias_head s p hp hal
        exact hne (hideps y hy d hd)
      · have : p ∈ st.tree.keys := by
          rw [← Tree.static_keys] at hp ⊢
          exact hl.inv.prefix_closed s0 p hp
        exact ih this s hs hal
  exact key x.path (by rw [← Tree.static_keys]; exact List.mem_map.2 ⟨x, hx, rfl⟩) s hs hal

theorem e1_partial {u : Universe} {rn rv : Name} {fuel : Nat} {st : State}
    (hA : AliasFree u) (hT : TableWf u) (h : Finishes u rn rv fuel st) : E1 u st := by
  have hl := resolve_inv h
  obtain ⟨hideps, hnoslot⟩ := no_alias_slot hA h
  intro e he
  obtain ⟨dvers, g, hm, hg, hcase⟩ := hl.inv.edge_ok e he
  refine ⟨dvers, g, hm, hg, ?_⟩
  rcases hcase with ⟨_, v, hp, h1, h2⟩ | ⟨_, d, hd, h1, h2⟩ | ⟨hf, hstar, _, h1⟩ | ⟨_, hal, _⟩
  · have hv := wouldPick_mem hp
    exact ⟨h1.trans (tableWf_row hT hm hv).1, Or.inl ⟨v, hv, h1, h2⟩⟩
  · exact ⟨h1.trans (tableWf_row hT hm hd).1, Or.inl ⟨d, hd, h1, h2⟩⟩
  · exact ⟨h1, Or.inr ⟨hstar, hf⟩⟩
  · exfalso
    rcases hal with hal | hal
    · obtain ⟨x, hx, _, himp⟩ := hl.edge_src e he
      exact hal (hideps x hx _ himp)
    · exact hnoslot hal

/-! ## E2 -/

/-- Every edge resolves a requirement that survives `regularImports` of its source node's
version. -/
theorem edges_from_requirements {u : Universe} {rn rv : Name} {fuel : Nat} {st : State}
    (h : Finishes u rn rv fuel st) :
    ∀ e ∈ st.edges, ∃ g reqs, st.nodes[e.src]? = some g ∧
      u.requirements g.name g.version = some reqs ∧ e.imp ∈ regularImports reqs := by
  have hl := resolve_inv h
  intro e he
  obtain ⟨x, hx, hid, himp⟩ := hl.edge_src e he
  obtain ⟨reqs, hreqs, hideps⟩ := hl.inv.ideps x hx
  have hlt := hl.inv.id_lt x hx
  have hg : st.nodes[x.id]? = some st.nodes[x.id] := List.getElem?_eq_getElem hlt
  obtain ⟨hn, hv⟩ := hl.inv.id_node x hx _ hg
  refine ⟨st.nodes[x.id], reqs, by rw [← hid]; exact hg, by rw [hn, hv]; exact hreqs, by rw [← hideps]; exact himp⟩

/-- E2 with respect to what the resolver considers a version's dependencies: every
requirement that survives `regularImports` of every node's version is resolved by an edge
from that node or reported as an error on it. -/
theorem e2_regular_resolved {u : Universe} {rn rv : Name} {fuel : Nat} {st : State}
    (h : Finishes u rn rv fuel st) :
    ∀ i g, st.nodes[i]? = some g → ∀ reqs, u.requirements g.name g.version = some reqs →
      ∀ d ∈ regularImports reqs, HasEdgeOrErr st.nodes st.edges i d := by
  have hl := resolve_inv h
  intro i g hg reqs hreqs d hd
  have hi : i < st.nodes.length := by
    rcases Nat.lt_or_ge i st.nodes.length with h | h
    · exact h
    · rw [List.getElem?_eq_none h] at hg; cases hg
  obtain ⟨x, hx, hxi⟩ := hl.inv.id_surj i hi
  obtain ⟨dx, hdx, hdxs⟩ := Tree.mem_static hx
  have hproc : dx.processed = true := by
    cases hp : dx.processed with
    | true => rfl
    | false => exact absurd (hl.unproc dx hdx hp) (by simp)
  obtain ⟨reqs', hreqs', hideps⟩ := hl.inv.ideps x hx
  obtain ⟨hn, hv⟩ := hl.inv.id_node x hx g (by rw [hxi]; exact hg)
  rw [hn, hv, hreqs'] at hreqs
  cases hreqs
  have hdd : d ∈ dx.ideps := by
    have : dx.ideps = x.ideps := by rw [← hdxs]; rfl
    rw [this, hideps]; exact hd
  have := hl.done dx hdx hproc d hdd
  have hid : dx.id = i := by
    have : dx.id = x.id := by rw [← hdxs]; rfl
    rw [this, hxi]
  rw [hid] at this
  exact this

/-- E2 in full: every non-dev, non-peer requirement of every node's version has an edge
from the node for a requirement of the same package name, or an error naming that package. -/
def E2 (u : Universe) (st : State) : Prop :=
  ∀ i g, st.nodes[i]? = some g → ∀ reqs, u.requirements g.name g.version = some reqs →
    ∀ d ∈ reqs, d.dev = false → d.scope ≠ Name.peer →
      (∃ e ∈ st.edges, e.src = i ∧ e.imp.name = d.name) ∨ (∃ r ∈ g.errs, r.1 = d.name)

theorem e2_partial {u : Universe} {rn rv : Name} {fuel : Nat} {st : State}
    (hO : OptPlain u) (h : Finishes u rn rv fuel st) : E2 u st := by
  intro i g hg reqs hreqs d hd hdev hpeer
  obtain ⟨w, hw, _, _⟩ := requirements_mem hreqs
  obtain ⟨d', hd', hname⟩ := regularImports_covers (hO _ hw) hd hdev hpeer
  rcases e2_regular_resolved h i g hg reqs hreqs d' hd' with ⟨e, he, h1, h2⟩ | ⟨g', hg', hr⟩
  · exact Or.inl ⟨e, he, h1, by rw [h2, hname]⟩
  · rw [hg] at hg'; cases hg'
    exact Or.inr ⟨_, hr, hname⟩

/-! ## E4 -/

/-- E4, model level: an edge created by a fresh install leads to the version specified by
`PickSpec` among the client's matching versions `dvers = init ++ [w]` (`latest` = the
client's single answer for the dist-tag `latest` of `w`'s package, if any). -/
def E4 (u : Universe) (st : State) : Prop :=
  ∀ e ∈ st.edges, e.fresh = true →
    ∃ dvers g r latest init w, u.matchingVersions e.imp.name e.imp.req = .ok dvers ∧
      st.nodes[e.dst]? = some g ∧ g.name = r.name ∧ g.version = r.version ∧
      dvers = init ++ [w] ∧ concreteForLatest u w.name = .ok latest ∧ PickSpec latest dvers r

theorem e4_fresh_pick {u : Universe} {rn rv : Name} {fuel : Nat} {st : State}
    (h : Finishes u rn rv fuel st) : E4 u st := by
  intro e he hf
  obtain ⟨dvers, g, hm, hg, hcase⟩ := (resolve_inv h).inv.edge_ok e he
  rcases hcase with ⟨_, v, hp, h1, h2⟩ | ⟨hf', _⟩ | ⟨hf', _⟩ | ⟨hf', _⟩
  · obtain ⟨latest, init, w, hd, hl, hs⟩ := wouldPick_spec hp
    exact ⟨dvers, g, v, latest, init, w, hm, hg, h1, h2, hd, hl, hs⟩
  all_goals (rw [hf] at hf'; cases hf')

/-- E4, first half as the property words it: if the package's `latest` is among the matching
versions, a fresh install picks it. -/
def E4Latest (u : Universe) (st : State) : Prop :=
  ∀ e ∈ st.edges, e.fresh = true →
    ∃ dvers g, u.matchingVersions e.imp.name e.imp.req = .ok dvers ∧ st.nodes[e.dst]? = some g ∧
      ∀ L, concreteForLatest u e.imp.name = .ok (some L) →
        (∃ v ∈ dvers, v.keyEq L = true) → g.name = L.name ∧ g.version = L.version

theorem latestLast_row {u : Universe} (hL : LatestLast u) {p r : Name} {vs : List Version}
    (hm : u.matchingVersions p r = .ok vs) {L : Version}
    (hl : concreteForLatest u p = .ok (some L)) (hex : ∃ v ∈ vs, v.keyEq L = true) :
    ∃ init l, vs = init ++ [l] ∧ l.keyEq L = true := by
  have hrow := matchingVersions_row hm
  unfold LatestLast latestLast at hL
  have := List.all_eq_true.1 hL _ hrow
  simp only [hl] at this
  simp only [Bool.or_eq_true, Bool.not_eq_true'] at this
  rcases this with h1 | h1
  · obtain ⟨v, hv, hk⟩ := hex
    have : (vs.any fun v => v.keyEq L) = true := List.any_eq_true.2 ⟨v, hv, hk⟩
    rw [this] at h1; cases h1
  · cases hr : vs.reverse with
    | nil => rw [hr] at h1; cases h1
    | cons l rest =>
      rw [hr] at h1
      refine ⟨rest.reverse, l, ?_, h1⟩
      have := congrArg List.reverse hr
      simpa using this

theorem e4_latest_partial {u : Universe} {rn rv : Name} {fuel : Nat} {st : State}
    (hL : LatestLast u) (hT : TableWf u) (h : Finishes u rn rv fuel st) : E4Latest u st := by
  intro e he hf
  obtain ⟨dvers, g, r, latest, init, w, hm, hg, h1, h2, hd, hl, hs⟩ := e4_fresh_pick h e he hf
  refine ⟨dvers, g, hm, hg, ?_⟩
  intro L hl' hex
  have hwname : w.name = e.imp.name := (tableWf_row hT hm (by rw [hd]; simp)).1
  rw [hwname, hl'] at hl
  cases hl
  obtain ⟨init', l, hvs, hlk⟩ := latestLast_row hL hm hl' hex
  rw [hvs] at hs
  have hrl : r = l := hs.latest_last hlk
  rw [keyEq_iff] at hlk
  rw [h1, h2, hrl]
  exact hlk

/-- E4, second half: when the package's `latest` (if any) is not among the matching versions,
a fresh install picks the highest matching version that is not blocked (deprecated), or the
highest one if all are. "Highest" is the order of the client's answer. -/
def E4Highest (u : Universe) (st : State) : Prop :=
  ∀ e ∈ st.edges, e.fresh = true →
    ∃ dvers g r, u.matchingVersions e.imp.name e.imp.req = .ok dvers ∧ st.nodes[e.dst]? = some g ∧
      g.name = r.name ∧ g.version = r.version ∧
      ((∀ L, concreteForLatest u e.imp.name = .ok (some L) → ∀ v ∈ dvers, v.keyEq L = false) →
        ∃ lower higher, dvers = lower ++ r :: higher ∧ (∀ w ∈ higher, w.blocked = true) ∧
          (r.blocked = false ∨ (higher = [] ∧ ∀ w ∈ lower, w.blocked = true)))

theorem u2_row {u : Universe} (hU : U2 u) {p r : Name} {vs : List Version}
    (hm : u.matchingVersions p r = .ok vs) {L : Version}
    (hl : concreteForLatest u p = .ok (some L)) {v : Version} (hv : v ∈ vs) (ha : v.attr = L.attr) :
    v.keyEq L = true := by
  have hrow := matchingVersions_row hm
  unfold U2 u2 at hU
  have := List.all_eq_true.1 hU _ hrow
  simp only [hl] at this
  have := List.all_eq_true.1 this v hv
  simpa [ha] using this

theorem e4_highest_partial {u : Universe} {rn rv : Name} {fuel : Nat} {st : State}
    (hU : U2 u) (hT : TableWf u) (h : Finishes u rn rv fuel st) : E4Highest u st := by
  intro e he hf
  obtain ⟨dvers, g, r, latest, init, w, hm, hg, h1, h2, hd, hl, hs⟩ := e4_fresh_pick h e he hf
  refine ⟨dvers, g, r, hm, hg, h1, h2, ?_⟩
  intro hno
  have hwname : w.name = e.imp.name := (tableWf_row hT hm (by rw [hd]; simp)).1
  rw [hwname] at hl
  apply hs.no_latest
  intro x hx heq
  cases latest with
  | none =>
    simp only [Version.equalOpt, beq_iff_eq] at heq
    exact blocked_of_attr_empty heq
  | some L =>
    simp only [Version.equalOpt, Bool.or_eq_true, beq_iff_eq] at heq
    have hk := hno L hl x hx
    rcases heq with heq | heq
    · rw [hk] at heq; cases heq
    · rw [u2_row hU hm hl hx heq] at hk; cases hk

/-! ## T2 -/

/-- T2: for every edge, Node's lookup (`lookupUp`: walk up from the dependent's directory
until a `node_modules` entry of that name exists) of the dependency's effective name lands
exactly on the tree entry of the node the edge points to. -/
def T2 (st : State) : Prop :=
  ∀ e ∈ st.edges, ∃ f t, f ∈ st.tree.static ∧ t ∈ st.tree.static ∧ f.id = e.src ∧ t.id = e.dst ∧
    lookupUp st.tree.keys (effName e.imp) f.path = some t.path

theorem t2Hyp_of {u : Universe} (hA : AliasFree u) (hU3 : U3 u) (hT : TableWf u) : T2Hyp u := by
  refine ⟨hA, ?_, fun p r dvers hm v hv => (tableWf_row hT hm hv).1⟩
  intro e he
  have := hU3 e he
  have heq : (regularImports e.2).map effName = (regularImports e.2).map (·.name) := by
    apply List.map_congr_left
    intro d hd
    simp [effName, hA e he d (mem_regularImports.1 hd).1]
  rw [heq] at this
  exact this

theorem t2_partial {u : Universe} {rn rv : Name} {fuel : Nat} {st : State}
    (hA : AliasFree u) (hU3 : U3 u) (hT : TableWf u) (h : Finishes u rn rv fuel st) : T2 st := by
  have hp := resolve_t2 (t2Hyp_of hA hU3 hT) h
  have hl := resolve_inv h
  obtain ⟨hideps, _⟩ := no_alias_slot hA h
  intro e he
  obtain ⟨fp, q, ⟨x, hx, hx1, hx2⟩, ⟨y, hy, hy1, hy2⟩, hq, hr⟩ := hp.edge_prot e he
  have hal : e.imp.alias = Name.empty := by
    obtain ⟨z, hz, _, himp⟩ := hl.edge_src e he
    exact hideps z hz _ himp
  refine ⟨x, y, hx, hy, hx1, hy1, ?_⟩
  have hname : effName e.imp = e.imp.name := by simp [effName, hal]
  rw [hname, hx2, hy2]
  apply lookupUp_of_prot hp.no_alias hq
  · rw [← hy2, ← Tree.static_keys]; exact List.mem_map.2 ⟨y, hy, rfl⟩
  · intro r h1 h2 h3; exact (hr r h1 h2 h3).1

/-! ## Refutations of the full statements, from concrete witnesses -/

def reg : AttrSet := ⟨0, []⟩
def ver (n v : Name) : Version := ⟨n, v, reg⟩

/-- The state a finished run returns (`⟨[], [], []⟩` if it does not finish with a graph). -/
def finalState (u : Universe) (rn rv : Name) (fuel : Nat) : State :=
  match resolve u rn rv fuel with
  | some (.ok st) => st
  | _ => ⟨[], [], []⟩

/-- Executable form of `E1`. -/
def e1Check (u : Universe) (st : State) : Bool :=
  st.edges.all fun e =>
    match u.matchingVersions e.imp.name e.imp.req, st.nodes[e.dst]? with
    | .ok dvers, some g =>
      g.name == e.imp.name &&
        ((dvers.any fun d => g.name == d.name && g.version == d.version) ||
         (e.imp.req == Name.star && !e.fresh))
    | _, _ => false

theorem e1Check_of_E1 {u : Universe} {st : State} (h : E1 u st) : e1Check u st = true := by
  unfold e1Check
  rw [List.all_eq_true]
  intro e he
  obtain ⟨dvers, g, hm, hg, hn, hc⟩ := h e he
  rw [hm, hg]
  simp only [Bool.and_eq_true, beq_iff_eq, Bool.or_eq_true, List.any_eq_true, Bool.not_eq_true']
  refine ⟨hn, ?_⟩
  rcases hc with ⟨d, hd, h1, h2⟩ | ⟨h1, h2⟩
  · exact Or.inl ⟨d, hd, h1, h2⟩
  · exact Or.inr ⟨h1, h2⟩

/-- F-C06-alias-wrongpkg (DESIGN section 8): `p1@2.1.0 {p1: npm:p0@*}`, `p0@1.0.0 {p3@^1}`,
`p3@1.1.0 {p1@1.x}`. Names: 5 `1.0.0`, 6 `1.1.0`, 7 `1.x`, 8 `2.1.0`, 9 `^1`, 10 `p0`,
11 `p1`, 12 `p3`. -/
def wrongPkgU : Universe where
  versions := [(ver 10 5, [⟨12, 9, reg⟩]), (ver 11 8, [⟨10, 1, ⟨0, [(8, 11)]⟩⟩]), (ver 12 6, [⟨11, 7, reg⟩])]
  matching := [((10, 4), some []), ((12, 9), some [ver 12 6]), ((11, 4), some []),
    ((10, 1), some [ver 10 5]), ((12, 4), some []), ((11, 7), some [])]
  semver := [(9, some [5, 6]), (1, some [5, 8, 6]), (7, some [5, 6])]

/-- With aliases E1 is false: the requirement of `p3` on **p1**`@1.x` is resolved to
**p0**`@1.0.0`, the occupant of the alias slot named `p1`. -/
theorem e1_alias_refuted :
    ¬ ∀ (u : Universe) (rn rv : Name) (fuel : Nat) (st : State),
      WF u → Finishes u rn rv fuel st → E1 u st := by
  intro h
  have h1 : Finishes wrongPkgU 11 8 10 (finalState wrongPkgU 11 8 10) := by decide
  have := e1Check_of_E1 (h wrongPkgU 11 8 10 _ (by decide) h1)
  revert this
  decide

/-- Executable form of `E4Latest`. -/
def e4LatestCheck (u : Universe) (st : State) : Bool :=
  st.edges.all fun e => !e.fresh ||
    match u.matchingVersions e.imp.name e.imp.req, st.nodes[e.dst]?, concreteForLatest u e.imp.name with
    | .ok dvers, some g, .ok (some L) =>
      !(dvers.any fun v => v.keyEq L) || (g.name == L.name && g.version == L.version)
    | .ok _, some _, _ => true
    | _, _, _ => false

theorem e4LatestCheck_of {u : Universe} {st : State} (h : E4Latest u st) : e4LatestCheck u st = true := by
  unfold e4LatestCheck
  rw [List.all_eq_true]
  intro e he
  cases hf : e.fresh with
  | false => simp
  | true =>
    obtain ⟨dvers, g, hm, hg, hc⟩ := h e he hf
    rw [hm, hg]
    simp only [Bool.not_true, Bool.false_or]
    cases hl : concreteForLatest u e.imp.name with
    | err => rfl
    | bad => rfl
    | ok o =>
      cases o with
      | none => rfl
      | some L =>
        simp only
        cases ha : (dvers.any fun v => v.keyEq L) with
        | false => simp
        | true =>
          obtain ⟨v, hv, hk⟩ := List.any_eq_true.1 ha
          have := hc L hl ⟨v, hv, hk⟩
          simp [this.1, this.2]

/-- F-C06-latest-prerelease: `c@2.0.0-alpha.1` (tagged `latest`), `c@2.1.1`,
`r@1.0.0 {c@>=2.0.0-alpha.1}`. The client answers `[2.0.0-alpha.1, 2.1.1]` for the
requirement (`sortNPMVersions` leaves a prerelease `latest` in place when the package has a
release). Names: 5 `1.0.0`, 6 `2.0.0-alpha.1`, 7 `2.1.1`, 8 `>=2.0.0-alpha.1`, 9 `c`, 10 `r`. -/
def latestPreU : Universe where
  versions := [(⟨9, 6, ⟨0, [(10, 4)]⟩⟩, []), (ver 9 7, []), (ver 10 5, [⟨9, 8, reg⟩])]
  matching := [((9, 4), some [⟨9, 6, ⟨0, [(10, 4)]⟩⟩]), ((10, 4), some []),
    ((9, 8), some [⟨9, 6, ⟨0, [(10, 4)]⟩⟩, ver 9 7])]
  semver := [(8, some [6, 7])]

/-- "`latest` if it satisfies" is false without `LatestLast`: `latest` (2.0.0-alpha.1)
satisfies the requirement, 2.1.1 is installed. -/
theorem e4_latest_refuted :
    ¬ ∀ (u : Universe) (rn rv : Name) (fuel : Nat) (st : State),
      WF u → Finishes u rn rv fuel st → E4Latest u st := by
  intro h
  have h1 : Finishes latestPreU 10 5 10 (finalState latestPreU 10 5 10) := by decide
  have := e4LatestCheck_of (h latestPreU 10 5 10 _ (by decide) h1)
  revert this
  decide

/-- Executable form of `E2`. -/
def e2Check (u : Universe) (st : State) : Bool :=
  st.nodes.zipIdx.all fun (g, i) =>
    match u.requirements g.name g.version with
    | none => true
    | some reqs => reqs.all fun d =>
      d.dev || decide (d.scope = Name.peer) ||
        (st.edges.any fun e => e.src == i && e.imp.name == d.name) ||
        (g.errs.any fun r => r.1 == d.name)

theorem e2Check_of_E2 {u : Universe} {st : State} (h : E2 u st) : e2Check u st = true := by
  unfold e2Check
  rw [List.all_eq_true]
  rintro ⟨g, i⟩ hgi
  have hg : st.nodes[i]? = some g := List.mem_zipIdx_iff_getElem?.1 hgi
  simp only
  cases hr : u.requirements g.name g.version with
  | none => rfl
  | some reqs =>
    simp only
    rw [List.all_eq_true]
    intro d hd
    cases hdev : d.dev with
    | true => simp
    | false =>
      by_cases hp : d.scope = Name.peer
      · simp [hp]
      · rcases h i g hg reqs hr d hd hdev hp with ⟨e, he, h1, h2⟩ | ⟨r, hr', h1⟩
        · have : (st.edges.any fun e => e.src == i && e.imp.name == d.name) = true :=
            List.any_eq_true.2 ⟨e, he, by simp [h1, h2]⟩
          simp [this]
        · have : (g.errs.any fun r => r.1 == d.name) = true :=
            List.any_eq_true.2 ⟨r, hr', by simp [h1]⟩
          simp [this]

/-- F-C06-optpeer-shadow: `r@1.0.0 {p@^1, Opt Scope peer|p@^1}`, `p@1.0.0`: the regular
requirement is dropped because an optional one of the same name exists, the optional one is
dropped because it is peer-scoped. Names: 5 `1.0.0`, 6 `^1`, 7 `p`, 8 `r`. -/
def optPeerU : Universe where
  versions := [(ver 7 5, []), (ver 8 5, [⟨7, 6, reg⟩, ⟨7, 6, ⟨2, [(3, 3)]⟩⟩])]
  matching := [((7, 4), some []), ((8, 4), some []), ((7, 6), some [ver 7 5])]
  semver := [(6, some [5])]

/-- E2 is false without `OptPlain`: `r`'s regular requirement on `p` gets neither an edge
nor an error. -/
theorem e2_optpeer_refuted :
    ¬ ∀ (u : Universe) (rn rv : Name) (fuel : Nat) (st : State),
      WF u → Finishes u rn rv fuel st → E2 u st := by
  intro h
  have h1 : Finishes optPeerU 8 5 10 (finalState optPeerU 8 5 10) := by decide
  have := e2Check_of_E2 (h optPeerU 8 5 10 _ (by decide) h1)
  revert this
  decide

/-- Executable form of `T2`. -/
def t2Check (st : State) : Bool :=
  st.edges.all fun e => st.tree.static.any fun f => f.id == e.src &&
    st.tree.static.any fun t => t.id == e.dst &&
      decide (lookupUp st.tree.keys (effName e.imp) f.path = some t.path)

theorem t2Check_of_T2 {st : State} (h : T2 st) : t2Check st = true := by
  unfold t2Check
  rw [List.all_eq_true]
  intro e he
  obtain ⟨f, t, hf, ht, h1, h2, h3⟩ := h e he
  rw [List.any_eq_true]
  refine ⟨f, hf, ?_⟩
  simp only [Bool.and_eq_true, beq_iff_eq, List.any_eq_true, decide_eq_true_eq]
  exact ⟨h1, t, ht, h2, h3⟩

/-- `g@1.0.0-0 {@s/b: npm:k@>=1.0.0}`, `k@1.0.0 {@s/b@1.0.1, g: npm:f@*}`, `@s/b@1.0.1 {g@~1.0.0-0}`,
`f@0.1.0`. Names: 5 `0.1.0`, 6 `1.0.0`, 7 `1.0.0-0`, 8 `1.0.1`, 9 `>=1.0.0`, 10 `@s/b`, 11 `f`,
12 `g`, 13 `k`, 14 `~1.0.0-0`. -/
def t2AliasU : Universe where
  versions := [(ver 10 8, [⟨12, 14, reg⟩]), (ver 11 5, []), (ver 12 7, [⟨13, 9, ⟨0, [(8, 10)]⟩⟩]),
    (ver 13 6, [⟨10, 8, reg⟩, ⟨11, 1, ⟨0, [(8, 12)]⟩⟩])]
  matching := [((10, 4), some []), ((12, 14), some [ver 12 7]), ((11, 4), some []), ((12, 4), some []),
    ((13, 9), some [ver 13 6]), ((13, 4), some []), ((10, 8), some [ver 10 8]), ((11, 1), some [ver 11 5])]
  semver := [(14, some [8, 7, 6]), (9, some [8, 6]), (8, some [8]), (1, some [8, 5, 6])]

/-- With aliases T2 is false: `k` (installed as `@s/b`) resolves its dependency `g: npm:f@*`
to the alias slot `g` of the root; hoisting past `k` marked the *package* name `f` as
protected there, not the alias `g`, so the later install of the real `g@1.0.0-0` lands in
`k`'s own `node_modules` and shadows it: Node's lookup of `g` from `k` finds `g@1.0.0-0`,
the edge points to `f@0.1.0`. -/
theorem t2_alias_refuted :
    ¬ ∀ (u : Universe) (rn rv : Name) (fuel : Nat) (st : State),
      WF u → Finishes u rn rv fuel st → T2 st := by
  intro h
  have h1 : Finishes t2AliasU 12 7 10 (finalState t2AliasU 12 7 10) := by decide
  have := t2Check_of_T2 (h t2AliasU 12 7 10 _ (by decide) h1)
  revert this
  decide

/-! ## Non-termination with aliases (F-C04-npm-alias-cycle) -/

/-- On `c@2.0.0 {alias1: npm:b@^1.0.0}`, `b@1.1.0 {alias1: npm:c@^2.0.0}` (a well-formed
universe) the resolution of `c@2.0.0` does not finish for any amount of fuel: the model's
main loop installs an ever deeper chain `alias1/alias1/…` (`Proofs/C06Cycle.lean`). -/
theorem alias_cycle_never_finishes :
    WF Cycle.cycleU ∧ ∀ fuel, resolve Cycle.cycleU 11 6 fuel = none :=
  ⟨by decide, fun fuel => by
    rw [Cycle.resolve_cycle]
    exact Cycle.loop_chain_none fuel 0 true Cycle.st0 Cycle.chain0⟩

/-! ## Non-termination without aliases and bundles (F-C06-conflict-cycle) -/

/-- On `a@1.0.0 {a@1.0.0, b@1.0.0}`, `a@2.0.0 {a@2.0.0, b@2.0.0}`, `b@1.0.0 {a@2.0.0, b@1.0.0}`,
`b@2.0.0 {a@1.0.0, b@2.0.0}` — a well-formed, alias-free universe without bundled packages in
which `a@1.0.0` reaches a conflict cycle — the resolution of `a@1.0.0` does not finish for any
amount of fuel: the main loop installs the chain `b/a/b/a/…` for ever
(`Proofs/C06Conflict.lean`). So termination needs a hypothesis such as `NoConflictCycle`. -/
theorem conflict_cycle_never_finishes :
    WF Conflict.conflictU ∧ AliasFree Conflict.conflictU ∧ LatestLast Conflict.conflictU ∧
      OptPlain Conflict.conflictU ∧ ¬ NoConflictCycle Conflict.conflictU 7 5 ∧
      ∀ fuel, resolve Conflict.conflictU 7 5 fuel = none :=
  ⟨by decide, by decide, by decide, by decide, by decide, Conflict.resolve_none⟩

/-! ## Non-vacuity -/

/-- A diamond with a version conflict: `a@1 {b@^1, c@^1}`, `b@1 {d@^1}`, `c@1 {d@^2}`,
`d@1`, `d@2` (latest). Names: 5 `1.0.0`, 6 `2.0.0`, 7 `^1`, 8 `^2`, 9 `a`, 10 `b`, 11 `c`, 12 `d`. -/
def diamondU : Universe where
  versions := [(ver 9 5, [⟨10, 7, reg⟩, ⟨11, 7, reg⟩]), (ver 10 5, [⟨12, 7, reg⟩]),
    (ver 11 5, [⟨12, 8, reg⟩]), (ver 12 5, []), (⟨12, 6, ⟨0, [(10, 4)]⟩⟩, [])]
  matching := [((9, 4), some []), ((10, 4), some []), ((11, 4), some []),
    ((12, 4), some [⟨12, 6, ⟨0, [(10, 4)]⟩⟩]),
    ((10, 7), some [ver 10 5]), ((11, 7), some [ver 11 5]), ((12, 7), some [ver 12 5]),
    ((12, 8), some [⟨12, 6, ⟨0, [(10, 4)]⟩⟩])]
  semver := [(7, some [5]), (8, some [6])]

/-- All hypotheses are satisfiable together, the run finishes, and the conflict forces a
nested install: `d@2` sits in `c`'s own `node_modules` (path `c/d`) while `d@1` is hoisted
to the root. -/
example :
    WF diamondU ∧ AliasFree diamondU ∧ LatestLast diamondU ∧ OptPlain diamondU ∧
      NoConflictCycle diamondU 9 5 ∧
      Finishes diamondU 9 5 10 (finalState diamondU 9 5 10) ∧
      (finalState diamondU 9 5 10).nodes.length = 5 ∧
      (finalState diamondU 9 5 10).edges.length = 4 ∧
      ((finalState diamondU 9 5 10).tree.map fun e => names e.1) =
        [[], [10], [11], [12], [12, 11]] := by decide

end DepsDev.Props.C06

/-
TIES (DESIGN 3.3): every theorem above is about `DepsDev.Resolve.Npm.resolve` and the
definitions it calls (`loop`, `stepDeps`, `stepDep`, `walkUp`, `walkAt`, `candidate`,
`markProtected`, `hoist`, `isProtected`, `wouldPick`, `pickFrom`, `pickLoop`,
`concreteForLatest`, `newTreeNode`, `regularImports`, `keepImport`, `Universe.*` look-ups),
tied to util/resolve/npm/resolve.go by the op `C06 resolve` (graph, install tree, protected
sets compared byte for byte). No generated (`Gen.*`) constant is used.

  e3_reachable, t1_one_name_per_directory, e1_edge_cases, edges_from_requirements,
  e2_regular_resolved, e4_fresh_pick      : resolve_inv (Proofs/C06Loop.lean: SInv, LoopInv)
  e1_partial                              : + no_alias_slot, tableWf_row            [AliasFree, TableWf]
  e2_partial                              : + regularImports_covers                 [OptPlain]
  e4_latest_partial, e4_highest_partial   : + wouldPick_spec, PickSpec.*            [LatestLast | U2, TableWf]
  t2_partial                              : resolve_t2 (Proofs/C06T2.lean: PInv), lookupUp_of_prot
                                                                                   [AliasFree, U3, TableWf]
  e1_alias_refuted, t2_alias_refuted, e2_optpeer_refuted, e4_latest_refuted : `decide` on witness universes
  alias_cycle_never_finishes              : Proofs/C06Cycle.lean (Chain invariant, induction on fuel)
  conflict_cycle_never_finishes           : Proofs/C06Conflict.lean (Chain invariant, induction on fuel)
The hypotheses AliasFree, LatestLast, OptPlain, WF, NoConflictCycle (per root) are evaluated by the driver's op
`C06 classify` with these very definitions and compared with the harness classifier.
-/
