import DepsDev.Proofs.C12Match

/-!
# C12 — requirement matching over a version list is exact, ordered and order-insensitive

Statement (properties.jsonl): *given a requirement and any list of concrete versions of a
package, the versions returned are exactly those in the list that satisfy the requirement,
in ascending ecosystem order (for npm with the version tagged latest moved last unless it
is a prerelease while releases exist, and unparsable versions after parsable ones), and the
result is the same for every permutation of the input list. An npm requirement that is not a
range selects the version whose string or tag equals it.*

Objects: `matchReq` = `resolve.MatchRequirement`, `sortVersions` = `resolve.SortVersions`,
`sortNPMVersions` (Model/Resolve/Match.lean; tied to the code by the correspondence ops
`matchreq`, `sortv`). `Outcome.ok r` = the call returned `r`.

Domain hypotheses, all explicit:

* `OneSystem sys l` — the records are versions of a package of system `sys` (the code
  dispatches on the system of the FIRST record);
* `DistinctStrings l` — version strings pairwise distinct (a package has one record per
  version; with duplicates the comparator has ties and `sort.Slice` may order them either way);
* `OrderLawful s l` — the comparator of `SortVersions` is a strict weak order on the list's
  records whose ties have identical version strings. Decidable (`classify_sound`), implied by
  C01's laws on the list's parsed versions (`CmpLawful`, `orderLawful_of_cmpLawful`), hence
  **proved** for NPM, PyPI and the default system (`orderLawful_npm/pypi/default`) and not a
  hypothesis of their theorems; for Maven it is a hypothesis (finding F-C12-mvn-intrans =
  C01's F-C01-mvn-zeroq: Maven's comparison is intransitive).

"Tagged latest" (`exactLatest`): one of the comma-separated tags of the record's `Tags`
attribute is exactly `latest` — the test the code applies since the repair of
F-C12-latest-substr (`slices.Contains(strings.Split(tags, ","), "latest")`; it used to be
`strings.Contains(tags, "latest")`, which also fired on `notlatest`, `latest-2`). The former
hypothesis `TagsExact` is gone: the npm order holds as stated, for every list.

All theorems have the form "if the call returns `r` (`Outcome.ok r`) then …": that
`MatchRequirement` never panics is C04's subject, not proved here.

What is proved:

| clause | theorem | kind |
|---|---|---|
| (i) exactly the satisfying records | `matchReq_exact`, `matchReq_mem_iff` | full, every system |
| (ii) ascending, default path | `sortVersions_ascending`, `matchReq_ascending_default` | full given `OrderLawful`; PyPI unconditional: `matchReq_ascending_pypi` |
| (ii) npm order as stated (tag `latest`) | `npm_order`, `npm_order_statement`, `matchReq_npm_ordered` | full (was partial `TagsExact` before the repair; regression: `npm_regression`) |
| (iii) order-insensitive | `sortVersions_perm`, `matchReq_perm`; `perm_npm`, `perm_pypi`, `perm_unknown` | full |
| (iii) Maven | `perm_maven_partial` | partial: `OrderLawful`; refuted without it: `maven_perm_statement_false` |
| npm non-range | `matchReq_npm_nonrange` | full |
| default non-range | `matchReq_default_nonrange` | full |
| what the order is | `lt_iff`, `le_iff_not_lt` | full |
-/
namespace DepsDev.Props.C12

open List DepsDev DepsDev.Semver DepsDev.Resolve.Match
open DepsDev.Proofs.SortUnique DepsDev.Proofs.C12Order DepsDev.Proofs.C12Match


/-! ## Vocabulary of the statement -/

/-- The records are versions of a package of system `sys`. -/
def OneSystem (sys : RSystem) (l : List RVersion) : Prop := ∀ v ∈ l, v.key.pk.sys = sys

/-- Version strings pairwise distinct. -/
def DistinctStrings (l : List RVersion) : Prop := (l.map (fun v => v.key.version)).Nodup

/-- C01's laws for the ecosystem comparison on the parsed versions of the list. -/
abbrev CmpLawful (s : Semver.System) (l : List RVersion) : Prop := Proofs.C12Order.CmpLawful s l

/-- The comparator of `SortVersions` is a strict weak order on the list's records, ties having
identical version strings. Decidable (`orderLawfulB_iff`); implied by `CmpLawful`. -/
abbrev OrderLawful (s : Semver.System) (l : List RVersion) : Prop := Proofs.C12Order.OrderLawful s l

theorem orderLawful_npm (l : List RVersion) : OrderLawful .npm l := orderLawful_of_cmpLawful (cmpLawful_npm l)
theorem orderLawful_pypi (l : List RVersion) : OrderLawful .pypi l := orderLawful_of_cmpLawful (cmpLawful_pypi l)
theorem orderLawful_default (l : List RVersion) : OrderLawful .default l := orderLawful_of_cmpLawful (cmpLawful_default l)

/-- `a` is strictly before `b` in the ecosystem order of system `s` (the comparator of
`SortVersions`). -/
def Lt (s : Semver.System) (a b : RVersion) : Prop := less (dec s a) (dec s b) = true

/-- `a` is not after `b`. -/
abbrev Le (s : Semver.System) (a b : RVersion) : Prop := vle s a b

theorem le_iff_not_lt (s : Semver.System) (a b : RVersion) : Le s a b ↔ ¬ Lt s b a := by
  simp [Le, vle, Lt]

/-- What the order is, in terms of `Parse`, `Compare` and the version strings only:
parsable before unparsable; two parsable versions by `vcompare`, ties by the version
string; two unparsable ones by the version string. -/
theorem lt_iff (s : Semver.System) (a b : RVersion) :
    Lt s a b ↔
      match (Semver.parse s a.key.version).toOption, (Semver.parse s b.key.version).toOption with
      | some x, some y =>
        (match Semver.vcompare x y with
         | .ok c => c < 0 ∨ (c = 0 ∧ cmpBytes a.key.version b.key.version < 0)
         | .err => False
         | .panic => False)
      | some _, none => True
      | none, some _ => False
      | none, none => cmpBytes a.key.version b.key.version < 0 := by
  unfold Lt less dec
  cases (Semver.parse s a.key.version).toOption <;> cases (Semver.parse s b.key.version).toOption <;> simp
  rename_i x y
  cases hv : Semver.vcompare x y <;> simp
  rename_i c
  by_cases h : c = 0 <;> simp [h]

/-! ## (ii) ascending order and (iii) order-insensitivity of `SortVersions` -/

theorem sortBase_nil (s : Semver.System) : sortBase s [] = .ok [] := by
  simp [sortBase, comparable, goSort, sortFrom]

/-- `SortVersions` on the versions of a non-npm package is `sortBase`. -/
theorem sortVersions_default {sys : RSystem} {l : List RVersion} (hsys : OneSystem sys l) (hn : sys ≠ .npm) :
    sortVersions l = match sortBase sys.semver l with
      | .ok ds => .ok (ds.map DV.v)
      | .err => .err
      | .panic => .panic := by
  cases l with
  | nil => simp [sortVersions, sortBase_nil]
  | cons v vs =>
    have : v.key.pk.sys = sys := hsys v mem_cons_self
    simp only [sortVersions, this, hn, ↓reduceIte]
    rfl

theorem sortVersions_npm {l : List RVersion} (hsys : OneSystem .npm l) : sortVersions l = sortNPMVersions l := by
  cases l with
  | nil => simp [sortVersions, sortNPMVersions, sortBase_nil, moveLatest, splitLast]
  | cons v vs =>
    have : v.key.pk.sys = .npm := hsys v mem_cons_self
    simp only [sortVersions, this, ↓reduceIte]

/-- **(ii), default path**: `SortVersions` returns the same records in ascending order. -/
theorem sortVersions_ascending {sys : RSystem} {l r : List RVersion} (hsys : OneSystem sys l) (hn : sys ≠ .npm)
    (H : OrderLawful sys.semver l) (h : sortVersions l = .ok r) :
    r ~ l ∧ r.Pairwise (Le sys.semver) := by
  rw [sortVersions_default hsys hn] at h
  split at h
  · rename_i ds hds
    injection h with h
    subst h
    exact ⟨sortBase_map_v_perm hds, sorted_map_v (fun d hd => mem_sortBase hds hd) (sortBase_sorted H hds)⟩
  · cases h
  · cases h

theorem sortNPMVersions_perm {l₁ l₂ : List RVersion} (nd : DistinctStrings l₁) (p : l₁ ~ l₂) :
    sortNPMVersions l₁ = sortNPMVersions l₂ := by
  unfold sortNPMVersions
  rw [sortBase_perm (orderLawful_npm l₁) nd p]

/-- **(iii) for `SortVersions`**: the result does not depend on the order of the list. -/
theorem sortVersions_perm {sys : RSystem} {l₁ l₂ : List RVersion} (hsys : OneSystem sys l₁)
    (H : OrderLawful sys.semver l₁) (nd : DistinctStrings l₁) (p : l₁ ~ l₂) :
    sortVersions l₁ = sortVersions l₂ := by
  have hsys₂ : OneSystem sys l₂ := fun v hv => hsys v (p.mem_iff.mpr hv)
  by_cases hn : sys = .npm
  · subst hn
    rw [sortVersions_npm hsys, sortVersions_npm hsys₂, sortNPMVersions_perm nd p]
  · rw [sortVersions_default hsys hn, sortVersions_default hsys₂ hn, sortBase_perm H nd p]

/-! ## npm: where the "latest" version goes -/

/-- `sv.IsPrerelease()` of the record's parsed npm version (false when it does not parse). -/
def isPre (v : RVersion) : Bool := (dec .npm v).isPre

/-- "Tagged latest": one of the comma-separated tags is `latest`. What the statement means and
the test the code applies (`slices.Contains(strings.Split(tags, ","), "latest")`). -/
abbrev exactLatest (v : RVersion) : Bool := v.exactLatest

/-- `x` is the version tagged latest (the greatest one if several are). -/
structure LatestChoice (isLatest : RVersion → Bool) (l : List RVersion) (x : RVersion) : Prop where
  mem : x ∈ l
  tagged : isLatest x = true
  greatest : ∀ y ∈ l, isLatest y = true → Le .npm y x

/-- "… unless it is a prerelease while releases exist". -/
def Exception (l : List RVersion) (x : RVersion) : Prop := isPre x = true ∧ ∃ z ∈ l, isPre z = false

/-- The npm arrangement of the statement, relative to a reading `isLatest` of "tagged latest":
ascending; the latest-tagged version moved last unless the exception applies. -/
inductive NpmOrdered (isLatest : RVersion → Bool) (l : List RVersion) : List RVersion → Prop where
  | plain (r : List RVersion) (hp : r ~ l) (hs : r.Pairwise (Le .npm))
      (h : (∀ v ∈ l, isLatest v = false) ∨ ∃ x, LatestChoice isLatest l x ∧ Exception l x) :
      NpmOrdered isLatest l r
  | moved (ys : List RVersion) (x : RVersion) (hp : ys ++ [x] ~ l) (hs : ys.Pairwise (Le .npm))
      (hx : LatestChoice isLatest l x) (hne : ¬ Exception l x) : NpmOrdered isLatest l (ys ++ [x])

theorem NpmOrdered.congr {f g : RVersion → Bool} {l r : List RVersion} (hfg : ∀ v ∈ l, f v = g v)
    (h : NpmOrdered f l r) : NpmOrdered g l r := by
  have lc : ∀ x, LatestChoice f l x → LatestChoice g l x := fun x ⟨m, t, gr⟩ =>
    ⟨m, by rw [← hfg x m]; exact t, fun y hy hgy => gr y hy (by rw [hfg y hy]; exact hgy)⟩
  cases h with
  | plain r hp hs h =>
    refine NpmOrdered.plain r hp hs ?_
    rcases h with h | ⟨x, hx, he⟩
    · exact Or.inl (fun v hv => by rw [← hfg v hv]; exact h v hv)
    · exact Or.inr ⟨x, lc x hx, he⟩
  | moved ys x hp hs hx hne => exact NpmOrdered.moved ys x hp hs (lc x hx) hne

/-- **(ii), npm, as the property states it**: `sortNPMVersions` returns the npm arrangement —
ascending, the version tagged `latest` moved last unless it is a prerelease while releases
exist. Full: every list, no hypothesis (before the repair of F-C12-latest-substr this needed
`TagsExact`). -/
theorem npm_order {l r : List RVersion} (h : sortNPMVersions l = .ok r) : NpmOrdered exactLatest l r := by
  unfold sortNPMVersions at h
  split at h
  · rename_i ds hds
    injection h with h
    subst h
    have H := orderLawful_npm l
    have hin : ∀ d ∈ ds, InList .npm l d := fun d hd => mem_sortBase hds hd
    have hdv : ∀ d ∈ ds, d = dec .npm d.v := by
      intro d hd
      obtain ⟨v, _, rfl⟩ := hin d hd
      rfl
    have hmem : ∀ d ∈ ds, d.v ∈ l := by
      intro d hd
      obtain ⟨v, hv, rfl⟩ := hin d hd
      exact hv
    have hall : ∀ v ∈ l, dec .npm v ∈ ds := fun v hv =>
      (sortBase_perm_input hds).mem_iff.mpr (List.mem_map.mpr ⟨v, hv, rfl⟩)
    have hexc : ∀ x : DV, x ∈ ds → ((x.isPre = true ∧ ∃ z ∈ ds, z.isPre = false) ↔ Exception l x.v) := by
      intro x hx
      unfold Exception isPre
      rw [← hdv x hx]
      constructor
      · rintro ⟨h1, z, hz, h2⟩
        exact ⟨h1, z.v, hmem z hz, by rw [← hdv z hz]; exact h2⟩
      · rintro ⟨h1, z, hz, h2⟩
        exact ⟨h1, dec .npm z, hall z hz, h2⟩
    have hchoice : ∀ x : DV, x ∈ ds → x.hasLatest = true →
        (∀ y ∈ ds, y.hasLatest = true → less x y = false) → LatestChoice exactLatest l x.v := by
      intro x hx hl hmax
      refine ⟨hmem x hx, hl, ?_⟩
      intro y hy hly
      have := hmax (dec .npm y) (hall y hy) hly
      unfold Le vle
      rw [← hdv x hx]
      exact this
    have shape := moveLatest_shape H.weak hin (sortBase_sorted H hds)
    generalize hm : moveLatest ds = m at shape
    cases shape with
    | none hnone =>
      refine NpmOrdered.plain _ (sortBase_map_v_perm hds) (sorted_map_v hin (sortBase_sorted H hds)) (Or.inl ?_)
      intro v hv
      exact hnone (dec .npm v) (hall v hv)
    | kept x hx hl hmax hpre hrel =>
      refine NpmOrdered.plain _ (sortBase_map_v_perm hds) (sorted_map_v hin (sortBase_sorted H hds)) (Or.inr ?_)
      exact ⟨x.v, hchoice x hx hl hmax, (hexc x hx).mp ⟨hpre, hrel⟩⟩
    | moved ys x hp hs hl hmax hex =>
      have hx : x ∈ ds := hp.mem_iff.mp (by simp)
      have hys : ∀ d ∈ ys, InList .npm l d := fun d hd => hin d (hp.mem_iff.mp (by simp [hd]))
      rw [List.map_append, List.map_singleton]
      refine NpmOrdered.moved _ _ ?_ (sorted_map_v hys hs) (hchoice x hx hl hmax) ?_
      · have := (hp.map DV.v).trans (sortBase_map_v_perm hds)
        simpa using this
      · exact fun he => hex ((hexc x hx).mpr he)
  · cases h
  · cases h

/-- (ii) for npm **as the property states it** ("the version tagged latest"). -/
def NpmOrderStatement : Prop :=
  ∀ l r, DistinctStrings l → sortNPMVersions l = .ok r → NpmOrdered exactLatest l r

/-- The statement holds (it was refuted before the repair: `strings.Contains`). -/
theorem npm_order_statement : NpmOrderStatement := fun _ _ _ h => npm_order h

/-! ### regression of F-C12-latest-substr (fixed): `[1.0.0 #notlatest, 2.0.0]` and other look-alikes -/

def mkv (sys : RSystem) (s : String) (tags : Option String := none) : RVersion :=
  { key := { pk := { sys := sys, name := [112] }, vtype := .concrete, version := s.toUTF8.toList },
    attrs := { tags := tags.map (fun t => t.toUTF8.toList) } }

def mkreq (sys : RSystem) (s : String) : VersionKey :=
  { pk := { sys := sys, name := [112] }, vtype := .requirement, version := s.toUTF8.toList }

def w1 : RVersion := mkv .npm "1.0.0" (some "notlatest")
def w2 : RVersion := mkv .npm "2.0.0"

/-- What the model (and the repaired code: the fixed finding's witness is replayed on every
run) returns on the old witness: ascending, nothing moved (it used to be `[w2, w1]`). -/
theorem npm_regression : sortNPMVersions [w1, w2] = .ok [w1, w2] ∧
    matchReq (mkreq .npm "*") [w1, w2] = .ok [w1, w2] := by
  constructor <;> decide +kernel

/-- The old witness now satisfies the statement. -/
example : NpmOrdered exactLatest [w1, w2] [w1, w2] := npm_order npm_regression.1

/-- The pre-repair output `[2.0.0, 1.0.0 #notlatest]` is not the stated npm arrangement of any
list: the statement rejects the old behaviour (it is not vacuous on this input). -/
theorem npm_witness_not_ordered (l : List RVersion) : ¬ NpmOrdered exactLatest l [w2, w1] := by
  intro hr
  have nle : ¬ Le .npm w2 w1 := by unfold Le vle; decide +kernel
  generalize hq : [w2, w1] = q at hr
  cases hr with
  | plain r hp hs hh =>
    subst hq
    exact nle (by simpa using hs)
  | moved ys x hp hs hx hne =>
    have hx1 : x = w1 := by
      have := congrArg List.getLast? hq
      simpa using this.symm
    subst hx1
    have := hx.tagged
    have hf : exactLatest w1 = false := by decide +kernel
    rw [hf] at this
    cases this

/-- `strings.Split` as modelled: `""` gives `[""]`, consecutive / leading / trailing commas give
empty elements; and which tag strings carry the tag `latest`. -/
example :
    Resolve.Match.splitOn 44 [] = [[]] ∧ Resolve.Match.splitOn 44 ",,".toUTF8.toList = [[], [], []] ∧
    Resolve.Match.splitOn 44 "a,,b,".toUTF8.toList = ["a".toUTF8.toList, [], "b".toUTF8.toList, []] ∧
    (["latest", "latest,next", "next,latest", ",latest", "latest,", "beta,latest,next"].map
      fun t => exactLatest (mkv .npm "1.0.0" (some t))) = [true, true, true, true, true, true] ∧
    (["notlatest", "latest-2", "latestx", "prelatest,next", "next,latestx", "", "Latest", "lat,est", "latest "].map
      fun t => exactLatest (mkv .npm "1.0.0" (some t))) = [false, false, false, false, false, false, false, false, false] ∧
    exactLatest (mkv .npm "1.0.0") = false := by
  decide +kernel

/-- Look-alikes stay in ascending order and do not displace the version really tagged `latest`
(second witness of the fixed finding: `2.0.0 #latest-2` used to be moved last instead of
`1.0.0 #latest`). -/
example :
    sortNPMVersions [mkv .npm "1.0.0" (some "latest"), mkv .npm "2.0.0" (some "latest-2"), mkv .npm "3.0.0"] =
      .ok [mkv .npm "2.0.0" (some "latest-2"), mkv .npm "3.0.0", mkv .npm "1.0.0" (some "latest")] ∧
    sortNPMVersions [mkv .npm "4.0.0" (some "latestx"), mkv .npm "3.0.0" (some ",latest"),
                     mkv .npm "2.0.0" (some "notlatest"), mkv .npm "1.0.0" (some "next,latest")] =
      .ok [mkv .npm "1.0.0" (some "next,latest"), mkv .npm "2.0.0" (some "notlatest"),
           mkv .npm "4.0.0" (some "latestx"), mkv .npm "3.0.0" (some ",latest")] ∧
    matchReq (mkreq .npm "latest") [mkv .npm "1.0.0" (some "notlatest"), mkv .npm "2.0.0" (some "next,latest")] =
      .ok [mkv .npm "2.0.0" (some "next,latest")] := by
  refine ⟨?_, ?_, ?_⟩ <;> decide +kernel

/-! ## `MatchRequirement` -/

/-- The record satisfies the parsed requirement: `constraint.Match(v.Version)`. -/
abbrev Sat (c : Semver.Constraint) (v : RVersion) : Bool := sat c v

/-- The arrangement `MatchRequirement` filters: `sortNPMVersions` for an npm requirement,
`SortVersions` otherwise. -/
def arrangement (req : VersionKey) (l : List RVersion) : Outcome (List RVersion) :=
  if req.pk.sys = .npm then sortNPMVersions l else sortVersions l

theorem sortNPMVersions_perm_input {l sorted : List RVersion} (h : sortNPMVersions l = .ok sorted) : sorted ~ l := by
  unfold sortNPMVersions at h
  split at h
  · rename_i ds hds
    injection h with h; subst h
    exact ((moveLatest_perm ds).map DV.v).trans (sortBase_map_v_perm hds)
  · cases h
  · cases h

theorem arrangement_perm_input {req : VersionKey} {l sorted : List RVersion} (hsys : OneSystem req.pk.sys l)
    (h : arrangement req l = .ok sorted) : sorted ~ l := by
  unfold arrangement at h
  split at h
  · exact sortNPMVersions_perm_input h
  · rename_i hn
    rw [sortVersions_default hsys hn] at h
    split at h
    · rename_i ds hds
      injection h with h; subst h
      exact sortBase_map_v_perm hds
    · cases h
    · cases h

/-- **(i) range requirements**: the result is the arrangement filtered by the requirement –
a sublist of the ordered list holding exactly the satisfying records. -/
theorem matchReq_exact {req : VersionKey} {l r : List RVersion} {c : Semver.Constraint}
    (hc : Semver.parseConstraint req.pk.sys.semver req.version = .ok c) (h : matchReq req l = .ok r) :
    ∃ sorted, arrangement req l = .ok sorted ∧ r = sorted.filter (Sat c) ∧ r.Sublist sorted := by
  unfold matchReq at h
  unfold arrangement
  split at h
  · rename_i hn
    simp only [hn, ↓reduceIte]
    unfold matchNPMRequirement at h
    split at h
    · rename_i sorted hsorted
      rw [hn] at hc
      simp only [hn] at h
      rw [hc] at h
      have := filterMatch_ok h
      exact ⟨sorted, hsorted, this, this ▸ List.filter_sublist⟩
    · cases h
    · cases h
  · rename_i hn
    simp only [hn, ↓reduceIte]
    unfold matchRequirement at h
    split at h
    · rename_i sorted hsorted
      rw [hc] at h
      have := filterMatch_ok h
      exact ⟨sorted, hsorted, this, this ▸ List.filter_sublist⟩
    · cases h
    · cases h

/-- (i), membership form: a record is returned iff it is in the list and satisfies the
requirement; and the result is a permutation of the satisfying records (multiplicities). -/
theorem matchReq_mem_iff {req : VersionKey} {l r : List RVersion} {c : Semver.Constraint}
    (hsys : OneSystem req.pk.sys l)
    (hc : Semver.parseConstraint req.pk.sys.semver req.version = .ok c) (h : matchReq req l = .ok r) :
    (∀ v, v ∈ r ↔ v ∈ l ∧ Sat c v = true) ∧ r ~ l.filter (Sat c) := by
  obtain ⟨sorted, hs, hr, _⟩ := matchReq_exact hc h
  have p := arrangement_perm_input hsys hs
  subst hr
  refine ⟨fun v => ?_, p.filter _⟩
  rw [List.mem_filter, p.mem_iff]

/-- **(ii) default path**: the result is ascending in the ecosystem order. -/
theorem matchReq_ascending_default {req : VersionKey} {l r : List RVersion} {c : Semver.Constraint}
    (hsys : OneSystem req.pk.sys l) (hn : req.pk.sys ≠ .npm) (H : OrderLawful req.pk.sys.semver l)
    (hc : Semver.parseConstraint req.pk.sys.semver req.version = .ok c) (h : matchReq req l = .ok r) :
    r.Pairwise (Le req.pk.sys.semver) := by
  obtain ⟨sorted, hs, _, hsub⟩ := matchReq_exact hc h
  simp only [arrangement, hn, ↓reduceIte] at hs
  exact (sortVersions_ascending hsys hn H hs).2.sublist hsub

/-- (ii) PyPI: unconditional. -/
theorem matchReq_ascending_pypi {req : VersionKey} {l r : List RVersion} {c : Semver.Constraint}
    (hp : req.pk.sys = .pypi) (hsys : OneSystem .pypi l)
    (hc : Semver.parseConstraint .pypi req.version = .ok c) (h : matchReq req l = .ok r) :
    r.Pairwise (Le .pypi) := by
  have := matchReq_ascending_default (req := req) (l := l) (r := r) (c := c) (by rw [hp]; exact hsys)
    (by rw [hp]; decide) (by rw [hp]; exact orderLawful_pypi l) (by rw [hp]; exact hc) h
  rw [hp] at this
  exact this

/-- **(ii) npm, as stated**: the result is a filter of the npm arrangement (ascending, the
version tagged `latest` last). Full. -/
theorem matchReq_npm_ordered {req : VersionKey} {l r : List RVersion} {c : Semver.Constraint}
    (hn : req.pk.sys = .npm) (hc : Semver.parseConstraint .npm req.version = .ok c) (h : matchReq req l = .ok r) :
    ∃ sorted, NpmOrdered exactLatest l sorted ∧ r = sorted.filter (Sat c) := by
  obtain ⟨sorted, hs, hr, _⟩ := matchReq_exact (c := c) (by rw [hn]; exact hc) h
  simp only [arrangement, hn, ↓reduceIte] at hs
  exact ⟨sorted, npm_order hs, hr⟩

/-- **npm, requirement that is not a range**: the first record, in the npm arrangement, whose
version string or one of whose comma-separated tags equals the requirement; nothing if
there is none. -/
theorem matchReq_npm_nonrange {req : VersionKey} {l r : List RVersion} (hn : req.pk.sys = .npm)
    (hc : Semver.parseConstraint .npm req.version = .err) (h : matchReq req l = .ok r) :
    ∃ sorted, sortNPMVersions l = .ok sorted ∧
      ((r = [] ∧ ∀ v ∈ l, npmExact req.version v = false) ∨
       (∃ pre v post, sorted = pre ++ v :: post ∧ r = [v] ∧ v ∈ l ∧ npmExact req.version v = true ∧
          ∀ w ∈ pre, npmExact req.version w = false)) := by
  unfold matchReq at h
  simp only [hn, ↓reduceIte] at h
  unfold matchNPMRequirement at h
  split at h
  · rename_i sorted hsorted
    simp only [hn, RSystem.semver, hc] at h
    refine ⟨sorted, hsorted, ?_⟩
    have p : sorted ~ l := sortNPMVersions_perm_input hsorted
    split at h
    · rename_i v hv
      injection h with h
      obtain ⟨hpv, pre, post, e, hpre⟩ := List.find?_eq_some_iff_append.mp hv
      refine Or.inr ⟨pre, v, post, e, h.symm, p.mem_iff.mp (by rw [e]; simp), hpv, ?_⟩
      intro w hw
      simpa using hpre w hw
    · rename_i hnone
      injection h with h
      refine Or.inl ⟨h.symm, ?_⟩
      intro v hv
      have := List.find?_eq_none.mp hnone v (p.mem_iff.mpr hv)
      simpa using this
  · cases h
  · cases h

/-- **Default path, requirement that does not parse**: exact string matching. -/
theorem matchReq_default_nonrange {req : VersionKey} {l r : List RVersion} (hn : req.pk.sys ≠ .npm)
    (hc : Semver.parseConstraint req.pk.sys.semver req.version = .err) (h : matchReq req l = .ok r) :
    ∃ sorted, sortVersions l = .ok sorted ∧ r = sorted.filter (fun v => req.version == v.key.version) := by
  unfold matchReq at h
  simp only [hn, ↓reduceIte] at h
  unfold matchRequirement at h
  split at h
  · rename_i sorted hsorted
    rw [hc] at h
    injection h with h
    exact ⟨sorted, hsorted, h.symm⟩
  · cases h
  · cases h

/-! ## (iii) order-insensitivity of `MatchRequirement` -/

/-- (iii) as the property states it, for one system. -/
def PermStatement (sys : RSystem) : Prop :=
  ∀ (req : VersionKey) (l₁ l₂ : List RVersion), req.pk.sys = sys → OneSystem sys l₁ → DistinctStrings l₁ →
    l₁ ~ l₂ → matchReq req l₁ = matchReq req l₂

/-- (iii), any system, under `OrderLawful`. -/
theorem matchReq_perm {req : VersionKey} {l₁ l₂ : List RVersion} (hsys : OneSystem req.pk.sys l₁)
    (H : OrderLawful req.pk.sys.semver l₁) (nd : DistinctStrings l₁) (p : l₁ ~ l₂) :
    matchReq req l₁ = matchReq req l₂ := by
  unfold matchReq
  split
  · unfold matchNPMRequirement
    rw [sortNPMVersions_perm nd p]
  · unfold matchRequirement
    rw [sortVersions_perm hsys H nd p]

/-- **(iii) NPM**: full. -/
theorem perm_npm : PermStatement .npm := by
  intro req l₁ l₂ hs hsys nd p
  exact matchReq_perm (by rw [hs]; exact hsys) (by rw [hs]; exact orderLawful_npm l₁) nd p

/-- **(iii) PyPI**: full. -/
theorem perm_pypi : PermStatement .pypi := by
  intro req l₁ l₂ hs hsys nd p
  exact matchReq_perm (by rw [hs]; exact hsys) (by rw [hs]; exact orderLawful_pypi l₁) nd p

/-- (iii) for the default system (`UnknownSystem`): full. -/
theorem perm_unknown : PermStatement .unknown := by
  intro req l₁ l₂ hs hsys nd p
  exact matchReq_perm (by rw [hs]; exact hsys) (by rw [hs]; exact orderLawful_default l₁) nd p

/-- **(iii) Maven**: partial – needs `OrderLawful` (finding F-C12-mvn-intrans; implied by
C01's laws `CmpLawful` on the list). -/
theorem perm_maven_partial {req : VersionKey} {l₁ l₂ : List RVersion} (hs : req.pk.sys = .maven)
    (hsys : OneSystem .maven l₁) (H : OrderLawful .maven l₁) (nd : DistinctStrings l₁) (p : l₁ ~ l₂) :
    matchReq req l₁ = matchReq req l₂ :=
  matchReq_perm (by rw [hs]; exact hsys) (by rw [hs]; exact H) nd p

/-! ### refutation of (iii) for Maven: `4.1`, `4.1-jre`, `4.1.0.Beta1` -/

def m1 : RVersion := mkv .maven "4.1"
def m2 : RVersion := mkv .maven "4.1-jre"
def m3 : RVersion := mkv .maven "4.1.0.Beta1"

theorem maven_witness : matchReq (mkreq .maven "[0,)") [m1, m2, m3] = .ok [m1, m2, m3] ∧
    matchReq (mkreq .maven "[0,)") [m2, m3, m1] = .ok [m2, m3, m1] := by
  constructor <;> decide +kernel

theorem maven_perm_statement_false : ¬ PermStatement .maven := by
  intro h
  have := h (mkreq .maven "[0,)") [m1, m2, m3] [m2, m3, m1] rfl (by unfold OneSystem; decide +kernel)
    (by unfold DistinctStrings; decide +kernel)
    (perm_append_comm (l₁ := [m1]) (l₂ := [m2, m3]))
  rw [maven_witness.1, maven_witness.2] at this
  revert this
  decide +kernel

/-- The witness is outside the hypothesis (so the partial theorem does not apply to it). -/
theorem maven_witness_unlawful : ¬ OrderLawful .maven [m1, m2, m3] := by
  intro h
  have := (orderLawfulB_iff .maven [m1, m2, m3]).mpr h
  revert this
  decide +kernel

/-- `OrderLawful` as evaluated by the driver (correspondence op `classify`, mirrored by the
harness classifier): the decidable form is the hypothesis itself. -/
theorem classify_sound (s : Semver.System) (l : List RVersion) :
    orderLawfulB s l = true ↔ OrderLawful s l := orderLawfulB_iff s l

/-! ## Non-vacuity -/

/-- The hypotheses are satisfiable and the conclusions non-trivial: an npm list with a
prerelease, an unparsable string and a `latest` tag; a proper, non-empty selection. -/
example :
    let l := [mkv .npm "2.0.0", mkv .npm "1.0.0" (some "latest"), mkv .npm "banana", mkv .npm "3.0.0-rc.1"]
    OneSystem .npm l ∧ DistinctStrings l ∧
      matchReq (mkreq .npm "<2 || >=3.0.0-0") l =
        .ok [mkv .npm "3.0.0-rc.1", mkv .npm "1.0.0" (some "latest")] ∧
      sortNPMVersions l =
        .ok [mkv .npm "2.0.0", mkv .npm "3.0.0-rc.1", mkv .npm "banana", mkv .npm "1.0.0" (some "latest")] ∧
      matchReq (mkreq .npm "latest") l = .ok [mkv .npm "1.0.0" (some "latest")] := by
  refine ⟨?_, ?_, ?_, ?_, ?_⟩
  · unfold OneSystem; decide +kernel
  · unfold DistinctStrings; decide +kernel
  all_goals decide +kernel

/-- Maven/PyPI: equal-comparing distinct spellings are ordered by the string (repair F5). -/
example :
    matchReq (mkreq .pypi ">=1") [mkv .pypi "1.0.0", mkv .pypi "2.0", mkv .pypi "1", mkv .pypi "1.0"] =
      .ok [mkv .pypi "1", mkv .pypi "1.0", mkv .pypi "1.0.0", mkv .pypi "2.0"] ∧
    matchReq (mkreq .maven "[1.0,2.0)") [mkv .maven "2.0", mkv .maven "1.0.0", mkv .maven "1.0", mkv .maven "1.5"] =
      .ok [mkv .maven "1.0", mkv .maven "1.0.0", mkv .maven "1.5"] := by
  constructor <;> decide +kernel

/-! RESTS-ON (DESIGN 3.3) — per theorem group: model definitions unfolded; Gen constants; tie.

* (i) matchReq_exact, matchReq_mem_iff, matchReq_npm_nonrange, matchReq_default_nonrange:
  Resolve.Match.{matchReq, matchNPMRequirement, matchRequirement, filterMatch, npmExact, sortNPMVersions,
  sortVersions, sortBase, moveLatest}; Semver.{parseConstraint, Constraint.matchStr} as opaque functions;
  no Gen constant; tie: ops `matchreq` (oracles exact, order, perm).
* (ii) sortVersions_ascending, matchReq_ascending_*, npm_order, npm_order_statement, matchReq_npm_ordered, lt_iff:
  Resolve.Match.{less, dec, goSort, insertLast, sortBase, moveLatest, splitLast, Version.exactLatest, splitOn};
  Semver.{parse, vcompare} through C01's `Laws` (C01.generic, C01.pypi, C01.parse_wf, which rest on
  Gen.SemverTables via the semver model); tie: ops `sortv`, `matchreq`.
* (iii) sortVersions_perm, matchReq_perm, perm_*: the same plus Proofs.SortUnique; tie: ops `matchreq`
  / `sortv` on permutations of one list.
* refutations maven_perm_statement_false, maven_witness_unlawful and the regression npm_regression
  (fixed finding F-C12-latest-substr): kernel evaluation of the model (including Semver.parse, vcompare,
  parseConstraint, hence Gen.SemverTables) on the witnesses; tie: the witnesses are replayed on the real
  code on every run (known findings; a fixed one must pass).
* classify_sound: Resolve.Match.orderLawfulB; tie: op `classify`.
-/

end DepsDev.Props.C12
