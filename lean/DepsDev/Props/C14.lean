import DepsDev.Proofs.C14Refine
import DepsDev.Proofs.C14Deps
import DepsDev.Props.C12

/-!
# C14 — the in-memory client reports exactly what was last added

Statement (properties.jsonl): *after any sequence of additions, looking up a version returns
the attributes of the most recent addition with that key, listing a package returns each
added (non-deleted) version once in ascending order, the requirements of a version are those
given in its most recent addition (in npm resolution order), every package mentioned in a
requirement is known (possibly with no versions), and anything never added is reported as
not found.*

Objects: `step` / `run` = the `LocalClient` state machine (Model/Resolve/Client.lean;
`AddVersion`, `Version`, `Versions`, `Requirements`, `MatchingVersions`; tied to the code by
the correspondence op `seq`). `Spec` = a finite map `VersionKey ↦ (attributes, requirements)`
plus the set of known packages (Proofs/C14Spec.lean); `abs` reads it off a client state.

Proved (all histories, no length bound):

* **refinement**, one step (`step_refines`) and whole histories (`run_refines`): the
  representation invariant is preserved, `abs (step s op) = specStep (abs s) op`, and every
  call returns what the map says (`ObsOK`). Hypothesis `AddsReturn`: no `AddVersion` of the
  history panics inside `SortVersions` (a panic is a modelled outcome; it was never observed,
  and is not proved impossible because the semver model's `Parse` is not proved panic-free).
* the five clauses of the statement as corollaries over `lastAdd` / `mentioned`, functions of
  the history alone: `version_reports_latest`, `versions_lists_each_once`,
  `requirements_of_latest` (+ `requirements_order`), `mentioned_is_known`, `never_added_not_found`.
* "ascending order" of a listing (clause 2): per listing `listing_ascending` (non-npm, given
  C12's `OrderLawful`; PyPI unconditional: `listing_ascending_pypi`), `listing_npm_ordered` (npm
  arrangement as stated: the version *tagged* `latest` last; unconditional), `listing_unique`
  (the listing is determined by the map alone); over whole histories `history_listing_ascending`
  (**partial**: `HistoryLawful`, a Maven-only condition, finding F-C14-mvn-intrans = C12's,
  reached through `AddVersion`; refuted without it: `maven_ascending_statement_false`) and
  `history_listing_npm` / `npm_ascending_statement` (npm order as stated, **full** since the
  repair of F-C14-latest-substr = F-C12-latest-substr; it used to need `HistoryTagsExact`;
  regression: `npm_regression_history`).
* `matching_is_match_of_listing`: `MatchingVersions` is `MatchRequirement` over the listing
  (so C12's theorems describe it).
-/
namespace DepsDev.Props.C14

open List hiding lookup
open DepsDev DepsDev.Semver DepsDev.Resolve.Match DepsDev.Resolve.Client
open DepsDev.Proofs.SortUnique DepsDev.Proofs.C12Order DepsDev.Proofs.C12Match
open DepsDev.Proofs.C14Spec DepsDev.Proofs.C14Refine DepsDev.Proofs.C14Deps

/-! ## Refinement -/

/-- **One step refines the map.** -/
theorem step_refines (lc : LocalClient) (hI : Inv lc) (op : Op)
    (hret : match op with
      | .add _ _ => (step lc op).2 = .done
      | _ => True) :
    Inv (step lc op).1 ∧ abs (step lc op).1 = specStep (abs lc) op ∧ ObsOK (abs lc) op (step lc op).2 := by
  cases op with
  | add v deps =>
    by_cases hdel : v.attrs.deleted = true
    · simp only [step, addVersion_deleted lc v deps hdel, specStep, hdel, ↓reduceIte, ObsOK]
      exact ⟨hI, trivial, trivial⟩
    · have hdel' : v.attrs.deleted = false := by simpa using hdel
      cases hs : sortVersions (replaceOrInsert (versionsOrNil lc v.key.pk) v) with
      | ok sorted =>
        simp only [step, addVersion_ok lc v deps hdel' hs, ObsOK]
        exact ⟨inv_added hI hdel' hs, abs_added hI hdel' hs, trivial⟩
      | err =>
        have := addVersion_not_ok lc v deps hdel' (by intro s h; rw [hs] at h; cases h)
        simp only [step] at hret
        revert hret
        cases hadd : addVersion lc v deps with
        | mk lc' o => rw [hadd] at this; simp only at this; subst this; simp
      | panic =>
        have := addVersion_not_ok lc v deps hdel' (by intro s h; rw [hs] at h; cases h)
        simp only [step] at hret
        revert hret
        cases hadd : addVersion lc v deps with
        | mk lc' o => rw [hadd] at this; simp only at this; subst this; simp
  | ver k => exact ⟨hI, rfl, (query_ok hI).1 k⟩
  | vers p => exact ⟨hI, rfl, (query_ok hI).2.2.1 p⟩
  | reqs k => exact ⟨hI, rfl, (query_ok hI).2.1 k⟩
  | mtch k => exact ⟨hI, rfl, (query_ok hI).2.2.2 k⟩

/-- **Whole histories refine the map** (induction over the op list). -/
theorem run_refines (ops : List Op) (lc : LocalClient) (hI : Inv lc) (hret : AddsReturn lc ops) :
    Inv (run lc ops).1 ∧ abs (run lc ops).1 = specRun (abs lc) ops ∧ AllObsOK (abs lc) ops (run lc ops).2 := by
  induction ops generalizing lc with
  | nil => exact ⟨hI, rfl, trivial⟩
  | cons op ops ih =>
    obtain ⟨h1, h2⟩ := hret
    obtain ⟨hI', habs, hobs⟩ := step_refines lc hI op h1
    obtain ⟨hI'', habs', hobs'⟩ := ih (step lc op).1 hI' h2
    simp only [run, specRun, List.foldl_cons]
    refine ⟨hI'', ?_, ?_⟩
    · rw [habs', habs]; rfl
    · exact ⟨hobs, by rw [← habs]; exact hobs'⟩

/-- From a fresh client. -/
theorem history_refines (ops : List Op) (hret : AddsReturn LocalClient.new ops) :
    Inv (run LocalClient.new ops).1 ∧ abs (run LocalClient.new ops).1 = specRun Spec.empty ops ∧
      AllObsOK Spec.empty ops (run LocalClient.new ops).2 := by
  have := run_refines ops LocalClient.new inv_new hret
  rwa [abs_new] at this

/-! ## The map after a history, as a function of the history -/

/-- What an addition contributes for key `k`. -/
def contributes (op : Op) (k : VersionKey) : Option (VAttrs × List RequirementVersion) :=
  match op with
  | .add v deps => if v.attrs.deleted = false ∧ v.key = k then some (v.attrs, sortDependencies deps) else none
  | _ => none

/-- The most recent non-deleted addition with key `k`: its attributes and its requirements
(in resolution order). -/
def lastAdd : List Op → VersionKey → Option (VAttrs × List RequirementVersion)
  | [], _ => none
  | op :: ops, k =>
    match lastAdd ops k with
    | some x => some x
    | none => contributes op k

/-- The package was added (non-deleted) or mentioned in a requirement of such an addition. -/
def mentioned : List Op → PackageKey → Bool
  | [], _ => false
  | .add v deps :: ops, p =>
    (!v.attrs.deleted && (decide (p = v.key.pk) || deps.any (fun d => d.key.pk = p))) || mentioned ops p
  | _ :: ops, p => mentioned ops p

theorem specRun_vers (ops : List Op) (sp : Spec) (k : VersionKey) :
    (specRun sp ops).vers k = match lastAdd ops k with
      | some x => some x
      | none => sp.vers k := by
  induction ops generalizing sp with
  | nil => rfl
  | cons op ops ih =>
    simp only [specRun, List.foldl_cons] at ih ⊢
    rw [ih, lastAdd]
    cases lastAdd ops k with
    | some x => rfl
    | none =>
      cases op with
      | add v deps =>
        simp only [specStep, contributes]
        by_cases hdel : v.attrs.deleted = true
        · simp [hdel]
        · have hdel' : v.attrs.deleted = false := by simpa using hdel
          by_cases hk : k = v.key
          · subst hk; simp [hdel']
          · have : ¬ v.key = k := fun h => hk h.symm
            simp [hdel', hk, this]
      | _ => rfl

theorem specRun_known (ops : List Op) (sp : Spec) (p : PackageKey) :
    (specRun sp ops).known p = (mentioned ops p || sp.known p) := by
  induction ops generalizing sp with
  | nil => simp [specRun, mentioned]
  | cons op ops ih =>
    simp only [specRun, List.foldl_cons] at ih ⊢
    rw [ih]
    cases op with
    | add v deps =>
      simp only [specStep, mentioned]
      by_cases hdel : v.attrs.deleted = true
      · simp [hdel]
      · have hdel' : v.attrs.deleted = false := by simpa using hdel
        simp only [hdel', Bool.false_eq_true, ↓reduceIte, Bool.not_false, Bool.true_and]
        cases mentioned ops p <;> simp
    | _ => simp [specStep, mentioned]

/-! ## The five clauses -/

section clauses
variable (ops : List Op) (hret : AddsReturn LocalClient.new ops)
include hret

theorem final_vers (k : VersionKey) : (abs (run LocalClient.new ops).1).vers k = lastAdd ops k := by
  rw [(history_refines ops hret).2.1, specRun_vers]
  cases lastAdd ops k <;> rfl

theorem final_known (p : PackageKey) : (abs (run LocalClient.new ops).1).known p = mentioned ops p := by
  rw [(history_refines ops hret).2.1, specRun_known]
  simp [Spec.empty]

/-- **Clause 1**: looking up a version returns the attributes of the most recent addition
with that key (or "not found"). -/
theorem version_reports_latest (k : VersionKey) :
    version (run LocalClient.new ops).1 k = match lastAdd ops k with
      | some (a, _) => .attrs a
      | none => .notFound := by
  have := (query_ok (history_refines ops hret).1).1 k
  simp only [ObsOK] at this
  rw [final_vers ops hret] at this
  exact this

/-- **Clause 3**: the requirements of a version are those of its most recent addition, in
resolution order (`requirements_order` says what that order is). -/
theorem requirements_of_latest (k : VersionKey) :
    requirements (run LocalClient.new ops).1 k = match lastAdd ops k with
      | some (_, ds) => .deps ds
      | none => .notFound := by
  have := (query_ok (history_refines ops hret).1).2.1 k
  simp only [ObsOK] at this
  rw [final_vers ops hret] at this
  exact this

/-- **Clause 2**: listing a known package returns each added, non-deleted version of that
package exactly once, with the attributes of its most recent addition, in `SortVersions`
order. -/
theorem versions_lists_each_once (p : PackageKey) (hm : mentioned ops p = true) :
    ∃ vs, versions (run LocalClient.new ops).1 p = .versions vs ∧
      (vs.map (fun v => v.key)).Nodup ∧
      (∀ v, v ∈ vs ↔ v.key.pk = p ∧ ∃ ds, lastAdd ops v.key = some (v.attrs, ds)) ∧
      (vs = [] ∨ ∃ l, sortVersions l = .ok vs) := by
  have := (query_ok (history_refines ops hret).1).2.2.1 p
  simp only [ObsOK] at this
  rw [final_known ops hret, hm] at this
  simp only [↓reduceIte] at this
  obtain ⟨vs, ho, hl⟩ := this
  refine ⟨vs, ho, hl.once, ?_, hl.ordered⟩
  intro v
  rw [hl.exactly v, final_vers ops hret]

/-- **Clause 4**: every package mentioned in a requirement (or added) is known: listing it
and matching against it do not report "not found". -/
theorem mentioned_is_known (p : PackageKey) (hm : mentioned ops p = true) (k : VersionKey) (hk : k.pk = p) :
    versions (run LocalClient.new ops).1 p ≠ .notFound ∧
    matchingVersions (run LocalClient.new ops).1 k ≠ .notFound := by
  constructor
  · obtain ⟨vs, h, _⟩ := versions_lists_each_once ops hret p hm
    rw [h]; simp
  · have := (query_ok (history_refines ops hret).1).2.2.2 k
    simp only [ObsOK] at this
    rw [final_known ops hret, hk, hm] at this
    simp only [↓reduceIte] at this
    obtain ⟨vs, _, ho⟩ := this
    rw [ho]
    cases matchReq k vs <;> simp

/-- **Clause 5**: anything never added is reported as not found. -/
theorem never_added_not_found :
    (∀ k, lastAdd ops k = none →
      version (run LocalClient.new ops).1 k = .notFound ∧ requirements (run LocalClient.new ops).1 k = .notFound) ∧
    (∀ p, mentioned ops p = false → versions (run LocalClient.new ops).1 p = .notFound ∧
      ∀ k, k.pk = p → matchingVersions (run LocalClient.new ops).1 k = .notFound) := by
  constructor
  · intro k hk
    rw [version_reports_latest ops hret, requirements_of_latest ops hret, hk]
    exact ⟨rfl, rfl⟩
  · intro p hp
    constructor
    · have := (query_ok (history_refines ops hret).1).2.2.1 p
      simp only [ObsOK] at this
      rw [final_known ops hret, hp] at this
      simpa using this
    · intro k hk
      have := (query_ok (history_refines ops hret).1).2.2.2 k
      simp only [ObsOK] at this
      rw [final_known ops hret, hk, hp] at this
      simpa using this

/-- `MatchingVersions` is `MatchRequirement` over the listing of the package (C12 describes
the result: exact, ordered, order-insensitive). -/
theorem matching_is_match_of_listing (k : VersionKey) (hm : mentioned ops k.pk = true) :
    ∃ vs, versions (run LocalClient.new ops).1 k.pk = .versions vs ∧
      matchingVersions (run LocalClient.new ops).1 k = match matchReq k vs with
        | .ok ms => .versions ms
        | .err | .panic => .panicked := by
  obtain ⟨vs, hv, _⟩ := versions_lists_each_once ops hret k.pk hm
  refine ⟨vs, hv, ?_⟩
  unfold versions at hv
  unfold matchingVersions
  cases hl : lookup (run LocalClient.new ops).1.packageVersions k.pk with
  | none => rw [hl] at hv; cases hv
  | some vs' =>
    rw [hl] at hv
    injection hv with hv
    subst hv
    rfl

end clauses

/-! ## What "requirements in npm resolution order" and "ascending" mean -/

/-- Clause 3, the order: what is stored for an addition is a permutation of the given
requirements; when they are npm requirements it is sorted by the npm order (dev-only last,
then lower-cased name, then lower case before upper case); otherwise it is the list as given. -/
theorem requirements_order (deps : List RequirementVersion) :
    (sortDependencies deps).Perm deps ∧
    (∀ d ds, deps = d :: ds → d.key.pk.sys = .npm → Sorted npmDepLess (sortDependencies deps)) ∧
    (∀ d ds, deps = d :: ds → d.key.pk.sys ≠ .npm → sortDependencies deps = deps) := by
  refine ⟨DepsDev.Proofs.C14Deps.sortDependencies_perm deps, ?_, ?_⟩
  · rintro d ds rfl h; exact sortDependencies_sorted d ds h
  · rintro d ds rfl h; exact sortDependencies_other d ds h

/-- The npm order, spelled out. -/
theorem npmDepLess_iff (a b : RequirementVersion) :
    npmDepLess a b = true ↔
      (a.typ.isDevOnly = false ∧ b.typ.isDevOnly = true) ∨
      (a.typ.isDevOnly = b.typ.isDevOnly ∧
        (cmpBytes (Bytes.toLowerAscii a.effName) (Bytes.toLowerAscii b.effName) < 0 ∨
         (Bytes.toLowerAscii a.effName = Bytes.toLowerAscii b.effName ∧ cmpBytes a.effName b.effName > 0))) := by
  unfold npmDepLess
  cases a.typ.isDevOnly <;> cases b.typ.isDevOnly <;> simp
  all_goals
    by_cases hl : Bytes.toLowerAscii a.effName = Bytes.toLowerAscii b.effName
    · have := cmpBytes_lawful.refl (Bytes.toLowerAscii b.effName)
      simp [hl, this]
    · simp [hl]

/-- Clause 2, "ascending", packages of a system other than npm: a listing is ascending in the
ecosystem order, given C12's `OrderLawful` for its records (proved for PyPI and the default
system: `listing_ascending_pypi`; a hypothesis for Maven). -/
theorem listing_ascending {sp : Spec} {p : PackageKey} {vs : List RVersion} (hl : IsListing sp p vs)
    (hn : p.sys ≠ .npm) (H : C12.OrderLawful p.sys.semver vs) : vs.Pairwise (C12.Le p.sys.semver) := by
  rcases hl.ordered with rfl | ⟨l, hs⟩
  · exact List.Pairwise.nil
  · have p' := sortVersions_perm_input hs
    have hsys : C12.OneSystem p.sys l := fun v hv => by
      have := (hl.exactly v).mp (p'.mem_iff.mpr hv)
      rw [this.1]
    exact (C12.sortVersions_ascending hsys hn (H.perm p') hs).2

theorem listing_ascending_pypi {sp : Spec} {p : PackageKey} {vs : List RVersion} (hl : IsListing sp p vs)
    (hp : p.sys = .pypi) : vs.Pairwise (C12.Le .pypi) := by
  have := listing_ascending hl (by rw [hp]; decide) (by rw [hp]; exact C12.orderLawful_pypi vs)
  rwa [hp] at this

/-- Clause 2, "ascending", npm packages: a listing is in the npm arrangement of C12
(ascending, the version tagged `latest` — one of its comma-separated tags is `latest` — last
unless it is a prerelease while releases exist). Unconditional. -/
theorem listing_npm_ordered {sp : Spec} {p : PackageKey} {vs : List RVersion} (hl : IsListing sp p vs)
    (hp : p.sys = .npm) : vs = [] ∨ ∃ l, l ~ vs ∧ C12.NpmOrdered C12.exactLatest l vs := by
  rcases hl.ordered with rfl | ⟨l, hs⟩
  · exact Or.inl rfl
  · have p' := sortVersions_perm_input hs
    have hsys : C12.OneSystem .npm l := fun v hv => by
      have := (hl.exactly v).mp (p'.mem_iff.mpr hv)
      rw [this.1, hp]
    rw [C12.sortVersions_npm hsys] at hs
    exact Or.inr ⟨l, p'.symm, C12.npm_order hs⟩

theorem nodup_of_nodup_map {α β : Type} {f : α → β} {l : List α} (h : (l.map f).Nodup) : l.Nodup :=
  List.Pairwise.of_map f (fun _ _ hne e => hne (by rw [e])) h

/-- Under `OrderLawful`, **the listing is determined by the map alone**: two lists that both
satisfy `IsListing` for the same map and package are equal (version strings of a package's
records being pairwise distinct). -/
theorem listing_unique {sp : Spec} {p : PackageKey} {vs ws : List RVersion}
    (h₁ : IsListing sp p vs) (h₂ : IsListing sp p ws)
    (H : C12.OrderLawful p.sys.semver vs) (nd : C12.DistinctStrings vs) : vs = ws := by
  have hperm : vs ~ ws := by
    apply (List.perm_ext_iff_of_nodup (nodup_of_nodup_map h₁.once) (nodup_of_nodup_map h₂.once)).mpr
    intro v; rw [h₁.exactly, h₂.exactly]
  have hsysv : C12.OneSystem p.sys vs := fun v hv => by rw [((h₁.exactly v).mp hv).1]
  rcases h₁.ordered with rfl | ⟨l₁, hs₁⟩
  · exact (List.Perm.nil_eq hperm)
  · rcases h₂.ordered with rfl | ⟨l₂, hs₂⟩
    · exact (List.Perm.eq_nil hperm)
    · have p₁ := sortVersions_perm_input hs₁
      have p₂ := sortVersions_perm_input hs₂
      have hsys₁ : C12.OneSystem p.sys l₁ := fun v hv => hsysv v (p₁.mem_iff.mpr hv)
      have nd₁ : C12.DistinctStrings l₁ := (p₁.map _).nodup_iff.mp nd
      have e := C12.sortVersions_perm hsys₁ (H.perm p₁) nd₁ (p₁.symm.trans (hperm.trans p₂))
      rw [hs₁, hs₂] at e
      injection e

/-! ## "Ascending" over whole histories: hypotheses on the history, partial theorems, refutations -/

/-- All non-deleted records ever added for package `p`. -/
def addedRecords : List Op → PackageKey → List RVersion
  | [], _ => []
  | .add v _ :: ops, p =>
    if v.attrs.deleted = false ∧ v.key.pk = p then v :: addedRecords ops p else addedRecords ops p
  | _ :: ops, p => addedRecords ops p

theorem lastAdd_mem {ops : List Op} {k : VersionKey} {a : VAttrs} {ds : List RequirementVersion}
    (h : lastAdd ops k = some (a, ds)) : ({ key := k, attrs := a } : RVersion) ∈ addedRecords ops k.pk := by
  induction ops with
  | nil => cases h
  | cons op ops ih =>
    simp only [lastAdd] at h
    cases hl : lastAdd ops k with
    | some x =>
      rw [hl] at h
      injection h with h
      subst h
      have := ih hl
      cases op with
      | add v deps => simp only [addedRecords]; split <;> simp [this]
      | _ => simpa [addedRecords] using this
    | none =>
      rw [hl] at h
      cases op with
      | add v deps =>
        simp only [contributes] at h
        split at h
        · rename_i hc
          injection h with h
          have ha : v.attrs = a := (Prod.mk.inj h).1
          simp only [addedRecords]
          have : v.attrs.deleted = false ∧ v.key.pk = k.pk := ⟨hc.1, by rw [hc.2]⟩
          simp only [this, and_self, ↓reduceIte]
          apply List.mem_cons.mpr
          left
          cases v
          simp_all
        · cases h
      | _ => simp [contributes] at h

/-- **Hypothesis `HistoryLawful`**: for every package, C12's `OrderLawful` holds on the records
ever added for it. True for every NPM / PyPI / default-system package (`historyLawful_of_no_maven`);
for Maven it excludes the intransitive shapes (finding F-C14-mvn-intrans = F-C12-mvn-intrans). -/
def HistoryLawful (ops : List Op) : Prop := ∀ p : PackageKey, C12.OrderLawful p.sys.semver (addedRecords ops p)

theorem historyLawful_non_maven (ops : List Op) (p : PackageKey) (hp : p.sys ≠ .maven) :
    C12.OrderLawful p.sys.semver (addedRecords ops p) := by
  cases hs : p.sys with
  | maven => exact absurd hs hp
  | npm => exact C12.orderLawful_npm _
  | pypi => exact C12.orderLawful_pypi _
  | unknown => exact C12.orderLawful_default _

section ascending
variable (ops : List Op) (hret : AddsReturn LocalClient.new ops)
include hret

theorem listing_of_versions {p : PackageKey} {vs : List RVersion}
    (hv : versions (run LocalClient.new ops).1 p = .versions vs) :
    IsListing (abs (run LocalClient.new ops).1) p vs := by
  have := (query_ok (history_refines ops hret).1).2.2.1 p
  simp only [ObsOK] at this
  split at this
  · obtain ⟨vs', ho, hl⟩ := this
    rw [hv] at ho
    injection ho with ho
    subst ho
    exact hl
  · rw [hv] at this; cases this

theorem listing_subset_added {p : PackageKey} {vs : List RVersion}
    (hv : versions (run LocalClient.new ops).1 p = .versions vs) : ∀ v ∈ vs, v ∈ addedRecords ops p := by
  intro v hm
  have hl := listing_of_versions ops hret hv
  obtain ⟨hp, ds, hd⟩ := (hl.exactly v).mp hm
  rw [final_vers ops hret] at hd
  have := lastAdd_mem hd
  rw [hp] at this
  exact this

/-- **Clause 2, "ascending", whole histories, non-npm packages** (partial for Maven:
`HistoryLawful`; for PyPI the hypothesis holds by `historyLawful_non_maven`). -/
theorem history_listing_ascending (H : HistoryLawful ops) {p : PackageKey} {vs : List RVersion}
    (hn : p.sys ≠ .npm) (hv : versions (run LocalClient.new ops).1 p = .versions vs) :
    vs.Pairwise (C12.Le p.sys.semver) :=
  listing_ascending (listing_of_versions ops hret hv) hn ((H p).of_subset (listing_subset_added ops hret hv))

/-- **Clause 2, "ascending", whole histories, npm packages, as the property states it**
(the version *tagged* latest last): full — no hypothesis on the tags (before the repair of
F-C14-latest-substr this needed `HistoryTagsExact`). -/
theorem history_listing_npm {p : PackageKey} {vs : List RVersion}
    (hp : p.sys = .npm) (hv : versions (run LocalClient.new ops).1 p = .versions vs) :
    vs = [] ∨ ∃ l, l ~ vs ∧ C12.NpmOrdered C12.exactLatest l vs :=
  listing_npm_ordered (listing_of_versions ops hret hv) hp

end ascending

/-- Clause 2 "ascending" for npm **as stated**. -/
def NpmAscendingStatement : Prop :=
  ∀ (ops : List Op) (p : PackageKey) (vs : List RVersion), AddsReturn LocalClient.new ops → p.sys = .npm →
    versions (run LocalClient.new ops).1 p = .versions vs →
    vs = [] ∨ ∃ l, l ~ vs ∧ C12.NpmOrdered C12.exactLatest l vs

/-- Clause 2 "ascending" for Maven, without the hypothesis. -/
def MavenAscendingStatement : Prop :=
  ∀ (ops : List Op) (p : PackageKey) (vs : List RVersion), AddsReturn LocalClient.new ops → p.sys = .maven →
    versions (run LocalClient.new ops).1 p = .versions vs → vs.Pairwise (C12.Le .maven)

def pkP (sys : RSystem) : PackageKey := { sys := sys, name := [112] }

/-- The statement holds (it was refuted before the repair of F-C14-latest-substr). -/
theorem npm_ascending_statement : NpmAscendingStatement :=
  fun ops _ _ hret hp hv => history_listing_npm ops hret hp hv

/-- Regression of F-C14-latest-substr (fixed): adding `1.0.0 #notlatest` then `2.0.0` lists
`[1.0.0, 2.0.0]` (it used to list `[2.0.0, 1.0.0]`); the history returns normally. The same
history is replayed on the real code on every run (fixed finding's witness). -/
theorem npm_regression_history :
    AddsReturn LocalClient.new [.add C12.w1 [], .add C12.w2 []] ∧
    versions (run LocalClient.new [.add C12.w1 [], .add C12.w2 []]).1 (pkP .npm) = .versions [C12.w1, C12.w2] := by
  refine ⟨?_, by decide +kernel⟩
  simp only [AddsReturn]
  refine ⟨?_, ?_, trivial⟩ <;> decide +kernel

/-- The old witness now satisfies the statement; the pre-repair listing `[2.0.0, 1.0.0]` would not
(`C12.npm_witness_not_ordered`). -/
example : ∃ l, l ~ [C12.w1, C12.w2] ∧ C12.NpmOrdered C12.exactLatest l [C12.w1, C12.w2] := by
  rcases npm_ascending_statement _ _ _ npm_regression_history.1 rfl npm_regression_history.2 with h | h
  · cases h
  · exact h

/-- Adding `4.1`, `4.1-jre`, `4.1.0.Beta1` lists them in that order although
`4.1.0.Beta1 < 4.1` (finding F-C14-mvn-intrans). -/
theorem maven_ascending_statement_false : ¬ MavenAscendingStatement := by
  intro h
  have hv : versions (run LocalClient.new [.add C12.m1 [], .add C12.m2 [], .add C12.m3 []]).1 (pkP .maven) =
      .versions [C12.m1, C12.m2, C12.m3] := by
    decide +kernel
  have hr : AddsReturn LocalClient.new [.add C12.m1 [], .add C12.m2 [], .add C12.m3 []] := by
    simp only [AddsReturn]
    refine ⟨?_, ?_, ?_, trivial⟩ <;> decide +kernel
  have := h _ _ _ hr rfl hv
  have h13 : C12.Le .maven C12.m1 C12.m3 := by
    have := List.pairwise_cons.mp this
    exact this.1 C12.m3 (by simp)
  revert h13
  unfold C12.Le vle
  decide +kernel

/-! ## Non-vacuity -/

def vk (name ver : String) : VersionKey :=
  { pk := { sys := .npm, name := name.toUTF8.toList }, vtype := .concrete, version := ver.toUTF8.toList }

def addOp (name ver : String) (tags : Option String) (deps : List RequirementVersion) : Op :=
  .add { key := vk name ver, attrs := { tags := tags.map (fun t => t.toUTF8.toList) } } deps

def reqOn (name : String) : RequirementVersion :=
  { key := { pk := { sys := .npm, name := name.toUTF8.toList }, vtype := .requirement, version := [42] } }

/-- A history that replaces a key (the old F2 witness): the hypotheses hold, the second
addition's attributes win, the `latest` version is listed last, the mentioned package is
known and empty. -/
example :
    let ops := [addOp "a" "1.0.0" (some "latest") [], addOp "a" "2.0.0" none [reqOn "b"],
                addOp "a" "1.0.0" (some "next") []]
    AddsReturn LocalClient.new ops ∧
    lastAdd ops (vk "a" "1.0.0") = some ({ tags := some "next".toUTF8.toList }, []) ∧
    version (run LocalClient.new ops).1 (vk "a" "1.0.0") = .attrs { tags := some "next".toUTF8.toList } ∧
    versions (run LocalClient.new ops).1 { sys := .npm, name := "b".toUTF8.toList } = .versions [] ∧
    (run LocalClient.new (ops.take 2)).2 = [.done, .done] ∧
    versions (run LocalClient.new (ops.take 2)).1 { sys := .npm, name := "a".toUTF8.toList } =
      .versions [{ key := vk "a" "2.0.0" }, { key := vk "a" "1.0.0", attrs := { tags := some "latest".toUTF8.toList } }] := by
  refine ⟨?_, ?_, ?_, ?_, ?_, ?_⟩
  · simp only [AddsReturn, addOp]
    refine ⟨?_, ?_, ?_, trivial⟩ <;> decide +kernel
  all_goals decide +kernel

/-! RESTS-ON (DESIGN 3.3) — per theorem group: model definitions unfolded; Gen constants; tie.

* step_refines, run_refines, history_refines and the five clause theorems:
  Resolve.Client.{step, run, addVersion, replaceOrInsert, upsert, lookup, hasKey, ensurePackage,
  LocalClient.versionsOf, version, versions, requirements, matchingVersions, sortDependencies};
  Resolve.Match.sortVersions only through "returns a permutation of its input"
  (C14Refine.sortVersions_perm_input); no Gen constant; tie: op `seq` (oracle ref).
* requirements_order, npmDepLess_iff, sortDependencies_perm_invariant:
  Resolve.Client.{npmDepLess, sortDependencies, RequirementVersion.effName, DepType.isDevOnly},
  Resolve.Match.goSort, Bytes.toLowerAscii, Semver.cmpBytes; tie: op `seq` (reqs observations).
* listing_*, history_listing_*: C12's theorems (see Props/C12.lean RESTS-ON).
* refutation maven_ascending_statement_false, regression npm_regression_history: kernel evaluation of `run` on the witness histories (through Semver.parse / vcompare,
  hence Gen.SemverTables); tie: the witnesses are replayed on the real code on every run.
-/

end DepsDev.Props.C14
