import DepsDev.Proofs.C10Tie
import DepsDev.Proofs.C10Gem
import DepsDev.Proofs.C10PepTie
import DepsDev.Proofs.C10Mvn4
import DepsDev.Props.SemverTies

/-!
# C10 — a version's canonical string denotes the same version

Property text: *for every version that parses, its canonical string parses in the same
system, compares equal to the original, and canonicalising again returns the identical
string; two versions with the same canonical string compare equal* (all of `Parse`'s
outputs in Default, Cargo, Go, Maven, NPM, NuGet, PyPI, Composer, and release-only RubyGems).

What is here:

* the full statements `CanonRoundTripFull s`, `CanonInjectiveFull s`, `C10Full`;
* three refutations on the model, one per recorded finding class
  (`wildcard_not_roundtrip`, `gem_prerelease_not_roundtrip`,
  `maven_leading_separator_not_roundtrip`), with the decidable predicates
  `NotWildcard`, `GemRelease`, `NoLeadingSeparator` that exclude them;
* D1 (`digits_roundtrip`): printing and parsing of numbers are inverse;
* C10-a (`parse_render`, `parseInf_render`): for the six SemVer-family systems
  (Default, Cargo, Go, NPM, NuGet, Composer) the text of every valid AST parses to the
  AST's embedding — all ASTs, no size bound;
* C10-b (`canon_roundtrip_partial`, `canon_injective_up_to_compare_partial`): for the
  same six systems, on every non-wildcard version that has the shape of an AST image
  (`IsAstImage`), the three clauses of the property and the injectivity clause;
* `parse_image`: everything `Parse` accepts in these systems IS such an image (proved, for
  all inputs; NuGet's floating labels `1.0.0-a*` included), hence `canon_roundtrip` and
  `canon_injective_up_to_compare`: the property itself for Default, Cargo, Go, NPM, Composer
  and NuGet on every non-wildcard version `Parse` accepts (`c10_generic`);
* RubyGems, release-only versions (the property's own restriction): `gem_release` — the
  property for everything `Parse` accepts without the prerelease flag (`GemRelease`);
* PyPI (PEP 440): `pypi` — the property for everything `Parse` accepts without wildcard and
  without an '∞' release number (`NoInfinity`); and a fourth refutation found while proving,
  `pypi_leading_infinity_not_roundtrip` (`01!∞` is accepted, its canonical form `1!∞.0.0` is
  not; finding F-C10-pypi-inf, confirmed on the Go code);
* Maven: `maven` — the property for every ASCII version string `Parse` accepts that does not
  begin with a separator (`NoLeadingSeparator`); here the canonical string parses back to
  exactly the same version (split into elements, the trimming index machine, the numbers).
  ASCII is the documented domain of the Maven model (`strings.ToLower`).
-/
namespace DepsDev.Props.C10

open DepsDev DepsDev.Semver DepsDev.Proofs.C10 DepsDev.Proofs.Digits

/-! ## Statements -/

/-- The three round-trip clauses for one version and one `showBuild` choice. -/
def RoundTrips (s : System) (v : Version) (sb : Bool) : Prop :=
  ∃ v', parse s (canon v sb) = .ok v' ∧ vcompare v v' = .ok 0 ∧ canon v' sb = canon v sb

/-- Clause 1–3 for everything `Parse` accepts in system `s`. -/
def CanonRoundTripFull (s : System) : Prop :=
  ∀ (b : Bytes) (v : Version) (sb : Bool), parse s b = .ok v → RoundTrips s v sb

/-- Clause 4: equal canonical strings imply equal versions. -/
def CanonInjectiveFull (s : System) : Prop :=
  ∀ (b1 b2 : Bytes) (v w : Version), parse s b1 = .ok v → parse s b2 = .ok w →
    canon v true = canon w true → vcompare v w = .ok 0

/-- Finding F-C10-wild: `Parse` also accepts wildcard patterns; the theorems exclude them. -/
def NotWildcard (v : Version) : Bool := !v.isWildcard

/-- Finding F-C10-gem (named by the property itself): RubyGems release-only versions. -/
def GemRelease (v : Version) : Bool := !v.isPrerelease

/-- Finding F-C10-mvn-leadsep: the Maven string does not begin with a separator. -/
def NoLeadingSeparator (b : Bytes) : Bool := !(b.head? == some 46 || b.head? == some 45)

/-- Finding F-C10-pypi-inf: PyPI's `Parse` accepts '∞' as a release number; the theorems exclude it. -/
def NoInfinity (v : Version) : Bool := !v.num.any (· == infinity)

/-- ASCII input (the domain in which the model's Maven lower-casing mirrors `strings.ToLower`). -/
def AsciiInput (b : Bytes) : Bool := b.all (· < 0x80)

/-- The property as stated, with the recorded exclusions as hypotheses (and the Maven model's
ASCII domain). -/
def C10Stated : Prop :=
  ∀ (s : System) (b : Bytes) (v : Version) (sb : Bool), parse s b = .ok v →
    NotWildcard v = true → (s = .rubygems → GemRelease v = true) → (s = .maven → NoLeadingSeparator b = true) →
    (s = .pypi → NoInfinity v = true) → (s = .maven → AsciiInput b = true) → RoundTrips s v sb

/-- The property read literally (every version that parses, every system). -/
def C10Full : Prop := ∀ s, CanonRoundTripFull s ∧ CanonInjectiveFull s

/-! ## Refutations of the literal reading (the three finding classes) -/

/-- What `x.1` parses to (Default). -/
def wildV : Version := { sys := .default, userNumCount := 2, num := [-1, 1] }
/-- What RubyGems `1.2.3.a` parses to. -/
def gemV : Version :=
  { sys := .rubygems, userNumCount := 3, isPrerelease := true, num := [1, 2, 3], pre := [[97]], ext := .gem [⟨[97], 0⟩] }
/-- What RubyGems `1.2.3-a` parses to. -/
def gemV' : Version :=
  { sys := .rubygems, userNumCount := 3, isPrerelease := true, num := [1, 2, 3], pre := [[97]], ext := .gem [⟨[112, 114, 101], 0⟩, ⟨[97], 0⟩] }
/-- What Maven `.1-0` parses to. -/
def mvnV : Version := { sys := .maven, ext := .maven [⟨46, [49], 1⟩] }

/-- `x.1` parses (Default) to a wildcard pattern whose canonical form `*` compares +1 with it. -/
theorem wildcard_not_roundtrip : ¬ CanonRoundTripFull .default := by
  intro h
  have hp : parse .default [120, 46, 49] = .ok wildV := by decide +kernel
  obtain ⟨v', h1, h2, _⟩ := h _ _ true hp
  have hc : canon wildV true = [42] := by decide +kernel
  rw [hc] at h1
  have hp' : parse .default [42] = .ok { sys := .default, userNumCount := 1, num := [-1] } := by decide +kernel
  rw [hp'] at h1
  injection h1 with h1
  subst h1
  revert h2
  decide +kernel

theorem wildcard_witness_excluded : NotWildcard wildV = false := by decide

/-- RubyGems `1.2.3.a`: the canonical form `1.2.3-a` parses to `1.2.3.pre.a`, which compares -1. -/
theorem gem_prerelease_not_roundtrip : ¬ CanonRoundTripFull .rubygems := by
  intro h
  have hp : parse .rubygems [49, 46, 50, 46, 51, 46, 97] = .ok gemV := by decide +kernel
  obtain ⟨v', h1, h2, _⟩ := h _ _ true hp
  have hc : canon gemV true = [49, 46, 50, 46, 51, 45, 97] := by
    have e1 : valueBytes 1 = [49] := by rw [valueBytes_num 1 (by decide) (by decide)]; exact natToBytes_lt10 1 (by decide)
    have e2 : valueBytes 2 = [50] := by rw [valueBytes_num 2 (by decide) (by decide)]; exact natToBytes_lt10 2 (by decide)
    have e3 : valueBytes 3 = [51] := by rw [valueBytes_num 3 (by decide) (by decide)]; exact natToBytes_lt10 3 (by decide)
    have pre_bytes : "pre".toUTF8.toList = [112, 114, 101] := by rw [toList_eq]; rfl
    unfold canon
    simp only [gemV, pre_bytes]
    simp [canon.valueBytes', Version.atLeast3, Version.getNum, List.range, List.range.loop, joinWith, e1, e2, e3]
  rw [hc] at h1
  have hp' : parse .rubygems [49, 46, 50, 46, 51, 45, 97] = .ok gemV' := by decide +kernel
  rw [hp'] at h1
  injection h1 with h1
  subst h1
  have hcmp : vcompare gemV gemV' = .ok (-1) := by
    have h0 : compareNums [1, 2, 3] [1, 2, 3] = 0 := compareNums_refl _
    have h1 : gemElemCmp ⟨[97], 0⟩ ⟨[112, 114, 101], 0⟩ = -1 := by decide +kernel
    simp [vcompare, gemV, gemV', h0, gemElemsCompare, h1, thenInt]
  rw [hcmp] at h2
  exact absurd h2 (by decide)

theorem gem_witness_excluded : GemRelease gemV = false := by decide

/-- Maven `.1-0`: the canonical form `1` loses the leading separator and compares +1. -/
theorem maven_leading_separator_not_roundtrip : ¬ CanonRoundTripFull .maven := by
  intro h
  have hp : parse .maven [46, 49, 45, 48] = .ok mvnV := by decide +kernel
  obtain ⟨v', h1, h2, _⟩ := h _ _ true hp
  have hc : canon mvnV true = [49] := by decide +kernel
  rw [hc] at h1
  have hp' : parse .maven [49] = .ok { sys := .maven, ext := .maven [⟨0, [49], 1⟩] } := by decide +kernel
  rw [hp'] at h1
  injection h1 with h1
  subst h1
  revert h2
  decide +kernel

theorem maven_witness_excluded : NoLeadingSeparator [46, 49, 45, 48] = false := by decide

/-- Hence the literal reading fails on the model (as on the Go code: the three witnesses are
replayed by the correspondence harness). -/
theorem c10Full_refuted : ¬ C10Full := fun h => wildcard_not_roundtrip (h .default).1

/-! ## D1 — numbers -/

/-- Printing a number and parsing it back: value, digits only, non-empty, no leading zero,
and `parseNum` returns it when it is below `infinity`. -/
theorem digits_roundtrip (n : Nat) :
    digitsVal (natToBytes n) = n ∧ (natToBytes n).all isDigitB = true ∧ natToBytes n ≠ [] ∧
    ((natToBytes n).head? = some 48 → n = 0) ∧
    ((n : Int) < infinity → parseNum (natToBytes n) = some (n : Int)) :=
  ⟨digitsVal_natToBytes n, natToBytes_all_digit n, natToBytes_ne_nil n, natToBytes_head_zero n,
   parseNum_natToBytes n⟩

/-! ## C10-a — the AST of a canonical SemVer-family version -/

/-- Default, Cargo, Go, NPM, NuGet, Composer. -/
def IsGeneric (s : System) : Prop :=
  s = .default ∨ s = .cargo ∨ s = .go ∨ s = .npm ∨ s = .nuget ∨ s = .composer

theorem generic_iff (s : System) : IsGeneric s ↔ Generic s = true := by
  cases s <;> simp [IsGeneric, Generic]

/-- **C10-a.** For every AST `a` valid for the system (at least three numbers below
`infinity`, count within the system's limit, identifiers over `[0-9A-Za-z-]`), `Parse` on its
text returns its embedding. -/
theorem parse_render (s : System) (hs : IsGeneric s) (a : SemVerAst) (ha : a.Valid s false) :
    parse s (a.render s) = .ok (a.embed s) :=
  Proofs.C10.parse_render s ((generic_iff s).mp hs) a ha

/-- The same through `System.parse(str, allowInfinity)` (span bounds; '∞' components allowed
when `ai`), up to `userNumCount`, which the `∞.∞.∞` shortcut leaves 0. -/
theorem parseInf_render (s : System) (hs : IsGeneric s) (ai : Bool) (a : SemVerAst) (ha : a.Valid s ai) :
    ∃ k, parseInf s (a.render s) ai = .ok { a.embed s with userNumCount := k } :=
  Proofs.C10.parseInf_render s ((generic_iff s).mp hs) ai a ha

/-- Non-vacuity: `1.2.3-rc.1+b7` (NPM) and `v0.10.0-pre` (Go) are valid ASTs. -/
example : (⟨[1, 2, 3], [[114, 99], [49]], [[98, 55]]⟩ : SemVerAst).Valid .npm false := by
  refine ⟨by decide, Or.inl (by decide), ?_, by decide, by decide, by decide⟩
  intro x hx
  simp at hx
  rcases hx with rfl | rfl | rfl <;> exact ⟨by decide, Or.inl (by decide)⟩

example : (⟨[0, 10, 1], [[112, 114, 101]], []⟩ : SemVerAst).Valid .go false := by
  refine ⟨by decide, Or.inl (by decide), ?_, by decide, by decide, by decide⟩
  intro x hx
  simp at hx
  rcases hx with rfl | rfl | rfl <;> exact ⟨by decide, Or.inl (by decide)⟩

/-! ## C10-b — the round trip -/

/-- `v` has the shape of a SemVer-family version of system `s`: the image of an AST (numbers,
possibly fewer than three or with wildcards, prerelease identifiers, build identifiers)
under the embedding, whatever its `userNumCount` and `isPrerelease`. -/
def IsAstImage (s : System) (v : Version) : Prop := ∃ bids, Shape s v bids

/-- **The tie (proved).** Everything `Parse` accepts in a SemVer-family system is an AST image
(NuGet's floating labels `1.0.0-a*` included: its identifiers may contain one `*`). -/
theorem parse_image (s : System) (hs : IsGeneric s) (b : Bytes) (v : Version) (hp : parse s b = .ok v) :
    IsAstImage s v :=
  parse_shape s ((generic_iff s).mp hs) b v hp

/-- **C10-b, clauses 1–3 (partial).** For a SemVer-family system, every non-wildcard AST image
round-trips through its canonical string, with or without build metadata. -/
theorem canon_roundtrip_partial (s : System) (hs : IsGeneric s) (v : Version) (hv : IsAstImage s v)
    (hw : NotWildcard v = true) (sb : Bool) : RoundTrips s v sb := by
  obtain ⟨bids, hsh⟩ := hv
  have hw' : v.isWildcard = false := by simpa [NotWildcard] using hw
  obtain ⟨h1, _, h3, h4⟩ := canon_roundtrip_shape s ((generic_iff s).mp hs) v bids sb hsh hw'
  exact ⟨_, h1, h3, h4⟩

/-- **C10-b, clause 4 (partial).** Two non-wildcard AST images with the same canonical string
compare equal. -/
theorem canon_injective_up_to_compare_partial (s : System) (hs : IsGeneric s) (v w : Version)
    (hv : IsAstImage s v) (hw : IsAstImage s w) (hnv : NotWildcard v = true) (hnw : NotWildcard w = true)
    (h : canon v true = canon w true) : vcompare v w = .ok 0 := by
  obtain ⟨bv, hsv⟩ := hv
  obtain ⟨bw, hsw⟩ := hw
  have hv' : v.isWildcard = false := by simpa [NotWildcard] using hnv
  have hw' : w.isWildcard = false := by simpa [NotWildcard] using hnw
  obtain ⟨pv, _, cv, _⟩ := canon_roundtrip_shape s ((generic_iff s).mp hs) v bv true hsv hv'
  obtain ⟨pw, rw', _, _⟩ := canon_roundtrip_shape s ((generic_iff s).mp hs) w bw true hsw hw'
  rw [h, pw] at pv
  injection pv with pv
  rw [← vcompare_reparsed_right v w _ rw', pv]
  exact cv

/-- **C10, clauses 1–3, for the SemVer-family systems**: every non-wildcard version `Parse`
accepts round-trips through its canonical string. -/
theorem canon_roundtrip (s : System) (hs : IsGeneric s) (b : Bytes) (v : Version) (sb : Bool)
    (hp : parse s b = .ok v) (hw : NotWildcard v = true) : RoundTrips s v sb :=
  canon_roundtrip_partial s hs v (parse_image s hs b v hp) hw sb

/-- **C10, clause 4, for the SemVer-family systems**: two non-wildcard parsed versions with the
same canonical string compare equal. -/
theorem canon_injective_up_to_compare (s : System) (hs : IsGeneric s) (b1 b2 : Bytes) (v w : Version)
    (hp1 : parse s b1 = .ok v) (hp2 : parse s b2 = .ok w) (hnv : NotWildcard v = true) (hnw : NotWildcard w = true)
    (h : canon v true = canon w true) : vcompare v w = .ok 0 :=
  canon_injective_up_to_compare_partial s hs v w (parse_image s hs b1 v hp1) (parse_image s hs b2 w hp2) hnv hnw h

/-- The property as stated (`C10Stated`) restricted to the six SemVer-family systems. -/
theorem c10_generic (s : System) (hs : IsGeneric s) :
    (∀ (b : Bytes) (v : Version) (sb : Bool), parse s b = .ok v → NotWildcard v = true → RoundTrips s v sb) ∧
    (∀ (b1 b2 : Bytes) (v w : Version), parse s b1 = .ok v → parse s b2 = .ok w → NotWildcard v = true →
      NotWildcard w = true → canon v true = canon w true → vcompare v w = .ok 0) :=
  ⟨fun b v sb hp hw => canon_roundtrip s hs b v sb hp hw,
   fun b1 b2 v w h1 h2 hv hw h => canon_injective_up_to_compare s hs b1 b2 v w h1 h2 hv hw h⟩

/-- Non-vacuity for NuGet's floating labels: `1.0.0-Beta*` is accepted, is not a wildcard
(its numbers are `1.0.0`), and is covered by the theorems. -/
example : ∃ v, parse .nuget [49, 46, 48, 46, 48, 45, 66, 101, 116, 97, 42] = .ok v ∧ NotWildcard v = true := by
  refine ⟨{ sys := .nuget, userNumCount := 3, isPrerelease := true, num := [1, 0, 0], pre := [[66, 101, 116, 97, 42]] }, ?_, ?_⟩ <;>
    decide +kernel

/-- Non-vacuity: NPM `v1.2-Beta-1+x.y` is accepted, is not a wildcard, and its canonical string
is `1.2.0-Beta-1+x.y`. -/
example : ∃ v, parse .npm [118, 49, 46, 50, 45, 66, 101, 116, 97, 45, 49, 43, 120, 46, 121] = .ok v ∧
    NotWildcard v = true := by
  refine ⟨{ sys := .npm, userNumCount := 2, isPrerelease := true, num := [1, 2], pre := [[66, 101, 116, 97, 45, 49]], build := [43, 120, 46, 121] }, ?_, ?_⟩ <;>
    decide +kernel

/-! ## RubyGems, release-only -/

/-- **C10 for RubyGems release-only versions** (all four clauses): every version `Parse` accepts
without the prerelease flag round-trips through its canonical string, and two such versions with
the same canonical string compare equal. -/
theorem gem_release :
    (∀ (b : Bytes) (v : Version) (sb : Bool), parse .rubygems b = .ok v → GemRelease v = true →
      RoundTrips .rubygems v sb) ∧
    (∀ (b1 b2 : Bytes) (v w : Version), parse .rubygems b1 = .ok v → parse .rubygems b2 = .ok w →
      GemRelease v = true → GemRelease w = true → canon v true = canon w true → vcompare v w = .ok 0) := by
  constructor
  · intro b v sb hp hg
    have hrel : v.isPrerelease = false := by simpa [GemRelease] using hg
    obtain ⟨h1, h2, h3⟩ := gem_release_roundtrip v sb (parse_gem_release b v hp hrel)
    exact ⟨_, h1, h2, h3⟩
  · intro b1 b2 v w hp1 hp2 hg1 hg2 h
    have hr1 : v.isPrerelease = false := by simpa [GemRelease] using hg1
    have hr2 : w.isPrerelease = false := by simpa [GemRelease] using hg2
    exact gem_release_injective v w (parse_gem_release b1 v hp1 hr1) (parse_gem_release b2 w hp2 hr2) h

/-- Non-vacuity: RubyGems `01.2` (leading zero, two numbers) is an accepted release; its canonical
string is `1.2.0`. -/
example : ∃ v, parse .rubygems [48, 49, 46, 50] = .ok v ∧ GemRelease v = true := by
  refine ⟨{ sys := .rubygems, userNumCount := 2, num := [1, 2, 0], ext := .gem [] }, ?_, ?_⟩ <;> decide +kernel

/-! ## Maven -/

/-- **C10 for Maven** (all four clauses): for every ASCII string `Parse` accepts that does not begin
with a separator, the canonical string parses (to exactly the same version), compares equal and
canonicalises identically; two such versions with the same canonical string compare equal. -/
theorem maven :
    (∀ (b : Bytes) (v : Version) (sb : Bool), AsciiInput b = true → NoLeadingSeparator b = true →
      parse .maven b = .ok v → RoundTrips .maven v sb) ∧
    (∀ (b1 b2 : Bytes) (v w : Version), AsciiInput b1 = true → AsciiInput b2 = true →
      NoLeadingSeparator b1 = true → NoLeadingSeparator b2 = true →
      parse .maven b1 = .ok v → parse .maven b2 = .ok w → canon v true = canon w true → vcompare v w = .ok 0) :=
  ⟨fun b v sb hb hl hp => maven_roundtrip b v sb hb hl hp,
   fun b1 b2 v w h1 h2 l1 l2 p1 p2 h => maven_injective b1 b2 v w h1 h2 l1 l2 p1 p2 h⟩

/-- Non-vacuity: Maven `1.0.0-RC1-final.0` is ASCII, does not begin with a separator and is
accepted (elements `1`, `-rc`, `-1`: zeros and `final` trimmed). -/
example : AsciiInput [49, 46, 48, 46, 48, 45, 82, 67, 49, 45, 102, 105, 110, 97, 108, 46, 48] = true ∧
    NoLeadingSeparator [49, 46, 48, 46, 48, 45, 82, 67, 49, 45, 102, 105, 110, 97, 108, 46, 48] = true ∧
    (parse .maven [49, 46, 48, 46, 48, 45, 82, 67, 49, 45, 102, 105, 110, 97, 108, 46, 48]).isOk = true := by
  refine ⟨by decide, by decide, by decide +kernel⟩

/-! ## PyPI (PEP 440) -/

/-- **C10 for PyPI** (all four clauses): every version `Parse` accepts that is not a wildcard
pattern and has no '∞' release number round-trips through its canonical string
`[E!]N.N.N[{a|b|rc}N][.postN][.devN][+local]`; two such versions with the same canonical string
compare equal. -/
theorem pypi :
    (∀ (b : Bytes) (v : Version) (sb : Bool), parse .pypi b = .ok v → NotWildcard v = true → NoInfinity v = true →
      RoundTrips .pypi v sb) ∧
    (∀ (b1 b2 : Bytes) (v w : Version), parse .pypi b1 = .ok v → parse .pypi b2 = .ok w →
      NotWildcard v = true → NotWildcard w = true → NoInfinity v = true → NoInfinity w = true →
      canon v true = canon w true → vcompare v w = .ok 0) := by
  constructor
  · intro b v sb hp hw hi
    have hw' : v.isWildcard = false := by simpa [NotWildcard] using hw
    obtain ⟨v', h1, h2, h3, _⟩ := pep_roundtrip v sb (pep_parse_shape b v hp hw' hi)
    exact ⟨v', h1, h2, h3⟩
  · intro b1 b2 v w hp1 hp2 hw1 hw2 hi1 hi2 h
    have hv' : v.isWildcard = false := by simpa [NotWildcard] using hw1
    have hw' : w.isWildcard = false := by simpa [NotWildcard] using hw2
    exact pep_injective v w (pep_parse_shape b1 v hp1 hv' hi1) (pep_parse_shape b2 w hp2 hw' hi2) h

/-- What PyPI `01!∞` parses to. -/
def pepInfV : Version :=
  { sys := .pypi, userNumCount := 1, num := [infinity, 0, 0], ext := .pep (some { epoch := 1 }) }

/-- PyPI `01!∞` is accepted, but its canonical form `1!∞.0.0` is not (`possibleVersionString`). -/
theorem pypi_leading_infinity_not_roundtrip : ¬ CanonRoundTripFull .pypi := by
  intro h
  have hp : parse .pypi [48, 49, 33, 0xE2, 0x88, 0x9E] = .ok pepInfV := by decide +kernel
  obtain ⟨v', h1, _, _⟩ := h _ _ true hp
  have hc : canon pepInfV true = [49, 33, 0xE2, 0x88, 0x9E, 46, 48, 46, 48] := by
    have e0 : valueBytes 0 = [48] := by rw [valueBytes_num 0 (by decide) (by decide)]; exact natToBytes_lt10 0 (by decide)
    have ei : valueBytes infinity = infB := valueBytes_inf
    have e1 : intToBytes 1 = [49] := by
      have : intToBytes ((1 : Nat) : Int) = natToBytes 1 := intToBytes_nat 1
      rw [show ((1 : Nat) : Int) = 1 from rfl] at this
      rw [this]; exact natToBytes_lt10 1 (by decide)
    rw [canon_pep pepInfV true (some { epoch := 1 }) rfl, printNums_eq pepInfV (by decide)]
    simp [pepText, pepInfV, pad3, renderNums, dotNums, e0, ei, e1, infB]
  rw [hc] at h1
  have hp' : parse .pypi [49, 33, 0xE2, 0x88, 0x9E, 46, 48, 46, 48] = .err := by decide +kernel
  rw [hp'] at h1
  cases h1

theorem pypi_witness_excluded : NoInfinity pepInfV = false := by decide

/-- Non-vacuity: PyPI `v1.0RC2.post3+Ab-1` is accepted, is not a wildcard and has no '∞'
(its canonical string is `1.0.0rc2.post3+Ab.1`). -/
example : ∃ v, parse .pypi [118, 49, 46, 48, 82, 67, 50, 46, 112, 111, 115, 116, 51, 43, 65, 98, 45, 49] = .ok v ∧
    NotWildcard v = true ∧ NoInfinity v = true := by
  refine ⟨{ sys := .pypi, userNumCount := 2, isPrerelease := true, num := [1, 0, 0], pre := [[114, 99], [50]],
            ext := .pep (some { pre := [114, 99], preNum := 2, postPresent := true, postNum := 3, loc := [65, 98, 46, 49] }) },
    ?_, ?_, ?_⟩ <;> decide +kernel

/-! ## All nine systems -/

/-- **C10, clauses 1–3, as stated, for all nine packaging systems** (the recorded finding classes
excluded; Maven on its ASCII domain). -/
theorem c10_stated : C10Stated := by
  intro s b v sb hp hw hgem hmvn hpy hascii
  cases s
  case default => exact canon_roundtrip .default (Or.inl rfl) b v sb hp hw
  case cargo => exact canon_roundtrip .cargo (Or.inr (Or.inl rfl)) b v sb hp hw
  case go => exact canon_roundtrip .go (Or.inr (Or.inr (Or.inl rfl))) b v sb hp hw
  case npm => exact canon_roundtrip .npm (Or.inr (Or.inr (Or.inr (Or.inl rfl)))) b v sb hp hw
  case nuget => exact canon_roundtrip .nuget (Or.inr (Or.inr (Or.inr (Or.inr (Or.inl rfl))))) b v sb hp hw
  case composer => exact canon_roundtrip .composer (Or.inr (Or.inr (Or.inr (Or.inr (Or.inr rfl))))) b v sb hp hw
  case maven => exact maven.1 b v sb (hascii rfl) (hmvn rfl) hp
  case pypi => exact pypi.1 b v sb hp hw (hpy rfl)
  case rubygems => exact gem_release.1 b v sb hp (hgem rfl)

/-- The Cargo version `1.2-Beta-1+x.y` as `Parse` leaves it (two numbers). -/
def cargoV : Version :=
  { sys := .cargo, userNumCount := 2, isPrerelease := true, num := [1, 2], pre := [[66, 101, 116, 97, 45, 49]], build := [43, 120, 46, 121] }

/-- Non-vacuity of the hypotheses: `cargoV` is a non-wildcard AST image. -/
example : IsAstImage .cargo cargoV ∧ NotWildcard cargoV = true := by
  refine ⟨⟨[[120], [121]], rfl, rfl, Or.inl (by decide), ?_, by decide, by decide, by decide, by decide⟩, by decide⟩
  intro x hx
  simp [cargoV] at hx
  rcases hx with rfl | rfl <;> exact ⟨by decide, by decide⟩

end DepsDev.Props.C10
