import DepsDev.Proofs.C03Npm
import DepsDev.Proofs.C03Cargo
import DepsDev.Proofs.C03Sat
import DepsDev.Proofs.C03Pypi
import DepsDev.Ref.MavenRange

/-!
# C03 — constraint matching agrees with each ecosystem's own implementation

Reference semantics: `Ref.NpmRange.satisfies` (node-semver), `Ref.CargoReq.matches`
(semver crate), `Ref.Pep440Spec.contains` (packaging, final-release candidates),
`Ref.MavenRange.contains` (Maven `VersionRange`), all on ASTs.

**Full statements** (`C03_npm`, `C03_cargo`, `C03_pypi`, `C03_maven`): for every
requirement AST in the ecosystem's grammar and every candidate of the property's
domain, the library's `ParseConstraint`/`Match` on the rendered text gives the
reference's answer, and a requirement with a reference-satisfying candidate is not
rejected. Each is **refuted on the model** from concrete witnesses (`*_refuted`, by
kernel evaluation of the model on the witness): these are the known findings.

**Proved** (all inputs, no bounds other than numbers below the library's `infinity`):
layer **L1, operator desugaring**, for npm and for Cargo — for every operator and every
operand shape (1 to 3 components, trailing wildcards, optional prerelease on a full
operand) and every release candidate, membership in the span built by
`opVersionToSpan` equals the reference (`npm_L1`, `cargo_L1`), hence the reference's
answer for the single-comparator requirement (`npm_single_release_partial`,
`cargo_single_release_partial`, `cargo_star`). Their hypotheses lie inside the complement
of every finding class (`npm_classes_nil`, `cargo_classes_nil`).

Layer **L1 for PyPI** on plain-release operands of up to three segments and three-segment
final-release candidates: `== <= >= < >` (`pypi_L1`), `~=` (`pypi_L1_compat`), `== N.*`
(`pypi_L1_eq_star`) against `Ref.PepClause.contains`.

**Layers L2 and L3** are proved in `Props/C03b.lean` (AND = `Intersect`, OR = `canon ∘ append` on
well-formed spans; multi-comparator requirements on release candidates, AST and token level) and
`Props/C03c.lean` (npm prerelease candidates: one comparator and AND lists); `L2_and`, `L2_or`,
`L3_npm` below are the original statements (the literal `L2_or` is false on the empty list, see C03b).

**Stated, not proved** (`C03_npm_partial`, …): the full statements restricted to inputs outside the
finding classes. What is missing after C03b/C03c rests on the correspondence harness (`agree` /
`not-rejected` oracles on every generated pair outside the classes, the model being byte-identical to
the code on the same op lines): the string layer for all requirements (tokens, `Parse` of partial
operands), hyphen ranges, OR lists with prerelease candidates, Cargo prerelease candidates, PyPI `!=`
and operands with a pre/post/dev suffix or more than three segments (`rebuildExtension` re-parses the
canonical text), and Maven entirely.
-/
namespace DepsDev.Props.C03

open DepsDev DepsDev.Semver DepsDev.Ref DepsDev.Proofs.C03

/-! ## Rendering of ASTs (canonical spelling) -/

def bs (s : String) : Bytes := s.toUTF8.toList

def renderXR : XR → Bytes
  | .x => bs "x"
  | .n k => natToBytes k

def renderIdent : Ident → Bytes
  | .num n => natToBytes n
  | .alnum s => bs s

def renderPre (l : List Ident) : Bytes :=
  if l.isEmpty then [] else 45 :: joinWith 46 (l.map renderIdent)

def renderPartial (p : Partial) : Bytes := joinWith 46 (p.nums.map renderXR) ++ renderPre p.pre

def renderVer (v : SemVerAst) : Bytes :=
  joinWith 46 [natToBytes v.major, natToBytes v.minor, natToBytes v.patch] ++ renderPre v.pre

def renderOp : Op → Bytes
  | .none => [] | .eq => bs "=" | .gt => bs ">" | .ge => bs ">=" | .lt => bs "<" | .le => bs "<="
  | .caret => bs "^" | .tilde => bs "~"

def renderComparator (c : Comparator) : Bytes := renderOp c.op ++ renderPartial c.p

def joinB (sep : Bytes) : List Bytes → Bytes
  | [] => []
  | [a] => a
  | a :: rest => a ++ sep ++ joinB sep rest

def renderAlt : Alt → Bytes
  | .hyphen lo hi => renderPartial lo ++ bs " - " ++ renderPartial hi
  | .comps cs => joinB [32] (cs.map renderComparator)

/-- npm range text: alternatives joined by ` || `, comparators by a blank. -/
def renderNpm (r : RangeAst) : Bytes := joinB (bs " || ") (r.map renderAlt)

/-- Cargo requirement text: comparators joined by `,`. -/
def renderCargo (r : RangeAst) : Bytes :=
  match r with
  | [.comps cs] => joinB [44] (cs.map renderComparator)
  | _ => []

def renderPepVer (v : PepVer) : Bytes :=
  joinWith 46 (v.rel.map natToBytes) ++
  (match v.pre with
   | some (.a, n) => bs "a" ++ natToBytes n
   | some (.b, n) => bs "b" ++ natToBytes n
   | some (.rc, n) => bs "rc" ++ natToBytes n
   | none => []) ++
  (match v.post with | some n => bs ".post" ++ natToBytes n | none => []) ++
  (match v.dev with | some n => bs ".dev" ++ natToBytes n | none => [])

def renderPepOp : PepOp → Bytes
  | .eq => bs "==" | .ne => bs "!=" | .le => bs "<=" | .ge => bs ">=" | .lt => bs "<" | .gt => bs ">"
  | .compat => bs "~="

def renderPepSpec (s : PepSpec) : Bytes :=
  joinB [44] (s.map fun c => renderPepOp c.op ++ renderPepVer c.v ++ (if c.star then bs ".*" else []))

def renderMvnVer (v : MvnVer) : Bytes :=
  joinWith 46 (v.nums.map natToBytes) ++
  (match v.qual with
   | .release => []
   | q => 45 :: (match q with
       | .alpha => bs "alpha" | .beta => bs "beta" | .milestone => bs "milestone" | .rc => bs "rc"
       | .snapshot => bs "snapshot" | .sp => bs "sp" | .release => []) ++
     (if v.qn == 0 then [] else 45 :: natToBytes v.qn))

def renderMvnItem : MvnItem → Bytes
  | .soft v => renderMvnVer v
  | .exact v => bs "[" ++ renderMvnVer v ++ bs "]"
  | .range li hi lo up =>
    (if li then bs "[" else bs "(") ++ (match lo with | some v => renderMvnVer v | none => []) ++ bs "," ++
    (match up with | some v => renderMvnVer v | none => []) ++ (if hi then bs "]" else bs ")")

def renderMvn (r : MvnRange) : Bytes := joinB [44] (r.map renderMvnItem)

/-! ## The property, at full strength -/

/-- `Match` on the parsed requirement gives the reference's answer. -/
def Agree (sys : System) (req cand : Bytes) (ref : Bool) : Prop :=
  ∀ c, parseConstraint sys req = .ok c → c.matchStr cand = .ok ref

/-- The requirement is accepted by `ParseConstraint`. -/
def NotRejected (sys : System) (req : Bytes) : Prop := (parseConstraint sys req).isOk = true

def C03_npm : Prop :=
  ∀ (r : RangeAst) (v : SemVerAst), NpmRange.valid r = true →
    Agree .npm (renderNpm r) (renderVer v) (NpmRange.satisfies r v) ∧
    (NpmRange.satisfies r v = true → NotRejected .npm (renderNpm r))

def C03_cargo : Prop :=
  ∀ (r : RangeAst) (v : SemVerAst), CargoReq.valid r = true →
    Agree .cargo (renderCargo r) (renderVer v) (CargoReq.matches r v) ∧
    (CargoReq.matches r v = true → NotRejected .cargo (renderCargo r))

/-- PyPI: candidates are final releases with a non-zero release segment. -/
def C03_pypi : Prop :=
  ∀ (s : PepSpec) (cand : List Nat), Pep440Spec.valid s = true → Pep440Spec.candOk cand = true →
    Agree .pypi (renderPepSpec s) (renderPepVer { rel := cand }) (Pep440Spec.contains s cand) ∧
    (Pep440Spec.contains s cand = true → NotRejected .pypi (renderPepSpec s))

/-- Maven: at full strength, for every candidate of the AST's version shape (the
property itself restricts candidates to those not below `0`: see `C03_maven_partial`). -/
def C03_maven : Prop :=
  ∀ (r : MvnRange) (v : MvnVer), MavenRange.valid r = true → !v.nums.isEmpty →
    Agree .maven (renderMvn r) (renderMvnVer v) (MavenRange.contains r v) ∧
    (MavenRange.contains r v = true → NotRejected .maven (renderMvn r))

/-! ## The property outside the finding classes (stated; see the header for what is proved) -/

def C03_npm_partial : Prop :=
  ∀ (r : RangeAst) (v : SemVerAst), NpmRange.valid r = true → NpmRange.classes r v = [] →
    Agree .npm (renderNpm r) (renderVer v) (NpmRange.satisfies r v) ∧
    (NpmRange.satisfies r v = true → NotRejected .npm (renderNpm r))

def C03_cargo_partial : Prop :=
  ∀ (r : RangeAst) (v : SemVerAst), CargoReq.valid r = true → CargoReq.classes r v = [] →
    Agree .cargo (renderCargo r) (renderVer v) (CargoReq.matches r v) ∧
    (CargoReq.matches r v = true → NotRejected .cargo (renderCargo r))

def C03_pypi_partial : Prop :=
  ∀ (s : PepSpec) (cand : List Nat), Pep440Spec.valid s = true → Pep440Spec.candOk cand = true →
    Pep440Spec.classes s = [] →
    Agree .pypi (renderPepSpec s) (renderPepVer { rel := cand }) (Pep440Spec.contains s cand) ∧
    (Pep440Spec.contains s cand = true → NotRejected .pypi (renderPepSpec s))

def C03_maven_partial : Prop :=
  ∀ (r : MvnRange) (v : MvnVer), MavenRange.valid r = true → !v.nums.isEmpty → MavenRange.classes r v = [] →
    Agree .maven (renderMvn r) (renderMvnVer v) (MavenRange.contains r v) ∧
    (MavenRange.contains r v = true → NotRejected .maven (renderMvn r))

/-! ## Refutations of the full statements on the model (the known findings) -/

/-- Evaluated check of `Agree` on concrete bytes. -/
def agreeB (sys : System) (req cand : Bytes) (ref : Bool) : Bool :=
  match parseConstraint sys req with
  | .ok c => c.matchStr cand == .ok ref
  | _ => true

theorem not_agree {sys : System} {req cand : Bytes} {ref : Bool} (h : agreeB sys req cand ref = false) :
    ¬ Agree sys req cand ref := by
  intro ha
  unfold agreeB at h
  cases hp : parseConstraint sys req with
  | ok c => rw [hp] at h; simp only at h; rw [ha c hp] at h; simp at h
  | err => rw [hp] at h; simp at h
  | panic => rw [hp] at h; simp at h

/-- F-C03-lt0pre: `<0.0.0-b` is the empty set; node matches `0.0.0-a`. -/
def w_lt0pre : RangeAst := [.comps [⟨.lt, ⟨[.n 0, .n 0, .n 0], [.alnum "b"]⟩⟩]]
theorem npm_lt0pre_refuted : ¬ C03_npm := fun h =>
  not_agree (by decide +kernel) (h w_lt0pre ⟨0, 0, 0, [.alnum "a"]⟩ (by decide)).1

/-- F-C03-pre000: `<=0.x ~0.0.0-0` does not match `0.0.0-0`; node does. -/
def w_pre000 : RangeAst := [.comps [⟨.le, ⟨[.n 0, .x], []⟩⟩, ⟨.tilde, ⟨[.n 0, .n 0, .n 0], [.num 0]⟩⟩]]
theorem npm_pre000_refuted : ¬ C03_npm := fun h =>
  not_agree (by decide +kernel) (h w_pre000 ⟨0, 0, 0, [.num 0]⟩ (by decide)).1

/-- F-C03-gt-succ-pre: `>1.1.0 <=1.1.1-rc.2` is empty; node matches `1.1.1-0`. -/
def w_gtsucc : RangeAst :=
  [.comps [⟨.gt, ⟨[.n 1, .n 1, .n 0], []⟩⟩, ⟨.le, ⟨[.n 1, .n 1, .n 1], [.alnum "rc", .num 2]⟩⟩]]
theorem npm_gt_succ_pre_refuted : ¬ C03_npm := fun h =>
  not_agree (by decide +kernel) (h w_gtsucc ⟨1, 1, 1, [.num 0]⟩ (by decide)).1

/-- F-C03-signed-ident: `>=1.0.0-0` does not match `1.0.0--5` (the library reads the
identifier `-5` as the number -5, below `0`); in SemVer it is alphanumeric, above every number. -/
def w_signed : RangeAst := [.comps [⟨.ge, ⟨[.n 1, .n 0, .n 0], [.num 0]⟩⟩]]
theorem npm_signed_ident_refuted : ¬ C03_npm := fun h =>
  not_agree (by decide +kernel) (h w_signed ⟨1, 0, 0, [.alnum "-5"]⟩ (by decide)).1

/-- F-C03-hyphen-wild: `3.0.2-0 - x` is rejected; node accepts it and it contains `3.0.2`. -/
def w_hyphenwild : RangeAst := [.hyphen ⟨[.n 3, .n 0, .n 2], [.num 0]⟩ ⟨[.x], []⟩]
theorem npm_hyphen_wild_refuted : ¬ C03_npm := fun h => by
  have := (h w_hyphenwild ⟨3, 0, 2, []⟩ (by decide)).2 (by decide)
  revert this; unfold NotRejected; decide +kernel

/-- F-C03-hyphen-inverted: `2.2.2 - 2.0 || <=0.3` is rejected; in node it contains `0.3.0`. -/
def w_hypheninv : RangeAst := [.hyphen ⟨[.n 2, .n 2, .n 2], []⟩ ⟨[.n 2, .n 0], []⟩, .comps [⟨.le, ⟨[.n 0, .n 3], []⟩⟩]]
theorem npm_hyphen_inverted_refuted : ¬ C03_npm := fun h => by
  have := (h w_hypheninv ⟨0, 3, 0, []⟩ (by decide)).2 (by decide)
  revert this; unfold NotRejected; decide +kernel

/-- F-C03-lt-midwild: `<1.x.2` matches `1.0.0`; node reads `<1.0.0-0`. -/
def w_midwild : RangeAst := [.comps [⟨.lt, ⟨[.n 1, .x, .n 2], []⟩⟩]]
theorem npm_lt_midwild_refuted : ¬ C03_npm := fun h =>
  not_agree (by decide +kernel) (h w_midwild ⟨1, 0, 0, []⟩ (by decide)).1

/-- F-C03-lt-partial-pre: `>=1.2.0-a <1.2` matches `1.2.0-a`; node reads `<1.2.0-0`. -/
def w_ltpartial : RangeAst := [.comps [⟨.ge, ⟨[.n 1, .n 2, .n 0], [.alnum "a"]⟩⟩, ⟨.lt, ⟨[.n 1, .n 2], []⟩⟩]]
theorem npm_lt_partial_pre_refuted : ¬ C03_npm := fun h =>
  not_agree (by decide +kernel) (h w_ltpartial ⟨1, 2, 0, [.alnum "a"]⟩ (by decide)).1

/-- F-C03-star-collapse: `x || >2.1.3 <=3.1.2-a` matches `3.1.2-a`; node collapses the range to `*`. -/
def w_star : RangeAst :=
  [.comps [⟨.none, ⟨[.x], []⟩⟩], .comps [⟨.gt, ⟨[.n 2, .n 1, .n 3], []⟩⟩, ⟨.le, ⟨[.n 3, .n 1, .n 2], [.alnum "a"]⟩⟩]]
theorem npm_star_collapse_refuted : ¬ C03_npm := fun h =>
  not_agree (by decide +kernel) (h w_star ⟨3, 1, 2, [.alnum "a"]⟩ (by decide)).1

/-- F-C03-or-merge-pre: `>=1.0.0-a <=2.0.0-a || >=2.0.0-a <3.0.0-a` does not match `2.0.0-b`: `canon`
merges the two alternatives' spans `[1.0.0-a, 2.0.0-a]`, `[2.0.0-a, 3.0.0-a)` (they meet at `2.0.0-a`
and all four bounds carry the same tag) into `[1.0.0-a, 3.0.0-a)`, which has no bound with the
candidate's numbers left; node admits `2.0.0-b` through `>=2.0.0-a`. -/
def w_ormerge : RangeAst :=
  [.comps [⟨.ge, ⟨[.n 1, .n 0, .n 0], [.alnum "a"]⟩⟩, ⟨.le, ⟨[.n 2, .n 0, .n 0], [.alnum "a"]⟩⟩],
   .comps [⟨.ge, ⟨[.n 2, .n 0, .n 0], [.alnum "a"]⟩⟩, ⟨.lt, ⟨[.n 3, .n 0, .n 0], [.alnum "a"]⟩⟩]]
theorem npm_or_merge_pre_refuted : ¬ C03_npm := fun h =>
  not_agree (by decide +kernel) (h w_ormerge ⟨2, 0, 0, [.alnum "b"]⟩ (by decide)).1

/-- F-C03-cargo-pre-partial: Cargo `~3,>3.1.2-10` matches `3.1.2-a`; the crate does not. -/
def w_cargopre : RangeAst := [.comps [⟨.tilde, ⟨[.n 3], []⟩⟩, ⟨.gt, ⟨[.n 3, .n 1, .n 2], [.num 10]⟩⟩]]
theorem cargo_pre_partial_refuted : ¬ C03_cargo := fun h =>
  not_agree (by decide +kernel) (h w_cargopre ⟨3, 1, 2, [.alnum "a"]⟩ (by decide)).1

/-- F-C03-ne-pre0: PyPI `>=2,!=0rc1` is rejected; packaging accepts it and it contains `2.1`. -/
def w_nepre0 : PepSpec := [⟨.ge, { rel := [2] }, false⟩, ⟨.ne, { rel := [0], pre := some (.rc, 1) }, false⟩]
theorem pypi_ne_pre0_refuted : ¬ C03_pypi := fun h => by
  have := (h w_nepre0 [2, 1] (by decide) (by decide)).2 (by decide)
  revert this; unfold NotRejected; decide +kernel

/-- F-C03-mvn-neg: Maven `(,1.0]` does not match `0-rc-1`; Maven's `VersionRange` does. -/
def w_mvnneg : MvnRange := [.range false true none (some { nums := [1, 0] })]
theorem maven_neg_refuted : ¬ C03_maven := fun h =>
  not_agree (by decide +kernel) (h w_mvnneg { nums := [0], qual := .rc, qn := 1 } (by decide) (by decide)).1

/-- The witnesses are outside the partial statements' hypotheses: each falls in its class. -/
example : NpmRange.classes w_lt0pre ⟨0, 0, 0, [.alnum "a"]⟩ = ["F-C03-lt0pre"] ∧
    NpmRange.classes w_pre000 ⟨0, 0, 0, [.num 0]⟩ = ["F-C03-pre000"] ∧
    NpmRange.classes w_gtsucc ⟨1, 1, 1, [.num 0]⟩ = ["F-C03-gt-succ-pre"] ∧
    NpmRange.classes w_signed ⟨1, 0, 0, [.alnum "-5"]⟩ = ["F-C03-signed-ident"] ∧
    NpmRange.classes w_hyphenwild ⟨3, 0, 2, []⟩ = ["F-C03-hyphen-wild"] ∧
    NpmRange.classes w_hypheninv ⟨0, 3, 0, []⟩ = ["F-C03-hyphen-inverted"] ∧
    NpmRange.classes w_midwild ⟨1, 0, 0, []⟩ = ["F-C03-lt-midwild"] ∧
    NpmRange.classes w_ltpartial ⟨1, 2, 0, [.alnum "a"]⟩ = ["F-C03-lt-partial-pre"] ∧
    NpmRange.classes w_star ⟨3, 1, 2, [.alnum "a"]⟩ = ["F-C03-star-collapse"] ∧
    NpmRange.classes w_ormerge ⟨2, 0, 0, [.alnum "b"]⟩ = ["F-C03-or-merge-pre"] ∧
    CargoReq.classes w_cargopre ⟨3, 1, 2, [.alnum "a"]⟩ = ["F-C03-cargo-pre-partial"] ∧
    Pep440Spec.classes w_nepre0 = ["F-C03-ne-pre0"] ∧
    MavenRange.classes w_mvnneg { nums := [0], qual := .rc, qn := 1 } = ["F-C03-mvn-neg"] := by
  decide +kernel

/-! ## Layer L1: operator desugaring (proved, all inputs) -/

/-- Membership of a candidate in the span the library builds for one comparator. -/
def spanSat (sys : System) (tok : Nat) (p : Partial) (x : SemVerAst) : Outcome Bool :=
  (opVersionToSpan tok (embedPartial sys p)).bind (fun s => s.contains (embedVer sys x) false)

/-- The L1 domain of a comparator: 1 to 3 components with trailing wildcards only and
numbers below `infinity - 1`; a prerelease only on a full operand; not `<=0.0.0-pre`
(its lower bound is the library's minimum version `0.0.0-0`: finding class `pre000`). -/
structure L1Dom (c : Comparator) : Prop where
  shape : TShape c.p.nums
  pre : c.p.pre ≠ [] → c.p.nums.length = 3 ∧ XR.x ∉ c.p.nums
  le0 : c.op = .le → c.p.pre ≠ [] → c.p.nums ≠ [.n 0, .n 0, .n 0]

/-- A release candidate with numbers below `infinity`. -/
structure RelCand (x : SemVerAst) : Prop where
  rel : x.pre = []
  major : x.major < B∞
  minor : x.minor < B∞
  patch : x.patch < B∞

/-- **L1, npm**: for every operator and operand shape, span membership of a release
candidate is the conjunction of node-semver's desugared comparators. -/
theorem npm_L1 (c : Comparator) (hc : L1Dom c) (x : SemVerAst) (hx : RelCand x) :
    spanSat .npm (tokOf c.op) c.p x = .ok ((desugarComparator c).all (·.test x)) := by
  obtain ⟨op, nums, pre⟩ := c
  obtain ⟨M, m, p, xpre⟩ := x
  have hr : xpre = [] := hx.rel
  subst hr
  have key : L1Npm op := by
    cases op
    · exact l1_npm_none
    · exact l1_npm_eq
    · exact l1_npm_gt
    · exact l1_npm_ge
    · exact l1_npm_lt
    · exact l1_npm_le
    · exact l1_npm_caret
    · exact l1_npm_tilde
  exact key nums hc.shape pre hc.pre hc.le0 M m p hx.major hx.minor hx.patch

/-- **npm, single comparator, release candidate** (partial theorem): the library's span for
the comparator contains the candidate exactly when `semver.satisfies` says so. -/
theorem npm_single_release_partial (c : Comparator) (hc : L1Dom c) (x : SemVerAst) (hx : RelCand x) :
    spanSat .npm (tokOf c.op) c.p x = .ok (NpmRange.satisfies [.comps [c]] x) := by
  rw [npm_L1 c hc x hx, satisfies_single_release c x hx.rel]

/-- **L1, Cargo**: for every operator (none = caret, or a wildcard pattern) and operand
shape, span membership of a release candidate is the crate's `matches_impl`. -/
theorem cargo_L1 (c : Comparator) (hc : L1Dom c) (hstar : c.p.nums ≠ [.x] ∧ c.p.nums ≠ [.x, .x] ∧ c.p.nums ≠ [.x, .x, .x])
    (x : SemVerAst) (hx : RelCand x) :
    spanSat .cargo (tokOfCargo c.op c.p.nums) c.p x = .ok (matchesImpl (cargoComparator c) x) := by
  obtain ⟨op, nums, pre⟩ := c
  obtain ⟨M, m, p, xpre⟩ := x
  have hr : xpre = [] := hx.rel
  subst hr
  have key : L1Cargo op := by
    cases op
    · exact l1_cargo_none
    · exact l1_cargo_eq
    · exact l1_cargo_gt
    · exact l1_cargo_ge
    · exact l1_cargo_lt
    · exact l1_cargo_le
    · exact l1_cargo_caret
    · exact l1_cargo_tilde
  exact key nums ⟨hc.shape, hstar.1, hstar.2.1, hstar.2.2⟩ pre hc.pre hc.le0 M m p hx.major hx.minor hx.patch

/-- **Cargo, single comparator, release candidate** (partial theorem). -/
theorem cargo_single_release_partial (c : Comparator) (hc : L1Dom c)
    (hstar : c.p.nums ≠ [.x] ∧ c.p.nums ≠ [.x, .x] ∧ c.p.nums ≠ [.x, .x, .x])
    (x : SemVerAst) (hx : RelCand x) :
    spanSat .cargo (tokOfCargo c.op c.p.nums) c.p x = .ok (CargoReq.matches [.comps [c]] x) := by
  rw [cargo_L1 c hc hstar x hx, matches_single_release c x hx.rel (by
    obtain ⟨op, nums, pre⟩ := c
    cases hc.shape <;> simp_all [Partial.isX])]

/-- **Cargo `*`**: the bare wildcard requirement matches every release candidate. -/
theorem cargo_star (x : SemVerAst) (hx : RelCand x) :
    spanSat .cargo tokEmpty ⟨[.x], []⟩ x = .ok (CargoReq.matches [.comps [⟨.none, ⟨[.x], []⟩⟩]] x) := by
  have h := l1_npm_none
  obtain ⟨M, m, p, xpre⟩ := x
  have hr : xpre = [] := hx.rel
  subst hr
  exact cargo_star_aux M m p hx.major hx.minor hx.patch

/-- Membership of a final-release candidate (three segments) in the span the library builds
for one PyPI clause on a plain-release operand. -/
def pepSpanSat (tok : Nat) (lo : Version) (x y z : Nat) : Outcome Bool :=
  (opVersionToSpan tok lo).bind (fun s => s.contains (embedPepRel [x, y, z]) false)

/-- Token type of a PEP 440 operator. -/
def pepTok : PepOp → Nat
  | .eq => tokEqual | .ne => tokNotEqual | .le => tokLessEqual | .ge => tokGreaterEqual
  | .lt => tokLess | .gt => tokGreater | .compat => tokBacon

/-- **L1, PyPI**: `== <= >= < >` on a plain release of one to three segments (numbers below
`infinity - 1`), every final-release candidate of three segments: span membership is
`Ref.PepClause.contains`. (`!=` builds two spans through `excludeToSpans`; it is not covered
here and rests on the exhaustive correspondence stream.) -/
theorem pypi_L1 (op : PepOp) (hop : op = .eq ∨ op = .le ∨ op = .ge ∨ op = .lt ∨ op = .gt)
    (rel : List Nat) (hr : RShape rel) (x y z : Nat) (hx : x < B∞) (hy : y < B∞) (hz : z < B∞) :
    pepSpanSat (pepTok op) (embedPepRel rel) x y z = .ok (PepClause.contains ⟨op, { rel := rel }, false⟩ [x, y, z]) := by
  rcases hop with h | h | h | h | h <;> subst h
  · exact l1_py_eq rel hr x y z hx hy hz
  · exact l1_py_le rel hr x y z hx hy hz
  · exact l1_py_ge rel hr x y z hx hy hz
  · exact l1_py_lt rel hr x y z hx hy hz
  · exact l1_py_gt rel hr x y z hx hy hz

/-- **L1, PyPI `~=`** on two or three release segments (one segment is rejected by both sides). -/
theorem pypi_L1_compat (rel : List Nat) (hr : RShape rel) (h2 : 2 ≤ rel.length)
    (x y z : Nat) (hx : x < B∞) (hy : y < B∞) (hz : z < B∞) :
    pepSpanSat tokBacon (embedPepRel rel) x y z = .ok (PepClause.contains ⟨.compat, { rel := rel }, false⟩ [x, y, z]) := by
  cases hr with
  | r1 a ha => simp at h2
  | r2 a b ha hb => exact l1_py_compat2 a b x y z ha hb hx hy hz
  | r3 a b c ha hb hc => exact l1_py_compat3 a b c x y z ha hb hc hx hy hz

/-- **L1, PyPI `== N.*` / `== N.N.*`** (prefix matching). -/
theorem pypi_L1_eq_star (rel : List Nat) (hr : RShape rel) (h2 : rel.length ≤ 2)
    (x y z : Nat) (hx : x < B∞) (hy : y < B∞) (hz : z < B∞) :
    pepSpanSat tokEqual (embedPepStar rel) x y z = .ok (PepClause.contains ⟨.eq, { rel := rel }, true⟩ [x, y, z]) := by
  cases hr with
  | r1 a ha => exact l1_py_eqstar1 a x y z ha hx hy hz
  | r2 a b ha hb => exact l1_py_eqstar2 a b x y z ha hb hx hy hz
  | r3 a b c ha hb hc => simp at h2

/-- `~=` with a single release segment is rejected by the library, as by packaging. -/
example : opVersionToSpan tokBacon (embedPepRel [1]) = .err ∧ Pep440Spec.valid [⟨.compat, { rel := [1] }, false⟩] = false := by
  constructor <;> decide +kernel

/-- The hypotheses of the L1 theorems lie outside every npm finding class (the operand's
prerelease identifiers, which L1 does not read, aside). -/
theorem npm_classes_nil (c : Comparator) (hc : L1Dom c) (x : SemVerAst) (hx : x.pre = [])
    (hsig : c.p.pre.any NpmRange.identSigned = false) :
    NpmRange.classes [.comps [c]] x = [] := by
  obtain ⟨op, nums, pre⟩ := c
  obtain ⟨M, m, p, xpre⟩ := x
  simp only at hx
  subst hx
  have hs := hc.shape
  simp only at hsig
  cases hs <;>
    simp [NpmRange.classes, NpmRange.pre000, NpmRange.gtSuccPre, NpmRange.hyphenBelow, NpmRange.ltMidWild,
      NpmRange.ltPartialPre, NpmRange.starCollapse, NpmRange.allComps, NpmRange.signedIdent, NpmRange.orMergePre,
      NpmRange.pairsAny, hsig]

/-- The hypotheses of the L1 theorems lie outside every Cargo finding class. -/
theorem cargo_classes_nil (c : Comparator) (x : SemVerAst) (hx : x.pre = [])
    (hsig : c.p.pre.any NpmRange.identSigned = false) :
    CargoReq.classes [.comps [c]] x = [] := by
  obtain ⟨M, m, p, xpre⟩ := x
  simp only at hx
  subst hx
  simp [CargoReq.classes, NpmRange.pre000, NpmRange.gtSuccPre, CargoReq.prePartial, NpmRange.signedIdent, hsig]

/-! ## Layers L2 and L3 (the original statements; see `Props/C03b.lean`, `Props/C03c.lean` for what is proved) -/

/-- **L2, AND** (what `andList` does with two comparators): matching a release candidate
against the intersection of the two single-span sets is the conjunction of the two span
memberships. Follows from C09's intersection law for release versions; checked here by the
correspondence (`match` on every generated two- and three-comparator list). -/
def L2_and (sys : System) : Prop :=
  ∀ (s1 s2 : Span) (i : VSet) (x : SemVerAst) (b1 b2 b : Bool), RelCand x →
    VSet.intersect ⟨.default, [s1]⟩ ⟨.default, [s2]⟩ = .ok i →
    s1.contains (embedVer sys x) false = .ok b1 → s2.contains (embedVer sys x) false = .ok b2 →
    i.matchVersion (embedVer sys x) false = .ok b → b = (b1 && b2)

/-- **L2, OR** (what `orList` does): matching against the canonicalised concatenation of the
alternatives' spans is the disjunction of the memberships. Follows from C09's union law
(F13 repaired the `canon` bookkeeping); checked by the correspondence. -/
def L2_or (sys : System) : Prop :=
  ∀ (spans out : List Span) (x : SemVerAst) (b : Bool), RelCand x →
    canonSpans spans = .ok out → (VSet.mk sys out).matchVersion (embedVer sys x) false = .ok b →
    b = spans.any (fun s => s.contains (embedVer sys x) false == .ok true)

/-- **L3** (npm/Cargo prerelease admission for one comparator): for every candidate, prerelease
or not, span membership is the reference's answer. Outside the finding classes (`pre000`,
`lt0pre`); checked by the correspondence (exhaustive stream with prerelease candidates around
every operand). -/
def L3_npm : Prop :=
  ∀ (c : Comparator) (x : SemVerAst), L1Dom c → NpmRange.classes [.comps [c]] x = [] →
    spanSat .npm (tokOf c.op) c.p x = .ok (NpmRange.satisfies [.comps [c]] x)

/-! ## Non-vacuity and the embedding

The hypotheses are satisfiable by non-trivial inputs, and `embedPartial`/`embedVer` are
what `System.Parse` returns on the rendered operand / candidate (samples; the harness
checks every generated operand through the `parse` and `cparse` ops). -/

example : L1Dom ⟨.caret, ⟨[.n 0, .n 2, .x], []⟩⟩ ∧ L1Dom ⟨.le, ⟨[.n 1, .n 2, .n 3], [.alnum "rc", .num 1]⟩⟩ ∧
    RelCand ⟨0, 2, 7, []⟩ := by
  refine ⟨⟨TShape.nnx 0 2 (by decide) (by decide), by simp, by simp⟩,
    ⟨TShape.n3 1 2 3 (by decide) (by decide) (by decide), by simp, by simp⟩, ⟨rfl, by decide, by decide, by decide⟩⟩

example : spanSat .npm (tokOf .caret) ⟨[.n 0, .n 2, .x], []⟩ ⟨0, 2, 7, []⟩ = .ok true ∧
    spanSat .npm (tokOf .caret) ⟨[.n 0, .n 2, .x], []⟩ ⟨0, 3, 0, []⟩ = .ok false ∧
    NpmRange.satisfies [.comps [⟨.caret, ⟨[.n 0, .n 2, .x], []⟩⟩]] ⟨0, 2, 7, []⟩ = true := by
  refine ⟨by decide +kernel, by decide +kernel, by decide⟩

example : parse .npm (renderPartial ⟨[.n 1, .n 2, .x], []⟩) = .ok (embedPartial .npm ⟨[.n 1, .n 2, .x], []⟩) ∧
    parse .npm (renderPartial ⟨[.n 1, .n 2, .n 3], [.alnum "rc", .num 1]⟩) =
      .ok (embedPartial .npm ⟨[.n 1, .n 2, .n 3], [.alnum "rc", .num 1]⟩) ∧
    parse .cargo (renderPartial ⟨[.n 10], []⟩) = .ok (embedPartial .cargo ⟨[.n 10], []⟩) ∧
    parse .npm (renderVer ⟨4, 0, 12, []⟩) = .ok (embedVer .npm ⟨4, 0, 12, []⟩) ∧
    parse .npm (renderVer ⟨4, 0, 12, [.num 7, .alnum "x-y"]⟩) = .ok (embedVer .npm ⟨4, 0, 12, [.num 7, .alnum "x-y"]⟩) := by
  refine ⟨?_, ?_, ?_, ?_, ?_⟩ <;> decide +kernel

example : parse .pypi (renderPepVer { rel := [1, 2] }) = .ok (embedPepRel [1, 2]) ∧
    parse .pypi (renderPepVer { rel := [7] }) = .ok (embedPepRel [7]) ∧
    parse .pypi (renderPepVer { rel := [1, 2] } ++ bs ".*") = .ok (embedPepStar [1, 2]) ∧
    pepSpanSat tokBacon (embedPepRel [1, 2]) 1 9 0 = .ok true ∧ pepSpanSat tokBacon (embedPepRel [1, 2]) 2 0 0 = .ok false := by
  refine ⟨?_, ?_, ?_, ?_, ?_⟩ <;> decide +kernel

/-- The rendered witnesses are the requirement strings of `props/C03.known.json`. -/
example : renderNpm w_star = bs "x || >2.1.3 <=3.1.2-a" ∧
    renderNpm w_ormerge = bs ">=1.0.0-a <=2.0.0-a || >=2.0.0-a <3.0.0-a" ∧ renderNpm w_hypheninv = bs "2.2.2 - 2.0 || <=0.3" ∧
    renderCargo w_cargopre = bs "~3,>3.1.2-10" ∧ renderPepSpec w_nepre0 = bs ">=2,!=0rc1" ∧
    renderMvn w_mvnneg = bs "(,1.0]" ∧ renderMvnVer { nums := [0], qual := .rc, qn := 1 } = bs "0-rc-1" := by
  refine ⟨?_, ?_, ?_, ?_, ?_, ?_, ?_⟩ <;> decide +kernel

end DepsDev.Props.C03
